(* Soundness of the C02 domain (Analysis/BestMin.v) against the IR semantics, through the generic abstract
   interpreter (Analysis/AbsInt.v), and the C02 property for every program that passes [c02_check].

   Structure: lattice facts; the concretisation [BG] (state + event history); lemmas about reads/writes of
   references vs reference classes; one lemma per kind of effect (write through a non-carrier, evaluation,
   greedy replacement, discharge of a carrier through a relational fact, best := copy, swap with best,
   the PSO sweep step, ClipAll / SortByFit / ShadowAll); soundness of the atoms, of the special rules
   (copy pairs, swap pair, PSO step, and the strong rule for ForSlots: every slot is visited exactly once);
   [ba_sound]; [c02_of_check].

   The concretisation is RELATIVE TO THE BEST AGENT B0 THE TASK STARTED WITH (Section WithB0): where the single-task
   reading on a fresh space says "best.fit is still the sentinel KMAX" / "best.fit <= KMAX" / "slot fitness below
   KMAX", BG says "best = B0" / "best.fit <= B0.fit" / "slot fitness below B0.fit", and the role Clean of the initial
   population is justified by the start hypothesis [c02_start] (positions clipped, no agent below the best agent)
   instead of "every fitness is KMAX".  [c02_of_check_from] / [c02r_of_check_from] are the one-task theorems from any
   start state (the latter: a program passing [c02r_check] ends in a start state again); the original fresh-space
   theorem [c02_of_check] is the corollary B0 := the placeholder with fitness KMAX ([dump_ok_from_fresh]);
   [c02_tasks_each] / [c02_tasks] cover every finite history of tasks on one space ([tasks02]: each task re-creates
   its local arrays and inherits everything else): per task w.r.t. the best agent that task started with, and --
   by [dump_ok_from_rebase] -- for the concatenated history w.r.t. the best agent the history started with. *)
From Coq Require Import String ZArith List Bool Arith Lia.
From OV Require Import Base.FloatKey Model.Clip Model.IR Model.IRSem Analysis.AbsInt Analysis.SemLemmas Analysis.Sweep Analysis.Feasible Analysis.Counts Analysis.BestMin.
Import ListNotations.
Close Scope Z_scope.
Open Scope nat_scope.

(* ---------------------------------------------------------------- lattice facts *)
Lemma qge_refl a : qge a a = true. Proof. destruct a; reflexivity. Qed.
Lemma qge_trans a b c : qge a b = true -> qge b c = true -> qge a c = true.
Proof. destruct a, b, c; simpl; intros; try reflexivity; discriminate. Qed.
Lemma qge_min_l a b : qge a (qmin a b) = true. Proof. destruct a, b; reflexivity. Qed.
Lemma qge_min_r a b : qge b (qmin a b) = true. Proof. destruct a, b; reflexivity. Qed.
Lemma rle_refl a : rle a a = true. Proof. destruct a; reflexivity. Qed.
Lemma rle_trans a b c : rle a b = true -> rle b c = true -> rle a c = true.
Proof. destruct a, b, c; simpl; intros; try reflexivity; discriminate. Qed.
Lemma rle_max_l a b : rle a (rmax a b) = true. Proof. destruct a, b; reflexivity. Qed.
Lemma rle_max_r a b : rle b (rmax a b) = true. Proof. destruct a, b; reflexivity. Qed.

Lemma cleb_refl a : cleb a a = true.
Proof. unfold cleb. rewrite qge_refl, rle_refl. reflexivity. Qed.
Lemma cleb_trans a b c : cleb a b = true -> cleb b c = true -> cleb a c = true.
Proof.
  unfold cleb. rewrite !andb_true_iff. intros [H1 H2] [K1 K2].
  split; [eapply qge_trans|eapply rle_trans]; eassumption.
Qed.
Lemma cleb_join_l a b : cleb a (cjoin a b) = true.
Proof. unfold cleb, cjoin; simpl. rewrite qge_min_l, rle_max_l. reflexivity. Qed.
Lemma cleb_join_r a b : cleb b (cjoin a b) = true.
Proof. unfold cleb, cjoin; simpl. rewrite qge_min_r, rle_max_r. reflexivity. Qed.

Lemma ref_eqb_refl r : ref_eqb r r = true.
Proof. apply ref_eqb_eq. reflexivity. Qed.
Lemma fact_eqb_eq x y : fact_eqb x y = true <-> x = y.
Proof.
  destruct x, y; simpl; split; intros H; try discriminate.
  - apply andb_true_iff in H as [H1 H2]. apply ref_eqb_eq in H1, H2. congruence.
  - injection H as -> ->. rewrite !ref_eqb_refl. reflexivity.
  - apply andb_true_iff in H as [H1 H2]. apply ref_eqb_eq in H1, H2. congruence.
  - injection H as -> ->. rewrite !ref_eqb_refl. reflexivity.
Qed.
Lemma has_fact_in x l : has_fact x l = true <-> In x l.
Proof.
  unfold has_fact. rewrite existsb_exists. split.
  - intros (y & Hy & He). apply fact_eqb_eq in He. subst. assumption.
  - intros H. exists x. split; [assumption|apply fact_eqb_eq; reflexivity].
Qed.
Lemma subset_facts_spec l1 l2 : subset_facts l1 l2 = true <-> (forall x, In x l1 -> In x l2).
Proof.
  induction l1 as [|y t IH]; simpl.
  - split; [intros _ x []|reflexivity].
  - rewrite andb_true_iff, has_fact_in, IH. split.
    + intros [H1 H2] x [<-|Hx]; auto.
    + intros H. split; [apply H; left; reflexivity|intros x Hx; apply H; right; assumption].
Qed.

Lemma ba_leb_spec a b : ba_leb a b = true <->
  (forall k, cleb (get a k) (get b k) = true) /\ (b_locw b = true -> b_locw a = true) /\ (forall x, In x (b_facts b) -> In x (b_facts a)).
Proof.
  unfold ba_leb. rewrite !andb_true_iff, subset_facts_spec. split.
  - intros [[[[[[[H1 H2] H3] H4] H5] H6] H7] H8]. split; [|split].
    + intros k; destruct k; assumption.
    + destruct (b_locw b), (b_locw a); simpl in *; auto.
    + assumption.
  - intros (H1 & H2 & H3). repeat split; try (apply (H1 CPop)); try (apply (H1 CCur)); try (apply (H1 CTodo));
      try (apply (H1 CTr)); try (apply (H1 CShall)); try (apply (H1 CSh)); try assumption.
    destruct (b_locw b), (b_locw a); simpl in *; auto.
Qed.

Lemma ba_leb_refl a : ba_leb a a = true.
Proof. apply ba_leb_spec. split; [intros; apply cleb_refl|split; auto]. Qed.
Lemma ba_leb_trans a b c : ba_leb a b = true -> ba_leb b c = true -> ba_leb a c = true.
Proof.
  rewrite !ba_leb_spec. intros (H1 & H2 & H3) (K1 & K2 & K3). split; [|split].
  - intros k. eapply cleb_trans; [apply H1|apply K1].
  - auto.
  - auto.
Qed.
Lemma ba_join_l a b : ba_leb a (ba_join a b) = true.
Proof.
  apply ba_leb_spec. split; [|split].
  - intros k; destruct k; simpl; apply cleb_join_l.
  - simpl. intros H. apply andb_true_iff in H. tauto.
  - simpl. intros x Hx. apply filter_In in Hx. tauto.
Qed.
Lemma ba_join_r a b : ba_leb b (ba_join a b) = true.
Proof.
  apply ba_leb_spec. split; [|split].
  - intros k; destruct k; simpl; apply cleb_join_r.
  - simpl. intros H. apply andb_true_iff in H. tauto.
  - simpl. intros x Hx. apply filter_In in Hx as [_ Hx]. apply has_fact_in in Hx. assumption.
Qed.

(* ---------------------------------------------------------------- concretisation *)
Definition bhk : st -> st := fun x => x.      (* the hook is an observer *)

(* which agents a class contains, given the loop slot *)
Definition mem (cur : option nat) (x : st) (k : cls) (c : agent) : Prop :=
  match k with
  | CPop => exists j, nth_error (pop x) j = Some c /\ match cur with None => True | Some i => j < i end
  | CCur => exists i, cur = Some i /\ nth_error (pop x) i = Some c
  | CTodo => exists i j, cur = Some i /\ i < j /\ nth_error (pop x) j = Some c
  | CTr => c = tr x
  | CShall => exists j, nth_error (sh x) j = Some c /\ cur <> Some j
  | CSh => exists i, cur = Some i /\ nth_error (sh x) i = Some c
  end.

Definition cls_of (r : ref) : list cls :=
  match r with
  | Cur => [CCur] | Slot _ | Last => [CPop; CCur; CTodo] | Tr => [CTr] | Sh => [CSh] | Best => []
  end.

(* what the dumped state must satisfy w.r.t. the history before it *)
Definition dump_ok (y : st) (h1 : list event) : Prop :=
  (forall c v, In (EvEval c v) h1 -> kle (afit (best y)) v = true) /\
  (In (EvEval (apos (best y)) (afit (best y))) h1 \/ afit (best y) = KMAX) /\
  kle (afit (best y)) KMAX = true.

(* The same w.r.t. the task the events h1 belong to, started with the (inherited) best agent B0: the sentinel is
   replaced by B0's fitness, "still the placeholder" by "still B0".  On a fresh space B0 is the placeholder with
   fitness KMAX and this is [dump_ok] (dump_ok_from_fresh below). *)
Definition dump_ok_from (B0 : agent) (y : st) (h1 : list event) : Prop :=
  (forall c v, In (EvEval c v) h1 -> kle (afit (best y)) v = true) /\
  (In (EvEval (apos (best y)) (afit (best y))) h1 \/ best y = B0) /\
  kle (afit (best y)) (afit B0) = true.

(* everything up to the soundness theorem is relative to the best agent B0 the task started with *)
Section WithB0.
Variable B0 : agent.
Notation dump_ok := (dump_ok_from B0).

Section Conc.
  Variables (lbs ubs : list Z) (f : contents -> Z).

  Definition goodS (h : list event) (c : agent) : Prop :=
    feasible lbs ubs (apos c) = true /\ In (EvEval (apos c) (afit c)) h.

  Definition qual_ok (q : qual) (h : list event) (c : agent) : Prop :=
    match q with
    | QNone => wf lbs (apos c)
    | QFeas => feasible lbs ubs (apos c) = true
    | QGood => goodS h c
    end.
  Definition role_ok (r : role) (x : st) (c : agent) : Prop :=
    r = Clean -> kle (afit (best x)) (afit c) = true.
  Definition cell_ok (cl : cell) (x : st) (h : list event) (c : agent) : Prop :=
    qual_ok (fst cl) h c /\ role_ok (snd cl) x c.

  (* facts speak about references that resolve (they are created by a successful test and die with any write) *)
  Definition fact_ok (cur : option nat) (x : st) (ft : fact) : Prop :=
    match ft with
    | FLt a b => exists ca cb, getr a cur x = Some ca /\ getr b cur x = Some cb /\ klt (afit ca) (afit cb) = true
    | FGe a b => exists ca cb, getr a cur x = Some ca /\ getr b cur x = Some cb /\ klt (afit ca) (afit cb) = false
    end.

  Definition Cov (a : ba) (cur : option nat) (x : st) (h : list event) (v : Z) : Prop :=
    kle (afit (best x)) v = true \/
    exists k c, mem cur x k c /\ snd (get a k) = Carrier /\ goodS h c /\ kle (afit c) v = true.

  Record BG (a : ba) (cur : option nat) (x : st) (h : list event) : Prop := {
    g_cell : forall k c, mem cur x k c -> cell_ok (get a k) x h c;
    g_cov : forall c v, In (EvEval c v) h -> Cov a cur x h v;
    g_evf : forall c v, In (EvEval c v) h -> v = f c;
    g_bw : In (EvEval (apos (best x)) (afit (best x))) h \/ best x = B0;
    g_bmax : kle (afit (best x)) (afit B0) = true;
    g_locw : b_locw a = true -> forall i ag c, nth_error (pop x) i = Some ag -> nth_error (loc x) i = Some c ->
             klt (afit ag) (afit B0) = true -> In (EvEval c (afit ag)) h;
    g_facts : forall ft, In ft (b_facts a) -> fact_ok cur x ft;
    g_dumps : forall h1 y h2, h = h1 ++ EvDump y :: h2 -> dump_ok y h1;
    g_evfeas : forall c v, In (EvEval c v) h -> feasible lbs ubs c = true;
    g_bwf : wf lbs (apos (best x))
  }.

  Lemma qual_ok_mono q1 q2 h c : qge q1 q2 = true -> qual_ok q1 h c -> qual_ok q2 h c.
  Proof.
    destruct q1, q2; simpl; intros H K; try discriminate; try assumption.
    - eapply feasible_wf; [exact f|eassumption].
    - eapply feasible_wf; [exact f|apply K].
    - apply K.
  Qed.
  Lemma qual_ok_wf q h c : qual_ok q h c -> wf lbs (apos c).
  Proof. apply (qual_ok_mono q QNone). destruct q; reflexivity. Qed.
  Lemma qual_ok_hist q h h' c : (forall e, In e h -> In e h') -> qual_ok q h c -> qual_ok q h' c.
  Proof. destruct q; simpl; auto. intros H [K1 K2]. split; auto. Qed.
  Lemma goodS_hist h h' c : (forall e, In e h -> In e h') -> goodS h c -> goodS h' c.
  Proof. intros H [K1 K2]. split; auto. Qed.

  Lemma role_ok_mono r1 r2 x c : rle r1 r2 = true -> role_ok r1 x c -> role_ok r2 x c.
  Proof. unfold role_ok. destruct r1, r2; simpl; intros H K E; try discriminate; auto. Qed.

  Lemma cell_ok_mono c1 c2 x h c : cleb c1 c2 = true -> cell_ok c1 x h c -> cell_ok c2 x h c.
  Proof.
    unfold cleb, cell_ok. rewrite andb_true_iff. intros [H1 H2] [K1 K2].
    split; [eapply qual_ok_mono|eapply role_ok_mono]; eassumption.
  Qed.

  Lemma rle_carrier r1 r2 : rle r1 r2 = true -> r1 = Carrier -> r2 = Carrier.
  Proof. destruct r1, r2; simpl; intros; try discriminate; reflexivity. Qed.

  Lemma Cov_mono a b cur x h v : (forall k, cleb (get a k) (get b k) = true) -> Cov a cur x h v -> Cov b cur x h v.
  Proof.
    intros H [K|(k & c & K1 & K2 & K3 & K4)]; [left; assumption|right].
    exists k, c. repeat split; try assumption; try apply K3.
    specialize (H k). unfold cleb in H. apply andb_true_iff in H as [_ H]. eapply rle_carrier; eassumption.
  Qed.

  Lemma BG_mono a b cur x h : ba_leb a b = true -> BG a cur x h -> BG b cur x h.
  Proof.
    rewrite ba_leb_spec. intros (H1 & H2 & H3) [G1 G2 G3 G4 G5 G6 G7 G8 G9 G10].
    constructor; try assumption.
    - intros k c Hm. eapply cell_ok_mono; [apply H1|apply G1; assumption].
    - intros c v Hin. eapply Cov_mono; [exact H1|eapply G2; eassumption].
    - intros Hl. apply G6. auto.
    - intros ft Hf. apply G7. auto.
  Qed.
End Conc.

(* ---------------------------------------------------------------- abstract reads and writes *)
Lemma get_wr_single r cl a k : single r = true -> In k (cls_of r) -> get (wr r cl a) k = cl.
Proof. destruct r, k; simpl; intros H K; try discriminate; try reflexivity; intuition discriminate. Qed.
Lemma get_wr_weak r cl a k : single r = false -> In k (cls_of r) -> get (wr r cl a) k = cjoin (get a k) cl.
Proof. destruct r, k; simpl; intros H K; try discriminate; try reflexivity; intuition discriminate. Qed.
Lemma get_wr_out r cl a k : ~ In k (cls_of r) -> get (wr r cl a) k = get a k.
Proof. destruct r, k; simpl; intros K; try reflexivity; exfalso; apply K; auto. Qed.
Lemma locw_wr r cl a : b_locw (wr r cl a) = b_locw a. Proof. destruct r; reflexivity. Qed.
Lemma facts_wr r cl a : b_facts (wr r cl a) = b_facts a. Proof. destruct r; reflexivity. Qed.
Lemma get_with_facts a l k : get (with_facts a l) k = get a k. Proof. destruct k; reflexivity. Qed.
Lemma get_with_locw a w k : get (with_locw a w) k = get a k. Proof. destruct k; reflexivity. Qed.
Lemma get_kill r a k : get (kill r a) k = get a k. Proof. apply get_with_facts. Qed.
Lemma get_slot_written r a k : get (slot_written r a) k = get a k.
Proof. unfold slot_written. destruct (slotlike r); [apply get_with_locw|reflexivity]. Qed.
Lemma get_set_same a k cl : get (set a k cl) k = cl. Proof. destruct k; reflexivity. Qed.
Lemma get_set_other a k k' cl : k <> k' -> get (set a k cl) k' = get a k'.
Proof. destruct k, k'; simpl; intros H; try reflexivity; congruence. Qed.

Lemma rd_ge r a k : In k (cls_of r) -> cleb (get a k) (rd r a) = true.
Proof.
  destruct r; simpl; intros H; repeat (destruct H as [<- | H]); try contradiction; simpl;
    try apply cleb_refl; unfold allslots.
  all: try apply cleb_join_l.
  all: try (eapply cleb_trans; [|apply cleb_join_r]; first [apply cleb_join_l|apply cleb_join_r]).
Qed.

Lemma rd_not_carrier r a k : is_carrier (snd (rd r a)) = false -> In k (cls_of r) -> snd (get a k) <> Carrier.
Proof.
  intros H K E. pose proof (rd_ge r a k K) as L. unfold cleb in L. apply andb_true_iff in L as [_ L].
  rewrite (rle_carrier _ _ L E) in H. discriminate.
Qed.

(* ---------------------------------------------------------------- concrete reads and writes vs classes *)
Lemma getr_mem r cur x c : getr r cur x = Some c -> r <> Best -> exists k, In k (cls_of r) /\ mem cur x k c.
Proof.
  intros H Hb. apply getr_readat in H. destruct H as [-> -> | -> -> | i -> -> Hn | i Hs Hi Hn].
  - congruence.
  - exists CTr. split; [left; reflexivity|reflexivity].
  - exists CSh. split; [left; reflexivity|]. exists i. split; [reflexivity|assumption].
  - destruct r; try discriminate; simpl in Hi.
    + exists CCur. split; [left; reflexivity|]. exists i. split; assumption.
    + destruct cur as [i0|].
      * destruct (lt_eq_lt_dec i i0) as [[Hlt | ->] | Hgt].
        -- exists CPop. split; [simpl; auto|]. exists i. split; assumption.
        -- exists CCur. split; [simpl; auto|]. exists i0. split; [reflexivity|assumption].
        -- exists CTodo. split; [simpl; auto|]. exists i0, i. repeat split; assumption.
      * exists CPop. split; [simpl; auto|]. exists i. split; [assumption|exact I].
    + destruct cur as [i0|].
      * destruct (lt_eq_lt_dec i i0) as [[Hlt | ->] | Hgt].
        -- exists CPop. split; [simpl; auto|]. exists i. split; assumption.
        -- exists CCur. split; [simpl; auto|]. exists i0. split; [reflexivity|assumption].
        -- exists CTodo. split; [simpl; auto|]. exists i0, i. repeat split; assumption.
      * exists CPop. split; [simpl; auto|]. exists i. split; [assumption|exact I].
Qed.

Lemma mem_getr_single r cur x k c : single r = true -> In k (cls_of r) -> mem cur x k c -> getr r cur x = Some c.
Proof.
  destruct r; simpl; intros Hs Hk Hm; try discriminate; destruct Hk as [<- | []]; simpl in Hm.
  - destruct Hm as (i & -> & Hn). exact Hn.
  - subst c. reflexivity.
  - destruct Hm as (i & -> & Hn). exact Hn.
Qed.

Section WR.
  Variables (r : ref) (cur : option nat) (nw : agent) (x x' : st).
  Hypothesis Hs : setr r cur nw x = Some x'.
  Hypothesis Hb : r <> Best.

  Lemma setr_frame : best x' = best x /\ loc x' = loc x /\ idx x' = idx x /\ tv x' = tv x /\
                     length (pop x') = length (pop x) /\ (slotlike r = false -> pop x' = pop x).
  Proof.
    apply setr_written in Hs. destruct Hs as [-> -> | -> -> | i l -> -> Hu -> | i l Hsl Hi Hu ->]; simpl;
      repeat split; try reflexivity; try congruence.
    eapply upd_length; eassumption.
  Qed.

  Lemma setr_mem_new k c : mem cur x' k c ->
    (c = nw /\ In k (cls_of r)) \/ (mem cur x k c /\ (single r = true -> ~ In k (cls_of r))).
  Proof.
    apply setr_written in Hs. destruct Hs as [-> -> | -> -> | i l -> -> Hu -> | i l Hsl Hi Hu ->].
    - congruence.
    - destruct k; simpl; intros Hm; try (right; split; [exact Hm|intros _ [E|[]]; discriminate]).
      left. split; [exact Hm|left; reflexivity].
    - destruct k; simpl; intros Hm; try (right; split; [exact Hm|intros _ [E|[]]; discriminate]).
      + destruct Hm as (j & Hn & Hc). right. split; [|intros _ [E|[]]; discriminate].
        exists j. split; [|exact Hc]. rewrite <- (upd_nth_other _ _ _ _ _ Hu); [exact Hn|congruence].
      + destruct Hm as (i' & Hc & Hn). injection Hc as <-. rewrite (upd_nth_same _ _ _ _ Hu) in Hn. injection Hn as <-.
        left. split; [reflexivity|left; reflexivity].
    - destruct r; try discriminate; simpl in Hi.
      + (* Cur *) subst cur. destruct k; simpl; intros Hm.
        * destruct Hm as (j & Hn & Hlt). right. split; [|intros _ [E|[]]; discriminate].
          exists j. split; [|exact Hlt]. rewrite <- (upd_nth_other _ _ _ _ _ Hu); [exact Hn|lia].
        * destruct Hm as (i' & Hc & Hn). injection Hc as <-. rewrite (upd_nth_same _ _ _ _ Hu) in Hn. injection Hn as <-.
          left. split; [reflexivity|left; reflexivity].
        * destruct Hm as (i' & j & Hc & Hlt & Hn). injection Hc as <-. right. split; [|intros _ [E|[]]; discriminate].
          exists i, j. repeat split; try assumption. rewrite <- (upd_nth_other _ _ _ _ _ Hu); [exact Hn|lia].
        * right. split; [exact Hm|intros _ [E|[]]; discriminate].
        * right. split; [exact Hm|intros _ [E|[]]; discriminate].
        * right. split; [exact Hm|intros _ [E|[]]; discriminate].
      + (* Slot *) destruct k; simpl; intros Hm; try (right; split; [exact Hm|intros E; discriminate E]).
        * destruct Hm as (j & Hn & Hlt). destruct (nth_error_upd_cases _ _ _ _ _ _ Hu Hn) as [[-> ->]|[Hne Hn']].
          -- left. split; [reflexivity|simpl; auto].
          -- right. split; [exists j; split; assumption|intros E; discriminate E].
        * destruct Hm as (i' & Hc & Hn). destruct (nth_error_upd_cases _ _ _ _ _ _ Hu Hn) as [[-> ->]|[Hne Hn']].
          -- left. split; [reflexivity|simpl; auto].
          -- right. split; [exists i'; split; assumption|intros E; discriminate E].
        * destruct Hm as (i' & j & Hc & Hlt & Hn). destruct (nth_error_upd_cases _ _ _ _ _ _ Hu Hn) as [[-> ->]|[Hne Hn']].
          -- left. split; [reflexivity|simpl; auto].
          -- right. split; [exists i', j; repeat split; assumption|intros E; discriminate E].
      + (* Last *) destruct k; simpl; intros Hm; try (right; split; [exact Hm|intros E; discriminate E]).
        * destruct Hm as (j & Hn & Hlt). destruct (nth_error_upd_cases _ _ _ _ _ _ Hu Hn) as [[-> ->]|[Hne Hn']].
          -- left. split; [reflexivity|simpl; auto].
          -- right. split; [exists j; split; assumption|intros E; discriminate E].
        * destruct Hm as (i' & Hc & Hn). destruct (nth_error_upd_cases _ _ _ _ _ _ Hu Hn) as [[-> ->]|[Hne Hn']].
          -- left. split; [reflexivity|simpl; auto].
          -- right. split; [exists i'; split; assumption|intros E; discriminate E].
        * destruct Hm as (i' & j & Hc & Hlt & Hn). destruct (nth_error_upd_cases _ _ _ _ _ _ Hu Hn) as [[-> ->]|[Hne Hn']].
          -- left. split; [reflexivity|simpl; auto].
          -- right. split; [exists i', j; repeat split; assumption|intros E; discriminate E].
  Qed.
End WR.

Lemma setr_mem_old r cur nw x x' k c : setr r cur nw x = Some x' -> r <> Best ->
  mem cur x k c -> mem cur x' k c \/ (In k (cls_of r) /\ getr r cur x = Some c).
Proof.
  intros Hs Hb. apply setr_written in Hs. destruct Hs as [-> -> | -> -> | i l -> -> Hu -> | i l Hsl Hi Hu ->].
  - congruence.
  - destruct k; simpl; intros Hm; try (left; exact Hm). right. split; [left; reflexivity|congruence].
  - destruct k; simpl; intros Hm; try (left; exact Hm).
    + destruct Hm as (j & Hn & Hc). left. exists j. split; [|exact Hc].
      rewrite (upd_nth_other _ _ _ _ _ Hu); [exact Hn|congruence].
    + destruct Hm as (i' & Hc & Hn). injection Hc as <-. right. split; [left; reflexivity|exact Hn].
  - assert (Hg : forall c0, nth_error (pop x) i = Some c0 -> getr r cur x = Some c0).
    { intros c0 Hn. rewrite getr_slot by assumption. rewrite Hi. exact Hn. }
    assert (Hall : forall j, nth_error (pop x) j = Some c -> j <> i -> nth_error l j = Some c).
    { intros j Hn Hne. rewrite (upd_nth_other _ _ _ _ _ Hu); assumption. }
    destruct r; try discriminate; simpl in Hi.
    + subst cur. destruct k; simpl; intros Hm; try (left; exact Hm).
      * destruct Hm as (j & Hn & Hlt). left. exists j. split; [apply Hall; [assumption|lia]|assumption].
      * destruct Hm as (i' & Hc & Hn). injection Hc as <-. right. split; [left; reflexivity|apply Hg; exact Hn].
      * destruct Hm as (i' & j & Hc & Hlt & Hn). injection Hc as <-. left. exists i, j. repeat split; [assumption|apply Hall; [assumption|lia]].
    + destruct k; simpl; intros Hm; try (left; exact Hm).
      * destruct Hm as (j & Hn & Hlt). destruct (Nat.eq_dec j i) as [->|Hne].
        -- right. split; [simpl; auto|apply Hg; exact Hn].
        -- left. exists j. split; [apply Hall; assumption|assumption].
      * destruct Hm as (i' & Hc & Hn). destruct (Nat.eq_dec i' i) as [->|Hne].
        -- right. split; [simpl; auto|apply Hg; exact Hn].
        -- left. exists i'. split; [assumption|apply Hall; assumption].
      * destruct Hm as (i' & j & Hc & Hlt & Hn). destruct (Nat.eq_dec j i) as [->|Hne].
        -- right. split; [simpl; auto|apply Hg; exact Hn].
        -- left. exists i', j. repeat split; [assumption|assumption|apply Hall; assumption].
    + destruct k; simpl; intros Hm; try (left; exact Hm).
      * destruct Hm as (j & Hn & Hlt). destruct (Nat.eq_dec j i) as [->|Hne].
        -- right. split; [simpl; auto|apply Hg; exact Hn].
        -- left. exists j. split; [apply Hall; assumption|assumption].
      * destruct Hm as (i' & Hc & Hn). destruct (Nat.eq_dec i' i) as [->|Hne].
        -- right. split; [simpl; auto|apply Hg; exact Hn].
        -- left. exists i'. split; [assumption|apply Hall; assumption].
      * destruct Hm as (i' & j & Hc & Hlt & Hn). destruct (Nat.eq_dec j i) as [->|Hne].
        -- right. split; [simpl; auto|apply Hg; exact Hn].
        -- left. exists i', j. repeat split; [assumption|assumption|apply Hall; assumption].
Qed.

Lemma getr_setr_other r cur nw x x' r' : setr r cur nw x = Some x' -> alias r r' = false ->
  getr r' cur x' = getr r' cur x.
Proof.
  intros Hs Ha. unfold alias in Ha. apply orb_false_iff in Ha as [Ha1 Ha2].
  apply setr_written in Hs. destruct Hs as [-> -> | -> -> | i l -> -> Hu -> | i l Hsl Hi Hu ->].
  - destruct r'; try reflexivity. discriminate.
  - destruct r'; try reflexivity. discriminate.
  - destruct r'; try reflexivity. discriminate.
  - rewrite Hsl in Ha2. simpl in Ha2. destruct r'; try discriminate; reflexivity.
Qed.

Lemma getr_setr_same r cur nw x x' : setr r cur nw x = Some x' -> getr r cur x' = Some nw.
Proof.
  intros Hs. apply setr_written in Hs. destruct Hs as [-> -> | -> -> | i l -> -> Hu -> | i l Hsl Hi Hu ->]; simpl.
  - reflexivity.
  - reflexivity.
  - eapply upd_nth_same; eassumption.
  - rewrite getr_slot by assumption.
    assert (E : slot_of r cur (with_pop x l) = Some i).
    { destruct r; try discriminate; simpl in *; try assumption.
      rewrite (upd_length _ _ _ _ Hu). assumption. }
    rewrite E. simpl. eapply upd_nth_same; eassumption.
Qed.

(* facts survive a write to a reference they do not mention *)
Lemma fact_ok_setr r cur nw x x' ft : setr r cur nw x = Some x' -> fact_mentions r ft = false ->
  fact_ok cur x ft -> fact_ok cur x' ft.
Proof.
  intros Hs Hm. destruct ft as [p q|p q]; simpl in *; apply orb_false_iff in Hm as [H1 H2];
    intros (ca & cb & K1 & K2 & K3); exists ca, cb;
    rewrite (getr_setr_other _ _ _ _ _ _ Hs H1), (getr_setr_other _ _ _ _ _ _ Hs H2); auto.
Qed.

Lemma kill_facts r a ft : In ft (b_facts (kill r a)) -> In ft (b_facts a) /\ fact_mentions r ft = false.
Proof. simpl. intros H. apply filter_In in H as [H1 H2]. split; [assumption|]. apply negb_true_iff in H2. assumption. Qed.

Definition cls_eq_dec (a b : cls) : {a = b} + {a <> b}.
Proof. decide equality. Defined.

Lemma app_tail_cases {T} (h : list T) e h1 d h2 : h ++ [e] = h1 ++ d :: h2 ->
  (h2 = [] /\ e = d /\ h = h1) \/ (exists h2', h2 = h2' ++ [e] /\ h = h1 ++ d :: h2').
Proof.
  intros H. destruct h2 as [|b t] using rev_ind.
  - left. apply app_inj_tail in H as [H1 H2]. auto.
  - right. clear IHt. change (h1 ++ d :: t ++ [b]) with (h1 ++ (d :: t) ++ [b]) in H.
    rewrite app_assoc in H. apply app_inj_tail in H as [H1 H2]. subst.
    exists t. split; reflexivity.
Qed.

Section BGL.
  Variables (lbs ubs : list Z) (f : contents -> Z).
  Notation BG := (BG lbs ubs f).
  Notation cell_ok := (cell_ok lbs ubs).
  Notation goodS := (goodS lbs ubs).
  Notation Cov := (Cov lbs ubs).

  Lemma BG_read a cur x h r c : BG a cur x h -> getr r cur x = Some c -> r <> Best -> cell_ok (rd r a) x h c.
  Proof.
    intros HG Hg Hb. destruct (getr_mem _ _ _ _ Hg Hb) as (k & Hk & Hm).
    eapply cell_ok_mono; [exact f|apply rd_ge; exact Hk|]. apply (g_cell _ _ _ _ _ _ _ HG). exact Hm.
  Qed.

  Lemma Cov_hist a cur x h h' v : (forall e, In e h -> In e h') -> Cov a cur x h v -> Cov a cur x h' v.
  Proof.
    intros H [K|(k & c & K1 & K2 & K3 & K4)]; [left; assumption|right].
    exists k, c. repeat split; try assumption; try apply K3. apply H, K3.
  Qed.

  Lemma cell_ok_hist cl x h h' c : (forall e, In e h -> In e h') -> cell_ok cl x h c -> cell_ok cl x h' c.
  Proof. intros H [K1 K2]. split; [eapply qual_ok_hist; eassumption|assumption]. Qed.

  (* an event that is neither an evaluation nor a dump *)
  Lemma BG_silent a cur x h e : is_eval e = false -> is_dump e = false -> BG a cur x h -> BG a cur x (h ++ [e]).
  Proof.
    intros He Hd [G1 G2 G3 G4 G5 G6 G7 G8 G9 G10].
    assert (Hsub : forall e0, In e0 h -> In e0 (h ++ [e])) by (intros; apply in_or_app; left; assumption).
    assert (Hev : forall c v, In (EvEval c v) (h ++ [e]) -> In (EvEval c v) h).
    { intros c v Hin. apply in_app_or in Hin as [Hin|[Heq|[]]]; [assumption|subst e; discriminate]. }
    constructor; try assumption.
    - intros k c Hm. eapply cell_ok_hist; [exact Hsub|apply G1; assumption].
    - intros c v Hin. eapply Cov_hist; [exact Hsub|eapply G2, Hev; eassumption].
    - intros c v Hin. eapply G3, Hev; eassumption.
    - destruct G4; [left; apply Hsub; assumption|right; assumption].
    - intros Hl i ag c Hn Hc Hk. apply Hsub. eapply G6; eassumption.
    - intros h1 y h2 E. apply app_tail_cases in E as [(_ & E & _)|(h2' & -> & E)].
      + subst e. discriminate.
      + eapply G8; eassumption.
    - intros c v Hin. eapply G9, Hev; eassumption.
  Qed.

  Lemma BG_nil a cur x h : BG a cur x h -> BG a cur x (h ++ []).
  Proof. rewrite app_nil_r. auto. Qed.

  Lemma BG_locw_off a cur x h : BG a cur x h -> BG (with_locw a false) cur x h.
  Proof.
    intros [G1 G2 G3 G4 G5 G6 G7 G8 G9 G10]. constructor; try assumption.
    simpl. discriminate.
  Qed.

  Lemma BG_slot_written r a cur x h : BG a cur x h -> BG (slot_written r a) cur x h.
  Proof. unfold slot_written. destruct (slotlike r); [apply BG_locw_off|auto]. Qed.

  Lemma locw_slot_written r a : b_locw (slot_written r a) = true -> slotlike r = false.
  Proof. unfold slot_written. destruct (slotlike r); simpl; [discriminate|reflexivity]. Qed.

  (* a write through a reference that is not relied upon as a carrier *)
  Lemma BG_write a cur x h r old nw x' cl :
    BG a cur x h -> r <> Best -> getr r cur x = Some old -> setr r cur nw x = Some x' ->
    is_carrier (snd (rd r a)) = false ->
    cell_ok cl x h nw ->
    (b_locw a = true -> slotlike r = true -> afit nw = afit old) ->
    BG (wr r cl (kill r a)) cur x' h.
  Proof.
    intros [G1 G2 G3 G4 G5 G6 G7 G8 G9 G10] Hb Hg Hs Hnc Hcl Hlw.
    destruct (setr_frame _ _ _ _ _ Hs Hb) as (Fb & Fl & Fi & Ft & Flen & Fpop).
    assert (Hcell : forall cl0 c, cell_ok cl0 x h c -> cell_ok cl0 x' h c).
    { intros cl0 c [K1 K2]. split; [exact K1|]. unfold role_ok. rewrite Fb. exact K2. }
    constructor; try (rewrite ?Fb; assumption).
    - intros k c Hm. destruct (setr_mem_new _ _ _ _ _ Hs Hb k c Hm) as [[-> Hk]|[Hm0 Hk]].
      + destruct (single r) eqn:Es.
        * rewrite get_wr_single by assumption. apply Hcell, Hcl.
        * rewrite get_wr_weak by assumption. eapply cell_ok_mono; [exact f|apply cleb_join_r|apply Hcell, Hcl].
      + destruct (in_dec cls_eq_dec k (cls_of r)) as [Hin|Hout].
        * destruct (single r) eqn:Es; [exfalso; apply Hk; auto|].
          rewrite get_wr_weak by assumption. rewrite get_kill.
          eapply cell_ok_mono; [exact f|apply cleb_join_l|apply Hcell, G1, Hm0].
        * rewrite get_wr_out by assumption. rewrite get_kill. apply Hcell, G1, Hm0.
    - intros c v Hin. destruct (G2 c v Hin) as [K|(k & c0 & K1 & K2 & K3 & K4)]; [left; rewrite Fb; assumption|right].
      assert (Hout : ~ In k (cls_of r)) by (intros Hk; eapply rd_not_carrier; eassumption).
      destruct (setr_mem_old _ _ _ _ _ _ _ Hs Hb K1) as [Hm|[Hk _]]; [|contradiction].
      exists k, c0. rewrite get_wr_out, get_kill by assumption. repeat split; try assumption; apply K3.
    - rewrite locw_wr. simpl. intros Hl i ag c Hn Hc Hk. rewrite Fl in Hc.
      destruct (slotlike r) eqn:Esl.
      + apply setr_written in Hs. destruct Hs as [-> -> | -> -> | i0 l -> -> Hu -> | i0 l Hsl Hi Hu ->]; try discriminate.
        simpl in Hn. destruct (nth_error_upd_cases _ _ _ _ _ _ Hu Hn) as [[-> ->]|[Hne Hn']].
        * rewrite getr_slot, Hi in Hg by assumption. rewrite (Hlw Hl eq_refl) in *. eapply G6; eassumption.
        * eapply G6; eassumption.
      + rewrite (Fpop eq_refl) in Hn. eapply G6; eassumption.
    - rewrite facts_wr. intros ft Hf. apply kill_facts in Hf as [Hf Hm].
      eapply fact_ok_setr; [exact Hs|exact Hm|apply G7; exact Hf].
  Qed.
End BGL.

Lemma snd_cjoin_carrier c q : snd (cjoin c (q, Carrier)) = Carrier.
Proof. destruct c as [q0 [| |]]; reflexivity. Qed.

Lemma agent_eta a p i v : apos a = p -> aid a = i -> afit a = v -> {| apos := p; aid := i; afit := v |} = a.
Proof. destruct a; simpl; intros; subst; reflexivity. Qed.

Section BGE.
  Variables (lbs ubs : list Z) (f : contents -> Z).
  Notation BG := (BG lbs ubs f).
  Notation cell_ok := (cell_ok lbs ubs).
  Notation goodS := (goodS lbs ubs).
  Notation Cov := (Cov lbs ubs).

  (* the class a freshly written agent lands in carries the new cell *)
  Lemma written_carrier r cur nw x x' a q : setr r cur nw x = Some x' -> r <> Best ->
    exists k, mem cur x' k nw /\ In k (cls_of r) /\ snd (get (wr r (q, Carrier) a) k) = Carrier.
  Proof.
    intros Hs Hb. destruct (getr_mem _ _ _ _ (getr_setr_same _ _ _ _ _ Hs) Hb) as (k & Hk & Hm).
    exists k. split; [exact Hm|split; [exact Hk|]].
    destruct (single r) eqn:Es; [rewrite get_wr_single by assumption; reflexivity|].
    rewrite get_wr_weak by assumption. apply snd_cjoin_carrier.
  Qed.

  Lemma carrier_kept r a k q : snd (get a k) = Carrier -> snd (get (wr r (q, Carrier) a) k) = Carrier.
  Proof.
    intros H. destruct (in_dec cls_eq_dec k (cls_of r)) as [Hin|Hout].
    - destruct (single r) eqn:Es; [rewrite get_wr_single by assumption; reflexivity|].
      rewrite get_wr_weak by assumption. apply snd_cjoin_carrier.
    - rewrite get_wr_out by assumption. exact H.
  Qed.

  Lemma BG_eval a cur x h r old x' :
    BG a cur x h -> single r = true -> getr r cur x = Some old -> fst (rd r a) <> QNone ->
    setr r cur {| apos := apos old; aid := aid old; afit := f (apos old) |} x = Some x' ->
    BG (wr r (QGood, Carrier) (kill r (slot_written r a))) cur x' (h ++ [EvEval (apos old) (f (apos old))]).
  Proof.
    intros HG Hsg Hg Hq Hs.
    assert (Hb : r <> Best) by (intros ->; discriminate).
    pose proof (BG_read _ _ _ _ _ _ _ _ _ HG Hg Hb) as [Hqo _].
    assert (Hfeas : feasible lbs ubs (apos old) = true).
    { destruct (fst (rd r a)); simpl in Hqo; [congruence|exact Hqo|apply Hqo]. }
    destruct HG as [G1 G2 G3 G4 G5 G6 G7 G8 G9 G10].
    set (nw := {| apos := apos old; aid := aid old; afit := f (apos old) |}) in *.
    set (ev := EvEval (apos old) (f (apos old))).
    assert (Hsub : forall e0, In e0 h -> In e0 (h ++ [ev])) by (intros; apply in_or_app; left; assumption).
    assert (Hgn : goodS (h ++ [ev]) nw).
    { split; [exact Hfeas|]. apply in_or_app. right. left. reflexivity. }
    assert (Hsame : goodS h old -> nw = old).
    { intros [_ Hin]. apply G3 in Hin. unfold nw. apply agent_eta; auto. }
    destruct (setr_frame _ _ _ _ _ Hs Hb) as (Fb & Fl & Fi & Ft & Flen & Fpop).
    destruct (written_carrier _ _ _ _ _ (kill r (slot_written r a)) QGood Hs Hb) as (kn & Hkn1 & Hkn2 & Hkn3).
    constructor.
    - intros k c Hm. destruct (setr_mem_new _ _ _ _ _ Hs Hb k c Hm) as [[-> Hk]|[Hm0 Hk]].
      + rewrite get_wr_single by assumption. split; [exact Hgn|intros E; discriminate E].
      + rewrite get_wr_out by auto. rewrite get_kill, get_slot_written.
        destruct (G1 k c Hm0) as [K1 K2]. split; [eapply qual_ok_hist; eassumption|]. unfold role_ok. rewrite Fb. exact K2.
    - intros c v Hin. apply in_app_or in Hin as [Hin|[Hin|[]]].
      + destruct (G2 c v Hin) as [K|(k & c0 & K1 & K2 & K3 & K4)]; [left; rewrite Fb; assumption|right].
        destruct (setr_mem_old _ _ _ _ _ _ _ Hs Hb K1) as [Hm|[Hk Hgo]].
        * exists k, c0. split; [exact Hm|]. split; [|split; [eapply goodS_hist; eassumption|exact K4]].
          apply carrier_kept. rewrite get_kill, get_slot_written. exact K2.
        * rewrite Hg in Hgo. injection Hgo as <-. exists kn, nw. split; [exact Hkn1|split; [exact Hkn3|split; [exact Hgn|]]].
          rewrite (Hsame K3). exact K4.
      + injection Hin as <- <-. right. exists kn, nw. repeat split; try assumption; try apply Hgn. simpl. apply kle_refl.
    - intros c v Hin. apply in_app_or in Hin as [Hin|[Hin|[]]]; [eapply G3; eassumption|]. injection Hin as <- <-. reflexivity.
    - rewrite Fb. destruct G4; [left; apply Hsub; assumption|right; assumption].
    - rewrite Fb. exact G5.
    - rewrite locw_wr. simpl. intros Hl i ag c Hn Hc Hk. pose proof (locw_slot_written _ _ Hl) as Hsl.
      rewrite (Fpop Hsl) in Hn. rewrite Fl in Hc. apply Hsub. eapply G6; try eassumption.
      unfold slot_written in Hl. rewrite Hsl in Hl. exact Hl.
    - rewrite facts_wr. intros ft Hf. apply kill_facts in Hf as [Hf Hm].
      eapply fact_ok_setr; [exact Hs|exact Hm|apply G7]. unfold slot_written in Hf. destruct (slotlike r); exact Hf.
    - intros h1 y h2 E. apply app_tail_cases in E as [(_ & E & _)|(h2' & -> & E)]; [discriminate|]. eapply G8; eassumption.
    - intros c v Hin. apply in_app_or in Hin as [Hin|[Hin|[]]]; [eapply G9; eassumption|]. injection Hin as <- _. exact Hfeas.
    - rewrite Fb. exact G10.
  Qed.
End BGE.

Section BGA.
  Variables (lbs ubs : list Z) (f : contents -> Z).
  Notation BG := (BG lbs ubs f).
  Notation cell_ok := (cell_ok lbs ubs).
  Notation goodS := (goodS lbs ubs).
  Notation Cov := (Cov lbs ubs).

  (* greedy replacement: d := copy of s after the test s.fit < d.fit, s an evaluated feasible agent *)
  Lemma BG_assign_greedy a cur x h d s cs od n x' :
    BG a cur x h -> d <> Best -> s <> Best ->
    In (FLt s d) (b_facts a) -> fst (rd s a) = QGood ->
    getr s cur x = Some cs -> getr d cur x = Some od ->
    setr d cur {| apos := apos cs; aid := n; afit := afit cs |} x = Some x' ->
    BG (wr d (QGood, Carrier) (kill d (slot_written d a))) cur x' h.
  Proof.
    intros HG Hd Hsb Hf Hq Hgs Hgd Hs.
    pose proof (BG_read _ _ _ _ _ _ _ _ _ HG Hgs Hsb) as [Hqs _]. rewrite Hq in Hqs. simpl in Hqs.
    destruct HG as [G1 G2 G3 G4 G5 G6 G7 G8 G9 G10].
    assert (Hlt : klt (afit cs) (afit od) = true).
    { destruct (G7 _ Hf) as (ca & cb & K1 & K2 & K3). congruence. }
    set (nw := {| apos := apos cs; aid := n; afit := afit cs |}) in *.
    assert (Hgn : goodS h nw) by exact Hqs.
    destruct (setr_frame _ _ _ _ _ Hs Hd) as (Fb & Fl & Fi & Ft & Flen & Fpop).
    destruct (written_carrier _ _ _ _ _ (kill d (slot_written d a)) QGood Hs Hd) as (kn & Hkn1 & Hkn2 & Hkn3).
    constructor; try (rewrite ?Fb; assumption).
    - intros k c Hm. destruct (setr_mem_new _ _ _ _ _ Hs Hd k c Hm) as [[-> Hk]|[Hm0 Hk]].
      + assert (Hc : cell_ok (QGood, Carrier) x' h nw) by (split; [exact Hgn|intros E; discriminate E]).
        destruct (single d) eqn:Es; [rewrite get_wr_single by assumption; exact Hc|].
        rewrite get_wr_weak by assumption. eapply cell_ok_mono; [exact f|apply cleb_join_r|exact Hc].
      + assert (Hc : cell_ok (get a k) x' h c).
        { destruct (G1 k c Hm0) as [K1 K2]. split; [exact K1|]. unfold role_ok. rewrite Fb. exact K2. }
        destruct (in_dec cls_eq_dec k (cls_of d)) as [Hin|Hout].
        * destruct (single d) eqn:Es; [exfalso; apply Hk; auto|].
          rewrite get_wr_weak by assumption. rewrite get_kill, get_slot_written.
          eapply cell_ok_mono; [exact f|apply cleb_join_l|exact Hc].
        * rewrite get_wr_out by assumption. rewrite get_kill, get_slot_written. exact Hc.
    - intros c v Hin. destruct (G2 c v Hin) as [K|(k & c0 & K1 & K2 & K3 & K4)]; [left; rewrite Fb; assumption|right].
      destruct (setr_mem_old _ _ _ _ _ _ _ Hs Hd K1) as [Hm|[Hk Hgo]].
      + exists k, c0. split; [exact Hm|]. split; [|split; [exact K3|exact K4]].
        apply carrier_kept. rewrite get_kill, get_slot_written. exact K2.
      + rewrite Hgd in Hgo. injection Hgo as <-. exists kn, nw.
        split; [exact Hkn1|split; [exact Hkn3|split; [exact Hgn|]]].
        simpl. unfold klt, kle in *. lia.
    - rewrite locw_wr. simpl. intros Hl i ag c Hn Hc Hk. pose proof (locw_slot_written _ _ Hl) as Hsl.
      rewrite (Fpop Hsl) in Hn. rewrite Fl in Hc. eapply G6; try eassumption.
      unfold slot_written in Hl. rewrite Hsl in Hl. exact Hl.
    - rewrite facts_wr. intros ft Hf0. apply kill_facts in Hf0 as [Hf0 Hm].
      eapply fact_ok_setr; [exact Hs|exact Hm|apply G7]. unfold slot_written in Hf0. destruct (slotlike d); exact Hf0.
  Qed.

  (* after d := copy of s the two fitnesses are equal *)
  Lemma fact_after_assign cur x d s cs n x' :
    alias d s = false -> getr s cur x = Some cs ->
    setr d cur {| apos := apos cs; aid := n; afit := afit cs |} x = Some x' ->
    fact_ok cur x' (FGe s d).
  Proof.
    intros Ha Hgs Hs. simpl. exists cs, {| apos := apos cs; aid := n; afit := afit cs |}.
    rewrite (getr_setr_other _ _ _ _ _ _ Hs Ha), (getr_setr_same _ _ _ _ _ Hs). simpl.
    repeat split; try assumption. apply klt_irrefl.
  Qed.

  Lemma BG_with_facts a cur x h l : BG a cur x h -> (forall ft, In ft l -> fact_ok cur x ft) -> BG (with_facts a l) cur x h.
  Proof. intros [G1 G2 G3 G4 G5 G6 G7 G8 G9 G10] H. constructor; try assumption. Qed.

  (* a single reference whose agent is above the best becomes Clean *)
  Lemma BG_make_clean a cur x h r :
    BG a cur x h -> single r = true -> (forall c, getr r cur x = Some c -> kle (afit (best x)) (afit c) = true) ->
    BG (wr r (fst (rd r a), Clean) a) cur x h.
  Proof.
    intros HG Hsg Hcl. assert (Hb : r <> Best) by (intros ->; discriminate).
    pose proof (fun c Hg => BG_read _ _ _ _ _ _ _ _ c HG Hg Hb) as Hrd.
    destruct HG as [G1 G2 G3 G4 G5 G6 G7 G8 G9 G10].
    constructor; try assumption.
    - intros k c Hm. destruct (in_dec cls_eq_dec k (cls_of r)) as [Hin|Hout].
      + rewrite get_wr_single by assumption. pose proof (mem_getr_single _ _ _ _ _ Hsg Hin Hm) as Hg.
        split; [apply (Hrd c Hg)|intros _; apply Hcl; exact Hg].
      + rewrite get_wr_out by assumption. apply G1; assumption.
    - intros c v Hin. destruct (G2 c v Hin) as [K|(k & c0 & K1 & K2 & K3 & K4)]; [left; assumption|].
      destruct (in_dec cls_eq_dec k (cls_of r)) as [Hk|Hout].
      + left. pose proof (mem_getr_single _ _ _ _ _ Hsg Hk K1) as Hg. eapply kle_trans; [apply Hcl; exact Hg|exact K4].
      + right. exists k, c0. rewrite get_wr_out by assumption. repeat split; try assumption; apply K3.
    - rewrite locw_wr. exact G6.
    - rewrite facts_wr. exact G7.
  Qed.
End BGA.

Lemma cls_disjoint r r' k : single r = true -> alias r r' = false -> In k (cls_of r) -> ~ In k (cls_of r').
Proof.
  destruct r, r'; simpl; intros Hs Ha Hk; try discriminate; destruct Hk as [<- | []]; simpl; intuition discriminate.
Qed.

Section BGD.
  Variables (lbs ubs : list Z) (f : contents -> Z).
  Notation BG := (BG lbs ubs f).
  Notation cell_ok := (cell_ok lbs ubs).
  Notation goodS := (goodS lbs ubs).
  Notation Cov := (Cov lbs ubs).

  (* r.fit >= r'.fit and r' is an evaluated feasible agent: r' takes over whatever r stood for *)
  Lemma BG_transfer a cur x h r r' :
    BG a cur x h -> single r = true -> alias r r' = false -> r' <> Best ->
    fact_ok cur x (FGe r r') -> fst (rd r' a) = QGood ->
    BG (wr r (fst (rd r a), Idle) (wr r' (fst (rd r' a), Carrier) a)) cur x h.
  Proof.
    intros HG Hsg Hal Hb' (cr & cr' & Hgr & Hgr' & Hge) Hq.
    assert (Hb : r <> Best) by (intros ->; discriminate).
    pose proof (BG_read _ _ _ _ _ _ _ _ _ HG Hgr Hb) as [Hqr _].
    pose proof (BG_read _ _ _ _ _ _ _ _ _ HG Hgr' Hb') as [Hqr' _].
    destruct HG as [G1 G2 G3 G4 G5 G6 G7 G8 G9 G10].
    constructor; try assumption.
    - intros k c Hm. destruct (in_dec cls_eq_dec k (cls_of r)) as [Hin|Hout].
      + rewrite get_wr_single by assumption. pose proof (mem_getr_single _ _ _ _ _ Hsg Hin Hm) as Hg.
        rewrite Hgr in Hg. injection Hg as <-. split; [exact Hqr|intros E; discriminate E].
      + rewrite get_wr_out by assumption.
        destruct (in_dec cls_eq_dec k (cls_of r')) as [Hin'|Hout'].
        * destruct (single r') eqn:Es'.
          -- rewrite get_wr_single by assumption. pose proof (mem_getr_single _ _ _ _ _ Es' Hin' Hm) as Hg.
             rewrite Hgr' in Hg. injection Hg as <-. split; [exact Hqr'|intros E; discriminate E].
          -- rewrite get_wr_weak by assumption. eapply cell_ok_mono; [exact f|apply cleb_join_l|apply G1; exact Hm].
        * rewrite get_wr_out by assumption. apply G1; exact Hm.
    - intros c v Hin. destruct (G2 c v Hin) as [K|(k & c0 & K1 & K2 & K3 & K4)]; [left; assumption|right].
      destruct (in_dec cls_eq_dec k (cls_of r)) as [Hk|Hout].
      + pose proof (mem_getr_single _ _ _ _ _ Hsg Hk K1) as Hg. rewrite Hgr in Hg. injection Hg as <-.
        destruct (getr_mem _ _ _ _ Hgr' Hb') as (k' & Hk' & Hm').
        exists k', cr'. split; [exact Hm'|].
        assert (Hno : ~ In k' (cls_of r)).
        { intros Hc. eapply cls_disjoint; eassumption. }
        rewrite get_wr_out by assumption. split; [|split].
        * destruct (single r') eqn:Es'; [rewrite get_wr_single by assumption; reflexivity|].
          rewrite get_wr_weak by assumption. apply snd_cjoin_carrier.
        * rewrite Hq in Hqr'. exact Hqr'.
        * unfold klt, kle in *. lia.
      + exists k, c0. rewrite get_wr_out by assumption. split; [exact K1|split; [|split; [exact K3|exact K4]]].
        apply carrier_kept. exact K2.
    - rewrite !locw_wr. exact G6.
    - rewrite !facts_wr. exact G7.
  Qed.

  Lemma BG_discharge1 a cur x h ft : BG a cur x h -> fact_ok cur x ft -> BG (discharge1 ft a) cur x h.
  Proof.
    intros HG Hf. destruct ft as [p q|r r']; simpl; [exact HG|].
    destruct (single r && negb (alias r r')) eqn:E; [|exact HG].
    apply andb_true_iff in E as [Hsg Hal]. apply negb_true_iff in Hal.
    pose proof Hf as (cr & cr' & Hgr & Hgr' & Hge).
    assert (Hclean : kle (afit (best x)) (afit cr') = true -> BG (wr r (fst (rd r a), Clean) a) cur x h).
    { intros Hk. apply BG_make_clean; [exact HG|exact Hsg|]. intros c Hg. rewrite Hgr in Hg. injection Hg as <-.
      unfold klt, kle in *. lia. }
    assert (Hother : r' <> Best ->
      BG (if is_clean (snd (rd r' a)) then wr r (fst (rd r a), Clean) a
          else if negb (ref_eqb r Cur) && is_carrier (snd (rd r a)) && is_good (fst (rd r' a))
               then wr r (fst (rd r a), Idle) (wr r' (fst (rd r' a), Carrier) a) else a) cur x h).
    { intros Hb'. destruct (is_clean (snd (rd r' a))) eqn:Ec.
      - apply Hclean. destruct (BG_read _ _ _ _ _ _ _ _ _ HG Hgr' Hb') as [_ K]. apply K.
        destruct (snd (rd r' a)); try discriminate; reflexivity.
      - destruct (negb (ref_eqb r Cur) && is_carrier (snd (rd r a)) && is_good (fst (rd r' a))) eqn:E2; [|exact HG].
        apply andb_true_iff in E2 as [_ E2]. apply BG_transfer; try assumption.
        destruct (fst (rd r' a)); try discriminate; reflexivity. }
    destruct r'; try (apply Hother; discriminate).
    apply Hclean. simpl in Hgr'. injection Hgr' as <-. apply kle_refl.
  Qed.

  Lemma facts_discharge1 ft a : b_facts (discharge1 ft a) = b_facts a.
  Proof.
    destruct ft as [p q|r r']; simpl; [reflexivity|].
    destruct (single r && negb (alias r r')); [|reflexivity].
    destruct r'; try (destruct (is_clean _); [apply facts_wr|
      destruct (negb (ref_eqb r Cur) && is_carrier (snd (rd r a)) && is_good _); [rewrite !facts_wr|]; reflexivity]).
    apply facts_wr.
  Qed.

  Lemma BG_discharge_list a cur x h l : BG a cur x h -> (forall ft, In ft l -> fact_ok cur x ft) ->
    BG (fold_right discharge1 a l) cur x h /\ b_facts (fold_right discharge1 a l) = b_facts a.
  Proof.
    intros HG. induction l as [|ft t IH]; intros Hl; simpl; [split; [exact HG|reflexivity]|].
    destruct IH as [IH1 IH2]; [intros; apply Hl; right; assumption|].
    split; [apply BG_discharge1; [exact IH1|apply Hl; left; reflexivity]|].
    rewrite facts_discharge1. exact IH2.
  Qed.

  Lemma BG_add_fact a cur x h ft : BG a cur x h -> fact_ok cur x ft -> BG (add_fact ft a) cur x h.
  Proof.
    intros HG Hf. unfold add_fact, discharge.
    assert (Hall : forall ft0, In ft0 (ft :: b_facts a) -> fact_ok cur x ft0).
    { intros ft0 [<-|Hin]; [exact Hf|]. eapply g_facts; eassumption. }
    apply BG_discharge_list; [apply BG_with_facts; assumption|exact Hall].
  Qed.
End BGD.

Section BGR.
  Variables (lbs ubs : list Z) (f : contents -> Z).
  Notation BG := (BG lbs ubs f).

  (* moving the loop cursor: the same agents are regrouped into classes with weaker cells *)
  Lemma BG_reclass a a' cur cur' x h :
    BG a cur x h ->
    (forall k' c, mem cur' x k' c -> exists k, mem cur x k c /\ cleb (get a k) (get a' k') = true) ->
    (forall k c, mem cur x k c -> exists k', mem cur' x k' c /\ cleb (get a k) (get a' k') = true) ->
    (b_locw a' = true -> b_locw a = true) -> b_facts a' = [] ->
    BG a' cur' x h.
  Proof.
    intros [G1 G2 G3 G4 G5 G6 G7 G8 G9 G10] H1 H2 H3 H4. constructor; try assumption.
    - intros k' c Hm. destruct (H1 k' c Hm) as (k & Hk & Hle). eapply cell_ok_mono; [exact f|exact Hle|apply G1; exact Hk].
    - intros c v Hin. destruct (G2 c v Hin) as [K|(k & c0 & K1 & K2 & K3 & K4)]; [left; assumption|right].
      destruct (H2 k c0 K1) as (k' & Hk' & Hle). exists k', c0. repeat split; try assumption; try apply K3.
      unfold cleb in Hle. apply andb_true_iff in Hle as [_ Hle]. eapply rle_carrier; eassumption.
    - intros Hl. apply G6. auto.
    - rewrite H4. intros ft [].
  Qed.

  Lemma cleb_allslots_pop a : cleb (b_pop a) (allslots a) = true.
  Proof. apply cleb_join_l. Qed.
  Lemma cleb_allslots_cur a : cleb (b_cur a) (allslots a) = true.
  Proof. unfold allslots. eapply cleb_trans; [|apply cleb_join_r]. apply cleb_join_l. Qed.
  Lemma cleb_allslots_todo a : cleb (b_todo a) (allslots a) = true.
  Proof. unfold allslots. eapply cleb_trans; [|apply cleb_join_r]. apply cleb_join_r. Qed.

  Lemma ba_enter_sound a i x h : BG a None x h -> BG (ba_enter a) (Some i) x h.
  Proof.
    intros HG. eapply BG_reclass; [exact HG| | |auto|reflexivity].
    - intros k' c Hm. destruct k'; simpl in Hm.
      + destruct Hm as (j & Hn & _). exists CPop. split; [exists j; auto|apply cleb_refl].
      + destruct Hm as (i' & _ & Hn). exists CPop. split; [exists i'; auto|apply cleb_refl].
      + destruct Hm as (i' & j & _ & _ & Hn). exists CPop. split; [exists j; auto|apply cleb_refl].
      + exists CTr. split; [exact Hm|apply cleb_refl].
      + destruct Hm as (j & Hn & _). exists CShall. split; [exists j; split; [exact Hn|discriminate]|apply cleb_refl].
      + destruct Hm as (i' & _ & Hn). exists CShall. split; [exists i'; split; [exact Hn|discriminate]|apply cleb_refl].
    - intros k c Hm. destruct k; simpl in Hm.
      + destruct Hm as (j & Hn & _). destruct (lt_eq_lt_dec j i) as [[Hlt | ->] | Hgt].
        * exists CPop. split; [exists j; auto|apply cleb_refl].
        * exists CCur. split; [exists i; auto|apply cleb_refl].
        * exists CTodo. split; [exists i, j; auto|apply cleb_refl].
      + destruct Hm as (i' & Hc & _). discriminate.
      + destruct Hm as (i' & j & Hc & _). discriminate.
      + exists CTr. split; [exact Hm|apply cleb_refl].
      + destruct Hm as (j & Hn & _). destruct (Nat.eq_dec j i) as [->|Hne].
        * exists CSh. split; [exists i; auto|apply cleb_refl].
        * exists CShall. split; [exists j; split; [exact Hn|congruence]|apply cleb_refl].
      + destruct Hm as (i' & Hc & _). discriminate.
  Qed.

  Lemma ba_exit_sound a i x h : BG a (Some i) x h -> BG (ba_exit a) None x h.
  Proof.
    intros HG. eapply BG_reclass; [exact HG| | |auto|reflexivity].
    - intros k' c Hm. destruct k'; simpl in Hm.
      + destruct Hm as (j & Hn & _). destruct (lt_eq_lt_dec j i) as [[Hlt | ->] | Hgt].
        * exists CPop. split; [exists j; auto|apply cleb_allslots_pop].
        * exists CCur. split; [exists i; auto|apply cleb_allslots_cur].
        * exists CTodo. split; [exists i, j; auto|apply cleb_allslots_todo].
      + destruct Hm as (i' & Hc & _). discriminate.
      + destruct Hm as (i' & j & Hc & _). discriminate.
      + exists CTr. split; [exact Hm|apply cleb_refl].
      + destruct Hm as (j & Hn & _). destruct (Nat.eq_dec j i) as [->|Hne].
        * exists CSh. split; [exists i; auto|apply cleb_join_r].
        * exists CShall. split; [exists j; split; [exact Hn|congruence]|apply cleb_join_l].
      + destruct Hm as (i' & Hc & _). discriminate.
    - intros k c Hm. destruct k; simpl in Hm.
      + destruct Hm as (j & Hn & _). exists CPop. split; [exists j; auto|apply cleb_allslots_pop].
      + destruct Hm as (i' & _ & Hn). exists CPop. split; [exists i'; auto|apply cleb_allslots_cur].
      + destruct Hm as (i' & j & _ & _ & Hn). exists CPop. split; [exists j; auto|apply cleb_allslots_todo].
      + exists CTr. split; [exact Hm|apply cleb_refl].
      + destruct Hm as (j & Hn & _). exists CShall. split; [exists j; split; [exact Hn|discriminate]|apply cleb_join_l].
      + destruct Hm as (i' & _ & Hn). exists CShall. split; [exists i'; split; [exact Hn|discriminate]|apply cleb_join_r].
  Qed.

  Lemma ba_assume_sound c b a cur o x h o' : evalc c cur o x = Some (b, o') -> BG a cur x h -> BG (ba_assume c b a) cur x h.
  Proof.
    intros He HG. destruct c; simpl; try exact HG. simpl in He.
    destruct (getr a0 cur x) as [ca|] eqn:E1; [|discriminate].
    destruct (getr b0 cur x) as [cb|] eqn:E2; [|discriminate]. injection He as <- <-.
    destruct (klt (afit ca) (afit cb)) eqn:Ek.
    - apply BG_with_facts; [exact HG|]. intros ft [<-|Hin]; [|eapply g_facts; eassumption].
      exists ca, cb. auto.
    - apply BG_add_fact; [exact HG|]. exists ca, cb. auto.
  Qed.
End BGR.

Lemma mem_ext cur x x' k c : pop x' = pop x -> tr x' = tr x -> sh x' = sh x -> mem cur x' k c <-> mem cur x k c.
Proof. intros H1 H2 H3. destruct k; simpl; rewrite ?H1, ?H2, ?H3; reflexivity. Qed.

Lemma getr_ext cur x x' r : pop x' = pop x -> best x' = best x -> tr x' = tr x -> sh x' = sh x -> idx x' = idx x ->
  getr r cur x' = getr r cur x.
Proof. intros H1 H2 H3 H4 H5. destruct r; simpl; rewrite ?H1, ?H2, ?H3, ?H4, ?H5; reflexivity. Qed.

(* references that do not go through an index register or the population length *)
Lemma getr_ext_noidx cur x x' r : pop x' = pop x -> best x' = best x -> tr x' = tr x -> sh x' = sh x -> is_idxref r = false ->
  getr r cur x' = getr r cur x.
Proof. intros H1 H2 H3 H4 H5. destruct r; simpl in *; try discriminate; rewrite ?H1, ?H2, ?H3, ?H4; reflexivity. Qed.

Section BGS.
  Variables (lbs ubs : list Z) (f : contents -> Z).
  Notation BG := (BG lbs ubs f).
  Notation cell_ok := (cell_ok lbs ubs).
  Notation goodS := (goodS lbs ubs).
  Notation Cov := (Cov lbs ubs).

  Lemma fact_ok_ext cur x x' ft : (forall r, getr r cur x' = getr r cur x) -> fact_ok cur x ft -> fact_ok cur x' ft.
  Proof. intros H. destruct ft; simpl; intros (ca & cb & K); exists ca, cb; rewrite !H; exact K. Qed.

  Lemma BG_same a cur x x' h :
    pop x' = pop x -> best x' = best x -> tr x' = tr x -> sh x' = sh x -> loc x' = loc x -> idx x' = idx x ->
    BG a cur x h -> BG a cur x' h.
  Proof.
    intros H1 H2 H3 H4 H5 H6 [G1 G2 G3 G4 G5 G6 G7 G8 G9 G10].
    assert (Hm : forall k c, mem cur x' k c <-> mem cur x k c) by (intros; apply mem_ext; assumption).
    constructor; try (rewrite ?H2; assumption).
    - intros k c Hk. apply Hm in Hk. destruct (G1 k c Hk) as [K1 K2]. split; [exact K1|]. unfold role_ok. rewrite H2. exact K2.
    - intros c v Hin. destruct (G2 c v Hin) as [K|(k & c0 & K1 & K2 & K3 & K4)]; [left; rewrite H2; assumption|right].
      exists k, c0. rewrite Hm. repeat split; try assumption; apply K3.
    - rewrite H1, H5. exact G6.
    - intros ft Hf. eapply fact_ok_ext; [|apply G7; exact Hf]. intros r. apply getr_ext; assumption.
  Qed.

  Lemma BG_next a cur x h n : BG a cur x h -> BG a cur (with_next x n) h.
  Proof. apply BG_same; reflexivity. Qed.

  (* an event that is not an evaluation; a dump must satisfy [dump_ok] *)
  Lemma BG_noeval a cur x h e : is_eval e = false -> (forall y, e = EvDump y -> dump_ok y h) -> BG a cur x h -> BG a cur x (h ++ [e]).
  Proof.
    intros He Hd [G1 G2 G3 G4 G5 G6 G7 G8 G9 G10].
    assert (Hsub : forall e0, In e0 h -> In e0 (h ++ [e])) by (intros; apply in_or_app; left; assumption).
    assert (Hev : forall c v, In (EvEval c v) (h ++ [e]) -> In (EvEval c v) h).
    { intros c v Hin. apply in_app_or in Hin as [Hin|[Heq|[]]]; [assumption|subst e; discriminate]. }
    constructor; try assumption.
    - intros k c Hm. eapply cell_ok_hist; [exact Hsub|apply G1; assumption].
    - intros c v Hin. eapply Cov_hist; [exact Hsub|eapply G2, Hev; eassumption].
    - intros c v Hin. eapply G3, Hev; eassumption.
    - destruct G4; [left; apply Hsub; assumption|right; assumption].
    - intros Hl i ag c Hn Hc Hk. apply Hsub. eapply G6; eassumption.
    - intros h1 y h2 E. apply app_tail_cases in E as [(_ & E & E2)|(h2' & -> & E)].
      + subst h1. apply Hd. exact E.
      + eapply G8; eassumption.
    - intros c v Hin. eapply G9, Hev; eassumption.
  Qed.

  Lemma no_carrier_spec a k : no_carrier a = true -> snd (get a k) <> Carrier.
  Proof.
    unfold no_carrier, all_cells. simpl. rewrite !andb_true_iff. intros (H1 & H2 & H3 & H4 & H5 & H6 & _) E.
    destruct k; simpl in E; rewrite E in *; discriminate.
  Qed.

  Lemma BG_dump a cur x h : no_carrier a = true -> BG a cur x h -> BG a cur x (h ++ [EvDump x]).
  Proof.
    intros Hn HG. apply BG_noeval; [reflexivity| |exact HG].
    intros y E. injection E as <-. destruct HG as [G1 G2 G3 G4 G5 G6 G7 G8 G9 G10]. split; [|split; assumption].
    intros c v Hin. destruct (G2 c v Hin) as [K|(k & c0 & K1 & K2 & _)]; [exact K|].
    exfalso. eapply no_carrier_spec; eassumption.
  Qed.

  Lemma kill_idx_facts a ft : In ft (b_facts (kill_idx a)) ->
    In ft (b_facts a) /\ match ft with FLt p q | FGe p q => is_idxref p = false /\ is_idxref q = false end.
  Proof.
    simpl. intros H. apply filter_In in H as [H1 H2]. split; [assumption|].
    destruct ft; apply negb_true_iff, orb_false_iff in H2; exact H2.
  Qed.

  Lemma BG_idx a cur x h l : BG a cur x h -> BG (kill_idx a) cur (with_idx x l) h.
  Proof.
    intros [G1 G2 G3 G4 G5 G6 G7 G8 G9 G10].
    constructor; try assumption.
    intros ft Hf. apply kill_idx_facts in Hf as [Hf Hi]. specialize (G7 ft Hf).
    destruct ft as [p q|p q]; destruct Hi as [Hp Hq]; destruct G7 as (ca & cb & K1 & K2 & K3); exists ca, cb;
      rewrite (getr_ext_noidx cur x (with_idx x l) p), (getr_ext_noidx cur x (with_idx x l) q) by (try reflexivity; assumption);
      auto.
  Qed.
End BGS.

Lemma rd_slot_written r d a : rd r (slot_written d a) = rd r a.
Proof. unfold slot_written. destruct (slotlike d); destruct r; reflexivity. Qed.
Lemma facts_slot_written d a : b_facts (slot_written d a) = b_facts a.
Proof. unfold slot_written. destruct (slotlike d); reflexivity. Qed.

Section BGAS.
  Variables (lbs ubs : list Z) (f : contents -> Z).
  Notation BG := (BG lbs ubs f).
  Notation cell_ok := (cell_ok lbs ubs).
  Notation goodS := (goodS lbs ubs).
  Notation qual_ok := (qual_ok lbs ubs).

  Lemma qual_ok_same q h c c' : apos c' = apos c -> afit c' = afit c -> qual_ok q h c -> qual_ok q h c'.
  Proof.
    intros H1 H2. destruct q; simpl; try (rewrite H1; auto; fail).
    intros [K1 K2]. split; [rewrite H1; exact K1|rewrite H1, H2; exact K2].
  Qed.

  (* d := private copy of s *)
  Lemma BG_assign l a a' cur x h d s cs od n x' :
    BG a cur x h -> assign l d s a = (a', []) ->
    getr s cur x = Some cs -> getr d cur x = Some od ->
    setr d cur {| apos := apos cs; aid := n; afit := afit cs |} x = Some x' ->
    BG a' cur x' h.
  Proof.
    intros HG Has Hgs Hgd Hs. unfold assign in Has.
    assert (Hd : d <> Best) by (intros ->; destruct s; discriminate).
    assert (Hsb : s <> Best) by (intros ->; destruct d; discriminate).
    set (greedy := has_fact (FLt s d) (b_facts a) && is_good (fst (rd s a)) && negb (alias d s)) in *.
    assert (Has' : (if negb greedy && is_carrier (snd (rd d a))
                    then (a, c02 l "an agent that may hold the only record of an evaluation is overwritten without a strict-improvement test")
                    else (if alias d s
                          then wr d (if greedy then (QGood, Carrier) else (fst (rd s a), copy_role (snd (rd s a)))) (kill d (slot_written d a))
                          else add_fact (FGe s d) (wr d (if greedy then (QGood, Carrier) else (fst (rd s a), copy_role (snd (rd s a)))) (kill d (slot_written d a))), [])) = (a', [])).
    { destruct d; try congruence; destruct s; try congruence; exact Has. }
    clear Has. destruct (negb greedy && is_carrier (snd (rd d a))) eqn:Eal; [discriminate|].
    injection Has' as <-.
    assert (Hcore : BG (wr d (if greedy then (QGood, Carrier) else (fst (rd s a), copy_role (snd (rd s a)))) (kill d (slot_written d a))) cur x' h).
    { destruct greedy eqn:Eg.
      - unfold greedy in Eg. apply andb_true_iff in Eg as [Eg _]. apply andb_true_iff in Eg as [Eg1 Eg2].
        apply has_fact_in in Eg1. eapply BG_assign_greedy; try eassumption.
        destruct (fst (rd s a)); try discriminate; reflexivity.
      - simpl in Eal. pose proof (BG_read _ _ _ _ _ _ _ _ _ HG Hgs Hsb) as [Hq Hr].
        eapply BG_write with (old := od); try eassumption.
        + apply BG_slot_written. exact HG.
        + rewrite rd_slot_written. exact Eal.
        + split; simpl.
          * eapply qual_ok_same; [| |exact Hq]; reflexivity.
          * intros E. apply Hr. destruct (snd (rd s a)); try discriminate; reflexivity.
        + intros Hl Hsl. apply locw_slot_written in Hl. congruence. }
    destruct (alias d s) eqn:Eal2; [exact Hcore|].
    apply BG_add_fact; [exact Hcore|]. eapply fact_after_assign; eassumption.
  Qed.
End BGAS.

Definition popclass (k : cls) : bool := match k with CPop | CCur | CTodo => true | _ => false end.
Definition shclass (k : cls) : bool := match k with CShall | CSh => true | _ => false end.

Lemma mem_pop_in cur x c : (exists k, popclass k = true /\ mem cur x k c) <-> In c (pop x).
Proof.
  split.
  - intros (k & Hk & Hm). destruct k; try discriminate; simpl in Hm.
    + destruct Hm as (j & Hn & _). eapply nth_error_In; eassumption.
    + destruct Hm as (j & _ & Hn). eapply nth_error_In; eassumption.
    + destruct Hm as (i & j & _ & _ & Hn). eapply nth_error_In; eassumption.
  - intros Hin. apply In_nth_error in Hin as [j Hn]. destruct cur as [i|].
    + destruct (lt_eq_lt_dec j i) as [[Hlt | ->] | Hgt].
      * exists CPop. split; [reflexivity|]. exists j. auto.
      * exists CCur. split; [reflexivity|]. exists i. auto.
      * exists CTodo. split; [reflexivity|]. exists i, j. auto.
    + exists CPop. split; [reflexivity|]. exists j. auto.
Qed.

Lemma mem_sh_in cur x c : (exists k, shclass k = true /\ mem cur x k c) <-> In c (sh x).
Proof.
  split.
  - intros (k & Hk & Hm). destruct k; try discriminate; simpl in Hm.
    + destruct Hm as (j & Hn & _). eapply nth_error_In; eassumption.
    + destruct Hm as (j & _ & Hn). eapply nth_error_In; eassumption.
  - intros Hin. apply In_nth_error in Hin as [j Hn]. destruct cur as [i|].
    + destruct (Nat.eq_dec j i) as [->|Hne].
      * exists CSh. split; [reflexivity|]. exists i. auto.
      * exists CShall. split; [reflexivity|]. exists j. split; [assumption|congruence].
    + exists CShall. split; [reflexivity|]. exists j. split; [assumption|discriminate].
Qed.

(* classes are positional: replacing the population pointwise keeps every agent in its class *)
Lemma mem_map_pop g cur x k c' : mem cur (with_pop x (map g (pop x))) k c' ->
  if popclass k then exists c, mem cur x k c /\ c' = g c else mem cur x k c'.
Proof.
  destruct k; simpl; intros Hm; try exact Hm.
  - destruct Hm as (j & Hn & Hc). rewrite nth_error_map in Hn. destruct (nth_error (pop x) j) as [c|] eqn:E; [|discriminate].
    injection Hn as <-. exists c. split; [exists j; auto|reflexivity].
  - destruct Hm as (i & Hc & Hn). rewrite nth_error_map in Hn. destruct (nth_error (pop x) i) as [c|] eqn:E; [|discriminate].
    injection Hn as <-. exists c. split; [exists i; auto|reflexivity].
  - destruct Hm as (i & j & Hc & Hlt & Hn). rewrite nth_error_map in Hn. destruct (nth_error (pop x) j) as [c|] eqn:E; [|discriminate].
    injection Hn as <-. exists c. split; [exists i, j; auto|reflexivity].
Qed.

Lemma mem_map_pop_conv g cur x k c : mem cur x k c ->
  mem cur (with_pop x (map g (pop x))) k (if popclass k then g c else c).
Proof.
  destruct k; simpl; intros Hm; try exact Hm.
  - destruct Hm as (j & Hn & Hc). exists j. rewrite nth_error_map, Hn. auto.
  - destruct Hm as (i & Hc & Hn). exists i. rewrite nth_error_map, Hn. auto.
  - destruct Hm as (i & j & Hc & Hlt & Hn). exists i, j. rewrite nth_error_map, Hn. auto.
Qed.

Lemma mem_nonpop cur x l k c : popclass k = false -> mem cur (with_pop x l) k c <-> mem cur x k c.
Proof. destruct k; simpl; intros H; try discriminate; reflexivity. Qed.

Lemma sort_fit_in_conv l a : In a l -> In a (sort_fit l).
Proof.
  assert (Hins : forall b t, a = b \/ In a t -> In a (ins_fit b t)).
  { intros b t. induction t as [|c t IH]; simpl.
    - intros [->|[]]; left; reflexivity.
    - destruct (klt (afit b) (afit c)); simpl.
      + intros [->|[->|H]]; auto.
      + intros [->|[->|H]]; [right; apply IH; left; reflexivity|left; reflexivity|right; apply IH; right; assumption]. }
  induction l as [|b l IH]; simpl; [auto|].
  intros [->|H]; apply Hins; [left; reflexivity|right; apply IH; assumption].
Qed.

Lemma getr_map_pop g cur x r :
  getr r cur (with_pop x (map g (pop x))) = if slotlike r then option_map g (getr r cur x) else getr r cur x.
Proof.
  destruct r; simpl; try reflexivity.
  - destruct cur as [i|]; [|reflexivity]. apply nth_error_map.
  - destruct (nth_error (idx x) v) as [i|]; [|reflexivity]. apply nth_error_map.
  - rewrite map_length. destruct (length (pop x)) as [|n]; [reflexivity|]. apply nth_error_map.
Qed.

Section BGL2.
  Variables (lbs ubs : list Z) (f : contents -> Z).
  Notation BG := (BG lbs ubs f).
  Notation cell_ok := (cell_ok lbs ubs).
  Notation goodS := (goodS lbs ubs).

  Lemma BG_regroup a a' cur x x' h :
    BG a cur x h -> best x' = best x -> loc x' = loc x ->
    (forall k' c', mem cur x' k' c' -> cell_ok (get a' k') x h c') ->
    (forall k c, mem cur x k c -> snd (get a k) = Carrier -> goodS h c -> exists k', mem cur x' k' c /\ snd (get a' k') = Carrier) ->
    (b_locw a' = true -> b_locw a = true /\ forall i ag, nth_error (pop x') i = Some ag -> exists ag0, nth_error (pop x) i = Some ag0 /\ afit ag0 = afit ag) ->
    (forall ft, In ft (b_facts a') -> fact_ok cur x' ft) ->
    BG a' cur x' h.
  Proof.
    intros [G1 G2 G3 G4 G5 G6 G7 G8 G9 G10] Hb Hl H1 H2 H3 H4.
    constructor; try (rewrite ?Hb; assumption).
    - intros k c Hm. destruct (H1 k c Hm) as [K1 K2]. split; [exact K1|]. unfold role_ok. rewrite Hb. exact K2.
    - intros c v Hin. destruct (G2 c v Hin) as [K|(k & c0 & K1 & K2 & K3 & K4)]; [left; rewrite Hb; assumption|right].
      destruct (H2 k c0 K1 K2 K3) as (k' & Hk' & Hr). exists k', c0. repeat split; try assumption; apply K3.
    - intros Hw i ag c Hn Hc Hk. destruct (H3 Hw) as [Hw0 Hp]. destruct (Hp i ag Hn) as (ag0 & Hn0 & Hf).
      rewrite Hl in Hc. rewrite <- Hf in *. eapply G6; eassumption.
  Qed.
End BGL2.

Lemma copy_all_nth2 n l j b : nth_error (copy_all n l) j = Some b ->
  exists a, nth_error l j = Some a /\ apos b = apos a /\ afit b = afit a.
Proof.
  revert n j. induction l as [|a l IH]; intros n [|j]; simpl; try discriminate.
  - intros H. injection H as <-. exists a. repeat split; reflexivity.
  - apply IH.
Qed.

Lemma cleb_allslots a k : popclass k = true -> cleb (get a k) (allslots a) = true.
Proof. destruct k; try discriminate; intros _; [apply cleb_allslots_pop|apply cleb_allslots_cur|apply cleb_allslots_todo]. Qed.

Section BGP.
  Variables (lbs ubs : list Z) (f : contents -> Z).
  Hypothesis box_ok : Forall2 (fun l h => kle l h = true) lbs ubs.
  Notation BG := (BG lbs ubs f).
  Notation cell_ok := (cell_ok lbs ubs).
  Notation goodS := (goodS lbs ubs).
  Notation clipa := (clipa lbs ubs).

  Lemma clipa_fix c : feasible lbs ubs (apos c) = true -> clipa c = c.
  Proof. intros H. unfold IRSem.clipa, clipc. apply agent_eta; try reflexivity. symmetry. apply clip_rows_fix. exact H. Qed.

  Lemma clipa_cell cl x h c : cell_ok cl x h c -> cell_ok (upq (fst cl), snd cl) x h (clipa c).
  Proof.
    intros [K1 K2]. split; [|exact K2]. destruct cl as [q r]. destruct q; simpl in K1.
    - simpl. apply (clipc_feasible lbs ubs box_ok). exact K1.
    - rewrite clipa_fix by exact K1. exact K1.
    - rewrite clipa_fix by apply K1. exact K1.
  Qed.

  Lemma fact_ok_map_pop g cur x ft : (forall c, afit (g c) = afit c) -> fact_ok cur x ft ->
    fact_ok cur (with_pop x (map g (pop x))) ft.
  Proof.
    intros Hg. destruct ft as [p q|p q]; simpl; intros (ca & cb & K1 & K2 & K3);
      exists (if slotlike p then g ca else ca), (if slotlike q then g cb else cb); rewrite !getr_map_pop, K1, K2;
      destruct (slotlike p), (slotlike q); simpl; rewrite ?Hg; auto.
  Qed.

  Definition clipall_a (a : ba) : ba :=
    let up c := (upq (fst c), snd c) in
    set (set (set a CPop (up (b_pop a))) CCur (up (b_cur a))) CTodo (up (b_todo a)).

  Lemma get_clipall a k : get (clipall_a a) k = if popclass k then (upq (fst (get a k)), snd (get a k)) else get a k.
  Proof. destruct k; reflexivity. Qed.

  Lemma BG_clipall a cur x h : BG a cur x h -> BG (clipall_a a) cur (with_pop x (map clipa (pop x))) h.
  Proof.
    intros HG. eapply BG_regroup; [exact HG|reflexivity|reflexivity| | | |].
    - intros k' c' Hm. apply mem_map_pop in Hm. rewrite get_clipall. destruct (popclass k').
      + destruct Hm as (c & Hm & ->). apply clipa_cell. eapply g_cell; eassumption.
      + eapply g_cell; eassumption.
    - intros k c Hm Hr [Hf _]. exists k. split.
      + pose proof (mem_map_pop_conv clipa _ _ _ _ Hm) as H. rewrite clipa_fix in H by assumption.
        destruct (popclass k); exact H.
      + rewrite get_clipall. destruct (popclass k); exact Hr.
    - intros Hw. split; [exact Hw|]. intros i ag Hn. simpl in Hn. rewrite nth_error_map in Hn.
      destruct (nth_error (pop x) i) as [ag0|]; [|discriminate]. injection Hn as <-. exists ag0. split; reflexivity.
    - intros ft Hf. apply fact_ok_map_pop; [reflexivity|]. eapply g_facts; eassumption.
  Qed.

  Definition sort_a (a : ba) : ba :=
    let p := allslots a in with_locw (set (set (set (kill Last a) CPop p) CCur p) CTodo p) false.

  Lemma get_sort a k : get (sort_a a) k = if popclass k then allslots a else get a k.
  Proof. destruct k; reflexivity. Qed.

  Lemma BG_sort a cur x h : BG a cur x h -> BG (sort_a a) cur (with_pop x (sort_fit (pop x))) h.
  Proof.
    intros HG. eapply BG_regroup; [exact HG|reflexivity|reflexivity| | | |].
    - intros k' c' Hm. rewrite get_sort. destruct (popclass k') eqn:Ek.
      + assert (Hin : In c' (pop x)).
        { apply sort_fit_in. apply (mem_pop_in cur (with_pop x (sort_fit (pop x)))). exists k'. auto. }
        apply (mem_pop_in cur) in Hin as (k0 & Hk0 & Hm0).
        eapply cell_ok_mono; [exact f|apply cleb_allslots; exact Hk0|eapply g_cell; eassumption].
      + apply mem_nonpop in Hm; [|exact Ek]. eapply g_cell; eassumption.
    - intros k c Hm Hr _. destruct (popclass k) eqn:Ek.
      + assert (Hin : In c (sort_fit (pop x))).
        { apply sort_fit_in_conv. apply (mem_pop_in cur x). exists k. auto. }
        apply (mem_pop_in cur (with_pop x (sort_fit (pop x)))) in Hin as (k' & Hk' & Hm').
        exists k'. split; [exact Hm'|]. rewrite get_sort, Hk'.
        pose proof (cleb_allslots a k Ek) as Hle. unfold cleb in Hle. apply andb_true_iff in Hle as [_ Hle].
        eapply rle_carrier; eassumption.
      + exists k. split; [apply mem_nonpop; assumption|]. rewrite get_sort, Ek. exact Hr.
    - simpl. discriminate.
    - intros ft Hf. unfold sort_a in Hf. simpl in Hf. apply filter_In in Hf as [Hf Hm].
      apply negb_true_iff in Hm. pose proof (g_facts _ _ _ _ _ _ _ HG ft Hf) as Hok.
      assert (Hns : forall r, alias Last r = false -> forall l, getr r cur (with_pop x l) = getr r cur x).
      { intros r Hr l. destruct r; try reflexivity; discriminate. }
      destruct ft as [p q|p q]; simpl in Hm; apply orb_false_iff in Hm as [M1 M2];
        destruct Hok as (ca & cb & K1 & K2 & K3); exists ca, cb; rewrite !Hns by assumption; auto.
  Qed.
End BGP.

Section BGSH.
  Variables (lbs ubs : list Z) (f : contents -> Z).
  Notation BG := (BG lbs ubs f).
  Notation cell_ok := (cell_ok lbs ubs).
  Notation goodS := (goodS lbs ubs).

  Definition shadow_a (a : ba) : ba :=
    let p := allslots a in let c := (fst p, copy_role (snd p)) in set (set (kill Sh a) CShall c) CSh c.

  Lemma get_shadow a k : get (shadow_a a) k = if shclass k then (fst (allslots a), copy_role (snd (allslots a))) else get a k.
  Proof. destruct k; reflexivity. Qed.

  Lemma mem_nonsh cur x l k c : shclass k = false -> mem cur (with_sh x l) k c <-> mem cur x k c.
  Proof. destruct k; simpl; intros H; try discriminate; reflexivity. Qed.

  Lemma BG_shadow a cur x h n :
    is_carrier (snd (b_shall a)) || is_carrier (snd (b_sh a)) = false ->
    BG a cur x h -> BG (shadow_a a) cur (with_sh x (copy_all n (pop x))) h.
  Proof.
    intros Hnc HG. apply orb_false_iff in Hnc as [Hn1 Hn2].
    eapply BG_regroup; [exact HG|reflexivity|reflexivity| | | |].
    - intros k' c' Hm. rewrite get_shadow. destruct (shclass k') eqn:Ek.
      + assert (Hin : In c' (copy_all n (pop x))).
        { apply (mem_sh_in cur (with_sh x (copy_all n (pop x)))). exists k'. auto. }
        apply In_nth_error in Hin as [j Hj]. apply copy_all_nth2 in Hj as (c0 & Hn0 & Hp & Hf).
        apply nth_error_In in Hn0. apply (mem_pop_in cur) in Hn0 as (k0 & Hk0 & Hm0).
        pose proof (g_cell _ _ _ _ _ _ _ HG k0 c0 Hm0) as Hc.
        eapply cell_ok_mono in Hc; [|exact f|apply cleb_allslots; exact Hk0]. destruct Hc as [K1 K2].
        split; cbn [fst snd].
        * eapply qual_ok_same; eassumption.
        * unfold role_ok in *. intros E. rewrite Hf. apply K2. destruct (snd (allslots a)); try discriminate; reflexivity.
      + apply mem_nonsh in Hm; [|exact Ek]. eapply g_cell; eassumption.
    - intros k c Hm Hr _. exists k. destruct (shclass k) eqn:Ek.
      + exfalso. destruct k; try discriminate; simpl in Hr; rewrite Hr in *; discriminate.
      + split; [apply mem_nonsh; assumption|]. rewrite get_shadow, Ek. exact Hr.
    - intros Hw. split; [exact Hw|]. intros i ag Hn. exists ag. split; [exact Hn|reflexivity].
    - intros ft Hf. unfold shadow_a in Hf. simpl in Hf. apply filter_In in Hf as [Hf Hm].
      apply negb_true_iff in Hm. pose proof (g_facts _ _ _ _ _ _ _ HG ft Hf) as Hok.
      assert (Hns : forall r, alias Sh r = false -> forall l, getr r cur (with_sh x l) = getr r cur x).
      { intros r Hr l. destruct r; try reflexivity; discriminate. }
      destruct ft as [p q|p q]; simpl in Hm; apply orb_false_iff in Hm as [M1 M2];
        destruct Hok as (ca & cb & K1 & K2 & K3); exists ca, cb; rewrite !Hns by assumption; auto.
  Qed.
End BGSH.

Lemma havoc_inv l r a a' :
  match r with
  | Best => (a, c02 l "the best position is modified")
  | _ => if is_carrier (snd (rd r a))
         then (a, c02 l "a position that may hold the only record of an evaluation is overwritten")
         else (wr r (QNone, snd (rd r a)) (kill r a), [])
  end = (a', []) ->
  r <> Best /\ is_carrier (snd (rd r a)) = false /\ a' = wr r (QNone, snd (rd r a)) (kill r a).
Proof.
  destruct r; try discriminate; (destruct (is_carrier _) eqn:E; [discriminate|]); intros H; injection H as <-;
    repeat split; try assumption; discriminate.
Qed.

Lemma clip_inv l r a a' :
  match r with
  | Best => (a, c02 l "the best position is modified")
  | _ => if is_carrier (snd (rd r a))
         then (a, c02 l "a carrier is clipped individually")
         else (wr r (upq (fst (rd r a)), snd (rd r a)) (kill r a), [])
  end = (a', []) ->
  r <> Best /\ is_carrier (snd (rd r a)) = false /\ a' = wr r (upq (fst (rd r a)), snd (rd r a)) (kill r a).
Proof.
  destruct r; try discriminate; (destruct (is_carrier _) eqn:E; [discriminate|]); intros H; injection H as <-;
    repeat split; try assumption; discriminate.
Qed.

Section ATOM.
  Variables (lbs ubs : list Z) (f : contents -> Z).
  Hypothesis box_ok : Forall2 (fun l h => kle l h = true) lbs ubs.
  Notation BG := (BG lbs ubs f).
  Notation cell_ok := (cell_ok lbs ubs).

  Ltac inv_ret H := unfold ret in H; injection H as <- <- <-.

  Lemma havoc_cell a cur x h r ag c : BG a cur x h -> getr r cur x = Some ag -> r <> Best ->
    okc_std (apos ag) c = true -> forall i, cell_ok (QNone, snd (rd r a)) x h {| apos := c; aid := i; afit := afit ag |}.
  Proof.
    intros HG Hg Hb Hok i. destruct (BG_read _ _ _ _ _ _ _ _ _ HG Hg Hb) as [K1 K2]. split; simpl.
    - eapply okc_wf; [exact Hok|]. eapply qual_ok_wf; eassumption.
    - exact K2.
  Qed.

  Lemma ba_atom_sound : forall l s a a', is_atom s = true -> ba_atom l s a = (a', []) ->
    forall cur o x h x' evs o', BG a cur x h -> exec_atom lbs ubs f bhk okc_std cur s o x = Some (x', evs, o') ->
    BG a' cur x' (h ++ evs).
  Proof.
    intros l s a a' Hat Hab cur o x h x' evs o' HG Hex.
    destruct s; simpl in Hat; try discriminate; simpl in Hab; try discriminate Hab; simpl in Hex.
    - (* Skip *) injection Hab as <-. inv_ret Hex. apply BG_nil; assumption.
    - (* Havoc *)
      apply havoc_inv in Hab as (Hb & Hnc & ->).
      destruct o as [|[c|?|?|?] o1]; try discriminate.
      destruct (getr r cur x) as [ag|] eqn:Eg; [|discriminate].
      destruct (okc_std (apos ag) c) eqn:Eok; simpl in Hex; [|discriminate].
      destruct m; (destruct (setr r cur _ x) as [x1|] eqn:Es; [|discriminate]); inv_ret Hex; apply BG_nil; try apply BG_next;
        (eapply BG_write; [exact HG|exact Hb|exact Eg|exact Es|exact Hnc|eapply havoc_cell; eassumption|reflexivity]).
    - (* Clip *)
      apply clip_inv in Hab as (Hb & Hnc & ->).
      destruct (getr r cur x) as [ag|] eqn:Eg; [|discriminate].
      destruct (setr r cur _ x) as [x1|] eqn:Es; [|discriminate]. inv_ret Hex. apply BG_nil.
      eapply BG_write; [exact HG|exact Hb|exact Eg|exact Es|exact Hnc| |reflexivity].
      apply (clipa_cell lbs ubs box_ok (rd r a)). eapply BG_read; eassumption.
    - (* ClipAll *) injection Hab as <-. inv_ret Hex. apply BG_nil. apply (BG_clipall lbs ubs f box_ok). exact HG.
    - (* Eval *)
      destruct (single r) eqn:Esg; [|discriminate].
      destruct (fst (rd r a)) eqn:Eq; try discriminate; injection Hab as <-;
        (destruct (getr r cur x) as [ag|] eqn:Eg; [|discriminate]);
        (destruct (setr r cur _ x) as [x1|] eqn:Es; [|discriminate]); injection Hex as <- <- <-;
        (eapply BG_eval; [exact HG|exact Esg|exact Eg|rewrite Eq; discriminate|exact Es]).
    - (* NewTrial *)
      destruct (getr s cur x) as [ag|] eqn:Eg; [|discriminate]. inv_ret Hex. apply BG_nil, BG_next.
      eapply BG_assign with (d := Tr) (od := tr x); [exact HG|exact Hab|exact Eg|reflexivity|reflexivity].
    - (* ShadowAll *)
      destruct (is_carrier (snd (b_shall a)) || is_carrier (snd (b_sh a))) eqn:Enc; [discriminate|].
      injection Hab as <-. inv_ret Hex. apply BG_nil, BG_next. apply BG_shadow; assumption.
    - (* Store *)
      destruct (slotlike d) eqn:Esl; [|discriminate].
      assert (Hex' : match getr s cur x with
                     | Some a0 => match setr d cur {| apos := apos a0; aid := next x; afit := afit a0 |} x with
                                  | Some x'0 => ret (with_next x'0 (S (next x))) o | None => None end
                     | None => None end = Some (x', evs, o')) by (destruct d; try discriminate; exact Hex).
      clear Hex. destruct (getr s cur x) as [ag|] eqn:Eg; [|discriminate].
      destruct (setr d cur _ x) as [x1|] eqn:Es; [|discriminate]. inv_ret Hex'. apply BG_nil, BG_next.
      assert (Hod : exists od, getr d cur x = Some od).
      { apply setr_written in Es. destruct Es as [-> _ | -> _ | i l0 -> _ _ _ | i l0 Hs Hi Hu _]; try discriminate.
        rewrite getr_slot, Hi by assumption. eapply upd_old; eassumption. }
      destruct Hod as [od Hod]. eapply BG_assign; eassumption.
    - (* ChooseIdx *)
      injection Hab as <-. destruct o as [|[?|?|i|?] o1]; try discriminate.
      destruct (Nat.ltb i (length (pop x))); [|discriminate]. inv_ret Hex. apply BG_nil. apply BG_idx. exact HG.
    - (* SortByFit *) injection Hab as <-. inv_ret Hex. apply BG_nil. apply (BG_sort lbs ubs f). exact HG.
    - (* Hook *) injection Hab as <-. injection Hex as <- <- <-. apply BG_silent; [reflexivity|reflexivity|exact HG].
    - (* Dump *)
      destruct (no_carrier a) eqn:En; [|discriminate]. injection Hab as <-. injection Hex as <- <- <-.
      apply BG_dump; assumption.
    - (* Draw *) injection Hab as <-. injection Hex as <- <- <-. apply BG_silent; [reflexivity|reflexivity|exact HG].
    - (* SetHyper *) injection Hab as <-. inv_ret Hex. apply BG_nil. eapply BG_same; [..|exact HG]; reflexivity.
    - (* PosFromTree *)
      apply havoc_inv in Hab as (Hb & Hnc & ->).
      destruct cur as [i|]; [|discriminate].
      destruct (getr r (Some i) x) as [ag|] eqn:Eg; [|discriminate].
      destruct (nth_error (tv x) i) as [c|] eqn:En; [|discriminate].
      destruct (okc_std (apos ag) c) eqn:Eok; simpl in Hex; [|discriminate].
      destruct (setr r (Some i) _ x) as [x1|] eqn:Es; [|discriminate]. inv_ret Hex. apply BG_nil, BG_next.
      eapply BG_write; [exact HG|exact Hb|exact Eg|exact Es|exact Hnc|eapply havoc_cell; eassumption|reflexivity].
    - (* BestTreeCopy *)
      injection Hab as <-. destruct cur as [i|]; [|discriminate].
      destruct (nth_error (tv x) i) as [c|] eqn:En; [|discriminate]. inv_ret Hex. apply BG_nil.
      eapply BG_same; [..|exact HG]; reflexivity.
    - (* TreeCopy *)
      injection Hab as <-. destruct o as [|[?|?|?|t] o1]; try discriminate.
      destruct (forallb2 okc_std (tv x) t); [|discriminate]. inv_ret Hex. apply BG_nil. eapply BG_same; [..|exact HG]; reflexivity.
    - (* TreeSet *)
      injection Hab as <-. destruct o as [|[?|?|?|t] o1]; try discriminate.
      destruct (forallb2 okc_std (tv x) t); [|discriminate]. inv_ret Hex. apply BG_nil. eapply BG_same; [..|exact HG]; reflexivity.
    - (* TreeCross *)
      injection Hab as <-. destruct o as [|[?|?|?|t] o1]; try discriminate.
      destruct (forallb2 okc_std (tv x) t); [|discriminate]. inv_ret Hex. apply BG_nil. eapply BG_same; [..|exact HG]; reflexivity.
  Qed.
End ATOM.

Lemma upd_upd {A} i (a1 a2 : A) l l1 : upd i a1 l = Some l1 -> upd i a2 l1 = upd i a2 l.
Proof.
  revert i l1. induction l as [|b t IH]; intros [|i] l1 H; simpl in H; try discriminate.
  - injection H as <-. reflexivity.
  - destruct (upd i a1 t) as [t'|] eqn:E; [|discriminate]. injection H as <-. simpl. rewrite (IH _ _ E). reflexivity.
Qed.

(* two successive writes through the same reference (a fresh identifier taken in between) *)
Lemma setr_setr r cur a1 a2 x x1 n x2 :
  setr r cur a1 x = Some x1 -> setr r cur a2 (with_next x1 n) = Some x2 ->
  exists x3, setr r cur a2 x = Some x3 /\ x2 = with_next x3 n.
Proof.
  intros H1 H2. destruct r; simpl in *.
  - destruct cur as [i|]; [|discriminate]. destruct (upd i a1 (pop x)) as [l1|] eqn:E1; [|discriminate]. injection H1 as <-.
    simpl in H2. rewrite (upd_upd _ _ _ _ _ E1) in H2. destruct (upd i a2 (pop x)) as [l2|]; [|discriminate].
    injection H2 as <-. eexists; split; reflexivity.
  - destruct (nth_error (idx x) v) as [i|] eqn:Ei; [|discriminate].
    destruct (upd i a1 (pop x)) as [l1|] eqn:E1; [|discriminate]. injection H1 as <-.
    simpl in H2. rewrite Ei in H2. rewrite (upd_upd _ _ _ _ _ E1) in H2. destruct (upd i a2 (pop x)) as [l2|]; [|discriminate].
    injection H2 as <-. eexists; split; reflexivity.
  - destruct (length (pop x)) as [|m] eqn:El; [discriminate|].
    destruct (upd m a1 (pop x)) as [l1|] eqn:E1; [|discriminate]. injection H1 as <-.
    simpl in H2. rewrite (upd_length _ _ _ _ E1), El in H2. rewrite (upd_upd _ _ _ _ _ E1) in H2.
    destruct (upd m a2 (pop x)) as [l2|]; [|discriminate]. injection H2 as <-. eexists; split; reflexivity.
  - injection H1 as <-. injection H2 as <-. eexists; split; reflexivity.
  - injection H1 as <-. injection H2 as <-. eexists; split; reflexivity.
  - destruct cur as [i|]; [|discriminate]. destruct (upd i a1 (sh x)) as [l1|] eqn:E1; [|discriminate]. injection H1 as <-.
    simpl in H2. rewrite (upd_upd _ _ _ _ _ E1) in H2. destruct (upd i a2 (sh x)) as [l2|]; [|discriminate].
    injection H2 as <-. eexists; split; reflexivity.
Qed.

Lemma setr_setr0 r cur a1 a2 x x1 x2 :
  setr r cur a1 x = Some x1 -> setr r cur a2 x1 = Some x2 -> setr r cur a2 x = Some x2.
Proof.
  intros H1 H2. destruct r; simpl in *.
  - destruct cur as [i|]; [|discriminate]. destruct (upd i a1 (pop x)) as [l1|] eqn:E1; [|discriminate]. injection H1 as <-.
    simpl in H2. rewrite (upd_upd _ _ _ _ _ E1) in H2. destruct (upd i a2 (pop x)) as [l2|]; [|discriminate].
    injection H2 as <-. reflexivity.
  - destruct (nth_error (idx x) v) as [i|] eqn:Ei; [|discriminate].
    destruct (upd i a1 (pop x)) as [l1|] eqn:E1; [|discriminate]. injection H1 as <-.
    simpl in H2. rewrite Ei in H2. rewrite (upd_upd _ _ _ _ _ E1) in H2. destruct (upd i a2 (pop x)) as [l2|]; [|discriminate].
    injection H2 as <-. reflexivity.
  - destruct (length (pop x)) as [|m] eqn:El; [discriminate|].
    destruct (upd m a1 (pop x)) as [l1|] eqn:E1; [|discriminate]. injection H1 as <-.
    simpl in H2. rewrite (upd_length _ _ _ _ E1), El in H2. rewrite (upd_upd _ _ _ _ _ E1) in H2.
    destruct (upd m a2 (pop x)) as [l2|]; [|discriminate]. injection H2 as <-. reflexivity.
  - injection H1 as <-. injection H2 as <-. reflexivity.
  - injection H1 as <-. injection H2 as <-. reflexivity.
  - destruct cur as [i|]; [|discriminate]. destruct (upd i a1 (sh x)) as [l1|] eqn:E1; [|discriminate]. injection H1 as <-.
    simpl in H2. rewrite (upd_upd _ _ _ _ _ E1) in H2. destruct (upd i a2 (sh x)) as [l2|]; [|discriminate].
    injection H2 as <-. reflexivity.
Qed.

Lemma getr_with_next r cur x n : getr r cur (with_next x n) = getr r cur x.
Proof. destruct r; reflexivity. Qed.

Section PAIR.
  Variables (lbs ubs : list Z) (f : contents -> Z) (hk : st -> st) (n_iter : nat) (okc : contents -> contents -> bool).
  Notation exec := (exec lbs ubs f hk n_iter okc).

  (* x.position = deepcopy(y.position); x.fit = deepcopy(y.fit)  is  x := private copy of y *)
  Lemma pair_sem d s cur o x x' evs o' : alias d s = false ->
    exec cur (Seq (CopyPos d s) (CopyFit d s)) o x = Some (x', evs, o') ->
    exists cs od x3, getr s cur x = Some cs /\ getr d cur x = Some od /\
      setr d cur {| apos := apos cs; aid := next x; afit := afit cs |} x = Some x3 /\
      x' = with_next x3 (S (next x)) /\ evs = [] /\ o' = o.
  Proof.
    intros Hal H. simpl in H. apply bind_some in H as (x1 & e1 & o1 & e2 & H1 & H2 & ->).
    destruct (getr d cur x) as [od|] eqn:Ed; [|discriminate].
    destruct (getr s cur x) as [cs|] eqn:Es; [|discriminate].
    destruct (setr d cur _ x) as [y1|] eqn:E1; [|discriminate]. unfold ret in H1. injection H1 as <- <- <-.
    rewrite !getr_with_next in H2. rewrite (getr_setr_same _ _ _ _ _ E1) in H2.
    rewrite (getr_setr_other _ _ _ _ _ _ E1 Hal), Es in H2. simpl in H2.
    destruct (setr d cur _ (with_next y1 (S (next x)))) as [y2|] eqn:E2; [|discriminate].
    unfold ret in H2. injection H2 as <- <- <-.
    destruct (setr_setr _ _ _ _ _ _ _ _ E1 E2) as (x3 & E3 & ->).
    exists cs, od, x3. repeat split; auto.
  Qed.
  (* the same two copies in the other order *)
  Lemma pair_sem_rev d s cur o x x' evs o' : alias d s = false ->
    exec cur (Seq (CopyFit d s) (CopyPos d s)) o x = Some (x', evs, o') ->
    exists cs od x3, getr s cur x = Some cs /\ getr d cur x = Some od /\
      setr d cur {| apos := apos cs; aid := next x; afit := afit cs |} x = Some x3 /\
      x' = with_next x3 (S (next x)) /\ evs = [] /\ o' = o.
  Proof.
    intros Hal H. simpl in H. apply bind_some in H as (x1 & e1 & o1 & e2 & H1 & H2 & ->).
    destruct (getr d cur x) as [od|] eqn:Ed; [|discriminate].
    destruct (getr s cur x) as [cs|] eqn:Es; [|discriminate].
    destruct (setr d cur _ x) as [y1|] eqn:E1; [|discriminate]. unfold ret in H1. injection H1 as <- <- <-.
    rewrite (getr_setr_same _ _ _ _ _ E1) in H2.
    rewrite (getr_setr_other _ _ _ _ _ _ E1 Hal), Es in H2. simpl in H2.
    destruct (setr d cur _ y1) as [y2|] eqn:E2; [|discriminate].
    unfold ret in H2. injection H2 as <- <- <-.
    assert (Hn : next y1 = next x).
    { apply setr_written in E1. destruct E1 as [_ -> | _ -> | ? ? _ _ _ -> | ? ? _ _ _ ->]; reflexivity. }
    rewrite Hn in *. pose proof (setr_setr0 _ _ _ _ _ _ _ E1 E2) as E3.
    exists cs, od, y2. repeat split; auto.
  Qed.
End PAIR.

Section BEST.
  Variables (lbs ubs : list Z) (f : contents -> Z).
  Notation BG := (BG lbs ubs f).

  (* best := private copy of s, s an evaluated feasible agent strictly below the best *)
  Lemma BG_assign_best l a a' cur x h s cs n :
    BG a cur x h -> assign_best l s a = (a', []) -> getr s cur x = Some cs ->
    BG a' cur (with_best x {| apos := apos cs; aid := n; afit := afit cs |}) h.
  Proof.
    intros HG Hab Hgs. unfold assign_best in Hab.
    destruct (single s && has_fact (FLt s Best) (b_facts a) && is_good (fst (rd s a))) eqn:E; [|discriminate].
    injection Hab as <-. apply andb_true_iff in E as [E Hq]. apply andb_true_iff in E as [Hsg Hf].
    apply has_fact_in in Hf. assert (Hsb : s <> Best) by (intros ->; discriminate).
    pose proof (BG_read _ _ _ _ _ _ _ _ _ HG Hgs Hsb) as [Hqs _].
    assert (Hgood : goodS lbs ubs h cs) by (destruct (fst (rd s a)); try discriminate; exact Hqs).
    set (nb := {| apos := apos cs; aid := n; afit := afit cs |}).
    assert (Hlt : klt (afit cs) (afit (best x)) = true).
    { destruct (g_facts _ _ _ _ _ _ _ HG _ Hf) as (ca & cb & K1 & K2 & K3). simpl in K2. congruence. }
    assert (Hns : forall r, alias Best r = false -> getr r cur (with_best x nb) = getr r cur x).
    { intros r Hr. destruct r; try reflexivity; discriminate. }
    apply BG_add_fact.
    - destruct HG as [G1 G2 G3 G4 G5 G6 G7 G8 G9 G10]. constructor; try assumption.
      + intros k c Hm. apply (mem_ext cur x) in Hm; try reflexivity. destruct (G1 k c Hm) as [K1 K2].
        rewrite get_kill. split; [exact K1|]. intros Ec. specialize (K2 Ec). simpl. unfold klt, kle in *. lia.
      + intros c v Hin. destruct (G2 c v Hin) as [K|(k & c0 & K1 & K2 & K3 & K4)].
        * left. simpl. unfold klt, kle in *. lia.
        * right. exists k, c0. rewrite get_kill. repeat split; try assumption; apply K3.
      + left. apply Hgood.
      + simpl. unfold klt, kle in *. lia.
      + intros ft Hft. apply kill_facts in Hft as [Hft Hm]. specialize (G7 ft Hft).
        destruct ft as [p q|p q]; simpl in Hm; apply orb_false_iff in Hm as [M1 M2];
          destruct G7 as (ca & cb & K1 & K2 & K3); exists ca, cb; rewrite !Hns by assumption; auto.
      + simpl. eapply feasible_wf; [exact f|apply Hgood].
    - exists cs, nb. rewrite Hns by (destruct s; try reflexivity; discriminate). repeat split; try assumption; try reflexivity.
      simpl. apply klt_irrefl.
  Qed.
End BEST.

Lemma agent_eta0 q : {| apos := apos q; aid := aid q; afit := afit q |} = q.
Proof. destruct q; reflexivity. Qed.

Section SWAP.
  Variables (lbs ubs : list Z) (f : contents -> Z) (hk : st -> st) (n_iter : nat) (okc : contents -> contents -> bool).
  Notation exec := (exec lbs ubs f hk n_iter okc).

  Lemma swap_sem i o x x' evs o' :
    exec (Some i) swap_best o x = Some (x', evs, o') ->
    exists p l, nth_error (pop x) i = Some p /\ upd i (best x) (pop x) = Some l /\
                x' = with_best (with_pop x l) p /\ evs = [] /\ o' = o.
  Proof.
    intros H. unfold swap_best in H. simpl in H. apply bind_some in H as (x1 & e1 & o1 & e2 & H1 & H2 & ->).
    destruct (nth_error (pop x) i) as [p|] eqn:Ep; [|discriminate].
    destruct (upd i _ (pop x)) as [l1|] eqn:E1; [|discriminate]. simpl in H1.
    unfold ret in H1. injection H1 as <- <- <-. simpl in H2.
    rewrite (upd_nth_same _ _ _ _ E1) in H2. simpl in H2.
    rewrite (upd_upd _ _ _ _ _ E1) in H2.
    destruct (upd i {| apos := apos (best x); aid := aid (best x); afit := afit (best x) |} (pop x)) as [l2|] eqn:E2; [|discriminate]. simpl in H2.
    unfold ret in H2. injection H2 as <- <- <-.
    rewrite agent_eta0 in E2. exists p, l2. rewrite agent_eta0. repeat split; auto.
  Qed.
End SWAP.

Section SWAPBG.
  Variables (lbs ubs : list Z) (f : contents -> Z).
  Notation BG := (BG lbs ubs f).

  Lemma BG_swap a i x h p l :
    BG a (Some i) x h -> In (FLt Cur Best) (b_facts a) -> fst (b_cur a) = QGood ->
    nth_error (pop x) i = Some p -> upd i (best x) (pop x) = Some l ->
    BG (swap_a a) (Some i) (with_best (with_pop x l) p) h.
  Proof.
    intros HG Hf Hq Hp Hu.
    assert (Hgp : getr Cur (Some i) x = Some p) by exact Hp.
    pose proof (BG_read _ _ _ _ _ _ _ _ _ HG Hgp ltac:(discriminate)) as [Hqp _]. simpl in Hqp. rewrite Hq in Hqp. simpl in Hqp.
    assert (Hlt : klt (afit p) (afit (best x)) = true).
    { destruct (g_facts _ _ _ _ _ _ _ HG _ Hf) as (ca & cb & K1 & K2 & K3). simpl in K1, K2. congruence. }
    destruct HG as [G1 G2 G3 G4 G5 G6 G7 G8 G9 G10].
    set (x' := with_best (with_pop x l) p).
    assert (Hget : forall k, k <> CCur -> get (swap_a a) k = get a k).
    { intros k Hk. unfold swap_a. rewrite get_set_other by congruence. rewrite !get_kill, get_with_locw. reflexivity. }
    assert (Hother : forall k c, k <> CCur -> (mem (Some i) x' k c <-> mem (Some i) x k c)).
    { intros k c Hk. destruct k; simpl; try congruence; try reflexivity.
      - split; intros (j & Hn & Hlt'); exists j; (split; [|exact Hlt']);
          [rewrite <- (upd_nth_other _ _ _ _ j Hu) by lia|rewrite (upd_nth_other _ _ _ _ j Hu) by lia]; exact Hn.
      - split; intros (i' & j & Hc & Hlt' & Hn); exists i', j; injection Hc as <-; (split; [reflexivity|split; [exact Hlt'|]]);
          [rewrite <- (upd_nth_other _ _ _ _ j Hu) by lia|rewrite (upd_nth_other _ _ _ _ j Hu) by lia]; exact Hn. }
    constructor.
    - intros k c Hm. destruct (cls_eq_dec k CCur) as [->|Hk].
      + destruct Hm as (i' & Hc & Hn). injection Hc as <-. simpl in Hn. rewrite (upd_nth_same _ _ _ _ Hu) in Hn. injection Hn as <-.
        unfold swap_a. rewrite get_set_same. split; simpl; [exact G10|]. intros _. subst x'. simpl. unfold klt, kle in *. lia.
      + rewrite Hget by assumption. apply Hother in Hm; [|assumption]. destruct (G1 k c Hm) as [K1 K2].
        split; [exact K1|]. intros Ec. specialize (K2 Ec). subst x'. simpl. unfold klt, kle in *. lia.
    - intros c v Hin. destruct (G2 c v Hin) as [K|(k & c0 & K1 & K2 & K3 & K4)].
      + left. subst x'. simpl. unfold klt, kle in *. lia.
      + destruct (cls_eq_dec k CCur) as [->|Hk].
        * left. destruct K1 as (i' & Hc & Hn). injection Hc as <-. rewrite Hp in Hn. injection Hn as <-. exact K4.
        * right. exists k, c0. rewrite Hget by assumption. rewrite Hother by assumption. repeat split; try assumption; apply K3.
    - exact G3.
    - left. apply Hqp.
    - subst x'. simpl. unfold klt, kle in *. lia.
    - simpl. discriminate.
    - intros ft Hft. unfold swap_a in Hft. simpl in Hft. apply filter_In in Hft as [Hft M2].
      apply filter_In in Hft as [Hft M1]. apply negb_true_iff in M1, M2. specialize (G7 ft Hft).
      assert (Hns : forall r, alias Cur r = false -> alias Best r = false -> getr r (Some i) x' = getr r (Some i) x).
      { intros r R1 R2. destruct r; try reflexivity; discriminate. }
      destruct ft as [u w|u w]; simpl in M1, M2; apply orb_false_iff in M1 as [A1 A2]; apply orb_false_iff in M2 as [B1 B2];
        destruct G7 as (ca & cb & K1 & K2 & K3); exists ca, cb; rewrite !Hns by assumption; auto.
    - exact G8.
    - exact G9.
    - simpl. eapply feasible_wf; [exact f|apply Hqp].
  Qed.
End SWAPBG.

(* what one step of PSO._evaluate does to slot i *)
Record pso_spec (i : nat) (x : st) (ag : agent) (v : Z) (x' : st) (ag1 : agent) : Prop := {
  ps_tr : tr x' = tr x; ps_sh : sh x' = sh x; ps_idx : idx x' = idx x;
  ps_i : nth_error (pop x') i = Some ag1;
  ps_other : forall j, j <> i -> nth_error (pop x') j = nth_error (pop x) j;
  ps_pos : apos ag1 = apos ag;
  ps_fit : (klt v (afit ag) = true /\ afit ag1 = v /\ nth_error (loc x') i = Some (apos ag)) \/
           (klt v (afit ag) = false /\ ag1 = ag /\ nth_error (loc x') i = nth_error (loc x) i);
  ps_loc_other : forall j, j <> i -> nth_error (loc x') j = nth_error (loc x) j;
  ps_best : (klt (afit ag1) (afit (best x)) = true /\
             exists c n, nth_error (loc x') i = Some c /\ best x' = {| apos := c; aid := n; afit := afit ag1 |}) \/
            (klt (afit ag1) (afit (best x)) = false /\ best x' = best x)
}.

Section PSOSEM.
  Variables (lbs ubs : list Z) (f : contents -> Z) (hk : st -> st) (n_iter : nat) (okc : contents -> contents -> bool).
  Notation exec := (exec lbs ubs f hk n_iter okc).

  Lemma exec_seq cur s1 s2 o x : exec cur (Seq s1 s2) o x = bind (exec cur s1 o x) (fun x1 o1 => exec cur s2 o1 x1).
  Proof. reflexivity. Qed.

  Lemma pso_if1 i o y y' e o' :
    exec (Some i) (If (TmpLt Cur) (Seq (SetFitTmp Cur) LocFromPos) Skip) o y = Some (y', e, o') ->
    exists ag, nth_error (pop y) i = Some ag /\ e = [] /\ o' = o /\
      ((klt (tmp y) (afit ag) = true /\ exists l lc,
          upd i {| apos := apos ag; aid := aid ag; afit := tmp y |} (pop y) = Some l /\
          upd i (apos ag) (loc y) = Some lc /\ y' = with_loc (with_pop y l) lc) \/
       (klt (tmp y) (afit ag) = false /\ y' = y)).
  Proof.
    intros H. simpl in H. destruct (nth_error (pop y) i) as [ag|] eqn:Eag; [|discriminate].
    exists ag. split; [reflexivity|]. destruct (klt (tmp y) (afit ag)) eqn:Elt.
    - apply bind_some in H as (x1 & e1 & o1 & e2 & H1 & H2 & ->).
      destruct (upd i _ (pop y)) as [l|] eqn:El; [|discriminate]. unfold ret in H1. injection H1 as <- <- <-.
      simpl in H2. rewrite (upd_nth_same _ _ _ _ El) in H2. simpl in H2.
      destruct (upd i (apos ag) (loc y)) as [lc|] eqn:Elc; [|discriminate]. unfold ret in H2. injection H2 as <- <- <-.
      repeat split; auto. left. split; [reflexivity|]. exists l, lc. auto.
    - unfold ret in H. injection H as <- <- <-. repeat split; auto.
  Qed.

  Lemma pso_if2 i o y y' e o' :
    exec (Some i) (If (FitLt Cur Best) (Seq BestPosFromLoc (CopyFit Best Cur)) Skip) o y = Some (y', e, o') ->
    exists ag1, nth_error (pop y) i = Some ag1 /\ e = [] /\ o' = o /\
      ((klt (afit ag1) (afit (best y)) = true /\ exists c, nth_error (loc y) i = Some c /\
          pop y' = pop y /\ loc y' = loc y /\ tr y' = tr y /\ sh y' = sh y /\ idx y' = idx y /\
          best y' = {| apos := c; aid := next y; afit := afit ag1 |}) \/
       (klt (afit ag1) (afit (best y)) = false /\ y' = y)).
  Proof.
    intros H. simpl in H. destruct (nth_error (pop y) i) as [ag1|] eqn:Eag; [|discriminate].
    exists ag1. split; [reflexivity|]. destruct (klt (afit ag1) (afit (best y))) eqn:Elt.
    - apply bind_some in H as (x1 & e1 & o1 & e2 & H1 & H2 & ->).
      destruct (nth_error (loc y) i) as [c|] eqn:Ec; [|discriminate]. unfold ret in H1. injection H1 as <- <- <-.
      simpl in H2. rewrite Eag in H2. unfold ret in H2. injection H2 as <- <- <-.
      repeat split; auto. left. split; [reflexivity|]. exists c. repeat split; reflexivity.
    - unfold ret in H. injection H as <- <- <-. repeat split; auto.
  Qed.

  Lemma pso_sem i o x x' evs o' :
    exec (Some i) sweep_pso o x = Some (x', evs, o') ->
    exists ag ag1, nth_error (pop x) i = Some ag /\ evs = [EvEval (apos ag) (f (apos ag))] /\ o' = o /\
                   pso_spec i x ag (f (apos ag)) x' ag1.
  Proof.
    intros H. unfold sweep_pso in H. rewrite exec_seq in H. apply bind_some in H as (x1 & e1 & o1 & e2 & H1 & H2 & ->).
    simpl in H1. destruct (nth_error (pop x) i) as [ag|] eqn:Eag; [|discriminate]. injection H1 as <- <- <-.
    rewrite exec_seq in H2. apply bind_some in H2 as (x2 & e3 & o2 & e4 & H3 & H4 & ->).
    apply pso_if1 in H3 as (ag0 & Hag0 & -> & -> & H3). simpl in Hag0. rewrite Eag in Hag0. injection Hag0 as <-.
    apply pso_if2 in H4 as (ag1 & Hag1 & -> & -> & H4).
    exists ag, ag1. split; [reflexivity|split; [reflexivity|split; [reflexivity|]]].
    assert (Hfr : pop x' = pop x2 /\ loc x' = loc x2 /\ tr x' = tr x2 /\ sh x' = sh x2 /\ idx x' = idx x2 /\
                  ((klt (afit ag1) (afit (best x2)) = true /\ exists c n, nth_error (loc x2) i = Some c /\
                      best x' = {| apos := c; aid := n; afit := afit ag1 |}) \/
                   (klt (afit ag1) (afit (best x2)) = false /\ best x' = best x2))).
    { destruct H4 as [(Eb & c & Ec & Hp & Hl & Ht & Hs & Hi & Hb)|(Eb & ->)].
      - repeat split; try assumption. left. split; [exact Eb|]. exists c, (next x2). split; assumption.
      - repeat split; try reflexivity. right. split; [exact Eb|reflexivity]. }
    clear H4. destruct Hfr as (Hp & Hl & Ht & Hs & Hi & Hb).
    simpl in H3. set (v := f (apos ag)) in *.
    destruct H3 as [(Elt & l & lc & El & Elc & ->)|(Elt & ->)]; simpl in *.
    - rewrite (upd_nth_same _ _ _ _ El) in Hag1. injection Hag1 as <-.
      constructor.
      + exact Ht.
      + exact Hs.
      + exact Hi.
      + rewrite Hp. eapply upd_nth_same; eassumption.
      + intros j Hj. rewrite Hp. eapply upd_nth_other; eassumption.
      + reflexivity.
      + left. repeat split; auto. rewrite Hl. eapply upd_nth_same; eassumption.
      + intros j Hj. rewrite Hl. eapply upd_nth_other; eassumption.
      + rewrite Hl. exact Hb.
    - rewrite Eag in Hag1. injection Hag1 as <-.
      constructor.
      + exact Ht.
      + exact Hs.
      + exact Hi.
      + rewrite Hp. exact Eag.
      + intros j Hj. rewrite Hp. reflexivity.
      + reflexivity.
      + right. repeat split; auto. rewrite Hl. reflexivity.
      + intros j Hj. rewrite Hl. reflexivity.
      + rewrite Hl. exact Hb.
  Qed.
End PSOSEM.

Section PSOBG.
  Variables (lbs ubs : list Z) (f : contents -> Z).
  Notation BG := (BG lbs ubs f).

  Lemma BG_pso_step a i x h ag ag1 x' :
    BG a (Some i) x h -> qge (fst (b_cur a)) QFeas = true -> is_carrier (snd (b_cur a)) = false -> b_locw a = true ->
    nth_error (pop x) i = Some ag -> pso_spec i x ag (f (apos ag)) x' ag1 ->
    BG (pso_a a) (Some i) x' (h ++ [EvEval (apos ag) (f (apos ag))]).
  Proof.
    intros HG Hq Hnc Hlw Hag [Ptr Psh Pidx Pi Pother Ppos Pfit Plo Pbest].
    set (v := f (apos ag)) in *. set (ev := EvEval (apos ag) v). set (h' := h ++ [ev]).
    assert (Hgc : getr Cur (Some i) x = Some ag) by exact Hag.
    pose proof (BG_read _ _ _ _ _ _ _ _ _ HG Hgc ltac:(discriminate)) as [Hqa _]. simpl in Hqa.
    assert (Hfeas : feasible lbs ubs (apos ag) = true).
    { eapply (qual_ok_mono lbs ubs f _ QFeas) in Hqa; [exact Hqa|exact Hq]. }
    destruct HG as [G1 G2 G3 G4 G5 G6 G7 G8 G9 G10].
    assert (Hsub : forall e0, In e0 h -> In e0 h') by (intros; apply in_or_app; left; assumption).
    assert (Hev : In ev h') by (apply in_or_app; right; left; reflexivity).
    assert (F1 : kle (afit ag1) v = true).
    { destruct Pfit as [(E & -> & _)|(E & -> & _)]; [apply kle_refl|]. unfold klt, kle in *. lia. }
    assert (F3 : kle (afit (best x')) (afit (best x)) = true /\ kle (afit (best x')) (afit ag1) = true).
    { destruct Pbest as [(E & c & n & _ & ->)|(E & ->)]; simpl; unfold klt, kle in *; lia. }
    destruct F3 as [F3a F3b].
    assert (F4 : klt (afit ag1) (afit B0) = true -> forall c, nth_error (loc x') i = Some c ->
                 In (EvEval c (afit ag1)) h' /\ feasible lbs ubs c = true).
    { intros Hk c Hc. destruct Pfit as [(E & E2 & E3)|(E & -> & E3)].
      - rewrite E3 in Hc. injection Hc as <-. rewrite E2. split; [exact Hev|exact Hfeas].
      - rewrite E3 in Hc. pose proof (G6 Hlw i ag c Hag Hc Hk) as Hin. split; [apply Hsub; exact Hin|eapply G9; exact Hin]. }
    assert (Hget : forall k, k <> CCur -> get (pso_a a) k = get a k).
    { intros k Hk. unfold pso_a. rewrite get_set_other by congruence. rewrite !get_kill. reflexivity. }
    assert (Hother : forall k c, k <> CCur -> (mem (Some i) x' k c <-> mem (Some i) x k c)).
    { intros k c Hk. destruct k; simpl; try congruence; rewrite ?Ptr, ?Psh; try reflexivity.
      - split; intros (j & Hn & Hlt'); exists j; (split; [|exact Hlt']);
          [rewrite <- (Pother j) by (apply Nat.lt_neq; exact Hlt')|rewrite (Pother j) by (apply Nat.lt_neq; exact Hlt')]; exact Hn.
      - split; intros (i' & j & Hc & Hlt' & Hn); exists i', j; injection Hc as <-; (split; [reflexivity|split; [exact Hlt'|]]);
          [rewrite <- (Pother j) by (apply Nat.neq_sym, Nat.lt_neq; exact Hlt')|rewrite (Pother j) by (apply Nat.neq_sym, Nat.lt_neq; exact Hlt')]; exact Hn. }
    constructor.
    - intros k c Hm. destruct (cls_eq_dec k CCur) as [->|Hk].
      + destruct Hm as (i' & Hc & Hn). injection Hc as <-. rewrite Pi in Hn. injection Hn as <-.
        unfold pso_a. rewrite get_set_same. split; simpl; [rewrite Ppos; exact Hfeas|intros _; exact F3b].
      + rewrite Hget by assumption. apply Hother in Hm; [|assumption]. destruct (G1 k c Hm) as [K1 K2].
        split; [eapply qual_ok_hist; eassumption|]. intros Ec. eapply kle_trans; [exact F3a|apply K2; exact Ec].
    - intros c v0 Hin. apply in_app_or in Hin as [Hin|[Hin|[]]].
      + destruct (G2 c v0 Hin) as [K|(k & c0 & K1 & K2 & K3 & K4)].
        * left. eapply kle_trans; [exact F3a|exact K].
        * right. assert (Hk : k <> CCur) by (intros ->; simpl in K2; rewrite K2 in Hnc; discriminate).
          exists k, c0. rewrite Hget, Hother by assumption. repeat split; try assumption; try apply K3. apply Hsub, K3.
      + injection Hin as <- <-. left. eapply kle_trans; [exact F3b|exact F1].
    - intros c v0 Hin. apply in_app_or in Hin as [Hin|[Hin|[]]]; [eapply G3; eassumption|]. injection Hin as <- <-. reflexivity.
    - destruct Pbest as [(E & c & n & Hc & ->)|(E & ->)]; simpl.
      + left. apply F4; [|exact Hc]. unfold klt, kle in *. lia.
      + destruct G4; [left; apply Hsub; assumption|right; assumption].
    - eapply kle_trans; [exact F3a|exact G5].
    - intros _ j ag' c Hn Hc Hk. destruct (Nat.eq_dec j i) as [->|Hne].
      + rewrite Pi in Hn. injection Hn as <-. apply F4; assumption.
      + rewrite Pother in Hn by assumption. rewrite Plo in Hc by assumption. apply Hsub. eapply G6; eassumption.
    - intros ft Hft. unfold pso_a in Hft. simpl in Hft. apply filter_In in Hft as [Hft M2].
      apply filter_In in Hft as [Hft M1]. apply negb_true_iff in M1, M2. specialize (G7 ft Hft).
      assert (Hns : forall r, alias Cur r = false -> alias Best r = false -> getr r (Some i) x' = getr r (Some i) x).
      { intros r R1 R2. destruct r; try discriminate; simpl; rewrite ?Ptr, ?Psh; reflexivity. }
      destruct ft as [u w|u w]; simpl in M1, M2; apply orb_false_iff in M1 as [A1 A2]; apply orb_false_iff in M2 as [B1 B2];
        destruct G7 as (ca & cb & K1 & K2 & K3); exists ca, cb; rewrite !Hns by assumption; auto.
    - intros h1 y h2 E. apply app_tail_cases in E as [(_ & E & _)|(h2' & -> & E)]; [discriminate|]. eapply G8; eassumption.
    - intros c v0 Hin. apply in_app_or in Hin as [Hin|[Hin|[]]]; [eapply G9; eassumption|]. injection Hin as <- _. exact Hfeas.
    - destruct Pbest as [(E & c & n & Hc & ->)|(E & ->)]; simpl; [|exact G10].
      eapply feasible_wf; [exact f|]. apply F4; [|exact Hc]. unfold klt, kle in *. lia.
  Qed.
End PSOBG.

Lemma is_copy_pair_spec t d s1 : is_copy_pair t = Some (d, s1) ->
  t = Seq (CopyPos d s1) (CopyFit d s1) \/ t = Seq (CopyFit d s1) (CopyPos d s1).
Proof.
  destruct t; try discriminate. simpl. destruct t1; try discriminate; destruct t2; try discriminate;
    (destruct (ref_eqb d0 d1 && ref_eqb s s0) eqn:E; [|discriminate]); intros H; injection H as <- <-;
    apply andb_true_iff in E as [E1 E2]; apply ref_eqb_eq in E1, E2; subst; auto.
Qed.

Lemma is_havoc_clip_spec t r : is_havoc_clip t = Some r -> exists m, t = Seq (Havoc m r) (Clip r).
Proof.
  destruct t; try discriminate. simpl. destruct t1; try discriminate. destruct t2; try discriminate.
  destruct (ref_eqb r0 r1) eqn:E; [|discriminate]. intros H. injection H as <-.
  apply ref_eqb_eq in E. subst r1. exists m. reflexivity.
Qed.

Lemma havoc_clip_inv l r a a' : havoc_clip_a l r a = (a', []) ->
  r <> Best /\ is_carrier (snd (rd r a)) = false /\ a' = wr r (QFeas, snd (rd r a)) (kill r a).
Proof.
  unfold havoc_clip_a.
  destruct r; try discriminate; (destruct (is_carrier _) eqn:E; [discriminate|]); intros H; injection H as <-;
    repeat split; try assumption; discriminate.
Qed.

Section HCSEM.
  Variables (lbs ubs : list Z) (f : contents -> Z) (hk : st -> st) (n_iter : nat) (okc : contents -> contents -> bool).
  Notation exec := (exec lbs ubs f hk n_iter okc).
  Notation exec_atom := (exec_atom lbs ubs f hk okc).

  (* r.position = <arithmetic>; r.check_limits(): the two writes amount to one write of a clipped position *)
  Lemma havoc_clip_sem m r cur o x x' evs o' :
    exec cur (Seq (Havoc m r) (Clip r)) o x = Some (x', evs, o') ->
    exists ag c idn x3,
      getr r cur x = Some ag /\ okc (apos ag) c = true /\
      setr r cur (clipa lbs ubs {| apos := c; aid := idn; afit := afit ag |}) x = Some x3 /\
      (x' = x3 \/ exists n, x' = with_next x3 n) /\ evs = [].
  Proof.
    intros Hex.
    change (bind (exec_atom cur (Havoc m r) o x) (fun x1 o1 => exec_atom cur (Clip r) o1 x1) = Some (x', evs, o')) in Hex.
    apply bind_some in Hex as (y & e1 & o1 & e2 & H1 & H2 & ->).
    simpl in H1. destruct o as [|[c|?|?|?] o0]; try discriminate.
    destruct (getr r cur x) as [ag|] eqn:Eg; [|discriminate].
    destruct (okc (apos ag) c) eqn:Eok; simpl in H1; [|discriminate].
    destruct m.
    - destruct (setr r cur _ x) as [x1|] eqn:Es; [|discriminate]. unfold ret in H1. injection H1 as <- <- <-.
      simpl in H2. rewrite getr_with_next, (getr_setr_same _ _ _ _ _ Es) in H2.
      destruct (setr r cur _ (with_next x1 _)) as [x2|] eqn:Es2; [|discriminate]. unfold ret in H2. injection H2 as <- <- <-.
      destruct (setr_setr _ _ _ _ _ _ _ _ Es Es2) as (x3 & Hs3 & ->).
      exists ag, c, (next x), x3. repeat split; try assumption. right. eexists; reflexivity.
    - destruct (setr r cur _ x) as [x1|] eqn:Es; [|discriminate]. unfold ret in H1. injection H1 as <- <- <-.
      simpl in H2. rewrite (getr_setr_same _ _ _ _ _ Es) in H2.
      destruct (setr r cur _ x1) as [x2|] eqn:Es2; [|discriminate]. unfold ret in H2. injection H2 as <- <- <-.
      pose proof (setr_setr0 _ _ _ _ _ _ _ Es Es2) as Hs3.
      exists ag, c, (aid ag), x2. repeat split; try assumption. left. reflexivity.
  Qed.
End HCSEM.

Section SP0.
  Variables (lbs ubs : list Z) (f : contents -> Z) (n_iter : nat).
  Hypothesis box_ok : Forall2 (fun l h => kle l h = true) lbs ubs.
  Notation BG := (BG lbs ubs f).
  Notation exec := (exec lbs ubs f bhk n_iter okc_std).

  Lemma ba_special0_sound : forall l incur s a a', ba_special0 l incur s a = Some (a', []) ->
    forall cur o x h x' evs o', (if incur then exists i, cur = Some i else cur = None) ->
    BG a cur x h -> exec cur s o x = Some (x', evs, o') -> BG a' cur x' (h ++ evs).
  Proof.
    intros l incur s a a' Hsp cur o x h x' evs o' Hcur HG Hex.
    rewrite <- exec_strip in Hex. unfold ba_special0 in Hsp.
    destruct (is_copy_pair (strip s)) as [[d s1]|] eqn:Ecp.
    - apply is_copy_pair_spec in Ecp.
      assert (Hpair : alias d s1 = false -> exists cs od x3, getr s1 cur x = Some cs /\ getr d cur x = Some od /\
                setr d cur {| apos := apos cs; aid := next x; afit := afit cs |} x = Some x3 /\
                x' = with_next x3 (S (next x)) /\ evs = [] /\ o' = o).
      { intros Hal. destruct Ecp as [Ecp|Ecp]; rewrite Ecp in Hex; [eapply pair_sem|eapply pair_sem_rev]; eassumption. }
      clear Hex. injection Hsp as Hsp.
      destruct (ref_eq_dec d Best) as [->|Hd].
      + (* best := copy of s1 *)
        assert (Hal : alias Best s1 = false).
        { unfold assign_best in Hsp. destruct (single s1) eqn:Es; [|discriminate]. destruct s1; try discriminate; reflexivity. }
        destruct (Hpair Hal) as (cs & od & x3 & Hgs & Hgd & Hs & -> & -> & ->).
        simpl in Hs. injection Hs as <-. apply BG_nil, BG_next. eapply BG_assign_best; eassumption.
      + assert (Hsp' : (if alias d s1 then (a, c02 l "copy between possibly identical slots") else assign l d s1 a) = (a', []))
          by (destruct d; try congruence; exact Hsp).
        destruct (alias d s1) eqn:Hal; [discriminate|].
        destruct (Hpair eq_refl) as (cs & od & x3 & Hgs & Hgd & Hs & -> & -> & ->).
        apply BG_nil, BG_next. eapply BG_assign; eassumption.
    - destruct (stmt_eqb (strip s) swap_best) eqn:Esw.
      + apply stmt_eqb_eq in Esw. rewrite Esw in Hex. injection Hsp as Hsp.
        destruct (incur && has_fact (FLt Cur Best) (b_facts a) && is_good (fst (b_cur a))) eqn:E; [|discriminate].
        injection Hsp as <-. apply andb_true_iff in E as [E Hq]. apply andb_true_iff in E as [Hin Hf].
        subst incur. destruct Hcur as [i ->]. apply has_fact_in in Hf.
        apply swap_sem in Hex as (p & l0 & Hp & Hu & -> & -> & ->). apply BG_nil.
        apply BG_swap; try assumption. destruct (fst (b_cur a)); try discriminate; reflexivity.
      + destruct (stmt_eqb (strip s) sweep_pso) eqn:Eps.
        * apply stmt_eqb_eq in Eps. rewrite Eps in Hex. injection Hsp as Hsp.
          destruct (incur && qge (fst (b_cur a)) QFeas && negb (is_carrier (snd (b_cur a))) && b_locw a) eqn:E; [|discriminate].
          injection Hsp as <-. apply andb_true_iff in E as [E Hlw]. apply andb_true_iff in E as [E Hnc].
          apply andb_true_iff in E as [Hin Hq]. apply negb_true_iff in Hnc.
          subst incur. destruct Hcur as [i ->].
          apply pso_sem in Hex as (ag & ag1 & Hag & -> & -> & Hspec).
          eapply BG_pso_step; eassumption.
        * destruct (is_havoc_clip (strip s)) as [r|] eqn:Ehc; [|discriminate]. injection Hsp as Hsp.
          apply is_havoc_clip_spec in Ehc as (m & Est). rewrite Est in Hex.
          apply havoc_clip_sem in Hex as (ag & c & idn & x3 & Eg & Eok & Es & Hx' & ->).
          apply havoc_clip_inv in Hsp as (Hb & Hnc & ->).
          assert (HG3 : BG (wr r (QFeas, snd (rd r a)) (kill r a)) cur x3 h).
          { eapply BG_write; [exact HG|exact Hb|exact Eg|exact Es|exact Hnc| |reflexivity].
            apply (clipa_cell lbs ubs box_ok (QNone, snd (rd r a))). eapply havoc_cell; eassumption. }
          apply BG_nil. destruct Hx' as [->|[n ->]]; [exact HG3|apply BG_next; exact HG3].
  Qed.

  Theorem ba_sound0 : forall s l incur a a', ba_absint0 l incur s a = (a', []) ->
    forall cur o x h x' evs o', (if incur then exists i, cur = Some i else cur = None) ->
      BG a cur x h -> exec cur s o x = Some (x', evs, o') -> BG a' cur x' (h ++ evs).
  Proof.
    intros s l incur a a' Habs cur o x h x' evs o' Hcur HG Hex.
    eapply (absint_sound lbs ubs f bhk n_iter okc_std ba ba_leb ba_join ba_atom ba_assume ba_enter ba_exit ba_special0 BG);
      try eassumption.
    - apply ba_leb_refl.
    - apply ba_leb_trans.
    - apply ba_join_l.
    - apply ba_join_r.
    - intros; eapply BG_mono; eassumption.
    - intros; eapply ba_atom_sound; eassumption.
    - intros; eapply ba_assume_sound; eassumption.
    - intros; apply ba_enter_sound; assumption.
    - intros; eapply ba_exit_sound; eassumption.
    - intros; eapply ba_special0_sound; eassumption.
  Qed.
End SP0.

Lemma fs_enter_mono a b : ba_leb a b = true -> ba_leb (fs_enter a) (fs_enter b) = true.
Proof.
  rewrite !ba_leb_spec. intros (H1 & H2 & H3). split; [|split].
  - intros k. destruct k; simpl; first [apply (H1 CPop)|apply (H1 CTodo)|apply (H1 CTr)|apply (H1 CShall)].
  - exact H2.
  - simpl. intros x [].
Qed.

Section FS.
  Variables (lbs ubs : list Z) (f : contents -> Z) (n_iter : nat).
  Hypothesis box_ok : Forall2 (fun l h => kle l h = true) lbs ubs.
  Notation BG := (BG lbs ubs f).
  Notation exec := (exec lbs ubs f bhk n_iter okc_std).

  Lemma exec_peel s : forall l cur o x, exec cur (snd (peel l s)) o x = exec cur s o x.
  Proof. induction s; intros; try reflexivity. simpl. apply IHs. Qed.

  Lemma fs_init a x h : BG a None x h -> BG (fs_enter (fs_start a)) (Some 0) x h.
  Proof.
    intros HG. eapply BG_reclass; [exact HG| | |auto|reflexivity].
    - intros k' c Hm. destruct k'; simpl in Hm.
      + destruct Hm as (j & _ & Hlt). lia.
      + destruct Hm as (i' & _ & Hn). exists CPop. split; [exists i'; auto|apply cleb_allslots_pop].
      + destruct Hm as (i' & j & _ & _ & Hn). exists CPop. split; [exists j; auto|apply cleb_allslots_pop].
      + exists CTr. split; [exact Hm|apply cleb_refl].
      + destruct Hm as (j & Hn & _). exists CShall. split; [exists j; split; [exact Hn|discriminate]|apply cleb_join_l].
      + destruct Hm as (i' & _ & Hn). exists CShall. split; [exists i'; split; [exact Hn|discriminate]|apply cleb_join_l].
    - intros k c Hm. destruct k; simpl in Hm.
      + destruct Hm as (j & Hn & _). destruct j as [|j].
        * exists CCur. split; [exists 0; auto|apply cleb_allslots_pop].
        * exists CTodo. split; [exists 0, (S j); repeat split; [lia|exact Hn]|apply cleb_allslots_pop].
      + destruct Hm as (i' & Hc & _). discriminate.
      + destruct Hm as (i' & j & Hc & _). discriminate.
      + exists CTr. split; [exact Hm|apply cleb_refl].
      + destruct Hm as (j & Hn & _). destruct j as [|j].
        * exists CSh. split; [exists 0; auto|apply cleb_join_l].
        * exists CShall. split; [exists (S j); split; [exact Hn|discriminate]|apply cleb_join_l].
      + destruct Hm as (i' & Hc & _). discriminate.
  Qed.

  Lemma fs_step a n x h : BG a (Some n) x h -> BG (fs_enter (fs_exit a)) (Some (S n)) x h.
  Proof.
    intros HG. eapply BG_reclass; [exact HG| | |auto|reflexivity].
    - intros k' c Hm. destruct k'; simpl in Hm.
      + destruct Hm as (j & Hn & Hlt). destruct (Nat.eq_dec j n) as [->|Hne].
        * exists CCur. split; [exists n; auto|apply cleb_join_r].
        * exists CPop. split; [exists j; split; [exact Hn|lia]|apply cleb_join_l].
      + destruct Hm as (i' & Hc & Hn). injection Hc as <-. exists CTodo. split; [exists n, (S n); auto|apply cleb_refl].
      + destruct Hm as (i' & j & Hc & Hlt & Hn). injection Hc as <-. exists CTodo. split; [exists n, j; repeat split; [lia|exact Hn]|apply cleb_refl].
      + exists CTr. split; [exact Hm|apply cleb_refl].
      + destruct Hm as (j & Hn & Hc). destruct (Nat.eq_dec j n) as [->|Hne].
        * exists CSh. split; [exists n; auto|apply cleb_join_r].
        * exists CShall. split; [exists j; split; [exact Hn|congruence]|apply cleb_join_l].
      + destruct Hm as (i' & Hc & Hn). injection Hc as <-. exists CShall. split; [exists (S n); split; [exact Hn|intros E; injection E; lia]|apply cleb_join_l].
    - intros k c Hm. destruct k; simpl in Hm.
      + destruct Hm as (j & Hn & Hlt). exists CPop. split; [exists j; split; [exact Hn|lia]|apply cleb_join_l].
      + destruct Hm as (i' & Hc & Hn). injection Hc as <-. exists CPop. split; [exists n; split; [exact Hn|lia]|apply cleb_join_r].
      + destruct Hm as (i' & j & Hc & Hlt & Hn). injection Hc as <-. destruct (Nat.eq_dec j (S n)) as [->|Hne].
        * exists CCur. split; [exists (S n); auto|apply cleb_refl].
        * exists CTodo. split; [exists (S n), j; repeat split; [lia|exact Hn]|apply cleb_refl].
      + exists CTr. split; [exact Hm|apply cleb_refl].
      + destruct Hm as (j & Hn & Hc). destruct (Nat.eq_dec j (S n)) as [->|Hne].
        * exists CSh. split; [exists (S n); auto|apply cleb_join_l].
        * exists CShall. split; [exists j; split; [exact Hn|congruence]|apply cleb_join_l].
      + destruct Hm as (i' & Hc & Hn). injection Hc as <-. exists CShall. split; [exists n; split; [exact Hn|intros E; injection E; lia]|apply cleb_join_r].
  Qed.

  Lemma fs_done a x h : BG (fs_enter a) (Some (length (pop x))) x h -> BG (fs_finish a) None x h.
  Proof.
    intros HG. assert (Hlen : forall j c, nth_error (pop x) j = Some c -> j < length (pop x)).
    { intros j c Hn. apply nth_error_Some. congruence. }
    eapply BG_reclass; [exact HG| | |auto|reflexivity].
    - intros k' c Hm. destruct k'; simpl in Hm.
      + destruct Hm as (j & Hn & _). exists CPop. split; [exists j; split; [exact Hn|eapply Hlen; eassumption]|apply cleb_refl].
      + destruct Hm as (i' & Hc & _). discriminate.
      + destruct Hm as (i' & j & Hc & _). discriminate.
      + exists CTr. split; [exact Hm|apply cleb_refl].
      + destruct Hm as (j & Hn & _). destruct (Nat.eq_dec j (length (pop x))) as [->|Hne].
        * exists CSh. split; [eexists; split; [reflexivity|exact Hn]|apply cleb_refl].
        * exists CShall. split; [exists j; split; [exact Hn|congruence]|apply cleb_refl].
      + destruct Hm as (i' & Hc & _). discriminate.
    - intros k c Hm. destruct k; simpl in Hm.
      + destruct Hm as (j & Hn & _). exists CPop. split; [exists j; auto|apply cleb_refl].
      + destruct Hm as (i' & Hc & Hn). injection Hc as <-. apply Hlen in Hn. lia.
      + destruct Hm as (i' & j & Hc & Hlt & Hn). injection Hc as <-. apply Hlen in Hn. lia.
      + exists CTr. split; [exact Hm|apply cleb_refl].
      + destruct Hm as (j & Hn & _). exists CShall. split; [exists j; split; [exact Hn|discriminate]|apply cleb_refl].
      + destruct Hm as (i' & Hc & Hn). exists CShall. split; [exists i'; split; [exact Hn|discriminate]|apply cleb_refl].
  Qed.
End FS.

Section MAIN.
  Variables (lbs ubs : list Z) (f : contents -> Z) (n_iter : nat).
  Hypothesis box_ok : Forall2 (fun l h => kle l h = true) lbs ubs.
  Notation BG := (BG lbs ubs f).
  Notation exec := (exec lbs ubs f bhk n_iter okc_std).

  Lemma exec_len_id s cur o x x' evs o' : exec cur s o x = Some (x', evs, o') -> length (pop x') = length (pop x).
  Proof. apply (exec_len lbs ubs f bhk n_iter okc_std). intros; reflexivity. Qed.

  (* every slot is visited exactly once: slots before the cursor are described by b_pop, the others by b_todo *)
  Lemma fs_loop J j1 l b :
    ba_absint0 l true b (fs_enter J) = (j1, []) -> ba_leb (fs_exit j1) J = true ->
    forall n i o x h x' evs o', length (pop x) = i + n -> BG (fs_enter J) (Some i) x h ->
      iter_slots i n (fun k => exec (Some k) b) o x = Some (x', evs, o') ->
      BG (fs_enter J) (Some (i + n)) x' (h ++ evs) /\ length (pop x') = i + n.
  Proof.
    intros Habs Hst n. induction n as [|n IH]; intros i o x h x' evs o' Hlen HG H; simpl in H.
    - unfold ret in H. injection H as <- <- <-. rewrite app_nil_r, Nat.add_0_r in *. auto.
    - apply bind_some in H as (x1 & e1 & o1 & e2 & H1 & H2 & ->).
      pose proof (exec_len_id _ _ _ _ _ _ _ H1) as Hl1.
      assert (HG1 : BG (fs_enter J) (Some (S i)) x1 (h ++ e1)).
      { eapply BG_mono; [apply fs_enter_mono; exact Hst|]. apply fs_step.
        eapply (ba_sound0 lbs ubs f n_iter box_ok); [exact Habs|exists i; reflexivity|exact HG|exact H1]. }
      rewrite app_assoc. replace (i + S n) with (S i + n) by lia.
      eapply IH; [|exact HG1|exact H2]. lia.
  Qed.

  Lemma fs_sound l b a J :
    loop ba ba_leb ba_join l (fun j => let (j', al) := ba_absint0 l true b (fs_enter j) in (fs_exit j', al)) (fs_start a) = (J, []) ->
    forall o x h x' evs o', BG a None x h -> exec None (ForSlots b) o x = Some (x', evs, o') ->
    BG (fs_finish J) None x' (h ++ evs).
  Proof.
    intros Hloop o x h x' evs o' HG Hex.
    apply (loop_sound ba ba_leb ba_join ba_leb_refl ba_leb_trans ba_join_l) in Hloop as [Hle (j' & HF & Hst)].
    destruct (ba_absint0 l true b (fs_enter J)) as [j1 al1] eqn:E1. injection HF as <- ->.
    simpl in Hex.
    destruct (fs_loop J j1 l b E1 Hst (length (pop x)) 0 o x h x' evs o') as [HG' Hlen'];
      [reflexivity| |exact Hex|].
    - eapply BG_mono; [apply fs_enter_mono; exact Hle|]. apply fs_init. exact HG.
    - simpl in HG', Hlen'. rewrite <- Hlen' in HG'. apply fs_done. exact HG'.
  Qed.

  Lemma ba_special_sound : forall l incur s a a', ba_special l incur s a = Some (a', []) ->
    forall cur o x h x' evs o', (if incur then exists i, cur = Some i else cur = None) ->
    BG a cur x h -> exec cur s o x = Some (x', evs, o') -> BG a' cur x' (h ++ evs).
  Proof.
    intros l incur s a a' Hsp cur o x h x' evs o' Hcur HG Hex.
    unfold ba_special in Hsp. pose proof (exec_peel lbs ubs f n_iter s l cur o x) as Hp.
    destruct (peel l s) as [l' s'] eqn:Epeel. simpl in Hp.
    assert (Hdef : ba_special0 l incur s a = Some (a', []) -> BG a' cur x' (h ++ evs)).
    { intros H0. eapply ba_special0_sound; eassumption. }
    destruct s'; try (apply Hdef; exact Hsp).
    destruct incur; [discriminate|]. subst cur. injection Hsp as Hsp.
    destruct (loop ba ba_leb ba_join l' _ (fs_start a)) as [J al] eqn:El. injection Hsp as <- ->.
    rewrite <- Hp in Hex. eapply fs_sound; eassumption.
  Qed.

  Theorem ba_sound : forall s l a a', ba_absint l false s a = (a', []) ->
    forall o x h x' evs o', BG a None x h -> exec None s o x = Some (x', evs, o') -> BG a' None x' (h ++ evs).
  Proof.
    intros s l a a' Habs o x h x' evs o' HG Hex.
    eapply (absint_sound lbs ubs f bhk n_iter okc_std ba ba_leb ba_join ba_atom ba_assume ba_enter ba_exit ba_special BG)
      with (incur := false) (cur := None); try eassumption; try reflexivity.
    - apply ba_leb_refl.
    - apply ba_leb_trans.
    - apply ba_join_l.
    - apply ba_join_r.
    - intros; eapply BG_mono; eassumption.
    - intros; eapply (ba_atom_sound lbs ubs f box_ok); eassumption.
    - intros; eapply ba_assume_sound; eassumption.
    - intros; apply ba_enter_sound; assumption.
    - intros; eapply ba_exit_sound; eassumption.
    - intros; eapply ba_special_sound; eassumption.
  Qed.
End MAIN.

(* ---------------------------------------------------------------- the property *)
(* The state a task starts in: every position clipped, NO AGENT BELOW THE BEST AGENT (whatever the fitnesses are),
   the trial and shadow registers hold well-formed arrays.  A freshly built space is such a state (every fitness,
   the best agent's included, is the sentinel: c02_init below), and a program that passes [c02r_check] ends in
   such a state; run() re-creates the local arrays (PSO family), which the invariant does not constrain at a start
   (g_locw speaks about agents strictly below B0 only). *)
Record c02_start (lbs ubs : list Z) (x : st) : Prop := {
  s_pop : forall ag, In ag (pop x) -> feasible lbs ubs (apos ag) = true /\ kle (afit (best x)) (afit ag) = true;
  s_best : wf lbs (apos (best x));
  s_tr : wf lbs (apos (tr x));
  s_sh : forall ag, In ag (sh x) -> wf lbs (apos ag)
}.

Section PROPB.
  Variables (lbs ubs : list Z) (f : contents -> Z) (n_iter : nat).
  Hypothesis box_ok : Forall2 (fun l h => kle l h = true) lbs ubs.

  Lemma init_BG_from x : c02_start lbs ubs x -> best x = B0 -> BG lbs ubs f ba_init None x [].
  Proof.
    intros [I1 I2 I3 I4] Hb0. constructor.
    - intros k c Hm. destruct k; simpl in Hm.
      + destruct Hm as (j & Hn & _). apply nth_error_In in Hn. destruct (I1 c Hn) as [K1 K2].
        split; simpl; [exact K1|]. intros _. exact K2.
      + destruct Hm as (i & Hc & _). discriminate.
      + destruct Hm as (i & j & Hc & _). discriminate.
      + subst c. split; simpl; [exact I3|intros E; discriminate E].
      + destruct Hm as (j & Hn & _). apply nth_error_In in Hn. split; simpl; [apply I4; exact Hn|intros E; discriminate E].
      + destruct Hm as (i & Hc & _). discriminate.
    - intros c v [].
    - intros c v [].
    - right. exact Hb0.
    - rewrite Hb0. apply kle_refl.
    - intros _ i ag c Hn _ Hk. apply nth_error_In in Hn. destruct (I1 ag Hn) as [_ K2]. rewrite Hb0 in K2.
      unfold klt, kle in *. lia.
    - intros ft [].
    - intros h1 y h2 E. destruct h1; discriminate.
    - intros c v [].
    - exact I2.
  Qed.

  (* what the final abstract state says about the final concrete state *)
  Lemma BG_final a' x' evs : BG lbs ubs f a' None x' evs -> no_carrier a' = true ->
    (forall h1 y h2, evs = h1 ++ EvDump y :: h2 -> dump_ok y h1) /\
    dump_ok x' evs /\
    (forall c v, In (EvEval c v) evs -> v = f c) /\
    (forall c v, In (EvEval c v) evs -> feasible lbs ubs c = true).
  Proof.
    intros HG Hnc. destruct HG as [G1 G2 G3 G4 G5 G6 G7 G8 G9 G10].
    split; [exact G8|split; [|split; [exact G3|exact G9]]].
    split; [|split; assumption].
    intros c v Hin. destruct (G2 c v Hin) as [K|(k & c0 & K1 & K2 & _)]; [exact K|].
    exfalso. eapply no_carrier_spec; eassumption.
  Qed.

  Lemma BG_restart a' x' evs : BG lbs ubs f a' None x' evs -> end_ok a' = true -> c02_start lbs ubs x'.
  Proof.
    intros HG He. unfold end_ok in He. apply andb_true_iff in He as [Hq Hr].
    constructor.
    - intros ag Hin. apply In_nth_error in Hin as [j Hn].
      assert (Hm : mem None x' CPop ag) by (exists j; split; [exact Hn|exact I]).
      destruct (g_cell _ _ _ _ _ _ _ HG CPop ag Hm) as [K1 K2]. simpl in K1, K2. split.
      + eapply (qual_ok_mono lbs ubs f _ QFeas) in K1; [exact K1|exact Hq].
      + apply K2. destruct (snd (b_pop a')); try discriminate; reflexivity.
    - exact (g_bwf _ _ _ _ _ _ _ HG).
    - assert (Hm : mem None x' CTr (tr x')) by reflexivity.
      destruct (g_cell _ _ _ _ _ _ _ HG CTr _ Hm) as [K1 _]. eapply qual_ok_wf; [exact f|exact K1].
    - intros ag Hin. apply In_nth_error in Hin as [j Hn].
      assert (Hm : mem None x' CShall ag) by (exists j; split; [exact Hn|discriminate]).
      destruct (g_cell _ _ _ _ _ _ _ HG CShall _ Hm) as [K1 _]. eapply qual_ok_wf; [exact f|exact K1].
  Qed.

  (* one task, started with best agent B0 *)
  Lemma ba_run_from (p : stmt) a' : ba_absint 0 false p ba_init = (a', []) ->
    forall o x0 x' evs o', c02_start lbs ubs x0 -> best x0 = B0 ->
      run lbs ubs f bhk n_iter okc_std p o x0 = Some (x', evs, o') -> BG lbs ubs f a' None x' evs.
  Proof.
    intros E o x0 x' evs o' Hi Hb0 Hr.
    exact (ba_sound lbs ubs f n_iter box_ok p 0 ba_init a' E o x0 [] x' evs o' (init_BG_from x0 Hi Hb0) Hr).
  Qed.
End PROPB.
End WithB0.

(* a freshly built space (C06): every position feasible, every fitness the sentinel FLOAT_MAX, the best agent
   the placeholder with fitness FLOAT_MAX; the trial and shadow registers hold well-formed arrays *)
Record c02_init (lbs ubs : list Z) (x : st) : Prop := {
  i_pop : forall ag, In ag (pop x) -> feasible lbs ubs (apos ag) = true /\ afit ag = KMAX;
  i_best : afit (best x) = KMAX /\ wf lbs (apos (best x));
  i_tr : wf lbs (apos (tr x));
  i_sh : forall ag, In ag (sh x) -> wf lbs (apos ag)
}.

(* a fresh space is a start state *)
Lemma c02_init_start lbs ubs x : c02_init lbs ubs x -> c02_start lbs ubs x.
Proof.
  intros [I1 [I2 I2'] I3 I4]. constructor; try assumption.
  intros ag Hin. destruct (I1 ag Hin) as [K1 K2]. split; [exact K1|]. rewrite I2, K2. apply kle_refl.
Qed.

(* run() re-creates its local arrays: that does not touch what a start state is *)
Lemma c02_start_with_loc lbs ubs x lc : c02_start lbs ubs x -> c02_start lbs ubs (with_loc x lc).
Proof. intros [I1 I2 I3 I4]. constructor; assumption. Qed.

(* w.r.t. a placeholder whose fitness is the sentinel, [dump_ok_from] is [dump_ok] *)
Lemma dump_ok_from_fresh B0 y h : afit B0 = KMAX -> dump_ok_from B0 y h -> dump_ok y h.
Proof.
  intros HB (H1 & H2 & H3). split; [exact H1|split].
  - destruct H2 as [H2|H2]; [left; exact H2|right; rewrite H2; exact HB].
  - rewrite <- HB. exact H3.
Qed.

Lemma c02r_check_c02 p : c02r_check p = true -> c02_check p = true.
Proof.
  unfold c02r_check, c02_check. destruct (ba_absint 0 false p ba_init) as [a' [|? ?]]; [|discriminate].
  intros H. apply andb_true_iff in H as [H _]. exact H.
Qed.

Section PROP.
  Variables (lbs ubs : list Z) (f : contents -> Z) (n_iter : nat).
  Hypothesis box_ok : Forall2 (fun l h => kle l h = true) lbs ubs.

  (* C02 for one task of one program, started in ANY start state (B0 := the best agent it starts with) *)
  Theorem c02_of_check_from (p : stmt) : c02_check p = true ->
    forall o x0 x' evs o', c02_start lbs ubs x0 -> run lbs ubs f bhk n_iter okc_std p o x0 = Some (x', evs, o') ->
      (forall h1 y h2, evs = h1 ++ EvDump y :: h2 -> dump_ok_from (best x0) y h1) /\
      dump_ok_from (best x0) x' evs /\
      (forall c v, In (EvEval c v) evs -> v = f c).
  Proof.
    unfold c02_check. intros Hc o x0 x' evs o' Hi Hr.
    destruct (ba_absint 0 false p ba_init) as [a' al] eqn:E. destruct al; [|discriminate].
    pose proof (ba_run_from (best x0) lbs ubs f n_iter box_ok p a' E o x0 x' evs o' Hi eq_refl Hr) as HG.
    destruct (BG_final _ _ _ _ _ _ _ HG Hc) as (H1 & H2 & H3 & _). auto.
  Qed.

  (* ... and, with the end-of-task condition, it ends in a start state again *)
  Theorem c02r_of_check_from (p : stmt) : c02r_check p = true ->
    forall o x0 x' evs o', c02_start lbs ubs x0 -> run lbs ubs f bhk n_iter okc_std p o x0 = Some (x', evs, o') ->
      (forall h1 y h2, evs = h1 ++ EvDump y :: h2 -> dump_ok_from (best x0) y h1) /\
      dump_ok_from (best x0) x' evs /\
      (forall c v, In (EvEval c v) evs -> v = f c) /\
      c02_start lbs ubs x'.
  Proof.
    unfold c02r_check. intros Hc o x0 x' evs o' Hi Hr.
    destruct (ba_absint 0 false p ba_init) as [a' al] eqn:E. destruct al; [|discriminate].
    apply andb_true_iff in Hc as [Hnc He].
    pose proof (ba_run_from (best x0) lbs ubs f n_iter box_ok p a' E o x0 x' evs o' Hi eq_refl Hr) as HG.
    destruct (BG_final _ _ _ _ _ _ _ HG Hnc) as (H1 & H2 & H3 & _).
    split; [exact H1|split; [exact H2|split; [exact H3|]]]. eapply BG_restart; eassumption.
  Qed.

  (* C02 for one program on a fresh space (the original statement) *)
  Theorem c02_of_check (p : stmt) : c02_check p = true ->
    forall o x0 x' evs o', c02_init lbs ubs x0 -> run lbs ubs f bhk n_iter okc_std p o x0 = Some (x', evs, o') ->
      (forall h1 y h2, evs = h1 ++ EvDump y :: h2 -> dump_ok y h1) /\
      dump_ok x' evs /\
      (forall c v, In (EvEval c v) evs -> v = f c).
  Proof.
    intros Hc o x0 x' evs o' Hi Hr.
    destruct (c02_of_check_from p Hc o x0 x' evs o' (c02_init_start _ _ _ Hi) Hr) as (H1 & H2 & H3).
    pose proof (proj1 (i_best _ _ _ Hi)) as HB.
    split; [|split; [|exact H3]].
    - intros h1 y h2 E. eapply dump_ok_from_fresh; [exact HB|eapply H1; exact E].
    - eapply dump_ok_from_fresh; eassumption.
  Qed.
End PROP.

(* consequences of [dump_ok] *)
Lemma dump_ok_argmin y h : dump_ok y h -> (exists c v, In (EvEval c v) h /\ klt v KMAX = true) ->
  In (EvEval (apos (best y)) (afit (best y))) h.
Proof.
  intros (H1 & [H2|H2] & H3) (c & v & Hin & Hlt); [exact H2|].
  specialize (H1 c v Hin). rewrite H2 in H1. unfold klt, kle in *. lia.
Qed.

Lemma dump_ok_mono y1 h1 y2 h2 : dump_ok y1 h1 -> dump_ok y2 h2 -> (forall e, In e h1 -> In e h2) ->
  kle (afit (best y2)) (afit (best y1)) = true.
Proof.
  intros (_ & [A|A] & _) (B1 & _ & B3) Hsub.
  - eapply B1. apply Hsub. exact A.
  - rewrite A. exact B3.
Qed.

(* the recorded best fitness is the objective's value at the recorded best position *)
Lemma dump_ok_true_fit (f : contents -> Z) y h : dump_ok y h -> (forall c v, In (EvEval c v) h -> v = f c) ->
  (exists c v, In (EvEval c v) h /\ klt v KMAX = true) -> afit (best y) = f (apos (best y)).
Proof. intros Hd Hf Hex. apply Hf. apply dump_ok_argmin; assumption. Qed.

(* best.fit is exactly the minimum: a lower bound that is attained *)
Lemma dump_ok_min y h : dump_ok y h -> (exists c v, In (EvEval c v) h /\ klt v KMAX = true) ->
  In (afit (best y)) (eval_vals h) /\ forall v, In v (eval_vals h) -> kle (afit (best y)) v = true.
Proof.
  intros Hd Hex. pose proof (dump_ok_argmin _ _ Hd Hex) as Hin. destruct Hd as (H1 & _ & _).
  assert (Hv : forall v l, In v (eval_vals l) <-> exists c, In (EvEval c v) l).
  { intros v l. unfold eval_vals. rewrite in_flat_map. split.
    - intros (e & He & Hv). destruct e; simpl in Hv; try contradiction. destruct Hv as [<-|[]]. eexists; eassumption.
    - intros (c & Hc). exists (EvEval c v). split; [exact Hc|left; reflexivity]. }
  split; [apply Hv; eexists; exact Hin|]. intros v Hvin. apply Hv in Hvin as (c & Hc). eapply H1; exact Hc.
Qed.

Lemma dumps_monotone evs : (forall h1 y h2, evs = h1 ++ EvDump y :: h2 -> dump_ok y h1) ->
  forall h1 y1 h2 y2 h3, evs = h1 ++ EvDump y1 :: h2 ++ EvDump y2 :: h3 ->
  kle (afit (best y2)) (afit (best y1)) = true.
Proof.
  intros H h1 y1 h2 y2 h3 E.
  pose proof (H h1 y1 (h2 ++ EvDump y2 :: h3) E) as D1.
  assert (E2 : evs = (h1 ++ EvDump y1 :: h2) ++ EvDump y2 :: h3) by (rewrite E, <- app_assoc; reflexivity).
  pose proof (H _ _ _ E2) as D2.
  eapply dump_ok_mono; [exact D1|exact D2|]. intros e He. apply in_or_app. left. exact He.
Qed.

Lemma final_monotone evs x' : dump_ok x' evs ->
  (forall h1 y h2, evs = h1 ++ EvDump y :: h2 -> dump_ok y h1) ->
  forall h1 y1 h2, evs = h1 ++ EvDump y1 :: h2 -> kle (afit (best x')) (afit (best y1)) = true.
Proof.
  intros Hf H h1 y1 h2 E. eapply dump_ok_mono; [exact (H _ _ _ E)|exact Hf|].
  intros e He. rewrite E. apply in_or_app. left. exact He.
Qed.

(* ---------------------------------------------------------------- consequences of [dump_ok_from] *)
(* once the best agent is strictly below the one the task started with, it is an evaluated pair of this task *)
Lemma dump_ok_from_argmin B0 y h : dump_ok_from B0 y h -> klt (afit (best y)) (afit B0) = true ->
  In (EvEval (apos (best y)) (afit (best y))) h.
Proof. intros (_ & [H2|H2] & _) Hlt; [exact H2|]. rewrite H2, klt_irrefl in Hlt. discriminate. Qed.

(* in particular as soon as one evaluation of the task is strictly below the inherited best fitness *)
Lemma dump_ok_from_argmin_ev B0 y h : dump_ok_from B0 y h -> (exists c v, In (EvEval c v) h /\ klt v (afit B0) = true) ->
  In (EvEval (apos (best y)) (afit (best y))) h.
Proof.
  intros Hd (c & v & Hin & Hlt). apply (dump_ok_from_argmin B0); [exact Hd|].
  destruct Hd as (H1 & _ & _). specialize (H1 c v Hin). unfold klt, kle in *. lia.
Qed.

Lemma dump_ok_from_mono B0 y1 h1 y2 h2 : dump_ok_from B0 y1 h1 -> dump_ok_from B0 y2 h2 -> (forall e, In e h1 -> In e h2) ->
  kle (afit (best y2)) (afit (best y1)) = true.
Proof.
  intros (_ & [A|A] & _) (B1 & _ & B3) Hsub.
  - eapply B1. apply Hsub. exact A.
  - rewrite A. exact B3.
Qed.

Lemma dumps_monotone_from B0 evs : (forall h1 y h2, evs = h1 ++ EvDump y :: h2 -> dump_ok_from B0 y h1) ->
  forall h1 y1 h2 y2 h3, evs = h1 ++ EvDump y1 :: h2 ++ EvDump y2 :: h3 ->
  kle (afit (best y2)) (afit (best y1)) = true.
Proof.
  intros H h1 y1 h2 y2 h3 E.
  pose proof (H h1 y1 (h2 ++ EvDump y2 :: h3) E) as D1.
  assert (E2 : evs = (h1 ++ EvDump y1 :: h2) ++ EvDump y2 :: h3) by (rewrite E, <- app_assoc; reflexivity).
  pose proof (H _ _ _ E2) as D2.
  eapply dump_ok_from_mono; [exact D1|exact D2|]. intros e He. apply in_or_app. left. exact He.
Qed.

Lemma final_monotone_from B0 evs x' : dump_ok_from B0 x' evs ->
  (forall h1 y h2, evs = h1 ++ EvDump y :: h2 -> dump_ok_from B0 y h1) ->
  forall h1 y1 h2, evs = h1 ++ EvDump y1 :: h2 -> kle (afit (best x')) (afit (best y1)) = true.
Proof.
  intros Hf H h1 y1 h2 E. eapply dump_ok_from_mono; [exact (H _ _ _ E)|exact Hf|].
  intros e He. rewrite E. apply in_or_app. left. exact He.
Qed.

(* a state trivially satisfies the claim w.r.t. its own best agent and the empty history *)
Lemma dump_ok_from_self x : dump_ok_from (best x) x [].
Proof. split; [intros c v []|split; [right; reflexivity|apply kle_refl]]. Qed.

(* REBASE: the claim of a later task w.r.t. the best agent it inherited from an earlier part of the history is the claim
   w.r.t. the best agent the history started with, over the concatenated events *)
Lemma dump_ok_from_rebase B0 x1 evs1 y h :
  dump_ok_from B0 x1 evs1 -> dump_ok_from (best x1) y h -> dump_ok_from B0 y (evs1 ++ h).
Proof.
  intros (A1 & A2 & A3) (C1 & C2 & C3). split; [|split].
  - intros c v Hin. apply in_app_or in Hin as [Hin|Hin]; [|eapply C1; exact Hin].
    eapply kle_trans; [exact C3|eapply A1; exact Hin].
  - destruct C2 as [C2|C2]; [left; apply in_or_app; right; exact C2|].
    rewrite C2. destruct A2 as [A2|A2]; [left; apply in_or_app; left; exact A2|right; exact A2].
  - eapply kle_trans; [exact C3|exact A3].
Qed.

(* ---------------------------------------------------------------- histories of tasks on one space
   A task inherits the agents (positions and fitnesses), the best agent, the trial and shadow registers and re-creates
   its local arrays [lc] (any contents).  A history is recorded task by task: (state the task started in, its events,
   the state it ended in). *)
Section Tasks.
  Variables (lbs ubs : list Z) (f : contents -> Z) (n_iter : nat).
  Hypothesis box_ok : Forall2 (fun l h => kle l h = true) lbs ubs.

  Definition seg := (st * list event * st)%type.
  Definition seg_start (s : seg) : st := fst (fst s).
  Definition seg_evs (s : seg) : list event := snd (fst s).
  Definition seg_end (s : seg) : st := snd s.
  Definition hist (segs : list seg) : list event := flat_map seg_evs segs.

  Inductive tasks02 : list stmt -> st -> list seg -> st -> Prop :=
  | tasks02_nil x : tasks02 [] x [] x
  | tasks02_cons p ps x lc o x1 evs1 o1 segs x2 :
      run lbs ubs f bhk n_iter okc_std p o (with_loc x lc) = Some (x1, evs1, o1) ->
      tasks02 ps x1 segs x2 ->
      tasks02 (p :: ps) x ((x, evs1, x1) :: segs) x2.

  (* the per-task claim, w.r.t. the best agent the task started with *)
  Definition task_ok (s : seg) : Prop :=
    c02_start lbs ubs (seg_start s) /\
    (forall h1 y h2, seg_evs s = h1 ++ EvDump y :: h2 -> dump_ok_from (best (seg_start s)) y h1) /\
    dump_ok_from (best (seg_start s)) (seg_end s) (seg_evs s) /\
    (forall c v, In (EvEval c v) (seg_evs s) -> v = f c) /\
    c02_start lbs ubs (seg_end s).

  (* every task of every finite history satisfies the per-task claim *)
  Theorem c02_tasks_each (ps : list stmt) :
    Forall (fun p => c02r_check p = true) ps ->
    forall x0 segs x', c02_start lbs ubs x0 -> tasks02 ps x0 segs x' ->
      Forall task_ok segs /\ c02_start lbs ubs x'.
  Proof.
    intros Hps x0 segs x' H0 Ht. induction Ht as [x|p ps x lc o x1 evs1 o1 segs x2 Hrun Ht IH].
    - split; [constructor|exact H0].
    - pose proof (Forall_inv Hps) as Hp. pose proof (Forall_inv_tail Hps) as Hps'. simpl in Hp.
      destruct (c02r_of_check_from lbs ubs f n_iter box_ok p Hp o (with_loc x lc) x1 evs1 o1
                  (c02_start_with_loc _ _ _ lc H0) Hrun) as (K1 & K2 & K3 & K4).
      destruct (IH Hps' K4) as [IH1 IH2]. split; [|exact IH2].
      constructor; [|exact IH1]. unfold task_ok, seg_start, seg_evs, seg_end; simpl.
      split; [exact H0|split; [exact K1|split; [exact K2|split; [exact K3|exact K4]]]].
  Qed.

  (* hence the whole history behaves like ONE task started with the best agent the history started with *)
  Theorem c02_tasks (ps : list stmt) :
    Forall (fun p => c02r_check p = true) ps ->
    forall x0 segs x', c02_start lbs ubs x0 -> tasks02 ps x0 segs x' ->
      (forall h1 y h2, hist segs = h1 ++ EvDump y :: h2 -> dump_ok_from (best x0) y h1) /\
      dump_ok_from (best x0) x' (hist segs) /\
      (forall c v, In (EvEval c v) (hist segs) -> v = f c) /\
      c02_start lbs ubs x'.
  Proof.
    intros Hps x0 segs x' H0 Ht. induction Ht as [x|p ps x lc o x1 evs1 o1 segs x2 Hrun Ht IH].
    - simpl. split; [intros h1 y h2 E; destruct h1; discriminate|].
      split; [apply dump_ok_from_self|split; [intros c v []|exact H0]].
    - pose proof (Forall_inv Hps) as Hp. pose proof (Forall_inv_tail Hps) as Hps'. simpl in Hp.
      destruct (c02r_of_check_from lbs ubs f n_iter box_ok p Hp o (with_loc x lc) x1 evs1 o1
                  (c02_start_with_loc _ _ _ lc H0) Hrun) as (K1 & K2 & K3 & K4).
      change (best (with_loc x lc)) with (best x) in K1, K2.
      destruct (IH Hps' K4) as (J1 & J2 & J3 & J4).
      change (hist ((x, evs1, x1) :: segs)) with (evs1 ++ hist segs).
      split; [|split; [|split; [|exact J4]]].
      + intros h1 y h2 E. apply app_eq_app in E as [l [[E1 E2]|[E1 E2]]].
        * (* the record lies in a later task, or is the first event after evs1 *)
          destruct l as [|e l].
          -- rewrite app_nil_r in E1. subst evs1. simpl in E2.
             rewrite <- (app_nil_r h1). eapply dump_ok_from_rebase; [exact K2|].
             eapply (J1 [] y h2). symmetry. exact E2.
          -- simpl in E2. injection E2 as <- E2. eapply K1. exact E1.
        * subst h1. eapply dump_ok_from_rebase; [exact K2|]. eapply J1. exact E2.
      + eapply dump_ok_from_rebase; eassumption.
      + intros c v Hin. apply in_app_or in Hin as [Hin|Hin]; [eapply K3|eapply J3]; exact Hin.
  Qed.
End Tasks.

Print Assumptions c02_tasks.
Print Assumptions c02_tasks_each.
Print Assumptions c02_of_check.
