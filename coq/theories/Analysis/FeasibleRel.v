(* C01 over histories of tasks: a relational refinement of Analysis/Feasible.v.

   Feasible.v proves, for one task on a freshly built space, that the reported best position is feasible
   "or still the initial placeholder".  That statement is too weak to be carried from one task to the next on the
   same space: run() re-creates its local arrays (PSO family: local_position = zeros), while the fitnesses of the
   agents and the best agent persist.  Here the domain of Feasible.v is paired with facts about the ORDER of the
   fitnesses:

     ge_done / ge_cur / ge_todo   no slot of the class has a fitness below the best agent's
                                  (classes: slots the enclosing ForSlots has visited / its loop slot / not reached yet)
     lt_cb                        the loop slot's fitness is below the best agent's (the test just taken)
     locrel                       every slot (LAll) / every slot but the loop slot (LButCur) whose fitness is below the
                                  best agent's has a feasible local position
     bguard                       the best position is feasible, or the best agent is still the untouched placeholder
                                  (position one of INIT and fitness the FLOAT_MAX sentinel)

   The check of a program asks for no alarm from the state [ra_init] every task starts in, and that the program
   re-establishes it ([c01r_check]); [c01_tasks] then covers every finite sequence of tasks on one space. *)
From Coq Require Import String ZArith List Bool Arith Lia.
From OV Require Import Base.FloatKey Model.Clip Model.IR Model.IRSem Analysis.AbsInt Analysis.SemLemmas Analysis.Feasible.
Import ListNotations.
Close Scope Z_scope.
Open Scope nat_scope.

Inductive lrel := LNone | LButCur | LAll.

Record rel := {
  ge_done : bool; ge_cur : bool; ge_todo : bool;
  lt_cb : bool;
  locrel : lrel;
  bguard : bool
}.

Definition ra := (fa * rel)%type.

Definition lr_ge (a b : lrel) : bool :=
  match a, b with
  | _, LNone => true
  | LAll, _ => true
  | LButCur, LButCur => true
  | _, _ => false
  end.
Definition lr_min (a b : lrel) : lrel :=
  match a, b with
  | LAll, x => x | x, LAll => x
  | LButCur, LButCur => LButCur
  | _, _ => LNone
  end.

Definition rel_leb (q s : rel) : bool :=
  implb (ge_done s) (ge_done q) && implb (ge_cur s) (ge_cur q) && implb (ge_todo s) (ge_todo q)
  && implb (lt_cb s) (lt_cb q) && lr_ge (locrel q) (locrel s) && implb (bguard s) (bguard q).
Definition rel_join (q s : rel) : rel :=
  {| ge_done := ge_done q && ge_done s; ge_cur := ge_cur q && ge_cur s; ge_todo := ge_todo q && ge_todo s;
     lt_cb := lt_cb q && lt_cb s; locrel := lr_min (locrel q) (locrel s); bguard := bguard q && bguard s |}.

Definition ra_leb (x y : ra) : bool := fa_leb (fst x) (fst y) && rel_leb (snd x) (snd y).
Definition ra_join (x y : ra) : ra := (fa_join (fst x) (fst y), rel_join (snd x) (snd y)).

Definition is_feas (l : lvl) : bool := match l with Feas => true | _ => false end.

Definition set_best_lvl (a : fa) (v : lvl) : fa := wr Best v a.

(* ---- the effect of the atoms on the fitness facts *)
Definition up_loc (l : lrel) : lrel := match l with LButCur => LAll | x => x end.      (* the loop slot's implication holds *)
Definition down_loc (l : lrel) : lrel := match l with LAll => LButCur | x => x end.   (* ... may have been broken *)

Definition with_bguard (q : rel) (b : bool) : rel :=
  {| ge_done := ge_done q; ge_cur := ge_cur q; ge_todo := ge_todo q; lt_cb := lt_cb q; locrel := locrel q; bguard := b |}.

(* r.fit := some value *)
Definition fit_written (r : ref) (q : rel) : rel :=
  match r with
  | Cur => {| ge_done := ge_done q; ge_cur := false; ge_todo := ge_todo q; lt_cb := false; locrel := down_loc (locrel q); bguard := bguard q |}
  | Slot _ | Last => {| ge_done := false; ge_cur := false; ge_todo := false; lt_cb := false; locrel := LNone; bguard := bguard q |}
  | Best => {| ge_done := false; ge_cur := false; ge_todo := false; lt_cb := false; locrel := LNone; bguard := false |}
  | Tr | Sh => q
  end.

(* r.fit := best.fit *)
Definition fit_from_best (r : ref) (q : rel) : rel :=
  match r with
  | Cur => {| ge_done := ge_done q; ge_cur := true; ge_todo := ge_todo q; lt_cb := false; locrel := up_loc (locrel q); bguard := bguard q |}
  | Slot _ | Last => {| ge_done := ge_done q; ge_cur := ge_cur q; ge_todo := ge_todo q; lt_cb := false; locrel := locrel q; bguard := bguard q |}
  | Best | Tr | Sh => q
  end.

(* best.fit := cur.fit  under the fact cur.fit < best.fit;  also  cur.fit, best.fit := best.fit, cur.fit *)
Definition best_lowered (q : rel) : rel :=
  {| ge_done := ge_done q; ge_cur := true; ge_todo := ge_todo q; lt_cb := false; locrel := up_loc (locrel q); bguard := false |}.

Definition is_best (r : ref) : bool := match r with Best => true | _ => false end.
Definition is_cur (r : ref) : bool := match r with Cur => true | _ => false end.

Definition rel_atom (s : stmt) (a : fa) (q : rel) : rel :=
  match s with
  | Havoc _ r | Clip r | PosFromTree r => if is_best r then with_bguard q false else q
  | CopyPos d _ => if is_best d then with_bguard q false else q
  | BestPosFromLoc => with_bguard q false
  | SwapPos r1 r2 => if is_best r1 || is_best r2 then with_bguard q false else q
  | Eval r | SetFitTmp r => fit_written r q
  | CopyFit d s0 =>
      if is_best d then (if is_cur s0 && lt_cb q then best_lowered q else fit_written Best q)
      else if is_best s0 then fit_from_best d q else fit_written d q
  | SwapFit r1 r2 =>
      if ((is_cur r1 && is_best r2) || (is_best r1 && is_cur r2)) && lt_cb q then best_lowered q
      else fit_written r1 (fit_written r2 q)
  | Store d s0 => if is_best s0 then fit_from_best d q else fit_written d q
  | LocFromPos =>
      {| ge_done := ge_done q; ge_cur := ge_cur q; ge_todo := ge_todo q; lt_cb := lt_cb q;
         locrel := if is_feas (f_cur a) then up_loc (locrel q) else down_loc (locrel q); bguard := bguard q |}
  | SortByFit =>
      let g := ge_done q && ge_cur q && ge_todo q in
      {| ge_done := g; ge_cur := g; ge_todo := g; lt_cb := false; locrel := LNone; bguard := bguard q |}
  | _ => q
  end.

Definition norm (x : ra) : ra :=
  if is_feas (f_best (fst x)) then (fst x, with_bguard (snd x) true) else x.

Definition c01r (l : nat) (why : string) : list alarm := [(l, ("C01: " ++ why)%string)].

Definition ra_atom (l : nat) (s : stmt) (x : ra) : ra * list alarm :=
  let (a, q) := x in
  let (a1, al) := fa_atom l s a in
  let a2 := match s with
            | BestPosFromLoc => if lt_cb q && match locrel q with LAll => true | _ => false end then set_best_lvl a1 Feas else a1
            | SwapPos r1 r2 =>
                if (is_cur r1 && is_best r2) || (is_best r1 && is_cur r2)
                then wr Best (f_cur a) (wr Cur (f_best a) a) else a1
            | _ => a1
            end in
  let al2 := match s with
             | Hook | Dump => if bguard q then [] else c01r l "the best position is reported while it may be neither feasible nor the untouched placeholder"
             | _ => []
             end in
  (norm (a2, rel_atom s a q), al ++ al2).

Definition ra_assume (c : cond) (b : bool) (x : ra) : ra :=
  let (a, q) := x in
  match c with
  | FitLt Cur Best =>
      if b then (a, {| ge_done := ge_done q; ge_cur := ge_cur q; ge_todo := ge_todo q; lt_cb := true; locrel := locrel q; bguard := bguard q |})
      else (a, {| ge_done := ge_done q; ge_cur := true; ge_todo := ge_todo q; lt_cb := lt_cb q; locrel := up_loc (locrel q); bguard := bguard q |})
  | _ => x
  end.

Definition flat_loc (l : lrel) : lrel := match l with LAll => LAll | _ => LNone end.
Definition exit_loc (q : rel) : lrel :=
  match locrel q with LAll => LAll | LButCur => if ge_cur q then LAll else LNone | LNone => LNone end.

(* weak binding of the loop slot (Onlooker: slots are visited repeatedly) *)
Definition ra_enter (x : ra) : ra :=
  let (a, q) := x in
  (fa_enter a, {| ge_done := ge_done q; ge_cur := ge_done q; ge_todo := ge_done q; lt_cb := false; locrel := flat_loc (locrel q); bguard := bguard q |}).
Definition ra_exit (x : ra) : ra :=
  let (a, q) := x in
  (fa_exit a, {| ge_done := ge_done q && ge_cur q && ge_todo q; ge_cur := true; ge_todo := true; lt_cb := false; locrel := exit_loc q; bguard := bguard q |}).

(* r.position = <arithmetic>; r.check_limits()  -- a strong update of one slot: it ends feasible, the others are untouched *)
Definition havoc_clip (t : stmt) : option ref :=
  match t with
  | Seq (Havoc _ r) (Clip r') => if ref_eqb r r' && negb (is_best r) then Some r else None
  | _ => None
  end.

Definition ra_special0 (l : nat) (incur : bool) (s : stmt) (x : ra) : option (ra * list alarm) :=
  match havoc_clip (strip s) with
  | Some r => Some (norm (wr r Feas (fst x), snd x), [])
  | None => None
  end.
Definition ra_absint0 := absint ra ra_leb ra_join ra_atom ra_assume ra_enter ra_exit ra_special0.

(* ForSlots visits every slot exactly once, in order *)
Fixpoint peel (l : nat) (s : stmt) : nat * stmt :=
  match s with At l' s1 => peel l' s1 | _ => (l, s) end.

Definition fs_start (x : ra) : ra :=
  let (a, q) := x in
  (a, {| ge_done := true; ge_cur := true; ge_todo := ge_done q; lt_cb := false; locrel := flat_loc (locrel q); bguard := bguard q |}).
Definition fs_enter (x : ra) : ra :=
  let (a, q) := x in
  (fa_enter a, {| ge_done := ge_done q; ge_cur := ge_todo q; ge_todo := ge_todo q; lt_cb := false; locrel := flat_loc (locrel q); bguard := bguard q |}).
Definition fs_exit (x : ra) : ra :=
  let (a, q) := x in
  (fa_exit a, {| ge_done := ge_done q && ge_cur q; ge_cur := true; ge_todo := ge_todo q; lt_cb := false; locrel := exit_loc q; bguard := bguard q |}).
Definition fs_finish (x : ra) : ra :=
  let (a, q) := x in
  (a, {| ge_done := ge_done q; ge_cur := true; ge_todo := true; lt_cb := false; locrel := flat_loc (locrel q); bguard := bguard q |}).

Definition ra_special (l : nat) (incur : bool) (s : stmt) (x : ra) : option (ra * list alarm) :=
  match peel l s with
  | (l', ForSlots b) =>
      if incur then None else
      Some (let (j, al) := loop ra ra_leb ra_join l'
                             (fun j => let (j', al) := ra_absint0 l' true b (fs_enter j) in (fs_exit j', al)) (fs_start x) in
            (fs_finish j, al))
  | _ => ra_special0 l incur s x
  end.

Definition ra_absint := absint ra ra_leb ra_join ra_atom ra_assume ra_enter ra_exit ra_special.

(* the state every task starts in: positions feasible, the best agent feasible or the untouched placeholder, no agent
   below the best agent, the local arrays freshly re-created *)
Definition rel_init : rel :=
  {| ge_done := true; ge_cur := true; ge_todo := true; lt_cb := false; locrel := LAll; bguard := true |}.
Definition ra_init : ra := (fa_init, rel_init).

Definition c01r_result (p : stmt) : ra * list alarm := ra_absint 0 false p ra_init.

Definition c01r_check (p : stmt) : bool :=
  match c01r_result p with
  | ((a', q'), []) => bguard q' && ge_done q' && is_feas (f_pop a')
  | _ => false
  end.
