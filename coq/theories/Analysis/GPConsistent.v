(* C12 (IR part): GP results agree — best tree, best position, best fitness and every agent.

   In the IR semantics [tv x] is the current value (position array) of every tree and [btv x] the value of the
   detached best-tree copy.  The GP tree steps may change the value of every tree; [PosFromTree Cur] sets the
   loop slot's position to tv[cur]; [BestTreeCopy] sets btv := tv[cur].

   Domain: flags saying which consistency facts are known.  The population sweep [ForSlots b] gets a strong
   update through [special]: the body is analysed (by the same abstract interpreter, without special rules) from
   "every slot below the loop slot is consistent, nothing known about the loop slot"; if it ends in "... and the
   loop slot is consistent" then after the loop every slot is. *)
From Coq Require Import String ZArith List Bool Arith Lia.
From OV Require Import Base.FloatKey Model.Clip Model.IR Model.IRSem Analysis.AbsInt Analysis.SemLemmas Analysis.Distinct.
Import ListNotations.
Close Scope Z_scope.
Open Scope nat_scope.

Record ga := {
  g_in : bool;      (* inside a ForSlots body *)
  g_all : bool;     (* outside: every slot is consistent with its tree; inside: every slot below the loop slot is *)
  g_lv : nat;       (* loop slot: 1 = position is tv[cur]; 2 = position is clip(tv[cur]); 3 = 2 and fit = f(position); 0 = unknown *)
  g_bt : bool;      (* btv = tv[cur] *)
  g_bp : bool;      (* best position = loop slot's position *)
  g_bf : bool;      (* best fitness = loop slot's fitness *)
  g_best : bool     (* best agent consistent with btv, or still the initial placeholder *)
}.

Definition lv_leb (a b : nat) : bool := Nat.eqb b 0 || Nat.eqb a b.    (* a carries at least the information of b *)
Definition lv_join (a b : nat) : nat := if Nat.eqb a b then a else 0.

Definition ga_leb (a b : ga) : bool :=
  implb (g_in a) (g_in b) && implb (g_all b) (g_all a) && lv_leb (g_lv a) (g_lv b)
  && implb (g_bt b) (g_bt a) && implb (g_bp b) (g_bp a) && implb (g_bf b) (g_bf a) && implb (g_best b) (g_best a).

Definition ga_join (a b : ga) : ga :=
  {| g_in := g_in a || g_in b; g_all := g_all a && g_all b; g_lv := lv_join (g_lv a) (g_lv b);
     g_bt := g_bt a && g_bt b; g_bp := g_bp a && g_bp b; g_bf := g_bf a && g_bf b; g_best := g_best a && g_best b |}.

(* when the best agent is known to be a copy of the (consistent) loop slot and the best tree a copy of its tree,
   the best agent is consistent *)
Definition norm (a : ga) : ga :=
  if g_bt a && g_bp a && g_bf a && Nat.eqb (g_lv a) 3
  then {| g_in := g_in a; g_all := g_all a; g_lv := g_lv a; g_bt := g_bt a; g_bp := g_bp a; g_bf := g_bf a; g_best := true |}
  else a.

(* nothing is known any more about the agent behind [r] *)
Definition kill (r : ref) (a : ga) : ga :=
  match r with
  | Cur => {| g_in := g_in a; g_all := g_all a; g_lv := 0; g_bt := g_bt a; g_bp := false; g_bf := false; g_best := g_best a |}
  | Slot _ | Last => {| g_in := g_in a; g_all := false; g_lv := 0; g_bt := g_bt a; g_bp := false; g_bf := false; g_best := g_best a |}
  | Best => {| g_in := g_in a; g_all := g_all a; g_lv := g_lv a; g_bt := g_bt a; g_bp := false; g_bf := false; g_best := false |}
  | Tr | Sh => a
  end.

Definition kill_pop (a : ga) : ga :=
  {| g_in := g_in a; g_all := false; g_lv := 0; g_bt := g_bt a; g_bp := false; g_bf := false; g_best := g_best a |}.

Definition c12 (l : nat) (why : string) : list alarm := [(l, ("C12: " ++ why)%string)].

Definition ga_atom (l : nat) (s : stmt) (a : ga) : ga * list alarm :=
  match s with
  | Skip | Draw | SetHyper _ | ChooseIdx _ | Hook | EvalTmp _ | LocFromPos | NewTrial _ | ShadowAll => (a, [])
  | Dump => (a, if negb (g_in a) && g_all a && g_best a then []
                else c12 l "a record is written while agents / best agent are not known to agree with the trees")
  | TreeCopy _ _ | TreeSet _ _ | TreeCross _ _ =>
      ({| g_in := g_in a; g_all := false; g_lv := 0; g_bt := false; g_bp := g_bp a; g_bf := g_bf a; g_best := g_best a |}, [])
  | BestTreeCopy =>
      (norm {| g_in := g_in a; g_all := g_all a; g_lv := g_lv a; g_bt := true; g_bp := g_bp a; g_bf := g_bf a; g_best := false |}, [])
  | PosFromTree Cur =>
      ({| g_in := g_in a; g_all := g_all a; g_lv := 1; g_bt := g_bt a; g_bp := false; g_bf := g_bf a; g_best := g_best a |}, [])
  | Clip Cur =>
      ({| g_in := g_in a; g_all := g_all a; g_lv := if Nat.eqb (g_lv a) 1 then 2 else 0;
          g_bt := g_bt a; g_bp := false; g_bf := g_bf a; g_best := g_best a |}, [])
  | Eval Cur =>
      (norm {| g_in := g_in a; g_all := g_all a; g_lv := if Nat.eqb (g_lv a) 2 then 3 else g_lv a;
               g_bt := g_bt a; g_bp := g_bp a; g_bf := false; g_best := g_best a |}, [])
  | CopyPos Best Cur =>
      (norm {| g_in := g_in a; g_all := g_all a; g_lv := g_lv a; g_bt := g_bt a; g_bp := true; g_bf := g_bf a; g_best := false |}, [])
  | CopyFit Best Cur =>
      (norm {| g_in := g_in a; g_all := g_all a; g_lv := g_lv a; g_bt := g_bt a; g_bp := g_bp a; g_bf := true; g_best := false |}, [])
  | Havoc _ r | Clip r | Eval r | SetFitTmp r | CopyPos r _ | CopyFit r _ | Store r _ | PosFromTree r => (kill r a, [])
  | SwapPos r1 r2 | SwapFit r1 r2 => (kill r2 (kill r1 a), [])
  | BestPosFromLoc => (kill Best a, [])
  | ClipAll | SortByFit => (kill_pop a, [])
  | _ => (a, c12 l "not an atomic statement")
  end.

Definition ga_assume (c : cond) (b : bool) (a : ga) : ga := a.

(* generic binding of the loop slot (used for Onlooker and for ForSlots nested where no strong update applies) *)
Definition ga_enter (a : ga) : ga :=
  {| g_in := true; g_all := false; g_lv := 0; g_bt := false; g_bp := false; g_bf := false; g_best := g_best a |}.
Definition ga_exit (a : ga) : ga :=
  {| g_in := false; g_all := false; g_lv := 0; g_bt := false; g_bp := false; g_bf := false; g_best := g_best a |}.

Definition no_special (l : nat) (incur : bool) (s : stmt) (a : ga) : option (ga * list alarm) := None.
Definition ga_absint0 := absint ga ga_leb ga_join ga_atom ga_assume ga_enter ga_exit no_special.

(* the strong update for the population sweep *)
Definition sweep_in (a : ga) : ga :=
  {| g_in := true; g_all := true; g_lv := 0; g_bt := false; g_bp := false; g_bf := false; g_best := g_best a |}.

Definition ga_special (l : nat) (incur : bool) (s : stmt) (a : ga) : option (ga * list alarm) :=
  match incur, s with
  | false, ForSlots b =>
      if g_in a then None else
      let (a1, al) := ga_absint0 l true b (sweep_in a) in
      if g_all a1 && Nat.eqb (g_lv a1) 3 && implb (g_best a) (g_best a1)
      then Some ({| g_in := false; g_all := true; g_lv := 0; g_bt := false; g_bp := false; g_bf := false; g_best := g_best a |}, al)
      else None      (* the body does not re-derive the slot from its tree: no strong update, generic loop rule *)
  | _, _ => None
  end.

Definition ga_absint := absint ga ga_leb ga_join ga_atom ga_assume ga_enter ga_exit ga_special.

Definition ga_init : ga :=
  {| g_in := false; g_all := false; g_lv := 0; g_bt := false; g_bp := false; g_bf := false; g_best := true |}.

Definition c12_check (p : stmt) : bool :=
  match ga_absint 0 false p ga_init with
  | (a', []) => negb (g_in a') && g_all a' && g_best a'
  | _ => false
  end.

(* ---------------------------------------------------------------- lattice facts *)
Lemma lv_leb_refl a : lv_leb a a = true.
Proof. unfold lv_leb. rewrite Nat.eqb_refl. apply orb_true_r. Qed.
Lemma lv_leb_trans a b c : lv_leb a b = true -> lv_leb b c = true -> lv_leb a c = true.
Proof.
  unfold lv_leb. intros H1 H2. destruct (c =? 0) eqn:Ec; [reflexivity|]. simpl in *.
  apply Nat.eqb_eq in H2. subst c. rewrite Ec in H1. simpl in H1. exact H1.
Qed.
Lemma lv_join_l a b : lv_leb a (lv_join a b) = true.
Proof. unfold lv_leb, lv_join. destruct (a =? b) eqn:E; [rewrite Nat.eqb_refl; apply orb_true_r|reflexivity]. Qed.
Lemma lv_join_r a b : lv_leb b (lv_join a b) = true.
Proof.
  unfold lv_leb, lv_join. destruct (a =? b) eqn:E; [|reflexivity].
  apply Nat.eqb_eq in E. subst. rewrite Nat.eqb_refl; apply orb_true_r.
Qed.

Lemma implb_refl b : implb b b = true. Proof. destruct b; reflexivity. Qed.
Lemma implb_trans a b c : implb a b = true -> implb b c = true -> implb a c = true.
Proof. destruct a, b, c; simpl; auto. Qed.

Lemma ga_leb_refl a : ga_leb a a = true.
Proof. unfold ga_leb. rewrite !implb_refl, lv_leb_refl. reflexivity. Qed.

Lemma ga_leb_trans a b c : ga_leb a b = true -> ga_leb b c = true -> ga_leb a c = true.
Proof.
  unfold ga_leb. rewrite !andb_true_iff.
  intros [[[[[[H1 H2] H3] H4] H5] H6] H7] [[[[[[K1 K2] K3] K4] K5] K6] K7].
  repeat split; try (eapply implb_trans; eassumption). eapply lv_leb_trans; eassumption.
Qed.

Lemma ga_join_l a b : ga_leb a (ga_join a b) = true.
Proof.
  unfold ga_leb, ga_join; simpl. rewrite lv_join_l.
  destruct (g_in a), (g_in b), (g_all a), (g_all b), (g_bt a), (g_bt b), (g_bp a), (g_bp b), (g_bf a), (g_bf b), (g_best a), (g_best b); reflexivity.
Qed.

Lemma ga_join_r a b : ga_leb b (ga_join a b) = true.
Proof.
  unfold ga_leb, ga_join; simpl. rewrite lv_join_r.
  destruct (g_in a), (g_in b), (g_all a), (g_all b), (g_bt a), (g_bt b), (g_bp a), (g_bp b), (g_bf a), (g_bf b), (g_best a), (g_best b); reflexivity.
Qed.

(* ---------------------------------------------------------------- concretisation *)
Section Sound.
  Variables (lbs ubs : list Z) (f : contents -> Z) (n_iter : nat) (okc : contents -> contents -> bool).
  Variable n : nat.           (* n_trees = n_agents *)
  Variable B0 : agent.        (* the best agent the task starts with (fresh space: placeholder position, sentinel fitness) *)
  Variable BT0 : contents.    (* ... and the value of the best tree it starts with *)

  Definition hk : st -> st := fun x => x.     (* the hook is an observer *)

  Definition cons_ag (c : contents) (ag : agent) : Prop := apos ag = clipc lbs ubs c /\ afit ag = f (apos ag).
  Definition slot_cons (x : st) (j : nat) : Prop :=
    forall ag c, nth_error (pop x) j = Some ag -> nth_error (tv x) j = Some c -> cons_ag c ag.
  Definition best_cons (x : st) : Prop := apos (best x) = clipc lbs ubs (btv x) /\ afit (best x) = f (apos (best x)).
  Definition best_ok (x : st) : Prop := best_cons x \/ (best x = B0 /\ btv x = BT0).
  Definition lens (x : st) : Prop := length (tv x) = n /\ length (pop x) = n.
  Definition final_ok (x : st) : Prop := lens x /\ (forall j, slot_cons x j) /\ best_ok x.
  Definition ev_ok (e : event) : Prop := match e with EvDump y => final_ok y | _ => True end.
  Definition below (cur : option nat) (j : nat) : Prop := match cur with Some i => j < i | None => True end.
  Definition lv_ok (L : nat) (c : contents) (ag : agent) : Prop :=
    match L with
    | 1 => apos ag = c
    | 2 => apos ag = clipc lbs ubs c
    | 3 => cons_ag c ag
    | _ => True
    end.

  Record GG (a : ga) (cur : option nat) (x : st) (h : list event) : Prop := {
    gg_in : g_in a = false -> cur = None;
    gg_len : lens x;
    gg_all : g_all a = true -> forall j, below cur j -> slot_cons x j;
    gg_lv : forall i ag c, cur = Some i -> nth_error (pop x) i = Some ag -> nth_error (tv x) i = Some c -> lv_ok (g_lv a) c ag;
    gg_bt : g_bt a = true -> exists i, cur = Some i /\ nth_error (tv x) i = Some (btv x);
    gg_bp : g_bp a = true -> exists i ag, cur = Some i /\ nth_error (pop x) i = Some ag /\ apos (best x) = apos ag;
    gg_bf : g_bf a = true -> exists i ag, cur = Some i /\ nth_error (pop x) i = Some ag /\ afit (best x) = afit ag;
    gg_best : g_best a = true -> best_ok x;
    gg_evs : Forall ev_ok h
  }.

  Lemma implb_use a b : implb a b = true -> a = true -> b = true.
  Proof. destruct a, b; simpl; auto. Qed.

  Lemma lv_ok_mono L1 L2 c ag : lv_leb L1 L2 = true -> lv_ok L1 c ag -> lv_ok L2 c ag.
  Proof.
    unfold lv_leb. intros H. apply orb_true_iff in H as [H|H]; apply Nat.eqb_eq in H; subst; [intros _; exact I|auto].
  Qed.

  Lemma GG_mono a b cur x h : ga_leb a b = true -> GG a cur x h -> GG b cur x h.
  Proof.
    unfold ga_leb. rewrite !andb_true_iff. intros [[[[[[H1 H2] H3] H4] H5] H6] H7] [G1 G2 G3 G4 G5 G6 G7 G8 G9].
    constructor; try assumption.
    - intros Hb. apply G1. destruct (g_in a); [|reflexivity]. simpl in H1. congruence.
    - intros Hb. apply G3. eapply implb_use; eassumption.
    - intros i ag c Hc Hp Ht. eapply lv_ok_mono; [exact H3|]. eapply G4; eassumption.
    - intros Hb. apply G5. eapply implb_use; eassumption.
    - intros Hb. apply G6. eapply implb_use; eassumption.
    - intros Hb. apply G7. eapply implb_use; eassumption.
    - intros Hb. apply G8. eapply implb_use; eassumption.
  Qed.

  Lemma GG_norm a cur x h : GG a cur x h -> GG (norm a) cur x h.
  Proof.
    intros HG. unfold norm. destruct (g_bt a && g_bp a && g_bf a && (g_lv a =? 3)) eqn:E; [|exact HG].
    apply andb_true_iff in E as [E E4]. apply andb_true_iff in E as [E E3]. apply andb_true_iff in E as [E1 E2].
    apply Nat.eqb_eq in E4. destruct HG as [G1 G2 G3 G4 G5 G6 G7 G8 G9].
    constructor; simpl; try assumption. intros _. left.
    destruct (G5 E1) as (i & Hc & Ht). destruct (G6 E2) as (i2 & ag & Hc2 & Hp & Hbp).
    destruct (G7 E3) as (i3 & ag3 & Hc3 & Hp3 & Hbf).
    rewrite Hc in Hc2, Hc3. injection Hc2 as <-. injection Hc3 as <-. rewrite Hp in Hp3. injection Hp3 as <-.
    pose proof (G4 i ag (btv x) Hc Hp Ht) as Hl. rewrite E4 in Hl. simpl in Hl. destruct Hl as [L1 L2].
    unfold best_cons. rewrite Hbp, Hbf. split; assumption.
  Qed.

  (* steps that leave population, best agent and trees alone *)
  Lemma GG_frame a cur x x' h :
    GG a cur x h -> pop x' = pop x -> best x' = best x -> tv x' = tv x -> btv x' = btv x -> GG a cur x' h.
  Proof.
    intros [G1 G2 G3 G4 G5 G6 G7 G8 G9] Ep Eb Et Ebt.
    constructor; unfold lens, slot_cons, best_ok, best_cons in *; rewrite ?Ep, ?Eb, ?Et, ?Ebt; assumption.
  Qed.

  Lemma GG_events a cur x h evs : GG a cur x h -> Forall ev_ok evs -> GG a cur x (h ++ evs).
  Proof. intros [G1 G2 G3 G4 G5 G6 G7 G8 G9] H. constructor; try assumption. apply Forall_app; split; assumption. Qed.

  Lemma GG_nil a cur x h : GG a cur x h -> GG a cur x (h ++ []).
  Proof. rewrite app_nil_r. auto. Qed.

  (* writing the loop slot *)
  Lemma GG_set_cur a cur x h i ag' l L' bp' bf' :
    GG a cur x h -> cur = Some i -> upd i ag' (pop x) = Some l ->
    (forall c, nth_error (tv x) i = Some c -> lv_ok L' c ag') ->
    (bp' = true -> apos (best x) = apos ag') -> (bf' = true -> afit (best x) = afit ag') ->
    GG {| g_in := g_in a; g_all := g_all a; g_lv := L'; g_bt := g_bt a; g_bp := bp'; g_bf := bf'; g_best := g_best a |}
       cur (with_pop x l) h.
  Proof.
    intros [G1 G2 G3 G4 G5 G6 G7 G8 G9] Hc Hu HL Hbp Hbf. subst cur.
    constructor; simpl; try assumption.
    - destruct G2 as [L1 L2]. split; [exact L1|]. simpl. rewrite (upd_length _ _ _ _ Hu). exact L2.
    - intros Hb j Hj ag c Hp Ht. simpl in Hj. rewrite (upd_nth_other _ _ _ _ _ Hu) in Hp by lia. eapply G3; eassumption.
    - intros i0 ag c Hc Hp Ht. injection Hc as <-. rewrite (upd_nth_same _ _ _ _ Hu) in Hp. injection Hp as <-. apply HL; exact Ht.
    - intros Hb. exists i, ag'. split; [reflexivity|]. split; [eapply upd_nth_same; exact Hu|apply Hbp; exact Hb].
    - intros Hb. exists i, ag'. split; [reflexivity|]. split; [eapply upd_nth_same; exact Hu|apply Hbf; exact Hb].
  Qed.

  (* writing the best agent *)
  Lemma GG_set_best a cur x h b' bp' bf' :
    GG a cur x h ->
    (bp' = true -> exists i ag, cur = Some i /\ nth_error (pop x) i = Some ag /\ apos b' = apos ag) ->
    (bf' = true -> exists i ag, cur = Some i /\ nth_error (pop x) i = Some ag /\ afit b' = afit ag) ->
    GG {| g_in := g_in a; g_all := g_all a; g_lv := g_lv a; g_bt := g_bt a; g_bp := bp'; g_bf := bf'; g_best := false |}
       cur (with_best x b') h.
  Proof.
    intros [G1 G2 G3 G4 G5 G6 G7 G8 G9] Hbp Hbf. constructor; simpl; try assumption. discriminate.
  Qed.

  (* writing any other slot: nothing is known about the population afterwards *)
  Lemma GG_set_slot a cur x h i ag' l :
    GG a cur x h -> upd i ag' (pop x) = Some l -> GG (kill_pop a) cur (with_pop x l) h.
  Proof.
    intros [G1 G2 G3 G4 G5 G6 G7 G8 G9] Hu. constructor; simpl; try assumption; try discriminate.
    - destruct G2 as [L1 L2]. split; [exact L1|]. simpl. rewrite (upd_length _ _ _ _ Hu). exact L2.
    - intros; exact I.
  Qed.

  Lemma GG_kill a cur x h r ag' x' : GG a cur x h -> setr r cur ag' x = Some x' -> GG (kill r a) cur x' h.
  Proof.
    intros HG Hs. apply setr_written in Hs.
    destruct Hs as [-> -> | -> -> | i l -> -> Hu -> | i l Hsl Hi Hu ->]; simpl.
    - apply GG_set_best; [exact HG|discriminate|discriminate].
    - eapply GG_frame; [exact HG|reflexivity..].
    - eapply GG_frame; [exact HG|reflexivity..].
    - destruct r; try discriminate; simpl in Hi.
      + eapply GG_set_cur; [exact HG|exact Hi|exact Hu| |discriminate|discriminate]. intros; exact I.
      + eapply GG_set_slot; eassumption.
      + eapply GG_set_slot; eassumption.
  Qed.

  Lemma GG_next a cur x h k : GG a cur x h -> GG a cur (with_next x k) h.
  Proof. intros HG. eapply GG_frame; [exact HG|reflexivity..]. Qed.

  Lemma forallb2_length {A B} (p : A -> B -> bool) l1 l2 : forallb2 p l1 l2 = true -> length l2 = length l1.
  Proof.
    revert l2. induction l1 as [|a0 t IH]; intros [|b0 t2]; simpl; intros H; try discriminate; [reflexivity|].
    apply andb_true_iff in H as [_ H]. rewrite (IH _ H). reflexivity.
  Qed.

  Ltac inv_ret H := unfold ret in H; injection H as <- <- <-.

  Lemma ga_atom_sound : forall l s a a', is_atom s = true -> ga_atom l s a = (a', []) ->
    forall cur o x h x' evs o', GG a cur x h -> exec_atom lbs ubs f hk okc cur s o x = Some (x', evs, o') ->
    GG a' cur x' (h ++ evs).
  Proof.
    intros l s a a' Hat Hab cur o x h x' evs o' HG Hex.
    destruct s; simpl in Hat; try discriminate; simpl in Hex.
    - (* Skip *) injection Hab as <-. inv_ret Hex. apply GG_nil; exact HG.
    - (* Havoc *)
      assert (Hab' : a' = kill r a) by (destruct r; simpl in Hab; injection Hab as <-; reflexivity). subst a'. clear Hab.
      destruct o as [|[c|?|?|?] o1]; try discriminate.
      destruct (getr r cur x) as [ag|] eqn:Eg; [|discriminate].
      destruct (okc (apos ag) c); simpl in Hex; [|discriminate].
      destruct m; (destruct (setr r cur _ x) as [x1|] eqn:Es; [|discriminate]); inv_ret Hex; apply GG_nil.
      + apply GG_next. eapply GG_kill; eassumption.
      + eapply GG_kill; eassumption.
    - (* Clip *)
      destruct (getr r cur x) as [ag|] eqn:Eg; [|discriminate].
      destruct (setr r cur _ x) as [x1|] eqn:Es; [|discriminate]. inv_ret Hex. apply GG_nil.
      destruct r; simpl in Hab; injection Hab as <-; try (eapply (GG_kill _ _ _ _ _ _ _ HG Es)).
      (* Clip Cur *)
      simpl in Eg, Es. destruct cur as [i|]; [|discriminate].
      destruct (upd i (clipa lbs ubs ag) (pop x)) as [lp|] eqn:Eu; [|discriminate]. injection Es as <-.
      pose proof (gg_bf _ _ _ _ HG) as Hbf0.
      eapply GG_set_cur; [exact HG|reflexivity|exact Eu| |discriminate|].
      + intros c Ht. destruct (g_lv a =? 1) eqn:E1; [|exact I]. apply Nat.eqb_eq in E1.
        pose proof (gg_lv _ _ _ _ HG i ag c eq_refl Eg Ht) as Hl. rewrite E1 in Hl. simpl in Hl. simpl. rewrite Hl. reflexivity.
      + intros Hb. destruct (Hbf0 Hb) as (i2 & ag2 & Hc & Hp & He). injection Hc as <-. rewrite Eg in Hp. injection Hp as <-. exact He.
    - (* ClipAll *)
      injection Hab as <-. inv_ret Hex. apply GG_nil.
      destruct HG as [G1 G2 G3 G4 G5 G6 G7 G8 G9]. constructor; simpl; try assumption; try discriminate.
      + destruct G2 as [L1 L2]. split; [exact L1|]. simpl. rewrite map_length. exact L2.
      + intros; exact I.
    - (* Eval *)
      destruct (getr r cur x) as [ag|] eqn:Eg; [|discriminate].
      destruct (setr r cur _ x) as [x1|] eqn:Es; [|discriminate]. injection Hex as <- <- <-.
      apply GG_events; [|constructor; [exact I|constructor]].
      destruct r; simpl in Hab; injection Hab as <-; try (eapply (GG_kill _ _ _ _ _ _ _ HG Es)).
      (* Eval Cur *)
      apply GG_norm.
      simpl in Eg, Es. destruct cur as [i|]; [|discriminate].
      destruct (upd i _ (pop x)) as [lp|] eqn:Eu; [|discriminate]. injection Es as <-.
      pose proof (gg_bp _ _ _ _ HG) as Hbp0.
      eapply GG_set_cur; [exact HG|reflexivity|exact Eu| | |discriminate].
      + intros c Ht. pose proof (gg_lv _ _ _ _ HG i ag c eq_refl Eg Ht) as Hl.
        destruct (g_lv a =? 2) eqn:E2.
        * apply Nat.eqb_eq in E2. rewrite E2 in Hl. simpl in Hl. simpl. split; simpl; [exact Hl|reflexivity].
        * destruct (g_lv a) as [|[|[|[|k]]]]; simpl in *; try exact I; try discriminate.
          -- exact Hl.
          -- destruct Hl as [L1 L2]. split; simpl; [exact L1|reflexivity].
      + intros Hb. destruct (Hbp0 Hb) as (i2 & ag2 & Hc & Hp & He). injection Hc as <-. rewrite Eg in Hp. injection Hp as <-. exact He.
    - (* EvalTmp *)
      injection Hab as <-. destruct (getr r cur x) as [ag|] eqn:Eg; [|discriminate]. injection Hex as <- <- <-.
      apply GG_events; [|constructor; [exact I|constructor]]. eapply GG_frame; [exact HG|reflexivity..].
    - (* SetFitTmp *)
      assert (Hab' : a' = kill r a) by (destruct r; simpl in Hab; injection Hab as <-; reflexivity). subst a'. clear Hab.
      destruct (getr r cur x) as [ag|] eqn:Eg; [|discriminate].
      destruct (setr r cur _ x) as [x1|] eqn:Es; [|discriminate]. inv_ret Hex. apply GG_nil.
      eapply GG_kill; eassumption.
    - (* CopyPos *)
      destruct (getr d cur x) as [ag|] eqn:Eg; [|discriminate].
      destruct (getr s cur x) as [bg|] eqn:Eg2; [|discriminate].
      destruct (setr d cur _ x) as [x1|] eqn:Es; [|discriminate]. inv_ret Hex. apply GG_nil, GG_next.
      destruct d; try (simpl in Hab; injection Hab as <-; eapply (GG_kill _ _ _ _ _ _ _ HG Es)).
      (* d = Best *)
      destruct s; try (simpl in Hab; injection Hab as <-; eapply (GG_kill _ _ _ _ _ _ _ HG Es)).
      (* CopyPos Best Cur *)
      simpl in Hab. injection Hab as <-. apply GG_norm.
      simpl in Eg, Eg2, Es. injection Eg as <-. injection Es as <-.
      destruct cur as [i|]; [|discriminate].
      pose proof (gg_bf _ _ _ _ HG) as Hbf0.
      apply GG_set_best; [exact HG| |].
      + intros _. exists i, bg. repeat split; [exact Eg2].
      + intros Hb. exact (Hbf0 Hb).
    - (* CopyFit *)
      destruct (getr d cur x) as [ag|] eqn:Eg; [|discriminate].
      destruct (getr s cur x) as [bg|] eqn:Eg2; [|discriminate].
      destruct (setr d cur _ x) as [x1|] eqn:Es; [|discriminate]. inv_ret Hex. apply GG_nil.
      destruct d; try (simpl in Hab; injection Hab as <-; eapply (GG_kill _ _ _ _ _ _ _ HG Es)).
      destruct s; try (simpl in Hab; injection Hab as <-; eapply (GG_kill _ _ _ _ _ _ _ HG Es)).
      (* CopyFit Best Cur *)
      simpl in Hab. injection Hab as <-. apply GG_norm.
      simpl in Eg, Eg2, Es. injection Eg as <-. injection Es as <-.
      destruct cur as [i|]; [|discriminate].
      pose proof (gg_bp _ _ _ _ HG) as Hbp0.
      apply GG_set_best; [exact HG| |].
      + intros Hb. exact (Hbp0 Hb).
      + intros _. exists i, bg. repeat split; [exact Eg2].
    - (* LocFromPos *)
      injection Hab as <-. destruct cur as [i|]; [|discriminate].
      destruct (nth_error (pop x) i) as [ag|] eqn:Eg; [|discriminate].
      destruct (upd i (apos ag) (loc x)) as [lc|] eqn:Eu; [|discriminate]. inv_ret Hex. apply GG_nil.
      eapply GG_frame; [exact HG|reflexivity..].
    - (* BestPosFromLoc *)
      injection Hab as <-. destruct cur as [i|]; [|discriminate].
      destruct (nth_error (loc x) i) as [c|] eqn:En; [|discriminate]. inv_ret Hex. apply GG_nil, GG_next.
      eapply GG_kill with (r := Best); [exact HG|reflexivity].
    - (* SwapPos *)
      injection Hab as <-.
      destruct (getr a0 cur x) as [p|] eqn:Eg; [|discriminate].
      destruct (getr b cur x) as [q|] eqn:Eg2; [|discriminate].
      destruct (setr a0 cur _ x) as [x1|] eqn:Es; [|discriminate].
      destruct (getr b cur x1) as [q1|] eqn:Eg3; [|discriminate].
      destruct (setr b cur _ x1) as [x2|] eqn:Es2; [|discriminate]. inv_ret Hex. apply GG_nil.
      eapply GG_kill; [|exact Es2]. eapply GG_kill; [exact HG|exact Es].
    - (* SwapFit *)
      injection Hab as <-.
      destruct (getr a0 cur x) as [p|] eqn:Eg; [|discriminate].
      destruct (getr b cur x) as [q|] eqn:Eg2; [|discriminate].
      destruct (setr a0 cur _ x) as [x1|] eqn:Es; [|discriminate].
      destruct (getr b cur x1) as [q1|] eqn:Eg3; [|discriminate].
      destruct (setr b cur _ x1) as [x2|] eqn:Es2; [|discriminate]. inv_ret Hex. apply GG_nil.
      eapply GG_kill; [|exact Es2]. eapply GG_kill; [exact HG|exact Es].
    - (* NewTrial *)
      injection Hab as <-. destruct (getr s cur x) as [ag|] eqn:Eg; [|discriminate]. inv_ret Hex. apply GG_nil.
      eapply GG_frame; [exact HG|reflexivity..].
    - (* ShadowAll *)
      injection Hab as <-. inv_ret Hex. apply GG_nil. eapply GG_frame; [exact HG|reflexivity..].
    - (* Store *)
      assert (Hab' : a' = kill d a) by (destruct d; simpl in Hab; injection Hab as <-; reflexivity). subst a'. clear Hab.
      destruct d; try discriminate;
        (destruct (getr s cur x) as [ag|] eqn:Eg; [|discriminate];
         destruct (setr _ cur _ x) as [x1|] eqn:Es; [|discriminate]; inv_ret Hex;
         apply GG_nil, GG_next; eapply GG_kill; eassumption).
    - (* ChooseIdx *)
      injection Hab as <-. destruct o as [|[?|?|i|?] o1]; try discriminate.
      destruct (Nat.ltb i (length (pop x))); [|discriminate]. inv_ret Hex. apply GG_nil.
      eapply GG_frame; [exact HG|reflexivity..].
    - (* SortByFit *)
      injection Hab as <-. inv_ret Hex. apply GG_nil.
      destruct HG as [G1 G2 G3 G4 G5 G6 G7 G8 G9]. constructor; simpl; try assumption; try discriminate.
      + destruct G2 as [L1 L2]. split; [exact L1|]. simpl. rewrite sort_fit_length. exact L2.
      + intros; exact I.
    - (* Hook *) injection Hab as <-. injection Hex as <- <- <-. apply GG_events; [exact HG|]. constructor; [exact I|constructor].
    - (* Dump *)
      unfold ga_atom in Hab. destruct (negb (g_in a) && g_all a && g_best a) eqn:E; [|discriminate]. injection Hab as <-.
      injection Hex as <- <- <-. apply GG_events; [exact HG|]. constructor; [|constructor]. simpl.
      apply andb_true_iff in E as [E E3]. apply andb_true_iff in E as [E1 E2]. apply negb_true_iff in E1.
      destruct HG as [G1 G2 G3 G4 G5 G6 G7 G8 G9]. rewrite (G1 E1) in G3. simpl in G3.
      split; [exact G2|]. split; [intros j; apply (G3 E2); exact I|apply G8; exact E3].
    - (* Draw *) injection Hab as <-. injection Hex as <- <- <-. apply GG_events; [exact HG|]. constructor; [exact I|constructor].
    - (* SetHyper *) injection Hab as <-. inv_ret Hex. apply GG_nil. eapply GG_frame; [exact HG|reflexivity..].
    - (* PosFromTree *)
      destruct cur as [i|]; [|discriminate].
      destruct (getr r (Some i) x) as [ag|] eqn:Eg; [|discriminate].
      destruct (nth_error (tv x) i) as [c|] eqn:En; [|discriminate].
      destruct (okc (apos ag) c); simpl in Hex; [|discriminate].
      destruct (setr r (Some i) _ x) as [x1|] eqn:Es; [|discriminate]. inv_ret Hex. apply GG_nil, GG_next.
      destruct r; simpl in Hab; injection Hab as <-; try (eapply (GG_kill _ _ _ _ _ _ _ HG Es)).
      (* PosFromTree Cur *)
      simpl in Eg, Es. destruct (upd i _ (pop x)) as [lp|] eqn:Eu; [|discriminate]. injection Es as <-.
      pose proof (gg_bf _ _ _ _ HG) as Hbf0.
      eapply GG_set_cur; [exact HG|reflexivity|exact Eu| |discriminate|].
      + intros c0 Ht. simpl. congruence.
      + intros Hb. destruct (Hbf0 Hb) as (i2 & ag2 & Hc & Hp & He). injection Hc as <-. rewrite Eg in Hp. injection Hp as <-. exact He.
    - (* BestTreeCopy *)
      injection Hab as <-. destruct cur as [i|]; [|discriminate].
      destruct (nth_error (tv x) i) as [c|] eqn:En; [|discriminate]. inv_ret Hex. apply GG_nil, GG_norm.
      destruct HG as [G1 G2 G3 G4 G5 G6 G7 G8 G9]. constructor; simpl; try assumption; try discriminate.
      intros _. exists i. split; [reflexivity|exact En].
    - (* TreeCopy *)
      injection Hab as <-. destruct o as [|[?|?|?|t] o1]; try discriminate.
      destruct (forallb2 okc (tv x) t) eqn:Ef; [|discriminate]. inv_ret Hex. apply GG_nil.
      apply forallb2_length in Ef.
      destruct HG as [G1 G2 G3 G4 G5 G6 G7 G8 G9]. constructor; simpl; try assumption; try discriminate.
      + destruct G2 as [L1 L2]. split; [simpl; congruence|exact L2].
      + intros; exact I.
    - (* TreeSet *)
      injection Hab as <-. destruct o as [|[?|?|?|t] o1]; try discriminate.
      destruct (forallb2 okc (tv x) t) eqn:Ef; [|discriminate]. inv_ret Hex. apply GG_nil.
      apply forallb2_length in Ef.
      destruct HG as [G1 G2 G3 G4 G5 G6 G7 G8 G9]. constructor; simpl; try assumption; try discriminate.
      + destruct G2 as [L1 L2]. split; [simpl; congruence|exact L2].
      + intros; exact I.
    - (* TreeCross *)
      injection Hab as <-. destruct o as [|[?|?|?|t] o1]; try discriminate.
      destruct (forallb2 okc (tv x) t) eqn:Ef; [|discriminate]. inv_ret Hex. apply GG_nil.
      apply forallb2_length in Ef.
      destruct HG as [G1 G2 G3 G4 G5 G6 G7 G8 G9]. constructor; simpl; try assumption; try discriminate.
      + destruct G2 as [L1 L2]. split; [simpl; congruence|exact L2].
      + intros; exact I.
  Qed.

  Lemma ga_enter_sound a i x h : GG a None x h -> GG (ga_enter a) (Some i) x h.
  Proof.
    intros [G1 G2 G3 G4 G5 G6 G7 G8 G9]. constructor; simpl; try assumption; try discriminate. intros; exact I.
  Qed.

  Lemma ga_exit_sound a i x h : GG a (Some i) x h -> GG (ga_exit a) None x h.
  Proof.
    intros [G1 G2 G3 G4 G5 G6 G7 G8 G9]. constructor; simpl; try assumption; try discriminate. reflexivity.
  Qed.

  Notation exec := (exec lbs ubs f hk n_iter okc).

  (* the analysis without special rules (used for the body of the sweep) *)
  Lemma ga_sound0 : forall s l incur a a', ga_absint0 l incur s a = (a', []) ->
    forall cur o x h x' evs o', (if incur then exists i, cur = Some i else cur = None) ->
      GG a cur x h -> exec cur s o x = Some (x', evs, o') -> GG a' cur x' (h ++ evs).
  Proof.
    intros s l incur a a' Habs cur o x h x' evs o' Hcur HG Hex.
    eapply (absint_sound lbs ubs f hk n_iter okc ga ga_leb ga_join ga_atom ga_assume ga_enter ga_exit no_special GG);
      try eassumption.
    - apply ga_leb_refl.
    - apply ga_leb_trans.
    - apply ga_join_l.
    - apply ga_join_r.
    - intros; eapply GG_mono; eassumption.
    - intros; eapply ga_atom_sound; eassumption.
    - intros; assumption.
    - apply ga_enter_sound.
    - apply ga_exit_sound.
    - intros; discriminate.
  Qed.

  (* the strong update: if one execution of the body, started with every slot below [i] consistent, leaves every
     slot below [i] and slot [i] itself consistent, then after the sweep every slot is *)
  Lemma sweep_sound a a1 (body : nat -> list answer -> st -> res) :
    g_all a1 = true -> g_lv a1 = 3 -> implb (g_best a) (g_best a1) = true ->
    (forall i o x h x' evs o', GG (sweep_in a) (Some i) x h -> body i o x = Some (x', evs, o') -> GG a1 (Some i) x' (h ++ evs)) ->
    forall k i o x h x' evs o',
      lens x -> (forall j, j < i -> slot_cons x j) -> (g_best a = true -> best_ok x) -> Forall ev_ok h ->
      iter_slots i k body o x = Some (x', evs, o') ->
      lens x' /\ (forall j, j < i + k -> slot_cons x' j) /\ (g_best a = true -> best_ok x') /\ Forall ev_ok (h ++ evs).
  Proof.
    intros Hall Hlv Hbest Hbody k. induction k as [|k IH]; intros i o x h x' evs o' HL HS HB HE Hit; simpl in Hit.
    - inv_ret Hit. rewrite app_nil_r, Nat.add_0_r. split; [exact HL|split; [exact HS|split; [exact HB|exact HE]]].
    - apply bind_some in Hit as (x1 & e1 & o1 & e2 & H1 & H2 & ->).
      assert (HG : GG (sweep_in a) (Some i) x h).
      { constructor; simpl; try assumption; try discriminate. intros _ j Hj. apply HS; exact Hj. intros; exact I. }
      pose proof (Hbody _ _ _ _ _ _ _ HG H1) as [G1 G2 G3 G4 G5 G6 G7 G8 G9].
      rewrite app_assoc. replace (i + S k) with (S i + k) by lia.
      eapply IH; [exact G2| | |exact G9|exact H2].
      + intros j Hj. destruct (Nat.eq_dec j i) as [->|Hne].
        * intros ag c Hp Ht. pose proof (G4 i ag c eq_refl Hp Ht) as Hl. rewrite Hlv in Hl. exact Hl.
        * apply (G3 Hall). simpl. lia.
      + intros Hb. apply G8. eapply implb_use; eassumption.
  Qed.

  Lemma ga_special_sound : forall l incur s a a', ga_special l incur s a = Some (a', []) ->
    forall cur o x h x' evs o', (if incur then exists i, cur = Some i else cur = None) ->
    GG a cur x h -> exec cur s o x = Some (x', evs, o') -> GG a' cur x' (h ++ evs).
  Proof.
    intros l incur s a a' Hsp cur o x h x' evs o' Hcur HG Hex.
    unfold ga_special in Hsp. destruct incur; [discriminate|]. subst cur.
    destruct s; try discriminate. destruct (g_in a) eqn:Ein; [discriminate|].
    destruct (ga_absint0 l true s (sweep_in a)) as [a1 al] eqn:Eb.
    destruct (g_all a1 && (g_lv a1 =? 3) && implb (g_best a) (g_best a1)) eqn:Eok; [|discriminate].
    injection Hsp as <- ->.
    apply andb_true_iff in Eok as [Eok E3]. apply andb_true_iff in Eok as [E1 E2]. apply Nat.eqb_eq in E2.
    simpl in Hex. destruct HG as [G1 G2 G3 G4 G5 G6 G7 G8 G9].
    pose proof (sweep_sound a a1 (fun i => exec (Some i) s) E1 E2 E3) as Hsw.
    destruct (Hsw (fun i o0 x0 h0 x0' evs0 o0' HG0 Hb =>
                     ga_sound0 s l true _ _ Eb (Some i) o0 x0 h0 x0' evs0 o0' (ex_intro _ i eq_refl) HG0 Hb)
                  (length (pop x)) 0 o x h x' evs o' G2 (fun j Hj => match Nat.nlt_0_r _ Hj with end) G8 G9 Hex)
      as (R1 & R2 & R3 & R4).
    constructor; simpl; try assumption; try discriminate.
    - reflexivity.
    - intros _ j _ ag c Hp Ht. apply (R2 j); [|exact Hp|exact Ht].
      simpl. destruct G2 as [_ L2]. destruct R1 as [_ L2']. rewrite L2, <- L2'. apply nth_error_Some. congruence.
  Qed.

  Theorem ga_sound : forall s l a a', ga_absint l false s a = (a', []) ->
    forall o x h x' evs o', GG a None x h -> exec None s o x = Some (x', evs, o') -> GG a' None x' (h ++ evs).
  Proof.
    intros s l a a' Habs o x h x' evs o' HG Hex.
    eapply (absint_sound lbs ubs f hk n_iter okc ga ga_leb ga_join ga_atom ga_assume ga_enter ga_exit ga_special GG)
      with (incur := false) (cur := None); try eassumption; try reflexivity.
    - apply ga_leb_refl.
    - apply ga_leb_trans.
    - apply ga_join_l.
    - apply ga_join_r.
    - intros; eapply GG_mono; eassumption.
    - intros; eapply ga_atom_sound; eassumption.
    - intros; assumption.
    - apply ga_enter_sound.
    - apply ga_exit_sound.
    - intros; eapply ga_special_sound; eassumption.
  Qed.

  (* the initial state of run(): n trees, n agents, the best agent is the placeholder [B0] *)
  Definition init_ok (x : st) : Prop := lens x /\ best x = B0 /\ btv x = BT0.

  Lemma init_GG x : init_ok x -> GG ga_init None x [].
  Proof.
    intros [HL HB]. constructor; simpl; try discriminate; try assumption.
    - reflexivity.
    - intros _. right; exact HB.
    - constructor.
  Qed.

  (* C12 for one program: the analysis raises no alarm => every record and the final state are consistent *)
  Theorem c12_of_check (p : stmt) :
    c12_check p = true ->
    forall o x0 x' evs o', init_ok x0 -> run lbs ubs f hk n_iter okc p o x0 = Some (x', evs, o') ->
      final_ok x' /\ Forall (fun e => match e with EvDump y => final_ok y | _ => True end) evs.
  Proof.
    unfold c12_check. intros Hal o x0 x' evs o' Hi Hr.
    destruct (ga_absint 0 false p ga_init) as [a' al] eqn:E. destruct al; [|discriminate].
    apply andb_true_iff in Hal as [Hal E3]. apply andb_true_iff in Hal as [E1 E2]. apply negb_true_iff in E1.
    pose proof (ga_sound p 0 ga_init a' E o x0 [] x' evs o' (init_GG _ Hi) Hr) as HG. simpl in HG.
    destruct HG as [G1 G2 G3 G4 G5 G6 G7 G8 G9]. split; [|exact G9].
    split; [exact G2|]. split; [|apply G8; exact E3]. intros j. apply (G3 E2). exact I.
  Qed.
End Sound.

(* ---------------------------------------------------------------- the claim, spelled out *)
Definition c12_claim (lbs ubs : list Z) (f : contents -> Z) (n : nat) (B0 : agent) (BT0 : contents) (y : st) : Prop :=
  length (tv y) = n /\ length (pop y) = n /\
  (forall i ag c, nth_error (pop y) i = Some ag -> nth_error (tv y) i = Some c ->
     apos ag = clipc lbs ubs c /\ afit ag = f (apos ag)) /\
  ((apos (best y) = clipc lbs ubs (btv y) /\ afit (best y) = f (apos (best y))) \/ (best y = B0 /\ btv y = BT0)).

Lemma final_ok_claim lbs ubs f n B0 BT0 y : final_ok lbs ubs f n B0 BT0 y <-> c12_claim lbs ubs f n B0 BT0 y.
Proof.
  unfold final_ok, c12_claim, lens, slot_cons, cons_ag, best_ok, best_cons. split.
  - intros [[H1 H2] [H3 H4]]. repeat split; try assumption; eapply H3; eassumption.
  - intros (H1 & H2 & H3 & H4). split; [split; assumption|]. split; [|exact H4]. intros j ag c Hp Ht. apply (H3 j); assumption.
Qed.

(* with every slot in range having both an agent and a tree *)
Lemma c12_claim_slots lbs ubs f n B0 BT0 y : c12_claim lbs ubs f n B0 BT0 y ->
  forall i, i < n -> exists ag c, nth_error (pop y) i = Some ag /\ nth_error (tv y) i = Some c /\
                                  apos ag = clipc lbs ubs c /\ afit ag = f (apos ag).
Proof.
  intros (H1 & H2 & H3 & _) i Hi.
  destruct (nth_error (pop y) i) as [ag|] eqn:Ep; [|apply nth_error_None in Ep; lia].
  destruct (nth_error (tv y) i) as [c|] eqn:Et; [|apply nth_error_None in Et; lia].
  exists ag, c. split; [reflexivity|]. split; [reflexivity|]. eapply H3; eassumption.
Qed.

(* "if the best agent was ever updated": its fitness is numerically below the fitness the task started with *)
Lemma c12_claim_sentinel lbs ubs f n B0 BT0 y : c12_claim lbs ubs f n B0 BT0 y ->
  klt (afit (best y)) (afit B0) = true ->
  apos (best y) = clipc lbs ubs (btv y) /\ afit (best y) = f (apos (best y)).
Proof.
  intros (_ & _ & _ & [H|[H _]]) Hlt; [exact H|]. rewrite H, klt_irrefl in Hlt. discriminate.
Qed.

Definition ev_claim12 (lbs ubs : list Z) (f : contents -> Z) (n : nat) (B0 : agent) (BT0 : contents) (e : event) : Prop :=
  match e with EvDump y => c12_claim lbs ubs f n B0 BT0 y | _ => True end.

Theorem c12_main (p : stmt) lbs ubs f n_iter okc n o x0 x' evs o' :
  c12_check p = true ->
  length (tv x0) = n -> length (pop x0) = n ->
  run lbs ubs f (fun x => x) n_iter okc p o x0 = Some (x', evs, o') ->
  c12_claim lbs ubs f n (best x0) (btv x0) x' /\ Forall (ev_claim12 lbs ubs f n (best x0) (btv x0)) evs.
Proof.
  intros Hc H1 H2 Hr.
  destruct (c12_of_check lbs ubs f n_iter okc n (best x0) (btv x0) p Hc o x0 x' evs o' (conj (conj H1 H2) (conj eq_refl eq_refl)) Hr) as [HF HE].
  split; [apply final_ok_claim; exact HF|].
  eapply Forall_impl; [|exact HE]. intros e He. destruct e; simpl in *; try exact I. apply final_ok_claim; exact He.
Qed.

(* ---------------------------------------------------------------- histories of GP tasks on one space
   The pair (best agent, best-tree value) a task starts with is either consistent or the untouched pair of the fresh space;
   a task either replaces both consistently or leaves both alone: so the claim, with the ORIGINAL placeholder pair, holds at
   every record and at the end of every task of every finite sequence of tasks on the same space. *)
Inductive tasks12 (lbs ubs : list Z) (f : contents -> Z) (n_iter : nat) (okc : contents -> contents -> bool) :
  list stmt -> st -> list event -> st -> Prop :=
| tasks12_nil x : tasks12 lbs ubs f n_iter okc [] x [] x
| tasks12_cons p ps x o x1 evs1 o1 evs2 x2 :
    run lbs ubs f (fun y => y) n_iter okc p o x = Some (x1, evs1, o1) ->
    tasks12 lbs ubs f n_iter okc ps x1 evs2 x2 ->
    tasks12 lbs ubs f n_iter okc (p :: ps) x (evs1 ++ evs2) x2.

Lemma claim_rebase lbs ubs f n B0 BT0 x y :
  c12_claim lbs ubs f n (best x) (btv x) y ->
  ((apos (best x) = clipc lbs ubs (btv x) /\ afit (best x) = f (apos (best x))) \/ (best x = B0 /\ btv x = BT0)) ->
  c12_claim lbs ubs f n B0 BT0 y.
Proof.
  intros (H1 & H2 & H3 & H4) Hx. repeat split; try assumption; try (eapply H3; eassumption).
  destruct H4 as [H4|[Hb Ht]]; [left; exact H4|].
  rewrite Hb, Ht. exact Hx.
Qed.

Theorem c12_tasks (ps : list stmt) lbs ubs f n_iter okc n B0 BT0 x0 evs x' :
  Forall (fun p => c12_check p = true) ps ->
  length (tv x0) = n -> length (pop x0) = n ->
  ((apos (best x0) = clipc lbs ubs (btv x0) /\ afit (best x0) = f (apos (best x0))) \/ (best x0 = B0 /\ btv x0 = BT0)) ->
  tasks12 lbs ubs f n_iter okc ps x0 evs x' ->
  Forall (ev_claim12 lbs ubs f n B0 BT0) evs /\
  length (tv x') = n /\ length (pop x') = n /\
  ((apos (best x') = clipc lbs ubs (btv x') /\ afit (best x') = f (apos (best x'))) \/ (best x' = B0 /\ btv x' = BT0)).
Proof.
  intros Hps Ht0 Hp0 Hb0 Ht. revert Hps Ht0 Hp0 Hb0.
  induction Ht as [x|p ps x o x1 evs1 o1 evs2 x2 Hrun Ht IH]; intros Hps Ht0 Hp0 Hb0.
  - split; [constructor|]. repeat split; assumption.
  - pose proof (Forall_inv Hps) as Hp. pose proof (Forall_inv_tail Hps) as Hps'. simpl in Hp.
    destruct (c12_main p lbs ubs f n_iter okc n o x x1 evs1 o1 Hp Ht0 Hp0 Hrun) as [HC HE].
    pose proof (claim_rebase lbs ubs f n B0 BT0 x x1 HC Hb0) as HC'.
    destruct HC' as (L1 & L2 & L3 & L4).
    destruct (IH Hps' L1 L2 L4) as (E2 & R).
    split; [|exact R]. apply Forall_app. split; [|exact E2].
    eapply Forall_impl; [|exact HE]. intros e He. destruct e; simpl in *; try exact I.
    eapply claim_rebase; eassumption.
Qed.
