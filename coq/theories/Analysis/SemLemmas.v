(* Basic facts about the IR semantics used by every domain: list update, reading and writing
   references, erasing source-location tags, decidable equality of statements. *)
From Coq Require Import String ZArith List Bool Arith Lia.
From OV Require Import Base.FloatKey Model.Clip Model.IR Model.IRSem.
Import ListNotations.
Close Scope Z_scope.
Open Scope nat_scope.

(* ---------------------------------------------------------------- upd *)
Lemma upd_length {A} i (a : A) l l' : upd i a l = Some l' -> length l' = length l.
Proof.
  revert i l'. induction l as [|h t IH]; intros [|i] l' H; simpl in H; try discriminate.
  - injection H as <-. reflexivity.
  - destruct (upd i a t) as [t'|] eqn:E; [|discriminate]. injection H as <-. simpl. f_equal. eapply IH; eassumption.
Qed.

Lemma upd_nth_same {A} i (a : A) l l' : upd i a l = Some l' -> nth_error l' i = Some a.
Proof.
  revert i l'. induction l as [|h t IH]; intros [|i] l' H; simpl in H; try discriminate.
  - injection H as <-. reflexivity.
  - destruct (upd i a t) as [t'|] eqn:E; [|discriminate]. injection H as <-. simpl. eapply IH; eassumption.
Qed.

Lemma upd_nth_other {A} i (a : A) l l' j : upd i a l = Some l' -> j <> i -> nth_error l' j = nth_error l j.
Proof.
  revert i l' j. induction l as [|h t IH]; intros [|i] l' j H Hj; simpl in H; try discriminate.
  - injection H as <-. destruct j; [congruence|reflexivity].
  - destruct (upd i a t) as [t'|] eqn:E; [|discriminate]. injection H as <-.
    destruct j; [reflexivity|]. simpl. eapply IH; [eassumption|congruence].
Qed.

Lemma upd_some {A} i (a : A) l : i < length l -> exists l', upd i a l = Some l'.
Proof.
  revert i. induction l as [|h t IH]; intros [|i] H; simpl in *; try lia.
  - eexists; reflexivity.
  - destruct (IH i) as [t' ->]; [lia|]. eexists; reflexivity.
Qed.

Lemma upd_old {A} i (a : A) l l' : upd i a l = Some l' -> exists b, nth_error l i = Some b.
Proof.
  revert i l'. induction l as [|h t IH]; intros [|i] l' H; simpl in H; try discriminate.
  - eexists; reflexivity.
  - destruct (upd i a t) as [t'|] eqn:E; [|discriminate]. simpl. eapply IH; eassumption.
Qed.

Lemma upd_in {A} i (a : A) l l' b : upd i a l = Some l' -> In b l' -> b = a \/ In b l.
Proof.
  revert i l'. induction l as [|h t IH]; intros [|i] l' H Hin; simpl in H; try discriminate.
  - injection H as <-. destruct Hin as [<-|Hin]; [left; reflexivity|right; right; exact Hin].
  - destruct (upd i a t) as [t'|] eqn:E; [|discriminate]. injection H as <-.
    destruct Hin as [<-|Hin]; [right; left; reflexivity|].
    destruct (IH _ _ E Hin) as [->|H']; [left; reflexivity|right; right; exact H'].
Qed.

Lemma upd_map {A B} (g : A -> B) i a l l' : upd i a l = Some l' -> upd i (g a) (map g l) = Some (map g l').
Proof.
  revert i l'. induction l as [|h t IH]; intros [|i] l' H; simpl in H; try discriminate.
  - injection H as <-. reflexivity.
  - destruct (upd i a t) as [t'|] eqn:E; [|discriminate]. injection H as <-. simpl. rewrite (IH _ _ E). reflexivity.
Qed.

Lemma upd_same_image {A B} (g : A -> B) i a b l l' :
  upd i a l = Some l' -> nth_error l i = Some b -> g a = g b -> map g l' = map g l.
Proof.
  revert i l'. induction l as [|h t IH]; intros [|i] l' H Hn Hg; simpl in H; try discriminate.
  - injection H as <-. simpl in Hn. injection Hn as ->. simpl. rewrite Hg. reflexivity.
  - destruct (upd i a t) as [t'|] eqn:E; [|discriminate]. injection H as <-. simpl. f_equal. eapply IH; eassumption.
Qed.

Lemma nth_error_upd_cases {A} i (a : A) l l' j b :
  upd i a l = Some l' -> nth_error l' j = Some b -> (j = i /\ b = a) \/ (j <> i /\ nth_error l j = Some b).
Proof.
  intros H Hn. destruct (Nat.eq_dec j i) as [->|Hne].
  - left. rewrite (upd_nth_same _ _ _ _ H) in Hn. injection Hn as <-. split; reflexivity.
  - right. rewrite (upd_nth_other _ _ _ _ _ H Hne) in Hn. split; assumption.
Qed.

(* ---------------------------------------------------------------- getr / setr *)
Definition slotlike (r : ref) : bool := match r with Cur | Slot _ | Last => true | _ => false end.

Lemma getr_slot r cur x : slotlike r = true ->
  getr r cur x = match slot_of r cur x with Some i => nth_error (pop x) i | None => None end.
Proof. destruct r; simpl; intros H; try discriminate; reflexivity. Qed.

Lemma setr_slot r cur a x : slotlike r = true ->
  setr r cur a x = match slot_of r cur x with
                   | Some i => match upd i a (pop x) with Some l => Some (with_pop x l) | None => None end
                   | None => None end.
Proof. destruct r; simpl; intros H; try discriminate; reflexivity. Qed.

(* what a successful write changes *)
Inductive written (r : ref) (cur : option nat) (a : agent) (x x' : st) : Prop :=
| W_best : r = Best -> x' = with_best x a -> written r cur a x x'
| W_tr : r = Tr -> x' = with_tr x a -> written r cur a x x'
| W_sh : forall i l, r = Sh -> cur = Some i -> upd i a (sh x) = Some l -> x' = with_sh x l -> written r cur a x x'
| W_slot : forall i l, slotlike r = true -> slot_of r cur x = Some i -> upd i a (pop x) = Some l -> x' = with_pop x l ->
           written r cur a x x'.

Lemma setr_written r cur a x x' : setr r cur a x = Some x' -> written r cur a x x'.
Proof.
  destruct r; simpl; intros H.
  - destruct cur as [i|]; [|discriminate]. destruct (upd i a (pop x)) as [l|] eqn:E; [|discriminate].
    injection H as <-. eapply W_slot with (i := i); try reflexivity; assumption.
  - destruct (nth_error (idx x) v) as [i|] eqn:Ei; [|discriminate]. destruct (upd i a (pop x)) as [l|] eqn:E; [|discriminate].
    injection H as <-. eapply W_slot with (i := i); try reflexivity; assumption.
  - destruct (length (pop x)) as [|n] eqn:El; [discriminate|]. destruct (upd n a (pop x)) as [l|] eqn:E; [|discriminate].
    injection H as <-. eapply W_slot with (i := n); try reflexivity; [simpl; rewrite El; reflexivity|assumption].
  - injection H as <-. apply W_best; reflexivity.
  - injection H as <-. apply W_tr; reflexivity.
  - destruct cur as [i|]; [|discriminate]. destruct (upd i a (sh x)) as [l|] eqn:E; [|discriminate].
    injection H as <-. eapply W_sh; try reflexivity; eassumption.
Qed.

Inductive readat (r : ref) (cur : option nat) (x : st) (a : agent) : Prop :=
| R_best : r = Best -> a = best x -> readat r cur x a
| R_tr : r = Tr -> a = tr x -> readat r cur x a
| R_sh : forall i, r = Sh -> cur = Some i -> nth_error (sh x) i = Some a -> readat r cur x a
| R_slot : forall i, slotlike r = true -> slot_of r cur x = Some i -> nth_error (pop x) i = Some a -> readat r cur x a.

Lemma getr_readat r cur x a : getr r cur x = Some a -> readat r cur x a.
Proof.
  destruct r; simpl; intros H.
  - destruct cur as [i|]; [|discriminate]. eapply R_slot with (i := i); try reflexivity; assumption.
  - destruct (nth_error (idx x) v) as [i|] eqn:Ei; [|discriminate]. eapply R_slot with (i := i); try reflexivity; assumption.
  - destruct (length (pop x)) as [|n] eqn:El; [discriminate|].
    eapply R_slot with (i := n); try reflexivity; [simpl; rewrite El; reflexivity|assumption].
  - injection H as <-. apply R_best; reflexivity.
  - injection H as <-. apply R_tr; reflexivity.
  - destruct cur as [i|]; [|discriminate]. eapply R_sh; try reflexivity; eassumption.
Qed.

(* ---------------------------------------------------------------- erasing location tags *)
Fixpoint strip (s : stmt) : stmt :=
  match s with
  | At _ s1 => strip s1
  | Seq s1 s2 => Seq (strip s1) (strip s2)
  | If c s1 s2 => If c (strip s1) (strip s2)
  | ForSlots b => ForSlots (strip b)
  | RepeatAny b => RepeatAny (strip b)
  | Repeat b => Repeat (strip b)
  | Onlooker b => Onlooker (strip b)
  | _ => s
  end.

Section Strip.
  Variables (lbs ubs : list Z) (f : contents -> Z) (hk : st -> st) (n_iter : nat) (okc : contents -> contents -> bool).
  Notation exec := (exec lbs ubs f hk n_iter okc).

  Lemma iter_ext n (b1 b2 : list answer -> st -> res) : (forall o x, b1 o x = b2 o x) -> forall o x, iter n b1 o x = iter n b2 o x.
  Proof.
    intros H. induction n as [|n IH]; intros o x; simpl; [reflexivity|].
    rewrite H. unfold bind. destruct (b2 o x) as [[[x1 e1] o1]|]; [|reflexivity]. rewrite IH. reflexivity.
  Qed.

  Lemma iter_slots_ext n (b1 b2 : nat -> list answer -> st -> res) :
    (forall i o x, b1 i o x = b2 i o x) -> forall i o x, iter_slots i n b1 o x = iter_slots i n b2 o x.
  Proof.
    intros H. induction n as [|n IH]; intros i o x; simpl; [reflexivity|].
    rewrite H. unfold bind. destruct (b2 i o x) as [[[x1 e1] o1]|]; [|reflexivity]. rewrite IH. reflexivity.
  Qed.

  Lemma exec_strip s : forall cur o x, exec cur (strip s) o x = exec cur s o x.
  Proof.
    induction s; intros cur o x; try reflexivity; simpl.
    - destruct (evalc c cur o x) as [[[|] o1]|]; [apply IHs1|apply IHs2|reflexivity].
    - rewrite IHs1. unfold bind. destruct (exec cur s1 o x) as [[[x1 e1] o1]|]; [|reflexivity]. rewrite IHs2. reflexivity.
    - apply iter_slots_ext. intros i o0 x0. apply IHs.
    - destruct o as [|[c0|b0|n|t0] o1]; try reflexivity. apply iter_ext. intros o0 x0. apply IHs.
    - apply iter_ext. intros o0 x0. apply IHs.
    - destruct o as [|[c0|b0|n|t0] o1]; try reflexivity. apply iter_ext. intros o0 x0.
      apply iter_slots_ext. intros i o2 x2. apply IHs.
    - apply IHs.
  Qed.
End Strip.

(* ---------------------------------------------------------------- decidable equality *)
Definition ref_eq_dec (a b : ref) : {a = b} + {a <> b}.
Proof. decide equality. apply Nat.eq_dec. Defined.

Definition cond_eq_dec (a b : cond) : {a = b} + {a <> b}.
Proof. decide equality; apply ref_eq_dec. Defined.

Definition stmt_eq_dec (a b : stmt) : {a = b} + {a <> b}.
Proof.
  decide equality; try apply ref_eq_dec; try apply cond_eq_dec; try apply Nat.eq_dec; try apply string_dec.
  decide equality.
Defined.

Definition stmt_eqb (a b : stmt) : bool := if stmt_eq_dec a b then true else false.
Lemma stmt_eqb_eq a b : stmt_eqb a b = true -> a = b.
Proof. unfold stmt_eqb. destruct (stmt_eq_dec a b); [auto|discriminate]. Qed.
