(* Validation of the translator T2 against real runs ("trace inclusion").

   The run monitor records, from outside, the sequence of observable effects of a real task:
   hook calls, objective calls, Agent.check_limits, Space.check_limits, history.dump and calls into the random
   primitives.  [accepts p N T tr] decides whether SOME execution of the IR program [p] (some oracle: any
   outcome of every numeric test, any count of every data-dependent loop) with N agents and T iterations
   produces exactly that sequence.  A real trace that is rejected means that T2 (or the semantics) misdescribes
   the code.  This is a test of the translator, not a theorem about the code. *)
From Coq Require Import String List Bool Arith.
From OV Require Import Model.IR.
Import ListNotations.

Inductive oev := OH | OE | OC | OA | OD | OR.     (* Hook, Eval, Clip (one agent), ClipAll, Dump, Draw *)

Definition oev_eqb (a b : oev) : bool :=
  match a, b with OH, OH | OE, OE | OC, OC | OA, OA | OD, OD | OR, OR => true | _, _ => false end.

Definition atom_oev (s : stmt) : option oev :=
  match s with
  | Hook => Some OH
  | Eval _ | EvalTmp _ => Some OE
  | Clip _ => Some OC
  | ClipAll => Some OA
  | Dump => Some OD
  | Draw => Some OR
  | _ => None
  end.

(* remainders are suffixes of the input: keep at most one of each length *)
Fixpoint insert_rem (r : list oev) (l : list (list oev)) : list (list oev) :=
  match l with
  | [] => [r]
  | x :: t => if Nat.eqb (length x) (length r) then l else x :: insert_rem r t
  end.
Definition union_rem (a b : list (list oev)) : list (list oev) := fold_right insert_rem b a.

Section Acc.
  Variables (N T : nat).
  Variable with_draws : bool.        (* false: ignore Draw statements and OR events (GP: tree steps draw internally) *)

  Fixpoint iterate (k : nat) (f : list oev -> list (list oev)) (s : list (list oev)) : list (list oev) :=
    match k with
    | 0 => s
    | S k' => iterate k' f (fold_right (fun r acc => union_rem (f r) acc) [] s)
    end.

  (* reflexive-transitive closure, [fuel] rounds *)
  Fixpoint star (fuel : nat) (f : list oev -> list (list oev)) (s : list (list oev)) : list (list oev) :=
    match fuel with
    | 0 => s
    | S k => let s' := union_rem s (fold_right (fun r acc => union_rem (f r) acc) [] s) in
             if Nat.eqb (length s') (length s) then s else star k f s'      (* no new remainder: closed *)
    end.

  Fixpoint rem (s : stmt) (l : list oev) {struct s} : list (list oev) :=
    match s with
    | Seq a b => fold_right (fun r acc => union_rem (rem b r) acc) [] (rem a l)
    | If _ a b => union_rem (rem a l) (rem b l)
    | At _ a => rem a l
    | ForSlots b => iterate N (rem b) [l]
    | Repeat b => iterate T (rem b) [l]
    | RepeatAny b => star (S (length l)) (rem b) [l]
    | Onlooker b => star (S (length l)) (fun r => iterate N (rem b) [r]) [l]
    | _ => match atom_oev s with
           | Some OR => if with_draws then match l with OR :: t => [t] | _ => [] end else [l]
           | Some e => match l with x :: t => if oev_eqb x e then [t] else [] | [] => [] end
           | None => [l]
           end
    end.

  Definition accepts (p : stmt) (tr : list oev) : bool :=
    existsb (fun r => match r with [] => true | _ => false end) (rem p tr).

  (* where matching got stuck: the length of the shortest remainder reached (0 = accepted or fully consumed) *)
  Definition shortest_rem (p : stmt) (tr : list oev) : option nat :=
    fold_right (fun r acc => match acc with Some m => Some (Nat.min m (length r)) | None => Some (length r) end) None (rem p tr).
End Acc.
