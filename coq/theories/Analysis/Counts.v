(* Syntactic counting analyses over the IR, each with a direct soundness proof by induction on the
   statement (valid for every oracle, objective, hook, box and iteration count):
   - [exec_len]     : no statement changes the size of the population;
   - [cexact]       : the exact number of Hook / Dump events of an execution (C03, C04);
   - [cmax]/[cmin]  : an upper / lower bound of the number of objective calls, as a function of the
                      population size and of n_iterations (C03 budget);
   - [wset]         : the hyperparameters an execution may write (C15 frame);
   - [dmin]         : a lower bound of the number of calls into the random primitives (C05). *)
From Coq Require Import String ZArith List Bool Arith Lia.
From OV Require Import Base.FloatKey Model.Clip Model.IR Model.IRSem Analysis.SemLemmas Analysis.AbsInt.
Import ListNotations.
Close Scope Z_scope.
Open Scope nat_scope.
Local Arguments getr : simpl never.
Local Arguments setr : simpl never.

Inductive evkind := KEval | KHook | KDump | KDraw.

Definition kind_of (e : event) : evkind :=
  match e with EvEval _ _ => KEval | EvHook _ => KHook | EvDump _ => KDump | EvDraw => KDraw end.

Definition kind_eqb (a b : evkind) : bool :=
  match a, b with KEval, KEval | KHook, KHook | KDump, KDump | KDraw, KDraw => true | _, _ => false end.

Definition cnt (k : evkind) (evs : list event) : nat := length (filter (fun e => kind_eqb (kind_of e) k) evs).

Lemma cnt_app k a b : cnt k (a ++ b) = cnt k a + cnt k b.
Proof. unfold cnt. rewrite filter_app, app_length. reflexivity. Qed.

(* the event an atomic statement emits *)
Definition atom_kind (s : stmt) : option evkind :=
  match s with
  | Eval _ | EvalTmp _ => Some KEval
  | Hook => Some KHook
  | Dump => Some KDump
  | Draw => Some KDraw
  | _ => None
  end.

Definition atom_cnt (k : evkind) (s : stmt) : nat :=
  match atom_kind s with Some k' => if kind_eqb k' k then 1 else 0 | None => 0 end.

Section Counts.
  Variables (lbs ubs : list Z) (f : contents -> Z) (hk : st -> st) (n_iter : nat) (okc : contents -> contents -> bool).
  Notation exec := (exec lbs ubs f hk n_iter okc).
  Notation exec_atom := (exec_atom lbs ubs f hk okc).

  Ltac dm H :=
    repeat match type of H with
           | context[match ?e with _ => _ end] => destruct e eqn:?; try discriminate H
           | context[if ?e then _ else _] => destruct e eqn:?; try discriminate H
           end.

  (* ------------------------------------------------------------ events and population size of atoms *)
  Lemma exec_atom_cnt k s cur o x x' evs o' :
    is_atom s = true -> exec_atom cur s o x = Some (x', evs, o') -> cnt k evs = atom_cnt k s.
  Proof.
    intros Ha H. destruct s; simpl in Ha; try discriminate; simpl in H; unfold ret in H; dm H;
      try (injection H as <- <- <-); destruct k; reflexivity.
  Qed.

  Hypothesis hk_len : forall x, length (pop (hk x)) = length (pop x).

  Lemma setr_len r cur a x x' : setr r cur a x = Some x' -> length (pop x') = length (pop x).
  Proof.
    intros H. apply setr_written in H. destruct H as [-> -> | -> -> | i l -> -> Hu -> | i l Hs Hi Hu ->]; simpl; try reflexivity.
    eapply upd_length; eassumption.
  Qed.

  Lemma sort_fit_length l : length (sort_fit l) = length l.
  Proof.
    assert (Hins : forall a t, length (ins_fit a t) = S (length t)).
    { intros a t. induction t as [|b t IH]; simpl; [reflexivity|]. destruct (klt (afit a) (afit b)); simpl; [reflexivity|]. rewrite IH. reflexivity. }
    induction l as [|a l IH]; simpl; [reflexivity|]. rewrite Hins, IH. reflexivity.
  Qed.

  Lemma exec_atom_len s cur o x x' evs o' :
    exec_atom cur s o x = Some (x', evs, o') -> length (pop x') = length (pop x).
  Proof.
    intros H. destruct s; simpl in H; unfold ret in H; try discriminate H; dm H; try (injection H as <- <- <-); simpl;
      repeat match goal with
             | E : setr _ _ _ _ = Some _ |- _ => apply setr_len in E; simpl in E
             end; try assumption; try reflexivity; try (etransitivity; eassumption);
      try (rewrite map_length; reflexivity); try apply sort_fit_length; try apply hk_len.
  Qed.

  (* ------------------------------------------------------------ generic induction principle for executions *)
  Section Ind.
    Variable P : stmt -> st -> st -> list event -> Prop.
    (* P is stated for the *results* of executions; R is the invariant linking consecutive states *)
    Variable I : st -> Prop.
    Hypothesis I_atom : forall s cur o x x' evs o', I x -> exec_atom cur s o x = Some (x', evs, o') -> I x'.

    Lemma exec_inv s : forall cur o x x' evs o', I x -> exec cur s o x = Some (x', evs, o') -> I x'.
    Proof.
      assert (Hit : forall (body : list answer -> st -> res),
                 (forall o x x' evs o', I x -> body o x = Some (x', evs, o') -> I x') ->
                 forall n o x x' evs o', I x -> iter n body o x = Some (x', evs, o') -> I x').
      { intros body Hb n. induction n as [|n IH]; intros o x x' evs o' Hi H; simpl in H.
        - unfold ret in H. injection H as <- <- <-. exact Hi.
        - apply bind_some in H as (x1 & e1 & o1 & e2 & H1 & H2 & ->). eapply IH; [|exact H2]. eapply Hb; eassumption. }
      assert (His : forall (body : nat -> list answer -> st -> res),
                 (forall i o x x' evs o', I x -> body i o x = Some (x', evs, o') -> I x') ->
                 forall n i o x x' evs o', I x -> iter_slots i n body o x = Some (x', evs, o') -> I x').
      { intros body Hb n. induction n as [|n IH]; intros i o x x' evs o' Hi H; simpl in H.
        - unfold ret in H. injection H as <- <- <-. exact Hi.
        - apply bind_some in H as (x1 & e1 & o1 & e2 & H1 & H2 & ->). eapply IH; [|exact H2]. eapply Hb; eassumption. }
      induction s; intros cur o x x' evs o' Hi H; try (eapply I_atom; [exact Hi|exact H]); simpl in H.
      - destruct (evalc c cur o x) as [[[|] o1]|]; [eapply IHs1|eapply IHs2|discriminate]; eassumption.
      - apply bind_some in H as (x1 & e1 & o1 & e2 & H1 & H2 & ->). eapply IHs2; [|exact H2]. eapply IHs1; eassumption.
      - eapply His; [|exact Hi|exact H]. intros i o0 x0 x0' evs0 o0' Hi0 Hb. eapply IHs; [exact Hi0|exact Hb].
      - destruct o as [|[?|?|n|?] o1]; try discriminate. eapply Hit; [|exact Hi|exact H]. intros o0 x0 x0' evs0 o0' Hi0 Hb. eapply IHs; [exact Hi0|exact Hb].
      - eapply Hit; [|exact Hi|exact H]. intros o0 x0 x0' evs0 o0' Hi0 Hb. eapply IHs; [exact Hi0|exact Hb].
      - destruct o as [|[?|?|n|?] o1]; try discriminate. eapply Hit; [|exact Hi|exact H].
        intros o0 x0 x0' evs0 o0' Hi0 Hb. eapply His; [|exact Hi0|exact Hb]. intros i o2 x2 x2' evs2 o2' Hi2 Hb2. eapply IHs; [exact Hi2|exact Hb2].
      - eapply IHs; eassumption.
    Qed.
  End Ind.

  Theorem exec_len s cur o x x' evs o' : exec cur s o x = Some (x', evs, o') -> length (pop x') = length (pop x).
  Proof.
    intros H.
    eapply (exec_inv (fun y => length (pop y) = length (pop x))); [|reflexivity|exact H].
    intros s0 cur0 o0 y y' e0 o0' Hy Ha. rewrite <- Hy. eapply exec_atom_len; eassumption.
  Qed.

  (* ------------------------------------------------------------ exact counts (Hook, Dump) *)
  Fixpoint cexact (k : evkind) (s : stmt) : option nat :=
    match s with
    | Seq s1 s2 => match cexact k s1, cexact k s2 with Some a, Some b => Some (a + b) | _, _ => None end
    | If _ s1 s2 => match cexact k s1, cexact k s2 with Some a, Some b => if Nat.eqb a b then Some a else None | _, _ => None end
    | At _ s1 => cexact k s1
    | ForSlots b | RepeatAny b | Onlooker b => match cexact k b with Some 0 => Some 0 | _ => None end
    | Repeat b => match cexact k b with Some a => Some (n_iter * a) | None => None end
    | _ => Some (atom_cnt k s)
    end.

  Lemma iter_cnt0 k (body : list answer -> st -> res) :
    (forall o x x' evs o', body o x = Some (x', evs, o') -> cnt k evs = 0) ->
    forall n o x x' evs o', iter n body o x = Some (x', evs, o') -> cnt k evs = 0.
  Proof.
    intros Hb n. induction n as [|n IH]; intros o x x' evs o' H; simpl in H.
    - unfold ret in H. injection H as <- <- <-. reflexivity.
    - apply bind_some in H as (x1 & e1 & o1 & e2 & H1 & H2 & ->). rewrite cnt_app, (Hb _ _ _ _ _ H1), (IH _ _ _ _ _ H2). reflexivity.
  Qed.

  Lemma iter_slots_cnt0 k (body : nat -> list answer -> st -> res) :
    (forall i o x x' evs o', body i o x = Some (x', evs, o') -> cnt k evs = 0) ->
    forall n i o x x' evs o', iter_slots i n body o x = Some (x', evs, o') -> cnt k evs = 0.
  Proof.
    intros Hb n. induction n as [|n IH]; intros i o x x' evs o' H; simpl in H.
    - unfold ret in H. injection H as <- <- <-. reflexivity.
    - apply bind_some in H as (x1 & e1 & o1 & e2 & H1 & H2 & ->). rewrite cnt_app, (Hb _ _ _ _ _ _ H1), (IH _ _ _ _ _ _ H2). reflexivity.
  Qed.

  Lemma iter_cnt_exact k (body : list answer -> st -> res) m :
    (forall o x x' evs o', body o x = Some (x', evs, o') -> cnt k evs = m) ->
    forall n o x x' evs o', iter n body o x = Some (x', evs, o') -> cnt k evs = n * m.
  Proof.
    intros Hb n. induction n as [|n IH]; intros o x x' evs o' H; simpl in H.
    - unfold ret in H. injection H as <- <- <-. reflexivity.
    - apply bind_some in H as (x1 & e1 & o1 & e2 & H1 & H2 & ->). rewrite cnt_app, (Hb _ _ _ _ _ H1), (IH _ _ _ _ _ H2). simpl. reflexivity.
  Qed.

  Theorem cexact_sound k s : forall m, cexact k s = Some m ->
    forall cur o x x' evs o', exec cur s o x = Some (x', evs, o') -> cnt k evs = m.
  Proof.
    induction s; intros m0 Hc cur o x x' evs o' H; simpl in Hc;
      try (injection Hc as <-; eapply (exec_atom_cnt k _ cur); [|exact H]; reflexivity); simpl in H.
    - (* If *)
      destruct (cexact k s1) as [a1|] eqn:E1; [|discriminate]. destruct (cexact k s2) as [a2|] eqn:E2; [|discriminate].
      destruct (Nat.eqb a1 a2) eqn:Eq; [|discriminate]. injection Hc as <-. apply Nat.eqb_eq in Eq. subst a2.
      destruct (evalc c cur o x) as [[[|] o1]|]; [eapply IHs1; [reflexivity|exact H]|eapply IHs2; [reflexivity|exact H]|discriminate].
    - (* Seq *)
      destruct (cexact k s1) as [a1|] eqn:E1; [|discriminate]. destruct (cexact k s2) as [a2|] eqn:E2; [|discriminate].
      injection Hc as <-. apply bind_some in H as (x1 & e1 & o1 & e2 & H1 & H2 & ->).
      rewrite cnt_app, (IHs1 _ eq_refl _ _ _ _ _ _ H1), (IHs2 _ eq_refl _ _ _ _ _ _ H2). reflexivity.
    - (* ForSlots *)
      destruct (cexact k s) as [[|a]|] eqn:E; try discriminate. injection Hc as <-.
      eapply iter_slots_cnt0; [|exact H]. intros i o0 x0 x0' e0 o0' Hb. eapply IHs; [reflexivity|exact Hb].
    - (* RepeatAny *)
      destruct (cexact k s) as [[|a]|] eqn:E; try discriminate. injection Hc as <-.
      destruct o as [|[?|?|n|?] o1]; try discriminate.
      eapply iter_cnt0; [|exact H]. intros o0 x0 x0' e0 o0' Hb. eapply IHs; [reflexivity|exact Hb].
    - (* Repeat *)
      destruct (cexact k s) as [a|] eqn:E; [|discriminate]. injection Hc as <-.
      eapply iter_cnt_exact; [|exact H]. intros o0 x0 x0' e0 o0' Hb. eapply IHs; [reflexivity|exact Hb].
    - (* Onlooker *)
      destruct (cexact k s) as [[|a]|] eqn:E; try discriminate. injection Hc as <-.
      destruct o as [|[?|?|n|?] o1]; try discriminate.
      eapply iter_cnt0; [|exact H]. intros o0 x0 x0' e0 o0' Hb.
      eapply iter_slots_cnt0; [|exact Hb]. intros i o2 x2 x2' e2 o2' Hb2. eapply IHs; [reflexivity|exact Hb2].
    - (* At *) eapply IHs; [exact Hc|exact H].
  Qed.

  (* ------------------------------------------------------------ bounds on the number of objective calls *)
  (* [N] is the population size *)
  Fixpoint cmax (k : evkind) (N : nat) (s : stmt) : option nat :=
    match s with
    | Seq s1 s2 => match cmax k N s1, cmax k N s2 with Some a, Some b => Some (a + b) | _, _ => None end
    | If _ s1 s2 => match cmax k N s1, cmax k N s2 with Some a, Some b => Some (Nat.max a b) | _, _ => None end
    | At _ s1 => cmax k N s1
    | ForSlots b => match cmax k N b with Some a => Some (N * a) | None => None end
    | RepeatAny b | Onlooker b => match cmax k N b with Some 0 => Some 0 | _ => None end
    | Repeat b => match cmax k N b with Some a => Some (n_iter * a) | None => None end
    | _ => Some (atom_cnt k s)
    end.

  Fixpoint cmin (k : evkind) (N : nat) (s : stmt) : nat :=
    match s with
    | Seq s1 s2 => cmin k N s1 + cmin k N s2
    | If _ s1 s2 => Nat.min (cmin k N s1) (cmin k N s2)
    | At _ s1 => cmin k N s1
    | ForSlots b => N * cmin k N b
    | RepeatAny _ | Onlooker _ => 0
    | Repeat b => n_iter * cmin k N b
    | _ => atom_cnt k s
    end.

  Lemma iter_cnt_le k (body : list answer -> st -> res) (I : st -> Prop) m :
    (forall o x x' evs o', I x -> body o x = Some (x', evs, o') -> I x' /\ cnt k evs <= m) ->
    forall n o x x' evs o', I x -> iter n body o x = Some (x', evs, o') -> I x' /\ cnt k evs <= n * m.
  Proof.
    intros Hb n. induction n as [|n IH]; intros o x x' evs o' Hi H; simpl in H.
    - unfold ret in H. injection H as <- <- <-. split; [exact Hi|unfold cnt; simpl; lia].
    - apply bind_some in H as (x1 & e1 & o1 & e2 & H1 & H2 & ->).
      destruct (Hb _ _ _ _ _ Hi H1) as [Hi1 Hc1]. destruct (IH _ _ _ _ _ Hi1 H2) as [Hi2 Hc2].
      split; [exact Hi2|]. rewrite cnt_app. simpl. lia.
  Qed.

  Lemma iter_slots_cnt_le k (body : nat -> list answer -> st -> res) (I : st -> Prop) m :
    (forall i o x x' evs o', I x -> body i o x = Some (x', evs, o') -> I x' /\ cnt k evs <= m) ->
    forall n i o x x' evs o', I x -> iter_slots i n body o x = Some (x', evs, o') -> I x' /\ cnt k evs <= n * m.
  Proof.
    intros Hb n. induction n as [|n IH]; intros i o x x' evs o' Hi H; simpl in H.
    - unfold ret in H. injection H as <- <- <-. split; [exact Hi|unfold cnt; simpl; lia].
    - apply bind_some in H as (x1 & e1 & o1 & e2 & H1 & H2 & ->).
      destruct (Hb _ _ _ _ _ _ Hi H1) as [Hi1 Hc1]. destruct (IH _ _ _ _ _ _ Hi1 H2) as [Hi2 Hc2].
      split; [exact Hi2|]. rewrite cnt_app. simpl. lia.
  Qed.

  Lemma iter_cnt_ge k (body : list answer -> st -> res) (I : st -> Prop) m :
    (forall o x x' evs o', I x -> body o x = Some (x', evs, o') -> I x' /\ m <= cnt k evs) ->
    forall n o x x' evs o', I x -> iter n body o x = Some (x', evs, o') -> I x' /\ n * m <= cnt k evs.
  Proof.
    intros Hb n. induction n as [|n IH]; intros o x x' evs o' Hi H; simpl in H.
    - unfold ret in H. injection H as <- <- <-. split; [exact Hi|unfold cnt; simpl; lia].
    - apply bind_some in H as (x1 & e1 & o1 & e2 & H1 & H2 & ->).
      destruct (Hb _ _ _ _ _ Hi H1) as [Hi1 Hc1]. destruct (IH _ _ _ _ _ Hi1 H2) as [Hi2 Hc2].
      split; [exact Hi2|]. rewrite cnt_app. simpl. lia.
  Qed.

  Lemma iter_slots_cnt_ge k (body : nat -> list answer -> st -> res) (I : st -> Prop) m :
    (forall i o x x' evs o', I x -> body i o x = Some (x', evs, o') -> I x' /\ m <= cnt k evs) ->
    forall n i o x x' evs o', I x -> iter_slots i n body o x = Some (x', evs, o') -> I x' /\ n * m <= cnt k evs.
  Proof.
    intros Hb n. induction n as [|n IH]; intros i o x x' evs o' Hi H; simpl in H.
    - unfold ret in H. injection H as <- <- <-. split; [exact Hi|unfold cnt; simpl; lia].
    - apply bind_some in H as (x1 & e1 & o1 & e2 & H1 & H2 & ->).
      destruct (Hb _ _ _ _ _ _ Hi H1) as [Hi1 Hc1]. destruct (IH _ _ _ _ _ _ Hi1 H2) as [Hi2 Hc2].
      split; [exact Hi2|]. rewrite cnt_app. simpl. lia.
  Qed.

  Theorem cmax_sound k N s : forall m, cmax k N s = Some m ->
    forall cur o x x' evs o', length (pop x) = N -> exec cur s o x = Some (x', evs, o') ->
    length (pop x') = N /\ cnt k evs <= m.
  Proof.
    induction s; intros m0 Hc cur o x x' evs o' HN H; simpl in Hc;
      try (injection Hc as <-; split; [rewrite <- HN; eapply (exec_atom_len _ cur); exact H
                                      | erewrite (exec_atom_cnt k _ cur); [apply le_n| |exact H]; reflexivity]); simpl in H.
    - (* If *)
      destruct (cmax k N s1) as [a1|] eqn:E1; [|discriminate]. destruct (cmax k N s2) as [a2|] eqn:E2; [|discriminate].
      injection Hc as <-.
      destruct (evalc c cur o x) as [[[|] o1]|]; [| |discriminate].
      + destruct (IHs1 _ eq_refl _ _ _ _ _ _ HN H) as [A B]. split; [exact A|lia].
      + destruct (IHs2 _ eq_refl _ _ _ _ _ _ HN H) as [A B]. split; [exact A|lia].
    - (* Seq *)
      destruct (cmax k N s1) as [a1|] eqn:E1; [|discriminate]. destruct (cmax k N s2) as [a2|] eqn:E2; [|discriminate].
      injection Hc as <-. apply bind_some in H as (x1 & e1 & o1 & e2 & H1 & H2 & ->).
      destruct (IHs1 _ eq_refl _ _ _ _ _ _ HN H1) as [A1 B1]. destruct (IHs2 _ eq_refl _ _ _ _ _ _ A1 H2) as [A2 B2].
      split; [exact A2|rewrite cnt_app; lia].
    - (* ForSlots *)
      destruct (cmax k N s) as [a|] eqn:E; [|discriminate]. injection Hc as <-. rewrite HN in H.
      eapply (iter_slots_cnt_le k _ (fun y => length (pop y) = N)); [|exact HN|exact H].
      intros i o0 x0 x0' e0 o0' Hi Hb. eapply IHs; [reflexivity|exact Hi|exact Hb].
    - (* RepeatAny *)
      destruct (cmax k N s) as [[|a]|] eqn:E; try discriminate. injection Hc as <-.
      destruct o as [|[?|?|n|?] o1]; try discriminate.
      assert (Hbody : forall o0 x0 x0' e0 o0', length (pop x0) = N -> exec cur s o0 x0 = Some (x0', e0, o0') ->
                                          length (pop x0') = N /\ cnt k e0 <= 0).
      { intros o0 x0 x0' e0 o0' Hi Hb. eapply IHs; [reflexivity|exact Hi|exact Hb]. }
      destruct (iter_cnt_le k (exec cur s) (fun y => length (pop y) = N) 0 Hbody n o1 x x' evs o' HN H) as [A B].
      split; [exact A|lia].
    - (* Repeat *)
      destruct (cmax k N s) as [a|] eqn:E; [|discriminate]. injection Hc as <-.
      eapply (iter_cnt_le k _ (fun y => length (pop y) = N)); [|exact HN|exact H].
      intros o0 x0 x0' e0 o0' Hi Hb. eapply IHs; [reflexivity|exact Hi|exact Hb].
    - (* Onlooker *)
      destruct (cmax k N s) as [[|a]|] eqn:E; try discriminate. injection Hc as <-.
      destruct o as [|[?|?|n|?] o1]; try discriminate.
      assert (Hslot : forall i o0 x0 x0' e0 o0', length (pop x0) = N -> exec (Some i) s o0 x0 = Some (x0', e0, o0') ->
                                            length (pop x0') = N /\ cnt k e0 <= 0).
      { intros i o0 x0 x0' e0 o0' Hi Hb. eapply IHs; [reflexivity|exact Hi|exact Hb]. }
      assert (Hbody : forall o0 x0 x0' e0 o0', length (pop x0) = N ->
                 iter_slots 0 (length (pop x0)) (fun i => exec (Some i) s) o0 x0 = Some (x0', e0, o0') ->
                 length (pop x0') = N /\ cnt k e0 <= 0).
      { intros o0 x0 x0' e0 o0' Hi Hb.
        destruct (iter_slots_cnt_le k (fun i => exec (Some i) s) (fun y => length (pop y) = N) 0 Hslot _ _ _ _ _ _ _ Hi Hb) as [A B].
        split; [exact A|lia]. }
      destruct (iter_cnt_le k (fun o1 x1 => iter_slots 0 (length (pop x1)) (fun i => exec (Some i) s) o1 x1)
                            (fun y => length (pop y) = N) 0 Hbody n o1 x x' evs o' HN H) as [A B].
      split; [exact A|lia].
    - (* At *) eapply IHs; [exact Hc|exact HN|exact H].
  Qed.

  Theorem cmin_sound k N s :
    forall cur o x x' evs o', length (pop x) = N -> exec cur s o x = Some (x', evs, o') ->
    length (pop x') = N /\ cmin k N s <= cnt k evs.
  Proof.
    induction s; intros cur o x x' evs o' HN H;
      try (split; [rewrite <- HN; eapply (exec_atom_len _ cur); exact H
                  | simpl; erewrite (exec_atom_cnt k _ cur); [apply le_n| |exact H]; reflexivity]); simpl in H; simpl.
    - destruct (evalc c cur o x) as [[[|] o1]|]; [| |discriminate].
      + destruct (IHs1 _ _ _ _ _ _ HN H) as [A B]. split; [exact A|lia].
      + destruct (IHs2 _ _ _ _ _ _ HN H) as [A B]. split; [exact A|lia].
    - apply bind_some in H as (x1 & e1 & o1 & e2 & H1 & H2 & ->).
      destruct (IHs1 _ _ _ _ _ _ HN H1) as [A1 B1]. destruct (IHs2 _ _ _ _ _ _ A1 H2) as [A2 B2].
      split; [exact A2|rewrite cnt_app; lia].
    - rewrite HN in H.
      eapply (iter_slots_cnt_ge k _ (fun y => length (pop y) = N)); [|exact HN|exact H].
      intros i o0 x0 x0' e0 o0' Hi Hb. eapply IHs; [exact Hi|exact Hb].
    - split; [|lia]. rewrite <- HN. eapply exec_len with (s := RepeatAny s) (cur := cur). simpl. exact H.
    - eapply (iter_cnt_ge k _ (fun y => length (pop y) = N)); [|exact HN|exact H].
      intros o0 x0 x0' e0 o0' Hi Hb. eapply IHs; [exact Hi|exact Hb].
    - split; [|lia]. rewrite <- HN. eapply exec_len with (s := Onlooker s) (cur := cur). simpl. exact H.
    - eapply IHs; [exact HN|exact H].
  Qed.

  (* ------------------------------------------------------------ hyperparameters written (C15 frame) *)
  Fixpoint wset (s : stmt) : list string :=
    match s with
    | SetHyper h => [h]
    | Seq s1 s2 | If _ s1 s2 => wset s1 ++ wset s2
    | At _ b | ForSlots b | RepeatAny b | Repeat b | Onlooker b => wset b
    | _ => []
    end.

  Hypothesis hk_hyp : forall x, hyp (hk x) = hyp x.

  Lemma setr_hyp r cur a x x' : setr r cur a x = Some x' -> hyp x' = hyp x.
  Proof.
    intros H. apply setr_written in H. destruct H as [-> -> | -> -> | i l -> -> Hu -> | i l Hs Hi Hu ->]; reflexivity.
  Qed.

  Definition hyp_inv (W : list string) (x0 x : st) : Prop :=
    exists added, hyp x = added ++ hyp x0 /\ forall h, In h added -> In h W.

  Lemma exec_atom_hyp s cur o x x' evs o' :
    exec_atom cur s o x = Some (x', evs, o') ->
    hyp x' = hyp x \/ exists h, s = SetHyper h /\ hyp x' = h :: hyp x.
  Proof.
    intros H. destruct s; simpl in H; unfold ret in H; try discriminate H; dm H; try (injection H as <- <- <-); simpl;
      repeat match goal with
             | E : setr _ _ _ _ = Some _ |- _ => apply setr_hyp in E; simpl in E
             end; try (left; reflexivity); try (left; assumption); try (left; etransitivity; eassumption);
      try (left; apply hk_hyp); try (right; eexists; split; reflexivity).
  Qed.

  Theorem wset_sound s : forall cur o x x' evs o', exec cur s o x = Some (x', evs, o') ->
    exists added, hyp x' = added ++ hyp x /\ forall h, In h added -> In h (wset s).
  Proof.
    assert (Hit : forall W (body : list answer -> st -> res),
               (forall o x x' evs o', body o x = Some (x', evs, o') -> exists added, hyp x' = added ++ hyp x /\ forall h, In h added -> In h W) ->
               forall n o x x' evs o', iter n body o x = Some (x', evs, o') -> exists added, hyp x' = added ++ hyp x /\ forall h, In h added -> In h W).
    { intros W body Hb n. induction n as [|n IH]; intros o x x' evs o' H; simpl in H.
      - unfold ret in H. injection H as <- <- <-. exists []. split; [reflexivity|intros h []].
      - apply bind_some in H as (x1 & e1 & o1 & e2 & H1 & H2 & ->).
        destruct (Hb _ _ _ _ _ H1) as (a1 & E1 & I1). destruct (IH _ _ _ _ _ H2) as (a2 & E2 & I2).
        exists (a2 ++ a1). split; [rewrite E2, E1, app_assoc; reflexivity|].
        intros h Hin. apply in_app_or in Hin as [Hin|Hin]; auto. }
    assert (His : forall W (body : nat -> list answer -> st -> res),
               (forall i o x x' evs o', body i o x = Some (x', evs, o') -> exists added, hyp x' = added ++ hyp x /\ forall h, In h added -> In h W) ->
               forall n i o x x' evs o', iter_slots i n body o x = Some (x', evs, o') -> exists added, hyp x' = added ++ hyp x /\ forall h, In h added -> In h W).
    { intros W body Hb n. induction n as [|n IH]; intros i o x x' evs o' H; simpl in H.
      - unfold ret in H. injection H as <- <- <-. exists []. split; [reflexivity|intros h []].
      - apply bind_some in H as (x1 & e1 & o1 & e2 & H1 & H2 & ->).
        destruct (Hb _ _ _ _ _ _ H1) as (a1 & E1 & I1). destruct (IH _ _ _ _ _ _ H2) as (a2 & E2 & I2).
        exists (a2 ++ a1). split; [rewrite E2, E1, app_assoc; reflexivity|].
        intros h Hin. apply in_app_or in Hin as [Hin|Hin]; auto. }
    induction s; intros cur o x x' evs o' H;
      try (destruct (exec_atom_hyp _ _ _ _ _ _ _ H) as [E|(h0 & Es & E)];
           [exists []; split; [exact E|intros h1 []] | try discriminate Es]); simpl in H.
    - (* If *)
      destruct (evalc c cur o x) as [[[|] o1]|]; [| |discriminate].
      + destruct (IHs1 _ _ _ _ _ _ H) as (a & E & I). exists a. split; [exact E|]. intros h Hin. simpl. apply in_or_app. left. auto.
      + destruct (IHs2 _ _ _ _ _ _ H) as (a & E & I). exists a. split; [exact E|]. intros h Hin. simpl. apply in_or_app. right. auto.
    - (* Seq *)
      apply bind_some in H as (x1 & e1 & o1 & e2 & H1 & H2 & ->).
      destruct (IHs1 _ _ _ _ _ _ H1) as (a1 & E1 & I1). destruct (IHs2 _ _ _ _ _ _ H2) as (a2 & E2 & I2).
      exists (a2 ++ a1). split; [rewrite E2, E1, app_assoc; reflexivity|].
      intros h Hin. simpl. apply in_or_app. apply in_app_or in Hin as [Hin|Hin]; auto.
    - (* ForSlots *) simpl. eapply His; [|exact H]. intros i o0 x0 x0' e0 o0' Hb. eapply IHs; exact Hb.
    - (* RepeatAny *) destruct o as [|[?|?|n|?] o1]; try discriminate. simpl. eapply Hit; [|exact H]. intros o0 x0 x0' e0 o0' Hb. eapply IHs; exact Hb.
    - (* Repeat *) simpl. eapply Hit; [|exact H]. intros o0 x0 x0' e0 o0' Hb. eapply IHs; exact Hb.
    - (* Onlooker *) destruct o as [|[?|?|n|?] o1]; try discriminate. simpl. eapply Hit; [|exact H].
      intros o0 x0 x0' e0 o0' Hb. eapply His; [|exact Hb]. intros i o2 x2 x2' e2 o2' Hb2. eapply IHs; exact Hb2.
    - (* SetHyper *) injection Es as <-. exists [h]. split; [exact E|]. intros h1 [<-|[]]. left. reflexivity.
    - (* At *) simpl. eapply IHs; exact H.
  Qed.
End Counts.
