(* C20 domain: which agents carry a truthful fitness, and which fitness writes are greedy. *)
From Coq Require Import String ZArith List Bool Arith Lia Permutation.
From OV Require Import Base.FloatKey Model.Clip Model.IR Model.IRSem Analysis.AbsInt Analysis.SemLemmas Analysis.Feasible.
Import ListNotations.
Close Scope Z_scope.
Open Scope nat_scope.

(* ---------------------------------------------------------------- abstract values *)
Record av := { feas : bool; cons : bool; cl : bool; sent : bool; mono : bool }.

Definition avtop : av := {| feas := true; cons := true; cl := true; sent := true; mono := true |}.
Definition avbot : av := {| feas := false; cons := false; cl := false; sent := false; mono := false |}.
Definition meet (v w : av) : av :=
  {| feas := feas v && feas w; cons := cons v && cons w; cl := cl v && cl w; sent := sent v && sent w; mono := mono v && mono w |}.
Definition av_leb (v w : av) : bool :=
  implb (feas w) (feas v) && implb (cons w) (cons v) && implb (cl w) (cl v) && implb (sent w) (sent v) && implb (mono w) (mono v).

Inductive gmode := GNone | GSlot | GRank.

Definition fact2 := option (ref * ref).
Definition fact1 := option ref.
Definition f2_eqb (p q : ref * ref) : bool := ref_eqb (fst p) (fst q) && ref_eqb (snd p) (snd q).
Definition f2_is (x : fact2) (p : ref * ref) : bool := match x with Some q => f2_eqb q p | None => false end.
Definition f1_is (x : fact1) (p : ref) : bool := match x with Some q => ref_eqb q p | None => false end.
Definition f2_leb (x y : fact2) : bool := match y with None => true | Some q => f2_is x q end.
Definition f1_leb (x y : fact1) : bool := match y with None => true | Some q => f1_is x q end.
Definition f2_join (x y : fact2) : fact2 := match y with Some q => if f2_is x q then y else None | None => None end.
Definition f1_join (x y : fact1) : fact1 := match y with Some q => if f1_is x q then y else None | None => None end.

Record ta := {
  bot : bool;                     (* unreachable *)
  lo : av; cu : av; hi : av;      (* slots before the loop slot, the loop slot, slots after it (all slots outside ForSlots) *)
  be : av; tr_ : av;
  sa : av; sc : av;               (* shadows other than the loop slot's, the loop slot's shadow *)
  pf : fact2;                     (* (d,s): d's position equals s's position *)
  fl : fact2;                     (* (a,b): a.fit < b.fit *)
  tl : fact1;                     (* r: tmp < r.fit *)
  tq : fact1;                     (* r: tmp = f(r.position) *)
  ff : fact2;                     (* (d,s): d.fit equals s.fit *)
  srt : bool;                     (* the population is sorted by fitness *)
  rk : bool;                      (* rank-wise: sorted fitness vector is below the one of the last dump *)
  nd : bool                       (* no record has been written yet *)
}.

Definition mk bot lo cu hi be tr_ sa sc pf fl tl tq ff srt rk nd : ta :=
  {| bot := bot; lo := lo; cu := cu; hi := hi; be := be; tr_ := tr_; sa := sa; sc := sc; pf := pf; fl := fl; tl := tl; tq := tq; ff := ff; srt := srt; rk := rk; nd := nd |}.

(* forget all relational facts *)
Definition nf (a : ta) : ta := mk (bot a) (lo a) (cu a) (hi a) (be a) (tr_ a) (sa a) (sc a) None None None None None (srt a) (rk a) (nd a).
Definition set_pop (a : ta) (l c h : av) : ta := mk (bot a) l c h (be a) (tr_ a) (sa a) (sc a) (pf a) (fl a) (tl a) (tq a) (ff a) (srt a) (rk a) (nd a).
Definition set_srk (a : ta) (s r : bool) : ta := mk (bot a) (lo a) (cu a) (hi a) (be a) (tr_ a) (sa a) (sc a) (pf a) (fl a) (tl a) (tq a) (ff a) s r (nd a).
Definition set_bot (a : ta) : ta := mk true (lo a) (cu a) (hi a) (be a) (tr_ a) (sa a) (sc a) (pf a) (fl a) (tl a) (tq a) (ff a) (srt a) (rk a) (nd a).

Definition allpop (a : ta) : av := meet (lo a) (meet (cu a) (hi a)).

Definition rd (r : ref) (a : ta) : av :=
  match r with
  | Cur => cu a
  | Slot _ | Last => allpop a
  | Best => be a
  | Tr => tr_ a
  | Sh => sc a
  end.

Definition wr (r : ref) (v : av) (a : ta) : ta :=
  match r with
  | Cur => mk (bot a) (lo a) v (hi a) (be a) (tr_ a) (sa a) (sc a) (pf a) (fl a) (tl a) (tq a) (ff a) (srt a) (rk a) (nd a)
  | Slot _ | Last => mk (bot a) (meet (lo a) v) (meet (cu a) v) (meet (hi a) v) (be a) (tr_ a) (sa a) (sc a) (pf a) (fl a) (tl a) (tq a) (ff a) (srt a) (rk a) (nd a)
  | Best => mk (bot a) (lo a) (cu a) (hi a) v (tr_ a) (sa a) (sc a) (pf a) (fl a) (tl a) (tq a) (ff a) (srt a) (rk a) (nd a)
  | Tr => mk (bot a) (lo a) (cu a) (hi a) (be a) v (sa a) (sc a) (pf a) (fl a) (tl a) (tq a) (ff a) (srt a) (rk a) (nd a)
  | Sh => mk (bot a) (lo a) (cu a) (hi a) (be a) (tr_ a) (sa a) v (pf a) (fl a) (tl a) (tq a) (ff a) (srt a) (rk a) (nd a)
  end.

(* a write of the position only: the fitness-related flags of the old value survive *)
Definition posv (fe co : bool) (old : av) : av := {| feas := fe; cons := co; cl := cl old; sent := sent old; mono := mono old |}.
(* a write of the fitness only *)
Definition fitv (old : av) (co se mo : bool) : av := {| feas := feas old; cons := co; cl := false; sent := se; mono := mo |}.

Definition ta_leb (a b : ta) : bool :=
  bot a || (negb (bot b) &&
   (av_leb (lo a) (lo b) && av_leb (cu a) (cu b) && av_leb (hi a) (hi b) && av_leb (be a) (be b) && av_leb (tr_ a) (tr_ b)
    && av_leb (sa a) (sa b) && av_leb (sc a) (sc b)
    && f2_leb (pf a) (pf b) && f2_leb (fl a) (fl b) && f1_leb (tl a) (tl b) && f1_leb (tq a) (tq b) && f2_leb (ff a) (ff b)
    && implb (srt b) (srt a) && implb (rk b) (rk a) && implb (nd b) (nd a))).

Definition ta_join (a b : ta) : ta :=
  if bot a then b else if bot b then a else
  mk false (meet (lo a) (lo b)) (meet (cu a) (cu b)) (meet (hi a) (hi b)) (meet (be a) (be b)) (meet (tr_ a) (tr_ b))
     (meet (sa a) (sa b)) (meet (sc a) (sc b))
     (f2_join (pf a) (pf b)) (f2_join (fl a) (fl b)) (f1_join (tl a) (tl b)) (f1_join (tq a) (tq b)) (f2_join (ff a) (ff b))
     (srt a && srt b) (rk a && rk b) (nd a && nd b).

Definition c20 (l : nat) (why : string) : list alarm := [(l, ("C20: " ++ why)%string)].

Section Domain.
  Variable hm : bool.             (* hook mode: false = the hook is an observer, true = the hook may move every agent's position *)
  Variable useloc : bool.         (* particle-swarm family: the record is truthful w.r.t. the stored local best *)
  Variable gm : gmode.            (* which monotonicity is demanded at a dump *)


  Definition dump_alarms (l : nat) (a : ta) : list alarm :=
    let p := allpop a in
    (if (if useloc then cl p else cons p) then [] else
       c20 l (if useloc then "a record is written while some agent's fitness is not known to be the objective at its local best"
              else "a record is written while some agent's fitness is not known to be the objective at its position"))
    ++ match gm with
       | GNone => []
       | GSlot => if mono p then [] else c20 l "greedy: some agent's fitness is not known to be at most its fitness at the previous record"
       | GRank => if rk a then [] else c20 l "greedy (rank-wise): the sorted fitness vector is not known to be dominated by the previous record's"
       end.

  Definition th_atom0 (l : nat) (s : stmt) (a : ta) : ta * list alarm :=
    match s with
    | Skip | Draw | SetHyper _ | BestTreeCopy | TreeCopy _ _ | TreeSet _ _ | TreeCross _ _ => (a, [])
    | Hook =>
        (* an observer changes nothing; a position-moving hook is a Havoc of every slot that keeps the fitnesses *)
        if hm then (set_pop (nf a) (posv false false (lo a)) (posv false false (cu a)) (posv false false (hi a)), []) else (a, [])
    | Havoc _ r | PosFromTree r => (wr r (posv false false (rd r a)) (nf a), [])
    | Clip r => if feas (rd r a) then (a, []) else (wr r (posv true false (rd r a)) (nf a), [])
    | ClipAll =>
        let g v := if feas v then v else posv true false v in
        (set_pop (nf a) (g (lo a)) (g (cu a)) (g (hi a)), [])
    | Eval r =>
        if cons (rd r a) then (a, [])
        else (set_srk (wr r (fitv (rd r a) true false false) (nf a)) false (rk a && negb (slotlike r)), [])
    | EvalTmp r => (mk (bot a) (lo a) (cu a) (hi a) (be a) (tr_ a) (sa a) (sc a) None None None (Some r) None (srt a) (rk a) (nd a), [])
    | SetFitTmp r =>
        (set_srk (wr r (fitv (rd r a) (f1_is (tq a) r) false (mono (rd r a) && f1_is (tl a) r)) (nf a))
                 false (rk a && negb (slotlike r)), [])
    | CopyPos d s0 =>
        let a1 := wr d (posv (feas (rd s0 a)) (f2_is (ff a) (d, s0) && cons (rd s0 a)) (rd d a)) (nf a) in
        (mk (bot a1) (lo a1) (cu a1) (hi a1) (be a1) (tr_ a1) (sa a1) (sc a1) (Some (d, s0)) (fl a) None None None (srt a1) (rk a1) (nd a1), [])
    | CopyFit d s0 =>
        let a1 := set_srk (wr d (fitv (rd d a) (f2_is (pf a) (d, s0) && cons (rd s0 a)) (sent (rd s0 a))
                                      (mono (rd d a) && f2_is (fl a) (s0, d))) (nf a))
                          false (rk a && negb (slotlike d)) in
        (mk (bot a1) (lo a1) (cu a1) (hi a1) (be a1) (tr_ a1) (sa a1) (sc a1) None None None None (Some (d, s0)) (srt a1) (rk a1) (nd a1), [])
    | LocFromPos =>
        let c := cu a in
        (set_pop (nf a) (lo a) {| feas := feas c; cons := cons c; cl := cons c; sent := sent c; mono := mono c |} (hi a), [])
    | BestPosFromLoc => (wr Best {| feas := false; cons := false; cl := false; sent := sent (be a); mono := false |} (nf a), [])
    | SwapPos p q =>
        let a1 := wr p (posv false false (rd p a)) (nf a) in
        (wr q (posv false false (rd q a1)) a1, [])
    | SwapFit p q =>
        let a1 := wr p (fitv (rd p a) false false false) (nf a) in
        (set_srk (wr q (fitv (rd q a1) false false false) a1) false (rk a && negb (slotlike p) && negb (slotlike q)), [])
    | NewTrial s0 => (wr Tr (rd s0 a) (nf a), [])
    | ShadowAll => let p := allpop a in
        (mk (bot a) (lo a) (cu a) (hi a) (be a) (tr_ a) p p None None None None None (srt a) (rk a) (nd a), [])
    | Store d s0 =>
        let v := rd s0 a in
        let greedy := f2_is (fl a) (s0, d) in
        (set_srk (wr d {| feas := feas v; cons := cons v; cl := false; sent := sent v; mono := mono (rd d a) && greedy |} (nf a))
                 false (rk a && srt a && greedy && match d with Last => true | _ => false end), [])
    | ChooseIdx _ => (nf a, [])
    | SortByFit =>
        let p := allpop a in
        let v := {| feas := feas p; cons := cons p; cl := false; sent := sent p; mono := false |} in
        (set_srk (set_pop (nf a) v v v) true (rk a), [])
    | Dump =>
        let t v := {| feas := feas v; cons := cons v; cl := cl v; sent := sent v; mono := true |} in
        (let a1 := set_pop (nf a) (t (lo a)) (t (cu a)) (t (hi a)) in
         mk (bot a1) (lo a1) (cu a1) (hi a1) (be a1) (tr_ a1) (sa a1) (sc a1) None None None None None (srt a1) true false, dump_alarms l a)
    | _ => (a, c20 l "not an atomic statement")
    end.

  (* before the first record every "not above the previous record" claim holds vacuously *)
  Definition vac (a : ta) : ta :=
    let t v := {| feas := feas v; cons := cons v; cl := cl v; sent := sent v; mono := true |} in
    mk (bot a) (t (lo a)) (t (cu a)) (t (hi a)) (be a) (tr_ a) (sa a) (sc a) (pf a) (fl a) (tl a) (tq a) (ff a) (srt a) true (nd a).

  Definition th_atom (l : nat) (s : stmt) (a : ta) : ta * list alarm :=
    if bot a then (a, []) else
    let (a', al) := th_atom0 l s a in (if nd a' then vac a' else a', al).

  Definition t_assume (c : cond) (b : bool) (a : ta) : ta :=
    match c, b with
    | FitLt p q, true => mk (bot a) (lo a) (cu a) (hi a) (be a) (tr_ a) (sa a) (sc a) (pf a) (Some (p, q)) (tl a) (tq a) (ff a) (srt a) (rk a) (nd a)
    | TmpLt r, true => mk (bot a) (lo a) (cu a) (hi a) (be a) (tr_ a) (sa a) (sc a) (pf a) (fl a) (Some r) (tq a) (ff a) (srt a) (rk a) (nd a)
    | TmpLt r, false => if f1_is (tq a) r && sent (rd r a) then set_bot a else a
    | _, _ => a
    end.

  (* generic (weak) binding of the loop slot: used for Onlooker *)
  Definition t_enter (a : ta) : ta := mk (bot a) (hi a) (hi a) (hi a) (be a) (tr_ a) (sa a) (sa a) None None None None None (srt a) (rk a) (nd a).
  Definition t_exit (a : ta) : ta :=
    let p := allpop a in let q := meet (sa a) (sc a) in
    mk (bot a) p p p (be a) (tr_ a) q q None None None None None (srt a) (rk a) (nd a).

  Definition no_special (l : nat) (incur : bool) (s : stmt) (a : ta) : option (ta * list alarm) := None.
  Definition th_absint0 := absint ta ta_leb ta_join th_atom t_assume t_enter t_exit no_special.

  (* the strong update for "for agent in agents": slots below the loop slot are done, the others are still to do *)
  Definition enter3 (j : ta) : ta := mk (bot j) (lo j) (hi j) (hi j) (be j) (tr_ j) (sa j) (sa j) None None None None None (srt j) (rk j) (nd j).
  Definition step3 (j : ta) : ta :=
    mk (bot j) (meet (lo j) (cu j)) (hi j) (hi j) (be j) (tr_ j) (meet (sa j) (sc j)) (meet (sa j) (sc j)) None None None None None (srt j) (rk j) (nd j).
  Definition fin3 (j : ta) : ta := mk (bot j) (lo j) (lo j) (lo j) (be j) (tr_ j) (sa j) (sa j) None None None None None (srt j) (rk j) (nd j).
  Definition start3 (a : ta) : ta := mk (bot a) avtop (hi a) (hi a) (be a) (tr_ a) (sa a) (sa a) None None None None None (srt a) (rk a) (nd a).

  Definition th_special (l : nat) (incur : bool) (s : stmt) (a : ta) : option (ta * list alarm) :=
    match s with
    | ForSlots b =>
        if incur then None else
        if bot a then Some (a, []) else
        Some (let (j, al) := loop ta ta_leb ta_join l
                               (fun j => let (j', al) := th_absint0 l true b (enter3 j) in (step3 j', al)) (start3 a) in
              (fin3 j, al))
    | _ => None
    end.

  Definition th_absint := absint ta ta_leb ta_join th_atom t_assume t_enter t_exit th_special.

  Definition t_init : ta :=
    let p := {| feas := true; cons := false; cl := false; sent := useloc; mono := true |} in
    mk false p p p avbot avbot avbot avbot None None None None None false true true.

  Definition th_check (p : stmt) : bool :=
    match th_absint 0 false p t_init with (_, []) => true | _ => false end.
  Definition th_alarms (p : stmt) : list alarm := snd (th_absint 0 false p t_init).
End Domain.

(* the analyses for an observer hook (the names used by the drivers and by Analysis/TruthfulHist.v) *)
Definition t_absint := th_absint false.
Definition t_check := th_check false.
Definition t_alarms := th_alarms false.

(* the particle-swarm family: the sweep is PSO._evaluate *)
Definition pso_body : stmt :=
  Seq (EvalTmp Cur) (Seq (If (TmpLt Cur) (Seq (SetFitTmp Cur) LocFromPos) Skip)
                         (If (FitLt Cur Best) (Seq BestPosFromLoc (CopyFit Best Cur)) Skip)).

Fixpoint has_sub (t s : stmt) : bool :=
  if stmt_eqb s t then true else
  match s with
  | Seq s1 s2 | If _ s1 s2 => has_sub t s1 || has_sub t s2
  | ForSlots b | RepeatAny b | Repeat b | Onlooker b | At _ b => has_sub t b
  | _ => false
  end.

(* the particle-swarm family keeps a local best position per agent; [is_pso] recognises it by the write to it, so a
   rewritten sweep is still judged against the local best *)
Definition is_pso (p : stmt) : bool := has_sub LocFromPos (strip p).
Definition has_pso_sweep (p : stmt) : bool := has_sub (ForSlots pso_body) (strip p).
Definition sorts (p : stmt) : bool := has_sub SortByFit (strip p).

Definition c20_check (p : stmt) : bool := t_check (is_pso p) GNone p.
Definition c20_greedy_check (p : stmt) : bool := t_check (is_pso p) (if sorts p then GRank else GSlot) p.
(* clause 1 for hooks that move positions *)
Definition c20h_check (p : stmt) : bool := th_check true (is_pso p) GNone p.

(* ================================================================ lattice facts *)
Lemma f2_eqb_eq p q : f2_eqb p q = true <-> p = q.
Proof.
  destruct p as [p1 p2], q as [q1 q2]. unfold f2_eqb; simpl. rewrite andb_true_iff, !ref_eqb_eq.
  split; [intros [-> ->]; reflexivity|intros H; injection H as -> ->; split; reflexivity].
Qed.
Lemma f2_is_eq x p : f2_is x p = true <-> x = Some p.
Proof.
  destruct x as [q|]; simpl; [rewrite f2_eqb_eq|]; split; intros H; try discriminate; try congruence.
Qed.
Lemma f1_is_eq x p : f1_is x p = true <-> x = Some p.
Proof.
  destruct x as [q|]; simpl; [rewrite ref_eqb_eq|]; split; intros H; try discriminate; try congruence.
Qed.
Lemma f2_leb_spec x y : f2_leb x y = true <-> (forall q, y = Some q -> x = Some q).
Proof.
  unfold f2_leb. destruct y as [q|].
  - rewrite f2_is_eq. split; [intros -> q' H; congruence|intros H; apply H; reflexivity].
  - split; [intros _ q H; discriminate|reflexivity].
Qed.
Lemma f1_leb_spec x y : f1_leb x y = true <-> (forall q, y = Some q -> x = Some q).
Proof.
  unfold f1_leb. destruct y as [q|].
  - rewrite f1_is_eq. split; [intros -> q' H; congruence|intros H; apply H; reflexivity].
  - split; [intros _ q H; discriminate|reflexivity].
Qed.
Lemma f2_join_l x y : f2_leb x (f2_join x y) = true.
Proof. apply f2_leb_spec. unfold f2_join. intros q. destruct y as [q'|]; [|discriminate]. destruct (f2_is x q') eqn:E; [|discriminate]. apply f2_is_eq in E. congruence. Qed.
Lemma f2_join_r x y : f2_leb y (f2_join x y) = true.
Proof. apply f2_leb_spec. unfold f2_join. intros q. destruct y as [q'|]; [|discriminate]. destruct (f2_is x q'); [auto|discriminate]. Qed.
Lemma f1_join_l x y : f1_leb x (f1_join x y) = true.
Proof. apply f1_leb_spec. unfold f1_join. intros q. destruct y as [q'|]; [|discriminate]. destruct (f1_is x q') eqn:E; [|discriminate]. apply f1_is_eq in E. congruence. Qed.
Lemma f1_join_r x y : f1_leb y (f1_join x y) = true.
Proof. apply f1_leb_spec. unfold f1_join. intros q. destruct y as [q'|]; [|discriminate]. destruct (f1_is x q'); [auto|discriminate]. Qed.
Lemma f2_leb_refl x : f2_leb x x = true. Proof. apply f2_leb_spec; auto. Qed.
Lemma f1_leb_refl x : f1_leb x x = true. Proof. apply f1_leb_spec; auto. Qed.
Lemma f2_leb_trans x y z : f2_leb x y = true -> f2_leb y z = true -> f2_leb x z = true.
Proof. rewrite !f2_leb_spec. auto. Qed.
Lemma f1_leb_trans x y z : f1_leb x y = true -> f1_leb y z = true -> f1_leb x z = true.
Proof. rewrite !f1_leb_spec. auto. Qed.

Lemma av_leb_spec v w : av_leb v w = true <->
  (feas w = true -> feas v = true) /\ (cons w = true -> cons v = true) /\ (cl w = true -> cl v = true) /\
  (sent w = true -> sent v = true) /\ (mono w = true -> mono v = true).
Proof.
  assert (Hi : forall a b, implb a b = true <-> (a = true -> b = true)) by (intros [|] [|]; simpl; intuition congruence).
  unfold av_leb. rewrite !andb_true_iff, !Hi. tauto.
Qed.
Arguments av_leb : simpl never.
Arguments f2_leb : simpl never.
Arguments f1_leb : simpl never.
Arguments meet : simpl never.
Arguments f2_join : simpl never.
Arguments f1_join : simpl never.
Lemma av_leb_refl v : av_leb v v = true. Proof. apply av_leb_spec. tauto. Qed.
Lemma av_leb_trans u v w : av_leb u v = true -> av_leb v w = true -> av_leb u w = true.
Proof. rewrite !av_leb_spec. tauto. Qed.
Lemma meet_l v w : av_leb v (meet v w) = true.
Proof. apply av_leb_spec. unfold meet; simpl. rewrite !andb_true_iff. tauto. Qed.
Lemma meet_r v w : av_leb w (meet v w) = true.
Proof. apply av_leb_spec. unfold meet; simpl. rewrite !andb_true_iff. tauto. Qed.
Lemma meet_glb u v w : av_leb u v = true -> av_leb u w = true -> av_leb u (meet v w) = true.
Proof. rewrite !av_leb_spec. unfold meet; simpl. rewrite !andb_true_iff. tauto. Qed.
Lemma av_leb_top v : av_leb avtop v = true. Proof. apply av_leb_spec. simpl. tauto. Qed.

Lemma implb_refl b : implb b b = true. Proof. destruct b; reflexivity. Qed.
Lemma implb_trans a b c : implb c b = true -> implb b a = true -> implb c a = true.
Proof. destruct a, b, c; simpl; auto. Qed.

Lemma ta_leb_refl a : ta_leb a a = true.
Proof.
  unfold ta_leb. destruct (bot a); cbn [orb negb andb]; [reflexivity|].
  rewrite !av_leb_refl, !f2_leb_refl, !f1_leb_refl, !implb_refl. reflexivity.
Qed.

Lemma ta_leb_trans a b c : ta_leb a b = true -> ta_leb b c = true -> ta_leb a c = true.
Proof.
  unfold ta_leb. destruct (bot a); cbn [orb negb andb]; [reflexivity|].
  destruct (bot b); cbn [orb negb andb]; [discriminate|]. destruct (bot c); cbn [orb negb andb]; [intros _ H; discriminate|].
  rewrite !andb_true_iff.
  intros [[[[[[[[[[[[[[H1 H2] H3] H4] H5] H6] H7] H8] H9] H10] H11] H15] H12] H13] H14]
         [[[[[[[[[[[[[[K1 K2] K3] K4] K5] K6] K7] K8] K9] K10] K11] K15] K12] K13] K14].
  repeat split; try (eapply av_leb_trans; eassumption); try (eapply f2_leb_trans; eassumption);
    try (eapply f1_leb_trans; eassumption); eapply implb_trans; eassumption.
Qed.

Lemma implb_and_l a b : implb (a && b) a = true. Proof. destruct a, b; reflexivity. Qed.
Lemma implb_and_r a b : implb (a && b) b = true. Proof. destruct a, b; reflexivity. Qed.

Lemma ta_join_l a b : ta_leb a (ta_join a b) = true.
Proof.
  unfold ta_join. destruct (bot a) eqn:Ea; [unfold ta_leb; rewrite Ea; reflexivity|].
  destruct (bot b) eqn:Eb; [apply ta_leb_refl|].
  unfold ta_leb; rewrite Ea; cbn [orb negb andb bot lo cu hi be tr_ sa sc pf fl tl tq ff srt rk nd mk].
  rewrite !meet_l, !f2_join_l, !f1_join_l, !implb_and_l. reflexivity.
Qed.

Lemma ta_join_r a b : ta_leb b (ta_join a b) = true.
Proof.
  unfold ta_join. destruct (bot a) eqn:Ea; [apply ta_leb_refl|].
  destruct (bot b) eqn:Eb; [unfold ta_leb; rewrite Eb; reflexivity|].
  unfold ta_leb; rewrite Eb; cbn [orb negb andb bot lo cu hi be tr_ sa sc pf fl tl tq ff srt rk nd mk].
  rewrite !meet_r, !f2_join_r, !f1_join_r, !implb_and_r. reflexivity.
Qed.

(* ================================================================ histories *)
Fixpoint dumps (h : list event) : list st :=
  match h with [] => [] | EvDump y :: t => y :: dumps t | _ :: t => dumps t end.

Fixpoint lasto {T} (l : list T) : option T :=
  match l with [] => None | a :: t => match lasto t with Some b => Some b | None => Some a end end.

Lemma dumps_app h1 h2 : dumps (h1 ++ h2) = dumps h1 ++ dumps h2.
Proof. induction h1 as [|e h1 IH]; simpl; [reflexivity|]. destruct e; simpl; rewrite ?IH; reflexivity. Qed.

Lemma lasto_snoc {T} (l : list T) a : lasto (l ++ [a]) = Some a.
Proof. induction l as [|b l IH]; simpl; [reflexivity|]. rewrite IH. reflexivity. Qed.

Lemma lasto_in {T} (l : list T) a : lasto l = Some a -> In a l.
Proof.
  induction l as [|b l IH]; simpl; [discriminate|].
  destruct (lasto l) as [c|]; intros H; injection H as <-; [right; apply IH; reflexivity|left; reflexivity].
Qed.

Lemma dumps_in h y : In y (dumps h) <-> In (EvDump y) h.
Proof.
  induction h as [|e h IH]; simpl; [tauto|].
  destruct e; simpl; rewrite IH; split; intros H; try (right; exact H); try (destruct H as [H|H]; [discriminate|exact H]).
  - destruct H as [->|H]; [left; reflexivity|right; exact H].
  - destruct H as [H|H]; [injection H as ->; left; reflexivity|right; exact H].
Qed.

Section Adj.
  Variable T : Type.
  Variable R : T -> T -> Prop.
  Fixpoint adj (l : list T) : Prop :=
    match l with y1 :: t => match t with y2 :: _ => R y1 y2 /\ adj t | [] => True end | [] => True end.

  Lemma adj_snoc l y : adj l -> (forall y0, lasto l = Some y0 -> R y0 y) -> adj (l ++ [y]).
  Proof.
    induction l as [|a l IH]; simpl; [auto|].
    destruct l as [|b l]; simpl in *.
    - intros _ H. split; [apply H; reflexivity|exact I].
    - intros [H1 H2] H. split; [exact H1|]. apply IH; [exact H2|].
      intros y0 Hy. apply H. destruct (lasto l); exact Hy.
  Qed.

  (* the explicit reading: two dumps with only non-dump events in between *)
  Lemma adj_split l1 y1 y2 l2 : adj (l1 ++ y1 :: y2 :: l2) -> R y1 y2.
  Proof.
    induction l1 as [|a l1 IH]; simpl.
    - tauto.
    - destruct (l1 ++ y1 :: y2 :: l2) eqn:E; [destruct l1; discriminate|]. intros [_ H]. apply IH. exact H.
  Qed.
End Adj.

(* ================================================================ order statistics of fitness vectors *)
Open Scope Z_scope.
Fixpoint zins (a : Z) (l : list Z) : list Z :=
  match l with [] => [a] | b :: t => if a <=? b then a :: l else b :: zins a t end.
Definition isort (l : list Z) : list Z := fold_right zins [] l.
Fixpoint sortedk (l : list Z) : Prop :=
  match l with a :: t => match t with b :: _ => kle a b = true /\ sortedk t | [] => True end | [] => True end.
(* [rank_le l1 l2]: the k-th smallest fitness of l1 is at most the k-th smallest of l2, for every k *)
Definition rank_le (l1 l2 : list Z) : Prop := Forall2 Z.le (isort (map nk l1)) (isort (map nk l2)).
Close Scope Z_scope.

Definition fits (l : list agent) : list Z := map afit l.

(* ================================================================ more facts about reads and writes *)
Lemma upd_same {T} i (a : T) l : nth_error l i = Some a -> upd i a l = Some l.
Proof.
  revert i. induction l as [|b l IH]; intros [|i]; simpl; try discriminate.
  - intros H; injection H as ->; reflexivity.
  - intros H. rewrite (IH _ H). reflexivity.
Qed.

Lemma getr_with_next r cur x n : getr r cur (with_next x n) = getr r cur x.
Proof. destruct r; reflexivity. Qed.

Lemma setr_same r cur x ag x' : getr r cur x = Some ag -> setr r cur ag x = Some x' -> x' = x.
Proof.
  destruct x as [p b t s lc tm ix nx hy tv0 bt].
  destruct r; simpl; intros Hg Hs.
  - destruct cur as [i|]; [|discriminate]. rewrite (upd_same _ _ _ Hg) in Hs. injection Hs as <-. reflexivity.
  - destruct (nth_error ix v) as [i|]; [|discriminate]. rewrite (upd_same _ _ _ Hg) in Hs. injection Hs as <-. reflexivity.
  - destruct (length p) as [|n]; [discriminate|]. rewrite (upd_same _ _ _ Hg) in Hs. injection Hs as <-. reflexivity.
  - injection Hg as ->. injection Hs as <-. reflexivity.
  - injection Hg as ->. injection Hs as <-. reflexivity.
  - destruct cur as [i|]; [|discriminate]. rewrite (upd_same _ _ _ Hg) in Hs. injection Hs as <-. reflexivity.
Qed.

Lemma slot_of_with_pop r cur x l : length l = length (pop x) -> slot_of r cur (with_pop x l) = slot_of r cur x.
Proof. intros H. destruct r; simpl; try reflexivity. rewrite H. reflexivity. Qed.

(* after a write, a read gives the value it gave before, or the written value when it denotes the written cell *)
Lemma getr_setr r cur ag' x x' r2 ag2 :
  setr r cur ag' x = Some x' -> getr r2 cur x = Some ag2 ->
  getr r2 cur x' = Some ag2 \/ (getr r2 cur x' = Some ag' /\ getr r cur x = Some ag2).
Proof.
  intros Hs Hg. apply setr_written in Hs.
  destruct Hs as [-> -> | -> -> | i l -> -> Hu -> | i l Hsl Hi Hu ->].
  - destruct r2; simpl in *; try (left; exact Hg). right. split; [reflexivity|exact Hg].
  - destruct r2; simpl in *; try (left; exact Hg). right. split; [reflexivity|exact Hg].
  - destruct r2; simpl in *; try (left; exact Hg). right. split; [apply (upd_nth_same _ _ _ _ Hu)|exact Hg].
  - assert (Hlen : length l = length (pop x)) by (eapply upd_length; eassumption).
    assert (Hr : getr r cur x = match slot_of r cur x with Some k => nth_error (pop x) k | None => None end)
      by (apply getr_slot; exact Hsl).
    destruct (slotlike r2) eqn:Hsl2.
    + rewrite (getr_slot r2 cur _ Hsl2) in Hg. rewrite (getr_slot r2 cur _ Hsl2).
      rewrite (slot_of_with_pop r2 cur x l Hlen).
      destruct (slot_of r2 cur x) as [k|]; [|discriminate Hg]. simpl.
      destruct (Nat.eq_dec k i) as [->|Hne].
      * right. split; [apply (upd_nth_same _ _ _ _ Hu)|]. rewrite Hr, Hi. exact Hg.
      * left. rewrite (upd_nth_other _ _ _ _ _ Hu Hne). exact Hg.
    + left. destruct r2; simpl in *; try discriminate; exact Hg.
Qed.

Lemma getr_setr_same r cur ag' x x' : setr r cur ag' x = Some x' -> getr r cur x' = Some ag'.
Proof.
  intros Hs. apply setr_written in Hs.
  destruct Hs as [-> -> | -> -> | i l -> -> Hu -> | i l Hsl Hi Hu ->]; simpl; try reflexivity.
  - apply (upd_nth_same _ _ _ _ Hu).
  - rewrite (getr_slot r cur _ Hsl). rewrite (slot_of_with_pop r cur x l (upd_length _ _ _ _ Hu)), Hi.
    apply (upd_nth_same _ _ _ _ Hu).
Qed.

Lemma setr_getr r cur ag' x x' : setr r cur ag' x = Some x' -> exists ag, getr r cur x = Some ag.
Proof.
  intros Hs. apply setr_written in Hs.
  destruct Hs as [-> -> | -> -> | i l -> -> Hu -> | i l Hsl Hi Hu ->]; simpl; try (eexists; reflexivity).
  - apply (upd_old _ _ _ _ Hu).
  - rewrite (getr_slot r cur _ Hsl), Hi. apply (upd_old _ _ _ _ Hu).
Qed.

(* a write that keeps the fitness keeps the population's fitness vector *)
Lemma setr_fits r cur ag ag' x x' :
  getr r cur x = Some ag -> setr r cur ag' x = Some x' -> afit ag' = afit ag -> fits (pop x') = fits (pop x).
Proof.
  intros Hg Hs Hf. apply setr_written in Hs.
  destruct Hs as [-> -> | -> -> | i l -> -> Hu -> | i l Hsl Hi Hu ->]; simpl; try reflexivity.
  rewrite (getr_slot r cur _ Hsl), Hi in Hg. unfold fits. eapply upd_same_image; eassumption.
Qed.

Lemma setr_pop_nonslot r cur ag' x x' : slotlike r = false -> setr r cur ag' x = Some x' -> pop x' = pop x.
Proof.
  intros Hsl Hs. apply setr_written in Hs.
  destruct Hs as [-> -> | -> -> | i l -> -> Hu -> | i l Hsl' Hi Hu ->]; simpl; try reflexivity. congruence.
Qed.

Lemma setr_loc r cur ag' x x' : setr r cur ag' x = Some x' -> loc x' = loc x /\ tmp x' = tmp x /\ length (pop x') = length (pop x).
Proof.
  intros Hs. apply setr_written in Hs.
  destruct Hs as [-> -> | -> -> | i l -> -> Hu -> | i l Hsl' Hi Hu ->]; simpl; repeat split; try reflexivity.
  eapply upd_length; eassumption.
Qed.

Lemma Forall2_of_nth {T U} (P : T -> U -> Prop) l1 l2 :
  length l1 = length l2 ->
  (forall j a b, nth_error l1 j = Some a -> nth_error l2 j = Some b -> P a b) -> Forall2 P l1 l2.
Proof.
  revert l2. induction l1 as [|a l1 IH]; intros [|b l2] Hl H; simpl in Hl; try discriminate; constructor.
  - apply (H 0); reflexivity.
  - apply IH; [congruence|]. intros j a' b' H1 H2. apply (H (S j)); assumption.
Qed.

Lemma Forall_of_nth {T} (P : T -> Prop) l : (forall j a, nth_error l j = Some a -> P a) -> Forall P l.
Proof.
  intros H. apply Forall_forall. intros a Ha. apply In_nth_error in Ha as [j Hj]. eapply H; eassumption.
Qed.

(* ================================================================ sorting facts (rank-wise monotonicity of HS/IHS) *)
Lemma ins_fit_length a l : length (ins_fit a l) = S (length l).
Proof. induction l as [|b l IH]; simpl; [reflexivity|]. destruct (klt (afit a) (afit b)); simpl; [reflexivity|]. rewrite IH. reflexivity. Qed.
Lemma sort_fit_length l : length (sort_fit l) = length l.
Proof. induction l as [|a l IH]; [reflexivity|]. change (sort_fit (a :: l)) with (ins_fit a (sort_fit l)). rewrite ins_fit_length, IH. reflexivity. Qed.

Lemma ins_fit_perm a l : Permutation (ins_fit a l) (a :: l).
Proof.
  induction l as [|b l IH]; simpl; [apply Permutation_refl|].
  destruct (klt (afit a) (afit b)); [apply Permutation_refl|].
  eapply Permutation_trans; [apply perm_skip; exact IH|apply perm_swap].
Qed.
Lemma sort_fit_perm l : Permutation (sort_fit l) l.
Proof.
  induction l as [|a l IH]; simpl; [apply Permutation_refl|].
  eapply Permutation_trans; [apply ins_fit_perm|apply perm_skip; exact IH].
Qed.

Lemma ins_fit_sorted a l : sortedk (fits l) -> sortedk (fits (ins_fit a l)).
Proof.
  induction l as [|b l IH]; simpl; [auto|].
  intros Hs. destruct (klt (afit a) (afit b)) eqn:E; simpl.
  - split; [unfold klt, kle in *; lia|exact Hs].
  - apply klt_kle in E.
    destruct l as [|c l]; simpl in *.
    + split; [exact E|exact I].
    + destruct Hs as [Hbc Hs]. specialize (IH Hs).
      destruct (klt (afit a) (afit c)) eqn:E2; simpl in *.
      * split; [exact E|exact IH].
      * split; [exact Hbc|exact IH].
Qed.
Lemma sort_fit_sorted l : sortedk (fits (sort_fit l)).
Proof. induction l as [|a l IH]; simpl; [exact I|]. apply ins_fit_sorted. exact IH. Qed.

Open Scope Z_scope.
Lemma zins_comm a b l : zins a (zins b l) = zins b (zins a l).
Proof.
  induction l as [|c l IH]; simpl.
  - destruct (a <=? b) eqn:E1, (b <=? a) eqn:E2; try reflexivity; try lia.
    assert (a = b) by lia. subst. reflexivity.
  - destruct (b <=? c) eqn:E1, (a <=? c) eqn:E2; simpl; rewrite ?E1, ?E2.
    + destruct (a <=? b) eqn:E3, (b <=? a) eqn:E4; try reflexivity; try lia.
      assert (a = b) by lia. subst. reflexivity.
    + destruct (a <=? b) eqn:E3; [lia|]. reflexivity.
    + destruct (b <=? a) eqn:E3; [lia|]. reflexivity.
    + rewrite IH. reflexivity.
Qed.

Lemma isort_perm l l' : Permutation l l' -> isort l = isort l'.
Proof.
  intros H. induction H; simpl.
  - reflexivity.
  - rewrite IHPermutation. reflexivity.
  - apply zins_comm.
  - congruence.
Qed.

Fixpoint zsorted (l : list Z) : Prop :=
  match l with a :: t => match t with b :: _ => a <= b /\ zsorted t | [] => True end | [] => True end.

Lemma isort_sorted l : zsorted l -> isort l = l.
Proof.
  induction l as [|a l IH]; simpl; [reflexivity|].
  destruct l as [|b l].
  - reflexivity.
  - intros [Hab Hs]. change (isort (a :: b :: l)) with (zins a (isort (b :: l))). rewrite (IH Hs). simpl.
    destruct (a <=? b) eqn:E; [reflexivity|lia].
Qed.

Lemma sortedk_zsorted l : sortedk l -> zsorted (map nk l).
Proof.
  induction l as [|a l IH]; simpl; [auto|]. destruct l as [|b l]; simpl in *; [auto|].
  intros [H1 H2]. split; [unfold kle in H1; lia|apply IH; exact H2].
Qed.

Lemma zsorted_app_l l1 l2 : zsorted (l1 ++ l2) -> zsorted l1.
Proof.
  induction l1 as [|a l1 IH]; simpl; [auto|]. destruct l1 as [|b l1]; simpl in *; [auto|].
  intros [H1 H2]. split; [exact H1|apply IH; exact H2].
Qed.

Lemma Forall2_le_refl l : Forall2 Z.le l l.
Proof. induction l; constructor; [lia|assumption]. Qed.
Lemma Forall2_le_trans l1 l2 l3 : Forall2 Z.le l1 l2 -> Forall2 Z.le l2 l3 -> Forall2 Z.le l1 l3.
Proof.
  intros H. revert l3. induction H; intros l3 K; inversion K; subst; constructor; [lia|auto].
Qed.

Lemma shift_le c t M : zsorted (c :: t ++ [M]) -> Forall2 Z.le (c :: t) (t ++ [M]).
Proof.
  revert c. induction t as [|d t IH]; intros c; simpl.
  - intros [H _]. constructor; [exact H|constructor].
  - intros [H1 H2]. constructor; [exact H1|]. apply IH. exact H2.
Qed.

Lemma zins_dominated v S0 M : zsorted (S0 ++ [M]) -> v <= M -> Forall2 Z.le (zins v S0) (S0 ++ [M]).
Proof.
  induction S0 as [|c t IH]; simpl; intros Hs Hv.
  - constructor; [exact Hv|constructor].
  - destruct (v <=? c) eqn:E.
    + constructor; [lia|]. apply shift_le. exact Hs.
    + constructor; [lia|]. apply IH; [|exact Hv]. destruct (t ++ [M]) eqn:Et; [destruct t; discriminate|]. destruct Hs as [_ Hs]. exact Hs.
Qed.
Close Scope Z_scope.

Lemma rank_le_refl l : rank_le l l.
Proof. apply Forall2_le_refl. Qed.
Lemma rank_le_trans l1 l2 l3 : rank_le l1 l2 -> rank_le l2 l3 -> rank_le l1 l3.
Proof. apply Forall2_le_trans. Qed.
Lemma rank_le_perm l1 l1' l2 : Permutation l1 l1' -> rank_le l1 l2 -> rank_le l1' l2.
Proof. intros H. unfold rank_le. rewrite (isort_perm _ _ (Permutation_map nk H)). auto. Qed.

(* replacing the maximum of a sorted vector by a smaller value lowers every order statistic *)
Lemma sorted_dominance l0 m v : sortedk (l0 ++ [m]) -> klt v m = true -> rank_le (l0 ++ [v]) (l0 ++ [m]).
Proof.
  intros Hs Hv. unfold rank_le. apply sortedk_zsorted in Hs. rewrite !map_app in *. simpl in *.
  rewrite (isort_sorted _ Hs).
  rewrite (isort_perm (map nk l0 ++ [nk v]) (nk v :: map nk l0)) by (apply Permutation_sym, Permutation_cons_append).
  simpl. rewrite (isort_sorted _ (zsorted_app_l _ _ Hs)).
  apply zins_dominated; [exact Hs|]. unfold klt in Hv. lia.
Qed.

Lemma upd_last {T} (a : T) l l' : upd (length l - 1) a l = Some l' -> exists l0 b, l = l0 ++ [b] /\ l' = l0 ++ [a].
Proof.
  revert l'. induction l as [|c l IH]; intros l' H; [discriminate H|].
  destruct l as [|d l].
  - simpl in H. injection H as <-. exists [], c. split; reflexivity.
  - assert (E0 : length (c :: d :: l) - 1 = S (length (d :: l) - 1)) by (simpl; lia).
    rewrite E0 in H. clear E0. remember (d :: l) as t. simpl in H.
    destruct (upd (length t - 1) a t) as [t'|] eqn:E; [|discriminate H].
    injection H as <-. destruct (IH _ eq_refl) as (l0 & b & E1 & E2).
    exists (c :: l0), b. rewrite E1, E2. split; reflexivity.
Qed.

(* ================================================================ concretisation *)
Section Sound.
  Variables (lbs ubs : list Z) (f : contents -> Z) (n_iter : nat).
  Variable N : nat.               (* the population size *)
  Variable useloc : bool.
  Variable gm : gmode.
  Hypothesis box_ok : Forall2 (fun l h => kle l h = true) lbs ubs.

  (* a hook that only moves agents: it keeps every agent's fitness (hence the population size), the best agent, the trial, the
     shadows and the local positions, and leaves the positions well formed (NaN-free, the declared number of rows) *)
  Definition hook_moves_positions_only (h : st -> st) : Prop :=
    forall x, map afit (pop (h x)) = map afit (pop x) /\ best (h x) = best x /\ tr (h x) = tr x /\ sh (h x) = sh x /\
              loc (h x) = loc x /\
              ((forall a, In a (pop x) -> wf lbs (apos a)) -> forall a, In a (pop (h x)) -> wf lbs (apos a)).

  Variable hm : bool.             (* hook mode of the analysis *)
  Variable hk : st -> st.         (* the hook *)
  Hypothesis hook_ok : if hm then hook_moves_positions_only hk else forall x, hk x = x.

  Definition aok (v : av) (ag : agent) : Prop :=
    wf lbs (apos ag) /\ (feas v = true -> feasible lbs ubs (apos ag) = true) /\
    (cons v = true -> afit ag = f (apos ag)) /\ (sent v = true -> forall c, klt (f c) (afit ag) = true).

  (* the index-dependent part: consistency with the local best, and not above the previous record *)
  Definition sokx (v : av) (lc : list contents) (ld : option st) (j : nat) (ag : agent) : Prop :=
    (cl v = true -> exists c, nth_error lc j = Some c /\ afit ag = f c) /\
    (mono v = true -> forall y a0, ld = Some y -> nth_error (pop y) j = Some a0 -> kle (afit ag) (afit a0) = true).
  Definition sok (v : av) (lc : list contents) (ld : option st) (j : nat) (ag : agent) : Prop := aok v ag /\ sokx v lc ld j ag.

  Lemma aok_mono v w ag : av_leb v w = true -> aok v ag -> aok w ag.
  Proof.
    rewrite av_leb_spec. unfold aok. intros (H1 & H2 & H3 & H4 & H5) (K1 & K2 & K3 & K4).
    split; [exact K1|split; [intros Hc; apply K2, H1, Hc|split; [intros Hc; apply K3, H2, Hc|intros Hc; apply K4, H4, Hc]]].
  Qed.
  Lemma sokx_mono v w lc ld j ag : av_leb v w = true -> sokx v lc ld j ag -> sokx w lc ld j ag.
  Proof.
    rewrite av_leb_spec. unfold sokx. intros (H1 & H2 & H3 & H4 & H5) (K1 & K2).
    split; [intros Hc; apply K1, H3, Hc|intros Hm; apply K2, H5, Hm].
  Qed.
  Lemma sok_mono v w lc ld j ag : av_leb v w = true -> sok v lc ld j ag -> sok w lc ld j ag.
  Proof. intros H [K1 K2]. split; [eapply aok_mono|eapply sokx_mono]; eassumption. Qed.

  Definition cls (a : ta) (cur : option nat) (j : nat) : av :=
    match cur with None => hi a | Some i => if j <? i then lo a else if j =? i then cu a else hi a end.
  Definition shcls (a : ta) (cur : option nat) (j : nat) : av :=
    match cur with None => sa a | Some i => if j =? i then sc a else sa a end.

  Lemma allpop_cls a cur j : av_leb (cls a cur j) (allpop a) = true.
  Proof.
    unfold cls, allpop. destruct cur as [i|]; [destruct (j <? i); [|destruct (j =? i)]|].
    - apply meet_l.
    - eapply av_leb_trans; [apply meet_l|apply meet_r].
    - eapply av_leb_trans; [apply meet_r|apply meet_r].
    - eapply av_leb_trans; [apply meet_r|apply meet_r].
  Qed.

  Record TGp (a : ta) (cur : option nat) (x : st) (ld : option st) : Prop := {
    p_bot : bot a = false;
    p_len : length (pop x) = N;
    p_pop : forall j ag, nth_error (pop x) j = Some ag -> sok (cls a cur j) (loc x) ld j ag;
    p_be : aok (be a) (best x);
    p_tr : aok (tr_ a) (tr x);
    p_sh : forall j ag, nth_error (sh x) j = Some ag -> aok (shcls a cur j) ag;
    p_loc : forall c, In c (loc x) -> wf lbs c;
    p_ll : useloc = true -> length (loc x) = N
  }.

  Definition same_cls (a b : ta) : Prop :=
    bot a = bot b /\ lo a = lo b /\ cu a = cu b /\ hi a = hi b /\ be a = be b /\ tr_ a = tr_ b /\ sa a = sa b /\ sc a = sc b.

  Lemma TGp_ext a b cur x ld : same_cls a b -> TGp a cur x ld -> TGp b cur x ld.
  Proof.
    intros (E0 & E1 & E2 & E3 & E4 & E5 & E6 & E7) [P0 P1 P2 P3 P4 P5 P6 P7].
    constructor; try assumption; try congruence.
    - intros j ag Hn. specialize (P2 j ag Hn). unfold cls in *. rewrite <- E1, <- E2, <- E3. exact P2.
    - intros j ag Hn. specialize (P5 j ag Hn). unfold shcls in *. rewrite <- E6, <- E7. exact P5.
  Qed.

  Definition pf_ok cur x (p : ref * ref) : Prop :=
    exists a1 a2, getr (fst p) cur x = Some a1 /\ getr (snd p) cur x = Some a2 /\ apos a1 = apos a2.
  Definition fl_ok cur x (p : ref * ref) : Prop :=
    exists a1 a2, getr (fst p) cur x = Some a1 /\ getr (snd p) cur x = Some a2 /\ klt (afit a1) (afit a2) = true.
  Definition tl_ok cur x (r : ref) : Prop := exists a1, getr r cur x = Some a1 /\ klt (tmp x) (afit a1) = true.
  Definition tq_ok cur x (r : ref) : Prop := exists a1, getr r cur x = Some a1 /\ tmp x = f (apos a1).
  Definition ff_ok cur x (p : ref * ref) : Prop :=
    exists a1 a2, getr (fst p) cur x = Some a1 /\ getr (snd p) cur x = Some a2 /\ afit a1 = afit a2.

  Record TGf (a : ta) (cur : option nat) (x : st) : Prop := {
    f_pf : forall p, pf a = Some p -> pf_ok cur x p;
    f_fl : forall p, fl a = Some p -> fl_ok cur x p;
    f_tl : forall r, tl a = Some r -> tl_ok cur x r;
    f_tq : forall r, tq a = Some r -> tq_ok cur x r;
    f_ff : forall p, ff a = Some p -> ff_ok cur x p
  }.

  Lemma TGf_none a cur x : pf a = None -> fl a = None -> tl a = None -> tq a = None -> ff a = None -> TGf a cur x.
  Proof. intros H1 H2 H3 H4 H5. constructor; intros p Hp; congruence. Qed.

  Record TGr (a : ta) (x : st) (ld : option st) : Prop := {
    r_srt : srt a = true -> sortedk (fits (pop x));
    r_rk : rk a = true -> forall y, ld = Some y -> rank_le (fits (pop x)) (fits (pop y))
  }.

  Definition dump_ok (y : st) : Prop :=
    length (pop y) = N /\
    if useloc then Forall2 (fun a c => afit a = f c) (pop y) (loc y)
    else Forall (fun a => afit a = f (apos a)) (pop y).

  Definition Rel (y1 y2 : st) : Prop :=
    match gm with
    | GNone => True
    | GSlot => Forall2 (fun a1 a2 => kle (afit a2) (afit a1) = true) (pop y1) (pop y2)
    | GRank => rank_le (fits (pop y2)) (fits (pop y1))
    end.

  Record TGd (a : ta) (cur : option nat) (x : st) (D : list st) : Prop := {
    d_p : TGp a cur x (lasto D);
    d_f : TGf a cur x;
    d_r : TGr a x (lasto D);
    d_nd : nd a = true -> lasto D = None;
    d_ok : Forall dump_ok D;
    d_adj : adj st Rel D
  }.

  Definition TG (a : ta) (cur : option nat) (x : st) (h : list event) : Prop := TGd a cur x (dumps h).

  (* ---------------------------------------------------------------- monotonicity *)
  Lemma cls_mono a b cur j : bot a = false -> ta_leb a b = true -> av_leb (cls a cur j) (cls b cur j) = true.
  Proof.
    unfold ta_leb. intros -> H. cbn [orb negb andb] in H. rewrite !andb_true_iff in H.
    destruct H as [_ [[[[[[[[[[[[[[H1 H2] H3] H4] H5] H6] H7] H8] H9] H10] H11] H15] H12] H13] H14]].
    unfold cls. destruct cur as [i|]; [destruct (j <? i); [|destruct (j =? i)]|]; assumption.
  Qed.

  Lemma TG_mono a b cur x h : ta_leb a b = true -> TG a cur x h -> TG b cur x h.
  Proof.
    intros Hle [[P0 P1 P2 P3 P4 P5 P6 P7] [F1 F2 F3 F4 F5] [R1 R2] Hnd Hok Hadj].
    pose proof Hle as Hle'. unfold ta_leb in Hle'. rewrite P0 in Hle'. cbn [orb negb andb] in Hle'. rewrite !andb_true_iff in Hle'.
    destruct Hle' as [Hb [[[[[[[[[[[[[[H1 H2] H3] H4] H5] H6] H7] H8] H9] H10] H11] H15] H12] H13] H14]].
    apply negb_true_iff in Hb.
    rewrite f2_leb_spec in H8, H9, H15. rewrite f1_leb_spec in H10, H11.
    constructor; try assumption.
    - constructor; try assumption.
      + intros j ag Hn. eapply sok_mono; [apply (cls_mono a b cur j P0 Hle)|]. apply P2; assumption.
      + eapply aok_mono; eassumption.
      + eapply aok_mono; eassumption.
      + intros j ag Hn. specialize (P5 j ag Hn). unfold shcls in *.
        destruct cur as [i|]; [destruct (j =? i)|]; eapply aok_mono; eassumption.
    - constructor; intros p Hp; auto.
    - constructor.
      + intros Hs. apply R1. destruct (srt a); [reflexivity|]. rewrite Hs in H12. discriminate.
      + intros Hs. apply R2. destruct (rk a); [reflexivity|]. rewrite Hs in H13. discriminate.
    - intros Hn. apply Hnd. destruct (nd a); [reflexivity|]. rewrite Hn in H14. discriminate.
  Qed.

  (* ---------------------------------------------------------------- reading *)
  Lemma TGp_read_slot a cur x ld r j ag :
    TGp a cur x ld -> slotlike r = true -> slot_of r cur x = Some j -> nth_error (pop x) j = Some ag ->
    sok (rd r a) (loc x) ld j ag.
  Proof.
    intros HP Hsl Hi Hn. pose proof (p_pop _ _ _ _ HP j ag Hn) as H.
    destruct r; try discriminate; simpl in *.
    - subst cur. unfold cls in H. rewrite Nat.ltb_irrefl, Nat.eqb_refl in H. exact H.
    - eapply sok_mono; [apply allpop_cls|exact H].
    - eapply sok_mono; [apply allpop_cls|exact H].
  Qed.

  Lemma TGp_read a cur x ld r ag : TGp a cur x ld -> getr r cur x = Some ag -> aok (rd r a) ag.
  Proof.
    intros HP Hg. apply getr_readat in Hg.
    destruct Hg as [-> -> | -> -> | i -> -> Hn | i Hs Hi Hn]; simpl.
    - apply (p_be _ _ _ _ HP).
    - apply (p_tr _ _ _ _ HP).
    - pose proof (p_sh _ _ _ _ HP i ag Hn) as H. unfold shcls in H. rewrite Nat.eqb_refl in H. exact H.
    - eapply TGp_read_slot; eassumption.
  Qed.

  (* ---------------------------------------------------------------- writing *)
  Lemma cls_wr_weak r v a cur j : (match r with Slot _ | Last => True | _ => False end) ->
    cls (wr r v a) cur j = meet (cls a cur j) v.
  Proof.
    intros Hr. destruct r; try contradiction; unfold cls; simpl;
      (destruct cur as [i|]; [destruct (j <? i); [|destruct (j =? i)]|]; reflexivity).
  Qed.

  Lemma TGp_write a cur x ld r ag' x' v :
    TGp a cur x ld -> setr r cur ag' x = Some x' -> aok v ag' ->
    (forall j, slotlike r = true -> slot_of r cur x = Some j -> sokx v (loc x) ld j ag') ->
    TGp (wr r v a) cur x' ld.
  Proof.
    intros [P0 P1 P2 P3 P4 P5 P6 P7] Hs Hv Hx. apply setr_written in Hs.
    destruct Hs as [-> -> | -> -> | i l -> -> Hu -> | i l Hsl Hi Hu ->].
    - constructor; simpl; assumption.
    - constructor; simpl; assumption.
    - constructor; simpl; try assumption.
      intros j b Hn. unfold shcls; simpl.
      destruct (nth_error_upd_cases _ _ _ _ _ _ Hu Hn) as [[-> ->]|[Hne Hn']].
      + rewrite Nat.eqb_refl. exact Hv.
      + specialize (P5 j b Hn'). unfold shcls in P5. apply Nat.eqb_neq in Hne. rewrite Hne in *. exact P5.
    - specialize (Hx i Hsl Hi).
      destruct r; try discriminate; simpl in Hi.
      + (* Cur *) subst cur. constructor; simpl; try assumption.
        * rewrite (upd_length _ _ _ _ Hu). assumption.
        * intros j b Hn. unfold cls; simpl.
          destruct (nth_error_upd_cases _ _ _ _ _ _ Hu Hn) as [[-> ->]|[Hne Hn']].
          -- rewrite Nat.ltb_irrefl, Nat.eqb_refl. split; assumption.
          -- specialize (P2 j b Hn'). unfold cls in P2. apply Nat.eqb_neq in Hne. rewrite Hne in *. exact P2.
      + constructor; try exact P0; try exact P3; try exact P4; try exact P5; try exact P6; try exact P7.
        * simpl. rewrite (upd_length _ _ _ _ Hu). assumption.
        * intros j b Hn. simpl in Hn. rewrite cls_wr_weak by exact I. simpl.
          destruct (nth_error_upd_cases _ _ _ _ _ _ Hu Hn) as [[-> ->]|[Hne Hn']].
          -- eapply sok_mono; [apply meet_r|]. split; assumption.
          -- eapply sok_mono; [apply meet_l|]. apply P2; assumption.
      + constructor; try exact P0; try exact P3; try exact P4; try exact P5; try exact P6; try exact P7.
        * simpl. rewrite (upd_length _ _ _ _ Hu). assumption.
        * intros j b Hn. simpl in Hn. rewrite cls_wr_weak by exact I. simpl.
          destruct (nth_error_upd_cases _ _ _ _ _ _ Hu Hn) as [[-> ->]|[Hne Hn']].
          -- eapply sok_mono; [apply meet_r|]. split; assumption.
          -- eapply sok_mono; [apply meet_l|]. apply P2; assumption.
  Qed.

  Lemma TGp_next a cur x ld n : TGp a cur x ld -> TGp a cur (with_next x n) ld.
  Proof. intros [P0 P1 P2 P3 P4 P5 P6 P7]. constructor; simpl; assumption. Qed.

  Lemma nf_same a : same_cls a (nf a).
  Proof. repeat split. Qed.
  Lemma wr_nf_same r v a : same_cls (wr r v a) (wr r v (nf a)).
  Proof. destruct r; repeat split. Qed.
  Lemma set_srk_same a s k : same_cls a (set_srk a s k).
  Proof. repeat split. Qed.

  (* ---------------------------------------------------------------- assembling TGd *)
  Definition same_all (a b : ta) : Prop :=
    same_cls a b /\ pf a = pf b /\ fl a = fl b /\ tl a = tl b /\ tq a = tq b /\ ff a = ff b /\ srt a = srt b /\ rk a = rk b /\ nd a = nd b.

  Lemma TGd_ext a b cur x D : same_all a b -> TGd a cur x D -> TGd b cur x D.
  Proof.
    intros (Hc & E1 & E2 & E3 & E4 & E8 & E5 & E6 & E7) [HP [F1 F2 F3 F4 F5] [R1 R2] Hnd Hok Hadj].
    constructor; try assumption.
    - eapply TGp_ext; eassumption.
    - constructor; intros p Hp; [apply F1|apply F2|apply F3|apply F4|apply F5]; congruence.
    - constructor; intros H; [apply R1|apply R2]; congruence.
    - intros H. apply Hnd. congruence.
  Qed.

  Lemma wr_proj r v a : pf (wr r v a) = pf a /\ fl (wr r v a) = fl a /\ tl (wr r v a) = tl a /\ tq (wr r v a) = tq a /\ ff (wr r v a) = ff a /\
    srt (wr r v a) = srt a /\ rk (wr r v a) = rk a /\ nd (wr r v a) = nd a /\ bot (wr r v a) = bot a.
  Proof. destruct r; repeat split. Qed.

  Lemma aok_same v ag ag' : apos ag' = apos ag -> afit ag' = afit ag -> aok v ag -> aok v ag'.
  Proof. unfold aok. intros -> ->. auto. Qed.

  Lemma getr_slot_nth r cur x ag j : slotlike r = true -> getr r cur x = Some ag -> slot_of r cur x = Some j ->
    nth_error (pop x) j = Some ag.
  Proof. intros Hsl Hg Hi. rewrite (getr_slot r cur x Hsl), Hi in Hg. exact Hg. Qed.

  (* the general write *)
  Lemma TGd_write a cur x D r ag' x' v s' k' :
    TGd a cur x D -> setr r cur ag' x = Some x' -> aok v ag' ->
    (forall j, slotlike r = true -> slot_of r cur x = Some j -> sokx v (loc x) (lasto D) j ag') ->
    (s' = true -> sortedk (fits (pop x'))) ->
    (k' = true -> forall y, lasto D = Some y -> rank_le (fits (pop x')) (fits (pop y))) ->
    TGd (set_srk (wr r v (nf a)) s' k') cur x' D.
  Proof.
    intros [HP HF HR Hnd Hok Hadj] Hs Hv Hx Hs' Hk'.
    destruct (wr_proj r v (nf a)) as (E1 & E2 & E3 & E4 & E9 & E5 & E6 & E7 & E8).
    constructor; try assumption.
    - eapply TGp_ext; [|eapply TGp_write; [exact HP|exact Hs|exact Hv|]].
      + destruct r; repeat split.
      + exact Hx.
    - apply TGf_none; simpl; [rewrite E1|rewrite E2|rewrite E3|rewrite E4|rewrite E9]; reflexivity.
    - constructor; simpl; assumption.
    - simpl. rewrite E7. exact Hnd.
  Qed.

  (* a write that keeps the fitness *)
  Lemma TGd_pos_write a cur x D r ag ag' x' fe co :
    TGd a cur x D -> getr r cur x = Some ag -> setr r cur ag' x = Some x' -> afit ag' = afit ag ->
    wf lbs (apos ag') -> (fe = true -> feasible lbs ubs (apos ag') = true) -> (co = true -> afit ag' = f (apos ag')) ->
    TGd (wr r (posv fe co (rd r a)) (nf a)) cur x' D.
  Proof.
    intros HG Hg Hs Hf Hw Hfe Hco.
    eapply TGd_ext; [|eapply (TGd_write a cur x D r ag' x' (posv fe co (rd r a)) (srt a) (rk a)); [exact HG|exact Hs| | | |]].
    - destruct r; repeat split.
    - pose proof (TGp_read _ _ _ _ _ _ (d_p _ _ _ _ HG) Hg) as (K1 & K2 & K3 & K4).
      split; [exact Hw|split; [exact Hfe|split; [exact Hco|]]]. simpl. rewrite Hf. exact K4.
    - intros j Hsl Hi.
      pose proof (TGp_read_slot _ _ _ _ _ _ _ (d_p _ _ _ _ HG) Hsl Hi (getr_slot_nth _ _ _ _ _ Hsl Hg Hi)) as [_ [K1 K2]].
      split; simpl; rewrite Hf; assumption.
    - intros Hs'. rewrite (setr_fits _ _ _ _ _ _ Hg Hs Hf). apply (r_srt _ _ _ (d_r _ _ _ _ HG) Hs').
    - intros Hk' y Hy. rewrite (setr_fits _ _ _ _ _ _ Hg Hs Hf). apply (r_rk _ _ _ (d_r _ _ _ _ HG) Hk' y Hy).
  Qed.

  (* a write that keeps the position *)
  Lemma TGd_fit_write a cur x D r ag ag' x' co se mo :
    TGd a cur x D -> getr r cur x = Some ag -> setr r cur ag' x = Some x' -> apos ag' = apos ag ->
    (co = true -> afit ag' = f (apos ag')) -> (se = true -> forall c, klt (f c) (afit ag') = true) ->
    (mo = true -> forall j, slotlike r = true -> slot_of r cur x = Some j ->
       forall y a0, lasto D = Some y -> nth_error (pop y) j = Some a0 -> kle (afit ag') (afit a0) = true) ->
    TGd (set_srk (wr r (fitv (rd r a) co se mo) (nf a)) false (rk a && negb (slotlike r))) cur x' D.
  Proof.
    intros HG Hg Hs Hp Hco Hse Hmo.
    eapply TGd_write; [exact HG|exact Hs| | | |].
    - pose proof (TGp_read _ _ _ _ _ _ (d_p _ _ _ _ HG) Hg) as (K1 & K2 & K3 & K4).
      unfold aok; simpl. rewrite Hp. split; [exact K1|split; [exact K2|split; [rewrite <- Hp; exact Hco|exact Hse]]].
    - intros j Hsl Hi. split; simpl; [discriminate|]. intros Hm. apply Hmo; assumption.
    - discriminate.
    - intros Hk y Hy. apply andb_true_iff in Hk as [Hk Hsl]. apply negb_true_iff in Hsl.
      rewrite (setr_pop_nonslot _ _ _ _ _ Hsl Hs). apply (r_rk _ _ _ (d_r _ _ _ _ HG) Hk y Hy).
  Qed.

  (* states that differ only in components the invariant does not read *)
  Definition st_eqv (x x' : st) : Prop :=
    pop x' = pop x /\ best x' = best x /\ tr x' = tr x /\ sh x' = sh x /\ loc x' = loc x /\ idx x' = idx x.

  Lemma getr_eqv r cur x x' : st_eqv x x' -> getr r cur x' = getr r cur x.
  Proof. intros (E1 & E2 & E3 & E4 & E5 & E6). destruct r; simpl; rewrite ?E1, ?E2, ?E3, ?E4, ?E6; reflexivity. Qed.

  Lemma TGp_eqv a cur x x' ld : st_eqv x x' -> TGp a cur x ld -> TGp a cur x' ld.
  Proof.
    intros (E1 & E2 & E3 & E4 & E5 & E6) [P0 P1 P2 P3 P4 P5 P6 P7].
    constructor; rewrite ?E1, ?E2, ?E3, ?E4, ?E5; assumption.
  Qed.

  Lemma TGp_eqv0 a cur x x' ld : pop x' = pop x -> best x' = best x -> tr x' = tr x -> sh x' = sh x -> loc x' = loc x ->
    TGp a cur x ld -> TGp a cur x' ld.
  Proof.
    intros E1 E2 E3 E4 E5 [P0 P1 P2 P3 P4 P5 P6 P7].
    constructor; rewrite ?E1, ?E2, ?E3, ?E4, ?E5; assumption.
  Qed.

  Lemma TGr_eqv a x x' ld : pop x' = pop x -> TGr a x ld -> TGr a x' ld.
  Proof. intros E [R1 R2]. constructor; rewrite E; assumption. Qed.

  Lemma TGf_eqv a cur x x' : st_eqv x x' -> tmp x' = tmp x -> TGf a cur x -> TGf a cur x'.
  Proof.
    intros He Et [F1 F2 F3 F4 F5].
    constructor; intros p Hp; [destruct (F1 p Hp) as (a1 & a2 & H1 & H2 & H3)|destruct (F2 p Hp) as (a1 & a2 & H1 & H2 & H3)
                               |destruct (F3 p Hp) as (a1 & H1 & H2)|destruct (F4 p Hp) as (a1 & H1 & H2)
                               |destruct (F5 p Hp) as (a1 & a2 & H1 & H2 & H3)].
    - exists a1, a2. rewrite !(getr_eqv _ _ _ _ He). auto.
    - exists a1, a2. rewrite !(getr_eqv _ _ _ _ He). auto.
    - exists a1. rewrite (getr_eqv _ _ _ _ He), Et. auto.
    - exists a1. rewrite (getr_eqv _ _ _ _ He), Et. auto.
    - exists a1, a2. rewrite !(getr_eqv _ _ _ _ He). auto.
  Qed.

  Lemma TGd_eqv a cur x x' D : st_eqv x x' -> tmp x' = tmp x -> TGd a cur x D -> TGd a cur x' D.
  Proof.
    intros He Et [HP HF HR Hnd Hok Hadj]. constructor; try assumption.
    - eapply TGp_eqv; eassumption.
    - eapply TGf_eqv; eassumption.
    - eapply TGr_eqv; [apply He|eassumption].
  Qed.

  Lemma TGd_next a cur x D n : TGd a cur x D -> TGd a cur (with_next x n) D.
  Proof. apply TGd_eqv; [repeat split|reflexivity]. Qed.

  (* forgetting facts *)
  Lemma TGd_nf a cur x D : TGd a cur x D -> TGd (nf a) cur x D.
  Proof.
    intros [HP HF HR Hnd Hok Hadj]. constructor; try assumption.
    - eapply TGp_ext; [apply nf_same|exact HP].
    - apply TGf_none; reflexivity.
    - destruct HR as [R1 R2]. constructor; assumption.
  Qed.

  (* replacing the facts *)
  Lemma TGd_refacts a b cur x D : same_cls a b -> srt a = srt b -> rk a = rk b -> nd a = nd b ->
    TGf b cur x -> TGd a cur x D -> TGd b cur x D.
  Proof.
    intros Hc E5 E6 E7 HF' [HP HF HR Hnd Hok Hadj]. constructor; try assumption.
    - eapply TGp_ext; eassumption.
    - destruct HR as [R1 R2]. constructor; intros H; [apply R1|apply R2]; congruence.
    - intros H. apply Hnd. congruence.
  Qed.

  (* before the first record the "not above the previous record" claims hold vacuously *)
  Lemma TGd_vac a cur x D : nd a = true -> TGd a cur x D -> TGd (vac a) cur x D.
  Proof.
    intros Hn [[P0 P1 P2 P3 P4 P5 P6 P7] [F1 F2 F3 F4 F5] [R1 R2] Hnd Hok Hadj].
    specialize (Hnd Hn).
    constructor; try assumption.
    - constructor; try assumption.
      intros j ag Hg. specialize (P2 j ag Hg).
      assert (Hv : forall v, sok v (loc x) (lasto D) j ag ->
                sok {| feas := feas v; cons := cons v; cl := cl v; sent := sent v; mono := true |} (loc x) (lasto D) j ag).
      { intros v [K1 [K2 K3]]. split; [exact K1|split; [exact K2|]]. intros _ y a0 Hy. rewrite Hnd in Hy. discriminate. }
      unfold cls in *; simpl. destruct cur as [i|]; [destruct (j <? i); [|destruct (j =? i)]|]; apply Hv; exact P2.
    - constructor; assumption.
    - constructor; [exact R1|]. intros _ y Hy. rewrite Hnd in Hy. discriminate.
    - intros _. exact Hnd.
  Qed.

  (* ---------------------------------------------------------------- the atomic statements *)
  Ltac inv_ret H := unfold ret in H; injection H as <- <- <-.
  Ltac nodump := unfold TG in *; rewrite dumps_app; simpl dumps; rewrite app_nil_r.

  Lemma clipa_fix ag : feasible lbs ubs (apos ag) = true -> clipa lbs ubs ag = ag.
  Proof. intros H. destruct ag as [p i ft]. unfold clipa, clipc; simpl in *. rewrite (clip_rows_fix _ _ _ H). reflexivity. Qed.

  Lemma clipc_wf c : wf lbs c -> wf lbs (clipc lbs ubs c).
  Proof. intros H. eapply feasible_wf; [exact f|]. apply clipc_feasible; assumption. Qed.

  Lemma copy_all_nth2 n l j b : nth_error (copy_all n l) j = Some b ->
    exists a, nth_error l j = Some a /\ apos b = apos a /\ afit b = afit a.
  Proof.
    revert n j. induction l as [|a l IH]; intros n [|j]; simpl; try discriminate.
    - intros H. injection H as <-. exists a. repeat split.
    - apply IH.
  Qed.

  Lemma klt_kle_kle a b c : klt a b = true -> kle b c = true -> kle a c = true.
  Proof. unfold klt, kle. lia. Qed.

  Lemma cls_set_pop a l c h cur j :
    cls (set_pop a l c h) cur j = match cur with None => h | Some i => if j <? i then l else if j =? i then c else h end.
  Proof. reflexivity. Qed.

  Lemma store_sound a cur x D d s ag x1 n :
    slotlike d = true -> TGd a cur x D -> getr s cur x = Some ag ->
    setr d cur {| apos := apos ag; aid := n; afit := afit ag |} x = Some x1 ->
    TGd (set_srk (wr d {| feas := feas (rd s a); cons := cons (rd s a); cl := false; sent := sent (rd s a);
                          mono := mono (rd d a) && f2_is (fl a) (s, d) |} (nf a))
                 false (rk a && srt a && f2_is (fl a) (s, d) && match d with Last => true | _ => false end)) cur x1 D.
  Proof.
    intros Hd HG Eg Es.
    pose proof (TGp_read _ _ _ _ _ _ (d_p _ _ _ _ HG) Eg) as (K1 & K2 & K3 & K4).
    eapply TGd_write; [exact HG|exact Es| | | |].
    - split; [exact K1|split; [exact K2|split; [exact K3|exact K4]]].
    - intros j Hsl Hi. split; simpl; [discriminate|].
      intros Hm y a0 Hy Ha0. apply andb_true_iff in Hm as [Hm Hq]. apply f2_is_eq in Hq.
      destruct (f_fl _ _ _ (d_f _ _ _ _ HG) _ Hq) as (a1 & a2 & H1 & H2 & H3). simpl in H1, H2.
      rewrite Eg in H1. injection H1 as <-.
      pose proof (TGp_read_slot _ _ _ _ _ _ _ (d_p _ _ _ _ HG) Hsl Hi (getr_slot_nth _ _ _ _ _ Hsl H2 Hi)) as [_ [_ L2]].
      eapply klt_kle_kle; [exact H3|]. eapply L2; eassumption.
    - discriminate.
    - intros Hk y Hy. rewrite !andb_true_iff in Hk. destruct Hk as [[[Hrk Hsrt] Hq] HL].
      destruct d; try discriminate. apply f2_is_eq in Hq.
      destruct (f_fl _ _ _ (d_f _ _ _ _ HG) _ Hq) as (a1 & a2 & H1 & H2 & H3). simpl in H1, H2.
      rewrite Eg in H1. injection H1 as <-.
      pose proof (r_srt _ _ _ (d_r _ _ _ _ HG) Hsrt) as Hsorted.
      pose proof (r_rk _ _ _ (d_r _ _ _ _ HG) Hrk y Hy) as Hrank.
      simpl in Es. destruct (length (pop x)) as [|m] eqn:El; [discriminate|].
      destruct (upd m _ (pop x)) as [l'|] eqn:Eu; [|discriminate]. injection Es as <-. simpl.
      assert (Em : m = length (pop x) - 1) by lia. rewrite Em in Eu.
      destruct (upd_last _ _ _ Eu) as (l0 & b & E1 & E2).
      assert (Eb : a2 = b).
      { rewrite E1 in H2, El. rewrite app_length in El. simpl in El.
        assert (Hm : m = length l0) by lia. rewrite Hm in H2. rewrite nth_error_app2 in H2 by lia.
        rewrite Nat.sub_diag in H2. simpl in H2. congruence. }
      subst a2. rewrite E2. rewrite E1 in Hsorted, Hrank. unfold fits in *. rewrite map_app in *. simpl in *.
      eapply rank_le_trans; [|exact Hrank]. apply sorted_dominance; assumption.
  Qed.

  Lemma sort_sound a cur x D :
    TGd a cur x D ->
    TGd (let p := allpop a in
         let v := {| feas := feas p; cons := cons p; cl := false; sent := sent p; mono := false |} in
         set_srk (set_pop (nf a) v v v) true (rk a)) cur (with_pop x (sort_fit (pop x))) D.
  Proof.
    intros [[P0 P1 P2 P3 P4 P5 P6 P7] HF [R1 R2] Hnd Hok Hadj].
    constructor; try assumption.
    - constructor; simpl; try assumption.
      + rewrite sort_fit_length. exact P1.
      + intros j b Hn. apply nth_error_In, sort_fit_in, In_nth_error in Hn as [k Hk].
        pose proof (sok_mono _ _ _ _ _ _ (allpop_cls a cur k) (P2 k b Hk)) as [(K1 & K2 & K3 & K4) _].
        assert (Hv : sok {| feas := feas (allpop a); cons := cons (allpop a); cl := false; sent := sent (allpop a); mono := false |}
                         (loc x) (lasto D) j b).
        { split; [split; [exact K1|split; [exact K2|split; [exact K3|exact K4]]]|split; simpl; discriminate]. }
        unfold cls; simpl. destruct cur as [i|]; [destruct (j <? i); [|destruct (j =? i)]|]; exact Hv.
    - apply TGf_none; reflexivity.
    - constructor; simpl.
      + intros _. apply sort_fit_sorted.
      + intros Hk y Hy. eapply rank_le_perm; [|apply (R2 Hk y Hy)].
        unfold fits. apply Permutation_map, Permutation_sym, sort_fit_perm.
  Qed.

  Lemma dump_sound l a a' cur x D :
    bot a = false -> th_atom0 hm useloc gm l Dump a = (a', []) -> TGd a cur x D -> TGd a' cur x (D ++ [x]).
  Proof.
    intros Hbot Hab [[P0 P1 P2 P3 P4 P5 P6 P7] HF [R1 R2] Hnd Hok Hadj].
    simpl in Hab. injection Hab as <- Hal. unfold dump_alarms in Hal. apply app_nil_both in Hal as [Hal1 Hal2].
    assert (Hall : forall j ag, nth_error (pop x) j = Some ag -> sok (allpop a) (loc x) (lasto D) j ag).
    { intros j ag Hn. eapply sok_mono; [apply (allpop_cls a cur j)|]. apply P2. exact Hn. }
    constructor.
    - constructor; simpl; try assumption.
      intros j ag Hn. specialize (P2 j ag Hn).
      assert (Hv : forall v, sok v (loc x) (lasto D) j ag ->
                sok {| feas := feas v; cons := cons v; cl := cl v; sent := sent v; mono := true |} (loc x) (lasto (D ++ [x])) j ag).
      { intros v [K1 [K2 K3]]. split; [exact K1|split; [exact K2|]]. intros _ y a0 Hy Ha0.
        rewrite lasto_snoc in Hy. injection Hy as <-. rewrite Hn in Ha0. injection Ha0 as <-. apply kle_refl. }
      unfold cls in *; simpl. destruct cur as [i|]; [destruct (j <? i); [|destruct (j =? i)]|]; apply Hv; exact P2.
    - apply TGf_none; reflexivity.
    - constructor; simpl; [exact R1|]. intros _ y Hy. rewrite lasto_snoc in Hy. injection Hy as <-. apply rank_le_refl.
    - simpl. discriminate.
    - apply Forall_app. split; [exact Hok|]. constructor; [|constructor]. split; [exact P1|].
      destruct useloc eqn:Eu.
      + destruct (cl (allpop a)) eqn:Ec; [|discriminate Hal1].
        apply Forall2_of_nth; [rewrite P1; symmetry; apply P7; reflexivity|].
        intros j ag c Hn Hc. destruct (Hall j ag Hn) as [_ [K _]]. destruct (K Ec) as (c' & Hc' & E). congruence.
      + destruct (cons (allpop a)) eqn:Ec; [|discriminate Hal1].
        apply Forall_of_nth. intros j ag Hn. destruct (Hall j ag Hn) as [(_ & _ & K & _) _]. apply K, Ec.
    - apply adj_snoc; [exact Hadj|]. intros y0 Hy0. unfold Rel. destruct gm eqn:Egm.
      + exact I.
      + destruct (mono (allpop a)) eqn:Em; [|discriminate Hal2].
        assert (Hl0 : length (pop y0) = N).
        { apply lasto_in in Hy0. rewrite Forall_forall in Hok. apply (Hok y0 Hy0). }
        apply Forall2_of_nth; [congruence|].
        intros j a1 a2 H1 H2. destruct (Hall j a2 H2) as [_ [_ K]]. eapply K; eassumption.
      + destruct (rk a) eqn:Er; [|discriminate Hal2]. apply R2; [reflexivity|exact Hy0].
  Qed.

  (* a position-moving hook is a Havoc of every slot that keeps the fitnesses *)
  Lemma hook_sound a cur x D : hm = true -> TGd a cur x D ->
    TGd (set_pop (nf a) (posv false false (lo a)) (posv false false (cu a)) (posv false false (hi a))) cur (hk x) D.
  Proof.
    intros Hm HG. pose proof hook_ok as Hh. rewrite Hm in Hh. destruct (Hh x) as (Hf & Hb & Ht & Hs & Hl & Hw). clear Hh.
    destruct HG as [[P0 P1 P2 P3 P4 P5 P6 P7] HF [R1 R2] Hnd Hok Hadj].
    assert (Hlen : length (pop (hk x)) = length (pop x)) by (rewrite <- (map_length afit), Hf, map_length; reflexivity).
    assert (Hwf : forall a0, In a0 (pop (hk x)) -> wf lbs (apos a0)).
    { apply Hw. intros a0 Ha. apply In_nth_error in Ha as [j Hj]. destruct (P2 j a0 Hj) as [(K & _) _]. exact K. }
    constructor; try assumption.
    - constructor; simpl; rewrite ?Hb, ?Ht, ?Hs, ?Hl; try assumption.
      + congruence.
      + intros j ag' Hn.
        assert (Hj : j < length (pop x)) by (rewrite <- Hlen; apply nth_error_Some; congruence).
        destruct (nth_error (pop x) j) as [ag|] eqn:En; [|apply nth_error_None in En; lia].
        assert (Hfit : afit ag' = afit ag).
        { pose proof (map_nth_error afit j (pop (hk x)) Hn) as E1. pose proof (map_nth_error afit j (pop x) En) as E2.
          rewrite Hf in E1. congruence. }
        specialize (P2 j ag En).
        assert (Hv : forall v, sok v (loc x) (lasto D) j ag -> sok (posv false false v) (loc x) (lasto D) j ag').
        { intros v [(K1 & K2 & K3 & K4) [K5 K6]].
          split; [split; [apply Hwf; eapply nth_error_In; exact Hn|split; [discriminate|split; [discriminate|simpl; rewrite Hfit; exact K4]]]|].
          split; simpl; rewrite Hfit; assumption. }
        unfold cls in *; simpl. destruct cur as [i|]; [destruct (j <? i); [|destruct (j =? i)]|]; apply Hv; exact P2.
    - apply TGf_none; reflexivity.
    - constructor; simpl; unfold fits; rewrite Hf; assumption.
  Qed.

  Lemma t_atom0_sound : forall l s a a', is_atom s = true -> bot a = false -> th_atom0 hm useloc gm l s a = (a', []) ->
    forall cur o x h x' evs o', TG a cur x h -> exec_atom lbs ubs f hk okc cur s o x = Some (x', evs, o') ->
    TG a' cur x' (h ++ evs).
  Proof.
    intros l s a a' Hat Hbot Hab cur o x h x' evs o' HG Hex.
    destruct s; simpl in Hat; try discriminate; simpl in Hab, Hex.
    - (* Skip *) injection Hab as <-. inv_ret Hex. rewrite app_nil_r. exact HG.
    - (* Havoc *)
      injection Hab as <-.
      destruct o as [|[c|?|?|?] o1]; try discriminate.
      destruct (getr r cur x) as [ag|] eqn:Eg; [|discriminate].
      destruct (okc (apos ag) c) eqn:Eok; simpl in Hex; [|discriminate].
      rewrite app_nil_r || idtac.
      pose proof (TGp_read _ _ _ _ _ _ (d_p _ _ _ _ HG) Eg) as (Kw & _).
      pose proof (okc_wf lbs _ _ Eok Kw) as Hwf.
      destruct m; (destruct (setr r cur _ x) as [x1|] eqn:Es; [|discriminate]); inv_ret Hex; rewrite app_nil_r; unfold TG in *.
      + apply TGd_next. eapply TGd_pos_write; [exact HG|exact Eg|exact Es|reflexivity|exact Hwf|discriminate|discriminate].
      + eapply TGd_pos_write; [exact HG|exact Eg|exact Es|reflexivity|exact Hwf|discriminate|discriminate].
    - (* Clip *)
      destruct (getr r cur x) as [ag|] eqn:Eg; [|discriminate].
      destruct (setr r cur _ x) as [x1|] eqn:Es; [|discriminate]. inv_ret Hex. rewrite app_nil_r. unfold TG in *.
      pose proof (TGp_read _ _ _ _ _ _ (d_p _ _ _ _ HG) Eg) as (Kw & Kf & _).
      destruct (feas (rd r a)) eqn:Ef; injection Hab as <-.
      + rewrite (clipa_fix ag (Kf eq_refl)) in Es. rewrite (setr_same _ _ _ _ _ Eg Es). exact HG.
      + eapply TGd_pos_write; [exact HG|exact Eg|exact Es|reflexivity| | |].
        * simpl. apply clipc_wf. exact Kw.
        * intros _. simpl. apply clipc_feasible; assumption.
        * discriminate.
    - (* ClipAll *)
      injection Hab as <-. inv_ret Hex. rewrite app_nil_r. unfold TG in *.
      destruct HG as [[P0 P1 P2 P3 P4 P5 P6 P7] HF [R1 R2] Hnd Hok Hadj].
      assert (Hfits : fits (map (clipa lbs ubs) (pop x)) = fits (pop x)).
      { unfold fits. rewrite map_map. apply map_ext. intros [p i ft]. reflexivity. }
      constructor; try assumption.
      + constructor; simpl; try assumption.
        * rewrite map_length. exact P1.
        * intros j b Hn. rewrite nth_error_map in Hn. destruct (nth_error (pop x) j) as [ag|] eqn:En; [|discriminate].
          injection Hn as <-. specialize (P2 j ag En). rewrite cls_set_pop.
          assert (Hg : forall v, sok v (loc x) (lasto (dumps h)) j ag ->
                    sok (if feas v then v else posv true false v) (loc x) (lasto (dumps h)) j (clipa lbs ubs ag)).
          { intros v Hv. destruct (feas v) eqn:Ef.
            - pose proof Hv as [(_ & K2 & _) _]. rewrite (clipa_fix ag (K2 Ef)). exact Hv.
            - destruct Hv as [(K1 & K2 & K3 & K4) [K5 K6]]. split; [split; [apply clipc_wf; exact K1|split; [intros _; apply clipc_feasible; assumption|split; [discriminate|exact K4]]]|].
              split; [exact K5|exact K6]. }
          unfold cls in P2. destruct cur as [i|]; [destruct (j <? i); [|destruct (j =? i)]|]; apply Hg; exact P2.
      + apply TGf_none; reflexivity.
      + constructor; simpl; rewrite Hfits; assumption.
    - (* Eval *)
      destruct (getr r cur x) as [ag|] eqn:Eg; [|discriminate].
      destruct (setr r cur _ x) as [x1|] eqn:Es; [|discriminate]. injection Hex as <- <- <-. nodump.
      pose proof (TGp_read _ _ _ _ _ _ (d_p _ _ _ _ HG) Eg) as (Kw & Kf & Kc & Ks).
      destruct (cons (rd r a)) eqn:Ec; injection Hab as <-.
      + assert (E : {| apos := apos ag; aid := aid ag; afit := f (apos ag) |} = ag)
          by (rewrite <- (Kc eq_refl); destruct ag; reflexivity).
        rewrite E in Es. rewrite (setr_same _ _ _ _ _ Eg Es). exact HG.
      + eapply TGd_fit_write; [exact HG|exact Eg|exact Es|reflexivity| | |]; try discriminate. reflexivity.
    - (* EvalTmp *)
      injection Hab as <-.
      destruct (getr r cur x) as [ag|] eqn:Eg; [|discriminate]. injection Hex as <- <- <-. nodump.
      assert (He : st_eqv x (with_tmp x (f (apos ag)))) by (repeat split).
      destruct HG as [HP HF HR Hnd Hok Hadj]. constructor; try assumption.
      + eapply TGp_ext; [|eapply TGp_eqv; [exact He|exact HP]]. repeat split.
      + constructor; simpl; try discriminate.
        intros r0 Hr. injection Hr as <-. exists ag. rewrite (getr_eqv _ _ _ _ He). split; [exact Eg|reflexivity].
      + destruct HR as [R1 R2]. constructor; assumption.
    - (* SetFitTmp *)
      injection Hab as <-.
      destruct (getr r cur x) as [ag|] eqn:Eg; [|discriminate].
      destruct (setr r cur _ x) as [x1|] eqn:Es; [|discriminate]. inv_ret Hex. rewrite app_nil_r. unfold TG in *.
      eapply TGd_fit_write; [exact HG|exact Eg|exact Es|reflexivity| | |]; simpl.
      + intros Hq. apply f1_is_eq in Hq. destruct (f_tq _ _ _ (d_f _ _ _ _ HG) _ Hq) as (a1 & H1 & H2). congruence.
      + discriminate.
      + intros Hm j Hsl Hi y a0 Hy Ha0. apply andb_true_iff in Hm as [Hm Hq]. apply f1_is_eq in Hq.
        destruct (f_tl _ _ _ (d_f _ _ _ _ HG) _ Hq) as (a1 & H1 & H2). rewrite Eg in H1. injection H1 as <-.
        pose proof (TGp_read_slot _ _ _ _ _ _ _ (d_p _ _ _ _ HG) Hsl Hi (getr_slot_nth _ _ _ _ _ Hsl Eg Hi)) as [_ [_ K2]].
        eapply klt_kle_kle; [exact H2|]. eapply K2; eassumption.
    - (* CopyPos *)
      injection Hab as <-.
      destruct (getr d cur x) as [ag|] eqn:Eg; [|discriminate].
      destruct (getr s cur x) as [bg|] eqn:Eg2; [|discriminate].
      destruct (setr d cur _ x) as [x1|] eqn:Es; [|discriminate]. inv_ret Hex. rewrite app_nil_r. unfold TG in *.
      pose proof (TGp_read _ _ _ _ _ _ (d_p _ _ _ _ HG) Eg2) as (Kw & Kf & Kc & _).
      assert (H1 : TGd (wr d (posv (feas (rd s a)) (f2_is (ff a) (d, s) && cons (rd s a)) (rd d a)) (nf a)) cur x1 (dumps h)).
      { eapply TGd_pos_write; [exact HG|exact Eg|exact Es|reflexivity|exact Kw|exact Kf|].
        simpl. intros Hq. apply andb_true_iff in Hq as [Hq Hc]. apply f2_is_eq in Hq.
        destruct (f_ff _ _ _ (d_f _ _ _ _ HG) _ Hq) as (a1 & a2 & L1 & L2 & L3). simpl in L1, L2.
        rewrite Eg in L1. rewrite Eg2 in L2. injection L1 as <-. injection L2 as <-. rewrite L3. apply Kc, Hc. }
      pose proof (TGd_next _ _ _ _ (S (next x)) H1) as H2. clear H1. revert H2. apply TGd_refacts; try (destruct d; repeat split; fail).
      constructor; simpl; try discriminate.
      + intros p Hp. injection Hp as <-. unfold pf_ok; simpl. rewrite !getr_with_next.
        exists {| apos := apos bg; aid := next x; afit := afit ag |}. 
        destruct (getr_setr _ _ _ _ _ _ _ Es Eg2) as [K|[K _]]; rewrite K, (getr_setr_same _ _ _ _ _ Es);
          eexists; (split; [reflexivity|split; [reflexivity|reflexivity]]).
      + intros p Hp. destruct (f_fl _ _ _ (d_f _ _ _ _ HG) _ Hp) as (a1 & a2 & K1 & K2 & K3).
        unfold fl_ok. rewrite !getr_with_next.
        destruct (getr_setr _ _ _ _ _ _ _ Es K1) as [L1|[L1 L1']]; destruct (getr_setr _ _ _ _ _ _ _ Es K2) as [L2|[L2 L2']];
          rewrite L1, L2; eexists; eexists; (split; [reflexivity|split; [reflexivity|]]); simpl;
          try (rewrite Eg in L1'; injection L1' as <-); try (rewrite Eg in L2'; injection L2' as <-); exact K3.
    - (* CopyFit *)
      injection Hab as <-.
      destruct (getr d cur x) as [ag|] eqn:Eg; [|discriminate].
      destruct (getr s cur x) as [bg|] eqn:Eg2; [|discriminate].
      destruct (setr d cur _ x) as [x1|] eqn:Es; [|discriminate]. inv_ret Hex. rewrite app_nil_r. unfold TG in *.
      pose proof (TGp_read _ _ _ _ _ _ (d_p _ _ _ _ HG) Eg2) as (Kw & Kf & Kc & Ks).
      eapply (TGd_refacts (set_srk (wr d (fitv (rd d a) (f2_is (pf a) (d, s) && cons (rd s a)) (sent (rd s a))
                                             (mono (rd d a) && f2_is (fl a) (s, d))) (nf a)) false (rk a && negb (slotlike d))));
        try (destruct d; repeat split; fail).
      { constructor; simpl; try discriminate.
        intros p Hp. injection Hp as <-. unfold ff_ok; simpl.
        exists {| apos := apos ag; aid := aid ag; afit := afit bg |}.
        destruct (getr_setr _ _ _ _ _ _ _ Es Eg2) as [K|[K _]]; rewrite K, (getr_setr_same _ _ _ _ _ Es);
          eexists; (split; [reflexivity|split; [reflexivity|reflexivity]]). }
      eapply TGd_fit_write; [exact HG|exact Eg|exact Es|reflexivity| | |]; simpl.
      + intros Hq. apply andb_true_iff in Hq as [Hq Hc]. apply f2_is_eq in Hq.
        destruct (f_pf _ _ _ (d_f _ _ _ _ HG) _ Hq) as (a1 & a2 & H1 & H2 & H3). simpl in H1, H2.
        rewrite Eg in H1. rewrite Eg2 in H2. injection H1 as <-. injection H2 as <-. rewrite H3. apply Kc. exact Hc.
      + exact Ks.
      + intros Hm j Hsl Hi y a0 Hy Ha0. apply andb_true_iff in Hm as [Hm Hq]. apply f2_is_eq in Hq.
        destruct (f_fl _ _ _ (d_f _ _ _ _ HG) _ Hq) as (a1 & a2 & H1 & H2 & H3). simpl in H1, H2.
        rewrite Eg2 in H1. rewrite Eg in H2. injection H1 as <-. injection H2 as <-.
        pose proof (TGp_read_slot _ _ _ _ _ _ _ (d_p _ _ _ _ HG) Hsl Hi (getr_slot_nth _ _ _ _ _ Hsl Eg Hi)) as [_ [_ K2]].
        eapply klt_kle_kle; [exact H3|]. eapply K2; eassumption.
    - (* LocFromPos *)
      injection Hab as <-.
      destruct cur as [i|]; [|discriminate].
      destruct (nth_error (pop x) i) as [ag|] eqn:Eg; [|discriminate].
      destruct (upd i (apos ag) (loc x)) as [lc|] eqn:Eu; [|discriminate]. inv_ret Hex. rewrite app_nil_r. unfold TG in *.
      destruct HG as [[P0 P1 P2 P3 P4 P5 P6 P7] HF [R1 R2] Hnd Hok Hadj].
      constructor; try assumption.
      + constructor; simpl; try assumption.
        * intros j b Hn. specialize (P2 j b Hn). unfold cls in *; simpl.
          destruct (j <? i) eqn:E1; [|destruct (j =? i) eqn:E2].
          -- destruct P2 as [K1 [K2 K3]]. split; [exact K1|split; [|exact K3]].
             rewrite (upd_nth_other _ _ _ _ _ Eu); [exact K2|]. apply Nat.ltb_lt in E1. lia.
          -- apply Nat.eqb_eq in E2. subst j. rewrite Eg in Hn. injection Hn as <-.
             destruct P2 as [K1 [K2 K3]]. split; [exact K1|split; [|exact K3]]. simpl.
             intros Hc. exists (apos ag). split; [apply (upd_nth_same _ _ _ _ Eu)|]. destruct K1 as (_ & _ & Kc & _). apply Kc, Hc.
          -- destruct P2 as [K1 [K2 K3]]. split; [exact K1|split; [|exact K3]].
             rewrite (upd_nth_other _ _ _ _ _ Eu); [exact K2|]. apply Nat.eqb_neq in E2. exact E2.
        * intros c Hc. destruct (upd_in _ _ _ _ _ Eu Hc) as [->|Hc']; [|apply P6; exact Hc'].
          specialize (P2 i ag Eg). destruct P2 as [(K1 & _) _]. exact K1.
        * intros Hu. rewrite (upd_length _ _ _ _ Eu). apply P7, Hu.
      + apply TGf_none; reflexivity.
      + constructor; assumption.
    - (* BestPosFromLoc *)
      injection Hab as <-.
      destruct cur as [i|]; [|discriminate].
      destruct (nth_error (loc x) i) as [c|] eqn:En; [|discriminate]. inv_ret Hex. rewrite app_nil_r. unfold TG in *.
      apply TGd_next.
      eapply TGd_ext; [|eapply (TGd_write a (Some i) x (dumps h) Best _ _ _ (srt a) (rk a)); [exact HG|reflexivity| | | |]].
      + repeat split.
      + pose proof (p_be _ _ _ _ (d_p _ _ _ _ HG)) as (K1 & K2 & K3 & K4).
        split; [simpl; apply (p_loc _ _ _ _ (d_p _ _ _ _ HG)); eapply nth_error_In; eassumption|].
        split; [discriminate|split; [discriminate|exact K4]].
      + discriminate.
      + apply (r_srt _ _ _ (d_r _ _ _ _ HG)).
      + apply (r_rk _ _ _ (d_r _ _ _ _ HG)).
    - (* SwapPos *)
      injection Hab as <-.
      destruct (getr a0 cur x) as [p|] eqn:Eg; [|discriminate].
      destruct (getr b cur x) as [q|] eqn:Eg2; [|discriminate].
      destruct (setr a0 cur _ x) as [x1|] eqn:Es; [|discriminate].
      destruct (getr b cur x1) as [q1|] eqn:Eg3; [|discriminate].
      destruct (setr b cur _ x1) as [x2|] eqn:Es2; [|discriminate]. inv_ret Hex. rewrite app_nil_r. unfold TG in *.
      pose proof (TGp_read _ _ _ _ _ _ (d_p _ _ _ _ HG) Eg) as (Kp & _).
      pose proof (TGp_read _ _ _ _ _ _ (d_p _ _ _ _ HG) Eg2) as (Kq & _).
      assert (H1 : TGd (wr a0 (posv false false (rd a0 a)) (nf a)) cur x1 (dumps h))
        by (eapply TGd_pos_write; [exact HG|exact Eg|exact Es|reflexivity|exact Kq|discriminate|discriminate]).
      eapply TGd_ext; [|eapply (TGd_pos_write _ _ _ _ b q1 _ _ false false); [exact H1|exact Eg3|exact Es2|reflexivity|exact Kp|discriminate|discriminate]].
      destruct a0, b; repeat split.
    - (* SwapFit *)
      injection Hab as <-.
      destruct (getr a0 cur x) as [p|] eqn:Eg; [|discriminate].
      destruct (getr b cur x) as [q|] eqn:Eg2; [|discriminate].
      destruct (setr a0 cur _ x) as [x1|] eqn:Es; [|discriminate].
      destruct (getr b cur x1) as [q1|] eqn:Eg3; [|discriminate].
      destruct (setr b cur _ x1) as [x2|] eqn:Es2; [|discriminate]. inv_ret Hex. rewrite app_nil_r. unfold TG in *.
      assert (H1 : TGd (set_srk (wr a0 (fitv (rd a0 a) false false false) (nf a)) false (rk a && negb (slotlike a0))) cur x1 (dumps h))
        by (eapply TGd_fit_write; [exact HG|exact Eg|exact Es|reflexivity| | |]; discriminate).
      eapply TGd_ext; [|eapply (TGd_fit_write _ _ _ _ b q1 _ _ false false false); [exact H1|exact Eg3|exact Es2|reflexivity| | |]; discriminate].
      destruct a0, b; repeat split; simpl; rewrite ?andb_true_r, ?andb_false_r; reflexivity.
    - (* NewTrial *)
      injection Hab as <-.
      destruct (getr s cur x) as [ag|] eqn:Eg; [|discriminate]. inv_ret Hex. rewrite app_nil_r. unfold TG in *.
      apply TGd_next.
      eapply TGd_ext; [|eapply (TGd_write a cur x (dumps h) Tr _ _ (rd s a) (srt a) (rk a)); [exact HG|reflexivity| | | |]].
      + repeat split.
      + eapply aok_same; [| |eapply TGp_read; [apply (d_p _ _ _ _ HG)|exact Eg]]; reflexivity.
      + discriminate.
      + apply (r_srt _ _ _ (d_r _ _ _ _ HG)).
      + apply (r_rk _ _ _ (d_r _ _ _ _ HG)).
    - (* ShadowAll *)
      injection Hab as <-. inv_ret Hex. rewrite app_nil_r. unfold TG in *.
      destruct HG as [[P0 P1 P2 P3 P4 P5 P6 P7] HF [R1 R2] Hnd Hok Hadj].
      constructor; try assumption.
      + constructor; simpl; try assumption.
        intros j b Hn. apply copy_all_nth2 in Hn as (ag & Hn & E1 & E2).
        assert (K : aok (allpop a) b).
        { eapply aok_same; [exact E1|exact E2|]. eapply aok_mono; [apply (allpop_cls a cur j)|]. apply (P2 j ag Hn). }
        unfold shcls; simpl. destruct cur as [i|]; [destruct (j =? i)|]; exact K.
      + apply TGf_none; reflexivity.
      + constructor; assumption.
    - (* Store *)
      injection Hab as <-.
      destruct d; try discriminate;
        (destruct (getr s cur x) as [ag|] eqn:Eg; [|discriminate];
         destruct (setr _ cur _ x) as [x1|] eqn:Es; [|discriminate]; inv_ret Hex; rewrite app_nil_r; unfold TG in *;
         apply TGd_next; eapply store_sound; [reflexivity|exact HG|exact Eg|exact Es]).
    - (* ChooseIdx *)
      injection Hab as <-.
      destruct o as [|[?|?|i|?] o1]; try discriminate.
      destruct (Nat.ltb i (length (pop x))); [|discriminate]. inv_ret Hex. rewrite app_nil_r. unfold TG in *.
      apply TGd_nf in HG. destruct HG as [HP HF HR Hnd Hok Hadj]. constructor; try assumption.
      + revert HP. apply TGp_eqv0; reflexivity.
      + apply TGf_none; reflexivity.
      + destruct HR as [R1 R2]. constructor; assumption.
    - (* SortByFit *)
      injection Hab as <-. inv_ret Hex. rewrite app_nil_r. unfold TG in *. apply sort_sound. exact HG.
    - (* Hook *)
      injection Hex as <- <- <-. nodump. destruct (Bool.bool_dec hm true) as [Hm|Hm].
      + rewrite Hm in Hab. injection Hab as <-. apply hook_sound; [exact Hm|exact HG].
      + apply not_true_is_false in Hm. rewrite Hm in Hab. injection Hab as <-.
        pose proof hook_ok as Hh. rewrite Hm in Hh. rewrite Hh. exact HG.
    - (* Dump *)
      injection Hex as <- <- <-. unfold TG in *. rewrite dumps_app. simpl. eapply dump_sound; eassumption.
    - (* Draw *) injection Hab as <-. injection Hex as <- <- <-. nodump. exact HG.
    - (* SetHyper *) injection Hab as <-. inv_ret Hex. rewrite app_nil_r. unfold TG in *.
      revert HG. apply TGd_eqv; [repeat split|reflexivity].
    - (* PosFromTree *)
      injection Hab as <-.
      destruct cur as [i|]; [|discriminate].
      destruct (getr r (Some i) x) as [ag|] eqn:Eg; [|discriminate].
      destruct (nth_error (tv x) i) as [c|] eqn:En; [|discriminate].
      destruct (okc (apos ag) c) eqn:Eok; simpl in Hex; [|discriminate].
      destruct (setr r (Some i) _ x) as [x1|] eqn:Es; [|discriminate]. inv_ret Hex. rewrite app_nil_r. unfold TG in *.
      pose proof (TGp_read _ _ _ _ _ _ (d_p _ _ _ _ HG) Eg) as (Kw & _).
      apply TGd_next. eapply TGd_pos_write; [exact HG|exact Eg|exact Es|reflexivity|eapply okc_wf; eassumption|discriminate|discriminate].
    - (* BestTreeCopy *)
      injection Hab as <-.
      destruct cur as [i|]; [|discriminate].
      destruct (nth_error (tv x) i) as [c|] eqn:En; [|discriminate]. inv_ret Hex. rewrite app_nil_r. unfold TG in *.
      revert HG. apply TGd_eqv; [repeat split|reflexivity].
    - (* TreeCopy *)
      injection Hab as <-. destruct o as [|[?|?|?|t] o1]; try discriminate.
      destruct (forallb2 okc (tv x) t); [|discriminate]. inv_ret Hex. rewrite app_nil_r. unfold TG in *.
      revert HG. apply TGd_eqv; [repeat split|reflexivity].
    - (* TreeSet *)
      injection Hab as <-. destruct o as [|[?|?|?|t] o1]; try discriminate.
      destruct (forallb2 okc (tv x) t); [|discriminate]. inv_ret Hex. rewrite app_nil_r. unfold TG in *.
      revert HG. apply TGd_eqv; [repeat split|reflexivity].
    - (* TreeCross *)
      injection Hab as <-. destruct o as [|[?|?|?|t] o1]; try discriminate.
      destruct (forallb2 okc (tv x) t); [|discriminate]. inv_ret Hex. rewrite app_nil_r. unfold TG in *.
      revert HG. apply TGd_eqv; [repeat split|reflexivity].
  Qed.

  Lemma t_atom_sound : forall l s a a', is_atom s = true -> th_atom hm useloc gm l s a = (a', []) ->
    forall cur o x h x' evs o', TG a cur x h -> exec_atom lbs ubs f hk okc cur s o x = Some (x', evs, o') ->
    TG a' cur x' (h ++ evs).
  Proof.
    intros l s a a' Hat Hab cur o x h x' evs o' HG Hex. unfold th_atom in Hab.
    pose proof (p_bot _ _ _ _ (d_p _ _ _ _ HG)) as Hb. rewrite Hb in Hab.
    destruct (th_atom0 hm useloc gm l s a) as [a1 al1] eqn:E0. injection Hab as <- ->.
    pose proof (t_atom0_sound l s a a1 Hat Hb E0 cur o x h x' evs o' HG Hex) as H1.
    destruct (nd a1) eqn:En; [apply TGd_vac; assumption|exact H1].
  Qed.

  (* ---------------------------------------------------------------- conditions *)
  Lemma t_assume_sound c b a cur o x h o' : evalc c cur o x = Some (b, o') -> TG a cur x h -> TG (t_assume c b a) cur x h.
  Proof.
    intros Hev HG. unfold TG in *.
    destruct c; simpl; try exact HG; try (destruct b; exact HG).
    - (* FitLt *)
      destruct b; [|exact HG]. simpl in Hev.
      destruct (getr a0 cur x) as [p|] eqn:E1; [|discriminate]. destruct (getr b0 cur x) as [q|] eqn:E2; [|discriminate].
      injection Hev as Hk _.
      destruct (d_f _ _ _ _ HG) as [F1 F2 F3 F4 F5].
      revert HG. apply TGd_refacts; try (repeat split; fail).
      constructor; simpl; try assumption.
      intros p0 Hp. injection Hp as <-. exists p, q. simpl. auto.
    - (* TmpLt *)
      simpl in Hev. destruct (getr a0 cur x) as [p|] eqn:E1; [|discriminate]. injection Hev as Hk _.
      destruct b.
      + destruct (d_f _ _ _ _ HG) as [F1 F2 F3 F4 F5].
        revert HG. apply TGd_refacts; try (repeat split; fail).
        constructor; simpl; try assumption.
        intros r Hr. injection Hr as <-. exists p. auto.
      + destruct (f1_is (tq a) a0 && sent (rd a0 a)) eqn:E; [|exact HG]. exfalso.
        apply andb_true_iff in E as [Eq Es]. apply f1_is_eq in Eq.
        destruct (f_tq _ _ _ (d_f _ _ _ _ HG) _ Eq) as (a1 & H1 & H2). rewrite E1 in H1. injection H1 as <-.
        pose proof (TGp_read _ _ _ _ _ _ (d_p _ _ _ _ HG) E1) as (_ & _ & _ & K).
        specialize (K Es (apos p)). rewrite <- H2 in K. congruence.
  Qed.

  (* ---------------------------------------------------------------- binding the loop slot *)
  Lemma t_enter_sound a i x h : TG a None x h -> TG (t_enter a) (Some i) x h.
  Proof.
    unfold TG. intros [[P0 P1 P2 P3 P4 P5 P6 P7] HF [R1 R2] Hnd Hok Hadj].
    constructor; try assumption.
    - constructor; simpl; try assumption.
      + intros j ag Hn. specialize (P2 j ag Hn). unfold cls in *; simpl in *.
        destruct (j <? i); [|destruct (j =? i)]; exact P2.
      + intros j ag Hn. specialize (P5 j ag Hn). unfold shcls in *; simpl in *. destruct (j =? i); exact P5.
    - apply TGf_none; reflexivity.
    - constructor; assumption.
  Qed.

  Lemma t_exit_sound a i x h : TG a (Some i) x h -> TG (t_exit a) None x h.
  Proof.
    unfold TG. intros [[P0 P1 P2 P3 P4 P5 P6 P7] HF [R1 R2] Hnd Hok Hadj].
    constructor; try assumption.
    - constructor; simpl; try assumption.
      + intros j ag Hn. eapply sok_mono; [apply (allpop_cls a (Some i) j)|]. apply P2; exact Hn.
      + intros j ag Hn. specialize (P5 j ag Hn). unfold shcls in *; simpl in *.
        destruct (j =? i); (eapply aok_mono; [|exact P5]); [apply meet_r|apply meet_l].
    - apply TGf_none; reflexivity.
    - constructor; assumption.
  Qed.

  Lemma absint0_sound : forall s l incur a a', th_absint0 hm useloc gm l incur s a = (a', []) ->
    forall cur o x h x' evs o', (if incur then exists i, cur = Some i else cur = None) ->
      TG a cur x h -> exec lbs ubs f hk n_iter okc cur s o x = Some (x', evs, o') -> TG a' cur x' (h ++ evs).
  Proof.
    intros s l incur a a' Habs cur o x h x' evs o' Hc HG Hex.
    eapply (absint_sound lbs ubs f hk n_iter okc ta ta_leb ta_join (th_atom hm useloc gm) t_assume t_enter t_exit no_special TG);
      try eassumption.
    - apply ta_leb_refl.
    - apply ta_leb_trans.
    - apply ta_join_l.
    - apply ta_join_r.
    - intros; eapply TG_mono; eassumption.
    - intros; eapply t_atom_sound; eassumption.
    - intros; eapply t_assume_sound; eassumption.
    - apply t_enter_sound.
    - apply t_exit_sound.
    - intros; discriminate.
  Qed.

  (* ---------------------------------------------------------------- the strong update for "for agent in agents" *)
  Lemma enter3_mono a b : ta_leb a b = true -> ta_leb (enter3 a) (enter3 b) = true.
  Proof.
    unfold ta_leb, enter3; cbn [bot lo cu hi be tr_ sa sc pf fl tl tq ff srt rk nd mk]. destruct (bot a); cbn [orb negb andb]; [reflexivity|]. destruct (bot b); cbn [orb negb andb]; [discriminate|].
    rewrite !andb_true_iff.
    intros [[[[[[[[[[[[[[H1 H2] H3] H4] H5] H6] H7] H8] H9] H10] H11] H15] H12] H13] H14]. repeat split; assumption.
  Qed.

  Lemma start3_sound a x h : TG a None x h -> TG (enter3 (start3 a)) (Some 0) x h.
  Proof.
    unfold TG. intros [[P0 P1 P2 P3 P4 P5 P6 P7] HF [R1 R2] Hnd Hok Hadj].
    constructor; try assumption.
    - constructor; simpl; try assumption.
      + intros j ag Hn. specialize (P2 j ag Hn). unfold cls in *; simpl in *. destruct (j =? 0); exact P2.
      + intros j ag Hn. specialize (P5 j ag Hn). unfold shcls in *; simpl in *. destruct (j =? 0); exact P5.
    - apply TGf_none; reflexivity.
    - constructor; assumption.
  Qed.

  Lemma step3_sound a i x h : TG a (Some i) x h -> TG (enter3 (step3 a)) (Some (S i)) x h.
  Proof.
    unfold TG. intros [[P0 P1 P2 P3 P4 P5 P6 P7] HF [R1 R2] Hnd Hok Hadj].
    constructor; try assumption.
    - constructor; simpl; try assumption.
      + intros j ag Hn. specialize (P2 j ag Hn). unfold cls in *; simpl in *.
        destruct (j <? S i) eqn:E1.
        * destruct (j <? i) eqn:E2; [eapply sok_mono; [apply meet_l|exact P2]|].
          assert (j = i) by (apply Nat.ltb_lt in E1; apply Nat.ltb_ge in E2; lia). subst j.
          rewrite Nat.eqb_refl in P2. eapply sok_mono; [apply meet_r|exact P2].
        * assert (Hj : S i <= j) by (apply Nat.ltb_ge in E1; exact E1).
          assert (E2 : j <? i = false) by (apply Nat.ltb_ge; lia). assert (E3 : j =? i = false) by (apply Nat.eqb_neq; lia).
          rewrite E2, E3 in P2. destruct (j =? S i); exact P2.
      + intros j ag Hn. specialize (P5 j ag Hn). unfold shcls in *; simpl in *.
        assert (K : aok (meet (sa a) (sc a)) ag) by (destruct (j =? i); (eapply aok_mono; [|exact P5]); [apply meet_r|apply meet_l]).
        destruct (j =? S i); exact K.
    - apply TGf_none; reflexivity.
    - constructor; assumption.
  Qed.

  Lemma fin3_sound a x h : TG (enter3 a) (Some N) x h -> TG (fin3 a) None x h.
  Proof.
    unfold TG. intros [[P0 P1 P2 P3 P4 P5 P6 P7] HF [R1 R2] Hnd Hok Hadj].
    constructor; try assumption.
    - constructor; simpl in *; try assumption.
      + intros j ag Hn. specialize (P2 j ag Hn). unfold cls in *; simpl in *.
        assert (Hj : j <? N = true). { apply Nat.ltb_lt. rewrite <- P1. apply nth_error_Some. congruence. }
        rewrite Hj in P2. exact P2.
      + intros j ag Hn. specialize (P5 j ag Hn). unfold shcls in *; simpl in *. destruct (j =? N); exact P5.
    - apply TGf_none; reflexivity.
    - constructor; assumption.
  Qed.

  Lemma sweep_inv b l J j1 :
    th_absint0 hm useloc gm l true b (enter3 J) = (j1, []) -> ta_leb (step3 j1) J = true ->
    forall n i o x h x' evs o', TG (enter3 J) (Some i) x h ->
      iter_slots i n (fun k => exec lbs ubs f hk n_iter okc (Some k) b) o x = Some (x', evs, o') ->
      TG (enter3 J) (Some (i + n)) x' (h ++ evs).
  Proof.
    intros Hb Hst n. induction n as [|n IH]; intros i o x h x' evs o' HG H; simpl in H.
    - unfold ret in H. injection H as <- <- <-. rewrite app_nil_r, Nat.add_0_r. exact HG.
    - apply bind_some in H as (x1 & e1 & o1 & e2 & H1 & H2 & ->).
      rewrite app_assoc, Nat.add_succ_r. change (S (i + n)) with (S i + n). eapply IH; [|exact H2].
      eapply TG_mono; [apply enter3_mono; exact Hst|]. apply step3_sound.
      eapply absint0_sound; [exact Hb|exists i; reflexivity|exact HG|exact H1].
  Qed.

  Lemma t_special_sound : forall l incur s a a', th_special hm useloc gm l incur s a = Some (a', []) ->
    forall cur o x h x' evs o', (if incur then exists i, cur = Some i else cur = None) ->
      TG a cur x h -> exec lbs ubs f hk n_iter okc cur s o x = Some (x', evs, o') -> TG a' cur x' (h ++ evs).
  Proof.
    intros l incur s a a' Hsp cur o x h x' evs o' Hc HG Hex.
    destruct s; simpl in Hsp; try discriminate.
    destruct incur; [discriminate|]. subst cur.
    pose proof (p_bot _ _ _ _ (d_p _ _ _ _ HG)) as Hb. rewrite Hb in Hsp.
    destruct (loop ta ta_leb ta_join l _ (start3 a)) as [J al] eqn:EL. injection Hsp as <- ->.
    apply (loop_sound ta ta_leb ta_join ta_leb_refl ta_leb_trans ta_join_l) in EL as [Hle (j' & HF & Hst)].
    destruct (th_absint0 hm useloc gm l true s (enter3 J)) as [j1 al1] eqn:E1. injection HF as <- ->.
    simpl in Hex. rewrite (p_len _ _ _ _ (d_p _ _ _ _ HG)) in Hex.
    apply fin3_sound. change (Some N) with (Some (0 + N)).
    eapply sweep_inv; [exact E1|exact Hst| |exact Hex].
    eapply TG_mono; [apply enter3_mono; exact Hle|]. apply start3_sound. exact HG.
  Qed.

  Theorem t_sound : forall s l a a', th_absint hm useloc gm l false s a = (a', []) ->
    forall o x h x' evs o', TG a None x h -> exec lbs ubs f hk n_iter okc None s o x = Some (x', evs, o') ->
      TG a' None x' (h ++ evs).
  Proof.
    intros s l a a' Habs o x h x' evs o' HG Hex.
    eapply (absint_sound lbs ubs f hk n_iter okc ta ta_leb ta_join (th_atom hm useloc gm) t_assume t_enter t_exit (th_special hm useloc gm) TG)
      with (incur := false) (cur := None); try eassumption; try reflexivity.
    - apply ta_leb_refl.
    - apply ta_leb_trans.
    - apply ta_join_l.
    - apply ta_join_r.
    - intros; eapply TG_mono; eassumption.
    - intros; eapply t_atom_sound; eassumption.
    - intros; eapply t_assume_sound; eassumption.
    - apply t_enter_sound.
    - apply t_exit_sound.
    - intros; eapply t_special_sound; eassumption.
  Qed.
End Sound.

(* ================================================================ the property, for every IR program that passes the check *)
Section Main.
  Variables (lbs ubs : list Z) (f : contents -> Z) (n_iter : nat).
  Hypothesis box_ok : Forall2 (fun l h => kle l h = true) lbs ubs.

  (* the state at the start of run(): a freshly built space (positions sampled inside the box -- C06), best agent, trial and
     local positions well formed; for the particle-swarm family one local position per agent, and every fitness still the
     sentinel: above every value of the objective *)
  Record init_ok (ul : bool) (x : st) : Prop := {
    i_pop : Forall (fun a => feasible lbs ubs (apos a) = true) (pop x);
    i_best : wf lbs (apos (best x));
    i_tr : wf lbs (apos (tr x));
    i_sh : Forall (fun a => wf lbs (apos a)) (sh x);
    i_loc : Forall (wf lbs) (loc x);
    i_ll : ul = true -> length (loc x) = length (pop x);
    i_sent : ul = true -> Forall (fun a => forall c, klt (f c) (afit a) = true) (pop x)
  }.

  Lemma init_TG ul g x : init_ok ul x -> TG lbs ubs f (length (pop x)) ul g (t_init ul) None x [].
  Proof.
    intros [I1 I2 I3 I4 I5 I6 I7]. unfold TG; simpl.
    constructor; simpl.
    - constructor; simpl; try reflexivity.
      + intros j ag Hn. apply nth_error_In in Hn.
        rewrite Forall_forall in I1. specialize (I1 ag Hn).
        split; [split; [eapply feasible_wf; [exact f|exact I1]|split; [intros _; exact I1|split; [discriminate|]]]|split; simpl; discriminate].
        simpl. intros Hu. specialize (I7 Hu). rewrite Forall_forall in I7. apply I7. exact Hn.
      + split; [exact I2|repeat split; discriminate].
      + split; [exact I3|repeat split; discriminate].
      + intros j ag Hn. apply nth_error_In in Hn. rewrite Forall_forall in I4.
        split; [apply I4; exact Hn|repeat split; discriminate].
      + intros c Hc. rewrite Forall_forall in I5. apply I5. exact Hc.
      + exact I6.
    - apply TGf_none; reflexivity.
    - constructor; simpl; [discriminate|]. intros _ y Hy. discriminate.
    - reflexivity.
    - constructor.
    - exact I.
  Qed.

  (* what "truthful" means for one record *)
  Definition truthful (ul : bool) (y : st) : Prop :=
    if ul then Forall2 (fun a c => afit a = f c) (pop y) (loc y)
    else Forall (fun a => afit a = f (apos a)) (pop y).

  Definition slot_mono (y1 y2 : st) : Prop := Forall2 (fun a1 a2 => kle (afit a2) (afit a1) = true) (pop y1) (pop y2).
  Definition rank_mono (y1 y2 : st) : Prop := rank_le (fits (pop y2)) (fits (pop y1)).

  (* the analysis in hook mode [hm] is sound for every hook allowed by that mode *)
  Lemma th_check_sound (hm : bool) (h : st -> st) ul g p :
    (if hm then hook_moves_positions_only lbs h else forall x, h x = x) -> th_check hm ul g p = true ->
    forall o x0 x' evs o', init_ok ul x0 -> run lbs ubs f h n_iter okc p o x0 = Some (x', evs, o') ->
      Forall (dump_ok f (length (pop x0)) ul) (dumps evs) /\ adj st (Rel g) (dumps evs).
  Proof.
    unfold th_check. intros Hh Hc o x0 x' evs o' Hi Hr.
    destruct (th_absint hm ul g 0 false p (t_init ul)) as [a' al] eqn:E. destruct al; [|discriminate].
    pose proof (t_sound lbs ubs f n_iter (length (pop x0)) ul g box_ok hm h Hh p 0 _ _ E o x0 [] x' evs o' (init_TG ul g x0 Hi) Hr) as HG.
    simpl in HG. split; [apply (d_ok _ _ _ _ _ _ _ _ _ _ HG)|apply (d_adj _ _ _ _ _ _ _ _ _ _ HG)].
  Qed.

  Lemma t_check_sound ul g p : t_check ul g p = true ->
    forall o x0 x' evs o', init_ok ul x0 -> run lbs ubs f hk n_iter okc p o x0 = Some (x', evs, o') ->
      Forall (dump_ok f (length (pop x0)) ul) (dumps evs) /\ adj st (Rel g) (dumps evs).
  Proof. apply (th_check_sound false hk ul g p). intros x. reflexivity. Qed.

  (* clause 1 for every hook that only moves positions (clause 2 is stated for observer hooks only: a moved agent is
     re-evaluated by the sweep, so its fitness may well increase) *)
  Theorem c20h_truthful_of_check (h : st -> st) p : hook_moves_positions_only lbs h -> c20h_check p = true ->
    forall o x0 x' evs o', init_ok (is_pso p) x0 -> run lbs ubs f h n_iter okc p o x0 = Some (x', evs, o') ->
      forall y, In (EvDump y) evs -> truthful (is_pso p) y.
  Proof.
    intros Hh Hc o x0 x' evs o' Hi Hr y Hy.
    destruct (th_check_sound true h _ _ _ Hh Hc o x0 x' evs o' Hi Hr) as [H _].
    rewrite Forall_forall in H. apply dumps_in in Hy. destruct (H y Hy) as [_ K]. exact K.
  Qed.

  (* clause 1 *)
  Theorem c20_truthful_of_check p : c20_check p = true ->
    forall o x0 x' evs o', init_ok (is_pso p) x0 -> run lbs ubs f hk n_iter okc p o x0 = Some (x', evs, o') ->
      forall y, In (EvDump y) evs -> truthful (is_pso p) y.
  Proof.
    intros Hc o x0 x' evs o' Hi Hr y Hy.
    destruct (t_check_sound _ _ _ Hc o x0 x' evs o' Hi Hr) as [H _].
    rewrite Forall_forall in H. apply dumps_in in Hy. destruct (H y Hy) as [_ K]. exact K.
  Qed.

  Lemma consecutive_dumps R evs h1 y1 h2 y2 h3 :
    adj st R (dumps evs) -> evs = h1 ++ EvDump y1 :: h2 ++ EvDump y2 :: h3 -> dumps h2 = [] -> R y1 y2.
  Proof.
    intros Ha -> H2. rewrite dumps_app in Ha. simpl in Ha. rewrite dumps_app, H2 in Ha. simpl in Ha.
    eapply adj_split; eassumption.
  Qed.

  (* clause 2, per agent: between two consecutive records no agent's fitness increases *)
  Theorem c20_greedy_slot_of_check p : t_check (is_pso p) GSlot p = true ->
    forall o x0 x' evs o', init_ok (is_pso p) x0 -> run lbs ubs f hk n_iter okc p o x0 = Some (x', evs, o') ->
      forall h1 y1 h2 y2 h3, evs = h1 ++ EvDump y1 :: h2 ++ EvDump y2 :: h3 -> dumps h2 = [] -> slot_mono y1 y2.
  Proof.
    intros Hc o x0 x' evs o' Hi Hr h1 y1 h2 y2 h3 He H2.
    destruct (t_check_sound _ _ _ Hc o x0 x' evs o' Hi Hr) as [_ H].
    apply (consecutive_dumps _ _ _ _ _ _ _ H He H2).
  Qed.

  (* clause 2, per rank: the k-th best fitness never gets worse *)
  Theorem c20_greedy_rank_of_check p : t_check (is_pso p) GRank p = true ->
    forall o x0 x' evs o', init_ok (is_pso p) x0 -> run lbs ubs f hk n_iter okc p o x0 = Some (x', evs, o') ->
      forall h1 y1 h2 y2 h3, evs = h1 ++ EvDump y1 :: h2 ++ EvDump y2 :: h3 -> dumps h2 = [] -> rank_mono y1 y2.
  Proof.
    intros Hc o x0 x' evs o' Hi Hr h1 y1 h2 y2 h3 He H2.
    destruct (t_check_sound _ _ _ Hc o x0 x' evs o' Hi Hr) as [_ H].
    apply (consecutive_dumps _ _ _ _ _ _ _ H He H2).
  Qed.

  (* both clause-2 checks also give clause 1 *)
  Theorem c20_greedy_truthful p g : t_check (is_pso p) g p = true ->
    forall o x0 x' evs o', init_ok (is_pso p) x0 -> run lbs ubs f hk n_iter okc p o x0 = Some (x', evs, o') ->
      forall y, In (EvDump y) evs -> truthful (is_pso p) y.
  Proof.
    intros Hc o x0 x' evs o' Hi Hr y Hy.
    destruct (t_check_sound _ _ _ Hc o x0 x' evs o' Hi Hr) as [H _].
    rewrite Forall_forall in H. apply dumps_in in Hy. destruct (H y Hy) as [_ K]. exact K.
  Qed.
End Main.

(* ================================================================ a concrete objective for the witnesses in Props/C20.v *)
Open Scope Z_scope.
Definition fsum (c : contents) : Z :=
  fold_right (fun row acc => fold_right (fun k acc2 => match k with Some v => v + acc2 | None => acc2 end) acc row) 0 c.
Definition fchk (c : contents) : Z := (fsum c) mod 1000.       (* a checksum of the keys *)

Lemma fchk_below_sentinel c : klt (fchk c) KMAX = true.
Proof.
  unfold fchk. pose proof (Z.mod_pos_bound (fsum c) 1000 eq_refl) as [H1 H2].
  unfold klt, nk. destruct (fsum c mod 1000 =? -1) eqn:E; [apply Z.eqb_eq in E; lia|].
  change (KMAX =? -1) with false. apply Z.ltb_lt. unfold KMAX. lia.
Qed.
Close Scope Z_scope.

(* a decidable refutation of clause 1 (position form) on one run with the objective [fchk] *)
Definition refutes_truthful (r : res) : bool :=
  match r with
  | Some (_, evs, _) => existsb (fun y => negb (forallb (fun a => Z.eqb (afit a) (fchk (apos a))) (pop y))) (dumps evs)
  | None => false
  end.

Lemma refutes_truthful_spec r : refutes_truthful r = true ->
  exists x' evs o' y, r = Some (x', evs, o') /\ In (EvDump y) evs /\ ~ truthful fchk false y.
Proof.
  destruct r as [[[x' evs] o']|]; simpl; [|discriminate].
  intros H. apply existsb_exists in H as (y & Hy & Hn). exists x', evs, o', y.
  split; [reflexivity|split; [apply dumps_in; exact Hy|]].
  intros Ht. apply negb_true_iff in Hn. unfold truthful in Ht.
  assert (forallb (fun a => Z.eqb (afit a) (fchk (apos a))) (pop y) = true); [|congruence].
  apply forallb_forall. intros a Ha. rewrite Forall_forall in Ht. apply Z.eqb_eq. apply Ht. exact Ha.
Qed.

(* a hook that really moves an agent: the first agent is put at key 5 (one variable, one dimension); used by the witnesses *)
Definition hook_move0 (x : st) : st :=
  with_pop x (match pop x with
              | a :: t => {| apos := [[Some 5%Z]]; aid := aid a; afit := afit a |} :: t
              | [] => [] end).

Lemma hook_move0_ok : hook_moves_positions_only [0%Z] hook_move0.
Proof.
  intros x. unfold hook_move0. destruct (pop x) as [|b t] eqn:E; simpl.
  - refine (conj eq_refl (conj eq_refl (conj eq_refl (conj eq_refl (conj eq_refl _))))). intros _ a0 [].
  - refine (conj eq_refl (conj eq_refl (conj eq_refl (conj eq_refl (conj eq_refl _))))).
    intros H a0 [<-|Ha]; [split; reflexivity|apply H; right; exact Ha].
Qed.

(* the base sweep (Optimizer._evaluate) *)
Definition base_sweep : stmt :=
  ForSlots (Seq (Eval Cur) (If (FitLt Cur Best) (Seq (CopyPos Best Cur) (CopyFit Best Cur)) Skip)).
