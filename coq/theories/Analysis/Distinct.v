(* C07 (IR part): agents are independent objects and the population keeps its size and shape.

   The IR semantics (Model/IRSem.v) carries an array identifier [aid] per agent: a statement that
   rebinds a position to a new array (arithmetic result, deep copy) takes the fresh identifier
   [next x], in-place mutation keeps the identifier, swaps exchange identifiers.  The IR has no
   aliasing construct (T2 aborts on `x.position = y.position`; that classification is T2's trusted
   part, validated by the run monitor's np.shares_memory sweep).

   This file proves, for EVERY IR statement (no per-program check at all), that the invariant
     - [length (pop x) = n],
     - the identifiers of  pop ++ best :: tr :: sh  are pairwise distinct and all below [next x]
       (so that a fresh identifier is new),
     - every position of  pop ++ best :: tr :: sh  and every local position has the row lengths [sp]
   is preserved by every execution, under the standard admissibility [okc_std] of arithmetic results
   (same shape as the array replaced) and for every hook that preserves the invariant (in particular the
   observer), and that it holds in the snapshot carried by every [EvHook] / [EvDump] event. *)
From Coq Require Import String ZArith List Bool Arith Lia Permutation.
From OV Require Import Base.FloatKey Model.Clip Model.IR Model.IRSem Analysis.AbsInt Analysis.SemLemmas.
Import ListNotations.
Close Scope Z_scope.
Open Scope nat_scope.

(* row lengths of a position array: the (variables, dimensions) shape *)
Definition shp (c : contents) : list nat := map (@length okey) c.

(* every agent object of the state, in one list *)
Definition allag (x : st) : list agent := pop x ++ best x :: tr x :: sh x.

(* ---------------------------------------------------------------- lists *)
Lemma upd_app_l {A} i (a : A) l1 l1' l2 : upd i a l1 = Some l1' -> upd i a (l1 ++ l2) = Some (l1' ++ l2).
Proof.
  revert i l1'. induction l1 as [|h0 t IH]; intros [|i] l1' H; simpl in H; try discriminate.
  - injection H as <-. reflexivity.
  - destruct (upd i a t) as [t'|] eqn:E; [|discriminate]. injection H as <-. simpl. rewrite (IH _ _ E). reflexivity.
Qed.

Lemma upd_app_r {A} i (a : A) l1 l2 l2' : upd i a l2 = Some l2' -> upd (length l1 + i) a (l1 ++ l2) = Some (l1 ++ l2').
Proof. intros H. induction l1 as [|h0 t IH]; simpl; [exact H|]. rewrite IH. reflexivity. Qed.

Lemma nth_error_app_r {A} (l1 l2 : list A) i : nth_error (l1 ++ l2) (length l1 + i) = nth_error l2 i.
Proof. induction l1 as [|h0 t IH]; simpl; [reflexivity|exact IH]. Qed.

Lemma nth_error_app_l {A} (l1 l2 : list A) i a : nth_error l1 i = Some a -> nth_error (l1 ++ l2) i = Some a.
Proof.
  intros H. rewrite nth_error_app1; [exact H|]. apply nth_error_Some. congruence.
Qed.

Lemma upd_Forall {A} (P : A -> Prop) i a l l' : Forall P l -> P a -> upd i a l = Some l' -> Forall P l'.
Proof.
  intros HF Ha Hu. apply Forall_forall. intros b Hb.
  destruct (upd_in _ _ _ _ _ Hu Hb) as [->|Hin]; [exact Ha|]. rewrite Forall_forall in HF. apply HF; exact Hin.
Qed.

Lemma upd_nth_lt {A} i (a : A) l l' : upd i a l = Some l' -> i < length l.
Proof. intros H. apply upd_old in H as [b Hb]. apply nth_error_Some. congruence. Qed.

Lemma NoDup_upd_fresh {A} i (v : A) l l' : NoDup l -> ~ In v l -> upd i v l = Some l' -> NoDup l'.
Proof.
  revert i l'. induction l as [|h0 t IH]; intros [|i] l' Hnd Hv Hu; simpl in Hu; try discriminate.
  - injection Hu as <-. inversion Hnd; subst. constructor; [|assumption]. intros Hin. apply Hv. right; exact Hin.
  - destruct (upd i v t) as [t'|] eqn:E; [|discriminate]. injection Hu as <-.
    inversion Hnd as [|? ? Hh Ht]; subst. constructor.
    + intros Hin. destruct (upd_in _ _ _ _ _ E Hin) as [->|Hin']; [apply Hv; left; reflexivity|contradiction].
    + eapply IH; [exact Ht| |exact E]. intros Hin. apply Hv. right; exact Hin.
Qed.

(* exchanging the entries at two positions keeps a list duplicate-free (the positions may coincide) *)
Lemma NoDup_upd_swap {A} ka kb (p q : A) l l1 l2 :
  NoDup l -> nth_error l ka = Some p -> nth_error l kb = Some q ->
  upd ka q l = Some l1 -> upd kb p l1 = Some l2 -> NoDup l2.
Proof.
  intros Hnd Hp Hq H1 H2.
  pose proof (upd_length _ _ _ _ H1) as L1. pose proof (upd_length _ _ _ _ H2) as L2.
  assert (Hka : ka < length l) by (apply nth_error_Some; congruence).
  assert (Hkb : kb < length l) by (apply nth_error_Some; congruence).
  set (g := fun i => if Nat.eq_dec i kb then ka else if Nat.eq_dec i ka then kb else i).
  assert (Hg : forall i, nth_error l2 i = nth_error l (g i)).
  { intros i. unfold g. destruct (Nat.eq_dec i kb) as [->|Nb].
    - rewrite (upd_nth_same _ _ _ _ H2). symmetry; exact Hp.
    - rewrite (upd_nth_other _ _ _ _ _ H2 Nb). destruct (Nat.eq_dec i ka) as [->|Na].
      + rewrite (upd_nth_same _ _ _ _ H1). symmetry; exact Hq.
      + apply (upd_nth_other _ _ _ _ _ H1 Na). }
  rewrite NoDup_nth_error in Hnd. apply NoDup_nth_error. intros i j Hi Hij.
  rewrite !Hg in Hij.
  assert (Hgi : g i < length l).
  { unfold g. destruct (Nat.eq_dec i kb); [exact Hka|]. destruct (Nat.eq_dec i ka); [exact Hkb|]. lia. }
  apply Hnd in Hij; [|exact Hgi]. revert Hij. unfold g.
  destruct (Nat.eq_dec i kb), (Nat.eq_dec i ka), (Nat.eq_dec j kb), (Nat.eq_dec j ka); intros; subst; try lia; congruence.
Qed.

Lemma NoDup_app_intro {A} (l1 l2 : list A) :
  NoDup l1 -> NoDup l2 -> (forall a, In a l1 -> ~ In a l2) -> NoDup (l1 ++ l2).
Proof.
  intros H1 H2 Hd. induction H1 as [|a0 l1 Ha0 H1 IH]; simpl; [exact H2|].
  constructor.
  - intros Hin. apply in_app_or in Hin as [Hin|Hin]; [contradiction|]. apply (Hd a0); [left; reflexivity|exact Hin].
  - apply IH. intros a1 Ha1. apply Hd. right; exact Ha1.
Qed.

Lemma NoDup_app_l {A} (l1 l2 : list A) : NoDup (l1 ++ l2) -> NoDup l1.
Proof.
  induction l1 as [|a0 l1 IH]; simpl; intros H; [constructor|].
  inversion H as [|? ? Hn Hr]; subst. constructor; [|apply IH; exact Hr].
  intros Hin. apply Hn. apply in_or_app. left; exact Hin.
Qed.

(* ---------------------------------------------------------------- the sort is a permutation *)
Lemma ins_fit_perm a l : Permutation (ins_fit a l) (a :: l).
Proof.
  induction l as [|b t IH]; simpl; [apply Permutation_refl|].
  destruct (klt (afit a) (afit b)); [apply Permutation_refl|].
  eapply Permutation_trans; [apply perm_skip; exact IH|apply perm_swap].
Qed.

Lemma sort_fit_perm l : Permutation (sort_fit l) l.
Proof.
  induction l as [|a t IH]; simpl; [apply perm_nil|].
  eapply Permutation_trans; [apply ins_fit_perm|apply perm_skip; exact IH].
Qed.

Lemma sort_fit_length l : length (sort_fit l) = length l.
Proof. apply Permutation_length, sort_fit_perm. Qed.

(* ---------------------------------------------------------------- deep copy of the population *)
Lemma copy_all_ids n l : map aid (copy_all n l) = seq n (length l).
Proof. revert n. induction l as [|a t IH]; intros n; simpl; [reflexivity|]. rewrite IH. reflexivity. Qed.

Lemma copy_all_Forall_pos (P : contents -> Prop) n l :
  Forall (fun a => P (apos a)) l -> Forall (fun a => P (apos a)) (copy_all n l).
Proof. intros H. revert n. induction H as [|a t Ha Ht IH]; intros n; simpl; constructor; [exact Ha|apply IH]. Qed.

Lemma copy_all_length n l : length (copy_all n l) = length l.
Proof. revert n. induction l as [|a t IH]; intros n; simpl; [reflexivity|]. rewrite IH. reflexivity. Qed.

(* ---------------------------------------------------------------- references as indices into [allag] *)
Definition ridx (r : ref) (cur : option nat) (x : st) : option nat :=
  match r with
  | Best => Some (length (pop x) + 0)
  | Tr => Some (length (pop x) + 1)
  | Sh => match cur with Some i => Some (length (pop x) + (2 + i)) | None => None end
  | _ => slot_of r cur x
  end.

Lemma getr_all r cur x a : getr r cur x = Some a ->
  exists k, ridx r cur x = Some k /\ nth_error (allag x) k = Some a.
Proof.
  intros H. apply getr_readat in H. unfold allag.
  destruct H as [-> -> | -> -> | i -> -> Hn | i Hs Hi Hn].
  - eexists; split; [reflexivity|]. rewrite nth_error_app_r. reflexivity.
  - eexists; split; [reflexivity|]. rewrite nth_error_app_r. reflexivity.
  - eexists; split; [reflexivity|]. rewrite nth_error_app_r. exact Hn.
  - exists i. split; [destruct r; try discriminate; exact Hi|]. apply nth_error_app_l; exact Hn.
Qed.

Lemma setr_all r cur a x x' : setr r cur a x = Some x' ->
  exists k, ridx r cur x = Some k /\ upd k a (allag x) = Some (allag x') /\
            loc x' = loc x /\ next x' = next x /\ length (pop x') = length (pop x) /\ idx x' = idx x.
Proof.
  intros H. apply setr_written in H. unfold allag.
  destruct H as [-> -> | -> -> | i l -> -> Hu -> | i l Hs Hi Hu ->]; simpl.
  - eexists; split; [reflexivity|]. split; [apply upd_app_r; reflexivity|]. repeat split; reflexivity.
  - eexists; split; [reflexivity|]. split; [apply upd_app_r; reflexivity|]. repeat split; reflexivity.
  - eexists; split; [reflexivity|]. split; [apply upd_app_r; simpl; rewrite Hu; reflexivity|]. repeat split; reflexivity.
  - exists i. split; [destruct r; try discriminate; exact Hi|]. split; [apply upd_app_l; exact Hu|].
    repeat split; try reflexivity. eapply upd_length; exact Hu.
Qed.

Lemma ridx_ext r cur x x' : idx x' = idx x -> length (pop x') = length (pop x) -> ridx r cur x' = ridx r cur x.
Proof. intros Hi Hl. destruct r; simpl; rewrite ?Hl, ?Hi; reflexivity. Qed.

(* ---------------------------------------------------------------- the invariant *)
Record Inv (n : nat) (sp : list nat) (x : st) : Prop := {
  i_len : length (pop x) = n;
  i_nodup : NoDup (map aid (allag x));
  i_lt : Forall (fun a => aid a < next x) (allag x);
  i_shp : Forall (fun a => shp (apos a) = sp) (allag x);
  i_loc : Forall (fun c => shp c = sp) (loc x)
}.

Section Inv.
  Variables (n : nat) (sp : list nat).
  Notation Inv := (Inv n sp).

  Lemma Inv_read r cur x a : Inv x -> getr r cur x = Some a -> aid a < next x /\ shp (apos a) = sp.
  Proof.
    intros [_ _ H3 H4 _] Hg. apply getr_all in Hg as (k & _ & Hk). apply nth_error_In in Hk.
    rewrite Forall_forall in H3, H4. split; [apply H3|apply H4]; exact Hk.
  Qed.

  (* a write that keeps the array identifier (in-place mutation, fitness update) *)
  Lemma Inv_write_same r cur x a a' x' :
    Inv x -> getr r cur x = Some a -> setr r cur a' x = Some x' ->
    aid a' = aid a -> shp (apos a') = sp -> Inv x'.
  Proof.
    intros HI Hg Hs Hid Hsh. pose proof (Inv_read _ _ _ _ HI Hg) as [Hlt _].
    destruct HI as [H1 H2 H3 H4 H5].
    apply getr_all in Hg as (k & Hk & Hn). apply setr_all in Hs as (k' & Hk' & Hu & E1 & E2 & E3 & _).
    rewrite Hk in Hk'. injection Hk' as <-.
    constructor.
    - rewrite E3; exact H1.
    - rewrite (upd_same_image aid _ _ _ _ _ Hu Hn Hid). exact H2.
    - rewrite E2. eapply upd_Forall; [exact H3| |exact Hu]. rewrite Hid; exact Hlt.
    - eapply upd_Forall; [exact H4|exact Hsh|exact Hu].
    - rewrite E1; exact H5.
  Qed.

  (* a write that rebinds the position to a new array *)
  Lemma Inv_write_fresh r cur x a' x' :
    Inv x -> setr r cur a' x = Some x' -> aid a' = next x -> shp (apos a') = sp ->
    Inv (with_next x' (S (next x))).
  Proof.
    intros [H1 H2 H3 H4 H5] Hs Hid Hsh.
    apply setr_all in Hs as (k & _ & Hu & E1 & E2 & E3 & _).
    constructor; simpl; change (allag (with_next x' (S (next x)))) with (allag x').
    - rewrite E3; exact H1.
    - eapply NoDup_upd_fresh; [exact H2| |apply upd_map; exact Hu]. rewrite Hid.
      intros Hin. apply in_map_iff in Hin as (b & Hb & Hin). rewrite Forall_forall in H3. apply H3 in Hin. lia.
    - eapply upd_Forall; [|rewrite Hid; apply Nat.lt_succ_diag_r|exact Hu].
      eapply Forall_impl; [|exact H3]. simpl. intros b Hb. lia.
    - eapply upd_Forall; [exact H4|exact Hsh|exact Hu].
    - rewrite E1; exact H5.
  Qed.

  (* a step that touches no agent, no local position and no identifier *)
  Lemma Inv_frame x x' :
    Inv x -> allag x' = allag x -> next x' = next x -> loc x' = loc x -> length (pop x') = length (pop x) -> Inv x'.
  Proof.
    intros [H1 H2 H3 H4 H5] Ea En El Ep. constructor; rewrite ?Ea, ?En, ?El, ?Ep; assumption.
  Qed.

  Lemma okc_std_shp old new : okc_std old new = true -> shp new = shp old.
  Proof. intros H. apply okc_std_spec in H as [_ H]. exact H. Qed.

  Lemma clipc_shp lbs ubs c : shp (clipc lbs ubs c) = shp c.
  Proof. apply clip_rows_shape. Qed.

  Lemma allag_split x : allag x = (pop x ++ [best x; tr x]) ++ sh x.
  Proof. unfold allag. rewrite <- app_assoc. reflexivity. Qed.

  Section Exec.
    Variables (lbs ubs : list Z) (f : contents -> Z) (hk : st -> st) (n_iter : nat).
    Hypothesis hk_ok : forall x, Inv x -> Inv (hk x).

    Definition ev_inv (e : event) : Prop :=
      match e with EvHook y | EvDump y => Inv y | _ => True end.

    Ltac inv_ret H := unfold ret in H; injection H as <- <- <-.
    Ltac done_nil := split; [|constructor].

    Lemma atom_inv cur s o x x' evs o' :
      is_atom s = true -> Inv x -> exec_atom lbs ubs f hk okc_std cur s o x = Some (x', evs, o') ->
      Inv x' /\ Forall ev_inv evs.
    Proof.
      intros Hat HI Hex. destruct s; simpl in Hat; try discriminate; simpl in Hex.
      - (* Skip *) inv_ret Hex. done_nil. exact HI.
      - (* Havoc *)
        destruct o as [|[c|?|?|?] o1]; try discriminate.
        destruct (getr r cur x) as [ag|] eqn:Eg; [|discriminate].
        destruct (okc_std (apos ag) c) eqn:Eok; simpl in Hex; [|discriminate].
        pose proof (Inv_read _ _ _ _ HI Eg) as [_ Hsh]. apply okc_std_shp in Eok.
        destruct m.
        + destruct (setr r cur _ x) as [x1|] eqn:Es; [|discriminate]. inv_ret Hex. done_nil.
          eapply Inv_write_fresh; [exact HI|exact Es|reflexivity|]. simpl. congruence.
        + destruct (setr r cur _ x) as [x1|] eqn:Es; [|discriminate]. inv_ret Hex. done_nil.
          eapply Inv_write_same; [exact HI|exact Eg|exact Es|reflexivity|]. simpl. congruence.
      - (* Clip *)
        destruct (getr r cur x) as [ag|] eqn:Eg; [|discriminate].
        destruct (setr r cur _ x) as [x1|] eqn:Es; [|discriminate]. inv_ret Hex. done_nil.
        pose proof (Inv_read _ _ _ _ HI Eg) as [_ Hsh].
        eapply Inv_write_same; [exact HI|exact Eg|exact Es|reflexivity|]. simpl. rewrite clipc_shp. exact Hsh.
      - (* ClipAll *)
        inv_ret Hex. done_nil. destruct HI as [H1 H2 H3 H4 H5].
        assert (Hid : map aid (map (clipa lbs ubs) (pop x)) = map aid (pop x)).
        { rewrite map_map. apply map_ext. reflexivity. }
        unfold allag in *. constructor; unfold allag; simpl.
        + rewrite map_length; exact H1.
        + rewrite map_app, Hid, <- map_app. exact H2.
        + apply Forall_app in H3 as [H3a H3b]. apply Forall_app; split; [|exact H3b].
          apply Forall_map. eapply Forall_impl; [|exact H3a]. intros a Ha; exact Ha.
        + apply Forall_app in H4 as [H4a H4b]. apply Forall_app; split; [|exact H4b].
          apply Forall_map. eapply Forall_impl; [|exact H4a]. intros a Ha. simpl. rewrite clipc_shp. exact Ha.
        + exact H5.
      - (* Eval *)
        destruct (getr r cur x) as [ag|] eqn:Eg; [|discriminate].
        destruct (setr r cur _ x) as [x1|] eqn:Es; [|discriminate]. injection Hex as <- <- <-.
        pose proof (Inv_read _ _ _ _ HI Eg) as [_ Hsh].
        split; [|constructor; [exact I|constructor]].
        eapply Inv_write_same; [exact HI|exact Eg|exact Es|reflexivity|exact Hsh].
      - (* EvalTmp *)
        destruct (getr r cur x) as [ag|] eqn:Eg; [|discriminate]. injection Hex as <- <- <-.
        split; [|constructor; [exact I|constructor]].
        eapply Inv_frame; [exact HI|reflexivity..].
      - (* SetFitTmp *)
        destruct (getr r cur x) as [ag|] eqn:Eg; [|discriminate].
        destruct (setr r cur _ x) as [x1|] eqn:Es; [|discriminate]. inv_ret Hex. done_nil.
        pose proof (Inv_read _ _ _ _ HI Eg) as [_ Hsh].
        eapply Inv_write_same; [exact HI|exact Eg|exact Es|reflexivity|exact Hsh].
      - (* CopyPos *)
        destruct (getr d cur x) as [ag|] eqn:Eg; [|discriminate].
        destruct (getr s cur x) as [bg|] eqn:Eg2; [|discriminate].
        destruct (setr d cur _ x) as [x1|] eqn:Es; [|discriminate]. inv_ret Hex. done_nil.
        pose proof (Inv_read _ _ _ _ HI Eg2) as [_ Hsh].
        eapply Inv_write_fresh; [exact HI|exact Es|reflexivity|exact Hsh].
      - (* CopyFit *)
        destruct (getr d cur x) as [ag|] eqn:Eg; [|discriminate].
        destruct (getr s cur x) as [bg|] eqn:Eg2; [|discriminate].
        destruct (setr d cur _ x) as [x1|] eqn:Es; [|discriminate]. inv_ret Hex. done_nil.
        pose proof (Inv_read _ _ _ _ HI Eg) as [_ Hsh].
        eapply Inv_write_same; [exact HI|exact Eg|exact Es|reflexivity|exact Hsh].
      - (* LocFromPos *)
        destruct cur as [i|]; [|discriminate].
        destruct (nth_error (pop x) i) as [ag|] eqn:Eg; [|discriminate].
        destruct (upd i (apos ag) (loc x)) as [lc|] eqn:Eu; [|discriminate]. inv_ret Hex. done_nil.
        pose proof (Inv_read Cur (Some i) _ _ HI Eg) as [_ Hsh].
        destruct HI as [H1 H2 H3 H4 H5]. constructor; try assumption. simpl.
        eapply upd_Forall; [exact H5|exact Hsh|exact Eu].
      - (* BestPosFromLoc *)
        destruct cur as [i|]; [|discriminate].
        destruct (nth_error (loc x) i) as [c|] eqn:En; [|discriminate]. inv_ret Hex. done_nil.
        eapply (Inv_write_fresh Best None); [exact HI|reflexivity|reflexivity|]. simpl.
        destruct HI as [_ _ _ _ H5]. rewrite Forall_forall in H5. apply H5. eapply nth_error_In; exact En.
      - (* SwapPos *)
        destruct (getr a cur x) as [p|] eqn:Eg; [|discriminate].
        destruct (getr b cur x) as [q|] eqn:Eg2; [|discriminate].
        destruct (setr a cur _ x) as [x1|] eqn:Es; [|discriminate].
        destruct (getr b cur x1) as [q1|] eqn:Eg3; [|discriminate].
        destruct (setr b cur _ x1) as [x2|] eqn:Es2; [|discriminate]. inv_ret Hex. done_nil.
        pose proof (Inv_read _ _ _ _ HI Eg) as [Hpl Hps]. pose proof (Inv_read _ _ _ _ HI Eg2) as [Hql Hqs].
        destruct HI as [H1 H2 H3 H4 H5].
        apply getr_all in Eg as (ka & Hka & Hna). apply getr_all in Eg2 as (kb & Hkb & Hnb).
        apply setr_all in Es as (ka' & Hka' & Hu1 & E1 & E2 & E3 & E4).
        apply setr_all in Es2 as (kb' & Hkb' & Hu2 & F1 & F2 & F3 & F4).
        rewrite Hka in Hka'. injection Hka' as <-.
        rewrite (ridx_ext b cur x x1 E4 E3), Hkb in Hkb'. injection Hkb' as <-.
        constructor.
        + rewrite F3, E3; exact H1.
        + apply (upd_map aid) in Hu1. apply (upd_map aid) in Hu2. simpl in Hu1, Hu2.
          eapply NoDup_upd_swap; [exact H2| | |exact Hu1|exact Hu2].
          * rewrite nth_error_map, Hna. reflexivity.
          * rewrite nth_error_map, Hnb. reflexivity.
        + rewrite F2, E2. eapply upd_Forall; [| |exact Hu2]; [|exact Hpl]. eapply upd_Forall; [exact H3| |exact Hu1]. exact Hql.
        + eapply upd_Forall; [| |exact Hu2]; [|exact Hps]. eapply upd_Forall; [exact H4| |exact Hu1]. exact Hqs.
        + rewrite F1, E1; exact H5.
      - (* SwapFit *)
        destruct (getr a cur x) as [p|] eqn:Eg; [|discriminate].
        destruct (getr b cur x) as [q|] eqn:Eg2; [|discriminate].
        destruct (setr a cur _ x) as [x1|] eqn:Es; [|discriminate].
        destruct (getr b cur x1) as [q1|] eqn:Eg3; [|discriminate].
        destruct (setr b cur _ x1) as [x2|] eqn:Es2; [|discriminate]. inv_ret Hex. done_nil.
        pose proof (Inv_read _ _ _ _ HI Eg) as [_ Hps].
        assert (HI1 : Inv x1) by (eapply Inv_write_same; [exact HI|exact Eg|exact Es|reflexivity|exact Hps]).
        pose proof (Inv_read _ _ _ _ HI1 Eg3) as [_ Hqs].
        eapply Inv_write_same; [exact HI1|exact Eg3|exact Es2|reflexivity|exact Hqs].
      - (* NewTrial *)
        destruct (getr s cur x) as [ag|] eqn:Eg; [|discriminate]. inv_ret Hex. done_nil.
        pose proof (Inv_read _ _ _ _ HI Eg) as [_ Hsh].
        eapply (Inv_write_fresh Tr None); [exact HI|reflexivity|reflexivity|exact Hsh].
      - (* ShadowAll *)
        inv_ret Hex. done_nil. destruct HI as [H1 H2 H3 H4 H5].
        rewrite allag_split in H2, H3, H4.
        rewrite map_app in H2. apply Forall_app in H3 as [H3a _]. apply Forall_app in H4 as [H4a _].
        constructor; simpl; try assumption;
          change (allag (with_next (with_sh x (copy_all (next x) (pop x))) (next x + length (pop x))))
            with (allag (with_sh x (copy_all (next x) (pop x))));
          rewrite allag_split; simpl.
        + rewrite map_app, copy_all_ids. apply NoDup_app_intro.
          * eapply NoDup_app_l; exact H2.
          * apply seq_NoDup.
          * intros v Hv Hs. apply in_seq in Hs. apply in_map_iff in Hv as (b & <- & Hb).
            rewrite Forall_forall in H3a. apply H3a in Hb. lia.
        + apply Forall_app; split.
          * eapply Forall_impl; [|exact H3a]. simpl. intros b Hb. lia.
          * apply Forall_forall. intros b Hb.
            assert (Hin : In (aid b) (map aid (copy_all (next x) (pop x)))) by (apply in_map; exact Hb).
            rewrite copy_all_ids in Hin. apply in_seq in Hin. lia.
        + apply Forall_app; split; [exact H4a|].
          apply (copy_all_Forall_pos (fun c => shp c = sp)).
          apply Forall_app in H4a as [H4p _]. exact H4p.
      - (* Store *)
        destruct d; try discriminate;
          (destruct (getr s cur x) as [ag|] eqn:Eg; [|discriminate];
           destruct (setr _ cur _ x) as [x1|] eqn:Es; [|discriminate]; inv_ret Hex; done_nil;
           pose proof (Inv_read _ _ _ _ HI Eg) as [_ Hsh];
           eapply Inv_write_fresh; [exact HI|exact Es|reflexivity|exact Hsh]).
      - (* ChooseIdx *)
        destruct o as [|[?|?|i|?] o1]; try discriminate.
        destruct (Nat.ltb i (length (pop x))); [|discriminate]. inv_ret Hex. done_nil.
        eapply Inv_frame; [exact HI|reflexivity..].
      - (* SortByFit *)
        inv_ret Hex. done_nil. destruct HI as [H1 H2 H3 H4 H5].
        assert (HP : Permutation (allag (with_pop x (sort_fit (pop x)))) (allag x)).
        { unfold allag; simpl. apply Permutation_app_tail, sort_fit_perm. }
        constructor; simpl.
        + rewrite sort_fit_length; exact H1.
        + eapply Permutation_NoDup; [|exact H2]. apply Permutation_map. apply Permutation_sym; exact HP.
        + eapply Permutation_Forall; [apply Permutation_sym; exact HP|exact H3].
        + eapply Permutation_Forall; [apply Permutation_sym; exact HP|exact H4].
        + exact H5.
      - (* Hook *) injection Hex as <- <- <-. split; [apply hk_ok; exact HI|]. constructor; [apply hk_ok; exact HI|constructor].
      - (* Dump *) injection Hex as <- <- <-. split; [exact HI|]. constructor; [exact HI|constructor].
      - (* Draw *) injection Hex as <- <- <-. split; [exact HI|]. constructor; [exact I|constructor].
      - (* SetHyper *) inv_ret Hex. done_nil. eapply Inv_frame; [exact HI|reflexivity..].
      - (* PosFromTree *)
        destruct cur as [i|]; [|discriminate].
        destruct (getr r (Some i) x) as [ag|] eqn:Eg; [|discriminate].
        destruct (nth_error (tv x) i) as [c|] eqn:En; [|discriminate].
        destruct (okc_std (apos ag) c) eqn:Eok; simpl in Hex; [|discriminate].
        destruct (setr r (Some i) _ x) as [x1|] eqn:Es; [|discriminate]. inv_ret Hex. done_nil.
        pose proof (Inv_read _ _ _ _ HI Eg) as [_ Hsh]. apply okc_std_shp in Eok.
        eapply Inv_write_fresh; [exact HI|exact Es|reflexivity|]. simpl. congruence.
      - (* BestTreeCopy *)
        destruct cur as [i|]; [|discriminate].
        destruct (nth_error (tv x) i) as [c|] eqn:En; [|discriminate]. inv_ret Hex. done_nil.
        eapply Inv_frame; [exact HI|reflexivity..].
      - (* TreeCopy *)
        destruct o as [|[?|?|?|t] o1]; try discriminate.
        destruct (forallb2 okc_std (tv x) t); [|discriminate]. inv_ret Hex. done_nil.
        eapply Inv_frame; [exact HI|reflexivity..].
      - (* TreeSet *)
        destruct o as [|[?|?|?|t] o1]; try discriminate.
        destruct (forallb2 okc_std (tv x) t); [|discriminate]. inv_ret Hex. done_nil.
        eapply Inv_frame; [exact HI|reflexivity..].
      - (* TreeCross *)
        destruct o as [|[?|?|?|t] o1]; try discriminate.
        destruct (forallb2 okc_std (tv x) t); [|discriminate]. inv_ret Hex. done_nil.
        eapply Inv_frame; [exact HI|reflexivity..].
    Qed.

    Notation exec := (exec lbs ubs f hk n_iter okc_std).

    Lemma iter_inv_P (body : list answer -> st -> res) :
      (forall o x x' evs o', Inv x -> body o x = Some (x', evs, o') -> Inv x' /\ Forall ev_inv evs) ->
      forall k o x x' evs o', Inv x -> iter k body o x = Some (x', evs, o') -> Inv x' /\ Forall ev_inv evs.
    Proof.
      intros Hb k. induction k as [|k IH]; intros o x x' evs o' HI H; simpl in H.
      - inv_ret H. done_nil. exact HI.
      - apply bind_some in H as (x1 & e1 & o1 & e2 & H1 & H2 & ->).
        destruct (Hb _ _ _ _ _ HI H1) as [HI1 HE1]. destruct (IH _ _ _ _ _ HI1 H2) as [HI2 HE2].
        split; [exact HI2|apply Forall_app; split; assumption].
    Qed.

    Lemma iter_slots_inv_P (body : nat -> list answer -> st -> res) :
      (forall i o x x' evs o', Inv x -> body i o x = Some (x', evs, o') -> Inv x' /\ Forall ev_inv evs) ->
      forall k i o x x' evs o', Inv x -> iter_slots i k body o x = Some (x', evs, o') -> Inv x' /\ Forall ev_inv evs.
    Proof.
      intros Hb k. induction k as [|k IH]; intros i o x x' evs o' HI H; simpl in H.
      - inv_ret H. done_nil. exact HI.
      - apply bind_some in H as (x1 & e1 & o1 & e2 & H1 & H2 & ->).
        destruct (Hb _ _ _ _ _ _ HI H1) as [HI1 HE1]. destruct (IH _ _ _ _ _ _ HI1 H2) as [HI2 HE2].
        split; [exact HI2|apply Forall_app; split; assumption].
    Qed.

    (* every execution of every statement preserves the invariant, and every snapshot it emits satisfies it *)
    Theorem exec_inv : forall s cur o x x' evs o',
      Inv x -> exec cur s o x = Some (x', evs, o') -> Inv x' /\ Forall ev_inv evs.
    Proof.
      induction s; intros cur oo xx xx' evs oo' HI Hex;
        try (match type of Hex with IRSem.exec _ _ _ _ _ _ ?c0 ?s0 ?o0 ?x0 = ?r0 =>
               change (exec_atom lbs ubs f hk okc_std c0 s0 o0 x0 = r0) in Hex end;
             eapply atom_inv; [|exact HI|exact Hex]; reflexivity).
      - (* If *)
        simpl in Hex. destruct (evalc c cur oo xx) as [[[|] o1]|] eqn:Ec; [| |discriminate].
        + eapply IHs1; eassumption.
        + eapply IHs2; eassumption.
      - (* Seq *)
        simpl in Hex. apply bind_some in Hex as (x1 & e1 & o1 & e2 & H1 & H2 & ->).
        destruct (IHs1 _ _ _ _ _ _ HI H1) as [HI1 HE1]. destruct (IHs2 _ _ _ _ _ _ HI1 H2) as [HI2 HE2].
        split; [exact HI2|apply Forall_app; split; assumption].
      - (* ForSlots *)
        simpl in Hex. eapply iter_slots_inv_P; [|exact HI|exact Hex]. intros i; apply IHs.
      - (* RepeatAny *)
        simpl in Hex. destruct oo as [|[c0|b0|k|t0] o1]; try discriminate.
        eapply iter_inv_P; [|exact HI|exact Hex]. apply IHs.
      - (* Repeat *)
        simpl in Hex. eapply iter_inv_P; [|exact HI|exact Hex]. apply IHs.
      - (* Onlooker *)
        simpl in Hex. destruct oo as [|[c0|b0|k|t0] o1]; try discriminate.
        eapply iter_inv_P; [|exact HI|exact Hex].
        intros o2 x2 x2' evs2 o2' HI2 H2. eapply iter_slots_inv_P; [|exact HI2|exact H2]. intros i; apply IHs.
      - (* At *)
        simpl in Hex. eapply IHs; eassumption.
    Qed.
  End Exec.
End Inv.

(* ---------------------------------------------------------------- what the property text asks for *)
(* the state [y] (a hook snapshot, a dump snapshot, or the final state) against the initial state [x0] *)
Definition c07_claim (x0 y : st) : Prop :=
  length (pop y) = length (pop x0) /\
  NoDup (map aid (pop y) ++ [aid (best y)]) /\
  map (fun a => shp (apos a)) (pop y) = map (fun a => shp (apos a)) (pop x0) /\
  shp (apos (best y)) = shp (apos (best x0)).

Lemma map_const_eq {A B} (g : A -> B) v l1 l2 :
  length l1 = length l2 -> Forall (fun a => g a = v) l1 -> Forall (fun a => g a = v) l2 -> map g l1 = map g l2.
Proof.
  revert l2. induction l1 as [|a t IH]; intros [|b t2] Hl H1 H2; simpl in *; try discriminate; [reflexivity|].
  inversion H1; subst. inversion H2; subst. f_equal; [congruence|]. apply IH; [lia|assumption..].
Qed.

Lemma Inv_claim n sp x0 y : Inv n sp x0 -> Inv n sp y -> c07_claim x0 y.
Proof.
  intros [A1 A2 A3 A4 A5] [B1 B2 B3 B4 B5]. unfold c07_claim.
  unfold allag in *. apply Forall_app in A4 as [A4p A4r]. apply Forall_app in B4 as [B4p B4r].
  split; [congruence|]. split; [|split].
  - rewrite map_app in B2. simpl in B2.
    change (map aid (pop y) ++ aid (best y) :: aid (tr y) :: map aid (sh y))
      with (map aid (pop y) ++ [aid (best y)] ++ (aid (tr y) :: map aid (sh y))) in B2.
    rewrite app_assoc in B2. eapply NoDup_app_l; exact B2.
  - apply (map_const_eq _ sp); [congruence|assumption..].
  - inversion A4r; subst. inversion B4r; subst. congruence.
Qed.

Definition ev_claim (x0 : st) (e : event) : Prop :=
  match e with EvHook y | EvDump y => c07_claim x0 y | _ => True end.

(* C07 for every IR program *)
Theorem c07_all (p : stmt) lbs ubs f hk n_iter n sp o x0 x' evs o' :
  (forall x, Inv n sp x -> Inv n sp (hk x)) ->
  Inv n sp x0 ->
  run lbs ubs f hk n_iter okc_std p o x0 = Some (x', evs, o') ->
  (Inv n sp x' /\ Forall (ev_inv n sp) evs) /\
  (c07_claim x0 x' /\ Forall (ev_claim x0) evs).
Proof.
  intros Hhk H0 Hr. unfold run in Hr.
  destruct (exec_inv n sp lbs ubs f hk n_iter Hhk p None o x0 x' evs o' H0 Hr) as [HI HE].
  split; [split; assumption|]. split; [eapply Inv_claim; eassumption|].
  eapply Forall_impl; [|exact HE]. intros e He. destruct e; simpl in *; try exact I; eapply Inv_claim; eassumption.
Qed.

(* the decidable per-program check is trivial: no statement form needs a restriction *)
Definition c07_check (p : stmt) : bool := true.
