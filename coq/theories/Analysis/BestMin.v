(* C02 domain: the best agent is the minimum of everything evaluated so far (executable part: abstract
   domain, transfer functions, the decidable check [c02_check]; soundness is Analysis/BestMinSound.v).

   Per reference class -- slots already visited by the enclosing ForSlots (all slots outside a loop) / the loop
   slot / slots not yet visited / the trial / the other shadows / the loop slot's shadow -- a cell (quality, role):
     quality  QGood : position feasible and (position, fitness) is an earlier evaluation event
              QFeas : position feasible          QNone : only well formed
     role     Clean   : best.fit <= fit  (whatever this agent stands for is already covered by best)
              Idle    : nothing known, and the agent is NOT relied upon to remember an evaluation
              Carrier : the agent may be the only memory of an evaluation below best.fit
   plus relational facts from [assume (FitLt a b)] that live until either fitness is written, and the flag
   [b_locw] (PSO family: local_position[i] is an argument at which the objective returned agents[i].fit).

   Semantic invariant (BG in BestMinSound.v): every evaluation value v so far satisfies  best.fit <= v  or
   there is a *good* agent (feasible position, (pos,fit) an earlier evaluation) in a class of role Carrier
   whose fit <= v.  Good agents are fixed points of ClipAll and are re-evaluated to the same value by the
   closing sweep, after which every slot is Clean.  A statement that would destroy a Carrier, evaluate at an
   unclipped position, or record (Dump) while some class is still a Carrier raises the C02 alarm.

   Sub-programs whose intermediate states break the invariant are handled by [special] rules on [strip s]:
   the copy pair  CopyPos d s; CopyFit d s  (either order; d = Best: best := copy of s after s.fit < best.fit),
   the swap pair  SwapPos Cur Best; SwapFit Cur Best, the body of PSO._evaluate, the pair  Havoc r; Clip r
   (one write of a clipped position: for an indexed slot the other slots stay clipped), and ForSlots itself: a strong
   rule (every slot is visited exactly once, so the slots not yet reached are still described by the state
   before the loop) whose body is analysed by the first-level interpreter [ba_absint0].

   [ba_init] describes the state ANY task starts in (positions clipped, no agent below the best agent: on a fresh
   space every fitness is the sentinel; see c02_start in BestMinSound.v); [c02_check] is the check for one task,
   [c02r_check] adds the end-of-task condition under which another task may follow on the same space. *)
From Coq Require Import String ZArith List Bool Arith Lia.
From OV Require Import Base.FloatKey Model.Clip Model.IR Model.IRSem Analysis.AbsInt Analysis.SemLemmas Analysis.Sweep.
Import ListNotations.
Close Scope Z_scope.
Open Scope nat_scope.

Inductive qual := QNone | QFeas | QGood.
Inductive role := Clean | Idle | Carrier.
Definition cell := (qual * role)%type.

Definition qmin (a b : qual) : qual :=
  match a, b with QGood, x => x | x, QGood => x | QFeas, QFeas => QFeas | _, _ => QNone end.
Definition qge (a b : qual) : bool :=
  match a, b with _, QNone => true | QGood, _ => true | QFeas, QFeas => true | _, _ => false end.
Definition rmax (a b : role) : role :=
  match a, b with Clean, x => x | x, Clean => x | Idle, Idle => Idle | _, _ => Carrier end.
Definition rle (a b : role) : bool :=
  match a, b with Clean, _ => true | _, Carrier => true | Idle, Idle => true | _, _ => false end.
Definition is_carrier (r : role) : bool := match r with Carrier => true | _ => false end.
Definition is_clean (r : role) : bool := match r with Clean => true | _ => false end.
Definition is_good (q : qual) : bool := match q with QGood => true | _ => false end.

Definition cjoin (a b : cell) : cell := (qmin (fst a) (fst b), rmax (snd a) (snd b)).
Definition cleb (a b : cell) : bool := qge (fst a) (fst b) && rle (snd a) (snd b).

Inductive cls := CPop | CCur | CTodo | CTr | CShall | CSh.
Inductive fact := FLt (a b : ref) | FGe (a b : ref).

Definition fact_eqb (x y : fact) : bool :=
  match x, y with
  | FLt a b, FLt c d => ref_eqb a c && ref_eqb b d
  | FGe a b, FGe c d => ref_eqb a c && ref_eqb b d
  | _, _ => false
  end.
Definition has_fact (x : fact) (l : list fact) : bool := existsb (fact_eqb x) l.

Record ba := {
  b_pop : cell;     (* slots already visited by the enclosing ForSlots (all slots outside a loop) *)
  b_cur : cell;     (* the loop slot *)
  b_todo : cell;    (* slots the enclosing ForSlots has not reached yet *)
  b_tr : cell; b_shall : cell; b_sh : cell;
  b_locw : bool;
  b_facts : list fact
}.

Definition get (a : ba) (k : cls) : cell :=
  match k with CPop => b_pop a | CCur => b_cur a | CTodo => b_todo a | CTr => b_tr a | CShall => b_shall a | CSh => b_sh a end.
Definition set (a : ba) (k : cls) (c : cell) : ba :=
  match k with
  | CPop => {| b_pop := c; b_cur := b_cur a; b_todo := b_todo a; b_tr := b_tr a; b_shall := b_shall a; b_sh := b_sh a; b_locw := b_locw a; b_facts := b_facts a |}
  | CCur => {| b_pop := b_pop a; b_cur := c; b_todo := b_todo a; b_tr := b_tr a; b_shall := b_shall a; b_sh := b_sh a; b_locw := b_locw a; b_facts := b_facts a |}
  | CTodo => {| b_pop := b_pop a; b_cur := b_cur a; b_todo := c; b_tr := b_tr a; b_shall := b_shall a; b_sh := b_sh a; b_locw := b_locw a; b_facts := b_facts a |}
  | CTr => {| b_pop := b_pop a; b_cur := b_cur a; b_todo := b_todo a; b_tr := c; b_shall := b_shall a; b_sh := b_sh a; b_locw := b_locw a; b_facts := b_facts a |}
  | CShall => {| b_pop := b_pop a; b_cur := b_cur a; b_todo := b_todo a; b_tr := b_tr a; b_shall := c; b_sh := b_sh a; b_locw := b_locw a; b_facts := b_facts a |}
  | CSh => {| b_pop := b_pop a; b_cur := b_cur a; b_todo := b_todo a; b_tr := b_tr a; b_shall := b_shall a; b_sh := c; b_locw := b_locw a; b_facts := b_facts a |}
  end.
Definition with_facts (a : ba) (l : list fact) : ba :=
  {| b_pop := b_pop a; b_cur := b_cur a; b_todo := b_todo a; b_tr := b_tr a; b_shall := b_shall a; b_sh := b_sh a; b_locw := b_locw a; b_facts := l |}.
Definition with_locw (a : ba) (w : bool) : ba :=
  {| b_pop := b_pop a; b_cur := b_cur a; b_todo := b_todo a; b_tr := b_tr a; b_shall := b_shall a; b_sh := b_sh a; b_locw := w; b_facts := b_facts a |}.

Definition allslots (a : ba) : cell := cjoin (b_pop a) (cjoin (b_cur a) (b_todo a)).
(* the classes a reference may denote *)
Definition top_cell : cell := (QGood, Clean).
Definition rd (r : ref) (a : ba) : cell :=
  match r with
  | Cur => b_cur a
  | Slot _ | Last => allslots a
  | Tr => b_tr a
  | Sh => b_sh a
  | Best => (QNone, Clean)
  end.
(* strong update for the single-agent references, weak for Slot/Last; never called with Best *)
Definition wr (r : ref) (c : cell) (a : ba) : ba :=
  match r with
  | Cur => set a CCur c
  | Slot _ | Last => set (set (set a CPop (cjoin (b_pop a) c)) CCur (cjoin (b_cur a) c)) CTodo (cjoin (b_todo a) c)
  | Tr => set a CTr c
  | Sh => set a CSh c
  | Best => a
  end.

Definition alias (r1 r2 : ref) : bool := ref_eqb r1 r2 || (slotlike r1 && slotlike r2).
Definition fact_mentions (r : ref) (x : fact) : bool :=
  match x with FLt a b | FGe a b => alias r a || alias r b end.
(* a fitness of [r] is written *)
Definition kill (r : ref) (a : ba) : ba := with_facts a (filter (fun x => negb (fact_mentions r x)) (b_facts a)).
Definition is_idxref (r : ref) : bool := match r with Slot _ | Last => true | _ => false end.
Definition kill_idx (a : ba) : ba :=
  with_facts a (filter (fun x => match x with FLt p q | FGe p q => negb (is_idxref p || is_idxref q) end) (b_facts a)).
Definition single (r : ref) : bool := match r with Cur | Tr | Sh => true | _ => false end.

(* use the fact  r.fit >= r'.fit  to release [r] from its Carrier role / to make it Clean *)
Definition discharge1 (x : fact) (a : ba) : ba :=
  match x with
  | FGe r r' =>
      if single r && negb (alias r r') then
        match r' with
        | Best => wr r (fst (rd r a), Clean) a
        | _ =>
          if is_clean (snd (rd r' a)) then wr r (fst (rd r a), Clean) a
          else if negb (ref_eqb r Cur) && is_carrier (snd (rd r a)) && is_good (fst (rd r' a))
               then wr r (fst (rd r a), Idle) (wr r' (fst (rd r' a), Carrier) a)
               else a
        end
      else a
  | _ => a
  end.
Definition discharge (a : ba) : ba := fold_right discharge1 a (b_facts a).
Definition add_fact (x : fact) (a : ba) : ba := discharge (with_facts a (x :: b_facts a)).

(* ---------------------------------------------------------------- transfer functions *)
Definition c02 (l : nat) (why : string) : list alarm := [(l, ("C02: " ++ why)%string)].

Definition upq (q : qual) : qual := match q with QNone => QFeas | _ => q end.
Definition slot_written (r : ref) (a : ba) : ba := if slotlike r then with_locw a false else a.
Definition copy_role (r : role) : role := match r with Carrier => Idle | _ => r end.

(* d := a private copy of s (position and fitness): NewTrial, Store, and the pair CopyPos d s; CopyFit d s *)
Definition assign (l : nat) (d s : ref) (a : ba) : ba * list alarm :=
  match d, s with
  | Best, _ | _, Best => (a, c02 l "copy from/to the best agent outside the recognised idioms")
  | _, _ =>
    let cs := rd s a in
    let greedy := has_fact (FLt s d) (b_facts a) && is_good (fst cs) && negb (alias d s) in
    if negb greedy && is_carrier (snd (rd d a))
    then (a, c02 l "an agent that may hold the only record of an evaluation is overwritten without a strict-improvement test")
    else
      let c' := if greedy then (QGood, Carrier) else (fst cs, copy_role (snd cs)) in
      let a1 := wr d c' (kill d (slot_written d a)) in
      (if alias d s then a1 else add_fact (FGe s d) a1, [])
  end.

(* best := a private copy of s, after the test s.fit < best.fit *)
Definition assign_best (l : nat) (s : ref) (a : ba) : ba * list alarm :=
  if single s && has_fact (FLt s Best) (b_facts a) && is_good (fst (rd s a))
  then (add_fact (FGe s Best) (kill Best a), [])
  else (a, c02 l "the best agent is overwritten by an agent that is not an evaluated strict improvement").

Definition all_cells (a : ba) : list cell := [b_pop a; b_cur a; b_todo a; b_tr a; b_shall a; b_sh a].
Definition no_carrier (a : ba) : bool := forallb (fun c => negb (is_carrier (snd c))) (all_cells a).

Definition ba_atom (l : nat) (s : stmt) (a : ba) : ba * list alarm :=
  match s with
  | Skip | Draw | SetHyper _ | Hook | TreeCopy _ _ | TreeSet _ _ | TreeCross _ _ | BestTreeCopy => (a, [])
  | ChooseIdx _ => (kill_idx a, [])
  | Dump => (a, if no_carrier a then [] else c02 l "an evaluation made during the update may be below the reported best (a trial result was not re-seen by the sweep)")
  | Havoc _ r | PosFromTree r =>
      match r with
      | Best => (a, c02 l "the best position is modified")
      | _ => if is_carrier (snd (rd r a))
             then (a, c02 l "a position that may hold the only record of an evaluation is overwritten")
             else (wr r (QNone, snd (rd r a)) (kill r a), [])
      end
  | Clip r =>
      match r with
      | Best => (a, c02 l "the best position is modified")
      | _ => if is_carrier (snd (rd r a))
             then (a, c02 l "a carrier is clipped individually")
             else (wr r (upq (fst (rd r a)), snd (rd r a)) (kill r a), [])
      end
  | ClipAll =>
      let up c := (upq (fst c), snd c) in
      (set (set (set a CPop (up (b_pop a))) CCur (up (b_cur a))) CTodo (up (b_todo a)), [])
  | Eval r =>
      if single r then
        match fst (rd r a) with
        | QNone => (a, c02 l "evaluated at a position that is not clipped: the closing sweep re-evaluates the clipped position, the value obtained here can be lost")
        | _ => (wr r (QGood, Carrier) (kill r (slot_written r a)), [])
        end
      else (a, c02 l "evaluation of an indexed slot")
  | NewTrial s0 => assign l Tr s0 a
  | Store d s0 => if slotlike d then assign l d s0 a else (a, c02 l "store into a non-slot")
  | ShadowAll =>
      if is_carrier (snd (b_shall a)) || is_carrier (snd (b_sh a))
      then (a, c02 l "shadow population overwritten while it may hold the only record of an evaluation")
      else let p := allslots a in
           let c := (fst p, copy_role (snd p)) in
           (set (set (kill Sh a) CShall c) CSh c, [])
  | SortByFit =>
      let p := allslots a in
      (with_locw (set (set (set (kill Last a) CPop p) CCur p) CTodo p) false, [])
  | _ => (a, c02 l "statement outside the recognised copy/swap/sweep idioms")
  end.

Definition ba_assume (c : cond) (b : bool) (a : ba) : ba :=
  match c with
  | FitLt p q => if b then with_facts a (FLt p q :: b_facts a) else add_fact (FGe p q) a
  | _ => a
  end.

(* generic (weak) binding of the loop slot: used for Onlooker, where slots are visited repeatedly *)
Definition ba_enter (a : ba) : ba :=
  {| b_pop := b_pop a; b_cur := b_pop a; b_todo := b_pop a; b_tr := b_tr a; b_shall := b_shall a; b_sh := b_shall a; b_locw := b_locw a; b_facts := [] |}.
Definition ba_exit (a : ba) : ba :=
  let p := allslots a in let q := cjoin (b_shall a) (b_sh a) in
  {| b_pop := p; b_cur := top_cell; b_todo := top_cell; b_tr := b_tr a; b_shall := q; b_sh := top_cell; b_locw := b_locw a; b_facts := [] |}.

(* rules for sub-programs whose intermediate states break the invariant *)
Definition swap_best : stmt := Seq (SwapPos Cur Best) (SwapFit Cur Best).

Definition is_copy_pair (t : stmt) : option (ref * ref) :=
  match t with
  | Seq (CopyPos d s1) (CopyFit d' s2) => if ref_eqb d d' && ref_eqb s1 s2 then Some (d, s1) else None
  | Seq (CopyFit d s1) (CopyPos d' s2) => if ref_eqb d d' && ref_eqb s1 s2 then Some (d, s1) else None
  | _ => None
  end.

(* r.position = <arithmetic>; r.check_limits()  -- the two writes amount to one write of a clipped position: for an
   indexed slot (weak update) the other slots keep what was known about them *)
Definition is_havoc_clip (t : stmt) : option ref :=
  match t with
  | Seq (Havoc _ r) (Clip r') => if ref_eqb r r' then Some r else None
  | _ => None
  end.
Definition havoc_clip_a (l : nat) (r : ref) (a : ba) : ba * list alarm :=
  match r with
  | Best => (a, c02 l "the best position is modified")
  | _ => if is_carrier (snd (rd r a))
         then (a, c02 l "a position that may hold the only record of an evaluation is overwritten")
         else (wr r (QFeas, snd (rd r a)) (kill r a), [])
  end.

Definition swap_a (a : ba) : ba := set (kill Best (kill Cur (with_locw a false))) CCur (QNone, Clean).
Definition pso_a (a : ba) : ba := set (kill Best (kill Cur a)) CCur (QFeas, Clean).

Definition ba_special0 (l : nat) (incur : bool) (s : stmt) (a : ba) : option (ba * list alarm) :=
  let t := strip s in
  match is_copy_pair t with
  | Some (d, s1) =>
      Some (match d with
            | Best => assign_best l s1 a
            | _ => if alias d s1 then (a, c02 l "copy between possibly identical slots") else assign l d s1 a
            end)
  | None =>
      if stmt_eqb t swap_best then
        Some (if incur && has_fact (FLt Cur Best) (b_facts a) && is_good (fst (b_cur a))
              then (swap_a a, [])
              else (a, c02 l "swap with the best agent that is not a strict improvement by an evaluated agent"))
      else if stmt_eqb t sweep_pso then
        Some (if incur && qge (fst (b_cur a)) QFeas && negb (is_carrier (snd (b_cur a))) && b_locw a
              then (pso_a a, [])
              else (a, c02 l "PSO sweep step on a slot that is not clipped, or local positions out of step with the fitnesses"))
      else match is_havoc_clip t with
           | Some r => Some (havoc_clip_a l r a)
           | None => None
           end
  end.

Fixpoint subset_facts (l1 l2 : list fact) : bool :=
  match l1 with [] => true | x :: t => has_fact x l2 && subset_facts t l2 end.

Definition ba_leb (a b : ba) : bool :=
  cleb (b_pop a) (b_pop b) && cleb (b_cur a) (b_cur b) && cleb (b_todo a) (b_todo b) && cleb (b_tr a) (b_tr b) &&
  cleb (b_shall a) (b_shall b) && cleb (b_sh a) (b_sh b) &&
  implb (b_locw b) (b_locw a) && subset_facts (b_facts b) (b_facts a).

Definition ba_join (a b : ba) : ba :=
  {| b_pop := cjoin (b_pop a) (b_pop b); b_cur := cjoin (b_cur a) (b_cur b); b_todo := cjoin (b_todo a) (b_todo b);
     b_tr := cjoin (b_tr a) (b_tr b);
     b_shall := cjoin (b_shall a) (b_shall b); b_sh := cjoin (b_sh a) (b_sh b);
     b_locw := b_locw a && b_locw b;
     b_facts := filter (fun x => has_fact x (b_facts b)) (b_facts a) |}.

Definition ba_absint0 := absint ba ba_leb ba_join ba_atom ba_assume ba_enter ba_exit ba_special0.

(* ForSlots visits every slot exactly once: slots not yet reached are described by the state before the loop *)
Fixpoint peel (l : nat) (s : stmt) : nat * stmt :=
  match s with At l' s1 => peel l' s1 | _ => (l, s) end.

Definition fs_start (a : ba) : ba :=
  {| b_pop := top_cell; b_cur := top_cell; b_todo := allslots a; b_tr := b_tr a;
     b_shall := cjoin (b_shall a) (b_sh a); b_sh := top_cell; b_locw := b_locw a; b_facts := [] |}.
Definition fs_enter (a : ba) : ba :=
  {| b_pop := b_pop a; b_cur := b_todo a; b_todo := b_todo a; b_tr := b_tr a;
     b_shall := b_shall a; b_sh := b_shall a; b_locw := b_locw a; b_facts := [] |}.
Definition fs_exit (a : ba) : ba :=
  {| b_pop := cjoin (b_pop a) (b_cur a); b_cur := top_cell; b_todo := b_todo a; b_tr := b_tr a;
     b_shall := cjoin (b_shall a) (b_sh a); b_sh := top_cell; b_locw := b_locw a; b_facts := [] |}.
Definition fs_finish (a : ba) : ba :=
  {| b_pop := b_pop a; b_cur := top_cell; b_todo := top_cell; b_tr := b_tr a;
     b_shall := b_shall a; b_sh := top_cell; b_locw := b_locw a; b_facts := [] |}.

Definition ba_special (l : nat) (incur : bool) (s : stmt) (a : ba) : option (ba * list alarm) :=
  match peel l s with
  | (l', ForSlots b) =>
      if incur then None else
      Some (let (j, al) := loop ba ba_leb ba_join l'
                             (fun j => let (j', al) := ba_absint0 l' true b (fs_enter j) in (fs_exit j', al)) (fs_start a) in
            (fs_finish j, al))
  | _ => ba_special0 l incur s a
  end.

Definition ba_absint := absint ba ba_leb ba_join ba_atom ba_assume ba_enter ba_exit ba_special.

(* the start of a task: no agent is below the best agent (on a freshly built space every fitness is the sentinel; a
   later task inherits the fitnesses and the best agent of the previous one), so every slot is Clean;
   positions feasible, nothing known about the trial and the shadows *)
Definition ba_init : ba :=
  {| b_pop := (QFeas, Clean); b_cur := top_cell; b_todo := top_cell; b_tr := (QNone, Idle); b_shall := (QNone, Idle); b_sh := top_cell;
     b_locw := true; b_facts := [] |}.

Definition c02_check (p : stmt) : bool :=
  match ba_absint 0 false p ba_init with
  | (a', []) => no_carrier a'
  | _ => false
  end.

(* the check for a task that may be followed by another task on the same space: moreover the program leaves every
   position clipped and no agent below the best agent (ba_init describes any such state, see c02_start in
   BestMinSound.v: the sentinel is replaced by the fitness of the inherited best agent) *)
Definition end_ok (a : ba) : bool := qge (fst (b_pop a)) QFeas && is_clean (snd (b_pop a)).
Definition c02r_check (p : stmt) : bool :=
  match ba_absint 0 false p ba_init with
  | (a', []) => no_carrier a' && end_ok a'
  | _ => false
  end.
