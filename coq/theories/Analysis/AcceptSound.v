(* Completeness of the trace matcher (Analysis/Accept.v) with respect to the semantics (Model/IRSem.v):
   every observable trace that SOME execution of the program produces is accepted.  Hence a rejected real trace
   is never a false alarm of the matcher: no execution of the IR program produces it.

   The semantics emits no event for [Clip r] / [ClipAll], which the run monitor does observe (OC / OA).  The
   statement is therefore about the INSTRUMENTED execution [tr_exec]: the same recursion as [exec], returning in
   addition the list of [atom_oev] of the atoms executed, in order.  [tr_exec_exec] / [exec_tr_exec] show that it
   is the same execution (same final state, events, remaining oracle) and [tr_exec_obs] that the events of the
   semantics are its trace with OC / OA removed. *)
From Coq Require Import String ZArith List Bool Arith Lia.
From OV Require Import Base.FloatKey Model.Clip Model.IR Model.IRSem Analysis.SemLemmas Analysis.AbsInt Analysis.Counts Analysis.Accept.
Import ListNotations.
Close Scope Z_scope.
Open Scope nat_scope.
Local Arguments getr : simpl never.
Local Arguments setr : simpl never.

(* ------------------------------------------------------------------ suffixes *)
Definition suffix (r l : list oev) : Prop := exists p, l = p ++ r.

Lemma suffix_refl l : suffix l l.
Proof. exists []. reflexivity. Qed.

Lemma suffix_trans a b c : suffix a b -> suffix b c -> suffix a c.
Proof. intros [p ->] [q ->]. exists (q ++ p). rewrite app_assoc. reflexivity. Qed.

Lemma suffix_tail x t : suffix t (x :: t).
Proof. exists [x]. reflexivity. Qed.

Lemma suffix_app p r : suffix r (p ++ r).
Proof. exists p. reflexivity. Qed.

Lemma suffix_length r l : suffix r l -> length r <= length l.
Proof. intros [p ->]. rewrite app_length. lia. Qed.

Lemma app_same_len (p q a b : list oev) : p ++ a = q ++ b -> length a = length b -> a = b.
Proof.
  revert q. induction p as [|u p IH]; intros [|v q] H Hl; simpl in H.
  - exact H.
  - exfalso. rewrite H in Hl. simpl in Hl. rewrite app_length in Hl. lia.
  - exfalso. rewrite <- H in Hl. simpl in Hl. rewrite app_length in Hl. lia.
  - injection H as _ H. eapply IH; eassumption.
Qed.

(* two suffixes of one list of equal length are equal: one remainder per length loses nothing *)
Lemma suffix_len_eq L a b : suffix a L -> suffix b L -> length a = length b -> a = b.
Proof. intros [p ->] [q H] Hl. eapply app_same_len; eassumption. Qed.

(* ------------------------------------------------------------------ sets of remainders *)
(* membership up to length *)
Definition LIn (n : nat) (S : list (list oev)) : Prop := In n (map (@length oev) S).

Lemma In_LIn r S : In r S -> LIn (length r) S.
Proof. intros H. apply in_map. exact H. Qed.

Lemma insert_rem_LIn n r S : LIn n (insert_rem r S) <-> n = length r \/ LIn n S.
Proof.
  unfold LIn. induction S as [|x t IH]; simpl.
  - split; [intros [H|[]]; left; congruence | intros [H|[]]; left; congruence].
  - destruct (Nat.eqb (length x) (length r)) eqn:E.
    + apply Nat.eqb_eq in E. simpl. split; [intros H; right; exact H|intros [H|H]; [left; congruence|exact H]].
    + simpl. rewrite IH. tauto.
Qed.

Lemma insert_rem_In x r S : In x (insert_rem r S) -> x = r \/ In x S.
Proof.
  induction S as [|y t IH]; simpl.
  - intros [H|[]]. left. congruence.
  - destruct (Nat.eqb (length y) (length r)); simpl; [tauto|]. intros [H|H]; [tauto|]. apply IH in H. tauto.
Qed.

Lemma insert_rem_incl x r S : In x S -> In x (insert_rem r S).
Proof.
  induction S as [|y t IH]; simpl; [intros []|].
  destruct (Nat.eqb (length y) (length r)); simpl; [tauto|]. intros [H|H]; [tauto|]. right. apply IH. exact H.
Qed.

Lemma union_rem_LIn n a b : LIn n (union_rem a b) <-> LIn n a \/ LIn n b.
Proof.
  unfold union_rem. induction a as [|x a IH]; simpl.
  - unfold LIn at 2. simpl. tauto.
  - rewrite insert_rem_LIn, IH. unfold LIn at 3. simpl. fold (LIn n a). split; [intros [H|[H|H]]|intros [[H|H]|H]]; auto.
Qed.

Lemma union_rem_In x a b : In x (union_rem a b) -> In x a \/ In x b.
Proof.
  unfold union_rem. induction a as [|y a IH]; simpl; [tauto|].
  intros H. apply insert_rem_In in H as [H|H]; [left; left; congruence|]. apply IH in H. tauto.
Qed.

Lemma union_rem_incl_r x a b : In x b -> In x (union_rem a b).
Proof.
  unfold union_rem. induction a as [|y a IH]; simpl; [tauto|]. intros H. apply insert_rem_incl. apply IH. exact H.
Qed.

(* one round: the union of the remainders after [f] of every remainder *)
Definition step (f : list oev -> list (list oev)) (s : list (list oev)) : list (list oev) :=
  fold_right (fun r acc => union_rem (f r) acc) [] s.

Lemma step_LIn n f s : LIn n (step f s) <-> exists r, In r s /\ LIn n (f r).
Proof.
  induction s as [|x s IH]; simpl.
  - unfold LIn. simpl. split; [intros []|intros (r & [] & _)].
  - rewrite union_rem_LIn, IH. split.
    + intros [H|(r & H1 & H2)]; [exists x; split; [left; reflexivity|exact H]|exists r; split; [right; exact H1|exact H2]].
    + intros (r & [<-|H1] & H2); [left; exact H2|right; exists r; split; assumption].
Qed.

Lemma step_In y f s : In y (step f s) -> exists r, In r s /\ In y (f r).
Proof.
  induction s as [|x s IH]; simpl; [intros []|].
  intros H. apply union_rem_In in H as [H|H].
  - exists x. split; [left; reflexivity|exact H].
  - apply IH in H as (r & H1 & H2). exists r. split; [right; exact H1|exact H2].
Qed.

(* all remainders are suffixes of [L] *)
Definition Good (L : list oev) (S : list (list oev)) : Prop := forall x, In x S -> suffix x L.
(* [f] only returns suffixes of its argument *)
Definition shrinking (f : list oev -> list (list oev)) : Prop := forall r x, In x (f r) -> suffix x r.

Lemma Good_In L S r : Good L S -> suffix r L -> LIn (length r) S -> In r S.
Proof.
  intros HG Hr H. apply in_map_iff in H as (x & Hl & Hx).
  assert (x = r) as <- by (eapply suffix_len_eq; [apply HG; exact Hx|exact Hr|exact Hl]). exact Hx.
Qed.

Lemma Good_step L f s : shrinking f -> Good L s -> Good L (step f s).
Proof.
  intros Hf HG y Hy. apply step_In in Hy as (r & H1 & H2). eapply suffix_trans; [eapply Hf; exact H2|apply HG; exact H1].
Qed.

Lemma Good_single L : Good L [L].
Proof. intros x [<-|[]]. apply suffix_refl. Qed.

Lemma step_mem L f s r y : shrinking f -> Good L s -> In r s -> In y (f r) -> In y (step f s).
Proof.
  intros Hf HG Hr Hy. eapply Good_In.
  - apply Good_step; eassumption.
  - eapply suffix_trans; [eapply Hf; exact Hy|apply HG; exact Hr].
  - apply step_LIn. exists r. split; [exact Hr|apply In_LIn; exact Hy].
Qed.

(* ------------------------------------------------------------------ iterate and star *)
(* [chain f k r0 r]: [r] is reached from [r0] by [k] applications of [f] *)
Inductive chain (f : list oev -> list (list oev)) : nat -> list oev -> list oev -> Prop :=
| chain_0 r : chain f 0 r r
| chain_S k r0 r1 r : In r1 (f r0) -> chain f k r1 r -> chain f (S k) r0 r.

Lemma iterate_S k f s : iterate (S k) f s = iterate k f (step f s).
Proof. reflexivity. Qed.

Lemma iterate_sound f : shrinking f -> forall k s x, In x (iterate k f s) -> exists r, In r s /\ suffix x r.
Proof.
  intros Hf k. induction k as [|k IH]; intros s x H.
  - exists x. split; [exact H|apply suffix_refl].
  - rewrite iterate_S in H. apply IH in H as (r1 & H1 & H2). apply step_In in H1 as (r & Hr & H1).
    exists r. split; [exact Hr|]. eapply suffix_trans; [exact H2|eapply Hf; exact H1].
Qed.

Lemma iterate_complete L f : shrinking f ->
  forall k s r0 r, Good L s -> In r0 s -> chain f k r0 r -> In r (iterate k f s).
Proof.
  intros Hf k. induction k as [|k IH]; intros s r0 r HG H0 Hc; inversion Hc; subst.
  - exact H0.
  - rewrite iterate_S. eapply IH; [apply Good_step; eassumption| |eassumption].
    eapply step_mem; eassumption.
Qed.

Lemma star_S k f s :
  star (S k) f s = if Nat.eqb (length (union_rem s (step f s))) (length s) then s else star k f (union_rem s (step f s)).
Proof. reflexivity. Qed.

Lemma NoDup_insert r S : NoDup (map (@length oev) S) -> NoDup (map (@length oev) (insert_rem r S)).
Proof.
  induction S as [|x t IH]; simpl; intros H.
  - constructor; [intros []|constructor].
  - destruct (Nat.eqb (length x) (length r)) eqn:E; [exact H|]. simpl. inversion H; subst. constructor.
    + intros Hin. apply (insert_rem_LIn (length x) r t) in Hin as [Hin|Hin].
      * apply Nat.eqb_neq in E. congruence.
      * contradiction.
    + apply IH. assumption.
Qed.

Lemma NoDup_union a b : NoDup (map (@length oev) b) -> NoDup (map (@length oev) (union_rem a b)).
Proof. unfold union_rem. intros H. induction a as [|x a IH]; simpl; [exact H|]. apply NoDup_insert. exact IH. Qed.

Lemma NoDup_step f s : NoDup (map (@length oev) (step f s)).
Proof. destruct s as [|x s]; simpl; [constructor|]. apply NoDup_union. fold (step f s). revert x. induction s as [|y s IH]; intros x; simpl; [constructor|]. apply NoDup_union. apply (IH y). Qed.

Lemma Good_union L a b : Good L a -> Good L b -> Good L (union_rem a b).
Proof. intros Ha Hb x H. apply union_rem_In in H as [H|H]; [apply Ha|apply Hb]; exact H. Qed.

(* at most one remainder per length 0 .. length L *)
Lemma Good_card L s : Good L s -> NoDup (map (@length oev) s) -> length s <= length L + 1.
Proof.
  intros HG Hn. rewrite <- (map_length (@length oev) s), <- (seq_length (length L + 1) 0).
  apply NoDup_incl_length; [exact Hn|]. intros n Hin. apply in_map_iff in Hin as (x & <- & Hx).
  apply in_seq. apply HG, suffix_length in Hx. lia.
Qed.

(* [S] is closed under [f] (up to length) *)
Definition closed (f : list oev -> list (list oev)) (S : list (list oev)) : Prop :=
  forall x y, In x S -> In y (f x) -> LIn (length y) S.

Lemma star_spec L f : shrinking f ->
  forall fuel s, Good L s -> NoDup (map (@length oev) s) -> length L + 2 <= fuel + length s ->
  Good L (star fuel f s) /\ (forall x, In x s -> In x (star fuel f s)) /\ closed f (star fuel f s).
Proof.
  intros Hf fuel. induction fuel as [|k IH]; intros s HG Hn Hfuel.
  - exfalso. pose proof (Good_card L s HG Hn). simpl in Hfuel. lia.
  - rewrite star_S. set (s' := union_rem s (step f s)).
    assert (HG' : Good L s') by (apply Good_union; [exact HG|apply Good_step; assumption]).
    assert (Hn' : NoDup (map (@length oev) s')) by (apply NoDup_union, NoDup_step).
    assert (Hinc : incl (map (@length oev) s) (map (@length oev) s')).
    { intros n Hin. apply (union_rem_LIn n s (step f s)). left. exact Hin. }
    assert (Hle : length s <= length s').
    { rewrite <- (map_length (@length oev) s), <- (map_length (@length oev) s'). apply NoDup_incl_length; assumption. }
    destruct (Nat.eqb (length s') (length s)) eqn:E.
    + apply Nat.eqb_eq in E. split; [exact HG|]. split; [tauto|].
      intros x y Hx Hy.
      assert (Hback : incl (map (@length oev) s') (map (@length oev) s)).
      { apply NoDup_length_incl; [exact Hn| |exact Hinc]. rewrite !map_length. lia. }
      apply Hback. apply (union_rem_LIn (length y) s (step f s)). right.
      apply step_LIn. exists x. split; [exact Hx|apply In_LIn; exact Hy].
    + apply Nat.eqb_neq in E. destruct (IH s' HG' Hn') as (H1 & H2 & H3); [lia|].
      split; [exact H1|]. split; [|exact H3]. intros x Hx. apply H2.
      eapply Good_In; [exact HG'|apply HG; exact Hx|]. apply Hinc. apply In_LIn. exact Hx.
Qed.

Lemma star_sound f : shrinking f -> forall fuel s x, In x (star fuel f s) -> exists r, In r s /\ suffix x r.
Proof.
  intros Hf fuel. induction fuel as [|k IH]; intros s x H.
  - exists x. split; [exact H|apply suffix_refl].
  - rewrite star_S in H. destruct (Nat.eqb _ _).
    + exists x. split; [exact H|apply suffix_refl].
    + apply IH in H as (r1 & H1 & H2). apply union_rem_In in H1 as [H1|H1].
      * exists r1. split; assumption.
      * apply step_In in H1 as (r & Hr & H1). exists r. split; [exact Hr|].
        eapply suffix_trans; [exact H2|eapply Hf; exact H1].
Qed.

Lemma closed_chain L f S0 : shrinking f -> Good L S0 -> closed f S0 ->
  forall k r0 r, chain f k r0 r -> In r0 S0 -> In r S0.
Proof.
  intros Hf HG Hcl k r0 r Hc. induction Hc as [r|k r0 r1 r H1 Hc IH]; intros H0; [exact H0|].
  apply IH. eapply Good_In; [exact HG| |eapply Hcl; eassumption].
  eapply suffix_trans; [eapply Hf; exact H1|apply HG; exact H0].
Qed.

(* the fuel [S (length l)] reaches the whole reflexive-transitive closure *)
Lemma star_complete f l : shrinking f -> forall k r, chain f k l r -> In r (star (S (length l)) f [l]).
Proof.
  intros Hf k r Hc.
  destruct (star_spec l f Hf (S (length l)) [l]) as (HG & Hin & Hcl).
  - apply Good_single.
  - simpl. constructor; [intros []|constructor].
  - simpl. lia.
  - eapply closed_chain; [exact Hf|exact HG|exact Hcl|exact Hc|]. apply Hin. left. reflexivity.
Qed.

(* ------------------------------------------------------------------ [rem] returns suffixes of its input *)
Lemma iterate_single_shrinking k f : shrinking f -> shrinking (fun r => iterate k f [r]).
Proof.
  intros Hf l x H. apply iterate_sound in H as (r & [<-|[]] & H); [exact H|exact Hf].
Qed.

Lemma star_single_shrinking f : shrinking f -> shrinking (fun r => star (S (length r)) f [r]).
Proof.
  intros Hf l x H. apply star_sound in H as (r & [<-|[]] & H); [exact H|exact Hf].
Qed.

Ltac atom_shr H :=
  simpl in H;
  repeat (match type of H with
          | context[match ?e with _ => _ end] => destruct e
          | context[if ?e then _ else _] => destruct e
          end; simpl in H);
  try contradiction; destruct H as [<-|[]]; first [apply suffix_refl | apply suffix_tail].

Lemma rem_shrinking N T wd : forall s, shrinking (rem N T wd s).
Proof.
  induction s as [| | | | | | | | | | | | | | | | | |cc sa IHa sb IHb|sa IHa sb IHb|sb IHb|sb IHb|sb IHb|sb IHb| | | | | | | | | |lc sa IHa];
    intros l x H; try solve [atom_shr H].
  - (* If *) simpl in H. apply union_rem_In in H as [H|H]; [eapply IHa|eapply IHb]; exact H.
  - (* Seq *) apply step_In in H as (r & H1 & H2). eapply suffix_trans; [eapply IHb; exact H2|eapply IHa; exact H1].
  - (* ForSlots *) eapply (iterate_single_shrinking N _ IHb). exact H.
  - (* RepeatAny *) eapply (star_single_shrinking _ IHb). exact H.
  - (* Repeat *) eapply (iterate_single_shrinking T _ IHb). exact H.
  - (* Onlooker *) eapply (star_single_shrinking _ (iterate_single_shrinking N _ IHb)). exact H.
  - (* At *) eapply IHa. exact H.
Qed.

(* ------------------------------------------------------------------ the instrumented execution *)
Definition obs_ev (e : event) : oev :=
  match e with EvEval _ _ => OE | EvHook _ => OH | EvDump _ => OD | EvDraw => OR end.
(* the observable projection of the events of the semantics *)
Definition obs (evs : list event) : list oev := map obs_ev evs.
(* [Clip r] and [ClipAll] are observed by the run monitor but emit no event in the semantics *)
Definition silent (e : oev) : bool := match e with OC | OA => true | _ => false end.
Definition visible (t : list oev) : list oev := filter (fun e => negb (silent e)) t.
(* what the matcher sees: everything, or (GP) everything but the draws *)
Definition proj (with_draws : bool) (t : list oev) : list oev :=
  if with_draws then t else filter (fun e => negb (oev_eqb e OR)) t.
Definition atom_tr (s : stmt) : list oev := match atom_oev s with Some e => [e] | None => [] end.

Lemma proj_app wd a b : proj wd (a ++ b) = proj wd a ++ proj wd b.
Proof. destruct wd; simpl; [reflexivity|apply filter_app]. Qed.

Lemma visible_app a b : visible (a ++ b) = visible a ++ visible b.
Proof. apply filter_app. Qed.

Lemma obs_app a b : obs (a ++ b) = obs a ++ obs b.
Proof. apply map_app. Qed.

Definition tres := option (st * list event * list answer * list oev).
Definition forget (r : tres) : res := match r with Some (x, e, o, _) => Some (x, e, o) | None => None end.
Definition tret (x : st) (o : list answer) : tres := Some (x, [], o, []).
Definition tbind (r : tres) (k : st -> list answer -> tres) : tres :=
  match r with
  | Some (s, e, o, t) => match k s o with Some (s', e', o', t') => Some (s', e ++ e', o', t ++ t') | None => None end
  | None => None
  end.

Lemma tbind_some r k x e o t :
  tbind r k = Some (x, e, o, t) ->
  exists x1 e1 o1 t1 e2 t2, r = Some (x1, e1, o1, t1) /\ k x1 o1 = Some (x, e2, o, t2) /\ e = e1 ++ e2 /\ t = t1 ++ t2.
Proof.
  unfold tbind. destruct r as [[[[x1 e1] o1] t1]|]; [|discriminate].
  destruct (k x1 o1) as [[[[x2 e2] o2] t2]|] eqn:E; [|discriminate].
  intros H. injection H as <- <- <- <-. exists x1, e1, o1, t1, e2, t2. repeat split; assumption.
Qed.

Lemma forget_tbind r k : forget (tbind r k) = bind (forget r) (fun x o => forget (k x o)).
Proof.
  destruct r as [[[[x1 e1] o1] t1]|]; simpl; [|reflexivity].
  destruct (k x1 o1) as [[[[x2 e2] o2] t2]|]; reflexivity.
Qed.

Fixpoint titer (n : nat) (body : list answer -> st -> tres) (o : list answer) (x : st) : tres :=
  match n with
  | 0 => tret x o
  | S k => tbind (body o x) (fun x1 o1 => titer k body o1 x1)
  end.

Fixpoint titer_slots (i n : nat) (body : nat -> list answer -> st -> tres) (o : list answer) (x : st) : tres :=
  match n with
  | 0 => tret x o
  | S k => tbind (body i o x) (fun x1 o1 => titer_slots (S i) k body o1 x1)
  end.

Lemma bind_ext r k1 k2 : (forall x o, k1 x o = k2 x o) -> bind r k1 = bind r k2.
Proof. intros H. destruct r as [[[x e] o]|]; simpl; [rewrite H|]; reflexivity. Qed.

Lemma forget_titer n tb b : (forall o x, forget (tb o x) = b o x) -> forall o x, forget (titer n tb o x) = iter n b o x.
Proof.
  intros Hb. induction n as [|n IH]; intros o x; simpl; [reflexivity|].
  rewrite forget_tbind, Hb. apply bind_ext. intros x1 o1. apply IH.
Qed.

Lemma forget_titer_slots n tb b : (forall i o x, forget (tb i o x) = b i o x) ->
  forall i o x, forget (titer_slots i n tb o x) = iter_slots i n b o x.
Proof.
  intros Hb. induction n as [|n IH]; intros i o x; simpl; [reflexivity|].
  rewrite forget_tbind, Hb. apply bind_ext. intros x1 o1. apply IH.
Qed.

Section TrSem.
  Variables (lbs ubs : list Z) (f : contents -> Z) (hk : st -> st) (n_iter : nat) (okc : contents -> contents -> bool).
  Notation exec := (exec lbs ubs f hk n_iter okc).
  Notation exec_atom := (exec_atom lbs ubs f hk okc).
  Notation evalc := (evalc).

  (* the same recursion as [exec]; in addition the [atom_oev] of every atom executed, in order *)
  Fixpoint tr_exec (cur : option nat) (s : stmt) (o : list answer) (x : st) {struct s} : tres :=
    match s with
    | Seq s1 s2 => tbind (tr_exec cur s1 o x) (fun x1 o1 => tr_exec cur s2 o1 x1)
    | If c s1 s2 =>
        match evalc c cur o x with
        | Some (b, o1) => if b then tr_exec cur s1 o1 x else tr_exec cur s2 o1 x
        | None => None end
    | At _ s1 => tr_exec cur s1 o x
    | ForSlots b => titer_slots 0 (length (pop x)) (fun i => tr_exec (Some i) b) o x
    | RepeatAny b => match o with ANat n :: o' => titer n (tr_exec cur b) o' x | _ => None end
    | Repeat b => titer n_iter (tr_exec cur b) o x
    | Onlooker b =>
        match o with
        | ANat n :: o' => titer n (fun o1 x1 => titer_slots 0 (length (pop x1)) (fun i => tr_exec (Some i) b) o1 x1) o' x
        | _ => None end
    | _ => match exec_atom cur s o x with
           | Some (x', e, o') => Some (x', e, o', atom_tr s)
           | None => None end
    end.

  Definition tr_run (p : stmt) (o : list answer) (x : st) : tres := tr_exec None p o x.

  Lemma tr_exec_atom s cur o x : is_atom s = true ->
    tr_exec cur s o x = match exec_atom cur s o x with Some (x', e, o') => Some (x', e, o', atom_tr s) | None => None end.
  Proof. destruct s; intros H; try discriminate H; reflexivity. Qed.

  Lemma exec_is_atom s cur o x : is_atom s = true -> exec cur s o x = exec_atom cur s o x.
  Proof. destruct s; intros H; try discriminate H; reflexivity. Qed.

  (* [tr_exec] is [exec] with one more output *)
  Lemma forget_tr_exec s : forall cur o x, forget (tr_exec cur s o x) = exec cur s o x.
  Proof.
    induction s as [| | | | | | | | | | | | | | | | | |cc sa IHa sb IHb|sa IHa sb IHb|sb IHb|sb IHb|sb IHb|sb IHb| | | | | | | | | |lc sa IHa];
      intros cur o x;
      try solve [rewrite tr_exec_atom, exec_is_atom by reflexivity;
                 match goal with |- context[exec_atom cur ?s o x] => destruct (exec_atom cur s o x) as [[[? ?] ?]|] end; reflexivity].
    - simpl. destruct (evalc cc cur o x) as [[[|] o1]|]; [apply IHa|apply IHb|reflexivity].
    - simpl. rewrite forget_tbind, IHa. apply bind_ext. intros x1 o1. apply IHb.
    - simpl. apply forget_titer_slots. intros i o1 x1. apply IHb.
    - simpl. destruct o as [|[?|?|n|?] o1]; try reflexivity. apply forget_titer. intros o2 x2. apply IHb.
    - simpl. apply forget_titer. intros o2 x2. apply IHb.
    - simpl. destruct o as [|[?|?|n|?] o1]; try reflexivity. apply forget_titer. intros o2 x2.
      apply forget_titer_slots. intros i o3 x3. apply IHb.
    - simpl. apply IHa.
  Qed.

  Theorem tr_exec_exec cur s o x x' evs o' t :
    tr_exec cur s o x = Some (x', evs, o', t) -> exec cur s o x = Some (x', evs, o').
  Proof. intros H. rewrite <- forget_tr_exec, H. reflexivity. Qed.

  Theorem exec_tr_exec cur s o x x' evs o' :
    exec cur s o x = Some (x', evs, o') -> exists t, tr_exec cur s o x = Some (x', evs, o', t).
  Proof.
    intros H. rewrite <- forget_tr_exec in H. destruct (tr_exec cur s o x) as [[[[x1 e1] o1] t1]|]; [|discriminate].
    simpl in H. injection H as <- <- <-. exists t1. reflexivity.
  Qed.
End TrSem.

(* ------------------------------------------------------------------ events of the semantics = trace minus OC / OA *)
Section Obs.
  Variables (lbs ubs : list Z) (f : contents -> Z) (hk : st -> st) (n_iter : nat) (okc : contents -> contents -> bool).
  Notation exec_atom := (exec_atom lbs ubs f hk okc).
  Notation tr_exec := (tr_exec lbs ubs f hk n_iter okc).

  Ltac dm H :=
    repeat match type of H with
           | context[match ?e with _ => _ end] => destruct e eqn:?; try discriminate H
           | context[if ?e then _ else _] => destruct e eqn:?; try discriminate H
           end.

  Lemma exec_atom_obs s cur o x x' evs o' :
    is_atom s = true -> exec_atom cur s o x = Some (x', evs, o') -> obs evs = visible (atom_tr s).
  Proof.
    intros Ha H. destruct s; simpl in Ha; try discriminate; simpl in H; unfold ret in H; dm H;
      try (injection H as <- <- <-); reflexivity.
  Qed.

  Lemma titer_obs (body : list answer -> st -> tres) :
    (forall o x x' evs o' t, body o x = Some (x', evs, o', t) -> obs evs = visible t) ->
    forall n o x x' evs o' t, titer n body o x = Some (x', evs, o', t) -> obs evs = visible t.
  Proof.
    intros Hb n. induction n as [|n IH]; intros o x x' evs o' t H; simpl in H.
    - injection H as <- <- <- <-. reflexivity.
    - apply tbind_some in H as (x1 & e1 & o1 & t1 & e2 & t2 & H1 & H2 & -> & ->).
      rewrite obs_app, visible_app, (Hb _ _ _ _ _ _ H1), (IH _ _ _ _ _ _ H2). reflexivity.
  Qed.

  Lemma titer_slots_obs (body : nat -> list answer -> st -> tres) :
    (forall i o x x' evs o' t, body i o x = Some (x', evs, o', t) -> obs evs = visible t) ->
    forall n i o x x' evs o' t, titer_slots i n body o x = Some (x', evs, o', t) -> obs evs = visible t.
  Proof.
    intros Hb n. induction n as [|n IH]; intros i o x x' evs o' t H; simpl in H.
    - injection H as <- <- <- <-. reflexivity.
    - apply tbind_some in H as (x1 & e1 & o1 & t1 & e2 & t2 & H1 & H2 & -> & ->).
      rewrite obs_app, visible_app, (Hb _ _ _ _ _ _ _ H1), (IH _ _ _ _ _ _ _ H2). reflexivity.
  Qed.

  Theorem tr_exec_obs s : forall cur o x x' evs o' t,
    tr_exec cur s o x = Some (x', evs, o', t) -> obs evs = visible t.
  Proof.
    induction s as [| | | | | | | | | | | | | | | | | |cc sa IHa sb IHb|sa IHa sb IHb|sb IHb|sb IHb|sb IHb|sb IHb| | | | | | | | | |lc sa IHa];
      intros cur o x x' evs o' t H;
      try solve [rewrite tr_exec_atom in H by reflexivity;
                 match type of H with context[exec_atom cur ?s o x] =>
                   destruct (exec_atom cur s o x) as [[[x1 e1] o1]|] eqn:E; [|discriminate H];
                   injection H as <- <- <- <-; eapply exec_atom_obs; [|exact E]; reflexivity end].
    - simpl in H. destruct (evalc cc cur o x) as [[[|] o1]|]; [eapply IHa|eapply IHb|discriminate]; exact H.
    - simpl in H. apply tbind_some in H as (x1 & e1 & o1 & t1 & e2 & t2 & H1 & H2 & -> & ->).
      rewrite obs_app, visible_app, (IHa _ _ _ _ _ _ _ H1), (IHb _ _ _ _ _ _ _ H2). reflexivity.
    - simpl in H. eapply titer_slots_obs; [|exact H]. intros i o0 x0 x0' e0 o0' t0 Hb. eapply IHb; exact Hb.
    - simpl in H. destruct o as [|[?|?|n|?] o1]; try discriminate. eapply titer_obs; [|exact H].
      intros o0 x0 x0' e0 o0' t0 Hb. eapply IHb; exact Hb.
    - simpl in H. eapply titer_obs; [|exact H]. intros o0 x0 x0' e0 o0' t0 Hb. eapply IHb; exact Hb.
    - simpl in H. destruct o as [|[?|?|n|?] o1]; try discriminate. eapply titer_obs; [|exact H].
      intros o0 x0 x0' e0 o0' t0 Hb. eapply titer_slots_obs; [|exact Hb].
      intros i o2 x2 x2' e2 o2' t2 Hb2. eapply IHb; exact Hb2.
    - simpl in H. eapply IHa; exact H.
  Qed.
End Obs.

(* ------------------------------------------------------------------ completeness of [rem] *)
Lemma union_mem L a b x : Good L a -> Good L b -> suffix x L -> In x a \/ In x b -> In x (union_rem a b).
Proof.
  intros Ha Hb Hx H. eapply Good_In; [apply Good_union; eassumption|exact Hx|].
  apply union_rem_LIn. destruct H as [H|H]; [left|right]; apply In_LIn; exact H.
Qed.

Lemma Good_rem N T wd s l : Good l (rem N T wd s l).
Proof. intros x H. eapply rem_shrinking; exact H. Qed.

(* an atom consumes exactly the event it emits (nothing when it emits none, or a draw when draws are ignored) *)
Lemma rem_atom_complete N T wd s rest : is_atom s = true -> In rest (rem N T wd s (proj wd (atom_tr s) ++ rest)).
Proof. intros H. destruct s; try discriminate H; destruct wd; simpl; left; reflexivity. Qed.

Section Complete.
  Variables (lbs ubs : list Z) (f : contents -> Z) (hk : st -> st) (n_iter : nat) (okc : contents -> contents -> bool).
  Notation exec := (exec lbs ubs f hk n_iter okc).
  Notation exec_atom := (exec_atom lbs ubs f hk okc).
  Notation tr_exec := (tr_exec lbs ubs f hk n_iter okc).
  Notation tr_run := (tr_run lbs ubs f hk n_iter okc).
  Hypothesis hk_len : forall y, length (pop (hk y)) = length (pop y).
  Variables (N : nat) (wd : bool).

  Lemma tr_exec_len cur s o x x' evs o' t :
    tr_exec cur s o x = Some (x', evs, o', t) -> length (pop x') = length (pop x).
  Proof. intros H. apply tr_exec_exec in H. eapply exec_len; [exact hk_len|exact H]. Qed.

  (* [n] rounds of a body whose every execution is matched by [g] give a chain of [n] applications of [g] *)
  Lemma titer_chain (body : list answer -> st -> tres) (g : list oev -> list (list oev)) :
    (forall o x x' evs o' t, body o x = Some (x', evs, o', t) -> length (pop x) = N ->
       length (pop x') = N /\ forall rest, In rest (g (proj wd t ++ rest))) ->
    forall n o x x' evs o' t, titer n body o x = Some (x', evs, o', t) -> length (pop x) = N ->
      length (pop x') = N /\ forall rest, chain g n (proj wd t ++ rest) rest.
  Proof.
    intros Hb n. induction n as [|n IH]; intros o x x' evs o' t H HN; simpl in H.
    - injection H as <- <- <- <-. split; [exact HN|]. intros rest. destruct wd; simpl; constructor.
    - apply tbind_some in H as (x1 & e1 & o1 & t1 & e2 & t2 & H1 & H2 & -> & ->).
      destruct (Hb _ _ _ _ _ _ H1 HN) as [HN1 Hg]. destruct (IH _ _ _ _ _ _ H2 HN1) as [HN2 Hc].
      split; [exact HN2|]. intros rest. rewrite proj_app, <- app_assoc.
      econstructor; [apply Hg|apply Hc].
  Qed.

  Lemma titer_slots_chain (body : nat -> list answer -> st -> tres) (g : list oev -> list (list oev)) :
    (forall i o x x' evs o' t, body i o x = Some (x', evs, o', t) -> length (pop x) = N ->
       length (pop x') = N /\ forall rest, In rest (g (proj wd t ++ rest))) ->
    forall n i o x x' evs o' t, titer_slots i n body o x = Some (x', evs, o', t) -> length (pop x) = N ->
      length (pop x') = N /\ forall rest, chain g n (proj wd t ++ rest) rest.
  Proof.
    intros Hb n. induction n as [|n IH]; intros i o x x' evs o' t H HN; simpl in H.
    - injection H as <- <- <- <-. split; [exact HN|]. intros rest. destruct wd; simpl; constructor.
    - apply tbind_some in H as (x1 & e1 & o1 & t1 & e2 & t2 & H1 & H2 & -> & ->).
      destruct (Hb _ _ _ _ _ _ _ H1 HN) as [HN1 Hg]. destruct (IH _ _ _ _ _ _ _ H2 HN1) as [HN2 Hc].
      split; [exact HN2|]. intros rest. rewrite proj_app, <- app_assoc.
      econstructor; [apply Hg|apply Hc].
  Qed.

  Notation rem := (rem N n_iter wd).

  (* the sweep over the N slots: used by ForSlots and by every round of Onlooker *)
  Lemma slots_complete sb :
    (forall cur o x x' evs o' t, tr_exec cur sb o x = Some (x', evs, o', t) -> length (pop x) = N ->
       forall rest, In rest (rem sb (proj wd t ++ rest))) ->
    forall o x x' evs o' t,
      titer_slots 0 (length (pop x)) (fun i => tr_exec (Some i) sb) o x = Some (x', evs, o', t) -> length (pop x) = N ->
      length (pop x') = N /\ forall rest, In rest (iterate N (rem sb) [proj wd t ++ rest]).
  Proof.
    intros IHb o x x' evs o' t H HN. rewrite HN in H.
    eapply (titer_slots_chain _ (rem sb)) in H; [|clear H|exact HN].
    - destruct H as [HN' Hc]. split; [exact HN'|]. intros rest.
      eapply iterate_complete; [apply rem_shrinking|apply Good_single|left; reflexivity|apply Hc].
    - intros i o0 x0 x0' e0 o0' t0 Hb HN0. split; [rewrite <- HN0; eapply tr_exec_len; exact Hb|].
      eapply IHb; eassumption.
  Qed.

  Theorem rem_complete s : forall cur o x x' evs o' t,
    tr_exec cur s o x = Some (x', evs, o', t) -> length (pop x) = N ->
    forall rest, In rest (rem s (proj wd t ++ rest)).
  Proof.
    induction s as [| | | | | | | | | | | | | | | | | |cc sa IHa sb IHb|sa IHa sb IHb|sb IHb|sb IHb|sb IHb|sb IHb| | | | | | | | | |lc sa IHa];
      intros cur o x x' evs o' t H HN rest;
      try solve [rewrite tr_exec_atom in H by reflexivity;
                 match type of H with context[exec_atom cur ?s o x] =>
                   destruct (exec_atom cur s o x) as [[[x1 e1] o1]|] eqn:E; [|discriminate H];
                   injection H as <- <- <- <-; apply rem_atom_complete; reflexivity end].
    - (* If *)
      simpl in H. destruct (evalc cc cur o x) as [[[|] o1]|]; [| |discriminate];
        (eapply union_mem; [apply Good_rem|apply Good_rem|apply suffix_app|]).
      + left. eapply IHa; eassumption.
      + right. eapply IHb; eassumption.
    - (* Seq *)
      simpl in H. apply tbind_some in H as (x1 & e1 & o1 & t1 & e2 & t2 & H1 & H2 & -> & ->).
      assert (HN1 : length (pop x1) = N) by (rewrite <- HN; eapply tr_exec_len; exact H1).
      rewrite proj_app, <- app_assoc.
      eapply (step_mem _ (rem sb)); [apply rem_shrinking|apply Good_rem|eapply IHa; eassumption|eapply IHb; eassumption].
    - (* ForSlots *)
      simpl in H. eapply slots_complete in H; [apply H| |exact HN].
      intros cur0 o0 x0 x0' e0 o0' t0 Hb HN0. eapply IHb; eassumption.
    - (* RepeatAny *)
      simpl in H. destruct o as [|[?|?|n|?] o1]; try discriminate.
      eapply (titer_chain _ (rem sb)) in H; [|clear H|exact HN].
      + destruct H as [_ Hc]. eapply star_complete; [apply rem_shrinking|apply Hc].
      + intros o0 x0 x0' e0 o0' t0 Hb HN0. split; [rewrite <- HN0; eapply tr_exec_len; exact Hb|].
        eapply IHb; eassumption.
    - (* Repeat *)
      simpl in H. eapply (titer_chain _ (rem sb)) in H; [|clear H|exact HN].
      + destruct H as [_ Hc]. eapply iterate_complete; [apply rem_shrinking|apply Good_single|left; reflexivity|apply Hc].
      + intros o0 x0 x0' e0 o0' t0 Hb HN0. split; [rewrite <- HN0; eapply tr_exec_len; exact Hb|].
        eapply IHb; eassumption.
    - (* Onlooker *)
      simpl in H. destruct o as [|[?|?|n|?] o1]; try discriminate.
      eapply (titer_chain _ (fun r => iterate N (rem sb) [r])) in H; [|clear H|exact HN].
      + destruct H as [_ Hc]. eapply (star_complete (fun r => iterate N (rem sb) [r]));
          [apply iterate_single_shrinking, rem_shrinking|apply Hc].
      + intros o0 x0 x0' e0 o0' t0 Hb HN0. eapply slots_complete; [|exact Hb|exact HN0].
        intros cur0 o2 x2 x2' e2 o2' t2 Hb2 HN2. eapply IHb; eassumption.
    - (* At *) simpl in H. eapply IHa; eassumption.
  Qed.
End Complete.

(* ------------------------------------------------------------------ the matcher is complete *)
Theorem accepts_complete_gen : forall wd p lbs ubs f hk n_iter okc o x x' evs o' tr,
  (forall y, length (pop (hk y)) = length (pop y)) ->
  tr_run lbs ubs f hk n_iter okc p o x = Some (x', evs, o', tr) ->
  accepts (length (pop x)) n_iter wd p (proj wd tr) = true.
Proof.
  intros wd p lbs ubs f hk n_iter okc o x x' evs o' tr Hhk H. unfold accepts. apply existsb_exists. exists []. split; [|reflexivity].
  rewrite <- (app_nil_r (proj wd tr)). eapply rem_complete; [exact Hhk|exact H|reflexivity].
Qed.

(* every instrumented trace of an execution of [p] from a population of N agents, [n_iter] iterations, is accepted *)
Theorem accepts_complete : forall p lbs ubs f hk n_iter okc o x x' evs o' tr,
  (forall y, length (pop (hk y)) = length (pop y)) ->
  tr_run lbs ubs f hk n_iter okc p o x = Some (x', evs, o', tr) ->
  accepts (length (pop x)) n_iter true p tr = true.
Proof. intros. eapply (accepts_complete_gen true); eassumption. Qed.

(* with_draws = false (GP): the trace without its OR entries is accepted *)
Theorem accepts_complete_nodraws : forall p lbs ubs f hk n_iter okc o x x' evs o' tr,
  (forall y, length (pop (hk y)) = length (pop y)) ->
  tr_run lbs ubs f hk n_iter okc p o x = Some (x', evs, o', tr) ->
  accepts (length (pop x)) n_iter false p (filter (fun e => negb (oev_eqb e OR)) tr) = true.
Proof. intros. eapply (accepts_complete_gen false); eassumption. Qed.

(* stated on the semantics itself: every successful [run] has an instrumented trace, which is the same execution
   (same final state, events, remaining oracle), whose visible part is the observable projection of the events,
   and which the matcher accepts in both modes *)
Theorem run_accepted : forall p lbs ubs f hk n_iter okc o x x' evs o',
  (forall y, length (pop (hk y)) = length (pop y)) ->
  run lbs ubs f hk n_iter okc p o x = Some (x', evs, o') ->
  exists tr, tr_run lbs ubs f hk n_iter okc p o x = Some (x', evs, o', tr) /\
             obs evs = visible tr /\
             accepts (length (pop x)) n_iter true p tr = true /\
             accepts (length (pop x)) n_iter false p (filter (fun e => negb (oev_eqb e OR)) tr) = true.
Proof.
  intros p lbs ubs f hk n_iter okc o x x' evs o' Hhk H. apply exec_tr_exec in H as [tr H]. exists tr.
  split; [exact H|]. split; [eapply tr_exec_obs; exact H|].
  split; [eapply accepts_complete|eapply accepts_complete_nodraws]; eassumption.
Qed.

Print Assumptions accepts_complete.
Print Assumptions accepts_complete_nodraws.
Print Assumptions run_accepted.
Print Assumptions star_complete.
