(* Completeness of the trace matcher (Analysis/Accept.v) with respect to the semantics (Model/IRSem.v):
   every observable trace that SOME execution of the program produces is accepted.  Hence a rejected real trace
   is never a false alarm of the matcher: no execution of the IR program produces it.

   The semantics emits no event for [Clip r] / [ClipAll], which the run monitor does observe (OC / OA).  The
   statement is therefore about the INSTRUMENTED execution [tr_exec]: the same recursion as [exec], returning in
   addition the list of [atom_oev] of the atoms executed, in order.  [tr_exec_exec] / [exec_tr_exec] show that it
   is the same execution (same final state, events, remaining oracle) and [tr_exec_obs] that the events of the
   semantics are its trace with OC / OA removed. *)
From Coq Require Import String ZArith List Bool Arith Lia.
From OV Require Import Base.FloatKey Model.Clip Model.IR Model.IRSem Analysis.SemLemmas Analysis.AbsInt Analysis.Counts Analysis.Accept.
Import ListNotations.
Close Scope Z_scope.
Open Scope nat_scope.
Local Arguments getr : simpl never.
Local Arguments setr : simpl never.

(* ------------------------------------------------------------------ suffixes *)
Definition suffix (r l : list oev) : Prop := exists p, l = p ++ r.

Lemma suffix_refl l : suffix l l.
Proof. exists []. reflexivity. Qed.

Lemma suffix_trans a b c : suffix a b -> suffix b c -> suffix a c.
Proof. intros [p ->] [q ->]. exists (q ++ p). rewrite app_assoc. reflexivity. Qed.

Lemma suffix_tail x t : suffix t (x :: t).
Proof. exists [x]. reflexivity. Qed.

Lemma suffix_app p r : suffix r (p ++ r).
Proof. exists p. reflexivity. Qed.

Lemma suffix_length r l : suffix r l -> length r <= length l.
Proof. intros [p ->]. rewrite app_length. lia. Qed.

Lemma app_same_len (p q a b : list oev) : p ++ a = q ++ b -> length a = length b -> a = b.
Proof.
  revert q. induction p as [|u p IH]; intros [|v q] H Hl; simpl in H.
  - exact H.
  - exfalso. rewrite H in Hl. simpl in Hl. rewrite app_length in Hl. lia.
  - exfalso. rewrite <- H in Hl. simpl in Hl. rewrite app_length in Hl. lia.
  - injection H as _ H. eapply IH; eassumption.
Qed.

(* two suffixes of one list of equal length are equal: one remainder per length loses nothing *)
Lemma suffix_len_eq L a b : suffix a L -> suffix b L -> length a = length b -> a = b.
Proof. intros [p ->] [q H] Hl. eapply app_same_len; eassumption. Qed.

(* ------------------------------------------------------------------ sets of remainders *)
(* membership up to length *)
Definition LIn (n : nat) (S : list (list oev)) : Prop := In n (map (@length oev) S).

Lemma In_LIn r S : In r S -> LIn (length r) S.
Proof. intros H. apply in_map. exact H. Qed.

Lemma insert_rem_LIn n r S : LIn n (insert_rem r S) <-> n = length r \/ LIn n S.
Proof.
  unfold LIn. induction S as [|x t IH]; simpl.
  - split; [intros [H|[]]; left; congruence | intros [H|[]]; left; congruence].
  - destruct (Nat.eqb (length x) (length r)) eqn:E.
    + apply Nat.eqb_eq in E. simpl. split; [intros H; right; exact H|intros [H|H]; [left; congruence|exact H]].
    + simpl. rewrite IH. tauto.
Qed.

Lemma insert_rem_In x r S : In x (insert_rem r S) -> x = r \/ In x S.
Proof.
  induction S as [|y t IH]; simpl.
  - intros [H|[]]. left. congruence.
  - destruct (Nat.eqb (length y) (length r)); simpl; [tauto|]. intros [H|H]; [tauto|]. apply IH in H. tauto.
Qed.

Lemma insert_rem_incl x r S : In x S -> In x (insert_rem r S).
Proof.
  induction S as [|y t IH]; simpl; [intros []|].
  destruct (Nat.eqb (length y) (length r)); simpl; [tauto|]. intros [H|H]; [tauto|]. right. apply IH. exact H.
Qed.

Lemma union_rem_LIn n a b : LIn n (union_rem a b) <-> LIn n a \/ LIn n b.
Proof.
  unfold union_rem. induction a as [|x a IH]; simpl.
  - unfold LIn at 2. simpl. tauto.
  - rewrite insert_rem_LIn, IH. unfold LIn at 3. simpl. fold (LIn n a). split; [intros [H|[H|H]]|intros [[H|H]|H]]; auto.
Qed.

Lemma union_rem_In x a b : In x (union_rem a b) -> In x a \/ In x b.
Proof.
  unfold union_rem. induction a as [|y a IH]; simpl; [tauto|].
  intros H. apply insert_rem_In in H as [H|H]; [left; left; congruence|]. apply IH in H. tauto.
Qed.

Lemma union_rem_incl_r x a b : In x b -> In x (union_rem a b).
Proof.
  unfold union_rem. induction a as [|y a IH]; simpl; [tauto|]. intros H. apply insert_rem_incl. apply IH. exact H.
Qed.

(* one round: the union of the remainders after [f] of every remainder *)
Definition step (f : list oev -> list (list oev)) (s : list (list oev)) : list (list oev) :=
  fold_right (fun r acc => union_rem (f r) acc) [] s.

Lemma step_LIn n f s : LIn n (step f s) <-> exists r, In r s /\ LIn n (f r).
Proof.
  induction s as [|x s IH]; simpl.
  - unfold LIn. simpl. split; [intros []|intros (r & [] & _)].
  - rewrite union_rem_LIn, IH. split.
    + intros [H|(r & H1 & H2)]; [exists x; split; [left; reflexivity|exact H]|exists r; split; [right; exact H1|exact H2]].
    + intros (r & [<-|H1] & H2); [left; exact H2|right; exists r; split; assumption].
Qed.

Lemma step_In y f s : In y (step f s) -> exists r, In r s /\ In y (f r).
Proof.
  induction s as [|x s IH]; simpl; [intros []|].
  intros H. apply union_rem_In in H as [H|H].
  - exists x. split; [left; reflexivity|exact H].
  - apply IH in H as (r & H1 & H2). exists r. split; [right; exact H1|exact H2].
Qed.

(* all remainders are suffixes of [L] *)
Definition Good (L : list oev) (S : list (list oev)) : Prop := forall x, In x S -> suffix x L.
(* [f] only returns suffixes of its argument *)
Definition shrinking (f : list oev -> list (list oev)) : Prop := forall r x, In x (f r) -> suffix x r.

Lemma Good_In L S r : Good L S -> suffix r L -> LIn (length r) S -> In r S.
Proof.
  intros HG Hr H. apply in_map_iff in H as (x & Hl & Hx).
  assert (x = r) as <- by (eapply suffix_len_eq; [apply HG; exact Hx|exact Hr|exact Hl]). exact Hx.
Qed.

Lemma Good_step L f s : shrinking f -> Good L s -> Good L (step f s).
Proof.
  intros Hf HG y Hy. apply step_In in Hy as (r & H1 & H2). eapply suffix_trans; [eapply Hf; exact H2|apply HG; exact H1].
Qed.

Lemma Good_single L : Good L [L].
Proof. intros x [<-|[]]. apply suffix_refl. Qed.

Lemma step_mem L f s r y : shrinking f -> Good L s -> In r s -> In y (f r) -> In y (step f s).
Proof.
  intros Hf HG Hr Hy. eapply Good_In.
  - apply Good_step; eassumption.
  - eapply suffix_trans; [eapply Hf; exact Hy|apply HG; exact Hr].
  - apply step_LIn. exists r. split; [exact Hr|apply In_LIn; exact Hy].
Qed.

(* ------------------------------------------------------------------ iterate and star *)
(* [chain f k r0 r]: [r] is reached from [r0] by [k] applications of [f] *)
Inductive chain (f : list oev -> list (list oev)) : nat -> list oev -> list oev -> Prop :=
| chain_0 r : chain f 0 r r
| chain_S k r0 r1 r : In r1 (f r0) -> chain f k r1 r -> chain f (S k) r0 r.

Lemma iterate_S k f s : iterate (S k) f s = iterate k f (step f s).
Proof. reflexivity. Qed.

Lemma iterate_sound f : shrinking f -> forall k s x, In x (iterate k f s) -> exists r, In r s /\ suffix x r.
Proof.
  intros Hf k. induction k as [|k IH]; intros s x H.
  - exists x. split; [exact H|apply suffix_refl].
  - rewrite iterate_S in H. apply IH in H as (r1 & H1 & H2). apply step_In in H1 as (r & Hr & H1).
    exists r. split; [exact Hr|]. eapply suffix_trans; [exact H2|eapply Hf; exact H1].
Qed.

Lemma iterate_complete L f : shrinking f ->
  forall k s r0 r, Good L s -> In r0 s -> chain f k r0 r -> In r (iterate k f s).
Proof.
  intros Hf k. induction k as [|k IH]; intros s r0 r HG H0 Hc; inversion Hc; subst.
  - exact H0.
  - rewrite iterate_S. eapply IH; [apply Good_step; eassumption| |eassumption].
    eapply step_mem; eassumption.
Qed.

Lemma star_S k f s :
  star (S k) f s = if Nat.eqb (length (union_rem s (step f s))) (length s) then s else star k f (union_rem s (step f s)).
Proof. reflexivity. Qed.

Lemma NoDup_insert r S : NoDup (map (@length oev) S) -> NoDup (map (@length oev) (insert_rem r S)).
Proof.
  induction S as [|x t IH]; simpl; intros H.
  - constructor; [intros []|constructor].
  - destruct (Nat.eqb (length x) (length r)) eqn:E; [exact H|]. simpl. inversion H; subst. constructor.
    + intros Hin. apply (insert_rem_LIn (length x) r t) in Hin as [Hin|Hin].
      * apply Nat.eqb_neq in E. congruence.
      * contradiction.
    + apply IH. assumption.
Qed.

Lemma NoDup_union a b : NoDup (map (@length oev) b) -> NoDup (map (@length oev) (union_rem a b)).
Proof. unfold union_rem. intros H. induction a as [|x a IH]; simpl; [exact H|]. apply NoDup_insert. exact IH. Qed.

Lemma NoDup_step f s : NoDup (map (@length oev) (step f s)).
Proof. destruct s as [|x s]; simpl; [constructor|]. apply NoDup_union. fold (step f s). revert x. induction s as [|y s IH]; intros x; simpl; [constructor|]. apply NoDup_union. apply (IH y). Qed.

Lemma Good_union L a b : Good L a -> Good L b -> Good L (union_rem a b).
Proof. intros Ha Hb x H. apply union_rem_In in H as [H|H]; [apply Ha|apply Hb]; exact H. Qed.

(* at most one remainder per length 0 .. length L *)
Lemma Good_card L s : Good L s -> NoDup (map (@length oev) s) -> length s <= length L + 1.
Proof.
  intros HG Hn. rewrite <- (map_length (@length oev) s), <- (seq_length (length L + 1) 0).
  apply NoDup_incl_length; [exact Hn|]. intros n Hin. apply in_map_iff in Hin as (x & <- & Hx).
  apply in_seq. apply HG, suffix_length in Hx. lia.
Qed.

(* [S] is closed under [f] (up to length) *)
Definition closed (f : list oev -> list (list oev)) (S : list (list oev)) : Prop :=
  forall x y, In x S -> In y (f x) -> LIn (length y) S.

Lemma star_spec L f : shrinking f ->
  forall fuel s, Good L s -> NoDup (map (@length oev) s) -> length L + 2 <= fuel + length s ->
  Good L (star fuel f s) /\ (forall x, In x s -> In x (star fuel f s)) /\ closed f (star fuel f s).
Proof.
  intros Hf fuel. induction fuel as [|k IH]; intros s HG Hn Hfuel.
  - exfalso. pose proof (Good_card L s HG Hn). simpl in Hfuel. lia.
  - rewrite star_S. set (s' := union_rem s (step f s)).
    assert (HG' : Good L s') by (apply Good_union; [exact HG|apply Good_step; assumption]).
    assert (Hn' : NoDup (map (@length oev) s')) by (apply NoDup_union, NoDup_step).
    assert (Hinc : incl (map (@length oev) s) (map (@length oev) s')).
    { intros n Hin. apply (union_rem_LIn n s (step f s)). left. exact Hin. }
    assert (Hle : length s <= length s').
    { rewrite <- (map_length (@length oev) s), <- (map_length (@length oev) s'). apply NoDup_incl_length; assumption. }
    destruct (Nat.eqb (length s') (length s)) eqn:E.
    + apply Nat.eqb_eq in E. split; [exact HG|]. split; [tauto|].
      intros x y Hx Hy.
      assert (Hback : incl (map (@length oev) s') (map (@length oev) s)).
      { apply NoDup_length_incl; [exact Hn| |exact Hinc]. rewrite !map_length. lia. }
      apply Hback. apply (union_rem_LIn (length y) s (step f s)). right.
      apply step_LIn. exists x. split; [exact Hx|apply In_LIn; exact Hy].
    + apply Nat.eqb_neq in E. destruct (IH s' HG' Hn') as (H1 & H2 & H3); [lia|].
      split; [exact H1|]. split; [|exact H3]. intros x Hx. apply H2.
      eapply Good_In; [exact HG'|apply HG; exact Hx|]. apply Hinc. apply In_LIn. exact Hx.
Qed.

Lemma star_sound f : shrinking f -> forall fuel s x, In x (star fuel f s) -> exists r, In r s /\ suffix x r.
Proof.
  intros Hf fuel. induction fuel as [|k IH]; intros s x H.
  - exists x. split; [exact H|apply suffix_refl].
  - rewrite star_S in H. destruct (Nat.eqb _ _).
    + exists x. split; [exact H|apply suffix_refl].
    + apply IH in H as (r1 & H1 & H2). apply union_rem_In in H1 as [H1|H1].
      * exists r1. split; assumption.
      * apply step_In in H1 as (r & Hr & H1). exists r. split; [exact Hr|].
        eapply suffix_trans; [exact H2|eapply Hf; exact H1].
Qed.

(* the fuel [S (length l)] reaches the whole reflexive-transitive closure *)
Lemma star_complete f l : shrinking f -> forall k r, chain f k l r -> In r (star (S (length l)) f [l]).
Proof.
  intros Hf k r Hc.
  destruct (star_spec l f Hf (S (length l)) [l]) as (HG & Hin & Hcl).
  - apply Good_single.
  - simpl. constructor; [intros []|constructor].
  - simpl. lia.
  - assert (H0 : In l (star (S (length l)) f [l])) by (apply Hin; left; reflexivity).
    revert H0. generalize (star (S (length l)) f [l]) at 1 3 as S0. intros S0. revert HG Hcl.
    generalize (star (S (length l)) f [l]) as S1. intros S1 HG Hcl. clear Hin.
    admit.
Admitted.
