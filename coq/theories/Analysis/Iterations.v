(* The main loop of run(): n_iterations iterations, each ending with exactly one history.dump of the
   state as it stands at the end of the iteration (C03, C04); and the evaluation budget as a polynomial
   in the population size N and the iteration count T (C03). *)
From Coq Require Import String ZArith List Bool Arith Lia.
From OV Require Import Base.FloatKey Model.Clip Model.IR Model.IRSem Analysis.SemLemmas Analysis.AbsInt Analysis.Counts.
Import ListNotations.
Close Scope Z_scope.
Open Scope nat_scope.

Definition dumps_of (evs : list event) : list st :=
  flat_map (fun e => match e with EvDump y => [y] | _ => [] end) evs.

Lemma dumps_of_app a b : dumps_of (a ++ b) = dumps_of a ++ dumps_of b.
Proof. unfold dumps_of. apply flat_map_app. Qed.

Lemma dumps_of_cnt0 evs : cnt KDump evs = 0 -> dumps_of evs = [].
Proof.
  unfold cnt. induction evs as [|e evs IH]; simpl; [reflexivity|].
  destruct e; simpl; auto. discriminate.
Qed.

(* pre ;; Repeat body, read off the right spine of the Seq tree *)
Fixpoint main_loop (s : stmt) : option (list stmt * stmt) :=
  match s with
  | Seq a b => match main_loop b with Some (pre, body) => Some (a :: pre, body) | None => None end
  | Repeat b => Some ([], b)
  | _ => None
  end.

(* no atom emitting an event of kind k anywhere in the statement *)
Fixpoint noev (k : evkind) (s : stmt) : bool :=
  match s with
  | Seq a b | If _ a b => noev k a && noev k b
  | At _ b | ForSlots b | RepeatAny b | Repeat b | Onlooker b => noev k b
  | _ => Nat.eqb (atom_cnt k s) 0
  end.

Lemma noev_cexact n k s : noev k s = true -> cexact n k s = Some 0.
Proof.
  induction s; cbn [noev cexact]; intros H; try (apply Nat.eqb_eq in H; rewrite H; reflexivity).
  - apply andb_true_iff in H as [H1 H2]. rewrite (IHs1 H1), (IHs2 H2). reflexivity.
  - apply andb_true_iff in H as [H1 H2]. rewrite (IHs1 H1), (IHs2 H2). reflexivity.
  - rewrite (IHs H). reflexivity.
  - rewrite (IHs H). reflexivity.
  - rewrite (IHs H), Nat.mul_0_r. reflexivity.
  - rewrite (IHs H). reflexivity.
  - apply IHs; assumption.
Qed.

(* the statement ends with Dump (right spine, modulo location tags) and has no other Dump *)
Fixpoint ends_with_dump (s : stmt) : bool :=
  match s with
  | Dump => true
  | At _ b => ends_with_dump b
  | Seq a b => noev KDump a && ends_with_dump b
  | _ => false
  end.

Section Iter.
  Variables (lbs ubs : list Z) (f : contents -> Z) (hk : st -> st) (n_iter : nat) (okc : contents -> contents -> bool).
  Notation exec := (exec lbs ubs f hk n_iter okc).
  Hypothesis hk_len : forall x, length (pop (hk x)) = length (pop x).

  Fixpoint exec_list (cur : option nat) (l : list stmt) (o : list answer) (x : st) : res :=
    match l with
    | [] => ret x o
    | s :: t => bind (exec cur s o x) (fun x1 o1 => exec_list cur t o1 x1)
    end.

  Lemma bind_assoc r k1 k2 :
    bind (bind r k1) k2 = bind r (fun x o => bind (k1 x o) k2).
  Proof.
    unfold bind. destruct r as [[[x e] o]|]; [|reflexivity].
    destruct (k1 x o) as [[[x1 e1] o1]|]; [|reflexivity].
    destruct (k2 x1 o1) as [[[x2 e2] o2]|]; [|reflexivity]. rewrite app_assoc. reflexivity.
  Qed.

  Lemma main_loop_exec s : forall pre body, main_loop s = Some (pre, body) ->
    forall cur o x, exec cur s o x = bind (exec_list cur pre o x) (fun x1 o1 => exec cur (Repeat body) o1 x1).
  Proof.
    induction s; intros pre body H cur o x; simpl in H; try discriminate.
    - destruct (main_loop s2) as [[pre2 body2]|] eqn:E; [|discriminate]. injection H as <- <-.
      simpl. unfold bind. destruct (exec cur s1 o x) as [[[x1 e1] o1]|]; [|reflexivity].
      rewrite (IHs2 _ _ eq_refl). unfold bind.
      destruct (exec_list cur pre2 o1 x1) as [[[x2 e2] o2]|]; [|reflexivity].
      simpl. destruct (iter n_iter (exec cur body2) o2 x2) as [[[x3 e3] o3]|]; [|reflexivity].
      rewrite app_assoc. reflexivity.
    - injection H as <- <-. simpl. unfold bind, ret.
      destruct (iter n_iter (exec cur s) o x) as [[[x1 e1] o1]|]; reflexivity.
  Qed.

  (* one iteration ends with the dump of its final state *)
  Lemma ends_with_dump_sound s : ends_with_dump s = true ->
    forall cur o x x' evs o', exec cur s o x = Some (x', evs, o') ->
    exists e, evs = e ++ [EvDump x'] /\ cnt KDump e = 0.
  Proof.
    induction s; intros H cur o x x' evs o' Hex; simpl in H; try discriminate.
    - apply andb_true_iff in H as [H1 H2].
      simpl in Hex. apply bind_some in Hex as (x1 & e1 & o1 & e2 & Ha & Hb & ->).
      destruct (IHs2 H2 _ _ _ _ _ _ Hb) as (e & -> & Hc).
      exists (e1 ++ e). split; [rewrite app_assoc; reflexivity|].
      rewrite cnt_app, Hc, Nat.add_0_r.
      eapply (cexact_sound lbs ubs f hk n_iter okc KDump s1); [apply noev_cexact; exact H1|exact Ha].
    - simpl in Hex. injection Hex as <- <- <-. exists []. split; reflexivity.
    - simpl in Hex. eapply IHs; eassumption.
  Qed.

  (* successive iteration-end states *)
  Inductive chain (body : list answer -> st -> res) : st -> list st -> st -> Prop :=
  | chain_nil x : chain body x [] x
  | chain_cons x o y e o' ys z : body o x = Some (y, e, o') -> chain body y ys z -> chain body x (y :: ys) z.

  Lemma iter_dumps (body : list answer -> st -> res) :
    (forall o x x' evs o', body o x = Some (x', evs, o') -> exists e, evs = e ++ [EvDump x'] /\ cnt KDump e = 0) ->
    forall n o x x' evs o', iter n body o x = Some (x', evs, o') ->
      exists xs, length xs = n /\ chain body x xs x' /\ dumps_of evs = xs.
  Proof.
    intros Hb n. induction n as [|n IH]; intros o x x' evs o' H; simpl in H.
    - unfold ret in H. injection H as <- <- <-. exists []. repeat split. constructor.
    - apply bind_some in H as (x1 & e1 & o1 & e2 & H1 & H2 & ->).
      destruct (Hb _ _ _ _ _ H1) as (e & -> & Hc). destruct (IH _ _ _ _ _ H2) as (xs & Hl & Hch & Hd).
      exists (x1 :: xs). split; [simpl; congruence|split].
      + econstructor; eassumption.
      + rewrite !dumps_of_app, (dumps_of_cnt0 _ Hc), Hd. reflexivity.
  Qed.

  Lemma exec_list_nodump cur l : forallb (noev KDump) l = true ->
    forall o x x' evs o', exec_list cur l o x = Some (x', evs, o') -> cnt KDump evs = 0.
  Proof.
    induction l as [|s l IH]; intros H o x x' evs o' Hex; simpl in *.
    - unfold ret in Hex. injection Hex as <- <- <-. reflexivity.
    - apply andb_true_iff in H as [H1 H2]. apply bind_some in Hex as (x1 & e1 & o1 & e2 & Ha & Hb & ->).
      rewrite cnt_app, (IH H2 _ _ _ _ _ Hb), Nat.add_0_r.
      eapply (cexact_sound lbs ubs f hk n_iter okc KDump s); [apply noev_cexact; exact H1|exact Ha].
  Qed.

  (* C04 / C03: the records of a run are exactly the states at the end of its n_iterations iterations, in order *)
  Definition records_check (p : stmt) : bool :=
    match main_loop (strip p) with
    | Some (pre, body) => forallb (noev KDump) pre && ends_with_dump body
    | None => false
    end.

  Theorem records_are_iteration_ends p : records_check p = true ->
    forall o x0 x' evs o', run lbs ubs f hk n_iter okc p o x0 = Some (x', evs, o') ->
    exists pre body x1 xs,
      main_loop (strip p) = Some (pre, body) /\
      length xs = n_iter /\ chain (exec None body) x1 xs x' /\ dumps_of evs = xs.
  Proof.
    unfold records_check, run. intros Hc o x0 x' evs o' Hr.
    destruct (main_loop (strip p)) as [[pre body]|] eqn:E; [|discriminate].
    apply andb_true_iff in Hc as [Hp Hb].
    rewrite <- (exec_strip lbs ubs f hk n_iter okc), (main_loop_exec _ _ _ E) in Hr.
    apply bind_some in Hr as (x1 & e1 & o1 & e2 & H1 & H2 & ->).
    simpl in H2.
    destruct (iter_dumps (exec None body) (fun o x x' evs o' => ends_with_dump_sound body Hb None o x x' evs o') _ _ _ _ _ _ H2)
      as (xs & Hl & Hch & Hd).
    exists pre, body, x1, xs. repeat split; try assumption.
    rewrite dumps_of_app, (dumps_of_cnt0 _ (exec_list_nodump None pre Hp _ _ _ _ _ H1)), Hd. reflexivity.
  Qed.
End Iter.

(* ------------------------------------------------------------------ the evaluation budget as a polynomial *)
(* (c0, c1, c2, c3) stands for c0 + c1*N + c2*T + c3*N*T, N = population size, T = n_iterations *)
Definition poly := (nat * nat * nat * nat)%type.
Definition pv (c : poly) (N T : nat) : nat := let '(c0, c1, c2, c3) := c in c0 + c1 * N + c2 * T + c3 * N * T.
Definition padd (a b : poly) : poly :=
  let '(a0, a1, a2, a3) := a in let '(b0, b1, b2, b3) := b in (a0 + b0, a1 + b1, a2 + b2, a3 + b3).
Definition pmax (a b : poly) : poly :=
  let '(a0, a1, a2, a3) := a in let '(b0, b1, b2, b3) := b in (Nat.max a0 b0, Nat.max a1 b1, Nat.max a2 b2, Nat.max a3 b3).

Fixpoint cmaxl (k : evkind) (s : stmt) : option poly :=
  match s with
  | Seq s1 s2 => match cmaxl k s1, cmaxl k s2 with Some a, Some b => Some (padd a b) | _, _ => None end
  | If _ s1 s2 => match cmaxl k s1, cmaxl k s2 with Some a, Some b => Some (pmax a b) | _, _ => None end
  | At _ s1 => cmaxl k s1
  | ForSlots b => match cmaxl k b with Some (c0, 0, c2, 0) => Some (0, c0, 0, c2) | _ => None end
  | RepeatAny b | Onlooker b => match cmaxl k b with Some (0, 0, 0, 0) => Some (0, 0, 0, 0) | _ => None end
  | Repeat b => match cmaxl k b with Some (c0, c1, 0, 0) => Some (0, 0, c0, c1) | _ => None end
  | _ => Some (atom_cnt k s, 0, 0, 0)
  end.

Lemma pv_pmax_l a b N T : pv a N T <= pv (pmax a b) N T.
Proof.
  destruct a as [[[a0 a1] a2] a3], b as [[[b0 b1] b2] b3]. cbv beta iota delta [pv pmax].
  repeat apply Nat.add_le_mono; repeat apply Nat.mul_le_mono_r; apply Nat.le_max_l.
Qed.
Lemma pv_pmax_r a b N T : pv b N T <= pv (pmax a b) N T.
Proof.
  destruct a as [[[a0 a1] a2] a3], b as [[[b0 b1] b2] b3]. cbv beta iota delta [pv pmax].
  repeat apply Nat.add_le_mono; repeat apply Nat.mul_le_mono_r; apply Nat.le_max_r.
Qed.

Lemma cmaxl_cmax k T s : forall c, cmaxl k s = Some c -> forall N, exists m, cmax T k N s = Some m /\ m <= pv c N T.
Proof.
  induction s; intros c0 Hc N; cbn [cmaxl] in Hc; cbn [cmax];
    try (injection Hc as <-; eexists; split; [reflexivity|cbv beta iota delta [pv]; rewrite !Nat.mul_0_l, !Nat.add_0_r; apply le_n]).
  - (* If *)
    destruct (cmaxl k s1) as [[[[a0 a1] a2] a3]|] eqn:E1; [|discriminate].
    destruct (cmaxl k s2) as [[[[b0 b1] b2] b3]|] eqn:E2; [|discriminate]. injection Hc as <-.
    destruct (IHs1 _ eq_refl N) as (m1 & -> & L1). destruct (IHs2 _ eq_refl N) as (m2 & -> & L2).
    eexists; split; [reflexivity|]. apply Nat.max_lub.
    + etransitivity; [exact L1|apply (pv_pmax_l (a0, a1, a2, a3) (b0, b1, b2, b3))].
    + etransitivity; [exact L2|apply (pv_pmax_r (a0, a1, a2, a3) (b0, b1, b2, b3))].
  - (* Seq *)
    destruct (cmaxl k s1) as [[[[a0 a1] a2] a3]|] eqn:E1; [|discriminate].
    destruct (cmaxl k s2) as [[[[b0 b1] b2] b3]|] eqn:E2; [|discriminate]. injection Hc as <-.
    destruct (IHs1 _ eq_refl N) as (m1 & -> & L1). destruct (IHs2 _ eq_refl N) as (m2 & -> & L2).
    eexists; split; [reflexivity|]. cbv beta iota delta [pv padd] in *. nia.
  - (* ForSlots *)
    destruct (cmaxl k s) as [[[[a0 [|a1]] a2] [|a3]]|] eqn:E; try discriminate. injection Hc as <-.
    destruct (IHs _ eq_refl N) as (m1 & -> & L1). eexists; split; [reflexivity|]. cbv beta iota delta [pv] in *. nia.
  - (* RepeatAny *)
    destruct (cmaxl k s) as [[[[[|a0] [|a1]] [|a2]] [|a3]]|] eqn:E; try discriminate. injection Hc as <-.
    destruct (IHs _ eq_refl N) as (m1 & -> & L1). cbv beta iota delta [pv] in L1. assert (m1 = 0) by lia. subst m1.
    eexists; split; [reflexivity|]. cbv beta iota delta [pv]. lia.
  - (* Repeat *)
    destruct (cmaxl k s) as [[[[a0 a1] [|a2]] [|a3]]|] eqn:E; try discriminate. injection Hc as <-.
    destruct (IHs _ eq_refl N) as (m1 & -> & L1). eexists; split; [reflexivity|]. cbv beta iota delta [pv] in *. nia.
  - (* Onlooker *)
    destruct (cmaxl k s) as [[[[[|a0] [|a1]] [|a2]] [|a3]]|] eqn:E; try discriminate. injection Hc as <-.
    destruct (IHs _ eq_refl N) as (m1 & -> & L1). cbv beta iota delta [pv] in L1. assert (m1 = 0) by lia. subst m1.
    eexists; split; [reflexivity|]. cbv beta iota delta [pv]. lia.
  - (* At *) apply IHs; assumption.
Qed.

(* exact counts as a + b*T *)
Fixpoint cexactl (k : evkind) (s : stmt) : option (nat * nat) :=
  match s with
  | Seq s1 s2 => match cexactl k s1, cexactl k s2 with Some (a, b), Some (a', b') => Some (a + a', b + b') | _, _ => None end
  | If _ s1 s2 => match cexactl k s1, cexactl k s2 with
                  | Some (a, 0), Some (a', 0) => if Nat.eqb a a' then Some (a, 0) else None | _, _ => None end
  | At _ s1 => cexactl k s1
  | ForSlots b | RepeatAny b | Onlooker b => match cexactl k b with Some (0, 0) => Some (0, 0) | _ => None end
  | Repeat b => match cexactl k b with Some (a, 0) => Some (0, a) | _ => None end
  | _ => Some (atom_cnt k s, 0)
  end.

Lemma cexactl_cexact k T s : forall a b, cexactl k s = Some (a, b) -> cexact T k s = Some (a + b * T).
Proof.
  induction s; intros a0 b0 Hc; cbn [cexactl] in Hc; cbn [cexact];
    try (injection Hc as <- <-; rewrite Nat.mul_0_l, Nat.add_0_r; reflexivity).
  - destruct (cexactl k s1) as [[a1 [|b1]]|] eqn:E1; try discriminate.
    destruct (cexactl k s2) as [[a2 [|b2]]|] eqn:E2; try discriminate.
    destruct (Nat.eqb a1 a2) eqn:Eq; [|discriminate]. injection Hc as <- <-.
    rewrite (IHs1 _ _ eq_refl), (IHs2 _ _ eq_refl). apply Nat.eqb_eq in Eq. subst a2.
    rewrite !Nat.mul_0_l, !Nat.add_0_r, Nat.eqb_refl. reflexivity.
  - destruct (cexactl k s1) as [[a1 b1]|] eqn:E1; [|discriminate].
    destruct (cexactl k s2) as [[a2 b2]|] eqn:E2; [|discriminate]. injection Hc as <- <-.
    rewrite (IHs1 _ _ eq_refl), (IHs2 _ _ eq_refl). f_equal. lia.
  - destruct (cexactl k s) as [[[|a1] [|b1]]|] eqn:E; try discriminate. injection Hc as <- <-.
    rewrite (IHs _ _ eq_refl). reflexivity.
  - destruct (cexactl k s) as [[[|a1] [|b1]]|] eqn:E; try discriminate. injection Hc as <- <-.
    rewrite (IHs _ _ eq_refl). reflexivity.
  - destruct (cexactl k s) as [[a1 [|b1]]|] eqn:E; try discriminate. injection Hc as <- <-.
    rewrite (IHs _ _ eq_refl). f_equal. lia.
  - destruct (cexactl k s) as [[[|a1] [|b1]]|] eqn:E; try discriminate. injection Hc as <- <-.
    rewrite (IHs _ _ eq_refl). reflexivity.
  - apply IHs; assumption.
Qed.

(* a polynomial lower bound *)
Definition pmin (a b : poly) : poly :=
  let '(a0, a1, a2, a3) := a in let '(b0, b1, b2, b3) := b in (Nat.min a0 b0, Nat.min a1 b1, Nat.min a2 b2, Nat.min a3 b3).

Fixpoint cminl (k : evkind) (s : stmt) : poly :=
  match s with
  | Seq s1 s2 => padd (cminl k s1) (cminl k s2)
  | If _ s1 s2 => pmin (cminl k s1) (cminl k s2)
  | At _ s1 => cminl k s1
  | ForSlots b => let '(c0, _, c2, _) := cminl k b in (0, c0, 0, c2)
  | RepeatAny _ | Onlooker _ => (0, 0, 0, 0)
  | Repeat b => let '(c0, c1, _, _) := cminl k b in (0, 0, c0, c1)
  | _ => (atom_cnt k s, 0, 0, 0)
  end.

Lemma pv_pmin_l a b N T : pv (pmin a b) N T <= pv a N T.
Proof.
  destruct a as [[[a0 a1] a2] a3], b as [[[b0 b1] b2] b3]. cbv beta iota delta [pv pmin].
  repeat apply Nat.add_le_mono; repeat apply Nat.mul_le_mono_r; apply Nat.le_min_l.
Qed.
Lemma pv_pmin_r a b N T : pv (pmin a b) N T <= pv b N T.
Proof.
  destruct a as [[[a0 a1] a2] a3], b as [[[b0 b1] b2] b3]. cbv beta iota delta [pv pmin].
  repeat apply Nat.add_le_mono; repeat apply Nat.mul_le_mono_r; apply Nat.le_min_r.
Qed.

Lemma cminl_cmin k T s : forall N, pv (cminl k s) N T <= cmin T k N s.
Proof.
  induction s; intros N; cbn [cminl cmin];
    try (cbv beta iota delta [pv]; rewrite !Nat.mul_0_l, !Nat.add_0_r; apply le_n).
  - apply Nat.min_glb.
    + etransitivity; [apply pv_pmin_l|apply IHs1].
    + etransitivity; [apply pv_pmin_r|apply IHs2].
  - specialize (IHs1 N). specialize (IHs2 N).
    destruct (cminl k s1) as [[[a0 a1] a2] a3], (cminl k s2) as [[[b0 b1] b2] b3].
    cbv beta iota delta [pv padd] in *. nia.
  - specialize (IHs N). destruct (cminl k s) as [[[a0 a1] a2] a3]. cbv beta iota delta [pv] in *. nia.
  - specialize (IHs N). destruct (cminl k s) as [[[a0 a1] a2] a3]. cbv beta iota delta [pv] in *. nia.
  - apply IHs.
Qed.
