(* Executable mirrors of the tree algorithms of /repo/opytimizer/core/node.py, *as written there*
   (explicit stacks, level-order sweep, identity peek), over the functional trees of Model/TreeDef.v.

     Node.pre_order   -> pre_stack      (explicit stack, right pushed before left)
     Node.post_order  -> post_stack     (one stack; `stacked[-1] is self.right` is the id comparison [go_right])
     _properties      -> props_bfs      (level-order sweep; max_depth starts at -1, min_depth == 0 is the
                                         "not set yet" sentinel)
     Node.find_node   -> find_node_h    (walks pre_order, reads the parent / flag fields of the heap)

   Python lists used as stacks are Coq lists with the *top at the head*; `out ++ [x]` is `append`.
   [tid] stands for Python object identity.  Loops that are `while` in Python take explicit fuel and
   return [None] when it runs out; Model/TreeAlgoProofs.v shows that the fuel given by [pre_stack],
   [post_stack], [props_bfs] (a function of [size t]) always suffices.  No proofs here: this file only
   has to compute (the correspondence run evaluates these definitions with vm_compute). *)
From Coq Require Import List Arith Bool ZArith.
From OV Require Import Model.TreeDef.
Import ListNotations.

Definition push_opt (o : option tree) (st : list tree) : list tree :=
  match o with Some x => x :: st | None => st end.

(* ------------------------------------------------------------------ Node.pre_order
     stacked = [self]
     while len(stacked) > 0:
         node = stacked.pop(); pre_order.append(node)
         if node.right is not None: stacked.append(node.right)
         if node.left is not None:  stacked.append(node.left)                                  *)
Fixpoint pre_loop (fuel : nat) (st out : list tree) : option (list tree) :=
  match st with
  | [] => Some out
  | node :: st' =>
    match fuel with
    | 0 => None
    | S f => pre_loop f (push_opt (tleft node) (push_opt (tright node) st')) (out ++ [node])
    end
  end.

Definition pre_stack (t : tree) : option (list tree) := pre_loop (size t) [t] [].

(* ------------------------------------------------------------------ Node.post_order
     while True:
         while self is not None:                       # [descend]
             if self.right is not None: stacked.append(self.right)
             stacked.append(self); self = self.left
         self = stacked.pop()
         if self.right is not None and len(stacked) > 0 and stacked[-1] is self.right:   # [go_right]
             stacked.pop(); stacked.append(self); self = self.right
         else:
             post_order.append(self); self = None
         if len(stacked) == 0: break                                                           *)
Fixpoint descend (t : tree) (st : list tree) : list tree :=
  match t with
  | N _ _ l r =>
    let st' := t :: push_opt r st in
    match l with Some a => descend a st' | None => st' end
  end.

Definition go_right (x : tree) (st : list tree) : bool :=
  match tright x, st with
  | Some r, y :: _ => Nat.eqb (tid y) (tid r)          (* stacked[-1] is self.right *)
  | _, _ => false
  end.

Fixpoint post_loop (fuel : nat) (cur : option tree) (st out : list tree) : option (list tree) :=
  match fuel with
  | 0 => None
  | S f =>
    match (match cur with Some t => descend t st | None => st end) with
    | [] => None                                       (* pop from an empty list: IndexError *)
    | x :: st2 =>
      if go_right x st2
      then post_loop f (tright x) (x :: tl st2) out    (* the stack holds x: the emptiness test fails *)
      else match st2 with
           | [] => Some (out ++ [x])
           | _ :: _ => post_loop f None st2 (out ++ [x])
           end
    end
  end.

Definition post_stack (t : tree) : option (list tree) := post_loop (2 * size t) (Some t) [] [].

(* ------------------------------------------------------------------ _properties
     min_depth = 0; max_depth = -1; n_leaves = n_nodes = 0; nodes = [node]
     while len(nodes) > 0:
         max_depth += 1; next_nodes = []
         for node in nodes:                            # [bfs_node], folded over the level
             n_nodes += 1
             if node.left is None and node.right is None:
                 if min_depth == 0: min_depth = max_depth
                 n_leaves += 1
             if node.left is not None:  next_nodes.append(node.left)
             if node.right is not None: next_nodes.append(node.right)
         nodes = next_nodes                                                                    *)
Definition bfs_acc := (nat * nat * Z * list tree)%type.       (* n_nodes, n_leaves, min_depth, next_nodes *)

Definition bfs_node (maxd : Z) (acc : bfs_acc) (x : tree) : bfs_acc :=
  match acc with
  | (nn, nl, mind, next) =>
    let nn1 := S nn in
    let mind1 := if is_leaf x then (if Z.eqb mind 0 then maxd else mind) else mind in
    let nl1 := if is_leaf x then S nl else nl in
    let next1 := match tleft x with Some a => next ++ [a] | None => next end in
    let next2 := match tright x with Some b => next1 ++ [b] | None => next1 end in
    (nn1, nl1, mind1, next2)
  end.

(* result: (n_nodes, n_leaves, min_depth, max_depth) *)
Fixpoint bfs_loop (fuel : nat) (nodes : list tree) (maxd : Z) (nn nl : nat) (mind : Z)
  : option (nat * nat * Z * Z) :=
  match nodes with
  | [] => Some (nn, nl, mind, maxd)
  | _ :: _ =>
    match fuel with
    | 0 => None
    | S f =>
      let maxd1 := (maxd + 1)%Z in
      match fold_left (bfs_node maxd1) nodes (nn, nl, mind, []) with
      | (nn1, nl1, mind1, next) => bfs_loop f next maxd1 nn1 nl1 mind1
      end
    end
  end.

Definition props_bfs (t : tree) : option (nat * nat * Z * Z) := bfs_loop (size t) [t] (-1)%Z 0 0 0%Z.

(* ------------------------------------------------------------------ Node.find_node
     pre_order = self.pre_order
     if len(pre_order) > position:
         node = pre_order[position]
         if node.type == 'TERMINAL': return node.parent, node.flag
         elif node.type == 'FUNCTION':
             if node.parent.parent: return node.parent.parent, node.parent.flag   # None.parent raises
             else: return None, False
     return None, False
   The parent and flag *fields* are read from the heap: [par], [flg] map a node id to its parent's id /
   its flag.  position >= 0 only (a negative position indexes from the end in Python; not modelled). *)
Inductive fn_result :=
| FnAttrErr                                            (* AttributeError: 'NoneType' object has no attribute 'parent' *)
| FnSlot (parent : option nat) (flag : bool)
| FnOther.                                             (* any other outcome observed on the real code (another
                                                          exception, another return shape); the model never produces it *)

Definition find_node_h (par : nat -> option nat) (flg : nat -> bool) (t : tree) (p : nat)
  : option fn_result :=
  match pre_stack t with
  | None => None
  | Some po =>
    if Nat.ltb p (length po) then
      match nth_error po p with
      | None => None
      | Some node =>
        match tlab node with
        | Term _ => Some (FnSlot (par (tid node)) (flg (tid node)))
        | Fun _ =>
          match par (tid node) with
          | None => Some FnAttrErr
          | Some q => match par q with
                      | Some g => Some (FnSlot (Some g) (flg q))
                      | None => Some (FnSlot None false)
                      end
          end
        end
      end
    else Some (FnSlot None false)
  end.

(* The heap of a well-formed tree whose root was never attached (Node.__init__: parent None, flag True;
   TreeSpace.grow / the harness builder: child.parent = node, right child's flag = False). *)
Definition slot := (option nat * bool)%type.           (* (id of the node one hangs under, left side?) *)

Fixpoint links_from (own : slot) (t : tree) : list (nat * slot) :=
  match t with
  | N i _ l r =>
    (i, own) :: (match l with Some a => links_from (Some i, true) a | None => [] end)
             ++ (match r with Some b => links_from (Some i, false) b | None => [] end)
  end.

Fixpoint assoc (i : nat) (tbl : list (nat * slot)) : option slot :=
  match tbl with
  | [] => None
  | (j, v) :: rest => if Nat.eqb i j then Some v else assoc i rest
  end.

Definition par_of (tbl : list (nat * slot)) (i : nat) : option nat :=
  match assoc i tbl with Some (p, _) => p | None => None end.
Definition flg_of (tbl : list (nat * slot)) (i : nat) : bool :=
  match assoc i tbl with Some (_, f) => f | None => true end.

Definition heap_of (t : tree) : list (nat * slot) := links_from (None, true) t.

Definition find_node_tbl (tbl : list (nat * slot)) (t : tree) (p : nat) : option fn_result :=
  find_node_h (par_of tbl) (flg_of tbl) t p.

Definition find_node (t : tree) (p : nat) : option fn_result := find_node_tbl (heap_of t) t p.

(* ------------------------------------------------------------------ specification of find_node
   (recursive, independent of the stack algorithm).  [fn_spec_list own pown t]: in root-left-right order,
   what find_node must return for each node of [t], when [t] hangs in slot [own] and its parent (if any)
   hangs in slot [pown]:  a terminal -> its own slot;  a function -> the slot of its parent, or
   (None, False) when the parent hangs nowhere;  a function with no parent at all (the root, p = 0) is
   where the code raises. *)
Definition up_answer (own : slot) : fn_result :=
  match own with (Some g, f) => FnSlot (Some g) f | (None, _) => FnSlot None false end.

Fixpoint fn_spec_list (own : slot) (pown : option slot) (t : tree) : list fn_result :=
  match t with
  | N i b l r =>
    (match b with
     | Term _ => FnSlot (fst own) (snd own)
     | Fun _ => match pown with None => FnAttrErr | Some po => up_answer po end
     end)
    :: (match l with Some a => fn_spec_list (Some i, true) (Some own) a | None => [] end)
    ++ (match r with Some c => fn_spec_list (Some i, false) (Some own) c | None => [] end)
  end.

(* node [c] is the [side] child (true = left) of node [q] of tree [t] *)
Definition child (q : tree) (side : bool) : option tree := if side then tleft q else tright q.
Definition hangs (t c q : tree) (side : bool) : Prop := In q (pre_rec t) /\ child q side = Some c.

(* ------------------------------------------------------------------ helpers for the correspondence run
   Trees arrive as shapes; ids are assigned in pre-order (0, 1, 2, ...), which is how the harness
   numbers the real Node objects. *)
Inductive shape := Sh (is_term : bool) (l r : option shape).

Fixpoint build (next : nat) (s : shape) : tree * nat :=
  match s with
  | Sh tm l r =>
    let lab := if tm then Term 0 else Fun 0 in
    match l with
    | Some a =>
      let '(ta, n1) := build (S next) a in
      match r with
      | Some b => let '(tb, n2) := build n1 b in (N next lab (Some ta) (Some tb), n2)
      | None => (N next lab (Some ta) None, n1)
      end
    | None =>
      match r with
      | Some b => let '(tb, n2) := build (S next) b in (N next lab None (Some tb), n2)
      | None => (N next lab None None, S next)
      end
    end
  end.

Definition tree_of (s : shape) : tree := fst (build 0 s).

Definition ids_of (o : option (list tree)) : option (list nat) :=
  match o with Some l => Some (map tid l) | None => None end.

(* one observed run of the real code on one tree *)
Record obs := {
  o_shape : shape;
  o_props : nat * nat * Z * Z;                          (* n_nodes, n_leaves, min_depth, max_depth *)
  o_pre : list nat;                                     (* pre_order as ids *)
  o_post : list nat;
  o_heap : list (nat * slot);                           (* parent / flag fields as read from the Node objects *)
  o_find : list fn_result                               (* find_node(p) for p = 0 .. size+1 *)
}.

Definition slot_eqb (a b : slot) : bool :=
  match a, b with
  | (Some x, f), (Some y, g) => Nat.eqb x y && Bool.eqb f g
  | (None, f), (None, g) => Bool.eqb f g
  | _, _ => false
  end.

Definition fn_eqb (a b : fn_result) : bool :=
  match a, b with
  | FnAttrErr, FnAttrErr => true
  | FnSlot p f, FnSlot q g => slot_eqb (p, f) (q, g)
  | _, _ => false
  end.

Fixpoint list_eqb {A} (e : A -> A -> bool) (l1 l2 : list A) : bool :=
  match l1, l2 with
  | [], [] => true
  | x :: r1, y :: r2 => e x y && list_eqb e r1 r2
  | _, _ => false
  end.

Definition props_eqb (a b : nat * nat * Z * Z) : bool :=
  match a, b with (n1, l1, m1, x1), (n2, l2, m2, x2) =>
    Nat.eqb n1 n2 && Nat.eqb l1 l2 && Z.eqb m1 m2 && Z.eqb x1 x2 end.

Definition oids_eqb (o : option (list nat)) (l : list nat) : bool :=
  match o with Some l' => list_eqb Nat.eqb l' l | None => false end.

Definition find_all (tbl : list (nat * slot)) (t : tree) (n : nat) : list (option fn_result) :=
  map (find_node_tbl tbl t) (seq 0 n).

Definition ofn_eqb (a : option fn_result) (b : fn_result) : bool :=
  match a with Some x => fn_eqb x b | None => false end.

(* find_node answers compared index by index: (in-text ok, outside-text ok); the property text speaks
   about 1 <= p < size only, p = 0 and p >= size are compared separately *)
Fixpoint find_cmp (p n : nat) (l1 : list (option fn_result)) (l2 : list fn_result) : bool * bool :=
  match l1, l2 with
  | [], [] => (true, true)
  | x :: r1, y :: r2 =>
    let '(a, b) := find_cmp (S p) n r1 r2 in
    if ofn_eqb x y then (a, b)
    else if Nat.leb 1 p && Nat.ltb p n then (false, b) else (a, false)
  | _, _ => (false, false)
  end.

(* which components disagree: 1 props, 2 pre, 4 post, 8 find_node for 1 <= p < size,
   16 heap differs from the well-formed heap, 32 find_node for p = 0 or p >= size *)
Definition check_obs (o : obs) : nat :=
  let t := tree_of (o_shape o) in
  let fc := find_cmp 0 (size t) (find_all (o_heap o) t (length (o_find o))) (o_find o) in
  (if match props_bfs t with Some r => props_eqb r (o_props o) | None => false end then 0 else 1)
  + (if oids_eqb (ids_of (pre_stack t)) (o_pre o) then 0 else 2)
  + (if oids_eqb (ids_of (post_stack t)) (o_post o) then 0 else 4)
  + (if fst fc then 0 else 8)
  + (if list_eqb (fun a b => Nat.eqb (fst a) (fst b) && slot_eqb (snd a) (snd b)) (o_heap o) (heap_of t)
     then 0 else 16)
  + (if snd fc then 0 else 32).

Fixpoint bad_from (n : nat) (l : list obs) : list (nat * nat) :=
  match l with
  | [] => []
  | o :: r => match check_obs o with 0 => bad_from (S n) r | c => (n, c) :: bad_from (S n) r end
  end.
Definition bad_cases (l : list obs) : list (nat * nat) := bad_from 0 l.
