(* C16 -- the closure built by WeightedFunction._create_strategy.

   Source shape (checked by translate/t4_weighted.py, which emits a [wf_descr]):

       def pointer(x):
           z = <init>
           for (f, w) in zip(self.functions, self.weights):
               z += <step>            # or  z = <step>
           return z

   The step is a small expression language over the accumulator, the weight and the
   result of calling the component ([ECall a]: [a] says *which object* is passed: the
   closure's own argument or a copy of it).  Values live in an arbitrary commutative
   ring (Section variables; instantiate with Z to run).  [wfold] is the value semantics,
   [wfold_log] the writer-monad version that also returns the calls made, in Python
   evaluation order (left operand before right operand). *)
From Coq Require Import ZArith List Bool Lia Arith Ring_theory Ring InitialRing.
Import ListNotations.

Inductive warg := AX | ACopy.                 (* f.pointer(x)  |  f.pointer(x.copy()) and the like *)

Inductive wexpr :=
| EAcc                                        (* the accumulator z *)
| EW                                          (* the weight bound by the loop *)
| ECall (a : warg)                            (* <function loop variable>.pointer(<a>) *)
| EInt (z : Z)
| EAdd (a b : wexpr)
| ESub (a b : wexpr)
| EMul (a b : wexpr)
| ENeg (a : wexpr).

Record wf_descr := {
  wd_init : Z;                                (* z = <int literal> *)
  wd_step : wexpr                             (* value of z after one iteration *)
}.

(* calls made by one evaluation of the step, in evaluation order *)
Fixpoint wcalls (e : wexpr) : list warg :=
  match e with
  | EAcc | EW | EInt _ => []
  | ECall a => [a]
  | EAdd a b | ESub a b | EMul a b => wcalls a ++ wcalls b
  | ENeg a => wcalls a
  end.

Section Sem.
  Variables (V : Type) (v0 v1 : V) (vadd vmul vsub : V -> V -> V) (vopp : V -> V).
  Variable X : Type.

  Definition zinj (z : Z) : V := gen_phiZ v0 v1 vadd vmul vopp z.

  Fixpoint weval (e : wexpr) (acc w : V) (f : X -> V) (x : X) : V :=
    match e with
    | EAcc => acc
    | EW => w
    | ECall _ => f x
    | EInt z => zinj z
    | EAdd a b => vadd (weval a acc w f x) (weval b acc w f x)
    | ESub a b => vsub (weval a acc w f x) (weval b acc w f x)
    | EMul a b => vmul (weval a acc w f x) (weval b acc w f x)
    | ENeg a => vopp (weval a acc w f x)
    end.

  (* zip stops at the shorter sequence: [combine] *)
  Definition wfold (d : wf_descr) (fs : list (X -> V)) (ws : list V) (x : X) : V :=
    fold_left (fun acc fw => weval (wd_step d) acc (snd fw) (fst fw) x) (combine fs ws) (zinj (wd_init d)).

  (* ---- writer-monad version: a call is (index of the component in self.functions, which object, its value) *)
  Definition call := (nat * warg * X)%type.

  Fixpoint weval_log (e : wexpr) (i : nat) (acc w : V) (f : X -> V) (x : X) : V * list call :=
    match e with
    | EAcc => (acc, [])
    | EW => (w, [])
    | ECall a => (f x, [(i, a, x)])
    | EInt z => (zinj z, [])
    | EAdd a b => let (va, la) := weval_log a i acc w f x in let (vb, lb) := weval_log b i acc w f x in (vadd va vb, la ++ lb)
    | ESub a b => let (va, la) := weval_log a i acc w f x in let (vb, lb) := weval_log b i acc w f x in (vsub va vb, la ++ lb)
    | EMul a b => let (va, la) := weval_log a i acc w f x in let (vb, lb) := weval_log b i acc w f x in (vmul va vb, la ++ lb)
    | ENeg a => let (va, la) := weval_log a i acc w f x in (vopp va, la)
    end.

  Fixpoint wfold_log_from (d : wf_descr) (i : nat) (fws : list ((X -> V) * V)) (x : X) (acc : V) : V * list call :=
    match fws with
    | [] => (acc, [])
    | (f, w) :: t =>
        let (a1, l1) := weval_log (wd_step d) i acc w f x in
        let (a2, l2) := wfold_log_from d (S i) t x a1 in
        (a2, l1 ++ l2)
    end.

  Definition wfold_log (d : wf_descr) (fs : list (X -> V)) (ws : list V) (x : X) : V * list call :=
    wfold_log_from d 0 (combine fs ws) x (zinj (wd_init d)).

  (* ---- specification: sum_{i < n} w_i * f_i(x), indices written out *)
  Fixpoint bigsum (n : nat) (t : nat -> V) : V :=
    match n with O => v0 | S k => vadd (bigsum k t) (t k) end.

  Definition wterm (fs : list (X -> V)) (ws : list V) (x : X) (i : nat) : V :=
    vmul (nth i ws v0) (nth i fs (fun _ => v0) x).

  (* the standard step, semantically: whatever the syntax, one iteration adds w * f(x) *)
  Definition std_step (d : wf_descr) : Prop :=
    forall acc w (f : X -> V) x, weval (wd_step d) acc w f x = vadd acc (vmul w (f x)).

  (* ---- log and value agree; the log only depends on the syntax of the step *)
  Lemma weval_log_fst e i acc w f x : fst (weval_log e i acc w f x) = weval e acc w f x.
  Proof.
    induction e; simpl; try reflexivity;
      repeat match goal with
             | H : fst (weval_log ?e ?i ?a ?w ?f ?x) = _ |- _ =>
                 destruct (weval_log e i a w f x) as [? ?]; simpl in H; subst
             end; reflexivity.
  Qed.

  Lemma weval_log_snd e i acc w f x : snd (weval_log e i acc w f x) = map (fun a => (i, a, x)) (wcalls e).
  Proof.
    induction e; simpl; try reflexivity;
      repeat match goal with
             | H : snd (weval_log ?e ?i ?a ?w ?f ?x) = _ |- _ =>
                 destruct (weval_log e i a w f x) as [? ?]; simpl in H; subst
             end; rewrite ?map_app; reflexivity.
  Qed.

  Lemma wfold_log_from_fst d fws x : forall i acc,
    fst (wfold_log_from d i fws x acc)
    = fold_left (fun acc fw => weval (wd_step d) acc (snd fw) (fst fw) x) fws acc.
  Proof.
    induction fws as [|[f w] t IH]; intros i acc; simpl; [reflexivity|].
    destruct (weval_log (wd_step d) i acc w f x) as [a1 l1] eqn:E1.
    destruct (wfold_log_from d (S i) t x a1) as [a2 l2] eqn:E2. simpl.
    pose proof (weval_log_fst (wd_step d) i acc w f x) as H1. rewrite E1 in H1. simpl in H1. subst a1.
    specialize (IH (S i) (weval (wd_step d) acc w f x)). rewrite E2 in IH. exact IH.
  Qed.

  Lemma wfold_log_from_snd d fws x : forall i acc,
    snd (wfold_log_from d i fws x acc)
    = flat_map (fun j => map (fun a => (j, a, x)) (wcalls (wd_step d))) (seq i (length fws)).
  Proof.
    induction fws as [|[f w] t IH]; intros i acc; simpl; [reflexivity|].
    destruct (weval_log (wd_step d) i acc w f x) as [a1 l1] eqn:E1.
    destruct (wfold_log_from d (S i) t x a1) as [a2 l2] eqn:E2. simpl.
    pose proof (weval_log_snd (wd_step d) i acc w f x) as H1. rewrite E1 in H1. simpl in H1. subst l1.
    specialize (IH (S i) a1). rewrite E2 in IH. simpl in IH. subst l2. reflexivity.
  Qed.

  Theorem wfold_log_value d fs ws x : fst (wfold_log d fs ws x) = wfold d fs ws x.
  Proof. unfold wfold_log, wfold. apply wfold_log_from_fst. Qed.

  (* every step of the loop makes the calls of the step expression, for components 0, 1, ... in order *)
  Theorem wfold_log_calls d fs ws x :
    snd (wfold_log d fs ws x)
    = flat_map (fun j => map (fun a => (j, a, x)) (wcalls (wd_step d))) (seq 0 (Nat.min (length fs) (length ws))).
  Proof. unfold wfold_log. rewrite wfold_log_from_snd, combine_length. reflexivity. Qed.

  (* wf_calls: one call per component, in order, each on the same argument value; [a] says which object
     the source passes (the closure's own argument, or an explicit copy of it) *)
  Theorem wf_calls_any d fs ws x a : wcalls (wd_step d) = [a] ->
    snd (wfold_log d fs ws x) = map (fun j => (j, a, x)) (seq 0 (Nat.min (length fs) (length ws))).
  Proof.
    intros H. rewrite wfold_log_calls, H. generalize (seq 0 (Nat.min (length fs) (length ws))).
    intros l. induction l as [|j l IH]; [reflexivity|].
    simpl. f_equal; try exact IH.
  Qed.

  Theorem wf_calls d fs ws x : wcalls (wd_step d) = [AX] ->
    snd (wfold_log d fs ws x) = map (fun j => (j, AX, x)) (seq 0 (Nat.min (length fs) (length ws))).
  Proof. apply wf_calls_any. Qed.

  Corollary wf_calls_any_eq_len d fs ws x a : wcalls (wd_step d) = [a] -> length fs = length ws ->
    snd (wfold_log d fs ws x) = map (fun j => (j, a, x)) (seq 0 (length fs)).
  Proof. intros H L. rewrite (wf_calls_any d fs ws x a H), <- L, Nat.min_id. reflexivity. Qed.

  Corollary wf_call_count_any d fs ws x a : wcalls (wd_step d) = [a] -> length fs = length ws ->
    forall i, (i < length fs)%nat ->
    count_occ Nat.eq_dec (map (fun c : call => fst (fst c)) (snd (wfold_log d fs ws x))) i = 1%nat.
  Proof.
    intros H L i Hi. rewrite (wf_calls_any_eq_len d fs ws x a H L), map_map. simpl. rewrite map_id.
    pose proof (seq_NoDup (length fs) 0) as ND.
    assert (In i (seq 0 (length fs))) as Hin by (apply in_seq; lia).
    apply (proj1 (NoDup_count_occ' Nat.eq_dec _) ND i Hin).
  Qed.

  Corollary wf_calls_eq_len d fs ws x : wcalls (wd_step d) = [AX] -> length fs = length ws ->
    snd (wfold_log d fs ws x) = map (fun j => (j, AX, x)) (seq 0 (length fs)).
  Proof. intros H L. rewrite (wf_calls d fs ws x H), <- L, Nat.min_id. reflexivity. Qed.

  Corollary wf_call_count d fs ws x : wcalls (wd_step d) = [AX] -> length fs = length ws ->
    forall i, (i < length fs)%nat ->
    count_occ Nat.eq_dec (map (fun c : call => fst (fst c)) (snd (wfold_log d fs ws x))) i = 1%nat.
  Proof.
    intros H L i Hi. rewrite (wf_calls_eq_len d fs ws x H L), map_map. simpl. rewrite map_id.
    pose proof (seq_NoDup (length fs) 0) as ND.
    assert (In i (seq 0 (length fs))) as Hin by (apply in_seq; lia).
    apply (proj1 (NoDup_count_occ' Nat.eq_dec _) ND i Hin).
  Qed.

  (* ---- the value: needs the ring laws *)
  Hypothesis Vth : ring_theory v0 v1 vadd vmul vsub vopp eq.
  Add Ring Vring : Vth.

  Lemma zinj_0 : zinj 0 = v0.
  Proof. reflexivity. Qed.

  Lemma bigsum_shift n t : bigsum (S n) t = vadd (t 0%nat) (bigsum n (fun i => t (S i))).
  Proof.
    induction n.
    - simpl. ring.
    - change (bigsum (S (S n)) t) with (vadd (bigsum (S n) t) (t (S n))). rewrite IHn. simpl. ring.
  Qed.

  Lemma bigsum_ext n t u : (forall i, (i < n)%nat -> t i = u i) -> bigsum n t = bigsum n u.
  Proof.
    induction n; intros H; simpl; [reflexivity|].
    rewrite IHn by (intros; apply H; lia). rewrite H by lia. reflexivity.
  Qed.

  Lemma fold_std d (Hs : std_step d) x : forall fs ws acc,
    fold_left (fun acc fw => weval (wd_step d) acc (snd fw) (fst fw) x) (combine fs ws) acc
    = vadd acc (bigsum (Nat.min (length fs) (length ws)) (wterm fs ws x)).
  Proof.
    induction fs as [|f fs IH]; intros ws acc.
    - simpl. ring.
    - destruct ws as [|w ws].
      + simpl. ring.
      + cbn [combine fold_left fst snd length Nat.min]. rewrite IH, Hs.
        rewrite (bigsum_shift _ (wterm (f :: fs) (w :: ws) x)).
        unfold wterm. cbn [nth]. ring.
  Qed.

  (* wf_sum, with the zip truncation explicit *)
  Theorem wf_sum_trunc d fs ws x : std_step d -> wd_init d = 0%Z ->
    wfold d fs ws x = bigsum (Nat.min (length fs) (length ws)) (wterm fs ws x).
  Proof.
    intros Hs Hi. unfold wfold. rewrite (fold_std d Hs), Hi, zinj_0. ring.
  Qed.

  Theorem wf_sum d fs ws x : std_step d -> wd_init d = 0%Z -> length fs = length ws ->
    wfold d fs ws x = bigsum (length fs) (wterm fs ws x).
  Proof. intros Hs Hi L. rewrite (wf_sum_trunc d fs ws x Hs Hi), <- L, Nat.min_id. reflexivity. Qed.

  (* components / weights beyond the shorter list do not matter at all *)
  Theorem wf_trunc_ignores d fs ws fs' ws' x :
    length fs = length ws -> wfold d (fs ++ fs') ws x = wfold d fs ws x /\ wfold d fs (ws ++ ws') x = wfold d fs ws x.
  Proof.
    intros L. unfold wfold. split.
    - replace (combine (fs ++ fs') ws) with (combine fs ws); [reflexivity|].
      revert ws L. induction fs; destruct ws; simpl; intros; try discriminate; try reflexivity.
      + destruct fs'; reflexivity.
      + f_equal. apply IHfs. lia.
    - replace (combine fs (ws ++ ws')) with (combine fs ws); [reflexivity|].
      revert ws L. induction fs; destruct ws; simpl; intros; try discriminate; try reflexivity.
      f_equal. apply IHfs. lia.
  Qed.

  (* a sum of k terms really has k terms: singling out one component (used for "ignores w" style sanity) *)
  Lemma bigsum_zero n t : (forall i, (i < n)%nat -> t i = v0) -> bigsum n t = v0.
  Proof.
    induction n; intros H; simpl; [reflexivity|].
    rewrite IHn by (intros; apply H; lia). rewrite H by lia. ring.
  Qed.
End Sem.

Arguments wfold {V} v0 v1 vadd vmul vsub vopp {X} d fs ws x.
Arguments wfold_log {V} v0 v1 vadd vmul vsub vopp {X} d fs ws x.
Arguments weval {V} v0 v1 vadd vmul vsub vopp {X} e acc w f x.
Arguments bigsum {V} v0 vadd n t.
Arguments wterm {V} v0 vmul {X} fs ws x i.
Arguments std_step {V} v0 v1 vadd vmul vsub vopp X d.

(* ---- instance used by the correspondence run: V = Z, X = list Z *)
Definition zwfold := @wfold Z 0%Z 1%Z Z.add Z.mul Z.sub Z.opp (list Z).
Definition zwfold_log := @wfold_log Z 0%Z 1%Z Z.add Z.mul Z.sub Z.opp (list Z).

(* components of the correspondence run: integer polynomials of the (flattened) argument,
   [(false, a, b)]: b + sum_j a_j x_j ;  [(true, a, b)]: b + sum_j a_j x_j^2 *)
Open Scope Z_scope.
Fixpoint dotz (sq : bool) (a x : list Z) : Z :=
  match a, x with
  | ai :: a', xi :: x' => ai * (if sq then xi * xi else xi) + dotz sq a' x'
  | _, _ => 0
  end.
Definition zcomp := (bool * list Z * Z)%type.
Definition zcomp_fun (c : zcomp) (x : list Z) : Z := snd c + dotz (fst (fst c)) (snd (fst c)) x.

Fixpoint zlist_eqb (a b : list Z) : bool :=
  match a, b with
  | [], [] => true
  | x :: a', y :: b' => (x =? y) && zlist_eqb a' b'
  | _, _ => false
  end.
(* an observed call: (index of the component, was the very same object passed?, contents seen) *)
Definition obs_call := (nat * bool * list Z)%type.
Definition call_matches (c : nat * warg * list Z) (o : obs_call) : bool :=
  Nat.eqb (fst (fst c)) (fst (fst o))
  && (match snd (fst c) with AX => snd (fst o) | ACopy => negb (snd (fst o)) end)
  && zlist_eqb (snd c) (snd o).
Fixpoint calls_match (l : list (nat * warg * list Z)) (o : list obs_call) : bool :=
  match l, o with
  | [], [] => true
  | c :: l', p :: o' => call_matches c p && calls_match l' o'
  | _, _ => false
  end.
(* one correspondence case: the model run on the same components, weights and argument
   reproduces the observed value and the observed call sequence *)
Definition wcase_ok (d : wf_descr) (comps : list zcomp) (ws x : list Z) (val : Z) (log : list obs_call) : bool :=
  let r := zwfold_log d (map zcomp_fun comps) ws x in
  (fst r =? val) && calls_match (snd r) log.
Fixpoint wmismatches_from (n : nat) (l : list bool) : list nat :=
  match l with
  | [] => []
  | b :: t => if b then wmismatches_from (S n) t else n :: wmismatches_from (S n) t
  end.
