(* Slots: (node id, side) addresses a child position.  sub_at / subst_at on the functional tree,
   stored parent/flag links, the slot find_node designates, and the effect of re-linking a slot in the heap. *)
From Coq Require Import List Arith Bool Lia ZArith Permutation.
From OV Require Import Model.TreeDef Model.TreeHeap.
From OV Require Import Model.TreeHeapBase.
Import ListNotations.

Fixpoint sub_at (t : tree) (s : nat) (side : bool) : option tree :=
  match t with
  | N i lab l r =>
    if Nat.eqb i s then (if side then l else r)
    else match (match l with Some a => sub_at a s side | None => None end) with
         | Some x => Some x
         | None => match r with Some b => sub_at b s side | None => None end
         end
  end.

Fixpoint subst_at (t : tree) (s : nat) (side : bool) (b : tree) : tree :=
  match t with
  | N i lab l r =>
    if Nat.eqb i s then (if side then N i lab (Some b) r else N i lab l (Some b))
    else N i lab (match l with Some a => Some (subst_at a s side b) | None => None end)
                 (match r with Some a => Some (subst_at a s side b) | None => None end)
  end.

Definition w_child (side : bool) (v : option nat) (c : cell) : cell := if side then w_left v c else w_right v c.

Lemma NoDup_app_iff : forall (l1 l2 : list nat),
  NoDup (l1 ++ l2) <-> NoDup l1 /\ NoDup l2 /\ (forall x, In x l1 -> ~ In x l2).
Proof.
  induction l1; simpl; intros.
  - split; [intros; repeat split; auto; constructor | tauto].
  - split.
    + intros H. inversion H; subst. apply IHl1 in H3. destruct H3 as (A & B & C). repeat split; auto.
      * constructor; auto. intro. apply H2. apply in_or_app. auto.
      * intros x [-> | Hx]; auto. intro. apply H2. apply in_or_app. auto.
    + intros (A & B & C). inversion A; subst. constructor.
      * intro Hin. apply in_app_or in Hin. destruct Hin; auto. eapply C; eauto.
      * apply IHl1. repeat split; auto.
Qed.

Lemma NoDup_N : forall i lab l r, NoDup (ids (N i lab l r)) ->
  ~ In i (oids l) /\ ~ In i (oids r) /\ NoDup (oids l) /\ NoDup (oids r) /\ (forall x, In x (oids l) -> ~ In x (oids r)).
Proof.
  intros. rewrite ids_N in H. inversion H; subst. apply NoDup_app_iff in H3. destruct H3 as (A & B & C).
  repeat split; auto; intro; apply H2; apply in_or_app; auto.
Qed.

Lemma tid_subst_at : forall t s side b, tid (subst_at t s side b) = tid t.
Proof. destruct t. simpl. intros. destruct (Nat.eqb id s); [destruct side|]; reflexivity. Qed.

Lemma sub_at_notin : forall t s side, ~ In s (ids t) -> sub_at t s side = None.
Proof.
  induction t using tree_ind'. intros s side Hn. rewrite ids_N in Hn. simpl in *.
  destruct (Nat.eqb i s) eqn:E. { apply Nat.eqb_eq in E. subst. exfalso. auto. }
  assert (Hl : ~ In s (oids l)) by (intro; apply Hn; right; apply in_or_app; auto).
  assert (Hr : ~ In s (oids r)) by (intro; apply Hn; right; apply in_or_app; auto).
  destruct l; simpl in *; [rewrite H by auto|]; destruct r; simpl in *; auto.
Qed.

Lemma subst_at_notin : forall t s side b, ~ In s (ids t) -> subst_at t s side b = t.
Proof.
  induction t using tree_ind'. intros s side b Hn. rewrite ids_N in Hn. simpl in *.
  destruct (Nat.eqb i s) eqn:E. { apply Nat.eqb_eq in E. subst. exfalso. auto. }
  assert (Hl : ~ In s (oids l)) by (intro; apply Hn; right; apply in_or_app; auto).
  assert (Hr : ~ In s (oids r)) by (intro; apply Hn; right; apply in_or_app; auto).
  destruct l; simpl in *; [rewrite H by auto|]; (destruct r; simpl in *; [rewrite H0 by auto|]); reflexivity.
Qed.

(* the selected subtree lies strictly below the node s, which is in t *)
Lemma sub_at_facts : forall t s side u, NoDup (ids t) -> sub_at t s side = Some u ->
  In s (ids t) /\ (forall x, In x (ids u) -> In x (ids t)) /\ ~ In s (ids u) /\ ~ In (tid t) (ids u).
Proof.
  induction t using tree_ind'. intros s side u Hn Hs. pose proof (NoDup_N _ _ _ _ Hn) as (A & B & C & D & E).
  rewrite ids_N. simpl in Hs. destruct (Nat.eqb i s) eqn:Ei.
  - apply Nat.eqb_eq in Ei. subst s. simpl.
    destruct side; subst; simpl.
    + split; [auto|]. split; [intros; right; apply in_or_app; auto|]. split; auto.
    + split; [auto|]. split; [intros; right; apply in_or_app; auto|]. split; auto.
  - apply Nat.eqb_neq in Ei.
    assert (G : forall a, (l = Some a \/ r = Some a) -> NoDup (ids a) -> sub_at a s side = Some u ->
                (In s (ids a) /\ (forall x, In x (ids u) -> In x (ids a)) /\ ~ In s (ids u) /\ ~ In (tid a) (ids u)) ->
                In s (i :: oids l ++ oids r) /\ (forall x, In x (ids u) -> In x (i :: oids l ++ oids r)) /\
                ~ In s (ids u) /\ ~ In (tid (N i lab l r)) (ids u)).
    { intros a Ha Na Sa (P & Q & R & S). simpl.
      assert (Hsub : forall x, In x (ids a) -> In x (oids l ++ oids r)).
      { intros. apply in_or_app. destruct Ha; subst; simpl; auto. }
      split; [right; auto|]. split; [intros; right; auto|]. split; [auto|].
      intro Hi. apply Q in Hi. destruct Ha; subst; simpl in *; auto. }
    destruct l as [a|]; simpl in *.
    + destruct (sub_at a s side) eqn:Ea.
      * inversion Hs; subst t. apply (G a); auto. eapply H; eauto.
      * destruct r as [b|]; [|discriminate]. simpl in *. apply (G b); auto. eapply H0; eauto.
    + destruct r as [b|]; [|discriminate]. simpl in *. apply (G b); auto. eapply H0; eauto.
Qed.

Section Links.
Variable tab : list nat.

Lemma Rep_root_cell : forall st par fl t, Rep tab st par fl t ->
  exists c, get st (tid t) = Some c /\ c_parent c = par /\ (par <> None -> c_flag c = fl) /\ c_lab c = tlab t.
Proof. intros st par fl [i lab l r] (c & Hg & H1 & H2 & H3 & H4 & H5 & _). exists c. simpl. auto. Qed.

(* every node but the root stores the parent and the side it actually hangs on *)
Lemma Rep_parent_link : forall st t par fl n,
  Rep tab st par fl t -> NoDup (ids t) -> In n (ids t) -> n <> tid t ->
  exists c q u, get st n = Some c /\ c_parent c = Some q /\ sub_at t q (c_flag c) = Some u /\ tid u = n.
Proof.
  intros st t. induction t using tree_ind'.
  intros par fl n (c & Hg & H1 & H2 & H3 & H4 & H5 & H6 & Hl & Hr) Hn Hin Hne.
  pose proof (NoDup_N _ _ _ _ Hn) as (A & B & C & D & E).
  rewrite ids_N in Hin. simpl in Hin, Hne. destruct Hin as [-> | Hin]; [congruence|].
  apply in_app_or in Hin. destruct Hin as [Hin | Hin].
  - destruct l as [a|]; simpl in *; [|contradiction].
    destruct (Nat.eq_dec n (tid a)) as [-> | Hna].
    + destruct (Rep_root_cell _ _ _ _ Hl) as (ca & Ga & Pa & Fa & _).
      exists ca, i, a. rewrite Fa by congruence. rewrite Nat.eqb_refl. auto.
    + destruct (H (Some i) true n Hl C Hin Hna) as (cn & q & u & Gn & Pn & Sn & Tn).
      exists cn, q, u. repeat split; auto.
      destruct (sub_at_facts _ _ _ _ C Sn) as (Qin & _).
      assert (i <> q) by (intro; subst; auto). apply Nat.eqb_neq in H7. rewrite H7, Sn. reflexivity.
  - destruct r as [b|]; simpl in *; [|contradiction].
    destruct (Nat.eq_dec n (tid b)) as [-> | Hnb].
    + destruct (Rep_root_cell _ _ _ _ Hr) as (cb & Gb & Pb & Fb & _).
      exists cb, i, b. rewrite Fb by congruence. rewrite Nat.eqb_refl. auto.
    + destruct (H0 (Some i) false n Hr D Hin Hnb) as (cn & q & u & Gn & Pn & Sn & Tn).
      exists cn, q, u. repeat split; auto.
      destruct (sub_at_facts _ _ _ _ D Sn) as (Qin & _).
      assert (i <> q) by (intro; subst; auto). apply Nat.eqb_neq in H7. rewrite H7.
      destruct l as [a|]; simpl in *; auto.
      rewrite sub_at_notin; auto. intro. eapply E; eauto.
Qed.

(* find_node on a well-formed tree designates an existing child slot *)
Lemma find_node_slot : forall st t p s side,
  WFt tab st t -> find_node st (tid t) p = Ok (Some s, side) -> exists u, sub_at t s side = Some u.
Proof.
  intros st t p s side [HR Hn] Hf. unfold find_node in Hf. rewrite (pre_order_WFt tab st t (conj HR Hn)) in Hf.
  destruct (nth_error (ids t) p) as [n|] eqn:En; [|discriminate].
  apply nth_error_In in En.
  destruct (Rep_root_cell _ _ _ _ HR) as (cr & Gr & Pr & _).
  destruct (Nat.eq_dec n (tid t)) as [-> | Hne].
  - rewrite Gr in Hf. rewrite Pr in Hf. destruct (c_lab cr); discriminate.
  - destruct (Rep_parent_link _ _ _ _ _ HR Hn En Hne) as (c & q & u & Gc & Pc & Sc & Tc).
    rewrite Gc in Hf. destruct (c_lab c).
    + rewrite Pc in Hf. inversion Hf; subst. eauto.
    + rewrite Pc in Hf. destruct (sub_at_facts _ _ _ _ Hn Sc) as (Qin & _).
      destruct (Nat.eq_dec q (tid t)) as [-> | Hqe].
      * rewrite Gr, Pr in Hf. discriminate.
      * destruct (Rep_parent_link _ _ _ _ _ HR Hn Qin Hqe) as (cq & g & u' & Gq & Pq & Sq & Tq).
        rewrite Gq, Pq in Hf. inversion Hf; subst. eauto.
Qed.

(* on a well-formed tree find_node never raises for positions >= 1 ... and never gets stuck *)
Lemma find_node_total : forall st t p, WFt tab st t -> 1 <= p ->
  exists sl, find_node st (tid t) p = Ok sl.
Proof.
  intros st t p [HR Hn] Hp. unfold find_node. rewrite (pre_order_WFt tab st t (conj HR Hn)).
  destruct (nth_error (ids t) p) as [n|] eqn:En; [|eauto].
  assert (Hne : n <> tid t).
  { intro. subst. destruct t. rewrite ids_N in En, Hn. destruct p; [lia|]. simpl in *.
    apply nth_error_In in En. inversion Hn; subst. auto. }
  apply nth_error_In in En.
  destruct (Rep_root_cell _ _ _ _ HR) as (cr & Gr & Pr & _).
  destruct (Rep_parent_link _ _ _ _ _ HR Hn En Hne) as (c & q & u & Gc & Pc & Sc & Tc).
  rewrite Gc. destruct (c_lab c); [eauto|]. rewrite Pc.
  destruct (sub_at_facts _ _ _ _ Hn Sc) as (Qin & _).
  destruct (Nat.eq_dec q (tid t)) as [-> | Hqe].
  - rewrite Gr, Pr. eauto.
  - destruct (Rep_parent_link _ _ _ _ _ HR Hn Qin Hqe) as (cq & g & u' & Gq & Pq & Sq & Tq).
    rewrite Gq, Pq. eauto.
Qed.

(* ------------------------------------------------------------------ re-linking a slot *)
Lemma shape_ok_subst : forall na lab v l r l' r',
  (l = None <-> l' = None) -> (r = None <-> r' = None) ->
  shape_ok tab na lab v l r -> shape_ok tab na lab v l' r'.
Proof.
  unfold shape_ok. intros na lab v l r l' r' Hl Hr H. destruct lab.
  - destruct H as (A & B & C). repeat split; auto; tauto.
  - destruct H as [(A & B & C) | (A & B & C)]; [left | right]; repeat split; auto; tauto.
Qed.

Lemma Rep_subst : forall st st' t par fl s side b old,
  Rep tab st par fl t -> NoDup (ids t) -> sub_at t s side = Some old ->
  Rep tab st' (Some s) side b ->
  (forall c, get st s = Some c -> get st' s = Some (w_child side (Some (tid b)) c)) ->
  (forall j, In j (ids t) -> ~ In j (ids old) -> j <> s -> get st' j = get st j) ->
  narr st <= narr st' ->
  Rep tab st' par fl (subst_at t s side b).
Proof.
  intros st st' t. induction t using tree_ind'.
  intros par fl s side b old (c & Hg & H1 & H2 & H3 & H4 & H5 & H6 & Hl & Hr) Hn Hs Hb Hw Hf Hna.
  pose proof (NoDup_N _ _ _ _ Hn) as (A & B & C & D & E). rewrite ids_N in Hf.
  pose proof (sub_at_facts _ _ _ _ Hn Hs) as (Sin & Sincl & Snot & Rnot). simpl in Rnot.
  simpl in Hs. simpl. destruct (Nat.eqb i s) eqn:Ei.
  - apply Nat.eqb_eq in Ei. subst s. specialize (Hw c Hg).
    destruct side; subst; simpl.
    + exists (w_left (Some (tid b)) c). simpl. repeat split; auto.
      * eapply shape_ok_mono; eauto. eapply shape_ok_subst; try eassumption; split; intros; try discriminate; auto.
      * destruct r as [rb|]; auto. eapply Rep_frame; eauto. intros j Hj. apply Hf.
        -- simpl. right. apply in_or_app. auto.
        -- simpl. intro. eapply E; eauto.
        -- intro. subst. auto.
    + exists (w_right (Some (tid b)) c). simpl. repeat split; auto.
      * eapply shape_ok_mono; eauto. eapply shape_ok_subst; try eassumption; split; intros; try discriminate; auto.
      * destruct l as [la|]; auto. eapply Rep_frame; eauto. intros j Hj. apply Hf.
        -- simpl. right. apply in_or_app. auto.
        -- simpl. intro. eapply E; eauto.
        -- intro. subst. auto.
  - apply Nat.eqb_neq in Ei.
    assert (Hgi : get st' i = Some c).
    { rewrite Hf; auto. simpl. auto. }
    exists c. repeat split; auto.
    + rewrite H2. destruct l; simpl; auto. rewrite tid_subst_at. reflexivity.
    + rewrite H3. destruct r; simpl; auto. rewrite tid_subst_at. reflexivity.
    + eapply shape_ok_mono; eauto. eapply shape_ok_subst; try eassumption; destruct l, r; split; intros; try discriminate; auto.
    + destruct l as [la|]; auto. simpl in *.
      destruct (sub_at la s side) eqn:Ea.
      * inversion Hs; subst t. eapply H; eauto. intros. apply Hf; auto. simpl. right. apply in_or_app. auto.
      * (* the slot is in the right subtree: the left one is untouched *)
        destruct r as [rb|]; [|discriminate]. simpl in *.
        destruct (sub_at_facts _ _ _ _ D Hs) as (Sr & Ir & _).
        rewrite subst_at_notin by (intro; eapply E; eauto).
        eapply Rep_frame; eauto. intros j Hj. apply Hf.
        -- simpl. right. apply in_or_app. auto.
        -- intro Ho. apply Ir in Ho. eapply E; eauto.
        -- intro. subst. eapply E; eauto.
    + destruct r as [rb|]; auto. simpl in *.
      destruct l as [la|]; simpl in *.
      * destruct (sub_at la s side) eqn:Ea.
        -- inversion Hs; subst t.
           destruct (sub_at_facts _ _ _ _ C Ea) as (Sl & Il & _).
           rewrite subst_at_notin by (intro; eapply E; eauto).
           eapply Rep_frame; eauto. intros j Hj. apply Hf.
           ++ simpl. right. apply in_or_app. auto.
           ++ intro Ho. apply Il in Ho. eapply E; eauto.
           ++ intro. subst. eapply E; eauto.
        -- eapply H0; eauto. intros. apply Hf; auto. simpl. right. apply in_or_app. auto.
      * eapply H0; eauto.
Qed.

End Links.

(* ------------------------------------------------------------------ node multisets *)
Definition nodes (t : tree) : list (nat * label) := map (fun u => (tid u, tlab u)) (pre_rec t).
Definition onodes (o : option tree) : list (nat * label) := match o with Some a => nodes a | None => [] end.

Lemma nodes_N : forall i lab l r, nodes (N i lab l r) = (i, lab) :: onodes l ++ onodes r.
Proof. intros. unfold nodes. simpl. rewrite map_app. destruct l, r; reflexivity. Qed.

Lemma ids_nodes : forall t, ids t = map fst (nodes t).
Proof. intros. unfold ids, nodes. rewrite map_map. reflexivity. Qed.

Definition labels (t : tree) : list label := map snd (nodes t).

Lemma nl_dec : forall x y : nat * label, {x = y} + {x <> y}.
Proof. repeat decide equality. Qed.

Definition cnt (x : nat * label) (l : list (nat * label)) : nat := count_occ nl_dec l x.

Lemma cnt_app : forall x l1 l2, cnt x (l1 ++ l2) = cnt x l1 + cnt x l2.
Proof. intros. apply count_occ_app. Qed.

Lemma cnt_cons : forall x y l, cnt x (y :: l) = (if nl_dec y x then 1 else 0) + cnt x l.
Proof. intros. unfold cnt. simpl. destruct (nl_dec y x); reflexivity. Qed.

Lemma cnt_subst : forall t s side b old x, NoDup (ids t) -> sub_at t s side = Some old ->
  cnt x (nodes (subst_at t s side b)) + cnt x (nodes old) = cnt x (nodes t) + cnt x (nodes b).
Proof.
  induction t using tree_ind'. intros s side b old x Hn Hs.
  pose proof (NoDup_N _ _ _ _ Hn) as (A & B & C & D & E).
  simpl in Hs. cbn [subst_at]. destruct (Nat.eqb i s) eqn:Ei.
  - destruct side; simpl in Hs; subst; rewrite !nodes_N; cbn [onodes]; rewrite !cnt_cons, !cnt_app;
      destruct (nl_dec (i, lab) x); lia.
  - rewrite !nodes_N. destruct l as [la|]; cbn [oall oids] in *.
    + destruct (sub_at la s side) eqn:Ea.
      * inversion Hs; subst t. pose proof (H s side b old x C Ea) as IH.
        destruct (sub_at_facts _ _ _ _ C Ea) as (Sl & _).
        assert (Hr : match r with Some a => Some (subst_at a s side b) | None => None end = r).
        { destruct r as [rb|]; auto. cbn [oids] in *. rewrite subst_at_notin; auto; intro; eapply E; eauto. }
        rewrite Hr. cbn [onodes]. rewrite !cnt_cons, !cnt_app. destruct (nl_dec (i, lab) x); lia.
      * destruct r as [rb|]; [|discriminate]. cbn [oall oids] in *. pose proof (H0 s side b old x D Hs) as IH.
        destruct (sub_at_facts _ _ _ _ D Hs) as (Sr & _).
        rewrite (subst_at_notin la) by (intro; eapply E; eauto).
        cbn [onodes]. rewrite !cnt_cons, !cnt_app. destruct (nl_dec (i, lab) x); lia.
    + destruct r as [rb|]; [|discriminate]. cbn [oall oids] in *. pose proof (H0 s side b old x D Hs) as IH.
      cbn [onodes]. rewrite !cnt_cons, !cnt_app. destruct (nl_dec (i, lab) x); simpl; lia.
Qed.

Lemma nodes_subst_perm : forall t s side b old, NoDup (ids t) -> sub_at t s side = Some old ->
  Permutation (nodes (subst_at t s side b) ++ nodes old) (nodes t ++ nodes b).
Proof.
  intros. apply (Permutation_count_occ nl_dec). intros x.
  rewrite !count_occ_app. apply (cnt_subst t s side b old x); auto.
Qed.

Lemma ids_subst_perm : forall t s side b old, NoDup (ids t) -> sub_at t s side = Some old ->
  Permutation (ids (subst_at t s side b) ++ ids old) (ids t ++ ids b).
Proof.
  intros. rewrite !ids_nodes, <- !map_app. apply Permutation_map. apply nodes_subst_perm; auto.
Qed.

Lemma NoDup_subst : forall t s side b old, NoDup (ids t) -> sub_at t s side = Some old ->
  NoDup (ids b) -> (forall x, In x (ids t) -> ~ In x (ids b)) -> NoDup (ids (subst_at t s side b)).
Proof.
  intros t s side b old Hn Hs Hb Hd.
  assert (NoDup (ids t ++ ids b)) by (apply NoDup_app_iff; auto).
  eapply Permutation_NoDup in H; [| apply Permutation_sym; eapply ids_subst_perm; eauto].
  apply NoDup_app_iff in H. tauto.
Qed.

Lemma ids_subst_incl : forall t s side b old x, NoDup (ids t) -> sub_at t s side = Some old ->
  In x (ids (subst_at t s side b)) -> In x (ids t) \/ In x (ids b).
Proof.
  intros t s side b old x Hn Hs Hx.
  assert (In x (ids (subst_at t s side b) ++ ids old)) by (apply in_or_app; auto).
  eapply Permutation_in in H; [| eapply ids_subst_perm; eauto]. apply in_app_or in H. auto.
Qed.
