(* A small language for the BODIES of math/general.py: tournament_selection and pairwise, and its interpreter.

   translate/t_sel.py regenerates Gen/SelDescr.v (values [tournament_src], [pairwise_src] : fdescr) from the
   Python source on every run; Model/SelModel.v states the model's own descriptions and PROVES that
   interpreting them is [Model.Prims.tournament] / [Model.Prims.pairwise] for every input; Props/C18.v proves
   Gen = model description by reflexivity.  Executable only, no proofs in this file.

   Variables are numbered by order of first occurrence, parameters first.  The variable of a `for` / of a
   comprehension is not part of the description: the translator checks that it is never read.

   expressions
     EVar v                 a parameter or local
     ENil, EUnit            []  and  ()
     ETourSize              <utils.constants>.TOURNAMENT_SIZE, read when the expression is evaluated
     EChoice a              np.random.choice(a)                 one draw of the script: a POSITION of a
     EComp body count       [body for _ in range(count)]
     EMin a, EMax a         min(a), max(a)                      Python's: the first of the extremal items
     ECmp o a b             a <o> b    scalar a against the list/array b, elementwise
     EWhere a               np.where(a)                         the 1-tuple holding the positions of True
     EIndex a k             a[k]       k an integer literal, Python's negative indices included
     EIter a                iter(a)
     EIslice a k            islice(a, k)                        lazy: nothing is consumed until tuple(...)
     ETuple a               tuple(a)
     ELambda body           lambda: body
     EIterUntil f s         iter(f, s)                          call f() until the result equals s
   statements
     SAssign v e            v = e
     SAppend v e            v.append(e)   /   v += [e]
     SFor count body        for _ in range(count): body
     SReturn e              return e

   A run ends with [None] when Python raises, when the draw script is exhausted, when a drawn position is not
   a position of the list, or when the program leaves what the interpreter models. *)
From Coq Require Import ZArith List Bool Arith.
From OV Require Import Base.FloatKey Model.Prims.
Import ListNotations.

Inductive cmpop := OEq | ONe | OLt | OLe | OGt | OGe.

Inductive expr :=
| EVar (v : nat)
| ENil
| EUnit
| ETourSize
| EChoice (a : expr)
| EComp (body count : expr)
| EMin (a : expr)
| EMax (a : expr)
| ECmp (o : cmpop) (a b : expr)
| EWhere (a : expr)
| EIndex (a : expr) (k : Z)
| EIter (a : expr)
| EIslice (a : expr) (k : nat)
| ETuple (a : expr)
| ELambda (body : expr)
| EIterUntil (f s : expr).

Inductive stmt :=
| SAssign (v : nat) (e : expr)
| SAppend (v : nat) (e : expr)
| SFor (count : expr) (body : list stmt)
| SReturn (e : expr).

(* def f(<fd_params parameters>): <fd_body>, over fd_vars variables (parameters included) *)
Record fdescr := { fd_params : nat; fd_vars : nat; fd_body : list stmt }.

(* ------------------------------------------------------------------ values *)
Inductive atom := AKey (k : Z) | AInt (i : nat) | ABool (b : bool).   (* float (as key), int, bool *)

Inductive val :=
| VAtom (a : atom)
| VList (l : list atom)          (* list / one-dimensional array *)
| VTuple (l : list atom)
| VWhere (l : list atom)         (* (array(l),) : what np.where returns for a one-dimensional argument *)
| VIter (id : nat)               (* list iterator: cell [id] of the store holds what is still to come *)
| VSlice (id : nat) (k : nat)    (* islice(<iterator id>, k) *)
| VLam (body : expr)
| VCallIter (body : expr) (s : val)
| VUnset.

(* store of the iterators; the remaining draw script (positions) *)
Record st := mkSt { s_store : list (list atom); s_draws : list nat }.
Record cfg := mkCfg { c_env : list val; c_st : st }.

Fixpoint upd {A} (l : list A) (i : nat) (x : A) : option (list A) :=
  match l, i with
  | [], _ => None
  | _ :: t, O => Some (x :: t)
  | h :: t, S i' => match upd t i' x with Some t' => Some (h :: t') | None => None end
  end.

Fixpoint keys_of (l : list atom) : option (list Z) :=
  match l with
  | [] => Some []
  | AKey k :: t => match keys_of t with Some r => Some (k :: r) | None => None end
  | _ :: _ => None
  end.

(* Python's max(): keeps the first of the maximal items (replaces only on strict >) *)
Fixpoint first_max (m : Z) (l : list Z) : Z :=
  match l with [] => m | v :: t => first_max (if klt m v then v else m) t end.
Definition py_max (l : list Z) : option Z := match l with [] => None | v :: t => Some (first_max v t) end.

(* a <o> b on floats, IEEE *)
Definition cmp_key (o : cmpop) (a b : Z) : bool :=
  match o with
  | OEq => keq a b | ONe => negb (keq a b)
  | OLt => klt a b | OLe => kle a b | OGt => klt b a | OGe => kle b a
  end.

Fixpoint cmp_all (o : cmpop) (m : Z) (l : list atom) : option (list atom) :=
  match l with
  | [] => Some []
  | AKey v :: t => match cmp_all o m t with Some r => Some (ABool (cmp_key o m v) :: r) | None => None end
  | _ :: _ => None
  end.

(* positions of True, counted from i *)
Fixpoint positions (l : list atom) (i : nat) : option (list atom) :=
  match l with
  | [] => Some []
  | ABool b :: t => match positions t (S i) with
                    | Some r => Some (if b then AInt i :: r else r)
                    | None => None
                    end
  | _ :: _ => None
  end.

(* l[k], Python *)
Definition py_index {A} (l : list A) (k : Z) : option A :=
  if (0 <=? k)%Z then nth_error l (Z.to_nat k)
  else if (Z.to_nat (- k) <=? length l)%nat then nth_error l (length l - Z.to_nat (- k)) else None.

Fixpoint atoms_eqb (a b : list atom) : bool :=
  match a, b with
  | [], [] => true
  | AKey x :: a', AKey y :: b' => keq x y && atoms_eqb a' b'
  | AInt x :: a', AInt y :: b' => Nat.eqb x y && atoms_eqb a' b'
  | ABool x :: a', ABool y :: b' => Bool.eqb x y && atoms_eqb a' b'
  | _, _ => false
  end.

(* == as far as iter(f, sentinel) needs it: tuples and scalars; anything else is "not equal" *)
Definition val_eqb (a b : val) : bool :=
  match a, b with
  | VTuple x, VTuple y => atoms_eqb x y
  | VAtom x, VAtom y => atoms_eqb [x] [y]
  | _, _ => false
  end.

(* ------------------------------------------------------------------ expressions *)
(* [k] evaluations of [f], left to right, collecting scalars *)
Fixpoint comp_loop (f : st -> option (val * st)) (k : nat) (s : st) : option (list atom * st) :=
  match k with
  | O => Some ([], s)
  | S k' =>
      match f s with
      | Some (VAtom a, s') =>
          match comp_loop f k' s' with Some (l, s'') => Some (a :: l, s'') | None => None end
      | _ => None
      end
  end.

Inductive outcome := Next (c : cfg) | Ret (v : val) (c : cfg) | Fail.

Section Interp.
  Variable ts : nat.       (* the value of constants.TOURNAMENT_SIZE while the function runs *)

  Fixpoint eval (env : list val) (e : expr) (s : st) : option (val * st) :=
    match e with
    | EVar v => match nth v env VUnset with VUnset => None | x => Some (x, s) end
    | ENil => Some (VList [], s)
    | EUnit => Some (VTuple [], s)
    | ETourSize => Some (VAtom (AInt ts), s)
    | EChoice a =>
        match eval env a s with
        | Some (VList l, s') =>
            match s_draws s' with
            | j :: rest => match nth_error l j with
                           | Some x => Some (VAtom x, mkSt (s_store s') rest)
                           | None => None
                           end
            | [] => None
            end
        | _ => None
        end
    | EComp body count =>
        (* range(count) is evaluated once, before the first element *)
        match eval env count s with
        | Some (VAtom (AInt k), s') =>
            match comp_loop (eval env body) k s' with Some (l, s'') => Some (VList l, s'') | None => None end
        | _ => None
        end
    | EMin a =>
        match eval env a s with
        | Some (VList l, s') =>
            match keys_of l with
            | Some ks => match py_min ks with Some m => Some (VAtom (AKey m), s') | None => None end
            | None => None
            end
        | _ => None
        end
    | EMax a =>
        match eval env a s with
        | Some (VList l, s') =>
            match keys_of l with
            | Some ks => match py_max ks with Some m => Some (VAtom (AKey m), s') | None => None end
            | None => None
            end
        | _ => None
        end
    | ECmp o a b =>
        match eval env a s with
        | Some (VAtom (AKey m), s') =>
            match eval env b s' with
            | Some (VList l, s'') => match cmp_all o m l with Some r => Some (VList r, s'') | None => None end
            | _ => None
            end
        | _ => None
        end
    | EWhere a =>
        match eval env a s with
        | Some (VList l, s') => match positions l 0 with Some r => Some (VWhere r, s') | None => None end
        | _ => None
        end
    | EIndex a k =>
        match eval env a s with
        | Some (VWhere l, s') => match py_index [VList l] k with Some x => Some (x, s') | None => None end
        | Some (VList l, s') => match py_index l k with Some x => Some (VAtom x, s') | None => None end
        | Some (VTuple l, s') => match py_index l k with Some x => Some (VAtom x, s') | None => None end
        | _ => None
        end
    | EIter a =>
        match eval env a s with
        | Some (VList l, s') => Some (VIter (length (s_store s')), mkSt (s_store s' ++ [l]) (s_draws s'))
        | Some (VTuple l, s') => Some (VIter (length (s_store s')), mkSt (s_store s' ++ [l]) (s_draws s'))
        | Some (VIter id, s') => Some (VIter id, s')
        | _ => None
        end
    | EIslice a k =>
        match eval env a s with
        | Some (VIter id, s') => Some (VSlice id k, s')
        | _ => None
        end
    | ETuple a =>
        match eval env a s with
        | Some (VSlice id k, s') =>
            match nth_error (s_store s') id with
            | Some rem => match upd (s_store s') id (skipn k rem) with
                          | Some store' => Some (VTuple (firstn k rem), mkSt store' (s_draws s'))
                          | None => None
                          end
            | None => None
            end
        | Some (VIter id, s') =>
            match nth_error (s_store s') id with
            | Some rem => match upd (s_store s') id [] with
                          | Some store' => Some (VTuple rem, mkSt store' (s_draws s'))
                          | None => None
                          end
            | None => None
            end
        | Some (VList l, s') => Some (VTuple l, s')
        | Some (VTuple l, s') => Some (VTuple l, s')
        | _ => None
        end
    | ELambda body => Some (VLam body, s)
    | EIterUntil f sen =>
        match eval env f s with
        | Some (VLam body, s') =>
            match eval env sen s' with Some (x, s'') => Some (VCallIter body x, s'') | None => None end
        | _ => None
        end
    end.

  (* ---------------------------------------------------------------- statements *)
  Fixpoint for_loop (n : nat) (f : cfg -> outcome) (c : cfg) : outcome :=
    match n with
    | O => Next c
    | S n' => match f c with Next c' => for_loop n' f c' | o => o end
    end.

  Fixpoint exec (x : stmt) (c : cfg) : outcome :=
    match x with
    | SAssign v e =>
        match eval (c_env c) e (c_st c) with
        | Some (r, s') => match upd (c_env c) v r with Some env' => Next (mkCfg env' s') | None => Fail end
        | None => Fail
        end
    | SAppend v e =>
        (* the target is looked up first, then the argument is evaluated *)
        match nth v (c_env c) VUnset with
        | VList l =>
            match eval (c_env c) e (c_st c) with
            | Some (VAtom a, s') =>
                match upd (c_env c) v (VList (l ++ [a])) with Some env' => Next (mkCfg env' s') | None => Fail end
            | _ => Fail
            end
        | _ => Fail
        end
    | SFor count body =>
        match eval (c_env c) count (c_st c) with
        | Some (VAtom (AInt n), s') =>
            for_loop n ((fix block (l : list stmt) (c0 : cfg) {struct l} : outcome :=
                           match l with
                           | [] => Next c0
                           | y :: t => match exec y c0 with Next c1 => block t c1 | o => o end
                           end) body) (mkCfg (c_env c) s')
        | _ => Fail
        end
    | SReturn e =>
        match eval (c_env c) e (c_st c) with
        | Some (r, s') => Ret r (mkCfg (c_env c) s')
        | None => Fail
        end
    end.

  Fixpoint block (l : list stmt) (c : cfg) : outcome :=
    match l with
    | [] => Next c
    | y :: t => match exec y c with Next c1 => block t c1 | o => o end
    end.

  (* the call f(args) under a draw script: the returned value and the configuration at the return.
     Falling off the end (Python returns None) is outside the model. *)
  Definition call (d : fdescr) (args : list val) (draws : list nat) : option (val * cfg) :=
    if Nat.eqb (length args) (fd_params d) then
      match block (fd_body d) (mkCfg (args ++ repeat VUnset (fd_vars d - fd_params d)) (mkSt [] draws)) with
      | Ret v c => Some (v, c)
      | _ => None
      end
    else None.

  (* exhausting an iter(f, sentinel): the values it yields.  f() is a lambda of the finished frame: its body
     is evaluated in the frame's final variables, on the current store.  [fuel]: a call that consumes nothing
     and does not produce the sentinel would repeat forever. *)
  Fixpoint drain (fuel : nat) (env : list val) (body : expr) (sen : val) (s : st) : option (list val * st) :=
    match fuel with
    | O => None
    | S fuel' =>
        match eval env body s with
        | Some (x, s') =>
            if val_eqb x sen then Some ([], s')
            else match drain fuel' env body sen s' with Some (r, s'') => Some (x :: r, s'') | None => None end
        | None => None
        end
    end.
End Interp.

(* ------------------------------------------------------------------ the two observations *)
Fixpoint ints_of (l : list atom) : option (list nat) :=
  match l with
  | [] => Some []
  | AInt i :: t => match ints_of t with Some r => Some (i :: r) | None => None end
  | _ :: _ => None
  end.

(* tournament_selection(fitness, n) with TOURNAMENT_SIZE = ts, np.random.choice answering with the fitness at
   the scripted positions: the returned list of indices and the unused part of the script *)
Definition run_tournament (ts : nat) (d : fdescr) (fit : list Z) (n : nat) (draws : list nat)
  : option (list nat * list nat) :=
  match call ts d [VList (map AKey fit); VAtom (AInt n)] draws with
  | Some (VList l, c) => match ints_of l with Some sel => Some (sel, s_draws (c_st c)) | None => None end
  | _ => None
  end.

(* list(pairwise(values)): the tuples yielded by the returned iterator until it stops *)
Definition run_pairwise (ts : nat) (d : fdescr) (items : list atom) : option (list val) :=
  match call ts d [VList items] [] with
  | Some (VCallIter body sen, c) =>
      match drain ts (S (length (concat (s_store (c_st c))))) (c_env c) body sen (c_st c) with
      | Some (r, _) => Some r
      | None => None
      end
  | _ => None
  end.
