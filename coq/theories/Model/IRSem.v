(* Executable semantics of the effect IR (Model/IR.v).

   Value semantics instrumented with array identities: every agent carries the contents of its
   position array (rows x dimensions of float keys) and an identifier [aid] of that array.
   A statement that rebinds the position to a new array (arithmetic result, deep copy) takes a fresh
   identifier, a statement that mutates in place keeps it.  The IR has no aliasing construct (T2 aborts
   on `x.position = y.position`), so identifiers stay pairwise distinct (Analysis/Distinct.v) and the
   value part is what Python computes.

   Everything the IR abstracts from is an explicit parameter, universally quantified in the theorems:
   the box, the objective [f], the hook [hk], the iteration count, and an oracle: the list of answers
   consumed, in order, by every arithmetic result ([Havoc]), numeric test ([Opaque]), index draw
   ([ChooseIdx]), data-dependent loop count ([RepeatAny], [Onlooker]) and GP tree step. *)
From Coq Require Import String ZArith List Bool Arith Lia.
From OV Require Import Base.FloatKey Model.Clip Model.IR.
Import ListNotations.
Close Scope Z_scope.
Open Scope nat_scope.

Record agent := { apos : contents; aid : nat; afit : Z }.

Record st := {
  pop  : list agent;            (* space.agents *)
  best : agent;                 (* space.best_agent *)
  tr   : agent;                 (* the trial agent (local deep copy) *)
  sh   : list agent;            (* deep-copied population (new_agents) *)
  loc  : list contents;         (* PSO family: local_position *)
  tmp  : Z;                     (* fitness temporary *)
  idx  : list nat;              (* index registers *)
  next : nat;                   (* next fresh array identifier *)
  hyp  : list string;           (* log of hyperparameter writes, most recent first *)
  tv   : list contents;         (* GP: current value (position) of every tree *)
  btv  : contents               (* GP: value of the best tree (a detached copy) *)
}.

Definition with_pop (s : st) v := {| pop := v; best := best s; tr := tr s; sh := sh s; loc := loc s; tmp := tmp s; idx := idx s; next := next s; hyp := hyp s; tv := tv s; btv := btv s |}.
Definition with_best (s : st) v := {| pop := pop s; best := v; tr := tr s; sh := sh s; loc := loc s; tmp := tmp s; idx := idx s; next := next s; hyp := hyp s; tv := tv s; btv := btv s |}.
Definition with_tr (s : st) v := {| pop := pop s; best := best s; tr := v; sh := sh s; loc := loc s; tmp := tmp s; idx := idx s; next := next s; hyp := hyp s; tv := tv s; btv := btv s |}.
Definition with_sh (s : st) v := {| pop := pop s; best := best s; tr := tr s; sh := v; loc := loc s; tmp := tmp s; idx := idx s; next := next s; hyp := hyp s; tv := tv s; btv := btv s |}.
Definition with_loc (s : st) v := {| pop := pop s; best := best s; tr := tr s; sh := sh s; loc := v; tmp := tmp s; idx := idx s; next := next s; hyp := hyp s; tv := tv s; btv := btv s |}.
Definition with_tmp (s : st) v := {| pop := pop s; best := best s; tr := tr s; sh := sh s; loc := loc s; tmp := v; idx := idx s; next := next s; hyp := hyp s; tv := tv s; btv := btv s |}.
Definition with_idx (s : st) v := {| pop := pop s; best := best s; tr := tr s; sh := sh s; loc := loc s; tmp := tmp s; idx := v; next := next s; hyp := hyp s; tv := tv s; btv := btv s |}.
Definition with_next (s : st) v := {| pop := pop s; best := best s; tr := tr s; sh := sh s; loc := loc s; tmp := tmp s; idx := idx s; next := v; hyp := hyp s; tv := tv s; btv := btv s |}.
Definition with_hyp (s : st) v := {| pop := pop s; best := best s; tr := tr s; sh := sh s; loc := loc s; tmp := tmp s; idx := idx s; next := next s; hyp := v; tv := tv s; btv := btv s |}.
Definition with_tv (s : st) v := {| pop := pop s; best := best s; tr := tr s; sh := sh s; loc := loc s; tmp := tmp s; idx := idx s; next := next s; hyp := hyp s; tv := v; btv := btv s |}.
Definition with_btv (s : st) v := {| pop := pop s; best := best s; tr := tr s; sh := sh s; loc := loc s; tmp := tmp s; idx := idx s; next := next s; hyp := hyp s; tv := tv s; btv := v |}.

Inductive answer :=
| ACont (c : contents)          (* result of an arithmetic expression that becomes a position *)
| ABool (b : bool)              (* outcome of a test on numeric data *)
| ANat (n : nat)                (* an index draw / a data-dependent loop count *)
| ATrees (l : list contents).   (* values of all trees after a GP tree step *)

Inductive event :=
| EvEval (c : contents) (v : Z)     (* function.pointer(c) returned v *)
| EvHook (x : st)                   (* the hook returned; [x] is the state the sweep will see *)
| EvDump (x : st)                   (* history.dump(...): by-value snapshot of the state *)
| EvDraw.                           (* a call into the random primitives *)

Definition res := option (st * list event * list answer).

Definition ret (s : st) (o : list answer) : res := Some (s, [], o).
Definition bind (r : res) (k : st -> list answer -> res) : res :=
  match r with
  | Some (s, e, o) => match k s o with Some (s', e', o') => Some (s', e ++ e', o') | None => None end
  | None => None
  end.

(* list update *)
Fixpoint upd {A} (i : nat) (a : A) (l : list A) : option (list A) :=
  match l, i with
  | [], _ => None
  | _ :: t, 0 => Some (a :: t)
  | h :: t, S k => match upd k a t with Some t' => Some (h :: t') | None => None end
  end.

Definition slot_of (r : ref) (cur : option nat) (s : st) : option nat :=
  match r with
  | Cur => cur
  | Slot v => nth_error (idx s) v
  | Last => match length (pop s) with 0 => None | S n => Some n end
  | _ => None
  end.

Definition getr (r : ref) (cur : option nat) (s : st) : option agent :=
  match r with
  | Best => Some (best s)
  | Tr => Some (tr s)
  | Sh => match cur with Some i => nth_error (sh s) i | None => None end
  | _ => match slot_of r cur s with Some i => nth_error (pop s) i | None => None end
  end.

Definition setr (r : ref) (cur : option nat) (a : agent) (s : st) : option st :=
  match r with
  | Best => Some (with_best s a)
  | Tr => Some (with_tr s a)
  | Sh => match cur with
          | Some i => match upd i a (sh s) with Some l => Some (with_sh s l) | None => None end
          | None => None end
  | _ => match slot_of r cur s with
         | Some i => match upd i a (pop s) with Some l => Some (with_pop s l) | None => None end
         | None => None end
  end.

(* stable insertion sort by fitness: `agents.sort(key=lambda x: x.fit)` *)
Fixpoint ins_fit (a : agent) (l : list agent) : list agent :=
  match l with
  | [] => [a]
  | b :: t => if klt (afit a) (afit b) then a :: l else b :: ins_fit a t
  end.
Definition sort_fit (l : list agent) : list agent := fold_right ins_fit [] l.

(* deep copies of a whole population take consecutive fresh identifiers *)
Fixpoint copy_all (n : nat) (l : list agent) : list agent :=
  match l with
  | [] => []
  | a :: t => {| apos := apos a; aid := n; afit := afit a |} :: copy_all (S n) t
  end.

Fixpoint set_idx (v i : nat) (l : list nat) : list nat :=
  match v, l with
  | 0, [] => [i]
  | 0, _ :: t => i :: t
  | S k, [] => 0 :: set_idx k i []
  | S k, h :: t => h :: set_idx k i t
  end.

(* same length and pointwise [p] *)
Fixpoint forallb2 {A B} (p : A -> B -> bool) (l1 : list A) (l2 : list B) : bool :=
  match l1, l2 with
  | [], [] => true
  | a :: t1, b :: t2 => p a b && forallb2 p t1 t2
  | _, _ => false
  end.

(* the standard admissibility of an arithmetic result: NaN-free and of the shape of the array it replaces
   (NumPy broadcasting keeps the (variables, dimensions) shape; validated by the run monitor, not proved) *)
Definition okc_std (old new : contents) : bool :=
  no_nan new && list_eqb Nat.eqb (map (@length okey) new) (map (@length okey) old).

Lemma list_eqb_nat_eq l1 l2 : list_eqb Nat.eqb l1 l2 = true -> l1 = l2.
Proof.
  revert l2. induction l1 as [|a l1 IH]; intros [|b l2]; simpl; intros H; try discriminate; [reflexivity|].
  apply andb_true_iff in H as [H1 H2]. apply Nat.eqb_eq in H1. rewrite H1, (IH _ H2). reflexivity.
Qed.

Lemma okc_std_spec old new : okc_std old new = true ->
  no_nan new = true /\ map (@length okey) new = map (@length okey) old.
Proof. unfold okc_std. intros H. apply andb_true_iff in H as [H1 H2]. split; [assumption|apply list_eqb_nat_eq; assumption]. Qed.

Section Sem.
  Variables (lbs ubs : list Z).          (* the box the agents are clipped to (keys) *)
  Variable f : contents -> Z.            (* the objective (deterministic, non-NaN) *)
  Variable hk : st -> st.                (* the pre-evaluation hook *)
  Variable n_iter : nat.
  Variable okc : contents -> contents -> bool.   (* [okc old new]: admissible arithmetic result replacing [old]
                                                    (the theorems instantiate it with NaN-freedom and shape preservation;
                                                    [fun _ _ => true] gives the unrestricted semantics) *)

  Definition clipc (c : contents) : contents := clip_rows (map Some lbs) (map Some ubs) c.
  Definition clipa (a : agent) : agent := {| apos := clipc (apos a); aid := aid a; afit := afit a |}.

  Fixpoint evalc (c : cond) (cur : option nat) (o : list answer) (s : st) : option (bool * list answer) :=
    match c with
    | FitLt a b => match getr a cur s, getr b cur s with
                   | Some x, Some y => Some (klt (afit x) (afit y), o) | _, _ => None end
    | TmpLt a => match getr a cur s with Some x => Some (klt (tmp s) (afit x), o) | None => None end
    | Opaque => match o with ABool b :: o' => Some (b, o') | _ => None end
    | CNot c1 => match evalc c1 cur o s with Some (b, o') => Some (negb b, o') | None => None end
    | CAnd c1 c2 => match evalc c1 cur o s with
                    | Some (b1, o1) => match evalc c2 cur o1 s with Some (b2, o2) => Some (b1 && b2, o2) | None => None end
                    | None => None end
    | COr c1 c2 => match evalc c1 cur o s with
                   | Some (b1, o1) => match evalc c2 cur o1 s with Some (b2, o2) => Some (b1 || b2, o2) | None => None end
                   | None => None end
    end.

  (* every statement that is not a control structure *)
  Definition exec_atom (cur : option nat) (s : stmt) (o : list answer) (x : st) : res :=
    match s with
    | Skip => ret x o
    | Havoc m r =>
        match o, getr r cur x with
        | ACont c :: o', Some a =>
            if negb (okc (apos a) c) then None else
            let a' := match m with
                      | Fresh => {| apos := c; aid := next x; afit := afit a |}
                      | InPlace => {| apos := c; aid := aid a; afit := afit a |} end in
            match setr r cur a' x with
            | Some x' => ret (match m with Fresh => with_next x' (S (next x)) | InPlace => x' end) o'
            | None => None end
        | _, _ => None
        end
    | Clip r =>
        match getr r cur x with
        | Some a => match setr r cur (clipa a) x with Some x' => ret x' o | None => None end
        | None => None end
    | ClipAll => ret (with_pop x (map clipa (pop x))) o
    | Eval r =>
        match getr r cur x with
        | Some a => match setr r cur {| apos := apos a; aid := aid a; afit := f (apos a) |} x with
                    | Some x' => Some (x', [EvEval (apos a) (f (apos a))], o) | None => None end
        | None => None end
    | EvalTmp r =>
        match getr r cur x with
        | Some a => Some (with_tmp x (f (apos a)), [EvEval (apos a) (f (apos a))], o)
        | None => None end
    | SetFitTmp r =>
        match getr r cur x with
        | Some a => match setr r cur {| apos := apos a; aid := aid a; afit := tmp x |} x with
                    | Some x' => ret x' o | None => None end
        | None => None end
    | CopyPos d s0 =>
        match getr d cur x, getr s0 cur x with
        | Some a, Some b => match setr d cur {| apos := apos b; aid := next x; afit := afit a |} x with
                            | Some x' => ret (with_next x' (S (next x))) o | None => None end
        | _, _ => None end
    | CopyFit d s0 =>
        match getr d cur x, getr s0 cur x with
        | Some a, Some b => match setr d cur {| apos := apos a; aid := aid a; afit := afit b |} x with
                            | Some x' => ret x' o | None => None end
        | _, _ => None end
    | LocFromPos =>
        match cur, getr Cur cur x with
        | Some i, Some a => match upd i (apos a) (loc x) with Some lc => ret (with_loc x lc) o | None => None end
        | _, _ => None end
    | BestPosFromLoc =>
        match cur with
        | Some i => match nth_error (loc x) i with
                    | Some c => ret (with_next (with_best x {| apos := c; aid := next x; afit := afit (best x) |}) (S (next x))) o
                    | None => None end
        | None => None end
    | SwapPos a b =>
        match getr a cur x, getr b cur x with
        | Some p, Some q =>
            match setr a cur {| apos := apos q; aid := aid q; afit := afit p |} x with
            | Some x1 => match getr b cur x1 with
                         | Some q1 => match setr b cur {| apos := apos p; aid := aid p; afit := afit q1 |} x1 with
                                      | Some x2 => ret x2 o | None => None end
                         | None => None end
            | None => None end
        | _, _ => None end
    | SwapFit a b =>
        match getr a cur x, getr b cur x with
        | Some p, Some q =>
            match setr a cur {| apos := apos p; aid := aid p; afit := afit q |} x with
            | Some x1 => match getr b cur x1 with
                         | Some q1 => match setr b cur {| apos := apos q1; aid := aid q1; afit := afit p |} x1 with
                                      | Some x2 => ret x2 o | None => None end
                         | None => None end
            | None => None end
        | _, _ => None end
    | NewTrial s0 =>
        match getr s0 cur x with
        | Some a => ret (with_next (with_tr x {| apos := apos a; aid := next x; afit := afit a |}) (S (next x))) o
        | None => None end
    | ShadowAll => ret (with_next (with_sh x (copy_all (next x) (pop x))) (next x + length (pop x))) o
    | Store d s0 =>
        match d with
        | Slot _ | Last | Cur =>
            match getr s0 cur x with
            | Some a => match setr d cur {| apos := apos a; aid := next x; afit := afit a |} x with
                        | Some x' => ret (with_next x' (S (next x))) o | None => None end
            | None => None end
        | _ => None end
    | ChooseIdx v =>
        match o with
        | ANat i :: o' => if Nat.ltb i (length (pop x)) then ret (with_idx x (set_idx v i (idx x))) o' else None
        | _ => None end
    | SortByFit => ret (with_pop x (sort_fit (pop x))) o
    | Hook => let x' := hk x in Some (x', [EvHook x'], o)
    | Dump => Some (x, [EvDump x], o)
    | Draw => Some (x, [EvDraw], o)
    | SetHyper h => ret (with_hyp x (h :: hyp x)) o
    | PosFromTree r =>
        match cur, getr r cur x with
        | Some i, Some a => match nth_error (tv x) i with
                            | Some c => if negb (okc (apos a) c) then None else
                                        match setr r cur {| apos := c; aid := next x; afit := afit a |} x with
                                        | Some x' => ret (with_next x' (S (next x))) o | None => None end
                            | None => None end
        | _, _ => None end
    | BestTreeCopy =>
        match cur with
        | Some i => match nth_error (tv x) i with Some c => ret (with_btv x c) o | None => None end
        | None => None end
    | TreeCopy _ _ | TreeSet _ _ | TreeCross _ _ =>
        match o with
        | ATrees t :: o' => if forallb2 okc (tv x) t then ret (with_tv x t) o' else None
        | _ => None end
    | _ => None       (* control structures are handled by [exec] *)
    end.

  Fixpoint iter (n : nat) (body : list answer -> st -> res) (o : list answer) (x : st) : res :=
    match n with
    | 0 => ret x o
    | S k => bind (body o x) (fun x1 o1 => iter k body o1 x1)
    end.

  (* slots i, i+1, ..., i+n-1 in order *)
  Fixpoint iter_slots (i n : nat) (body : nat -> list answer -> st -> res) (o : list answer) (x : st) : res :=
    match n with
    | 0 => ret x o
    | S k => bind (body i o x) (fun x1 o1 => iter_slots (S i) k body o1 x1)
    end.

  Fixpoint exec (cur : option nat) (s : stmt) (o : list answer) (x : st) {struct s} : res :=
    match s with
    | Seq s1 s2 => bind (exec cur s1 o x) (fun x1 o1 => exec cur s2 o1 x1)
    | If c s1 s2 =>
        match evalc c cur o x with
        | Some (b, o1) => if b then exec cur s1 o1 x else exec cur s2 o1 x
        | None => None end
    | At _ s1 => exec cur s1 o x
    | ForSlots b => iter_slots 0 (length (pop x)) (fun i => exec (Some i) b) o x
    | RepeatAny b => match o with ANat n :: o' => iter n (exec cur b) o' x | _ => None end
    | Repeat b => iter n_iter (exec cur b) o x
    | Onlooker b =>
        match o with
        | ANat n :: o' => iter n (fun o1 x1 => iter_slots 0 (length (pop x1)) (fun i => exec (Some i) b) o1 x1) o' x
        | _ => None end
    | _ => exec_atom cur s o x
    end.

  Definition run (p : stmt) (o : list answer) (x : st) : res := exec None p o x.
End Sem.

(* ------------------------------------------------------------------ observations on traces *)
Definition eval_vals (evs : list event) : list Z :=
  flat_map (fun e => match e with EvEval _ v => [v] | _ => [] end) evs.
Definition eval_args (evs : list event) : list contents :=
  flat_map (fun e => match e with EvEval c _ => [c] | _ => [] end) evs.
Definition is_hook (e : event) : bool := match e with EvHook _ => true | _ => false end.
Definition is_dump (e : event) : bool := match e with EvDump _ => true | _ => false end.
Definition is_eval (e : event) : bool := match e with EvEval _ _ => true | _ => false end.
Definition is_draw (e : event) : bool := match e with EvDraw => true | _ => false end.
Definition count (p : event -> bool) (evs : list event) : nat := length (filter p evs).

Lemma bind_some r k x e o :
  bind r k = Some (x, e, o) ->
  exists x1 e1 o1 e2, r = Some (x1, e1, o1) /\ k x1 o1 = Some (x, e2, o) /\ e = e1 ++ e2.
Proof.
  unfold bind. destruct r as [[[x1 e1] o1]|]; [|discriminate].
  destruct (k x1 o1) as [[[x2 e2] o2]|] eqn:E; [|discriminate].
  intros H. injection H as <- <- <-. exists x1, e1, o1, e2. repeat split; assumption.
Qed.
