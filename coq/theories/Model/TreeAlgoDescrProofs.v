(* The interpreter of Model/TreeAlgoDescr.v, run on the hand-stated descriptions, IS the corresponding mirror of
   Model/TreeAlgo.v -- for every tree, every fuel, every heap (no NoDup needed: both sides do the same steps):

     interp_pre_eq     interp_pre descr_pre t = pre_stack t
     interp_post_eq    interp_post descr_post t = post_stack t
     interp_props_eq   interp_props descr_props t = option_map props_to_z (props_bfs t)
     interp_find_eq    interp_find descr_pre descr_post descr_find par flg t p = find_node_h par flg t p

   Together with `Gen.TreeAlgoDescr.X = Some descr_X` (Props/C11.v, reflexivity on the regenerated file) the
   theorems of Model/TreeAlgoProofs.v speak about the description extracted from the current source. *)
From Coq Require Import List Arith Bool ZArith Lia.
From OV Require Import Model.TreeDef Model.TreeAlgo Model.TreeAlgoProofs Model.TreeAlgoDescr.
Import ListNotations.

Lemma run_is_exec_list : forall l s,
  (fix run (l : list stmt) (s : istate) {struct l} : option istate :=
     match l with
     | [] => Some s
     | x :: r => match exec x s with Some s' => run r s' | None => None end
     end) l s = exec_list l s.
Proof. induction l as [|x l IH]; intros s; [reflexivity|]. cbn [exec_list]. destruct (exec x s); [apply IH | reflexivity]. Qed.

Lemma exec_if : forall c th el s,
  exec (SIf c th el) s =
  match evalc c s with Some true => exec_list th s | Some false => exec_list el s | None => None end.
Proof. intros. cbn [exec]. destruct (evalc c s) as [[|]|]; [apply run_is_exec_list | apply run_is_exec_list | reflexivity]. Qed.

(* ------------------------------------------------------------------ pre_order *)
Lemma pre_body_step : forall node st' cur out nxt nn nl mn mx,
  exec_list (pre_body descr_pre)
    {| i_cur := cur; i_stack := node :: st'; i_out := out; i_next := nxt; i_nodes := nn; i_leaves := nl; i_min := mn; i_max := mx |}
  = Some {| i_cur := Some node; i_stack := push_opt (tleft node) (push_opt (tright node) st'); i_out := out ++ [node];
            i_next := nxt; i_nodes := nn; i_leaves := nl; i_min := mn; i_max := mx |}.
Proof. intros. destruct node as [i b [a|] [c|]]; reflexivity. Qed.

Lemma wl_pre : forall f s,
  option_map i_out (wl_loop f CNonEmpty (pre_body descr_pre) s) = pre_loop f (i_stack s) (i_out s).
Proof.
  induction f as [|f IH]; intros [cur st out nxt nn nl mn mx]; destruct st as [|node st']; try reflexivity.
  cbn [wl_loop evalc i_stack i_out pre_loop]. rewrite pre_body_step. rewrite IH. reflexivity.
Qed.

Theorem interp_pre_eq : forall t, interp_pre descr_pre t = pre_stack t.
Proof.
  intros t. unfold interp_pre, pre_stack. cbn [descr_pre pre_init pre_cond pre_body].
  set (s0 := {| i_cur := Some t; i_stack := [t]; i_out := []; i_next := []; i_nodes := 0; i_leaves := 0; i_min := 0%Z; i_max := 0%Z |}).
  change (push_all [NCur] (init_state t)) with (Some s0). cbv iota.
  change (pre_loop (size t) [t] []) with (pre_loop (size t) (i_stack s0) (i_out s0)).
  rewrite <- wl_pre. cbn [descr_pre pre_body].
  destruct (wl_loop (size t) CNonEmpty _ s0); reflexivity.
Qed.

(* ------------------------------------------------------------------ post_order *)
Lemma descend_body_step : forall t st out nxt nn nl mn mx,
  exec_list (post_descend descr_post)
    {| i_cur := Some t; i_stack := st; i_out := out; i_next := nxt; i_nodes := nn; i_leaves := nl; i_min := mn; i_max := mx |}
  = Some {| i_cur := Some t; i_stack := t :: push_opt (tright t) st; i_out := out; i_next := nxt; i_nodes := nn; i_leaves := nl; i_min := mn; i_max := mx |}.
Proof. intros. destruct t as [i b l [c|]]; reflexivity. Qed.

Lemma descend_eq : forall t cur st out nxt nn nl mn mx,
  descend_i (post_descend descr_post) t
    {| i_cur := cur; i_stack := st; i_out := out; i_next := nxt; i_nodes := nn; i_leaves := nl; i_min := mn; i_max := mx |}
  = Some {| i_cur := None; i_stack := descend t st; i_out := out; i_next := nxt; i_nodes := nn; i_leaves := nl; i_min := mn; i_max := mx |}.
Proof.
  induction t as [i b l r Hl Hr] using tree_ind2. intros.
  cbn [descend_i]. unfold set_cur at 1. cbn [i_cur i_stack i_out i_next i_nodes i_leaves i_min i_max].
  rewrite descend_body_step. cbn [tright].
  destruct l as [a|]; cbn [optP] in *; [rewrite Hl |]; reflexivity.
Qed.

Lemma post_body_step : forall x st2 cur out nxt nn nl mn mx,
  exec_list (post_body descr_post)
    {| i_cur := cur; i_stack := x :: st2; i_out := out; i_next := nxt; i_nodes := nn; i_leaves := nl; i_min := mn; i_max := mx |}
  = Some (if go_right x st2
          then {| i_cur := tright x; i_stack := x :: tl st2; i_out := out; i_next := nxt; i_nodes := nn; i_leaves := nl; i_min := mn; i_max := mx |}
          else {| i_cur := None; i_stack := st2; i_out := out ++ [x]; i_next := nxt; i_nodes := nn; i_leaves := nl; i_min := mn; i_max := mx |}).
Proof.
  intros. destruct x as [i b l [r|]]; destruct st2 as [|y st3]; try reflexivity.
  unfold go_right. cbn [tright]. cbn. destruct (Nat.eqb (tid y) (tid r)); reflexivity.
Qed.

Lemma post_eq : forall f s,
  option_map i_out (post_i f descr_post s) = post_loop f (i_cur s) (i_stack s) (i_out s).
Proof.
  induction f as [|f IH]; intros [cur st out nxt nn nl mn mx]; [reflexivity|].
  cbn [post_i post_loop i_cur i_stack i_out].
  set (D := match cur with Some t => descend t st | None => st end).
  assert (E : match cur with
              | Some t => descend_i (post_descend descr_post) t
                            {| i_cur := cur; i_stack := st; i_out := out; i_next := nxt; i_nodes := nn; i_leaves := nl; i_min := mn; i_max := mx |}
              | None => Some {| i_cur := cur; i_stack := st; i_out := out; i_next := nxt; i_nodes := nn; i_leaves := nl; i_min := mn; i_max := mx |}
              end
              = Some {| i_cur := None; i_stack := D; i_out := out; i_next := nxt; i_nodes := nn; i_leaves := nl; i_min := mn; i_max := mx |}).
  { subst D. destruct cur as [t|]; [apply descend_eq | reflexivity]. }
  rewrite E. clear E. destruct D as [|x st2]; [reflexivity|].
  rewrite post_body_step. destruct (go_right x st2).
  - cbn [post_break descr_post evalc i_stack]. rewrite IH. reflexivity.
  - destruct st2 as [|y st3]; cbn [post_break descr_post evalc i_stack option_map i_out]; [reflexivity|].
    rewrite IH. reflexivity.
Qed.

Theorem interp_post_eq : forall t, interp_post descr_post t = post_stack t.
Proof.
  intros t. unfold interp_post, post_stack.
  change (post_loop (2 * size t) (Some t) [] []) with
    (post_loop (2 * size t) (i_cur (init_state t)) (i_stack (init_state t)) (i_out (init_state t))).
  rewrite <- post_eq.
  destruct (post_i (2 * size t) descr_post (init_state t)); reflexivity.
Qed.

(* ------------------------------------------------------------------ _properties *)
Definition accs_of (s : istate) : bfs_acc := (i_nodes s, i_leaves s, i_min s, i_next s).

Lemma props_body_step : forall x st out nxt nn nl mn mx,
  exists s', exec_list (pr_body descr_props)
               {| i_cur := Some x; i_stack := st; i_out := out; i_next := nxt; i_nodes := nn; i_leaves := nl; i_min := mn; i_max := mx |} = Some s'
             /\ accs_of s' = bfs_node mx (nn, nl, mn, nxt) x /\ i_max s' = mx.
Proof.
  intros. destruct x as [i b [a|] [c|]]; cbn; try (eexists; repeat split; reflexivity).
  destruct (Z.eqb mn 0); eexists; repeat split; reflexivity.
Qed.

Lemma for_nodes_eq : forall lv s,
  exists s', for_nodes (pr_body descr_props) lv s = Some s'
             /\ accs_of s' = fold_left (bfs_node (i_max s)) lv (accs_of s) /\ i_max s' = i_max s.
Proof.
  induction lv as [|x lv IH]; intros s.
  - exists s. repeat split; reflexivity.
  - destruct s as [cur st out nxt nn nl mn mx]. cbn [for_nodes]. unfold set_cur at 1.
    cbn [i_cur i_stack i_out i_next i_nodes i_leaves i_min i_max].
    destruct (props_body_step x st out nxt nn nl mn mx) as [s1 [E1 [A1 M1]]].
    rewrite E1. destruct (IH s1) as [s2 [E2 [A2 M2]]]. exists s2. split; [exact E2|].
    cbn [fold_left accs_of i_max i_nodes i_leaves i_min i_next]. rewrite A2, A1, M1, M2, M1. split; reflexivity.
Qed.

Lemma levels_eq : forall f nodes s,
  option_map (fun s => (i_nodes s, i_leaves s, i_min s, i_max s)) (levels_i f descr_props nodes s)
  = bfs_loop f nodes (i_max s) (i_nodes s) (i_leaves s) (i_min s).
Proof.
  induction f as [|f IH]; intros nodes s; destruct nodes as [|x lv]; try reflexivity.
  destruct s as [cur st out nxt nn nl mn mx].
  cbn [levels_i bfs_loop]. change (pr_pre descr_props) with [SInc AMax]. cbn [exec_list exec do_inc].
  unfold set_accs, set_next. cbn [i_cur i_stack i_out i_next i_nodes i_leaves i_min i_max].
  set (s1 := {| i_cur := cur; i_stack := st; i_out := out; i_next := []; i_nodes := nn; i_leaves := nl; i_min := mn; i_max := (mx + 1)%Z |}).
  destruct (for_nodes_eq (x :: lv) s1) as [s2 [E2 [A2 M2]]]. rewrite E2.
  subst s1.
  change (accs_of s2 = fold_left (bfs_node (mx + 1)) (x :: lv) (nn, nl, mn, [])) in A2.
  change (i_max s2 = (mx + 1)%Z) in M2.
  rewrite <- A2. unfold accs_of. cbv iota. rewrite IH, M2. reflexivity.
Qed.

Definition props_to_z (r : nat * nat * Z * Z) : Z * Z * Z * Z :=
  match r with (a, b, c, d) => (Z.of_nat a, Z.of_nat b, c, d) end.

Theorem interp_props_eq : forall t, interp_props descr_props t = option_map props_to_z (props_bfs t).
Proof.
  intros t. unfold interp_props, props_bfs.
  set (s0 := set_accs (init_state t) (pr_init_nodes descr_props) (pr_init_leaves descr_props) (pr_init_min descr_props) (pr_init_max descr_props)).
  change (bfs_loop (size t) [t] (-1) 0 0 0) with (bfs_loop (size t) [t] (i_max s0) (i_nodes s0) (i_leaves s0) (i_min s0)).
  rewrite <- levels_eq. destruct (levels_i (size t) descr_props [t] s0); reflexivity.
Qed.

(* ------------------------------------------------------------------ find_node *)
Theorem interp_find_eq : forall par flg t p,
  interp_find descr_pre descr_post descr_find par flg t p = find_node_h par flg t p.
Proof.
  intros. unfold interp_find, find_node_h. cbn [fd_trav descr_find]. rewrite interp_pre_eq.
  destruct (pre_stack t) as [lst|]; [| reflexivity].
  destruct (Nat.ltb p (length lst)); [| reflexivity].
  destruct (nth_error lst p) as [node|]; [| reflexivity].
  cbn [fd_tree fd_default descr_find eval_ftree].
  destruct (tlab node); cbn [Bool.eqb eval_ftree eval_ret evalp]; [reflexivity|].
  destruct (par (tid node)) as [q|]; [| reflexivity].
  destruct (par q); reflexivity.
Qed.

(* the inner `while self is not None` body of post_order does not assign the node variable, so running it by
   structural descent along .left is its Python meaning *)
Lemma descr_post_keeps_cur : keeps_cur (post_descend descr_post) = true.
Proof. reflexivity. Qed.

(* ------------------------------------------------------------------ end to end: a regenerated description [g]
   that equals the hand-stated one, interpreted, computes the recursive definitions of Model/TreeDef.v *)
Lemma pre_of_descr : forall g, g = Some descr_pre -> forall d, g = Some d ->
  forall t, interp_pre d t = Some (pre_rec t).
Proof. intros g -> d E t. injection E as <-. rewrite interp_pre_eq. apply pre_stack_correct. Qed.

Lemma post_of_descr : forall g, g = Some descr_post -> forall d, g = Some d ->
  forall t, NoDup (ids t) -> interp_post d t = Some (post_rec t).
Proof. intros g -> d E t H. injection E as <-. rewrite interp_post_eq. now apply post_stack_correct. Qed.

Lemma props_of_descr : forall g, g = Some descr_props -> forall d, g = Some d ->
  forall t, interp_props d t =
            Some (Z.of_nat (size t), Z.of_nat (leaves t), Z.of_nat (min_leaf_depth t), Z.of_nat (max_leaf_depth t)).
Proof. intros g -> d E t. injection E as <-. rewrite interp_props_eq, props_bfs_correct. reflexivity. Qed.

Lemma find_of_descr : forall gp gq gf, gp = Some descr_pre -> gq = Some descr_post -> gf = Some descr_find ->
  forall dp dq df, gp = Some dp -> gq = Some dq -> gf = Some df ->
  forall t tbl p, NoDup (map fst tbl) -> incl (heap_of t) tbl ->
  interp_find dp dq df (par_of tbl) (flg_of tbl) t p =
  if Nat.ltb p (size t) then nth_error (fn_spec_list (None, true) None t) p else Some (FnSlot None false).
Proof.
  intros gp gq gf -> -> -> dp dq df Ep Eq Ef t tbl p Hnd Hincl.
  injection Ep as <-. injection Eq as <-. injection Ef as <-.
  rewrite interp_find_eq. now apply find_node_tbl_spec.
Qed.
