(* TreeSpace.grow builds a fresh well-formed tree of bounded depth, for every script of draws. *)
From Coq Require Import List Arith Bool Lia ZArith Permutation.
From OV Require Import Model.TreeDef Model.TreeHeap.
From OV Require Import Model.TreeHeapBase Model.TreeHeapSlot Model.TreeHeapCopy.
Import ListNotations.

Definition arity_ok (E : genv) : Prop :=
  forall op, In op (g_funs E) -> nth_error (g_arity E) op = Some 1 \/ nth_error (g_arity E) op = Some 2.

(* what a call of grow with depth budget d establishes *)
Definition grown (E : genv) (st : hstate) (d : nat) (r : nat) (st' : hstate) : Prop :=
  heap_ext st st' /\ narr st' = narr st /\
  exists t, tid t = r /\ Rep (g_arity E) st' None true t /\ NoDup (ids t) /\
    (forall i, In i (ids t) -> length (cells st) <= i < length (cells st')) /\
    height t <= S d /\
    (forall k, In (Term k) (labels t) -> k < g_nt E) /\
    (exists c, get st' r = Some c /\ c_flag c = true).

Lemma labels_N : forall i lab l r, labels (N i lab l r) =
  lab :: (match l with Some a => labels a | None => [] end) ++ (match r with Some b => labels b | None => [] end).
Proof. intros. unfold labels. rewrite nodes_N. simpl. rewrite map_app. destruct l, r; reflexivity. Qed.

Lemma grown_terminal : forall E st d k, k < g_nt E -> g_nt E <= narr st ->
  grown E st d (length (cells st)) (snd (alloc st (new_cell (Term k) (Some k)))).
Proof.
  intros E st d k Hk Hn.
  split; [apply heap_ext_alloc|]. split; [reflexivity|].
  exists (N (length (cells st)) (Term k) None None). split; [reflexivity|]. split.
  { simpl. exists (new_cell (Term k) (Some k)). split; [apply get_alloc_new|]. simpl.
    repeat split; auto; try congruence. exists k. split; auto. lia. }
  split. { rewrite ids_N. simpl. constructor; auto. constructor. }
  split. { intros i Hi. rewrite ids_N in Hi. simpl in Hi. destruct Hi as [<- | []]. rewrite length_alloc. lia. }
  split. { simpl. lia. }
  split. { intros k0 H0. rewrite labels_N in H0. simpl in H0. destruct H0 as [H0 | []]. inversion H0. subst. auto. }
  exists (new_cell (Term k) (Some k)). split; [apply get_alloc_new | reflexivity].
Qed.

Lemma w_parent_flag_true : forall c p, c_flag c = true -> w_parent p c = w_parent p (w_flag true c).
Proof. intros [a b c d e f] p H. simpl in H. subst. reflexivity. Qed.

Section Attach.
Variable tab : list nat.

(* hanging a freshly grown child under the function node fn *)
Lemma attach_child : forall (side : bool) st st' fn ta par fl,
  Rep tab st par fl ta -> NoDup (ids ta) -> ~ In fn (ids ta) ->
  (exists c, get st (tid ta) = Some c) ->
  (forall c, get st (tid ta) = Some c -> get st' (tid ta) = Some (w_parent (Some fn) (w_flag side c))) ->
  (forall j, In j (ids ta) -> j <> tid ta -> get st' j = get st j) ->
  narr st <= narr st' ->
  Rep tab st' (Some fn) side ta.
Proof.
  intros side st st' fn [i lab l r] par fl HR Hn Hfn (c & Hc) Hw Hfr Hna. cbn [tid] in *.
  eapply Rep_reroot; eauto.
  intros j Hj. apply Hfr.
  - rewrite ids_N. simpl. auto.
  - intro. subst. rewrite ids_N in Hn. inversion Hn. auto.
Qed.

End Attach.

Lemma grown_fun1 : forall E st d op sta na,
  nth_error (g_arity E) op = Some 1 ->
  let fn := length (cells st) in
  let st1 := snd (alloc st (new_cell (Fun op) None)) in
  grown E st1 d na sta ->
  grown E st (S d) fn (upd (upd sta fn (w_left (Some na))) na (w_parent (Some fn))).
Proof.
  intros E st d op sta na Har fn st1 (Hext & Hnarr & ta & Hta & HRa & HNa & Hrange & Hh & Hlab & (ca & Gca & Fca)).
  subst na.
  assert (Hlen1 : length (cells st1) = S fn) by (unfold st1; apply length_alloc).
  assert (Hfn_a : get sta fn = Some (new_cell (Fun op) None)).
  { destruct Hext as (_ & _ & He). rewrite He by lia. unfold st1. apply get_alloc_new. }
  assert (Hnotin : ~ In fn (ids ta)) by (intro Hi; apply Hrange in Hi; lia).
  assert (Hne : fn <> tid ta) by (intro He; apply Hnotin; rewrite He; apply tid_in_ids).
  set (stf := upd (upd sta fn (w_left (Some (tid ta)))) (tid ta) (w_parent (Some fn))).
  assert (Glen : length (cells stf) = length (cells sta)) by (unfold stf; rewrite !length_upd; reflexivity).
  assert (Gfn : get stf fn = Some (w_left (Some (tid ta)) (new_cell (Fun op) None))).
  { unfold stf. rewrite get_upd_neq by auto. apply get_upd_eq. auto. }
  assert (Gta : get stf (tid ta) = Some (w_parent (Some fn) ca)).
  { unfold stf. apply get_upd_eq. rewrite get_upd_neq by auto. auto. }
  assert (Gother : forall j, j <> fn -> j <> tid ta -> get stf j = get sta j).
  { intros. unfold stf. rewrite !get_upd_neq by auto. reflexivity. }
  assert (Hroot_range : S fn <= tid ta < length (cells sta)).
  { pose proof (tid_in_ids ta) as Hi. apply Hrange in Hi. lia. }
  split.
  { destruct Hext as (A & B & C). unfold heap_ext. rewrite Glen.
    split. { unfold stf. rewrite !narr_upd. unfold st1 in A. simpl in A. lia. }
    split. { lia. }
    intros i Hi. rewrite Gother by lia. rewrite C by lia. unfold st1. apply get_alloc_old. auto. }
  split. { unfold stf. rewrite !narr_upd. rewrite Hnarr. reflexivity. }
  exists (N fn (Fun op) (Some ta) None). split; [reflexivity|]. split.
  { cbn [Rep]. eexists. split; [exact Gfn|]. simpl. repeat split; auto; try congruence.
    - left. repeat split; auto. congruence.
    - eapply attach_child with (st := sta); eauto.
      + intros c Hc. rewrite Gta. rewrite Gca in Hc. inversion Hc; subst. f_equal. apply w_parent_flag_true. auto.
      + intros j Hj Hjn. apply Gother; auto. intro; subst; auto. }
  split. { rewrite ids_N. simpl. rewrite app_nil_r. constructor; auto. }
  split. { intros i Hi. rewrite ids_N in Hi. simpl in Hi. rewrite app_nil_r in Hi. rewrite Glen.
           destruct Hi as [<- | Hi].
           - pose proof (tid_in_ids ta) as Hi. apply Hrange in Hi. lia.
           - apply Hrange in Hi. lia. }
  split. { simpl. lia. }
  split. { intros k Hk. rewrite labels_N in Hk. simpl in Hk. rewrite app_nil_r in Hk. destruct Hk as [Hk | Hk]; [discriminate | auto]. }
  eexists. split; [exact Gfn | reflexivity].
Qed.

Lemma left_attached : forall E st d op sta na,
  let fn := length (cells st) in
  let st1 := snd (alloc st (new_cell (Fun op) None)) in
  grown E st1 d na sta ->
  let stf := upd (upd sta fn (w_left (Some na))) na (w_parent (Some fn)) in
  exists ta, tid ta = na /\
    get stf fn = Some (w_left (Some na) (new_cell (Fun op) None)) /\
    Rep (g_arity E) stf (Some fn) true ta /\ NoDup (ids ta) /\
    (forall i, In i (ids ta) -> S fn <= i < length (cells stf)) /\ height ta <= S d /\
    (forall k, In (Term k) (labels ta) -> k < g_nt E) /\
    narr stf = narr st /\ S fn <= length (cells stf) /\
    (forall i, i < fn -> get stf i = get st i).
Proof.
  intros E st d op sta na fn st1 (Hext & Hnarr & ta & Hta & HRa & HNa & Hrange & Hh & Hlab & (ca & Gca & Fca)) stf.
  subst na.
  assert (Hlen1 : length (cells st1) = S fn) by (unfold st1; apply length_alloc).
  assert (Hfn_a : get sta fn = Some (new_cell (Fun op) None)).
  { destruct Hext as (_ & _ & He). rewrite He by lia. unfold st1. apply get_alloc_new. }
  assert (Hnotin : ~ In fn (ids ta)) by (intro Hi; apply Hrange in Hi; lia).
  assert (Hne : fn <> tid ta) by (intro He; apply Hnotin; rewrite He; apply tid_in_ids).
  assert (Glen : length (cells stf) = length (cells sta)) by (unfold stf; rewrite !length_upd; reflexivity).
  assert (Gfn : get stf fn = Some (w_left (Some (tid ta)) (new_cell (Fun op) None))).
  { unfold stf. rewrite get_upd_neq by auto. apply get_upd_eq. auto. }
  assert (Gta : get stf (tid ta) = Some (w_parent (Some fn) ca)).
  { unfold stf. apply get_upd_eq. rewrite get_upd_neq by auto. auto. }
  assert (Gother : forall j, j <> fn -> j <> tid ta -> get stf j = get sta j).
  { intros. unfold stf. rewrite !get_upd_neq by auto. reflexivity. }
  assert (Hroot_range : S fn <= tid ta < length (cells sta)).
  { pose proof (tid_in_ids ta) as Hi. apply Hrange in Hi. lia. }
  exists ta. split; [reflexivity|]. split; [exact Gfn|]. split.
  { eapply attach_child with (st := sta); eauto.
    - intros c Hc. rewrite Gta. rewrite Gca in Hc. inversion Hc; subst. f_equal. apply w_parent_flag_true. auto.
    - intros j Hj Hjn. apply Gother; auto. intro; subst; auto. }
  split; [auto|]. split. { intros i Hi. apply Hrange in Hi. lia. }
  split; [auto|]. split; [auto|].
  split. { unfold stf. rewrite !narr_upd. rewrite Hnarr. reflexivity. }
  split. { lia. }
  intros i Hi. rewrite Gother by lia. destruct Hext as (_ & _ & C). rewrite C by lia. unfold st1. apply get_alloc_old. auto.
Qed.

Lemma grown_fun2 : forall E st d op sta na stb nb,
  nth_error (g_arity E) op = Some 2 ->
  let fn := length (cells st) in
  let st1 := snd (alloc st (new_cell (Fun op) None)) in
  grown E st1 d na sta ->
  let stm := upd (upd sta fn (w_left (Some na))) na (w_parent (Some fn)) in
  grown E stm d nb stb ->
  grown E st (S d) fn (upd (upd (upd stb fn (w_right (Some nb))) nb (w_flag false)) nb (w_parent (Some fn))).
Proof.
  intros E st d op sta na stb nb Har fn st1 Ha stm Hb.
  destruct (left_attached E st d op sta na Ha) as (ta & Hta & Gfn & HRa & HNa & Hra & Hha & Hla & Hnm & Hlm & Holdm).
  fold fn in Gfn, HRa, Hra, Hnm, Hlm, Holdm. fold stm in Gfn, HRa, Hra, Hnm, Hlm, Holdm.
  destruct Hb as (Hext & Hnarr & tb & Htb & HRb & HNb & Hrb & Hhb & Hlb & (cb & Gcb & Fcb)).
  subst na nb.
  set (stf := upd (upd (upd stb fn (w_right (Some (tid tb)))) (tid tb) (w_flag false)) (tid tb) (w_parent (Some fn))).
  assert (Hb_range : length (cells stm) <= tid tb < length (cells stb)).
  { pose proof (tid_in_ids tb) as Hi. apply Hrb in Hi. lia. }
  assert (Hne : fn <> tid tb) by lia.
  assert (Glen : length (cells stf) = length (cells stb)) by (unfold stf; rewrite !length_upd; reflexivity).
  assert (Gfn_b : get stb fn = Some (w_left (Some (tid ta)) (new_cell (Fun op) None))).
  { destruct Hext as (_ & _ & C). rewrite C by lia. auto. }
  assert (Gfn_f : get stf fn = Some (w_right (Some (tid tb)) (w_left (Some (tid ta)) (new_cell (Fun op) None)))).
  { unfold stf. rewrite !get_upd_neq by auto. apply get_upd_eq. auto. }
  assert (Gtb : get stf (tid tb) = Some (w_parent (Some fn) (w_flag false cb))).
  { unfold stf. apply get_upd_eq. apply get_upd_eq. rewrite get_upd_neq by auto. auto. }
  assert (Gother : forall j, j <> fn -> j <> tid tb -> get stf j = get stb j).
  { intros. unfold stf. rewrite !get_upd_neq by auto. reflexivity. }
  assert (Hnotin_b : ~ In fn (ids tb)) by (intro Hi; apply Hrb in Hi; lia).
  split.
  { destruct Hext as (A & B & C). unfold heap_ext. rewrite Glen.
    split. { unfold stf. rewrite !narr_upd. lia. }
    split. { lia. }
    intros i Hi. rewrite Gother by lia. rewrite C by lia. apply Holdm. auto. }
  split. { unfold stf. rewrite !narr_upd. lia. }
  exists (N fn (Fun op) (Some ta) (Some tb)). split; [reflexivity|]. split.
  { cbn [Rep]. eexists. split; [exact Gfn_f|]. simpl. repeat split; auto; try congruence.
    - right. repeat split; auto; congruence.
    - eapply Rep_frame with (st := stb).
      + eapply Rep_ext; eauto.
      + intros i Hi. apply Hra in Hi. apply Gother; lia.
      + unfold stf. rewrite !narr_upd. lia.
    - eapply attach_child with (st := stb); eauto.
      + intros c Hc. rewrite Gtb. rewrite Gcb in Hc. inversion Hc; subst. reflexivity.
      + intros j Hj Hjn. apply Gother; auto. intro; subst; auto. }
  split.
  { rewrite ids_N. simpl. constructor.
    - intro Hi. apply in_app_or in Hi. destruct Hi as [Hi | Hi]; [apply Hra in Hi | apply Hrb in Hi]; lia.
    - apply NoDup_app_iff. repeat split; auto. intros x Hx Hy. apply Hra in Hx. apply Hrb in Hy. lia. }
  split.
  { intros i Hi. rewrite ids_N in Hi. simpl in Hi. rewrite Glen. destruct Hi as [<- | Hi]; [lia|].
    apply in_app_or in Hi. destruct Hi as [Hi | Hi]; [apply Hra in Hi | apply Hrb in Hi]; destruct Hext as (_ & B & _); lia. }
  split. { simpl. lia. }
  split.
  { intros k Hk. rewrite labels_N in Hk. simpl in Hk. destruct Hk as [Hk | Hk]; [discriminate|].
    apply in_app_or in Hk. destruct Hk; auto. }
  eexists. split; [exact Gfn_f | reflexivity].
Qed.

(* ------------------------------------------------------------------ the theorem *)
Theorem grow_grown : forall E, arity_ok E -> forall d ds st r st' ds',
  g_nt E <= narr st -> grow E d ds st = Ok (r, st', ds') -> grown E st d r st'.
Proof.
  intros E HA. induction d; intros ds st r st' ds' Hnt Hg.
  - destruct ds as [|u ds1]; cbn [grow] in Hg; [discriminate|].
    destruct (scale 0 (g_nt E) u <? g_nt E) eqn:Ek; [|discriminate].
    apply Nat.ltb_lt in Ek. cbn [alloc] in Hg. inversion Hg; subst. apply grown_terminal; auto.
  - destruct ds as [|u ds1]; cbn [grow] in Hg; [discriminate|].
    destruct (length (g_funs E) <=? scale 0 (length (g_funs E) + g_nt E) u) eqn:Ev.
    + destruct (scale 0 (length (g_funs E) + g_nt E) u - length (g_funs E) <? g_nt E) eqn:Ek; [|discriminate].
      apply Nat.ltb_lt in Ek. cbn [alloc] in Hg. inversion Hg; subst.
      apply grown_terminal; auto.
    + destruct (nth_error (g_funs E) (scale 0 (length (g_funs E) + g_nt E) u)) as [op|] eqn:Eop; [|discriminate].
      destruct (nth_error (g_arity E) op) as [ar|] eqn:Ear; [|discriminate].
      apply nth_error_In in Eop. destruct (HA op Eop) as [H1 | H2].
      * rewrite H1 in Ear. inversion Ear; subst ar. cbn [alloc grow_args] in Hg.
        destruct (grow E d ds1 _) as [[[na sta] dsa]| |] eqn:Ga; try discriminate.
        inversion Hg; subst. apply IHd in Ga; [|simpl; auto].
        eapply grown_fun1; eauto.
      * rewrite H2 in Ear. inversion Ear; subst ar. cbn [alloc grow_args] in Hg.
        destruct (grow E d ds1 _) as [[[na sta] dsa]| |] eqn:Ga; try discriminate.
        destruct (grow E d dsa _) as [[[nb stb] dsb]| |] eqn:Gb; try discriminate.
        inversion Hg; subst. apply IHd in Ga; [|simpl; auto].
        pose proof (left_attached E st d op sta na Ga) as (ta & _ & _ & _ & _ & _ & _ & _ & Hnm & _).
        apply IHd in Gb; [|rewrite Hnm; auto].
        eapply grown_fun2; eauto.
Qed.

(* ------------------------------------------------------------------ progress: under the uniform contract
   (every draw is a fraction n/d with n < d) and with enough draws, grow returns a tree *)
Definition frac_ok (u : frac) : Prop := fst u < snd u.
Fixpoint needs (d : nat) : nat := match d with 0 => 1 | S d' => S (2 * needs d') end.

Lemma scale_lt : forall h u, 0 < h -> frac_ok u -> scale 0 h u < h.
Proof.
  unfold scale, frac_ok. intros h [n d] Hh Hu. simpl in *. rewrite Nat.sub_0_r.
  apply Nat.div_lt_upper_bound; nia.
Qed.

Theorem grow_total : forall E, arity_ok E -> 0 < g_nt E -> forall d ds st,
  Forall frac_ok ds -> needs d <= length ds ->
  exists r st' ds' pre, grow E d ds st = Ok (r, st', ds') /\ ds = pre ++ ds' /\ length pre <= needs d.
Proof.
  intros E HA Hnt. induction d; intros ds st Hok Hlen.
  - destruct ds as [|u ds1]; simpl in Hlen; [lia|]. inversion Hok; subst. cbn [grow].
    pose proof (scale_lt (g_nt E) u Hnt H1) as Hk. apply Nat.ltb_lt in Hk. rewrite Hk. cbn [alloc].
    do 3 eexists. exists [u]. split; [reflexivity|]. split; [reflexivity|simpl; lia].
  - destruct ds as [|u ds1]; cbn [needs] in Hlen; simpl in Hlen; [lia|]. inversion Hok; subst. cbn [grow].
    assert (Hv : scale 0 (length (g_funs E) + g_nt E) u < length (g_funs E) + g_nt E) by (apply scale_lt; auto; lia).
    destruct (length (g_funs E) <=? scale 0 (length (g_funs E) + g_nt E) u) eqn:Ev.
    + apply Nat.leb_le in Ev.
      assert (Hk : scale 0 (length (g_funs E) + g_nt E) u - length (g_funs E) < g_nt E) by lia.
      apply Nat.ltb_lt in Hk. rewrite Hk. cbn [alloc].
      do 3 eexists. exists [u]. split; [reflexivity|]. split; [reflexivity|simpl; lia].
    + apply Nat.leb_gt in Ev.
      destruct (nth_error (g_funs E) (scale 0 (length (g_funs E) + g_nt E) u)) as [op|] eqn:Eop;
        [|apply nth_error_None in Eop; lia].
      pose proof (nth_error_In _ _ Eop) as Hin.
      destruct (IHd ds1 (snd (alloc st (new_cell (Fun op) None))) H2 ltac:(lia)) as (ra & sta & dsa & prea & Ga & Ea & La).
      assert (Hoka : Forall frac_ok dsa) by (rewrite Ea in H2; apply Forall_app in H2; tauto).
      assert (Hlena : needs d <= length dsa).
      { assert (length ds1 = length prea + length dsa) by (rewrite Ea, app_length; reflexivity). lia. }
      destruct (HA op Hin) as [H1' | H2'].
      * rewrite H1'. cbn [alloc grow_args]. cbn [alloc snd] in Ga. rewrite Ga.
        do 3 eexists. exists (u :: prea). split; [reflexivity|]. split; [rewrite Ea; reflexivity|simpl; lia].
      * rewrite H2'. cbn [alloc grow_args]. cbn [alloc snd] in Ga. rewrite Ga.
        match goal with |- context [grow E d dsa ?s] =>
          destruct (IHd dsa s Hoka Hlena) as (rb & stb & dsb & preb & Gb & Eb & Lb) end.
        rewrite Gb.
        do 3 eexists. exists (u :: prea ++ preb). split; [reflexivity|].
        split; [rewrite Ea, Eb; simpl; rewrite <- app_assoc; reflexivity|simpl; rewrite app_length; lia].
Qed.
