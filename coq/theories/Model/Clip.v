(* np.clip on float keys, and the row loops of Agent/SearchSpace/HyperSpace.check_limits.
   NumPy: clip(x, lo, hi) = minimum(maximum(x, lo), hi); NaN in any argument gives NaN;
   on numeric ties the *value already there* is kept (so -0.0 stays -0.0 inside [0,1]). *)
From Coq Require Import ZArith List Bool Lia ZifyBool.
From OV Require Import Base.FloatKey.
Import ListNotations.
Open Scope Z_scope.

Definition clipk (lo hi x : okey) : okey :=
  match lo, hi, x with
  | Some l, Some h, Some v =>
      let t := if klt v l then l else v in
      Some (if klt h t then h else t)
  | _, _, _ => None
  end.

Definition clip_row (lo hi : okey) (row : list okey) : list okey := map (clipk lo hi) row.

(* zip(lb, ub) against the rows of the position: stops at the shortest of the three *)
Fixpoint clip_rows (lbs ubs : list okey) (c : contents) : contents :=
  match lbs, ubs, c with
  | l :: lbs', u :: ubs', r :: c' => clip_row l u r :: clip_rows lbs' ubs' c'
  | _, _, _ => c
  end.

Definition in_box (l h : Z) (x : okey) : bool :=
  match x with Some v => kle l v && kle v h | None => false end.

Fixpoint feasible (lbs ubs : list Z) (c : contents) : bool :=
  match lbs, ubs, c with
  | l :: lbs', u :: ubs', r :: c' => forallb (in_box l u) r && feasible lbs' ubs' c'
  | [], [], [] => true
  | _, _, _ => false
  end.

Definition no_nan (c : contents) : bool := forallb (forallb (fun x : okey => match x with Some _ => true | None => false end)) c.

(* ---------------------------------------------------------------- scalar laws *)

Lemma clipk_in_box l h v : kle l h = true ->
  exists r, clipk (Some l) (Some h) (Some v) = Some r /\ kle l r = true /\ kle r h = true.
Proof.
  intros H. unfold clipk, klt, kle in *.
  destruct (nk v <? nk l) eqn:E1.
  - destruct (nk h <? nk l) eqn:E2; eexists; split; try reflexivity; lia.
  - destruct (nk h <? nk v) eqn:E2; eexists; split; try reflexivity; lia.
Qed.

Lemma clipk_below l h v : kle l h = true -> klt v l = true -> clipk (Some l) (Some h) (Some v) = Some l.
Proof.
  intros H1 H2. unfold clipk. rewrite H2.
  replace (klt h l) with false; [reflexivity|]. unfold klt, kle in *. lia.
Qed.

Lemma clipk_above l h v : kle l h = true -> klt h v = true -> clipk (Some l) (Some h) (Some v) = Some h.
Proof.
  intros H1 H2. unfold clipk.
  replace (klt v l) with false by (unfold klt, kle in *; lia).
  rewrite H2. reflexivity.
Qed.

(* in-range values come back bit-identical: the result *is* the key v, not merely a numerically equal one *)
Lemma clipk_fix l h v : kle l v = true -> kle v h = true -> clipk (Some l) (Some h) (Some v) = Some v.
Proof.
  intros H1 H2. unfold clipk.
  replace (klt v l) with false by (unfold klt, kle in *; lia).
  replace (klt h v) with false by (unfold klt, kle in *; lia).
  reflexivity.
Qed.

Lemma clipk_fix_iff l h v : kle l h = true ->
  (clipk (Some l) (Some h) (Some v) = Some v <-> in_box l h (Some v) = true \/ v = l \/ v = h).
Proof.
  intros H. unfold clipk, in_box, klt, kle in *. split.
  - destruct (nk v <? nk l) eqn:E1.
    + destruct (nk h <? nk l) eqn:E2; intros Hq; try (injection Hq as Hq); lia.
    + destruct (nk h <? nk v) eqn:E2; intros Hq; try (injection Hq as Hq); lia.
  - intros [Hb | [-> | ->]].
    + replace (nk v <? nk l) with false by lia. replace (nk h <? nk v) with false by lia. reflexivity.
    + replace (nk l <? nk l) with false by lia. replace (nk h <? nk l) with false by lia. reflexivity.
    + replace (nk h <? nk l) with false by lia. replace (nk h <? nk h) with false by lia. reflexivity.
Qed.

Lemma clipk_idem lo hi x : clipk lo hi (clipk lo hi x) = clipk lo hi x.
Proof.
  destruct lo as [l|], hi as [h|], x as [v|]; try reflexivity.
  unfold clipk, klt.
  destruct (nk v <? nk l) eqn:E1.
  - destruct (nk h <? nk l) eqn:E2.
    + replace (nk h <? nk l) with true by lia.
      destruct (nk h <? nk l) eqn:E3; try lia.
      replace (nk h <? nk h) with false by lia.
      destruct (nk h <? nk l); reflexivity.
    + replace (nk l <? nk l) with false by lia. rewrite E2. reflexivity.
  - destruct (nk h <? nk v) eqn:E2.
    + destruct (nk h <? nk l) eqn:E3.
      * rewrite E3. reflexivity.
      * replace (nk h <? nk h) with false by lia. reflexivity.
    + rewrite E1, E2. reflexivity.
Qed.

Lemma clipk_nan_x lo hi : clipk lo hi None = None.
Proof. destruct lo, hi; reflexivity. Qed.

Lemma clipk_some l h v : exists r, clipk (Some l) (Some h) (Some v) = Some r.
Proof. unfold clipk. eexists; reflexivity. Qed.

(* +-inf are ordinary keys: with finite bounds they are moved to the nearest bound *)
Lemma clipk_pinf l h : kle l h = true -> klt h KINF = true -> clipk (Some l) (Some h) (Some KINF) = Some h.
Proof. intros; apply clipk_above; assumption. Qed.

Lemma clipk_ninf l h : kle l h = true -> klt (- KINF - 1) l = true -> clipk (Some l) (Some h) (Some (- KINF - 1)) = Some l.
Proof. intros; apply clipk_below; assumption. Qed.

(* per-variable: the result at one coordinate depends on that coordinate and its own bounds only *)
Lemma clip_row_nth lo hi row i d : (i < length row)%nat ->
  nth i (clip_row lo hi row) d = clipk lo hi (nth i row d).
Proof.
  intros H. unfold clip_row.
  rewrite (nth_indep _ d (clipk lo hi d)) by (rewrite map_length; exact H).
  apply map_nth.
Qed.

(* ---------------------------------------------------------------- rows *)
Arguments clipk : simpl never.

Lemma clip_rows_length lbs ubs c : length (clip_rows lbs ubs c) = length c.
Proof.
  revert ubs c. induction lbs as [|l lbs IH]; intros [|u ubs] [|r c]; simpl; try reflexivity.
  f_equal. apply IH.
Qed.

Lemma clip_row_length lo hi r : length (clip_row lo hi r) = length r.
Proof. apply map_length. Qed.

Lemma clip_rows_shape lbs ubs c : map (@length okey) (clip_rows lbs ubs c) = map (@length okey) c.
Proof.
  revert ubs c. induction lbs as [|l lbs IH]; intros [|u ubs] [|r c]; simpl; try reflexivity.
  rewrite clip_row_length. f_equal. apply IH.
Qed.

Lemma clip_rows_nth lbs ubs c j :
  (j < length lbs)%nat -> (j < length ubs)%nat -> (j < length c)%nat ->
  nth j (clip_rows lbs ubs c) [] = clip_row (nth j lbs None) (nth j ubs None) (nth j c []).
Proof.
  revert ubs c j. induction lbs as [|l lbs IH]; intros [|u ubs] [|r c] j H1 H2 H3; simpl in *; try lia.
  destruct j as [|j]; [reflexivity|]. apply IH; lia.
Qed.

Lemma clip_rows_nth_out lbs ubs c j :
  (length lbs <= j)%nat \/ (length ubs <= j)%nat ->
  nth j (clip_rows lbs ubs c) [] = nth j c [].
Proof.
  revert ubs c j. induction lbs as [|l lbs IH]; intros [|u ubs] [|r c] j H; simpl in *; try reflexivity.
  destruct j as [|j]; [lia|]. apply IH. lia.
Qed.

Lemma clip_rows_idem lbs ubs c : clip_rows lbs ubs (clip_rows lbs ubs c) = clip_rows lbs ubs c.
Proof.
  revert ubs c. induction lbs as [|l lbs IH]; intros [|u ubs] [|r c]; simpl; try reflexivity.
  f_equal; [|apply IH].
  unfold clip_row. rewrite map_map. apply map_ext. intros; apply clipk_idem.
Qed.

Lemma clip_row_feasible l h r :
  kle l h = true -> forallb (fun x : okey => match x with Some _ => true | None => false end) r = true ->
  forallb (in_box l h) (clip_row (Some l) (Some h) r) = true.
Proof.
  intros Hb. induction r as [|x r IH]; simpl; [reflexivity|].
  intros H. apply andb_true_iff in H as [Hx Hr].
  destruct x as [v|]; [|discriminate].
  destruct (clipk_in_box l h v Hb) as [q [-> [H1 H2]]].
  simpl. rewrite H1, H2, IH by assumption. reflexivity.
Qed.

Lemma clip_rows_feasible lbs ubs c :
  Forall2 (fun l h => kle l h = true) lbs ubs -> length c = length lbs -> no_nan c = true ->
  feasible lbs ubs (clip_rows (map Some lbs) (map Some ubs) c) = true.
Proof.
  intros HF. revert c. induction HF as [|l h lbs ubs Hlh HF IH]; intros [|r c] Hlen Hn; simpl in *; try lia; try reflexivity.
  apply andb_true_iff in Hn as [Hr Hc].
  rewrite clip_row_feasible by assumption. simpl. apply IH; [lia|assumption].
Qed.

Lemma clip_row_fix l h r : forallb (in_box l h) r = true -> clip_row (Some l) (Some h) r = r.
Proof.
  induction r as [|x r IH]; simpl; [reflexivity|].
  intros H. apply andb_true_iff in H as [Hx Hr].
  destruct x as [v|]; [|discriminate]. simpl in Hx. apply andb_true_iff in Hx as [H1 H2].
  rewrite clipk_fix by assumption. f_equal. apply IH; assumption.
Qed.

(* feasible positions are left bit-identical *)
Lemma clip_rows_fix lbs ubs c : feasible lbs ubs c = true -> clip_rows (map Some lbs) (map Some ubs) c = c.
Proof.
  revert ubs c. induction lbs as [|l lbs IH]; intros [|u ubs] [|r c]; simpl; try reflexivity; try discriminate.
  intros H. apply andb_true_iff in H as [Hr Hc].
  rewrite clip_row_fix by assumption. f_equal. apply IH; assumption.
Qed.

Lemma feasible_no_nan lbs ubs c : feasible lbs ubs c = true -> no_nan c = true.
Proof.
  revert ubs c. induction lbs as [|l lbs IH]; intros [|u ubs] [|r c]; simpl; try reflexivity; try discriminate.
  intros H. apply andb_true_iff in H as [Hr Hc]. rewrite (IH _ _ Hc), andb_true_r.
  clear -Hr. induction r as [|x r IH]; simpl in *; [reflexivity|].
  apply andb_true_iff in Hr as [Hx Hr]. destruct x; [|discriminate]. simpl. apply IH; assumption.
Qed.

Lemma feasible_length lbs ubs c : feasible lbs ubs c = true -> length c = length lbs /\ length ubs = length lbs.
Proof.
  revert ubs c. induction lbs as [|l lbs IH]; intros [|u ubs] [|r c]; simpl; try discriminate; [split; reflexivity|].
  intros H. apply andb_true_iff in H as [_ Hc]. destruct (IH _ _ Hc). split; congruence.
Qed.

(* ---------------------------------------------------------------- the loops as the source writes them *)

(* What T4 extracts from a check_limits body:
     for j, (A, B) in enumerate(zip(<owner>.lb, <owner>.ub)):
         <obj>.position[j] = np.clip(<obj>.position[j], <lo>, <hi>)
   optionally inside  for agent in self.agents:  *)
Inductive bsrc := BLoopLb | BLoopUb | BConst (k : okey).
Inductive owner := OSelf | OAgent.
Record cl_descr := {
  cl_over_agents : bool;      (* wrapped in a loop over all of self.agents *)
  cl_zip_lb : owner * bool;   (* (whose attribute, is it `.lb`) for zip's first argument *)
  cl_zip_ub : owner * bool;   (* (whose attribute, is it `.ub`) for zip's second argument *)
  cl_same_row : bool;         (* the row read and the row written are the same <obj>.position[j], j the enumerate index *)
  cl_lo : bsrc;
  cl_hi : bsrc
}.

Definition bsel (b : bsrc) (l u : okey) : okey :=
  match b with BLoopLb => l | BLoopUb => u | BConst k => k end.

Fixpoint run_cl (d : cl_descr) (lbs ubs : list okey) (c : contents) : contents :=
  match lbs, ubs, c with
  | l :: lbs', u :: ubs', r :: c' =>
      clip_row (bsel (cl_lo d) l u) (bsel (cl_hi d) l u) r :: run_cl d lbs' ubs' c'
  | _, _, _ => c
  end.

Definition K0 : Z := 0.                          (* +0.0 *)
Definition K1 : Z := 4607182418800017408.        (* 1.0 = 0x3ff0000000000000 *)

Definition descr_std (d : cl_descr) : bool :=
  cl_same_row d && snd (cl_zip_lb d) && negb (snd (cl_zip_ub d)) &&
  match cl_lo d, cl_hi d with BLoopLb, BLoopUb => true | _, _ => false end.

Definition descr_unit (d : cl_descr) : bool :=
  cl_same_row d &&
  match cl_lo d, cl_hi d with
  | BConst (Some a), BConst (Some b) => (a =? K0) && (b =? K1)
  | _, _ => false end.

Lemma run_cl_std d lbs ubs c : descr_std d = true -> run_cl d lbs ubs c = clip_rows lbs ubs c.
Proof.
  unfold descr_std. intros H.
  destruct (cl_lo d) eqn:El; destruct (cl_hi d) eqn:Eh;
    try (rewrite andb_false_r in H; discriminate).
  clear H. revert ubs c. induction lbs as [|l lbs IH]; intros [|u ubs] [|r c]; simpl; try reflexivity.
  rewrite El, Eh. simpl. f_equal. apply IH.
Qed.

Lemma run_cl_unit d lbs ubs c : descr_unit d = true ->
  run_cl d lbs ubs c = clip_rows (map (fun _ => Some K0) lbs) (map (fun _ => Some K1) ubs) c.
Proof.
  unfold descr_unit. intros H.
  destruct (cl_lo d) as [| |[a|]] eqn:El; destruct (cl_hi d) as [| |[b|]] eqn:Eh;
    try (rewrite andb_false_r in H; discriminate).
  apply andb_true_iff in H as [_ H]. apply andb_true_iff in H as [Ha Hb].
  apply Z.eqb_eq in Ha, Hb. subst a b.
  revert ubs c. induction lbs as [|l lbs IH]; intros [|u ubs] [|r c]; simpl; try reflexivity.
  rewrite El, Eh. simpl. f_equal. apply IH.
Qed.

(* Space-level enforcement = agent-level enforcement on every agent, when agents carry the space's bounds *)
Definition space_clip (lbs ubs : list okey) (agents : list contents) : list contents :=
  map (clip_rows lbs ubs) agents.

Lemma space_clip_length lbs ubs ags : length (space_clip lbs ubs ags) = length ags.
Proof. apply map_length. Qed.

Lemma space_clip_idem lbs ubs ags : space_clip lbs ubs (space_clip lbs ubs ags) = space_clip lbs ubs ags.
Proof. unfold space_clip. rewrite map_map. apply map_ext. intros; apply clip_rows_idem. Qed.
