(* Basic facts about the heap model: representation predicate, frame lemmas, pre-order, find_node slots. *)
From Coq Require Import List Arith Bool Lia ZArith.
From OV Require Import Model.TreeDef Model.TreeHeap.
Import ListNotations.

(* ------------------------------------------------------------------ trees: induction, ids *)
Definition oall (P : tree -> Prop) (o : option tree) : Prop := match o with Some a => P a | None => True end.

Fixpoint tree_ind' (P : tree -> Prop)
         (H : forall i lab l r, oall P l -> oall P r -> P (N i lab l r)) (t : tree) : P t :=
  match t with
  | N i lab l r =>
    H i lab l r (match l as o return oall P o with Some a => tree_ind' P H a | None => I end)
                (match r as o return oall P o with Some b => tree_ind' P H b | None => I end)
  end.

Definition oids (o : option tree) : list nat := match o with Some a => ids a | None => [] end.
Definition otid (o : option tree) : option nat := match o with Some a => Some (tid a) | None => None end.

Lemma ids_N : forall i lab l r, ids (N i lab l r) = i :: oids l ++ oids r.
Proof.
  intros. unfold ids. simpl. rewrite map_app. destruct l, r; reflexivity.
Qed.

Lemma tid_in_ids : forall t, In (tid t) (ids t).
Proof. destruct t. rewrite ids_N. simpl. auto. Qed.

Fixpoint height (t : tree) : nat :=
  match t with
  | N _ _ l r => S (Nat.max (match l with Some a => height a | None => 0 end)
                            (match r with Some b => height b | None => 0 end))
  end.

Lemma height_le_size : forall t, height t <= length (ids t).
Proof.
  induction t using tree_ind'. rewrite ids_N. simpl. rewrite app_length.
  destruct l, r; simpl in *; lia.
Qed.

(* ------------------------------------------------------------------ lists *)
Lemma upd_nth_length : forall A (f : A -> A) l i, length (upd_nth i f l) = length l.
Proof. induction l; destruct i; simpl; auto. Qed.

Lemma nth_error_upd_nth_eq : forall A (f : A -> A) l i x,
  nth_error l i = Some x -> nth_error (upd_nth i f l) i = Some (f x).
Proof. induction l; destruct i; simpl; intros; try discriminate; auto. congruence. Qed.

Lemma nth_error_upd_nth_neq : forall A (f : A -> A) l i j,
  i <> j -> nth_error (upd_nth i f l) j = nth_error l j.
Proof. induction l; destruct i, j; simpl; intros; auto; try lia. Qed.

Lemma nth_error_upd_nth_none : forall A (f : A -> A) l i,
  nth_error l i = None -> upd_nth i f l = l.
Proof. induction l; destruct i; simpl; intros; auto; try discriminate. f_equal; auto. Qed.

Lemma mem_In : forall x l, mem x l = true <-> In x l.
Proof.
  unfold mem. intros. rewrite existsb_exists. split.
  - intros [y [Hy He]]. apply Nat.eqb_eq in He. subst. auto.
  - intros. exists x. split; auto. apply Nat.eqb_refl.
Qed.

Lemma mem_false : forall x l, mem x l = false <-> ~ In x l.
Proof. intros. rewrite <- mem_In. destruct (mem x l); split; congruence. Qed.

Lemma dedup_nodup_id : forall l seen, NoDup l -> (forall x, In x l -> ~ In x seen) -> dedup l seen = l.
Proof.
  induction l; simpl; intros seen Hn Hs; auto.
  inversion Hn; subst.
  assert (existsb (Nat.eqb a) seen = false) as ->.
  { apply (mem_false a seen). apply Hs. auto. }
  f_equal. apply IHl; auto. intros x Hx [He | Hi].
  - subst. contradiction.
  - eapply Hs; eauto.
Qed.

Lemma In_dedup : forall l seen x, In x l -> ~ In x seen -> In x (dedup l seen).
Proof.
  induction l; simpl; intros seen x Hx Hs; auto.
  destruct (existsb (Nat.eqb a) seen) eqn:E.
  - destruct Hx as [-> | Hx]. { apply (mem_In x seen) in E. contradiction. } apply IHl; auto.
  - destruct (Nat.eq_dec a x) as [-> | Hne]. { left; auto. }
    destruct Hx as [-> | Hx]; [congruence|]. right. apply IHl; auto. intros [He | Hi]; auto.
Qed.

Lemma dedup_incl : forall l seen x, In x (dedup l seen) -> In x l.
Proof.
  induction l; simpl; intros seen x Hx; auto.
  destruct (existsb (Nat.eqb a) seen); [right; eauto|].
  destruct Hx as [-> | Hx]; [left; auto | right; eauto].
Qed.

Lemma index_of_lt : forall x l, In x l -> index_of x l < length l.
Proof.
  induction l; simpl; intros H; [contradiction|].
  destruct (Nat.eqb x a) eqn:E; [lia|]. destruct H as [-> | H]; [rewrite Nat.eqb_refl in E; discriminate|].
  apply IHl in H. lia.
Qed.

Lemma nth_index_of : forall x l, In x l -> nth_error l (index_of x l) = Some x.
Proof.
  induction l; simpl; intros H; [contradiction|].
  destruct (Nat.eqb x a) eqn:E. { apply Nat.eqb_eq in E. subst. reflexivity. }
  destruct H as [-> | H]; [rewrite Nat.eqb_refl in E; discriminate|]. simpl. auto.
Qed.

Lemma index_of_inj : forall l x y, In x l -> In y l -> index_of x l = index_of y l -> x = y.
Proof.
  intros l x y Hx Hy E. apply nth_index_of in Hx. apply nth_index_of in Hy. rewrite E in Hx. congruence.
Qed.

Lemma NoDup_map_inj_in : forall (f : nat -> nat) l,
  (forall x y, In x l -> In y l -> f x = f y -> x = y) -> NoDup l -> NoDup (map f l).
Proof.
  induction l; simpl; intros Hi Hn; [constructor|]. inversion Hn; subst. constructor.
  - rewrite in_map_iff. intros [y [Hy Hin]]. apply Hi in Hy; auto. subst. contradiction.
  - apply IHl; auto.
Qed.

Lemma NoDup_lt_length : forall l n, NoDup l -> (forall x, In x l -> x < n) -> length l <= n.
Proof.
  intros l n Hn Hl. rewrite <- (seq_length n 0). apply NoDup_incl_length; auto.
  intros x Hx. apply in_seq. apply Hl in Hx. lia.
Qed.

(* ------------------------------------------------------------------ heap primitives *)
Lemma get_lt : forall st i c, get st i = Some c -> i < length (cells st).
Proof. unfold get. intros. apply nth_error_Some. congruence. Qed.

Lemma get_upd_eq : forall st i f c, get st i = Some c -> get (upd st i f) i = Some (f c).
Proof. unfold get, upd. simpl. intros. apply nth_error_upd_nth_eq. auto. Qed.

Lemma get_upd_neq : forall st i j f, i <> j -> get (upd st i f) j = get st j.
Proof. unfold get, upd. simpl. intros. apply nth_error_upd_nth_neq. auto. Qed.

Lemma length_upd : forall st i f, length (cells (upd st i f)) = length (cells st).
Proof. unfold upd. simpl. intros. apply upd_nth_length. Qed.

Lemma narr_upd : forall st i f, narr (upd st i f) = narr st.
Proof. reflexivity. Qed.

Lemma get_alloc_old : forall st c i, i < length (cells st) -> get (snd (alloc st c)) i = get st i.
Proof. unfold get, alloc. simpl. intros. apply nth_error_app1. auto. Qed.

Lemma get_alloc_new : forall st c, get (snd (alloc st c)) (length (cells st)) = Some c.
Proof. unfold get, alloc. simpl. intros. rewrite nth_error_app2, Nat.sub_diag; auto. Qed.

Lemma length_alloc : forall st c, length (cells (snd (alloc st c))) = S (length (cells st)).
Proof. unfold alloc. simpl. intros. rewrite app_length. simpl. lia. Qed.

Lemma get_upd_cases : forall st i j f,
  get (upd st i f) j = if Nat.eqb i j then option_map f (get st j) else get st j.
Proof.
  intros. destruct (Nat.eqb i j) eqn:E.
  - apply Nat.eqb_eq in E. subst. destruct (get st j) eqn:G; simpl.
    + apply get_upd_eq; auto.
    + unfold get, upd in *. simpl. rewrite nth_error_upd_nth_none; auto.
  - apply Nat.eqb_neq in E. apply get_upd_neq; auto.
Qed.

(* st' extends st: everything allocated in st is still there, unchanged *)
Definition heap_ext (st st' : hstate) : Prop :=
  narr st <= narr st' /\ length (cells st) <= length (cells st') /\
  forall i, i < length (cells st) -> get st' i = get st i.

Lemma heap_ext_refl : forall st, heap_ext st st.
Proof. unfold heap_ext. intros. repeat split; auto. Qed.

Lemma heap_ext_trans : forall a b c, heap_ext a b -> heap_ext b c -> heap_ext a c.
Proof.
  unfold heap_ext. intros a b c (H1 & H2 & H3) (H4 & H5 & H6). repeat split; try lia.
  intros. rewrite H6 by lia. auto.
Qed.

Lemma heap_ext_alloc : forall st c, heap_ext st (snd (alloc st c)).
Proof.
  unfold heap_ext. intros. rewrite length_alloc. repeat split; auto.
  intros. apply get_alloc_old. auto.
Qed.

Lemma heap_ext_upd_fresh : forall st0 st j f,
  heap_ext st0 st -> length (cells st0) <= j -> heap_ext st0 (upd st j f).
Proof.
  unfold heap_ext. intros st0 st j f (H1 & H2 & H3) Hj. rewrite length_upd, narr_upd. repeat split; auto.
  intros. rewrite get_upd_neq by lia. auto.
Qed.

(* ------------------------------------------------------------------ representation *)
Section Rep.
Variable tab : list nat.          (* the arity table *)

Definition shape_ok (na : nat) (lab : label) (val : option nat) (l r : option tree) : Prop :=
  match lab with
  | Term _ => l = None /\ r = None /\ exists a, val = Some a /\ a < na
  | Fun op => (nth_error tab op = Some 1 /\ l <> None /\ r = None) \/
              (nth_error tab op = Some 2 /\ l <> None /\ r <> None)
  end.

(* [t] is laid out in [st], hanging under [par] on side [fl] (true = left) *)
Fixpoint Rep (st : hstate) (par : option nat) (fl : bool) (t : tree) {struct t} : Prop :=
  match t with
  | N i lab l r =>
    exists c, get st i = Some c /\ c_lab c = lab /\ c_left c = otid l /\ c_right c = otid r /\
      c_parent c = par /\ (par <> None -> c_flag c = fl) /\ shape_ok (narr st) lab (c_val c) l r /\
      match l with Some a => Rep st (Some i) true a | None => True end /\
      match r with Some b => Rep st (Some i) false b | None => True end
  end.

Definition WFt (st : hstate) (t : tree) : Prop := Rep st None true t /\ NoDup (ids t).
Definition WF (st : hstate) (r : nat) : Prop := exists t, tid t = r /\ WFt st t.

Lemma shape_ok_mono : forall na na' lab v l r, na <= na' -> shape_ok na lab v l r -> shape_ok na' lab v l r.
Proof.
  unfold shape_ok. intros. destruct lab; auto. destruct H0 as (? & ? & a & ? & ?). repeat split; auto.
  exists a. split; auto. lia.
Qed.

Lemma Rep_ids_lt : forall st t par fl, Rep st par fl t -> forall i, In i (ids t) -> i < length (cells st).
Proof.
  intros st t. induction t using tree_ind'. intros par fl (c & Hg & _ & _ & _ & _ & _ & _ & Hl & Hr) j Hj.
  rewrite ids_N in Hj. simpl in Hj. destruct Hj as [<- | Hj]. { eapply get_lt; eauto. }
  apply in_app_or in Hj. destruct Hj as [Hj | Hj].
  - destruct l; simpl in *; [eauto | contradiction].
  - destruct r; simpl in *; [eauto | contradiction].
Qed.

Lemma Rep_frame : forall st st' t par fl,
  Rep st par fl t -> (forall i, In i (ids t) -> get st' i = get st i) -> narr st <= narr st' -> Rep st' par fl t.
Proof.
  intros st st' t. induction t using tree_ind'. intros par fl (c & Hg & H1 & H2 & H3 & H4 & H5 & H6 & Hl & Hr) Hf Hn.
  rewrite ids_N in Hf. simpl. exists c. repeat split; auto.
  - rewrite Hf; simpl; auto.
  - eapply shape_ok_mono; eauto.
  - destruct l; auto. simpl in H. apply H; auto. intros. apply Hf. simpl. right. apply in_or_app. left. auto.
  - destruct r; auto. simpl in H0. apply H0; auto. intros. apply Hf. simpl. right. apply in_or_app. right. auto.
Qed.

Lemma Rep_ext : forall st st' t par fl, heap_ext st st' -> Rep st par fl t -> Rep st' par fl t.
Proof.
  intros st st' t par fl (H1 & H2 & H3) HR. eapply Rep_frame; eauto.
  intros. apply H3. eapply Rep_ids_lt; eauto.
Qed.

(* re-rooting: only the root cell's parent / flag differ *)
Lemma Rep_reroot : forall st st' i lab l r par fl par' fl' c,
  Rep st par fl (N i lab l r) -> get st i = Some c ->
  get st' i = Some (w_parent par' (w_flag fl' c)) ->
  (forall j, In j (oids l ++ oids r) -> get st' j = get st j) -> narr st <= narr st' ->
  Rep st' par' fl' (N i lab l r).
Proof.
  intros st st' i lab l r par fl par' fl' c (c0 & Hg & H1 & H2 & H3 & H4 & H5 & H6 & Hl & Hr) Hc Hc' Hf Hn.
  rewrite Hg in Hc. inversion Hc; subst c0. simpl.
  exists (w_parent par' (w_flag fl' c)). simpl. repeat split; auto.
  - eapply shape_ok_mono; eauto.
  - destruct l; auto. eapply Rep_frame; eauto. intros. apply Hf. apply in_or_app. left. auto.
  - destruct r; auto. eapply Rep_frame; eauto. intros. apply Hf. apply in_or_app. right. auto.
Qed.

(* ------------------------------------------------------------------ pre-order *)
Lemma pre_h_rep : forall st t par fl fuel,
  Rep st par fl t -> height t <= fuel -> pre_h fuel st (tid t) = Ok (ids t).
Proof.
  intros st t. induction t using tree_ind'. intros par fl fuel (c & Hg & H1 & H2 & H3 & H4 & H5 & H6 & Hl & Hr) Hh.
  simpl in Hh. destruct fuel; [lia|]. simpl. rewrite Hg, H2, H3. rewrite ids_N.
  destruct l as [a|]; simpl.
  - simpl in H. rewrite (H (Some i) true fuel Hl) by (simpl in Hh; lia).
    destruct r as [b|]; simpl.
    + simpl in H0. rewrite (H0 (Some i) false fuel Hr) by (simpl in Hh; lia). reflexivity.
    + rewrite app_nil_r. reflexivity.
  - destruct r as [b|]; simpl.
    + simpl in H0. rewrite (H0 (Some i) false fuel Hr) by (simpl in Hh; lia). reflexivity.
    + reflexivity.
Qed.

Lemma WFt_size : forall st t, WFt st t -> length (ids t) <= length (cells st).
Proof.
  intros st t [HR Hn]. apply NoDup_lt_length; auto. intros. eapply Rep_ids_lt; eauto.
Qed.

Lemma pre_order_WFt : forall st t, WFt st t -> pre_order st (tid t) = Ok (ids t).
Proof.
  intros st t H. unfold pre_order. destruct H as [HR Hn]. eapply pre_h_rep; eauto.
  pose proof (height_le_size t). pose proof (WFt_size st t (conj HR Hn)). lia.
Qed.

End Rep.
