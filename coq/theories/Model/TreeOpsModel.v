(* The model's own descriptions of the pointer effects of GP._cross, GP._mutate and of the linking
   statements of TreeSpace.grow, and the PROOFS that interpreting them (Model/TreeOpsDescr.v) on an arbitrary
   heap, with arbitrary scripts, is exactly the model function of Model/TreeHeap.v. *)
From Coq Require Import List Arith Bool ZArith.
From OV Require Import Model.TreeDef Model.TreeHeap Model.TreeOpsDescr.
Import ListNotations.

(* GP._cross(self, father, mother, max_father, max_mother):
   0 father  1 mother  2 max_father  3 max_mother  4 father_offspring  5 father_point  6 sub_father
   7 flag_father  8 mother_offspring  9 mother_point  10 sub_mother  11 flag_mother  12 branch *)
(* canonical form of the translator: two consecutive `if flag_father` statements of the source (the links, then the
   re-parenting) are ONE if whose branches are the concatenations -- the flag is a local that no heap write changes *)
Definition cross_descr : list stmt :=
  [ SCopy 4 0; SDraw 5 2 2; SFind 6 7 4 5;
    SCopy 8 1; SDraw 9 2 3; SFind 10 11 8 9;
    SIf (CAnd (CVar 6) (CVar 10))
      [ SIf (CVar 7)
          [ SAssign 12 (6, [FLeft]);
            SIf (CVar 11)
              [ SSet (6, []) FLeft (RPath (10, [FLeft])); SSet (10, [FLeft]) FFlag (RBool true) ]
              [ SSet (6, []) FLeft (RPath (10, [FRight])); SSet (10, [FRight]) FFlag (RBool true) ];
            SSet (6, [FLeft]) FParent (RPath (6, [])) ]
          [ SAssign 12 (6, [FRight]);
            SIf (CVar 11)
              [ SSet (6, []) FRight (RPath (10, [FLeft])); SSet (10, [FLeft]) FFlag (RBool false) ]
              [ SSet (6, []) FRight (RPath (10, [FRight])); SSet (10, [FRight]) FFlag (RBool false) ];
            SSet (6, [FRight]) FParent (RPath (6, [])) ];
        SIf (CVar 11)
          [ SSet (10, []) FLeft (RPath (12, [])); SSet (12, []) FFlag (RBool true) ]
          [ SSet (10, []) FRight (RPath (12, [])); SSet (12, []) FFlag (RBool false) ];
        SSet (12, []) FParent (RPath (10, [])) ]
      [];
    SReturn [4; 8] ].

(* GP._mutate(self, space, tree, max_nodes):
   0 tree  1 max_nodes  2 mutated_tree  3 mutation_point  4 sub_tree  5 flag  6 branch *)
Definition mutate_descr : list stmt :=
  [ SCopy 2 0; SDraw 3 2 1; SFind 4 5 2 3;
    SIf (CVar 4)
      [ SGrow 6;
        SIf (CVar 5)
          [ SSet (4, []) FLeft (RPath (6, [])); SSet (6, []) FFlag (RBool true) ]
          [ SSet (4, []) FRight (RPath (6, [])); SSet (6, []) FFlag (RBool false) ];
        SSet (6, []) FParent (RPath (4, [])) ]
      [ SGrow 2 ];
    SReturn [2] ].

(* the body of `for i in range(arity)` in TreeSpace.grow after `node = self.grow(min_depth+1, max_depth)`:
   0 i  1 node  2 function_node *)
Definition grow_link_descr : list stmt :=
  [ SIf (CNot (CVar 0))
      [ SSet (2, []) FLeft (RPath (1, [])) ]
      [ SSet (2, []) FRight (RPath (1, [])); SSet (1, []) FFlag (RBool false) ];
    SSet (1, []) FParent (RPath (2, [])) ].

(* ------------------------------------------------------------------ reading results back *)
Definition ret_cross (r : step_res) : res (nat * nat * hstate * list frac) :=
  match r with
  | Ok (c, Some [VPtr (Some fo); VPtr (Some mo)]) => Ok (fo, mo, c_st c, c_ds c)
  | Ok _ => Stuck
  | Exn => Exn
  | Stuck => Stuck
  end.

Definition ret_mutate (r : step_res) : res (nat * hstate * list frac) :=
  match r with
  | Ok (c, Some [VPtr (Some m)]) => Ok (m, c_st c, c_ds c)
  | Ok _ => Stuck
  | Exn => Exn
  | Stuck => Stuck
  end.

Theorem cross_is_descr : forall E st father mother maxf maxm ds,
  ret_cross (run E cross_descr
               (mkCfg (init_env [VPtr (Some father); VPtr (Some mother); VNat maxf; VNat maxm] 13) st ds))
  = cross st father mother maxf maxm ds.
Proof.
  intros E st father mother maxf maxm ds. unfold cross, cross_descr. cbn [run exec init_env].
  simpl.
  destruct (deepcopy st father) as [[fo st1]| |]; simpl; auto.
  destruct ds as [|uf ds1]; simpl; auto.
  destruct (find_node st1 fo (scale 2 maxf uf)) as [[sub_f ff]| |]; simpl; auto.
  destruct (deepcopy st1 mother) as [[mo st2]| |]; simpl; auto.
  destruct ds1 as [|um ds2]; simpl; auto.
  destruct (find_node st2 mo (scale 2 maxm um)) as [[sub_m fm]| |]; simpl; auto.
  destruct sub_f as [sf|]; simpl; auto.
  destruct sub_m as [sm|]; simpl; auto.
  destruct ff, fm; unfold cross_links, set_flag_of, set_parent_of, bind; simpl;
    repeat (match goal with
            | |- context [match rd ?s ?i ?f with _ => _ end] => destruct (rd s i f) eqn:?; simpl
            end); reflexivity.
Qed.

Theorem mutate_is_descr : forall E st tree maxn ds,
  ret_mutate (run E mutate_descr (mkCfg (init_env [VPtr (Some tree); VNat maxn] 7) st ds))
  = mutate E st tree maxn ds.
Proof.
  intros E st tree maxn ds. unfold mutate, mutate_descr. cbn [run exec init_env]. simpl.
  destruct (deepcopy st tree) as [[m st1]| |]; simpl; auto.
  destruct ds as [|u ds1]; simpl; auto.
  destruct (find_node st1 m (scale 2 maxn u)) as [[[s|] flag]| |]; simpl; auto.
  - destruct (grow E (g_d0 E) ds1 st1) as [[[b st2] ds2]| |]; simpl; auto.
    destruct flag; reflexivity.
  - destruct (grow E (g_d0 E) ds1 st1) as [[[b st2] ds2]| |]; simpl; auto.
Qed.

(* the linking statements of grow: one iteration of the loop of [grow_args] is the recursive call followed
   by the interpretation of [grow_link_descr] *)
Theorem grow_args_is_descr : forall E (g : list frac -> hstate -> res (nat * hstate * list frac)) fn n i ds st,
  grow_args g fn (S n) i ds st =
  match g ds st with
  | Ok (node, st1, ds1) =>
    match run E grow_link_descr (mkCfg [VNat i; VPtr (Some node); VPtr (Some fn)] st1 ds1) with
    | Ok (c, _) => grow_args g fn n (S i) ds1 (c_st c)
    | Exn => Exn
    | Stuck => Stuck
    end
  | Exn => Exn
  | Stuck => Stuck
  end.
Proof.
  intros E g fn n i ds st. cbn [grow_args]. destruct (g ds st) as [[[node st1] ds1]| |]; auto.
  destruct i; reflexivity.
Qed.

