(* The model's description of the selection / creation part of TreeSpace.grow and the PROOF that its
   interpretation (Model/TreeGrowDescr.v), with the linking statements of Model/TreeOpsModel.v, is [grow]. *)
From Coq Require Import List Arith Bool ZArith.
From OV Require Import Model.TreeDef Model.TreeHeap Model.TreeOpsDescr Model.TreeOpsModel Model.TreeGrowDescr.
Import ListNotations.

(* TreeSpace.grow(self, min_depth, max_depth):  0 terminal_id (first branch)  1 node_id  2 function_node *)
Definition grow_descr : list gstmt :=
  [ GInit;
    GIfEqDepth
      [ GDraw 0 0 GNT; GRetTerminal (GVar 0) ]
      [ GDraw 1 0 (GAdd GNF GNT);
        GIfGe (GVar 1) GNF
          [ GRetTerminal (GSub (GVar 1) GNF) ]
          [ GNewFun 2 (GVar 1); GLoop 2 (GVar 1) grow_link_descr; GRetVar 2 ] ] ].

Lemma loop_args_is_grow_args : forall E (g : list frac -> hstate -> res grow_result) fn n i ds st,
  loop_args E g grow_link_descr fn n i ds st = grow_args g fn n i ds st.
Proof.
  intros E g fn. induction n; intros i ds st; [reflexivity|].
  rewrite (grow_args_is_descr E). cbn [loop_args].
  destruct (g ds st) as [[[node st1] ds1]| |]; auto.
  destruct (run E grow_link_descr _) as [[c o]| |]; auto.
Qed.

Arguments loop_args : simpl never.

(* d = max_depth - min_depth of the call: min_depth == max_depth iff d = 0, and the recursive calls run with d - 1 *)
Theorem grow_is_descr : forall E d ds st,
  run_grow E (Nat.eqb d 0) (grow E (pred d)) grow_descr 3 ds st = grow E d ds st.
Proof.
  intros E d ds st. unfold run_grow, grow_descr. destruct d; cbn [Nat.eqb pred grow].
  - simpl. destruct ds as [|u ds1]; simpl; auto.
    destruct (scale 0 (g_nt E) u <? g_nt E); reflexivity.
  - remember grow_link_descr as link eqn:Hl. simpl. destruct ds as [|u ds1]; simpl; auto.
    destruct (length (g_funs E) <=? scale 0 (length (g_funs E) + g_nt E) u); simpl.
    + destruct (scale 0 (length (g_funs E) + g_nt E) u - length (g_funs E) <? g_nt E); reflexivity.
    + destruct (nth_error (g_funs E) (scale 0 (length (g_funs E) + g_nt E) u)) as [op|] eqn:Ef; simpl; auto.
      rewrite ?Ef. simpl.
      destruct (nth_error (g_arity E) op) as [ar|] eqn:Ea; simpl; auto.
      subst link. rewrite loop_args_is_grow_args.
      destruct (grow_args (grow E d) (length (cells st)) ar 0 ds1 _) as [[st2 ds2]| |]; reflexivity.
Qed.
