(* GP._mutate and GP._cross: results are fresh well-formed trees, disjoint from everything that existed
   (and from each other), equal to the named subtree operations; nothing that existed is written. *)
From Coq Require Import List Arith Bool Lia ZArith Permutation.
From OV Require Import Model.TreeDef Model.TreeHeap.
From OV Require Import Model.TreeHeapBase Model.TreeHeapSlot Model.TreeHeapCopy Model.TreeHeapGrow.
Import ListNotations.

Section Ops.
Variable tab : list nat.

Lemma sub_at_rep : forall st t par fl s side u,
  Rep tab st par fl t -> NoDup (ids t) -> sub_at t s side = Some u ->
  exists c, get st s = Some c /\ child side c = Some (tid u) /\ Rep tab st (Some s) side u.
Proof.
  intros st t. induction t using tree_ind'.
  intros par fl s side u (c & Hg & H1 & H2 & H3 & H4 & H5 & H6 & Hl & Hr) Hn Hs.
  pose proof (NoDup_N _ _ _ _ Hn) as (A & B & C & D & E).
  simpl in Hs. destruct (Nat.eqb i s) eqn:Ei.
  - apply Nat.eqb_eq in Ei. subst s. exists c. split; auto.
    destruct side; simpl in *; subst.
    + rewrite H2. simpl. auto.
    + rewrite H3. simpl. auto.
  - destruct l as [a|]; cbn [oall oids] in *.
    + destruct (sub_at a s side) eqn:Ea.
      * inversion Hs; subst t. eapply H; eauto.
      * destruct r as [b|]; [|discriminate]. cbn [oall oids] in *. eapply H0; eauto.
    + destruct r as [b|]; [|discriminate]. cbn [oall oids] in *. eapply H0; eauto.
Qed.

(* sharper than ids_subst_incl: the replaced subtree is gone *)
Lemma ids_subst_sharp : forall t s side b old x,
  NoDup (ids t) -> sub_at t s side = Some old -> NoDup (ids b) -> (forall y, In y (ids t) -> ~ In y (ids b)) ->
  In x (ids (subst_at t s side b)) -> (In x (ids t) /\ ~ In x (ids old)) \/ In x (ids b).
Proof.
  intros t s side b old x Hn Hs Hb Hd Hx.
  assert (HN0 : NoDup (ids t ++ ids b)) by (apply NoDup_app_iff; auto).
  assert (HN : NoDup (ids (subst_at t s side b) ++ ids old)).
  { apply Permutation_NoDup with (l := ids t ++ ids b); auto. apply Permutation_sym. eapply ids_subst_perm; eauto. }
  apply NoDup_app_iff in HN. destruct HN as (_ & _ & HD).
  destruct (ids_subst_incl _ _ _ _ _ _ Hn Hs Hx); auto.
Qed.

Definition fresh_tree (st st' : hstate) (r : nat) (t : tree) : Prop :=
  tid t = r /\ WFt tab st' t /\ forall i, In i (ids t) -> length (cells st) <= i < length (cells st').

Lemma fresh_tree_weaken : forall st0 st st' r t, heap_ext st0 st -> fresh_tree st st' r t -> fresh_tree st0 st' r t.
Proof.
  intros st0 st st' r t (_ & H & _) (A & B & C). split; [auto|]. split; [auto|]. intros i Hi. apply C in Hi. lia.
Qed.

Lemma fresh_tree_ext : forall st st' st'' r t, heap_ext st' st'' -> fresh_tree st st' r t -> fresh_tree st st'' r t.
Proof.
  intros st st' st'' r t Hext (A & (B1 & B2) & C). pose proof Hext as (_ & H & _).
  split; [auto|]. split; [split; auto; eapply Rep_ext; eauto|]. intros i Hi. apply C in Hi. lia.
Qed.

Lemma deepcopy_fresh : forall st t, WFt tab st t ->
  exists st', deepcopy st (tid t) = Ok (copy_ren st t (tid t), st') /\ heap_ext st st' /\
              fresh_tree st st' (copy_ren st t (tid t)) (rename (copy_ren st t) t).
Proof.
  intros st t H. destruct (deepcopy_WFt tab st t H) as (st' & A & B & C & D). exists st'.
  split; [auto|]. split; [auto|]. split; [apply tid_rename|]. split; [auto|].
  intros i Hi. apply copy_ids_fresh in Hi. lia.
Qed.

End Ops.

(* ------------------------------------------------------------------ mutate *)
(* the three writes of _mutate as one expression, whatever the side *)
Definition graft (st : hstate) (s : nat) (side : bool) (b : nat) : hstate :=
  upd (upd (upd st s (w_child side (Some b))) b (w_flag side)) b (w_parent (Some s)).

Lemma graft_eq : forall (st : hstate) (s : nat) (side : bool) (b : nat),
  upd (if side then upd (upd st s (w_left (Some b))) b (w_flag true)
               else upd (upd st s (w_right (Some b))) b (w_flag false)) b (w_parent (Some s)) = graft st s side b.
Proof. intros. destruct side; reflexivity. Qed.

Lemma graft_Rep : forall tab st tc s side old tb,
  Rep tab st None true tc -> NoDup (ids tc) -> sub_at tc s side = Some old ->
  Rep tab st None true tb -> NoDup (ids tb) -> (forall x, In x (ids tc) -> ~ In x (ids tb)) ->
  Rep tab (graft st s side (tid tb)) None true (subst_at tc s side tb).
Proof.
  intros tab st tc s side old tb HRc HNc Hs HRb HNb Hd.
  destruct (sub_at_facts _ _ _ _ HNc Hs) as (Sin & Sincl & Snot & _).
  assert (Hsb : s <> tid tb) by (intro; subst; eapply Hd; eauto; apply tid_in_ids).
  assert (Gother : forall j, j <> s -> j <> tid tb -> get (graft st s side (tid tb)) j = get st j).
  { intros. unfold graft. rewrite !get_upd_neq by auto. reflexivity. }
  eapply Rep_subst with (st := st); eauto.
  - destruct (Rep_root_cell _ _ _ _ _ HRb) as (cb & Gb & _).
    eapply attach_child with (st := st); eauto.
    + intros c Hc. unfold graft. apply get_upd_eq. apply get_upd_eq. rewrite get_upd_neq by auto. auto.
    + intros j Hj Hjn. apply Gother; auto. intro; subst. eapply Hd; eauto.
  - intros c Hc. unfold graft. rewrite !get_upd_neq by auto. apply get_upd_eq. auto.
  - intros j Hj Hno Hne. apply Gother; auto. intro; subst. eapply Hd; eauto. apply tid_in_ids.
Qed.

Section Mutate.
Variable E : genv.
Hypothesis HA : arity_ok E.
Let tab := g_arity E.

Lemma grown_fresh : forall st d r st', grown E st d r st' ->
  heap_ext st st' /\ exists t, fresh_tree tab st st' r t /\ height t <= S d /\
                               (forall k, In (Term k) (labels t) -> k < g_nt E).
Proof.
  intros st d r st' (A & B & t & C & D & F & G & H & I & _). split; auto. exists t. repeat split; auto; apply G; auto.
Qed.

Theorem mutate_post : forall st t maxn ds m st' ds',
  g_nt E <= narr st -> WFt tab st t ->
  mutate E st (tid t) maxn ds = Ok (m, st', ds') ->
  heap_ext st st' /\
  exists tm, fresh_tree tab st st' m tm /\
    exists u ds1 st1, ds = u :: ds1 /\ deepcopy st (tid t) = Ok (copy_ren st t (tid t), st1) /\
      match find_node st1 (copy_ren st t (tid t)) (scale 2 maxn u) with
      | Ok (Some s, side) =>
        exists old tb st2, sub_at (rename (copy_ren st t) t) s side = Some old /\
          grow E (g_d0 E) ds1 st1 = Ok (tid tb, st2, ds') /\ fresh_tree tab st1 st2 (tid tb) tb /\
          height tb <= S (g_d0 E) /\ st' = graft st2 s side (tid tb) /\
          tm = subst_at (rename (copy_ren st t) t) s side tb
      | Ok (None, _) => grow E (g_d0 E) ds1 st1 = Ok (m, st', ds') /\ height tm <= S (g_d0 E)
      | _ => False
      end.
Proof.
  intros st t maxn ds m st' ds' Hnt HW Hm. unfold mutate in Hm.
  destruct (deepcopy_fresh tab st t HW) as (st1 & Hdc & Hext1 & Hfc).
  rewrite Hdc in Hm. destruct ds as [|u ds1]; [discriminate|].
  pose proof Hfc as (Htc & HWc & Hrc). set (tc := rename (copy_ren st t) t) in *.
  assert (Hnt1 : g_nt E <= narr st1) by (destruct Hext1; lia).
  destruct (find_node st1 (copy_ren st t (tid t)) (scale 2 maxn u)) as [[[s|] side]| |] eqn:Ef; try discriminate.
  - (* a slot is selected *)
    rewrite <- Htc in Ef. destruct (find_node_slot tab st1 tc _ s side HWc Ef) as (old & Hs).
    destruct (grow E (g_d0 E) ds1 st1) as [[[b st2] ds2]| |] eqn:Eg; try discriminate.
    rewrite graft_eq in Hm. inversion Hm; subst m st' ds2. clear Hm.
    pose proof (grow_grown E HA _ _ _ _ _ _ Hnt1 Eg) as Hgr.
    destruct (grown_fresh _ _ _ _ Hgr) as (Hext2 & tb & (Htb & (HRb & HNb) & Hrb) & Hhb & _).
    subst b. destruct HWc as (HRc & HNc).
    assert (Hdisj : forall x, In x (ids tc) -> ~ In x (ids tb)).
    { intros x Hx Hy. apply Hrc in Hx. apply Hrb in Hy. lia. }
    destruct (sub_at_facts _ _ _ _ HNc Hs) as (Sin & _).
    assert (Hs_range := Hrc s Sin). assert (Hb_range := Hrb _ (tid_in_ids tb)).
    assert (Glen : length (cells (graft st2 s side (tid tb))) = length (cells st2)).
    { unfold graft. rewrite !length_upd. reflexivity. }
    split.
    { unfold graft. repeat apply heap_ext_upd_fresh; try lia.
      eapply heap_ext_trans; eauto. }
    exists (subst_at tc s side tb). split.
    { split; [rewrite tid_subst_at; auto|]. split.
      - split.
        + eapply graft_Rep; eauto. eapply Rep_ext; eauto.
        + eapply NoDup_subst; eauto.
      - intros i Hi. rewrite Glen. eapply ids_subst_incl in Hi; eauto.
        destruct Hext2 as (_ & L2 & _). destruct Hi as [Hi | Hi]; [apply Hrc in Hi | apply Hrb in Hi]; lia. }
    exists u, ds1, st1. split; [reflexivity|]. split; [auto|]. rewrite <- Htc. rewrite Ef.
    exists old, tb, st2. repeat split; auto; apply Hrb; auto.
  - (* no slot: a wholly fresh tree *)
    pose proof (grow_grown E HA _ _ _ _ _ _ Hnt1 Hm) as Hgr.
    destruct (grown_fresh _ _ _ _ Hgr) as (Hext2 & tg & Hfg & Hhg & _).
    split. { eapply heap_ext_trans; eauto. }
    exists tg. split. { eapply fresh_tree_weaken; eauto. }
    exists u, ds1, st1. split; [reflexivity|]. split; [auto|]. rewrite Ef. auto.
Qed.

End Mutate.

(* ------------------------------------------------------------------ cross *)
(* the six writes of _cross as one expression *)
Definition exchange (st : hstate) (sf sm : nat) (ff fm : bool) (bf bm : nat) : hstate :=
  upd (upd (upd (upd (upd (upd st sf (w_child ff (Some bm))) bm (w_flag ff)) bm (w_parent (Some sf)))
                 sm (w_child fm (Some bf))) bf (w_flag fm)) bf (w_parent (Some sm)).

Lemma cross_links_exchange : forall st sf sm ff fm csf csm bf bm,
  get st sf = Some csf -> child ff csf = Some bf -> get st sm = Some csm -> child fm csm = Some bm ->
  sf <> sm -> bm <> sf ->
  cross_links st sf sm ff fm = Ok (exchange st sf sm ff fm bf bm).
Proof.
  intros st sf sm ff fm csf csm bf bm H H0 H1 H2 H3 H4.
  assert (G1 : forall f, get (upd st sf f) sm = Some csm) by (intros; rewrite get_upd_neq; auto).
  assert (G2 : forall f g, get (upd (upd st sf f) bm g) sf = Some (f csf)) by (intros; rewrite get_upd_neq by auto; apply get_upd_eq; auto).
  destruct ff, fm; simpl in H0, H2; unfold cross_links, rd, exchange, w_child; rewrite H, H1, H0, H2; cbv zeta; rewrite ?G1, ?H2; simpl; rewrite G2; simpl; reflexivity.
Qed.

Lemma sub_at_NoDup : forall t s side u, NoDup (ids t) -> sub_at t s side = Some u -> NoDup (ids u).
Proof.
  induction t using tree_ind'. intros s side u Hn Hs.
  pose proof (NoDup_N _ _ _ _ Hn) as (A & B & C & D & E).
  simpl in Hs. destruct (Nat.eqb i s).
  - destruct side; subst; auto.
  - destruct l as [a|]; cbn [oall oids] in *.
    + destruct (sub_at a s side) eqn:Ea.
      * inversion Hs; subst t. eapply H; eauto.
      * destruct r as [b|]; [|discriminate]. cbn [oall oids] in *. eapply H0; eauto.
    + destruct r as [b|]; [|discriminate]. cbn [oall oids] in *. eapply H0; eauto.
Qed.

Lemma exchange_Rep : forall tab st tf tm sf ff Bf sm fm Bm,
  Rep tab st None true tf -> NoDup (ids tf) -> Rep tab st None true tm -> NoDup (ids tm) ->
  (forall x, In x (ids tf) -> ~ In x (ids tm)) ->
  sub_at tf sf ff = Some Bf -> sub_at tm sm fm = Some Bm ->
  Rep tab (exchange st sf sm ff fm (tid Bf) (tid Bm)) None true (subst_at tf sf ff Bm) /\
  Rep tab (exchange st sf sm ff fm (tid Bf) (tid Bm)) None true (subst_at tm sm fm Bf).
Proof.
  intros tab st tf tm sf ff Bf sm fm Bm HRf HNf HRm HNm Hd Hsf Hsm.
  destruct (sub_at_facts _ _ _ _ HNf Hsf) as (Fin & Fincl & Fnot & _).
  destruct (sub_at_facts _ _ _ _ HNm Hsm) as (Min & Mincl & Mnot & _).
  pose proof (sub_at_NoDup _ _ _ _ HNf Hsf) as HNbf.
  pose proof (sub_at_NoDup _ _ _ _ HNm Hsm) as HNbm.
  destruct (sub_at_rep tab _ _ _ _ _ _ _ HRf HNf Hsf) as (csf & Gsf & Csf & HRbf).
  destruct (sub_at_rep tab _ _ _ _ _ _ _ HRm HNm Hsm) as (csm & Gsm & Csm & HRbm).
  set (bf := tid Bf) in *. set (bm := tid Bm) in *.
  assert (Ibf : In bf (ids tf)) by (apply Fincl; apply tid_in_ids).
  assert (Ibm : In bm (ids tm)) by (apply Mincl; apply tid_in_ids).
  assert (D1 : sf <> sm) by (intro X; rewrite X in Fin; exact (Hd _ Fin Min)).
  assert (D2 : sf <> bm) by (intro X; rewrite X in Fin; exact (Hd _ Fin Ibm)).
  assert (D3 : sf <> bf) by (intro X; apply Fnot; rewrite X; apply tid_in_ids).
  assert (D4 : sm <> bf) by (intro X; rewrite X in Min; exact (Hd _ Ibf Min)).
  assert (D5 : sm <> bm) by (intro X; apply Mnot; rewrite X; apply tid_in_ids).
  assert (D6 : bf <> bm) by (intro X; rewrite X in Ibf; exact (Hd _ Ibf Ibm)).
  destruct (Rep_root_cell _ _ _ _ _ HRbf) as (cbf & Gbf & _).
  destruct (Rep_root_cell _ _ _ _ _ HRbm) as (cbm & Gbm & _).
  fold bf in Gbf. fold bm in Gbm.
  set (st' := exchange st sf sm ff fm bf bm).
  assert (X1 : get st' sf = Some (w_child ff (Some bm) csf)).
  { unfold st', exchange. rewrite !get_upd_neq by congruence. apply get_upd_eq. auto. }
  assert (X2 : get st' bm = Some (w_parent (Some sf) (w_flag ff cbm))).
  { unfold st', exchange. rewrite !get_upd_neq by congruence. apply get_upd_eq. apply get_upd_eq. rewrite get_upd_neq by congruence. auto. }
  assert (X3 : get st' sm = Some (w_child fm (Some bf) csm)).
  { unfold st', exchange. rewrite !get_upd_neq by congruence. apply get_upd_eq. rewrite !get_upd_neq by congruence. auto. }
  assert (X4 : get st' bf = Some (w_parent (Some sm) (w_flag fm cbf))).
  { unfold st', exchange. apply get_upd_eq. apply get_upd_eq. rewrite !get_upd_neq by congruence. auto. }
  assert (X5 : forall j, j <> sf -> j <> bm -> j <> sm -> j <> bf -> get st' j = get st j).
  { intros. unfold st', exchange. rewrite !get_upd_neq by congruence. reflexivity. }
  assert (Hna : narr st <= narr st') by (unfold st', exchange; rewrite !narr_upd; lia).
  split.
  - eapply Rep_subst with (st := st); eauto.
    + eapply attach_child with (st := st); eauto.
      * intro X; apply Mincl in X; exact (Hd _ Fin X).
      * intros c Hc. fold bm in Hc. fold bm. rewrite Gbm in Hc. inversion Hc; subst. auto.
      * intros j J1 J2. fold bm in J2. apply X5;
          [ intro X; rewrite X in J1; apply Mincl in J1; exact (Hd _ Fin J1)
          | exact J2
          | intro X; rewrite X in J1; exact (Mnot J1)
          | intro X; rewrite X in J1; apply Mincl in J1; exact (Hd _ Ibf J1) ].
    + intros c Hc. rewrite Gsf in Hc. inversion Hc; subst. auto.
    + intros j J1 J2 J3. apply X5;
        [ exact J3
        | intro X; rewrite X in J1; exact (Hd _ J1 Ibm)
        | intro X; rewrite X in J1; exact (Hd _ J1 Min)
        | intro X; apply J2; rewrite X; apply tid_in_ids ].
  - eapply Rep_subst with (st := st); eauto.
    + eapply attach_child with (st := st); eauto.
      * intro X; apply Fincl in X; exact (Hd _ X Min).
      * intros c Hc. fold bf in Hc. fold bf. rewrite Gbf in Hc. inversion Hc; subst. auto.
      * intros j J1 J2. fold bf in J2. apply X5;
          [ intro X; rewrite X in J1; exact (Fnot J1)
          | intro X; rewrite X in J1; apply Fincl in J1; exact (Hd _ J1 Ibm)
          | intro X; rewrite X in J1; apply Fincl in J1; exact (Hd _ J1 Min)
          | exact J2 ].
    + intros c Hc. rewrite Gsm in Hc. inversion Hc; subst. auto.
    + intros j J1 J2 J3. apply X5;
        [ intro X; rewrite X in J1; exact (Hd _ Fin J1)
        | intro X; apply J2; rewrite X; apply tid_in_ids
        | exact J3
        | intro X; rewrite X in J1; exact (Hd _ Ibf J1) ].
Qed.

Section Cross.
Variable tab : list nat.

Theorem cross_post : forall st tf tm maxf maxm ds fo mo st' ds',
  WFt tab st tf -> WFt tab st tm ->
  cross st (tid tf) (tid tm) maxf maxm ds = Ok (fo, mo, st', ds') ->
  heap_ext st st' /\
  exists tfo tmo, fresh_tree tab st st' fo tfo /\ fresh_tree tab st st' mo tmo /\
    (forall x, In x (ids tfo) -> ~ In x (ids tmo)) /\
    exists uf um st1 st2, ds = uf :: um :: ds' /\
      deepcopy st (tid tf) = Ok (copy_ren st tf (tid tf), st1) /\
      deepcopy st1 (tid tm) = Ok (copy_ren st1 tm (tid tm), st2) /\
      match find_node st1 (copy_ren st tf (tid tf)) (scale 2 maxf uf),
            find_node st2 (copy_ren st1 tm (tid tm)) (scale 2 maxm um) with
      | Ok (Some sf, ff), Ok (Some sm, fm) =>
        exists Bf Bm, sub_at (rename (copy_ren st tf) tf) sf ff = Some Bf /\
                      sub_at (rename (copy_ren st1 tm) tm) sm fm = Some Bm /\
                      tfo = subst_at (rename (copy_ren st tf) tf) sf ff Bm /\
                      tmo = subst_at (rename (copy_ren st1 tm) tm) sm fm Bf /\
                      st' = exchange st2 sf sm ff fm (tid Bf) (tid Bm)
      | Ok _, Ok _ => tfo = rename (copy_ren st tf) tf /\ tmo = rename (copy_ren st1 tm) tm /\ st' = st2
      | _, _ => False
      end.
Proof.
  intros st tf tm maxf maxm ds fo mo st' ds' HWf HWm Hc. unfold cross in Hc.
  destruct (deepcopy_fresh tab st tf HWf) as (st1 & Hd1 & Hext1 & Hff).
  rewrite Hd1 in Hc. destruct ds as [|uf ds1]; [discriminate|].
  destruct (find_node st1 (copy_ren st tf (tid tf)) (scale 2 maxf uf)) as [[sub_f ff]| |] eqn:Ef; try discriminate.
  assert (HWm1 : WFt tab st1 tm) by (destruct HWm; split; auto; eapply Rep_ext; eauto).
  destruct (deepcopy_fresh tab st1 tm HWm1) as (st2 & Hd2 & Hext2 & Hfm).
  rewrite Hd2 in Hc. destruct ds1 as [|um ds2]; [discriminate|].
  destruct (find_node st2 (copy_ren st1 tm (tid tm)) (scale 2 maxm um)) as [[sub_m fm]| |] eqn:Em; try discriminate.
  set (cf := rename (copy_ren st tf) tf) in *. set (cm := rename (copy_ren st1 tm) tm) in *.
  pose proof Hff as (Htcf & (HRcf & HNcf) & Hrcf). pose proof Hfm as (Htcm & (HRcm & HNcm) & Hrcm).
  assert (HRcf2 : Rep tab st2 None true cf) by (eapply Rep_ext; eauto).
  assert (Hdisj : forall x, In x (ids cf) -> ~ In x (ids cm)).
  { intros x Hx Hy. apply Hrcf in Hx. apply Hrcm in Hy. lia. }
  assert (Hext02 : heap_ext st st2) by (eapply heap_ext_trans; eauto).
  assert (Plain : sub_f = None \/ sub_m = None ->
          Ok (fo, mo, st', ds') = Ok (copy_ren st tf (tid tf), copy_ren st1 tm (tid tm), st2, ds2) ->
          heap_ext st st' /\
          exists tfo tmo, fresh_tree tab st st' fo tfo /\ fresh_tree tab st st' mo tmo /\
            (forall x, In x (ids tfo) -> ~ In x (ids tmo)) /\
            tfo = cf /\ tmo = cm /\ st' = st2 /\ ds2 = ds').
  { intros _ Heq. inversion Heq; subst. split; auto. exists cf, cm.
    split. { exact (fresh_tree_ext tab _ _ _ _ _ Hext2 Hff). }
    split. { exact (fresh_tree_weaken tab _ _ _ _ _ Hext1 Hfm). }
    split; [exact Hdisj|]. repeat split; reflexivity. }
  destruct sub_f as [sf|]; [destruct sub_m as [sm|]|].
  - (* both slots selected: the exchange *)
    rewrite <- Htcf in Ef. rewrite <- Htcm in Em.
    destruct (find_node_slot tab st1 cf _ sf ff (conj HRcf HNcf) Ef) as (Bf & Hsf).
    destruct (find_node_slot tab st2 cm _ sm fm (conj HRcm HNcm) Em) as (Bm & Hsm).
    destruct (sub_at_facts _ _ _ _ HNcf Hsf) as (Fin & Fincl & Fnot & _).
    destruct (sub_at_facts _ _ _ _ HNcm Hsm) as (Min & Mincl & Mnot & _).
    destruct (sub_at_rep tab _ _ _ _ _ _ _ HRcf2 HNcf Hsf) as (csf & Gsf & Csf & _).
    destruct (sub_at_rep tab _ _ _ _ _ _ _ HRcm HNcm Hsm) as (csm & Gsm & Csm & _).
    assert (Ibf : In (tid Bf) (ids cf)) by (apply Fincl; apply tid_in_ids).
    assert (Ibm : In (tid Bm) (ids cm)) by (apply Mincl; apply tid_in_ids).
    rewrite (cross_links_exchange st2 sf sm ff fm csf csm (tid Bf) (tid Bm)) in Hc; auto.
    2:{ intro X. rewrite X in Fin. exact (Hdisj _ Fin Min). }
    2:{ intro X. rewrite X in Ibm. exact (Hdisj _ Fin Ibm). }
    inversion Hc; subst fo mo st' ds2. clear Hc.
    destruct (exchange_Rep tab st2 cf cm sf ff Bf sm fm Bm HRcf2 HNcf HRcm HNcm Hdisj Hsf Hsm) as (HRo1 & HRo2).
    pose proof (sub_at_NoDup _ _ _ _ HNcf Hsf) as HNbf.
    pose proof (sub_at_NoDup _ _ _ _ HNcm Hsm) as HNbm.
    assert (Glen : length (cells (exchange st2 sf sm ff fm (tid Bf) (tid Bm))) = length (cells st2)).
    { unfold exchange. rewrite !length_upd. reflexivity. }
    assert (R1 := Hrcf _ Fin). assert (R2 := Hrcm _ Min). assert (R3 := Hrcf _ Ibf). assert (R4 := Hrcm _ Ibm).
    pose proof Hext1 as (_ & L1 & _). pose proof Hext2 as (_ & L2 & _).
    assert (Dfm : forall y, In y (ids cf) -> ~ In y (ids Bm)) by (intros y Hy Hz; apply Mincl in Hz; exact (Hdisj _ Hy Hz)).
    assert (Dmf : forall y, In y (ids cm) -> ~ In y (ids Bf)) by (intros y Hy Hz; apply Fincl in Hz; exact (Hdisj _ Hz Hy)).
    split.
    { unfold exchange. repeat apply heap_ext_upd_fresh; try lia. auto. }
    exists (subst_at cf sf ff Bm), (subst_at cm sm fm Bf).
    split.
    { split; [rewrite tid_subst_at; auto|]. split.
      - split; auto. eapply NoDup_subst; eauto.
      - intros i Hi. rewrite Glen. eapply ids_subst_incl in Hi; eauto.
        destruct Hi as [Hi | Hi]; [apply Hrcf in Hi | apply Mincl in Hi; apply Hrcm in Hi]; lia. }
    split.
    { split; [rewrite tid_subst_at; auto|]. split.
      - split; auto. eapply NoDup_subst; eauto.
      - intros i Hi. rewrite Glen. eapply ids_subst_incl in Hi; eauto.
        destruct Hi as [Hi | Hi]; [apply Hrcm in Hi | apply Fincl in Hi; apply Hrcf in Hi]; lia. }
    split.
    { intros x Hx Hy.
      eapply ids_subst_sharp in Hx; eauto. eapply ids_subst_sharp in Hy; eauto.
      destruct Hx as [(Hx1 & Hx2) | Hx]; destruct Hy as [(Hy1 & Hy2) | Hy].
      - exact (Hdisj _ Hx1 Hy1).
      - auto.
      - auto.
      - apply Mincl in Hx. apply Fincl in Hy. exact (Hdisj _ Hy Hx). }
    exists uf, um, st1, st2. split; [reflexivity|]. split; [auto|]. split; [auto|].
    rewrite <- Htcf, <- Htcm, Ef, Em. exists Bf, Bm. auto.
  - destruct (Plain (or_intror eq_refl) (eq_sym Hc)) as (A & tfo & tmo & B & C & D & F & G & I & J). subst ds2.
    split; [exact A|]. exists tfo, tmo. split; [exact B|]. split; [exact C|]. split; [exact D|].
    exists uf, um, st1, st2. split; [reflexivity|]. split; [auto|]. split; [auto|]. rewrite Ef, Em. auto.
  - destruct (Plain (or_introl eq_refl) (eq_sym Hc)) as (A & tfo & tmo & B & C & D & F & G & I & J). subst ds2.
    split; [exact A|]. exists tfo, tmo. split; [exact B|]. split; [exact C|]. split; [exact D|].
    exists uf, um, st1, st2. split; [reflexivity|]. split; [auto|]. split; [auto|]. rewrite Ef, Em.
    destruct sub_m; auto.
Qed.

End Cross.
