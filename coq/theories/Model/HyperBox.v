(* C13, second clause -- "hypercomplex spaces keep every agent inside the unit box for any declared bounds".
   Corollaries of the C06 machinery (Model/Clip.v, Model/SpaceInit.v) for descriptors that clip to the
   constants [0, 1] / draw from the default unit interval; Props/C13.v instantiates them with the
   descriptors T4 regenerates from spaces/hyper.py.  Float keys: K0 = +0.0, K1 = 1.0. *)
From Coq Require Import ZArith List Bool Lia ZifyBool.
From OV Require Import Base.FloatKey Model.Clip Model.SpaceInit.
Import ListNotations.
Open Scope Z_scope.

Definition unit_box (c : contents) : bool := forallb (forallb (in_box K0 K1)) c.

Lemma feasible_unit_box lbs ubs c :
  feasible (map (fun _ : okey => K0) lbs) (map (fun _ : okey => K1) ubs) c = true -> unit_box c = true.
Proof.
  revert ubs c. induction lbs as [|l lbs IH]; intros [|u ubs] [|r c]; simpl; try discriminate; try reflexivity.
  intros H. apply andb_true_iff in H as [Hr Hc]. rewrite Hr. simpl. apply (IH _ _ Hc).
Qed.

(* check_limits of a space whose loop clips to the constants 0 and 1: whatever the declared bounds lbs/ubs
   (any keys, NaN included), every non-NaN position ends inside the unit box *)
Theorem unit_clip_in_unit_box d (lbs ubs : list okey) c :
  descr_unit d = true -> length ubs = length lbs -> length c = length lbs -> no_nan c = true ->
  unit_box (run_cl d lbs ubs c) = true.
Proof.
  intros Hd Hu Hc Hn. rewrite (run_cl_unit d lbs ubs c Hd).
  apply (feasible_unit_box lbs ubs).
  rewrite <- (map_map (fun _ : okey => K0) Some lbs), <- (map_map (fun _ : okey => K1) Some ubs).
  apply clip_rows_feasible.
  - clear Hc. revert ubs Hu. induction lbs as [|l lbs IH]; intros [|u ubs] Hu; simpl in *; try lia; constructor.
    + reflexivity.
    + apply IH. lia.
  - rewrite map_length. exact Hc.
  - exact Hn.
Qed.

(* positions already in the unit box are left bit-identical *)
Theorem unit_clip_fixes_unit_box d (lbs ubs : list okey) c :
  descr_unit d = true -> length ubs = length lbs -> length c = length lbs -> unit_box c = true ->
  run_cl d lbs ubs c = c.
Proof.
  intros Hd Hu Hc Hb. rewrite (run_cl_unit d lbs ubs c Hd).
  rewrite <- (map_map (fun _ : okey => K0) Some lbs), <- (map_map (fun _ : okey => K1) Some ubs).
  apply clip_rows_fix.
  revert ubs c Hu Hc Hb. induction lbs as [|l lbs IH]; intros [|u ubs] [|r c] Hu Hc Hb; simpl in *; try lia; try reflexivity.
  apply andb_true_iff in Hb as [Hr Hb]. rewrite Hr. simpl. apply IH; try lia; exact Hb.
Qed.

(* a freshly initialised agent of a hypercomplex space: its rows are the uniform draws, so under the
   uniform contract (every draw of uniform(0, 1) lies in [0, 1]) it starts inside the unit box *)
Theorem unit_init_in_unit_box d nv nd draws :
  unit_init d = true -> (nv <= length draws)%nat -> unit_box (firstn nv draws) = true ->
  let a := fst (init_rows d 0 (map (fun _ => None) (a_pos (zero_agent nv nd))) (map (fun _ => None) (a_pos (zero_agent nv nd)))
                          (zero_agent nv nd) draws) in
  unit_box (a_pos a) = true /\ length (a_pos a) = nv.
Proof.
  intros Hd Hn Hb. rewrite (init_agent_unit d nv nd draws Hd Hn). simpl. split; [exact Hb|].
  apply firstn_length_le. exact Hn.
Qed.
