(* Model/Guards.v -- C14: validated attributes (property setters) of opytimizer.

   A setter is an ordered list of clauses `if COND: raise e.KIND(MSG)` followed by the store
   `self._x = x` as the LAST statement (shape checked by translator T1 on every run).  Each clause
   carries, independently of COND, the *documented domain* parsed from MSG.

   Values are an abstraction of Python objects (`pyval`):
     - ints are unbounded (Z); bools ARE ints for isinstance and count as 0/1 in comparisons;
     - floats are extended rationals Q + {-inf,+inf}; NaN is NOT in the universe (every guard written
       with < / > lets NaN through; stated as an assumption of C14, probed separately by the harness);
       np.float64 is a float (it subclasses float); np.int64 is NOT an int (VNpInt);
     - lists/tuples/dicts by length, numeric ndarrays by shape and the truth value of their first element,
       callables by the number of parameters `inspect.signature` reports, library objects by class and
       `built` flag (None = no such attribute).
   Evaluating a condition may raise a non-library exception (comparison of a str with 0, `shape[0]` of a
   0-d array, `.built` of None, truth value of a multi-element array ...): `eval` returns None there. *)
From Coq Require Import ZArith QArith List Bool String Lia.
Import ListNotations.
Open Scope string_scope.
Open Scope Z_scope.
Open Scope list_scope.

(* ------------------------------------------------------------------ extended rationals *)
Inductive xq := NInf | Fin (q : Q) | PInf.

Definition qleb (a b : Q) : bool := (Qnum a * QDen b <=? Qnum b * QDen a).
Definition qltb (a b : Q) : bool := (Qnum a * QDen b <? Qnum b * QDen a).

Definition xle (a b : xq) : bool :=
  match a, b with
  | NInf, _ => true
  | _, PInf => true
  | Fin x, Fin y => qleb x y
  | _, _ => false
  end.

Definition xlt (a b : xq) : bool :=
  match a, b with
  | PInf, _ => false
  | _, NInf => false
  | Fin x, Fin y => qltb x y
  | _, _ => true
  end.

Definition xeq (a b : xq) : bool := xle a b && xle b a.

Lemma qleb_spec : forall a b, qleb a b = true <-> (a <= b)%Q.
Proof. intros; unfold qleb, Qle; apply Z.leb_le. Qed.
Lemma qltb_spec : forall a b, qltb a b = true <-> (a < b)%Q.
Proof. intros; unfold qltb, Qlt; apply Z.ltb_lt. Qed.

Lemma xlt_negb_xle : forall a b, xlt a b = negb (xle b a).
Proof. intros [|x|] [|y|]; cbn; try reflexivity. unfold qltb, qleb. apply Z.ltb_antisym. Qed.

Inductive cmp := Lt | Le | Gt | Ge | Eq | Ne.

Definition cmp_eval (op : cmp) (a b : xq) : bool :=
  match op with
  | Lt => xlt a b | Le => xle a b | Gt => xlt b a | Ge => xle b a
  | Eq => xeq a b | Ne => negb (xeq a b)
  end.

Definition cmp_neg (op : cmp) : cmp :=
  match op with Lt => Ge | Le => Gt | Gt => Le | Ge => Lt | Eq => Ne | Ne => Eq end.
Definition cmp_flip (op : cmp) : cmp :=
  match op with Lt => Gt | Le => Ge | Gt => Lt | Ge => Le | Eq => Eq | Ne => Ne end.
Definition cmp_eqb (a b : cmp) : bool :=
  match a, b with Lt, Lt | Le, Le | Gt, Gt | Ge, Ge | Eq, Eq | Ne, Ne => true | _, _ => false end.

Lemma cmp_eqb_eq : forall a b, cmp_eqb a b = true -> a = b.
Proof. intros [] []; cbn; congruence. Qed.

Lemma cmp_neg_eval : forall op a b, cmp_eval (cmp_neg op) a b = negb (cmp_eval op a b).
Proof.
  intros [] a b; cbn; rewrite ?xlt_negb_xle, ?negb_involutive; reflexivity.
Qed.

Lemma cmp_flip_eval : forall op a b, cmp_eval (cmp_flip op) b a = cmp_eval op a b.
Proof. intros [] a b; cbn; unfold xeq; try reflexivity; rewrite andb_comm; reflexivity. Qed.

(* ------------------------------------------------------------------ Python values *)
Inductive ty := TInt | TFloat | TBool | TStr | TList | TTuple | TDict | TNdarray
              | TNode | TAgent | TFunction | TSpace | TOptimizer.
Inductive ocls := ONode | OAgent | OFunction | OSpace | OOptimizer | OOther.

Inductive pyval :=
| VNone
| VBool (b : bool)
| VInt (z : Z)
| VFloat (x : xq)                      (* float and np.float64; NaN excluded *)
| VNpInt (z : Z)                       (* np.int64 & co: numeric, but not an `int` *)
| VStr (s : string)
| VList (n : nat)
| VTuple (n : nat)
| VDict (n : nat)
| VArr (shape : list nat) (t : bool)   (* numeric ndarray; t = truth value of its first element *)
| VCallable (arity : nat)              (* len(signature(v).parameters) *)
| VObj (c : ocls) (built : option bool) (id : nat).

Definition ty_eqb (a b : ty) : bool :=
  match a, b with
  | TInt, TInt | TFloat, TFloat | TBool, TBool | TStr, TStr | TList, TList | TTuple, TTuple
  | TDict, TDict | TNdarray, TNdarray | TNode, TNode | TAgent, TAgent | TFunction, TFunction
  | TSpace, TSpace | TOptimizer, TOptimizer => true
  | _, _ => false
  end.

Lemma ty_eqb_eq : forall a b, ty_eqb a b = true -> a = b.
Proof. intros [] []; cbn; congruence. Qed.

Definition ocls_ty (c : ocls) (t : ty) : bool :=
  match c, t with
  | ONode, TNode | OAgent, TAgent | OFunction, TFunction | OSpace, TSpace | OOptimizer, TOptimizer => true
  | _, _ => false
  end.

(* isinstance(v, t) *)
Definition has_type (v : pyval) (t : ty) : bool :=
  match v, t with
  | VBool _, TBool | VBool _, TInt | VInt _, TInt | VFloat _, TFloat | VStr _, TStr
  | VList _, TList | VTuple _, TTuple | VDict _, TDict | VArr _ _, TNdarray => true
  | VObj c _ _, t => ocls_ty c t
  | _, _ => false
  end.

Definition zq (z : Z) : xq := Fin (inject_Z z).

(* the number a value denotes in a comparison; None = comparing it with a number raises *)
Definition num_of (v : pyval) : option xq :=
  match v with
  | VBool b => Some (zq (if b then 1 else 0))
  | VInt z | VNpInt z => Some (zq z)
  | VFloat x => Some x
  | _ => None
  end.

Definition size_of (sh : list nat) : nat := fold_right Nat.mul 1%nat sh.

Definition is_callable (v : pyval) : bool := match v with VCallable _ => true | _ => false end.

(* bool(v); None = raises (NumPy: empty or multi-element array) *)
Definition truthy (v : pyval) : option bool :=
  match v with
  | VNone => Some false
  | VBool b => Some b
  | VInt z | VNpInt z => Some (negb (z =? 0))
  | VFloat x => Some (negb (xeq x (zq 0)))
  | VStr s => Some (negb (String.eqb s ""))
  | VList n | VTuple n | VDict n => Some (negb (Nat.eqb n 0))
  | VArr sh t => if Nat.eqb (size_of sh) 1 then Some t else None
  | VCallable _ => Some true
  | VObj _ _ _ => Some true
  end.

(* ------------------------------------------------------------------ object state *)
Definition state := list (string * pyval).

Fixpoint lookup (s : state) (a : string) : option pyval :=
  match s with
  | [] => None
  | (k, v) :: r => if String.eqb k a then Some v else lookup r a
  end.

Definition upd (s : state) (a : string) (v : pyval) : state := (a, v) :: s.

Lemma lookup_upd_same : forall s a v, lookup (upd s a v) a = Some v.
Proof. intros; cbn; rewrite String.eqb_refl; reflexivity. Qed.

Lemma lookup_upd_other : forall s a b v, a <> b -> lookup (upd s a v) b = lookup s b.
Proof. intros; cbn. destruct (String.eqb a b) eqn:E; [apply String.eqb_eq in E; congruence | reflexivity]. Qed.

Definition self_num (s : state) (a : string) : option xq :=
  match lookup s a with Some w => num_of w | None => None end.

(* ------------------------------------------------------------------ conditions *)
Inductive term :=
| TVal                    (* the value being assigned *)
| TConst (q : Q)
| TSelf (a : string)      (* self.a, a companion attribute *)
| TShape0                 (* v.shape[0] *)
| TLen                    (* len(v) *)
| TNParams.               (* len(signature(v).parameters) *)

Definition natq (n : nat) : xq := zq (Z.of_nat n).

Definition term_num (s : state) (v : pyval) (t : term) : option xq :=
  match t with
  | TVal => num_of v
  | TConst q => Some (Fin q)
  | TSelf a => self_num s a
  | TShape0 => match v with VArr (n :: _) _ => Some (natq n) | _ => None end
  | TLen => match v with
            | VList n | VTuple n | VDict n => Some (natq n)
            | VStr x => Some (natq (String.length x))
            | VArr (n :: _) _ => Some (natq n)
            | _ => None
            end
  | TNParams => match v with VCallable n => Some (natq n) | _ => None end
  end.

Inductive cond :=
| CIsInst (ts : list ty)
| CCallable
| CTruthy
| CBuilt                          (* v.built *)
| CCmp (op : cmp) (a b : term)
| CInStr (ss : list string)       (* v in ['A', 'B'] *)
| CNot (c : cond)
| CAnd (a b : cond)
| COr (a b : cond).

Definition in_strs (v : pyval) (ss : list string) : option bool :=
  match v with
  | VStr x => Some (existsb (String.eqb x) ss)
  | VArr sh _ => if Nat.eqb (size_of sh) 1 then Some false else None   (* elementwise ==, then bool() *)
  | _ => Some false
  end.

Fixpoint eval (s : state) (v : pyval) (c : cond) : option bool :=
  match c with
  | CIsInst ts => Some (existsb (has_type v) ts)
  | CCallable => Some (is_callable v)
  | CTruthy => truthy v
  | CBuilt => match v with VObj _ (Some b) _ => Some b | _ => None end
  | CCmp op a b =>
      match term_num s v a, term_num s v b with
      | Some x, Some y => Some (cmp_eval op x y)
      | _, _ => None
      end
  | CInStr ss => in_strs v ss
  | CNot c1 => option_map negb (eval s v c1)
  | CAnd a b => match eval s v a with
                | Some true => eval s v b
                | r => r
                end
  | COr a b => match eval s v a with
               | Some false => eval s v b
               | r => r
               end
  end.

(* ------------------------------------------------------------------ documented domains *)
Inductive dom :=
| DType (ts : list ty)            (* `x` should be a/an ... *)
| DCallable                       (* `x` should be a callable *)
| DCmp (op : cmp) (q : Q)         (* `x` should be > 0 / >= 0 / > 1 *)
| DBetween (lo hi : Q)            (* `x` should be between 0 and 1 *)
| DCmpSelf (op : cmp) (a : string)  (* `x` should be >= `a` *)
| DSizeEq (a : string)            (* `x` should be the same size as `a` *)
| DArity (n : nat)                (* `x` should only have n argument(s) *)
| DOneOf (ss : list string)       (* `x` should be `A` or `B` *)
| DBuilt.                         (* `x` should be built before using Opytimizer *)

Definition in_dom (s : state) (v : pyval) (d : dom) : bool :=
  match d with
  | DType ts => existsb (has_type v) ts
  | DCallable => is_callable v
  | DCmp op q => match num_of v with Some x => cmp_eval op x (Fin q) | None => false end
  | DBetween lo hi => match num_of v with Some x => xle (Fin lo) x && xle x (Fin hi) | None => false end
  | DCmpSelf op a => match num_of v, self_num s a with
                     | Some x, Some y => cmp_eval op x y
                     | _, _ => false
                     end
  | DSizeEq a => match v, self_num s a with
                 | VArr (n :: _) _, Some y => xeq (natq n) y
                 | _, _ => false
                 end
  | DArity n => match v with VCallable k => Nat.eqb k n | _ => false end
  | DOneOf ss => match v with VStr x => existsb (String.eqb x) ss | _ => false end
  | DBuilt => match v with VObj _ (Some true) _ => true | _ => false end
  end.

(* ------------------------------------------------------------------ guards and the setter *)
Inductive ekind := ETYPE | EVALUE | ESIZE | EARG | EBUILD.

Definition ekind_eqb (a b : ekind) : bool :=
  match a, b with
  | ETYPE, ETYPE | EVALUE, EVALUE | ESIZE, ESIZE | EARG, EARG | EBUILD, EBUILD => true
  | _, _ => false
  end.

Lemma ekind_eqb_eq : forall a b, ekind_eqb a b = true -> a = b.
Proof. intros [] []; cbn; congruence. Qed.

Record clause := { c_cond : cond; c_kind : ekind; c_dom : dom; c_msg : string }.

(* g_pre = Some (a, x): the guard only applies when self.a == x (str); otherwise the setter stores None
   (Node.value: "only if it is a terminal node") *)
Record guard := { g_class : string; g_attr : string; g_pre : option (string * string);
                  g_clauses : list clause }.

Inductive outcome :=
| Stored (s : state)
| Raised (k : ekind) (s : state)      (* library typed error; the state is the one before the call *)
| Untyped (s : state).                (* some other exception escaped *)

Fixpoint first_fail (s : state) (v : pyval) (cs : list clause) : option (option ekind) :=
  match cs with
  | [] => None
  | c :: r => match eval s v (c_cond c) with
              | None => Some None
              | Some true => Some (Some (c_kind c))
              | Some false => first_fail s v r
              end
  end.

Definition pre_holds (g : guard) (s : state) : bool :=
  match g_pre g with
  | None => true
  | Some (a, x) => match lookup s a with Some (VStr y) => String.eqb y x | _ => false end
  end.

Definition setter (g : guard) (s : state) (v : pyval) : outcome :=
  if pre_holds g s then
    match first_fail s v (g_clauses g) with
    | None => Stored (upd s (g_attr g) v)
    | Some (Some k) => Raised k s
    | Some None => Untyped s
    end
  else Stored (upd s (g_attr g) VNone).

(* the specification read off the messages alone *)
Definition in_domain (g : guard) (s : state) (v : pyval) : bool :=
  forallb (fun c => in_dom s v (c_dom c)) (g_clauses g).

Fixpoint first_undoc (s : state) (v : pyval) (cs : list clause) : option ekind :=
  match cs with
  | [] => None
  | c :: r => if in_dom s v (c_dom c) then first_undoc s v r else Some (c_kind c)
  end.

Definition spec_outcome (g : guard) (s : state) (v : pyval) : outcome :=
  match first_undoc s v (g_clauses g) with
  | None => Stored (upd s (g_attr g) v)
  | Some k => Raised k s
  end.

(* companions mentioned by the documented domain hold numbers (they went through their own setters) *)
Definition dom_state_ok (s : state) (d : dom) : bool :=
  match d with
  | DCmpSelf _ a | DSizeEq a => match self_num s a with Some _ => true | None => false end
  | _ => true
  end.

Definition state_ok (g : guard) (s : state) : bool :=
  forallb (fun c => dom_state_ok s (c_dom c)) (g_clauses g).

(* ------------------------------------------------------------------ the syntactic agreement check *)
Definition is_num_ty (t : ty) : bool := match t with TInt | TFloat | TBool => true | _ => false end.

(* what the earlier clauses have established about v *)
Record kctx := { k_num : bool; k_str : bool }.
Definition k0 : kctx := {| k_num := false; k_str := false |}.

Definition ctx_after (k : kctx) (d : dom) : kctx :=
  match d with
  | DType ts => {| k_num := k_num k || (forallb is_num_ty ts && negb (Nat.eqb (List.length ts) 0));
                   k_str := k_str k || (forallb (ty_eqb TStr) ts && negb (Nat.eqb (List.length ts) 0)) |}
  | _ => k
  end.

Definition ctx_holds (k : kctx) (v : pyval) : Prop :=
  (k_num k = true -> exists x, num_of v = Some x) /\
  (k_str k = true -> exists x, v = VStr x).

(* the types tested by an or-tree of isinstance tests *)
Fixpoint inst_tys (c : cond) : option (list ty) :=
  match c with
  | CIsInst ts => Some ts
  | COr a b => match inst_tys a, inst_tys b with
               | Some x, Some y => Some (x ++ y)
               | _, _ => None
               end
  | _ => None
  end.

(* the types excluded by `not isinstance(..)`, possibly `not isinstance(v, A) and not isinstance(v, B)` *)
Fixpoint ninst_tys (c : cond) : option (list ty) :=
  match c with
  | CNot x => inst_tys x
  | CAnd a b => match ninst_tys a, ninst_tys b with
                | Some x, Some y => Some (x ++ y)
                | _, _ => None
                end
  | _ => None
  end.

Definition subset_ty (a b : list ty) : bool := forallb (fun t => existsb (ty_eqb t) b) a.
Definition same_tys (a b : list ty) : bool := subset_ty a b && subset_ty b a.

Definition term_eqb (a b : term) : bool :=
  match a, b with
  | TVal, TVal | TShape0, TShape0 | TLen, TLen | TNParams, TNParams => true
  | TConst p, TConst q => Qeq_bool p q
  | TSelf x, TSelf y => String.eqb x y
  | _, _ => false
  end.

(* a condition read as one relation `value OP rhs` (value on the left) *)
Definition is_valterm (t : term) : bool := match t with TVal => true | _ => false end.

Fixpoint rel_of (c : cond) : option (cmp * term) :=
  match c with
  | CCmp op TVal b => if is_valterm b then None else Some (op, b)
  | CCmp op a TVal => if is_valterm a then None else Some (cmp_flip op, a)
  | CNot c1 => match rel_of c1 with Some (op, b) => Some (cmp_neg op, b) | None => None end
  | _ => None
  end.

Definition rhs_defined (s : state) (t : term) : bool :=
  match t with
  | TConst _ => true
  | TSelf a => match self_num s a with Some _ => true | None => false end
  | _ => false
  end.

Definition rhs_is (t : term) (d : dom) : bool :=
  match d, t with
  | DCmp _ q, TConst p => Qeq_bool p q
  | DCmpSelf _ a, TSelf b => String.eqb a b
  | _, _ => false
  end.

Definition strs_eqb (a b : list string) : bool :=
  forallb (fun x => existsb (String.eqb x) b) a && forallb (fun x => existsb (String.eqb x) a) b.

Definition kind_of_dom (d : dom) : ekind :=
  match d with
  | DType _ | DCallable => ETYPE
  | DCmp _ _ | DBetween _ _ | DCmpSelf _ _ | DOneOf _ => EVALUE
  | DSizeEq _ => ESIZE
  | DArity _ => EARG
  | DBuilt => EBUILD
  end.

(* `v < lo or v > hi` (either order) *)
Definition between_or (a b : cond) (lo hi : Q) : bool :=
  match rel_of a, rel_of b with
  | Some (Lt, TConst p), Some (Gt, TConst q) => Qeq_bool p lo && Qeq_bool q hi
  | Some (Gt, TConst q), Some (Lt, TConst p) => Qeq_bool p lo && Qeq_bool q hi
  | _, _ => false
  end.

(* `not (lo <= v and v <= hi)` (either order; also the chained `lo <= v <= hi`) *)
Definition between_and (a b : cond) (lo hi : Q) : bool :=
  match rel_of a, rel_of b with
  | Some (Ge, TConst p), Some (Le, TConst q) => Qeq_bool p lo && Qeq_bool q hi
  | Some (Le, TConst q), Some (Ge, TConst p) => Qeq_bool p lo && Qeq_bool q hi
  | _, _ => false
  end.

Definition clause_ok (k : kctx) (c : clause) : bool :=
  ekind_eqb (c_kind c) (kind_of_dom (c_dom c)) &&
  match c_dom c with
  | DType ts =>
      match ninst_tys (c_cond c) with Some ts' => same_tys ts ts' | None => false end
  | DCallable =>
      match c_cond c with CNot CCallable => true | _ => false end
  | DCmp op _ | DCmpSelf op _ =>
      k_num k &&
      match rel_of (c_cond c) with
      | Some (op', t) => cmp_eqb op' (cmp_neg op) && rhs_is t (c_dom c)
      | None => false
      end
  | DBetween lo hi =>
      k_num k &&
      match c_cond c with
      | COr a b => between_or a b lo hi
      | CNot (CAnd a b) => between_and a b lo hi
      | _ => false
      end
  | DOneOf ss =>
      k_str k &&
      match c_cond c with CNot (CInStr ss') => strs_eqb ss ss' | _ => false end
  | DSizeEq _ | DArity _ | DBuilt => false
      (* shape[0] / signature / .built are partial on the values that pass the earlier clauses:
         no syntactic form of these clauses is accepted; such guards are decided by refutation *)
  end.

Fixpoint clauses_ok (k : kctx) (cs : list clause) : bool :=
  match cs with
  | [] => true
  | c :: r => clause_ok k c && clauses_ok (ctx_after k (c_dom c)) r
  end.

Definition guard_ok (g : guard) : bool := clauses_ok k0 (g_clauses g).

(* ------------------------------------------------------------------ soundness of the check *)
Lemma existsb_ext_in : forall (A : Type) (f : A -> bool) l1 l2,
  (forall x, In x l1 -> existsb f l1 = true -> existsb f l2 = true) -> existsb f l1 = true -> existsb f l2 = true.
Proof. intros A f l1 l2 H E. destruct l1; [discriminate|]. apply (H a); [left; reflexivity | exact E]. Qed.

Lemma subset_ty_existsb : forall v a b, subset_ty a b = true ->
  existsb (has_type v) a = true -> existsb (has_type v) b = true.
Proof.
  intros v a b S E. apply existsb_exists in E. destruct E as [t [Ht Hv]].
  unfold subset_ty in S. rewrite forallb_forall in S. specialize (S t Ht).
  apply existsb_exists in S. destruct S as [t' [Ht' E']]. apply ty_eqb_eq in E'. subst t'.
  apply existsb_exists. exists t. split; assumption.
Qed.

Lemma same_tys_existsb : forall v a b, same_tys a b = true ->
  existsb (has_type v) a = existsb (has_type v) b.
Proof.
  intros v a b S. unfold same_tys in S. apply andb_prop in S. destruct S as [S1 S2].
  destruct (existsb (has_type v) a) eqn:Ea.
  - symmetry. eapply subset_ty_existsb; eassumption.
  - destruct (existsb (has_type v) b) eqn:Eb; [|reflexivity].
    rewrite (subset_ty_existsb v b a S2 Eb) in Ea. discriminate.
Qed.

Lemma inst_tys_eval : forall s v c ts, inst_tys c = Some ts -> eval s v c = Some (existsb (has_type v) ts).
Proof.
  intros s v c. induction c; intros ts' H; cbn in H; try discriminate.
  - inversion H; subst. reflexivity.
  - destruct (inst_tys c1) as [x|] eqn:E1; [|discriminate].
    destruct (inst_tys c2) as [y|] eqn:E2; [|discriminate].
    inversion H; subst. cbn. rewrite (IHc1 x eq_refl), (IHc2 y eq_refl).
    rewrite existsb_app. destruct (existsb (has_type v) x); reflexivity.
Qed.

Lemma ninst_tys_eval : forall s v c ts, ninst_tys c = Some ts ->
  eval s v c = Some (negb (existsb (has_type v) ts)).
Proof.
  intros s v c. induction c; intros ts' H; cbn in H; try discriminate.
  - cbn. rewrite (inst_tys_eval s v c ts' H). reflexivity.
  - destruct (ninst_tys c1) as [x|] eqn:E1; [|discriminate].
    destruct (ninst_tys c2) as [y|] eqn:E2; [|discriminate].
    inversion H; subst. cbn. rewrite (IHc1 x eq_refl), (IHc2 y eq_refl).
    rewrite existsb_app. destruct (existsb (has_type v) x); reflexivity.
Qed.

Lemma rel_of_eval : forall s v c op t x y, rel_of c = Some (op, t) ->
  num_of v = Some x -> term_num s v t = Some y -> eval s v c = Some (cmp_eval op x y).
Proof.
  intros s v c. induction c; intros op0 t x y H Hx Hy; cbn in H; try discriminate.
  - destruct a; destruct b; cbn in H; try discriminate; inversion H; subst; cbn [eval];
      change (term_num s v TVal) with (num_of v); rewrite Hx, Hy; try reflexivity;
      rewrite cmp_flip_eval; reflexivity.
  - destruct (rel_of c) as [[op1 b]|] eqn:E; [|discriminate]. inversion H; subst.
    cbn. rewrite (IHc op1 t x y eq_refl Hx Hy). cbn. rewrite cmp_neg_eval. reflexivity.
Qed.

Lemma Qeq_bool_Fin_le_l : forall p q x, Qeq_bool p q = true -> xle (Fin p) x = xle (Fin q) x.
Proof.
  intros p q [|y|] H; cbn; try reflexivity. apply Qeq_bool_iff in H.
  destruct (qleb p y) eqn:A; destruct (qleb q y) eqn:B; try reflexivity.
  - apply qleb_spec in A. rewrite H in A. apply qleb_spec in A. congruence.
  - apply qleb_spec in B. rewrite <- H in B. apply qleb_spec in B. congruence.
Qed.

Lemma Qeq_bool_Fin_le_r : forall p q x, Qeq_bool p q = true -> xle x (Fin p) = xle x (Fin q).
Proof.
  intros p q [|y|] H; cbn; try reflexivity. apply Qeq_bool_iff in H.
  destruct (qleb y p) eqn:A; destruct (qleb y q) eqn:B; try reflexivity.
  - apply qleb_spec in A. rewrite H in A. apply qleb_spec in A. congruence.
  - apply qleb_spec in B. rewrite <- H in B. apply qleb_spec in B. congruence.
Qed.

Lemma Qeq_bool_cmp : forall op p q x, Qeq_bool p q = true -> cmp_eval op x (Fin p) = cmp_eval op x (Fin q).
Proof.
  intros op p q x H. destruct op; unfold cmp_eval, xeq; rewrite ?xlt_negb_xle;
    rewrite ?(Qeq_bool_Fin_le_l p q x H), ?(Qeq_bool_Fin_le_r p q x H); reflexivity.
Qed.

Lemma strs_eqb_existsb : forall x a b, strs_eqb a b = true ->
  existsb (String.eqb x) a = existsb (String.eqb x) b.
Proof.
  intros x a b H. unfold strs_eqb in H. apply andb_prop in H. destruct H as [H1 H2].
  rewrite forallb_forall in H1, H2.
  destruct (existsb (String.eqb x) a) eqn:A.
  - apply existsb_exists in A. destruct A as [y [Hy E]]. apply String.eqb_eq in E. subst y.
    symmetry. exact (H1 x Hy).
  - destruct (existsb (String.eqb x) b) eqn:B; [|reflexivity].
    apply existsb_exists in B. destruct B as [y [Hy E]]. apply String.eqb_eq in E. subst y.
    rewrite (H2 x Hy) in A. discriminate.
Qed.

Lemma between_or_sound : forall s v a b lo hi x, between_or a b lo hi = true -> num_of v = Some x ->
  eval s v (COr a b) = Some (negb (xle (Fin lo) x && xle x (Fin hi))).
Proof.
  intros s v a b lo hi x H Hx. unfold between_or in H.
  destruct (rel_of a) as [[opa ta]|] eqn:Ra; [|discriminate].
  destruct (rel_of b) as [[opb tb]|] eqn:Rb; [|destruct opa; destruct ta; discriminate].
  destruct opa; try discriminate; destruct ta; try discriminate;
    destruct opb; try discriminate; destruct tb; try discriminate;
    apply andb_prop in H; destruct H as [H1 H2]; cbn [eval];
    rewrite (rel_of_eval s v a _ _ x (Fin q) Ra Hx eq_refl);
    rewrite (rel_of_eval s v b _ _ x (Fin q0) Rb Hx eq_refl); cbn [cmp_eval];
    rewrite !xlt_negb_xle; rewrite <- (Qeq_bool_Fin_le_l _ _ x H1), <- (Qeq_bool_Fin_le_r _ _ x H2);
    repeat match goal with |- context [xle ?a ?b] => destruct (xle a b) end; reflexivity.
Qed.

Lemma between_and_sound : forall s v a b lo hi x, between_and a b lo hi = true -> num_of v = Some x ->
  eval s v (CNot (CAnd a b)) = Some (negb (xle (Fin lo) x && xle x (Fin hi))).
Proof.
  intros s v a b lo hi x H Hx. unfold between_and in H.
  destruct (rel_of a) as [[opa ta]|] eqn:Ra; [|discriminate].
  destruct (rel_of b) as [[opb tb]|] eqn:Rb; [|destruct opa; destruct ta; discriminate].
  destruct opa; try discriminate; destruct ta; try discriminate;
    destruct opb; try discriminate; destruct tb; try discriminate;
    apply andb_prop in H; destruct H as [H1 H2]; cbn [eval];
    rewrite (rel_of_eval s v a _ _ x (Fin q) Ra Hx eq_refl);
    rewrite (rel_of_eval s v b _ _ x (Fin q0) Rb Hx eq_refl); cbn [cmp_eval];
    rewrite <- (Qeq_bool_Fin_le_l _ _ x H1), <- (Qeq_bool_Fin_le_r _ _ x H2);
    repeat match goal with |- context [xle ?a ?b] => destruct (xle a b) end; reflexivity.
Qed.

(* one clause: under the facts established so far, the condition fires exactly outside the documented domain
   and never raises anything else *)
Lemma clause_ok_sound : forall k c s v,
  clause_ok k c = true -> ctx_holds k v -> dom_state_ok s (c_dom c) = true ->
  eval s v (c_cond c) = Some (negb (in_dom s v (c_dom c))) /\ c_kind c = kind_of_dom (c_dom c).
Proof.
  intros k c s v H [Hn Hs] Hst. unfold clause_ok in H. apply andb_prop in H. destruct H as [Hk H].
  apply ekind_eqb_eq in Hk. split; [|exact Hk]. clear Hk.
  destruct (c_dom c) as [ts| |op q|lo hi|op a|a|n|ss|] eqn:D; cbn [in_dom].
  - (* DType *)
    destruct (ninst_tys (c_cond c)) as [ts'|] eqn:E; [|discriminate].
    rewrite (ninst_tys_eval s v (c_cond c) ts' E). rewrite (same_tys_existsb v ts ts' H). reflexivity.
  - (* DCallable *)
    destruct (c_cond c) as [| | | | | |x| |]; try discriminate. destruct x; try discriminate. reflexivity.
  - (* DCmp *)
    apply andb_prop in H. destruct H as [Kn H]. destruct (Hn Kn) as [x Hx]. rewrite Hx.
    destruct (rel_of (c_cond c)) as [[op' t]|] eqn:R; [|discriminate].
    apply andb_prop in H. destruct H as [Ho Ht]. apply cmp_eqb_eq in Ho. subst op'.
    destruct t; cbn in Ht; try discriminate.
    rewrite (rel_of_eval s v (c_cond c) (cmp_neg op) (TConst q0) x (Fin q0) R Hx eq_refl).
    rewrite cmp_neg_eval. rewrite (Qeq_bool_cmp op q0 q x Ht). reflexivity.
  - (* DBetween *)
    apply andb_prop in H. destruct H as [Kn H]. destruct (Hn Kn) as [x Hx]. rewrite Hx.
    destruct (c_cond c) as [| | | | | |y|y1 y2|a b]; try discriminate.
    + destruct y as [| | | | | |y|a b|a b]; try discriminate. exact (between_and_sound s v a b lo hi x H Hx).
    + exact (between_or_sound s v a b lo hi x H Hx).
  - (* DCmpSelf *)
    apply andb_prop in H. destruct H as [Kn H]. destruct (Hn Kn) as [x Hx]. rewrite Hx.
    cbn in Hst. destruct (self_num s a) as [y|] eqn:Sa; [|discriminate].
    destruct (rel_of (c_cond c)) as [[op' t]|] eqn:R; [|discriminate].
    apply andb_prop in H. destruct H as [Ho Ht]. apply cmp_eqb_eq in Ho. subst op'.
    destruct t; cbn in Ht; try discriminate. apply String.eqb_eq in Ht. subst a0.
    rewrite (rel_of_eval s v (c_cond c) (cmp_neg op) (TSelf a) x y R Hx Sa).
    rewrite cmp_neg_eval. reflexivity.
  - discriminate.
  - discriminate.
  - (* DOneOf *)
    apply andb_prop in H. destruct H as [Ks H]. destruct (Hs Ks) as [x Hx]. subst v.
    destruct (c_cond c) as [| | | | | |y| |]; try discriminate. destruct y; try discriminate.
    cbn. rewrite (strs_eqb_existsb x ss ss0 H). reflexivity.
  - discriminate.
Qed.

Lemma forallb_num_ty : forall v ts, forallb is_num_ty ts = true -> existsb (has_type v) ts = true ->
  exists x, num_of v = Some x.
Proof.
  intros v ts F E. apply existsb_exists in E. destruct E as [t [Ht Hv]].
  rewrite forallb_forall in F. specialize (F t Ht).
  destruct t; try discriminate; destruct v; try discriminate; cbn; eauto.
  all: destruct c; discriminate.
Qed.

Lemma forallb_str_ty : forall v ts, forallb (ty_eqb TStr) ts = true -> existsb (has_type v) ts = true ->
  exists x, v = VStr x.
Proof.
  intros v ts F E. apply existsb_exists in E. destruct E as [t [Ht Hv]].
  rewrite forallb_forall in F. specialize (F t Ht). apply ty_eqb_eq in F. subst t.
  destruct v; try discriminate; eauto. destruct c; discriminate.
Qed.

Lemma ctx_after_holds : forall k d s v, ctx_holds k v -> in_dom s v d = true -> ctx_holds (ctx_after k d) v.
Proof.
  intros k d s v [Hn Hs] I. destruct d; try (split; assumption). cbn in I. cbn. split; intro K.
  - apply orb_prop in K. destruct K as [K|K]; [auto|]. apply andb_prop in K. destruct K as [K _].
    eapply forallb_num_ty; eassumption.
  - apply orb_prop in K. destruct K as [K|K]; [auto|]. apply andb_prop in K. destruct K as [K _].
    eapply forallb_str_ty; eassumption.
Qed.

Lemma clauses_ok_sound : forall cs k s v,
  clauses_ok k cs = true -> ctx_holds k v -> forallb (fun c => dom_state_ok s (c_dom c)) cs = true ->
  first_fail s v cs = option_map Some (first_undoc s v cs).
Proof.
  induction cs as [|c r IH]; intros k s v H Hc Hst; [reflexivity|].
  cbn in H, Hst. apply andb_prop in H. destruct H as [H1 H2]. apply andb_prop in Hst. destruct Hst as [S1 S2].
  destruct (clause_ok_sound k c s v H1 Hc S1) as [E _]. cbn. rewrite E.
  destruct (in_dom s v (c_dom c)) eqn:I; cbn; [|reflexivity].
  apply (IH (ctx_after k (c_dom c))); [assumption | eapply ctx_after_holds; eassumption | assumption].
Qed.

Lemma k0_holds : forall v, ctx_holds k0 v.
Proof. intros v; split; cbn; discriminate. Qed.

(* THE generic theorem: a guard that passes the syntactic check behaves, on every value and every state whose
   companions are numbers, exactly as its messages document. *)
Theorem guard_sound : forall g s v,
  guard_ok g = true -> state_ok g s = true -> pre_holds g s = true ->
  setter g s v = spec_outcome g s v.
Proof.
  intros g s v H Hs Hp. unfold setter, spec_outcome. rewrite Hp.
  rewrite (clauses_ok_sound (g_clauses g) k0 s v H (k0_holds v) Hs).
  destruct (first_undoc s v (g_clauses g)); reflexivity.
Qed.

Lemma first_undoc_none : forall s v cs, first_undoc s v cs = None <-> forallb (fun c => in_dom s v (c_dom c)) cs = true.
Proof.
  induction cs as [|c r IH]; cbn; [tauto|]. destruct (in_dom s v (c_dom c)); cbn; [exact IH|]. split; discriminate.
Qed.

Lemma first_undoc_some : forall s v cs k, first_undoc s v cs = Some k ->
  exists pre c post, cs = pre ++ c :: post /\ c_kind c = k /\ in_dom s v (c_dom c) = false /\
                     forallb (fun c => in_dom s v (c_dom c)) pre = true.
Proof.
  induction cs as [|c r IH]; intros k H; cbn in H; [discriminate|].
  destruct (in_dom s v (c_dom c)) eqn:I.
  - destruct (IH k H) as [pre [c' [post [E [K [D P]]]]]]. exists (c :: pre), c', post. subst r.
    repeat split; try assumption. cbn. rewrite I. exact P.
  - inversion H; subst. exists [], c, r. repeat split; assumption.
Qed.

(* accepted <-> inside the documented domain; accepted values are stored unchanged, the rest is untouched *)
Theorem guard_accepts_iff_documented : forall g s v,
  guard_ok g = true -> state_ok g s = true -> pre_holds g s = true ->
  ((exists s', setter g s v = Stored s') <-> in_domain g s v = true) /\
  (forall s', setter g s v = Stored s' ->
     lookup s' (g_attr g) = Some v /\ forall b, g_attr g <> b -> lookup s' b = lookup s b).
Proof.
  intros g s v H Hs Hp. rewrite (guard_sound g s v H Hs Hp). unfold spec_outcome, in_domain. split.
  - destruct (first_undoc s v (g_clauses g)) eqn:F.
    + split; [intros [s' E]; discriminate|]. intro A. apply first_undoc_none in A. congruence.
    + split; [intros _; apply first_undoc_none; exact F | eauto].
  - intros s' E. destruct (first_undoc s v (g_clauses g)); [discriminate|]. inversion E; subst.
    split; [apply lookup_upd_same | intros b Hb; apply lookup_upd_other; exact Hb].
Qed.

(* rejected: the library's typed error of the FIRST clause whose documented domain fails, of the class the
   message belongs to, and the state is the state before the call; no other exception escapes *)
Theorem guard_rejects_typed_atomically : forall g s v,
  guard_ok g = true -> state_ok g s = true -> pre_holds g s = true -> in_domain g s v = false ->
  exists pre c post, g_clauses g = pre ++ c :: post /\
    setter g s v = Raised (c_kind c) s /\ c_kind c = kind_of_dom (c_dom c) /\
    in_dom s v (c_dom c) = false /\ forallb (fun c => in_dom s v (c_dom c)) pre = true.
Proof.
  intros g s v H Hs Hp D. rewrite (guard_sound g s v H Hs Hp). unfold spec_outcome.
  destruct (first_undoc s v (g_clauses g)) as [k|] eqn:F.
  - destruct (first_undoc_some s v _ k F) as [pre [c [post [E [K [I P]]]]]].
    exists pre, c, post. repeat split; try assumption; [rewrite K; reflexivity|].
    (* kind agrees with the message class: from clauses_ok *)
    clear - H E Hs. unfold guard_ok in H. unfold state_ok in Hs. rewrite E in H, Hs. clear E.
    generalize dependent k0. induction pre as [|p pre IH]; intros k H.
    + cbn in H. apply andb_prop in H. destruct H as [H _]. unfold clause_ok in H.
      apply andb_prop in H. destruct H as [H _]. apply ekind_eqb_eq in H. exact H.
    + cbn in H. apply andb_prop in H. destruct H as [_ H]. cbn in Hs. apply andb_prop in Hs.
      destruct Hs as [_ Hs]. exact (IH Hs _ H).
  - apply first_undoc_none in F. unfold in_domain in D. congruence.
Qed.

(* when the precondition of a conditional guard fails the setter resets the attribute to None *)
Theorem guard_pre_fails_resets : forall g s v, pre_holds g s = false ->
  setter g s v = Stored (upd s (g_attr g) VNone).
Proof. intros g s v H. unfold setter. rewrite H. reflexivity. Qed.

(* Prop-level reading of the numeric documented domains *)
Definition xle_prop (a b : xq) : Prop :=
  match a, b with
  | NInf, _ => True | _, PInf => True | Fin x, Fin y => (x <= y)%Q | _, _ => False
  end.
Definition xlt_prop (a b : xq) : Prop :=
  match a, b with
  | PInf, _ => False | _, NInf => False | Fin x, Fin y => (x < y)%Q | _, _ => True
  end.

Lemma xle_iff : forall a b, xle a b = true <-> xle_prop a b.
Proof. intros [|x|] [|y|]; cbn; try tauto; try (split; [discriminate|tauto]). apply qleb_spec. Qed.
Lemma xlt_iff : forall a b, xlt a b = true <-> xlt_prop a b.
Proof. intros [|x|] [|y|]; cbn; try tauto; try (split; [discriminate|tauto]). apply qltb_spec. Qed.

Theorem in_dom_ge_spec : forall s v q, in_dom s v (DCmp Ge q) = true <-> exists x, num_of v = Some x /\ xle_prop (Fin q) x.
Proof.
  intros s v q; cbn [in_dom]. destruct (num_of v) as [x|]; cbn [cmp_eval].
  - rewrite xle_iff. split; [eauto | intros [y [E H]]; inversion E; subst; exact H].
  - split; [discriminate | intros [y [E _]]; discriminate].
Qed.

Theorem in_dom_gt_spec : forall s v q, in_dom s v (DCmp Gt q) = true <-> exists x, num_of v = Some x /\ xlt_prop (Fin q) x.
Proof.
  intros s v q; cbn [in_dom]. destruct (num_of v) as [x|]; cbn [cmp_eval].
  - rewrite xlt_iff. split; [eauto | intros [y [E H]]; inversion E; subst; exact H].
  - split; [discriminate | intros [y [E _]]; discriminate].
Qed.

Theorem in_dom_between_spec : forall s v lo hi, in_dom s v (DBetween lo hi) = true <->
  exists x, num_of v = Some x /\ xle_prop (Fin lo) x /\ xle_prop x (Fin hi).
Proof.
  intros s v lo hi; cbn [in_dom]. destruct (num_of v) as [x|].
  - rewrite andb_true_iff, !xle_iff. split; [eauto | intros [y [E H]]; inversion E; subst; exact H].
  - split; [discriminate | intros [y [E _]]; discriminate].
Qed.

(* ------------------------------------------------------------------ refutation by probes *)
Definition outcome_code (o : outcome) : nat :=
  match o with
  | Stored _ => 0 | Raised ETYPE _ => 1 | Raised EVALUE _ => 2 | Raised ESIZE _ => 3
  | Raised EARG _ => 4 | Raised EBUILD _ => 5 | Untyped _ => 6
  end%nat.

Definition dom_consts (d : dom) : list Q :=
  match d with DCmp _ q => [q] | DBetween lo hi => [lo; hi] | DArity n => [inject_Z (Z.of_nat n)] | _ => [] end.
Definition term_consts (t : term) : list Q := match t with TConst q => [q] | _ => [] end.
Fixpoint cond_consts (c : cond) : list Q :=
  match c with
  | CCmp _ a b => term_consts a ++ term_consts b
  | CNot x => cond_consts x
  | CAnd a b | COr a b => cond_consts a ++ cond_consts b
  | _ => []
  end.
Definition dom_selfs (d : dom) : list string := match d with DCmpSelf _ a | DSizeEq a => [a] | _ => [] end.
Definition term_selfs (t : term) : list string := match t with TSelf a => [a] | _ => [] end.
Fixpoint cond_selfs (c : cond) : list string :=
  match c with
  | CCmp _ a b => term_selfs a ++ term_selfs b
  | CNot x => cond_selfs x
  | CAnd a b | COr a b => cond_selfs a ++ cond_selfs b
  | _ => []
  end.

Definition guard_consts (g : guard) : list Q :=
  flat_map (fun c => dom_consts (c_dom c) ++ cond_consts (c_cond c)) (g_clauses g).
Definition guard_selfs (g : guard) : list string :=
  flat_map (fun c => dom_selfs (c_dom c) ++ cond_selfs (c_cond c)) (g_clauses g).

Definition eps : Q := 1 # 1024.

Definition around (q : Q) : list pyval :=
  [VFloat (Fin (q - 1)); VFloat (Fin (q - eps)); VFloat (Fin q); VFloat (Fin (q + eps)); VFloat (Fin (q + 1))] ++
  (if Z.eqb (Z.pos (Qden q)) 1 then [VInt (Qnum q - 1); VInt (Qnum q); VInt (Qnum q + 1)] else []).

Definition base_probes : list pyval :=
  [VNone; VBool false; VBool true; VInt (-1); VInt 0; VInt 1; VInt 2; VInt 3;
   VFloat NInf; VFloat PInf; VFloat (Fin (-1)); VFloat (Fin 0); VFloat (Fin (1 # 2)); VFloat (Fin 1); VFloat (Fin 2);
   VNpInt 0; VNpInt 1; VStr ""; VStr "1"; VStr "TERMINAL"; VStr "FUNCTION";
   VList 0; VList 2; VTuple 0; VTuple 1; VDict 0; VDict 1;
   VArr [] true; VArr [0%nat] false; VArr [1%nat] true; VArr [1%nat] false; VArr [2%nat] true; VArr [3%nat] true;
   VArr [4%nat] true; VArr [3%nat; 2%nat] true;
   VCallable 0; VCallable 1; VCallable 2;
   VObj ONode None 1; VObj OAgent None 2; VObj OFunction (Some true) 3; VObj OFunction (Some false) 4;
   VObj OSpace (Some true) 5; VObj OSpace (Some false) 6; VObj OOptimizer (Some true) 7;
   VObj OOptimizer (Some false) 8; VObj OOther None 9].

Definition probe_values (g : guard) : list pyval := base_probes ++ flat_map around (guard_consts g).

Definition pre_state (g : guard) : state :=
  match g_pre g with Some (a, x) => [(a, VStr x)] | None => [] end.

Definition stagger (ws : list pyval) (selfs : list string) : state :=
  map (fun aw => (fst aw, snd aw)) (combine selfs ws).

Definition probe_states (g : guard) : list state :=
  map (fun w => map (fun a => (a, w)) (guard_selfs g) ++ pre_state g)
      [VInt 0; VInt 1; VInt 3; VFloat (Fin (1 # 2))] ++
  (* companions holding different values, so that a guard reading the wrong companion is told apart *)
  map (fun ws => stagger ws (guard_selfs g) ++ pre_state g)
      [[VInt 0; VInt 3; VInt 1; VInt 2; VInt 0; VInt 3];
       [VInt 3; VInt 0; VInt 2; VInt 1; VInt 3; VInt 0];
       [VFloat (Fin (1 # 2)); VInt 1; VInt 0; VInt 3; VInt 1; VInt 0]].

Definition disagrees (g : guard) (s : state) (v : pyval) : bool :=
  state_ok g s && pre_holds g s &&
  negb (Nat.eqb (outcome_code (setter g s v)) (outcome_code (spec_outcome g s v))).

Definition probes (g : guard) : list (state * pyval) := list_prod (probe_states g) (probe_values g).

Definition refutations_on (ps : list (state * pyval)) (g : guard) : list (state * pyval) :=
  filter (fun sv => disagrees g (fst sv) (snd sv)) ps.

Definition refuted_on (ps : list (state * pyval)) (g : guard) : bool :=
  negb (Nat.eqb (List.length (refutations_on ps g)) 0).

Lemma filter_nonempty_witness : forall (A : Type) (f : A -> bool) (l : list A),
  negb (Nat.eqb (List.length (filter f l)) 0) = true -> exists x, In x l /\ f x = true.
Proof.
  intros A f l. induction l as [|x r IH]; intro H; [discriminate|].
  destruct (f x) eqn:F.
  - exists x. split; [left; reflexivity | exact F].
  - assert (H' : negb (Nat.eqb (List.length (filter f r)) 0) = true).
    { replace (filter f (x :: r)) with (filter f r) in H; [exact H|]. simpl. rewrite F. reflexivity. }
    destruct (IH H') as [y [I E]]. exists y. split; [right; exact I | exact E].
Qed.

(* whatever the probe list: a reported refutation is a genuine counterexample *)
Lemma refuted_on_sound : forall ps g, refuted_on ps g = true ->
  exists s v, state_ok g s = true /\ pre_holds g s = true /\ setter g s v <> spec_outcome g s v.
Proof.
  intros ps g H. unfold refuted_on, refutations_on in H.
  destruct (filter_nonempty_witness _ _ _ H) as [[s v] [_ D]]. clear H.
  change (disagrees g s v = true) in D. unfold disagrees in D.
  apply andb_prop in D. destruct D as [D N]. apply andb_prop in D. destruct D as [S P].
  exists s, v. split; [exact S|]. split; [exact P|].
  intro Q. rewrite Q in N. rewrite Nat.eqb_refl in N. discriminate.
Qed.

Definition refutations (g : guard) : list (state * pyval) := refutations_on (probes g) g.
Definition guard_refuted (g : guard) : bool := refuted_on (probes g) g.

Theorem guard_refuted_sound : forall g, guard_refuted g = true ->
  exists s v, state_ok g s = true /\ pre_holds g s = true /\ setter g s v <> spec_outcome g s v.
Proof. intro g. exact (refuted_on_sound (probes g) g). Qed.

(* a refuted guard cannot pass the syntactic check (so the two verdicts are exclusive) *)
Theorem guard_ok_not_refuted : forall g, guard_ok g = true -> guard_refuted g = false.
Proof.
  intros g H. destruct (guard_refuted g) eqn:R; [|reflexivity].
  destruct (guard_refuted_sound g R) as [s [v [S [P N]]]]. exfalso. apply N. apply guard_sound; assumption.
Qed.

(* categories of disagreement, for reporting: 1 accepted outside the documented domain, 2 rejected inside it,
   3 an untyped exception escapes, 4 typed error of another kind than documented *)
Definition category (g : guard) (s : state) (v : pyval) : nat :=
  match setter g s v, spec_outcome g s v with
  | Untyped _, _ => 3
  | Stored _, Raised _ _ => 1
  | Raised _ _, Stored _ => 2
  | _, _ => 4
  end%nat.

(* ------------------------------------------------------------------ executable comparison (correspondence runs) *)
Definition xq_eqb (a b : xq) : bool :=
  match a, b with
  | NInf, NInf | PInf, PInf => true
  | Fin x, Fin y => Qeq_bool x y
  | _, _ => false
  end.

Definition ocls_eqb (a b : ocls) : bool :=
  match a, b with
  | ONode, ONode | OAgent, OAgent | OFunction, OFunction | OSpace, OSpace | OOptimizer, OOptimizer
  | OOther, OOther => true
  | _, _ => false
  end.

Definition obool_eqb (a b : option bool) : bool :=
  match a, b with
  | None, None => true
  | Some x, Some y => Bool.eqb x y
  | _, _ => false
  end.

Definition pyval_eqb (a b : pyval) : bool :=
  match a, b with
  | VNone, VNone => true
  | VBool x, VBool y => Bool.eqb x y
  | VInt x, VInt y | VNpInt x, VNpInt y => Z.eqb x y
  | VFloat x, VFloat y => xq_eqb x y
  | VStr x, VStr y => String.eqb x y
  | VList x, VList y | VTuple x, VTuple y | VDict x, VDict y | VCallable x, VCallable y => Nat.eqb x y
  | VArr s1 t1, VArr s2 t2 => Bool.eqb t1 t2 && Nat.eqb (List.length s1) (List.length s2)
                              && forallb (fun p => Nat.eqb (fst p) (snd p)) (combine s1 s2)
  | VObj c1 b1 i1, VObj c2 b2 i2 => ocls_eqb c1 c2 && obool_eqb b1 b2 && Nat.eqb i1 i2
  | _, _ => false
  end.

(* observed behaviour of the real setter: code (0 stored / 1-5 typed kinds / 6 untyped) and, when stored,
   the abstraction of what the attribute holds afterwards *)
Definition setter_matches (g : guard) (s : state) (v : pyval) (code : nat) (stored : pyval) : bool :=
  match setter g s v with
  | Stored s' => Nat.eqb code 0 &&
                 match lookup s' (g_attr g) with Some w => pyval_eqb w stored | None => false end
  | o => Nat.eqb code (outcome_code o)
  end.

(* ------------------------------------------------------------------ hyperparameter dictionaries *)
(* `_build` / `_rebuild`: for each item (key, guard) in source order, `if key in d: self.<attr> = d[key]` *)
Definition pydict := list (string * pyval).

Fixpoint run_build (items : list (string * guard)) (s : state) (d : pydict) : outcome :=
  match items with
  | [] => Stored s
  | (k, g) :: r =>
      match lookup d k with
      | None => run_build r s d
      | Some v => match setter g s v with
                  | Stored s' => run_build r s' d
                  | o => o
                  end
      end
  end.

Definition build_item_ok (kg : string * guard) : bool := String.eqb (fst kg) (g_attr (snd kg)).

Fixpoint nodup_str (l : list string) : bool :=
  match l with [] => true | x :: r => negb (existsb (String.eqb x) r) && nodup_str r end.

Definition build_ok (items : list (string * guard)) : bool :=
  forallb build_item_ok items && nodup_str (map fst items).

(* every present key is validated by the setter of the same-named attribute, in order; a rejection is the
   typed error of that setter *)
Theorem run_build_validates : forall items s d,
  match run_build items s d with
  | Stored s' => forall k g v, In (k, g) items -> lookup d k = Some v ->
                   exists s1, setter g s1 v = Stored (upd s1 (g_attr g) v) \/
                              (pre_holds g s1 = false /\ setter g s1 v = Stored (upd s1 (g_attr g) VNone))
  | Raised e s' => exists k g v, In (k, g) items /\ lookup d k = Some v /\ setter g s' v = Raised e s'
  | Untyped s' => exists k g v, In (k, g) items /\ lookup d k = Some v /\ setter g s' v = Untyped s'
  end.
Proof.
  induction items as [|[k g] r IH]; intros s d; cbn.
  - intros k g v [].
  - destruct (lookup d k) as [v|] eqn:L.
    + destruct (setter g s v) as [s1|e s1|s1] eqn:S.
      * specialize (IH s1 d). destruct (run_build r s1 d) as [s2|e s2|s2].
        -- intros k' g' v' [E|I] L'.
           ++ inversion E; subst. rewrite L in L'. inversion L'; subst. exists s.
              unfold setter in S |- *. destruct (pre_holds g' s).
              ** left. destruct (first_fail s v' (g_clauses g')) as [[?|]|]; try discriminate. reflexivity.
              ** right. split; reflexivity.
           ++ exact (IH k' g' v' I L').
        -- destruct IH as [k' [g' [v' [I [L' E]]]]]. exists k', g', v'. split; [right; exact I | split; assumption].
        -- destruct IH as [k' [g' [v' [I [L' E]]]]]. exists k', g', v'. split; [right; exact I | split; assumption].
      * exists k, g, v. split; [left; reflexivity|]. split; [exact L|].
        assert (s1 = s) by (unfold setter in S; destruct (pre_holds g s); [destruct (first_fail s v (g_clauses g)) as [[?|]|]|]; inversion S; reflexivity).
        subst s1. exact S.
      * exists k, g, v. split; [left; reflexivity|]. split; [exact L|].
        assert (s1 = s) by (unfold setter in S; destruct (pre_holds g s); [destruct (first_fail s v (g_clauses g)) as [[?|]|]|]; inversion S; reflexivity).
        subst s1. exact S.
    + specialize (IH s d). destruct (run_build r s d) as [s2|e s2|s2].
      * intros k' g' v' [E|I] L'; [inversion E; subst; congruence | exact (IH k' g' v' I L')].
      * destruct IH as [k' [g' [v' [I [L' E]]]]]. exists k', g', v'. split; [right; exact I | split; assumption].
      * destruct IH as [k' [g' [v' [I [L' E]]]]]. exists k', g', v'. split; [right; exact I | split; assumption].
Qed.

(* setters never touch other attributes *)
Lemma setter_frame : forall g s v s' b, setter g s v = Stored s' -> g_attr g <> b -> lookup s' b = lookup s b.
Proof.
  intros g s v s' b S N. unfold setter in S. destruct (pre_holds g s).
  - destruct (first_fail s v (g_clauses g)) as [[?|]|]; try discriminate. inversion S; subst.
    apply lookup_upd_other; exact N.
  - inversion S; subst. apply lookup_upd_other; exact N.
Qed.

Lemma run_build_frame : forall items s d s' b, run_build items s d = Stored s' ->
  existsb (String.eqb b) (map (fun kg => g_attr (snd kg)) items) = false -> lookup s' b = lookup s b.
Proof.
  induction items as [|[k g] r IH]; intros s d s' b H N; cbn in H.
  - inversion H; reflexivity.
  - cbn in N. apply orb_false_elim in N. destruct N as [N1 N2].
    assert (g_attr g <> b) by (intro E; subst b; rewrite String.eqb_refl in N1; discriminate).
    destruct (lookup d k) as [v|].
    + destruct (setter g s v) as [s1|e s1|s1] eqn:S; try discriminate.
      rewrite (IH s1 d s' b H N2). eapply setter_frame; eassumption.
    + exact (IH s d s' b H N2).
Qed.

(* with same-named keys, distinct: an accepted dictionary leaves every present key's value in its attribute *)
Theorem run_build_stores : forall items s d s',
  build_ok items = true -> run_build items s d = Stored s' ->
  forall k g v, In (k, g) items -> lookup d k = Some v -> g_pre g = None -> lookup s' k = Some v.
Proof.
  induction items as [|[k0' g0] r IH]; intros s d s' B H k g v I L P; [destruct I|].
  unfold build_ok in B. apply andb_prop in B. destruct B as [B1 B2]. cbn in B1, B2.
  apply andb_prop in B1. destruct B1 as [B1 B1r]. apply andb_prop in B2. destruct B2 as [B2 B2r].
  unfold build_item_ok in B1. cbn in B1. apply String.eqb_eq in B1.
  assert (Br : build_ok r = true) by (unfold build_ok; rewrite B1r, B2r; reflexivity).
  cbn in H. destruct I as [E|I].
  - injection E as E1 E2. rewrite E1, E2 in *. clear E1 E2. rewrite L in H.
    destruct (setter g s v) as [s1|e s1|s1] eqn:S; try discriminate.
    assert (F : existsb (String.eqb k) (map (fun kg => g_attr (snd kg)) r) = false).
    { apply negb_true_iff in B2. clear - B2 B1r. induction r as [|[k1 g1] r IHr]; [reflexivity|].
      cbn in *. apply andb_prop in B1r. destruct B1r as [A1 A2]. unfold build_item_ok in A1. cbn in A1.
      apply String.eqb_eq in A1. subst k1. apply orb_false_elim in B2. destruct B2 as [C1 C2].
      rewrite C1. cbn. apply IHr; assumption. }
    rewrite (run_build_frame r s1 d s' k H F).
    unfold setter in S. unfold pre_holds in S. rewrite P in S.
    destruct (first_fail s v (g_clauses g)) as [[?|]|]; try discriminate. injection S as S1. rewrite <- S1.
    rewrite B1. apply lookup_upd_same.
  - destruct (lookup d k0') as [v0|].
    + destruct (setter g0 s v0) as [s1|e s1|s1]; try discriminate. exact (IH s1 d s' Br H k g v I L P).
    + exact (IH s d s' Br H k g v I L P).
Qed.

Definition build_matches (items : list (string * guard)) (s : state) (d : pydict) (code : nat) : bool :=
  Nat.eqb code (outcome_code (run_build items s d)).

(* ------------------------------------------------------------------ order in which a build applies its keys *)
(* the companions a guard's MESSAGES mention (`x` should be >= `a`, the same size as `a`) *)
Definition doc_selfs (g : guard) : list string := flat_map (fun c => dom_selfs (c_dom c)) (g_clauses g).

(* no documented companion of an item is assigned by that item or by a LATER one: when a key is validated its
   companions already hold their final values (X_min is applied before X_max) *)
Fixpoint build_order_ok (items : list (string * guard)) : bool :=
  match items with
  | [] => true
  | (k, g) :: r =>
      forallb (fun a => negb (existsb (String.eqb a) (k :: map fst r))) (doc_selfs g) && build_order_ok r
  end.

Lemma attrs_are_keys : forall r, forallb build_item_ok r = true ->
  map (fun kg : string * guard => g_attr (snd kg)) r = map fst r.
Proof.
  induction r as [|[k g] r IH]; cbn; intro H; [reflexivity|].
  apply andb_prop in H. destruct H as [A B]. unfold build_item_ok in A. cbn in A. apply String.eqb_eq in A.
  rewrite <- A. f_equal. exact (IH B).
Qed.

Lemma in_dom_frame : forall s1 s2 v d, (forall a, In a (dom_selfs d) -> lookup s1 a = lookup s2 a) ->
  in_dom s1 v d = in_dom s2 v d.
Proof.
  intros s1 s2 v d H. destruct d; cbn [in_dom]; try reflexivity; unfold self_num;
    rewrite (H a) by (left; reflexivity); reflexivity.
Qed.

Lemma dom_state_ok_frame : forall s1 s2 d, (forall a, In a (dom_selfs d) -> lookup s1 a = lookup s2 a) ->
  dom_state_ok s1 d = dom_state_ok s2 d.
Proof.
  intros s1 s2 d H. destruct d; cbn [dom_state_ok]; try reflexivity; unfold self_num;
    rewrite (H a) by (left; reflexivity); reflexivity.
Qed.

Lemma in_domain_frame : forall g s1 s2 v, (forall a, In a (doc_selfs g) -> lookup s1 a = lookup s2 a) ->
  in_domain g s1 v = in_domain g s2 v.
Proof.
  intros g s1 s2 v. unfold in_domain, doc_selfs. induction (g_clauses g) as [|c r IH]; intro H; [reflexivity|].
  cbn. rewrite (in_dom_frame s1 s2 v (c_dom c)).
  - rewrite IH; [reflexivity|]. intros a I. apply H. cbn. apply in_or_app. right. exact I.
  - intros a I. apply H. cbn. apply in_or_app. left. exact I.
Qed.

Lemma state_ok_frame : forall g s1 s2, (forall a, In a (doc_selfs g) -> lookup s1 a = lookup s2 a) ->
  state_ok g s1 = state_ok g s2.
Proof.
  intros g s1 s2. unfold state_ok, doc_selfs. induction (g_clauses g) as [|c r IH]; intro H; [reflexivity|].
  cbn. rewrite (dom_state_ok_frame s1 s2 (c_dom c)).
  - rewrite IH; [reflexivity|]. intros a I. apply H. cbn. apply in_or_app. right. exact I.
  - intros a I. apply H. cbn. apply in_or_app. left. exact I.
Qed.

(* with the order check, every present key was validated in a state whose documented companions are the FINAL ones *)
Lemma run_build_companions_final : forall items s d s',
  forallb build_item_ok items = true -> build_order_ok items = true -> run_build items s d = Stored s' ->
  forall k g v, In (k, g) items -> lookup d k = Some v ->
  exists s1, (exists s2, setter g s1 v = Stored s2) /\ forall a, In a (doc_selfs g) -> lookup s1 a = lookup s' a.
Proof.
  induction items as [|[k0 g0] r IH]; intros s d s' B O R k g v I L; [destruct I|].
  cbn in B, O, R. apply andb_prop in B. destruct B as [B1 Br]. apply andb_prop in O. destruct O as [O1 Or].
  destruct I as [E|I].
  - injection E as E1 E2. rewrite E1, E2 in *. clear E1 E2. rewrite L in R.
    destruct (setter g s v) as [s2|e s2|s2] eqn:S; try discriminate.
    exists s. split; [exists s2; exact S|].
    intros a Ia. rewrite forallb_forall in O1. specialize (O1 a Ia). apply negb_true_iff in O1.
    cbn in O1. apply orb_false_elim in O1. destruct O1 as [N1 N2].
    unfold build_item_ok in B1. cbn in B1. apply String.eqb_eq in B1.
    assert (Hne : g_attr g <> a).
    { intro X. rewrite <- X, <- B1 in N1. rewrite String.eqb_refl in N1. discriminate. }
    rewrite <- (setter_frame g s v s2 a S Hne).
    symmetry. apply (run_build_frame r s2 d s' a R). rewrite (attrs_are_keys r Br). exact N2.
  - destruct (lookup d k0) as [v0|].
    + destruct (setter g0 s v0) as [s2|e s2|s2]; try discriminate. exact (IH s2 d s' Br Or R k g v I L).
    + exact (IH s d s' Br Or R k g v I L).
Qed.

(* an ACCEPTED dictionary leaves an object in which every present key's value lies in its documented domain
   evaluated against the FINAL companions -- in particular X_max >= X_min with both values of the dictionary *)
Theorem run_build_final_state_documented : forall items s d s',
  forallb build_item_ok items = true -> build_order_ok items = true -> run_build items s d = Stored s' ->
  forall k g v, In (k, g) items -> lookup d k = Some v ->
  guard_ok g = true -> g_pre g = None -> state_ok g s' = true -> in_domain g s' v = true.
Proof.
  intros items s d s' B O R k g v I L G P Hs'.
  destruct (run_build_companions_final items s d s' B O R k g v I L) as [s1 [[s2 S] F]].
  rewrite <- (in_domain_frame g s1 s' v F).
  assert (Hs : state_ok g s1 = true) by (rewrite (state_ok_frame g s1 s' F); exact Hs').
  assert (Hp : pre_holds g s1 = true) by (unfold pre_holds; rewrite P; reflexivity).
  destruct (guard_accepts_iff_documented g s1 v G Hs Hp) as [[X _] _]. apply X. exists s2. exact S.
Qed.
