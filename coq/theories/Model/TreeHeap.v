(* Pointer-level model of the GP trees of /repo (core/node.py, spaces/tree.py, optimizers/gp.py).

   A Python [Node] object is a [cell] of a heap; object identity is the index of the cell; allocation is
   append (so everything already allocated keeps its index and its contents unless it is written to).
   NumPy arrays are only identities here ([c_val : option nat], ids below [narr] exist); array contents
   are not modelled in this file (C10/C12).

   Every operation is written as the code is: the same reads, the same pointer assignments in the same
   order.  A result is [Ok v], [Exn] (the Python code raises: AttributeError on [None.parent], IndexError,
   KeyError) or [Stuck] (the model's fuel or its script of random draws is exhausted, or the input is
   outside the domain of the model, e.g. [deepcopy] of a node whose [parent] chain leaves the tree).

   Randomness: [generate_uniform_random_number(low, high)] is answered from a script of fractions
   [(n, d)] standing for u = n/d (contract: n < d, i.e. u in [0,1)); the code's [int(draw)] is
   [scale low high (n,d) = low + floor((high-low)*n/d)].  [np.random.choice(fitness)] is answered from a
   script of indices into [fitness].

   No proofs in this file (they are in Model/TreeHeapProofs*.v); everything here is executable and is
   evaluated by [vm_compute] in the correspondence run of props/C08.py / props/C09.py. *)
From Coq Require Import List Arith Bool ZArith.
From OV Require Import Model.TreeDef.
Import ListNotations.

(* ------------------------------------------------------------------ results *)
Inductive res (A : Type) : Type := Ok (a : A) | Exn | Stuck.
Arguments Ok {A} a.
Arguments Exn {A}.
Arguments Stuck {A}.

Definition bind {A B : Type} (x : res A) (f : A -> res B) : res B :=
  match x with Ok a => f a | Exn => Exn | Stuck => Stuck end.

(* ------------------------------------------------------------------ heap *)
Record cell := mkCell {
  c_lab : label;               (* Term k: type TERMINAL, name k;  Fun op: type FUNCTION, name = op-th operator *)
  c_left : option nat;
  c_right : option nat;
  c_parent : option nat;
  c_flag : bool;               (* "is a left child" *)
  c_val : option nat           (* identity of the ndarray held in [value] *)
}.

Record hstate := mkH { cells : list cell; narr : nat }.

Definition get (st : hstate) (i : nat) : option cell := nth_error (cells st) i.

Fixpoint upd_nth {A : Type} (i : nat) (f : A -> A) (l : list A) : list A :=
  match l with
  | [] => []
  | x :: l' => match i with 0 => f x :: l' | S i' => x :: upd_nth i' f l' end
  end.

Definition upd (st : hstate) (i : nat) (f : cell -> cell) : hstate := mkH (upd_nth i f (cells st)) (narr st).

Definition w_left (v : option nat) (c : cell) := mkCell (c_lab c) v (c_right c) (c_parent c) (c_flag c) (c_val c).
Definition w_right (v : option nat) (c : cell) := mkCell (c_lab c) (c_left c) v (c_parent c) (c_flag c) (c_val c).
Definition w_parent (v : option nat) (c : cell) := mkCell (c_lab c) (c_left c) (c_right c) v (c_flag c) (c_val c).
Definition w_flag (v : bool) (c : cell) := mkCell (c_lab c) (c_left c) (c_right c) (c_parent c) v (c_val c).

(* Node(name, type, value): left = right = parent = None, flag = True *)
Definition new_cell (lab : label) (val : option nat) : cell := mkCell lab None None None true val.

Definition alloc (st : hstate) (c : cell) : nat * hstate :=
  (length (cells st), mkH (cells st ++ [c]) (narr st)).

(* ------------------------------------------------------------------ environment of a TreeSpace *)
(* g_nt = n_terminals (terminal k holds the array with identity k: space.terminals[k].position, which is
   written in place by _initialize_terminals and therefore never changes identity);
   g_funs = space.functions as indices into the operator table; g_arity = N_ARGS_FUNCTION as a table
   (regenerated from utils/constants.py: Gen/TreeArity.v); g_d0 = max_depth - min_depth. *)
Record genv := mkEnv { g_nt : nat; g_funs : list nat; g_arity : list nat; g_d0 : nat }.

Definition frac := (nat * nat)%type.
Definition scale (lo hi : nat) (u : frac) : nat := lo + ((hi - lo) * fst u) / snd u.

(* ------------------------------------------------------------------ TreeSpace.grow *)
(* for i in range(arity): node = self.grow(min_depth+1, max_depth); left/right; flag; parent *)
Fixpoint grow_args (g : list frac -> hstate -> res (nat * hstate * list frac)) (fn : nat) (n i : nat)
         (ds : list frac) (st : hstate) : res (hstate * list frac) :=
  match n with
  | 0 => Ok (st, ds)
  | S n' =>
    match g ds st with
    | Ok (node, st1, ds1) =>
      let st2 := match i with
                 | 0 => upd st1 fn (w_left (Some node))
                 | S _ => upd (upd st1 fn (w_right (Some node))) node (w_flag false)
                 end in
      grow_args g fn n' (S i) ds1 (upd st2 node (w_parent (Some fn)))
    | Exn => Exn
    | Stuck => Stuck
    end
  end.

(* [d] = max_depth - min_depth of the call (the recursion calls grow(min_depth+1, max_depth)). *)
Fixpoint grow (E : genv) (d : nat) (ds : list frac) (st : hstate) : res (nat * hstate * list frac) :=
  match ds with
  | [] => Stuck
  | u :: ds1 =>
    match d with
    | 0 =>
      let k := scale 0 (g_nt E) u in
      if k <? g_nt E then let (n, st1) := alloc st (new_cell (Term k) (Some k)) in Ok (n, st1, ds1) else Exn
    | S d' =>
      let v := scale 0 (length (g_funs E) + g_nt E) u in
      if length (g_funs E) <=? v then
        let k := v - length (g_funs E) in
        if k <? g_nt E then let (n, st1) := alloc st (new_cell (Term k) (Some k)) in Ok (n, st1, ds1) else Exn
      else
        match nth_error (g_funs E) v with
        | None => Exn
        | Some op =>
          match nth_error (g_arity E) op with
          | None => Exn                                  (* KeyError in N_ARGS_FUNCTION *)
          | Some ar =>
            let (fn, st1) := alloc st (new_cell (Fun op) None) in
            match grow_args (grow E d') fn ar 0 ds1 st1 with
            | Ok (st2, ds2) => Ok (fn, st2, ds2)
            | Exn => Exn
            | Stuck => Stuck
            end
          end
        end
    end
  end.

(* ------------------------------------------------------------------ Node.pre_order, Node.find_node *)
(* root-left-right over the stored child pointers (the explicit-stack loop of the code computes the same
   list: C11, pre_stack = pre_rec).  Fuel bounds the depth. *)
Fixpoint pre_h (fuel : nat) (st : hstate) (i : nat) : res (list nat) :=
  match fuel with
  | 0 => Stuck
  | S f =>
    match get st i with
    | None => Exn
    | Some c =>
      match (match c_left c with None => Ok [] | Some a => pre_h f st a end) with
      | Ok l =>
        match (match c_right c with None => Ok [] | Some b => pre_h f st b end) with
        | Ok r => Ok (i :: l ++ r)
        | Exn => Exn
        | Stuck => Stuck
        end
      | Exn => Exn
      | Stuck => Stuck
      end
    end
  end.

Definition pre_order (st : hstate) (i : nat) : res (list nat) := pre_h (S (length (cells st))) st i.

(* find_node(position): uses the *stored* parent / flag fields *)
Definition find_node (st : hstate) (r p : nat) : res (option nat * bool) :=
  match pre_order st r with
  | Ok pre =>
    match nth_error pre p with
    | None => Ok (None, false)                       (* len(pre_order) > position fails *)
    | Some n =>
      match get st n with
      | None => Exn
      | Some c =>
        match c_lab c with
        | Term _ => Ok (c_parent c, c_flag c)
        | Fun _ =>
          match c_parent c with
          | None => Exn                              (* node.parent.parent with node.parent = None *)
          | Some q =>
            match get st q with
            | None => Exn
            | Some cq =>
              match c_parent cq with
              | Some g => Ok (Some g, c_flag cq)
              | None => Ok (None, false)
              end
            end
          end
        end
      end
    end
  | Exn => Exn
  | Stuck => Stuck
  end.

(* ------------------------------------------------------------------ abstraction to the functional tree *)
(* reads the child pointers only; ids are the cell indices *)
Fixpoint abs_f (fuel : nat) (st : hstate) (i : nat) : option tree :=
  match fuel with
  | 0 => None
  | S f =>
    match get st i with
    | None => None
    | Some c =>
      match (match c_left c with
             | None => Some None
             | Some a => match abs_f f st a with Some t => Some (Some t) | None => None end
             end) with
      | None => None
      | Some l =>
        match (match c_right c with
               | None => Some None
               | Some b => match abs_f f st b with Some t => Some (Some t) | None => None end
               end) with
        | None => None
        | Some r => Some (N i (c_lab c) l r)
        end
      end
    end
  end.

Definition abs (st : hstate) (i : nat) : option tree := abs_f (S (length (cells st))) st i.

(* ------------------------------------------------------------------ copy.deepcopy(tree) *)
Fixpoint index_of (x : nat) (l : list nat) : nat :=
  match l with [] => 0 | y :: l' => if Nat.eqb x y then 0 else S (index_of x l') end.

Fixpoint dedup (l : list nat) (seen : list nat) : list nat :=
  match l with
  | [] => []
  | x :: l' => if existsb (Nat.eqb x) seen then dedup l' seen else x :: dedup l' (x :: seen)
  end.

Definition mem (x : nat) (l : list nat) : bool := existsb (Nat.eqb x) l.

Definition vals_of (st : hstate) (ids : list nat) : list nat :=
  flat_map (fun i => match get st i with Some c => match c_val c with Some a => [a] | None => [] end | None => [] end) ids.

Definition ren_cell (rn ra : nat -> nat) (c : cell) : cell :=
  mkCell (c_lab c) (option_map rn (c_left c)) (option_map rn (c_right c)) (option_map rn (c_parent c))
         (c_flag c) (option_map ra (c_val c)).

Definition parent_closed (st : hstate) (ids : list nat) : bool :=
  forallb (fun i => match get st i with
                    | Some c => match c_parent c with None => true | Some q => mem q ids end
                    | None => false end) ids.

(* deepcopy copies everything reachable through left/right/parent/value, once (memo), and returns the
   copy of the root.  Domain of the model: the left/right-reachable set is closed under [parent]
   (true for every well-formed root). *)
Definition deepcopy (st : hstate) (r : nat) : res (nat * hstate) :=
  match pre_order st r with
  | Ok pre =>
    let ids := dedup pre [] in
    if parent_closed st ids then
      let L := length (cells st) in
      let vs := dedup (vals_of st ids) [] in
      let rn := fun j => L + index_of j ids in
      let ra := fun a => narr st + index_of a vs in
      let copies := flat_map (fun i => match get st i with Some c => [ren_cell rn ra c] | None => [] end) ids in
      Ok (rn r, mkH (cells st ++ copies) (narr st + length vs))
    else Stuck
  | Exn => Exn
  | Stuck => Stuck
  end.

(* ------------------------------------------------------------------ GP._mutate *)
Definition child (side : bool) (c : cell) : option nat := if side then c_left c else c_right c.

Definition mutate (E : genv) (st : hstate) (tree max_nodes : nat) (ds : list frac) : res (nat * hstate * list frac) :=
  match deepcopy st tree with
  | Ok (m, st1) =>
    match ds with
    | [] => Stuck
    | u :: ds1 =>
      let point := scale 2 max_nodes u in
      match find_node st1 m point with
      | Ok (Some s, flag) =>
        match grow E (g_d0 E) ds1 st1 with
        | Ok (b, st2, ds2) =>
          let st3 := if flag
                     then upd (upd st2 s (w_left (Some b))) b (w_flag true)
                     else upd (upd st2 s (w_right (Some b))) b (w_flag false) in
          Ok (m, upd st3 b (w_parent (Some s)), ds2)
        | Exn => Exn
        | Stuck => Stuck
        end
      | Ok (None, _) => grow E (g_d0 E) ds1 st1
      | Exn => Exn
      | Stuck => Stuck
      end
    end
  | Exn => Exn
  | Stuck => Stuck
  end.

(* ------------------------------------------------------------------ GP._cross *)
(* x.flag = v where x is read from a pointer that may be None (AttributeError) *)
Definition set_flag_of (st : hstate) (p : option nat) (v : bool) : res hstate :=
  match p with None => Exn | Some x => Ok (upd st x (w_flag v)) end.
Definition set_parent_of (st : hstate) (p : option nat) (v : option nat) : res hstate :=
  match p with None => Exn | Some x => Ok (upd st x (w_parent v)) end.
Definition rd (st : hstate) (i : nat) (f : cell -> option nat) : option nat :=
  match get st i with Some c => f c | None => None end.

Definition cross_links (st : hstate) (sf sm : nat) (ff fm : bool) : res hstate :=
  (* first half: father's offspring *)
  bind (if ff then
          let branch := rd st sf c_left in
          bind (if fm
                then let st1 := upd st sf (w_left (rd st sm c_left)) in set_flag_of st1 (rd st1 sm c_left) true
                else let st1 := upd st sf (w_left (rd st sm c_right)) in set_flag_of st1 (rd st1 sm c_right) true)
               (fun st2 => Ok (branch, st2))
        else
          let branch := rd st sf c_right in
          bind (if fm
                then let st1 := upd st sf (w_right (rd st sm c_left)) in set_flag_of st1 (rd st1 sm c_left) false
                else let st1 := upd st sf (w_right (rd st sm c_right)) in set_flag_of st1 (rd st1 sm c_right) false)
               (fun st2 => Ok (branch, st2)))
       (fun bs => let (branch, st2) := bs in
          bind (if ff then set_parent_of st2 (rd st2 sf c_left) (Some sf)
                else set_parent_of st2 (rd st2 sf c_right) (Some sf))
               (fun st3 =>
                  (* second half: mother's offspring *)
                  bind (if fm
                        then set_flag_of (upd st3 sm (w_left branch)) branch true
                        else set_flag_of (upd st3 sm (w_right branch)) branch false)
                       (fun st4 => set_parent_of st4 branch (Some sm)))).

Definition cross (st : hstate) (father mother max_f max_m : nat) (ds : list frac) : res (nat * nat * hstate * list frac) :=
  match deepcopy st father with
  | Ok (fo, st1) =>
    match ds with
    | [] => Stuck
    | uf :: ds1 =>
      match find_node st1 fo (scale 2 max_f uf) with
      | Ok (sub_f, flag_f) =>
        match deepcopy st1 mother with
        | Ok (mo, st2) =>
          match ds1 with
          | [] => Stuck
          | um :: ds2 =>
            match find_node st2 mo (scale 2 max_m um) with
            | Ok (sub_m, flag_m) =>
              match sub_f, sub_m with
              | Some sf, Some sm =>
                match cross_links st2 sf sm flag_f flag_m with
                | Ok st3 => Ok (fo, mo, st3, ds2)
                | Exn => Exn
                | Stuck => Stuck
                end
              | _, _ => Ok (fo, mo, st2, ds2)
              end
            | Exn => Exn
            | Stuck => Stuck
            end
          end
        | Exn => Exn
        | Stuck => Stuck
        end
      | Exn => Exn
      | Stuck => Stuck
      end
    end
  | Exn => Exn
  | Stuck => Stuck
  end.

(* ------------------------------------------------------------------ population level *)
Record agent := mkAg { a_id : nat; a_fit : Z; a_tag : nat }.   (* identity, fit, what its position holds *)

Record pop := mkPop {
  p_heap : hstate;
  p_trees : list nat;          (* space.trees *)
  p_agents : list agent;       (* space.agents *)
  p_best : nat;                (* space.best_tree *)
  p_best_fit : option Z;       (* space.best_agent.fit; None = FLOAT_MAX (nothing evaluated yet) *)
  p_next_aid : nat
}.

Fixpoint set_nth {A : Type} (i : nat) (v : A) (l : list A) : list A :=
  match l with
  | [] => []
  | x :: l' => match i with 0 => v :: l' | S i' => x :: set_nth i' v l' end
  end.

(* np.argmax: first maximum *)
Fixpoint argmax_from (l : list Z) (i : nat) (best : Z) (bi : nat) : nat :=
  match l with
  | [] => bi
  | x :: l' => if Z.ltb best x then argmax_from l' (S i) x i else argmax_from l' (S i) best bi
  end.
Definition argmax (l : list Z) : nat := match l with [] => 0 | x :: l' => argmax_from l' 1 x 0 end.

Fixpoint first_eq (m : Z) (l : list Z) (i : nat) : option nat :=
  match l with [] => None | x :: l' => if Z.eqb x m then Some i else first_eq m l' (S i) end.

Fixpoint take_picks (k : nat) (fit : list Z) (picks : list nat) : res (list Z * list nat) :=
  match k with
  | 0 => Ok ([], picks)
  | S k' =>
    match picks with
    | [] => Stuck
    | p :: picks' =>
      match nth_error fit p with
      | None => Stuck
      | Some v => bind (take_picks k' fit picks') (fun r => Ok (v :: fst r, snd r))
      end
    end
  end.

Definition zmin_list (l : list Z) : option Z :=
  match l with [] => None | x :: l' => Some (fold_left Z.min l' x) end.

(* g.tournament_selection(fitness, n) with TOURNAMENT_SIZE = tsize *)
Fixpoint tournament (tsize : nat) (fit : list Z) (n : nat) (picks : list nat) : res (list nat * list nat) :=
  match n with
  | 0 => Ok ([], picks)
  | S n' =>
    bind (take_picks tsize fit picks) (fun r =>
      match zmin_list (fst r) with
      | None => Exn                                   (* min([]) *)
      | Some m =>
        match first_eq m fit 0 with
        | None => Exn
        | Some s => bind (tournament tsize fit n' (snd r)) (fun r2 => Ok (s :: fst r2, snd r2))
        end
      end)
  end.

(* GP._reproduction: the loop over the selected individuals *)
Fixpoint repro_loop (sel : list nat) (fitness : list Z) (P : pop) : res pop :=
  match sel with
  | [] => Ok P
  | s :: sel' =>
    let worst := argmax fitness in
    match nth_error (p_trees P) s, nth_error (p_agents P) s with
    | Some ts, Some ag =>
      match deepcopy (p_heap P) ts with
      | Ok (c, h') =>
        if worst <? length (p_trees P) then
          repro_loop sel' (set_nth worst 0%Z fitness)       (* fitness[worst] = 0 *)
            (mkPop h' (set_nth worst c (p_trees P))
                   (set_nth worst (mkAg (p_next_aid P) (a_fit ag) (a_tag ag)) (p_agents P))
                   (p_best P) (p_best_fit P) (S (p_next_aid P)))
        else Exn
      | Exn => Exn
      | Stuck => Stuck
      end
    | _, _ => Exn
    end
  end.

(* n = int(n_trees * p_reproduction), computed by the caller *)
Definition reproduction (tsize n : nat) (picks : list nat) (P : pop) : res (pop * list nat) :=
  let fitness := map a_fit (p_agents P) in
  bind (tournament tsize fitness n picks) (fun r =>
    bind (repro_loop (fst r) fitness P) (fun P' => Ok (P', snd r))).

(* GP._prune_nodes with prunning_ratio = rn/rd *)
Definition prune (ratio : frac) (n_nodes : nat) : nat :=
  let p := (n_nodes * (snd ratio - fst ratio)) / snd ratio in
  if p <=? 2 then 2 else p.

(* Node.n_nodes *)
Definition n_nodes (st : hstate) (r : nat) : res nat :=
  match pre_order st r with Ok l => Ok (length l) | Exn => Exn | Stuck => Stuck end.

Definition with_heap (P : pop) (h : hstate) (trees : list nat) : pop :=
  mkPop h trees (p_agents P) (p_best P) (p_best_fit P) (p_next_aid P).

(* GP._mutation: the loop *)
Fixpoint mutation_loop (E : genv) (ratio : frac) (sel : list nat) (ds : list frac) (P : pop) : res (pop * list frac) :=
  match sel with
  | [] => Ok (P, ds)
  | s :: sel' =>
    match nth_error (p_trees P) s with
    | None => Exn
    | Some ts =>
      bind (n_nodes (p_heap P) ts) (fun nn =>
        bind (if 1 <? nn then mutate E (p_heap P) ts (prune ratio nn) ds
              else grow E (g_d0 E) ds (p_heap P))
             (fun r => match r with (t', h', ds') =>
                mutation_loop E ratio sel' ds' (with_heap P h' (set_nth s t' (p_trees P))) end))
    end
  end.

Definition mutation (E : genv) (tsize : nat) (ratio : frac) (n : nat) (picks : list nat) (ds : list frac) (P : pop)
  : res (pop * list nat * list frac) :=
  bind (tournament tsize (map a_fit (p_agents P)) n picks) (fun r =>
    bind (mutation_loop E ratio (fst r) ds P) (fun q => Ok (fst q, snd r, snd q))).

(* GP._crossover: the loop over g.pairwise(selected) *)
Fixpoint crossover_loop (ratio : frac) (sel : list nat) (ds : list frac) (P : pop) : res (pop * list frac) :=
  match sel with
  | [] => Ok (P, ds)
  | s0 :: rest =>
    match rest with
    | [] => Exn                                            (* s[1] on a 1-tuple *)
    | s1 :: sel' =>
      match nth_error (p_trees P) s0, nth_error (p_trees P) s1 with
      | Some tf, Some tm =>
        bind (n_nodes (p_heap P) tf) (fun nf =>
          bind (n_nodes (p_heap P) tm) (fun nm =>
            if (1 <? nf) && (1 <? nm) then
              bind (cross (p_heap P) tf tm (prune ratio nf) (prune ratio nm) ds)
                   (fun r => match r with (fo, mo, h', ds') =>
                      crossover_loop ratio sel' ds'
                        (with_heap P h' (set_nth s1 mo (set_nth s0 fo (p_trees P)))) end)
            else crossover_loop ratio sel' ds P))
      | _, _ => Exn
      end
    end
  end.

(* n0 = int(n_trees * p_crossover); odd counts are rounded up *)
Definition crossover (tsize : nat) (ratio : frac) (n0 : nat) (picks : list nat) (ds : list frac) (P : pop)
  : res (pop * list nat * list frac) :=
  let n := if Nat.odd n0 then S n0 else n0 in
  bind (tournament tsize (map a_fit (p_agents P)) n picks) (fun r =>
    bind (crossover_loop ratio (fst r) ds P) (fun q => Ok (fst q, snd r, snd q))).

(* GP._evaluate, as far as trees are concerned: agent i gets the scripted fitness; a strictly better
   one makes best_tree a deep copy of tree i. *)
Definition better (f : Z) (b : option Z) : bool := match b with None => true | Some x => Z.ltb f x end.

Fixpoint sweep_loop (i : nat) (todo : list nat) (fits : list Z) (P : pop) : res (pop * list Z) :=
  match todo with
  | [] => Ok (P, fits)
  | t :: todo' =>
    match fits with
    | [] => Stuck
    | f :: fits' =>
      let ags := match nth_error (p_agents P) i with
                 | Some ag => set_nth i (mkAg (a_id ag) f (a_tag ag)) (p_agents P)
                 | None => p_agents P end in
      if better f (p_best_fit P) then
        match deepcopy (p_heap P) t with
        | Ok (c, h') => sweep_loop (S i) todo' fits' (mkPop h' (p_trees P) ags c (Some f) (p_next_aid P))
        | Exn => Exn
        | Stuck => Stuck
        end
      else sweep_loop (S i) todo' fits' (mkPop (p_heap P) (p_trees P) ags (p_best P) (p_best_fit P) (p_next_aid P))
    end
  end.

(* zip(space.trees, space.agents): stops at the shorter one *)
Definition sweep (fits : list Z) (P : pop) : res (pop * list Z) :=
  sweep_loop 0 (firstn (length (p_agents P)) (p_trees P)) fits P.

(* TreeSpace._create_trees: n_trees calls of grow, best_tree = deepcopy(trees[0]) *)
Fixpoint grow_many (E : genv) (n : nat) (ds : list frac) (st : hstate) : res (list nat * hstate * list frac) :=
  match n with
  | 0 => Ok ([], st, ds)
  | S n' =>
    match grow E (g_d0 E) ds st with
    | Ok (t, st1, ds1) =>
      match grow_many E n' ds1 st1 with
      | Ok (ts, st2, ds2) => Ok (t :: ts, st2, ds2)
      | Exn => Exn
      | Stuck => Stuck
      end
    | Exn => Exn
    | Stuck => Stuck
    end
  end.

Definition empty_heap (E : genv) : hstate := mkH [] (g_nt E).

Definition create_trees (E : genv) (n : nat) (ds : list frac) : res (pop * list frac) :=
  match grow_many E n ds (empty_heap E) with
  | Ok (ts, st, ds') =>
    match ts with
    | [] => Exn                                            (* trees[0] *)
    | t0 :: _ =>
      match deepcopy st t0 with
      | Ok (b, st') =>
        Ok (mkPop st' ts (map (fun i => mkAg i 0%Z i) (seq 0 n)) b None n, ds')
      | Exn => Exn
      | Stuck => Stuck
      end
    end
  | Exn => Exn
  | Stuck => Stuck
  end.

(* one GP iteration: _update (reproduction, crossover, mutation) then _evaluate *)
Record gp_params := mkGP { gp_tsize : nat; gp_ratio : frac; gp_nrep : nat; gp_ncross : nat; gp_nmut : nat }.

Definition gp_update (E : genv) (G : gp_params) (picks : list nat) (ds : list frac) (P : pop)
  : res (pop * list nat * list frac) :=
  bind (reproduction (gp_tsize G) (gp_nrep G) picks P) (fun r1 =>
    bind (crossover (gp_tsize G) (gp_ratio G) (gp_ncross G) (snd r1) ds (fst r1)) (fun r2 =>
      match r2 with (P2, picks2, ds2) =>
        mutation E (gp_tsize G) (gp_ratio G) (gp_nmut G) picks2 ds2 P2 end)).
