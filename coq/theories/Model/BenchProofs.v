(* Proofs about the benchmark functions (C17): reference terms, the formula-equality tactic,
   lower bounds / attainment of the documented minima, undefinedness and refutation lemmas. *)
From Coq Require Import Reals List ZArith Lra Lia.
From Interval Require Import Tactic.
From OV Require Import Base.RExprBench.
Import ListNotations.
Open Scope R_scope.

Definition in_box (lo hi : R) (l : list R) : Prop := forall t, In t l -> lo <= t <= hi.

Lemma in_box_repeat : forall lo hi c n, lo <= c <= hi -> in_box lo hi (repeat c n).
Proof. intros lo hi c n H t I. apply in_repeat in I. subst. exact H. Qed.

(* ------------------------------------------------------------------ transfer along beq *)
Definition lower_bound (e : bexpr) (l : list R) (m : R) : Prop := exists v, den e l = Some v /\ m <= v.
Definition upper_bound (e : bexpr) (l : list R) (m : R) : Prop := exists v, den e l = Some v /\ v <= m.

Lemma lower_transfer : forall a b l m, beq a b l -> (bdef b l 0 0 /\ m <= bval b l 0 0) -> lower_bound a l m.
Proof.
  intros a b l m Hq [D H]. exists (bval b l 0 0). split; [|exact H].
  rewrite (beq_den _ _ _ Hq). apply den_some. auto.
Qed.

Lemma upper_transfer : forall a b l m, beq a b l -> (bdef b l 0 0 /\ bval b l 0 0 <= m) -> upper_bound a l m.
Proof.
  intros a b l m Hq [D H]. exists (bval b l 0 0). split; [|exact H].
  rewrite (beq_den _ _ _ Hq). apply den_some. auto.
Qed.

Lemma value_transfer : forall a b l m, beq a b l -> (bdef b l 0 0 /\ bval b l 0 0 = m) -> den a l = Some m.
Proof. intros a b l m Hq H. rewrite (beq_den _ _ _ Hq). apply den_some. exact H. Qed.

Lemma undef_transfer : forall a b l, beq a b l -> ~ bdef b l 0 0 -> den a l = None.
Proof. intros a b l Hq H. rewrite (beq_den _ _ _ Hq). apply den_none. exact H. Qed.

Lemma lower_if_defined_transfer : forall a b l m, beq a b l -> (bdef b l 0 0 -> m <= bval b l 0 0) ->
  forall v, den a l = Some v -> m <= v.
Proof.
  intros a b l m Hq H v E. rewrite (beq_den _ _ _ Hq) in E. apply den_some in E. destruct E as [D E]. subst. auto.
Qed.

Lemma positive_if_defined_transfer : forall a b l m, beq a b l -> (bdef b l 0 0 -> m < bval b l 0 0) ->
  forall v, den a l = Some v -> m < v.
Proof.
  intros a b l m Hq H v E. rewrite (beq_den _ _ _ Hq) in E. apply den_some in E. destruct E as [D E]. subst. auto.
Qed.

Lemma below_transfer : forall a b l m, beq a b l -> (bdef b l 0 0 /\ bval b l 0 0 < m) ->
  exists v, den a l = Some v /\ v < m.
Proof.
  intros a b l m Hq [D H]. exists (bval b l 0 0). split; [|exact H].
  rewrite (beq_den _ _ _ Hq). apply den_some. auto.
Qed.

Lemma above_transfer : forall a b l m, beq a b l -> (bdef b l 0 0 /\ m < bval b l 0 0) ->
  exists v, den a l = Some v /\ m < v.
Proof.
  intros a b l m Hq [D H]. exists (bval b l 0 0). split; [|exact H].
  rewrite (beq_den _ _ _ Hq). apply den_some. auto.
Qed.

Lemma between_transfer : forall a b l m1 m2, beq a b l -> (bdef b l 0 0 /\ m1 <= bval b l 0 0 <= m2) ->
  exists v, den a l = Some v /\ m1 <= v <= m2.
Proof.
  intros a b l m1 m2 Hq [D H]. exists (bval b l 0 0). split; [|exact H].
  rewrite (beq_den _ _ _ Hq). apply den_some. auto.
Qed.

(* ------------------------------------------------------------------ the formula tactic
   Goal  beq a b l  for two closed terms.  First syntactic identity (conversion); otherwise a semantic
   attempt: both sides are evaluated to shallow real expressions, definedness is compared as propositions,
   values by congruence under the aggregates + ring/field. *)
Lemma INR_pos_of_len : forall (l : list R), (1 <= length l)%nat -> INR (length l) <> 0.
Proof. intros l H. apply not_0_INR. lia. Qed.

Lemma and_iff_both : forall A B C D : Prop, (A <-> C) -> (B <-> D) -> (A /\ B <-> C /\ D).
Proof. tauto. Qed.

Ltac bench_eq_val :=
  first
    [ reflexivity
    | ring
    | (field; auto)
    | match goal with
      | |- sumf _ ?l = sumf _ ?l => apply sumf_ext; intros; bench_eq_val
      | |- prodf _ ?l = prodf _ ?l => apply prodf_ext; intros; bench_eq_val
      | |- sumpairs _ ?l = sumpairs _ ?l => apply sumpairs_ext; intros; bench_eq_val
      | |- ?f ?a = ?f ?b => apply (f_equal f); bench_eq_val
      | |- ?f ?a ?c = ?f ?b ?d => apply (f_equal2 f); bench_eq_val
      end ].

Lemma Rle_iff_eq : forall a b c d : R, a = c -> b = d -> (a <= b <-> c <= d).
Proof. intros a b c d E1 E2. subst. tauto. Qed.
Lemma Rneq_iff_eq : forall a b c d : R, a = c -> b = d -> (a <> b <-> c <> d).
Proof. intros a b c d E1 E2. subst. tauto. Qed.
Lemma powR_def_iff_eq : forall a b c d : R, a = c -> b = d -> (powR_def a b <-> powR_def c d).
Proof. intros a b c d E1 E2. subst. tauto. Qed.

Ltac bench_eq_def :=
  first
    [ tauto
    | match goal with
      | |- allf _ ?l <-> allf _ ?l => apply allf_ext; intros; bench_eq_def
      | |- allpairs _ ?l <-> allpairs _ ?l => apply allpairs_ext; intros; bench_eq_def
      | |- (?A /\ ?B) <-> (?C /\ ?D) => apply and_iff_both; bench_eq_def
      | |- (_ <> _) <-> (_ <> _) => apply Rneq_iff_eq; bench_eq_val
      | |- (_ <= _) <-> (_ <= _) => apply Rle_iff_eq; bench_eq_val
      | |- powR_def _ _ <-> powR_def _ _ => apply powR_def_iff_eq; bench_eq_val
      end
    | solve [ split; intros; repeat split; intuition (auto; try lra) ] ].

Ltac bench_sem :=
  split;
  [ cbv [bdef bval]; bench_eq_def
  | intros _; cbv [bdef bval]; bench_eq_val ].

(* used in Props/C17.v:  the hypothesis on the length is in the context *)
Ltac bench_beq :=
  first [ apply beq_refl
        | try match goal with
          | |- beq _ _ (repeat ?c ?n) =>
              assert (1 <= length (repeat c n))%nat by (rewrite repeat_length; lia)
          end;
          match goal with
          | H : (1 <= length ?l)%nat |- _ => pose proof (INR_pos_of_len l H)
          | H : (2 <= length ?l)%nat |- _ => assert (INR (length l) <> 0) by (apply not_0_INR; lia)
          | _ => idtac
          end;
          match goal with |- beq ?a ?b _ => unfold a, b end; bench_sem ].

(* one-line proofs of Props/C17.v: transfer a lemma L about the reference term r to the regenerated code term *)
Ltac bench_lower r L := intros; apply (lower_transfer _ r); [ bench_beq | apply L; auto ].
Ltac bench_upper r L := intros; apply (upper_transfer _ r); [ bench_beq | apply L; auto ].
Ltac bench_value r L := intros; apply (value_transfer _ r); [ bench_beq | apply L; auto ].
Ltac bench_undef r L := intros; apply (undef_transfer _ r); [ bench_beq | eapply L; eauto ].
Ltac bench_between r L := intros; apply (between_transfer _ r); [ bench_beq | apply L; auto ].
Ltac bench_below r L := apply (below_transfer _ r); [ bench_beq | apply L; auto ].
Ltac bench_above r L := intros; apply (above_transfer _ r); [ bench_beq | apply L; auto ].
Ltac bench_lower_if_defined r L :=
  intros;
  match goal with
  | E : den ?a ?l = Some ?v |- _ <= ?v =>
      apply (lower_if_defined_transfer a r l _); [ bench_beq | let D := fresh "D" in intro D; apply L; auto | exact E ]
  end.
Ltac bench_positive_if_defined r L :=
  intros;
  match goal with
  | E : den ?a ?l = Some ?v |- _ < ?v =>
      apply (positive_if_defined_transfer a r l _); [ bench_beq | let D := fresh "D" in intro D; apply L; auto | exact E ]
  end.

Ltac bench_formula :=
  let n := fresh "n" in let x := fresh "x" in let Hl := fresh "Hl" in let Hn := fresh "Hn" in
  intros n x Hl Hn; subst n; apply beq_den; bench_beq.

(* ------------------------------------------------------------------ small real-analysis helpers *)
Lemma exp_le_mono : forall a b, a <= b -> exp a <= exp b.
Proof. intros a b [H|H]; [left; apply exp_increasing; exact H | subst; lra]. Qed.

Lemma exp_le_1 : forall a, a <= 0 -> exp a <= 1.
Proof. intros a H. rewrite <- exp_0. apply exp_le_mono. exact H. Qed.

Lemma pow6_bounds : forall s, -1 <= s <= 1 -> 0 <= s ^ 6 <= 1.
Proof.
  intros s H. replace (s ^ 6) with ((s ^ 2) ^ 3) by ring.
  assert (0 <= s ^ 2 <= 1) by nra.
  set (u := s ^ 2) in *. split; [apply pow_le; lra|].
  replace 1 with (1 ^ 3) by ring. apply pow_incr. lra.
Qed.

Lemma sumf_zero : forall f l, (forall t, In t l -> f t = 0) -> sumf f l = 0.
Proof. intros f l H. rewrite (sumf_const f 0 l H). ring. Qed.

Lemma sumf_sq_nonneg : forall l, 0 <= sumf (fun t => t ^ 2) l.
Proof. intro l. apply sumf_nonneg. intros t _. nra. Qed.

Lemma INR_len_pos : forall (l : list R), (1 <= length l)%nat -> 0 < INR (length l).
Proof. intros l H. apply lt_0_INR. lia. Qed.

Lemma neg_div_ge : forall N S, 0 < N -> S <= N -> -1 <= -1 / N * S.
Proof.
  intros N S HN HS. replace (-1 / N * S) with (- (S * / N)) by (field; lra).
  assert (S * / N <= 1).
  { replace 1 with (N * / N) by (field; lra). apply Rmult_le_compat_r; [left; apply Rinv_0_lt_compat; lra | lra]. }
  lra.
Qed.

(* ================================================================== sphere *)
Definition ref_sphere : bexpr := BSum (BPowN BX 2).

Lemma sphere_lower : forall l, bdef ref_sphere l 0 0 /\ 0 <= bval ref_sphere l 0 0.
Proof. intro l. cbn [ref_sphere bdef bval]. split; [apply allf_true | apply sumf_sq_nonneg]. Qed.

Lemma sphere_min : forall n, bdef ref_sphere (repeat 0 n) 0 0 /\ bval ref_sphere (repeat 0 n) 0 0 = 0.
Proof.
  intro n. cbn [ref_sphere bdef bval]. split; [apply allf_true|].
  apply sumf_zero. intros t I. apply in_repeat in I. subst. ring.
Qed.

(* ================================================================== chung_reynolds *)
Definition ref_chung_reynolds : bexpr := BPowN (BSum (BPowN BX 2)) 2.

Lemma chung_reynolds_lower : forall l, bdef ref_chung_reynolds l 0 0 /\ 0 <= bval ref_chung_reynolds l 0 0.
Proof. intro l. cbn [ref_chung_reynolds bdef bval]. split; [apply allf_true | apply pow2_ge_0]. Qed.

Lemma chung_reynolds_min : forall n, bdef ref_chung_reynolds (repeat 0 n) 0 0 /\ bval ref_chung_reynolds (repeat 0 n) 0 0 = 0.
Proof.
  intro n. destruct (sphere_min n) as [D V]. cbn [ref_sphere ref_chung_reynolds bdef bval] in *.
  split; [exact D | rewrite V; ring].
Qed.

(* ================================================================== schumer_steiglitz *)
Definition ref_schumer_steiglitz : bexpr := BSum (BPowN BX 4).

Lemma schumer_steiglitz_lower : forall l, bdef ref_schumer_steiglitz l 0 0 /\ 0 <= bval ref_schumer_steiglitz l 0 0.
Proof.
  intro l. cbn [ref_schumer_steiglitz bdef bval]. split; [apply allf_true|].
  apply sumf_nonneg. intros t _. replace (t ^ 4) with ((t ^ 2) ^ 2) by ring. apply pow2_ge_0.
Qed.

Lemma schumer_steiglitz_min : forall n, bdef ref_schumer_steiglitz (repeat 0 n) 0 0 /\ bval ref_schumer_steiglitz (repeat 0 n) 0 0 = 0.
Proof.
  intro n. cbn [ref_schumer_steiglitz bdef bval]. split; [apply allf_true|].
  apply sumf_zero. intros t I. apply in_repeat in I. subst. ring.
Qed.

(* ================================================================== alpine1 *)
Definition ref_alpine1 : bexpr := BSum (BAbs (BAdd (BMul BX (BSin BX)) (BMul (BQ 1 10) BX))).

Lemma alpine1_lower : forall l, bdef ref_alpine1 l 0 0 /\ 0 <= bval ref_alpine1 l 0 0.
Proof.
  intro l. cbn [ref_alpine1 bdef bval]. split.
  - apply allf_forall. tauto.
  - apply sumf_nonneg. intros t _. apply Rabs_pos.
Qed.

Lemma alpine1_min : forall n, bdef ref_alpine1 (repeat 0 n) 0 0 /\ bval ref_alpine1 (repeat 0 n) 0 0 = 0.
Proof.
  intro n. cbn [ref_alpine1 bdef bval]. split.
  - apply allf_forall. tauto.
  - apply sumf_zero. intros t I. apply in_repeat in I. subst.
    replace (0 * sin 0 + 1 / 10 * 0) with 0 by ring. apply Rabs_R0.
Qed.

(* ================================================================== quintic *)
Definition ref_quintic : bexpr :=
  BSum (BAbs (BSub (BSub (BAdd (BAdd (BSub (BPowN BX 5) (BMul (BZ 3) (BPowN BX 4))) (BMul (BZ 4) (BPowN BX 3)))
                                (BMul (BZ 2) (BPowN BX 2))) (BMul (BZ 10) BX)) (BZ 4))).

Lemma quintic_lower : forall l, bdef ref_quintic l 0 0 /\ 0 <= bval ref_quintic l 0 0.
Proof.
  intro l. cbn [ref_quintic bdef bval]. split.
  - apply allf_forall. tauto.
  - apply sumf_nonneg. intros t _. apply Rabs_pos.
Qed.

(* the value 0 is attained exactly when every coordinate is a root; -1 and 2 are roots *)
Lemma quintic_min : forall l, (forall t, In t l -> t = -1 \/ t = 2) ->
  bdef ref_quintic l 0 0 /\ bval ref_quintic l 0 0 = 0.
Proof.
  intros l H. cbn [ref_quintic bdef bval]. split.
  - apply allf_forall. tauto.
  - apply sumf_zero. intros t I. destruct (H t I); subst.
    + replace ((-1) ^ 5 - 3 * (-1) ^ 4 + 4 * (-1) ^ 3 + 2 * (-1) ^ 2 - 10 * -1 - 4) with 0 by ring. apply Rabs_R0.
    + replace (2 ^ 5 - 3 * 2 ^ 4 + 4 * 2 ^ 3 + 2 * 2 ^ 2 - 10 * 2 - 4) with 0 by ring. apply Rabs_R0.
Qed.

(* at the origin (the literal reading of "minimum at 0") the value is 4 n, not 0 *)
Lemma quintic_at_origin : forall n, bdef ref_quintic (repeat 0 n) 0 0 /\ bval ref_quintic (repeat 0 n) 0 0 = 4 * INR n.
Proof.
  intro n. cbn [ref_quintic bdef bval]. split.
  - apply allf_forall. tauto.
  - rewrite (sumf_const _ 4).
    + rewrite repeat_length. ring.
    + intros t I. apply in_repeat in I. subst.
      replace (0 ^ 5 - 3 * 0 ^ 4 + 4 * 0 ^ 3 + 2 * 0 ^ 2 - 10 * 0 - 4) with (-4) by ring.
      rewrite Rabs_left; lra.
Qed.

(* ================================================================== rastringin *)
Definition ref_rastringin : bexpr :=
  BAdd (BMul (BZ 10) BN) (BSum (BSub (BPowN BX 2) (BMul (BZ 10) (BCos (BMul (BMul (BZ 2) BPi) BX))))).

Lemma rastringin_lower : forall l, bdef ref_rastringin l 0 0 /\ 0 <= bval ref_rastringin l 0 0.
Proof.
  intro l. cbn [ref_rastringin bdef bval]. split.
  - split; [tauto|]. apply allf_forall. tauto.
  - pose proof (sumf_ge (fun t => t ^ 2 - 10 * cos (2 * PI * t)) (-10) l) as H.
    assert (INR (length l) * -10 <= sumf (fun t => t ^ 2 - 10 * cos (2 * PI * t)) l).
    { apply H. intros t _. pose proof (COS_bound (2 * PI * t)). nra. }
    lra.
Qed.

Lemma rastringin_min : forall n, bdef ref_rastringin (repeat 0 n) 0 0 /\ bval ref_rastringin (repeat 0 n) 0 0 = 0.
Proof.
  intro n. cbn [ref_rastringin bdef bval]. split.
  - split; [tauto|]. apply allf_forall. tauto.
  - rewrite (sumf_const _ (-10)).
    + ring.
    + intros t I. apply in_repeat in I. subst.
      replace (2 * PI * 0) with 0 by ring. rewrite cos_0. ring.
Qed.

(* ================================================================== exponential *)
Definition ref_exponential : bexpr := BNeg (BExp (BMul (BQ (-1) 2) (BSum (BPowN BX 2)))).

Lemma exponential_lower : forall l, bdef ref_exponential l 0 0 /\ -1 <= bval ref_exponential l 0 0.
Proof.
  intro l. cbn [ref_exponential bdef bval]. split.
  - split; [tauto|]. apply allf_true.
  - pose proof (sumf_sq_nonneg l).
    assert (exp (-1 / 2 * sumf (fun t => t ^ 2) l) <= 1) by (apply exp_le_1; lra). lra.
Qed.

Lemma exponential_min : forall n, bdef ref_exponential (repeat 0 n) 0 0 /\ bval ref_exponential (repeat 0 n) 0 0 = -1.
Proof.
  intro n. destruct (sphere_min n) as [_ V]. cbn [ref_sphere ref_exponential bdef bval] in *. split.
  - split; [tauto|]. apply allf_true.
  - rewrite V. replace (-1 / 2 * 0) with 0 by field. rewrite exp_0. ring.
Qed.

(* ================================================================== salomon *)
Definition ref_salomon : bexpr :=
  BAdd (BSub (BZ 1) (BCos (BMul (BMul (BZ 2) BPi) (BSqrt (BSum (BPowN BX 2))))))
       (BMul (BQ 1 10) (BSqrt (BSum (BPowN BX 2)))).

Lemma salomon_lower : forall l, bdef ref_salomon l 0 0 /\ 0 <= bval ref_salomon l 0 0.
Proof.
  intro l. pose proof (sumf_sq_nonneg l) as S. cbn [ref_salomon bdef bval].
  pose proof (allf_true l). split; [tauto|].
  pose proof (sqrt_pos (sumf (fun t => t ^ 2) l)).
  pose proof (COS_bound (2 * PI * sqrt (sumf (fun t => t ^ 2) l))). lra.
Qed.

Lemma salomon_min : forall n, bdef ref_salomon (repeat 0 n) 0 0 /\ bval ref_salomon (repeat 0 n) 0 0 = 0.
Proof.
  intro n. destruct (sphere_min n) as [_ V]. cbn [ref_sphere ref_salomon bdef bval] in *.
  pose proof (allf_true (repeat 0 n)). rewrite V. split; [intuition lra|].
  rewrite sqrt_0. replace (2 * PI * 0) with 0 by ring. rewrite cos_0. lra.
Qed.

(* ================================================================== ackley1 *)
Definition ref_ackley1 : bexpr :=
  BSub (BAdd (BSub (BZ 20) (BMul (BZ 20) (BExp (BMul (BQ (-1) 5) (BSqrt (BMul (BDiv (BZ 1) BN) (BSum (BPowN BX 2)))))))) BE)
       (BExp (BMul (BDiv (BZ 1) BN) (BSum (BCos (BMul (BMul (BZ 2) BPi) BX))))).

Lemma ackley1_lower : forall l, (1 <= length l)%nat -> bdef ref_ackley1 l 0 0 /\ 0 <= bval ref_ackley1 l 0 0.
Proof.
  intros l Hn. pose proof (INR_len_pos l Hn) as HN. pose proof (sumf_sq_nonneg l) as S.
  pose proof (allf_true l) as T.
  assert (Hq : 0 <= 1 / INR (length l) * sumf (fun t => t ^ 2) l).
  { apply Rmult_le_pos; [|exact S]. unfold Rdiv. rewrite Rmult_1_l. left. apply Rinv_0_lt_compat. exact HN. }
  assert (Hc : 1 / INR (length l) * sumf (fun t => cos (2 * PI * t)) l <= 1).
  { assert (sumf (fun t => cos (2 * PI * t)) l <= INR (length l) * 1).
    { apply sumf_le. intros t _. pose proof (COS_bound (2 * PI * t)). lra. }
    replace (1 / INR (length l) * sumf (fun t => cos (2 * PI * t)) l)
      with (sumf (fun t => cos (2 * PI * t)) l * / INR (length l)) by (field; lra).
    replace 1 with (INR (length l) * / INR (length l)) by (field; lra).
    apply Rmult_le_compat_r; [left; apply Rinv_0_lt_compat; exact HN | lra]. }
  cbn [ref_ackley1 bdef bval]. split.
  - repeat split; auto; try lra. apply allf_forall. tauto.
  - pose proof (sqrt_pos (1 / INR (length l) * sumf (fun t => t ^ 2) l)).
    assert (exp (-1 / 5 * sqrt (1 / INR (length l) * sumf (fun t => t ^ 2) l)) <= 1) by (apply exp_le_1; lra).
    pose proof (exp_le_mono _ _ Hc). lra.
Qed.

Lemma ackley1_min : forall n, (1 <= n)%nat -> bdef ref_ackley1 (repeat 0 n) 0 0 /\ bval ref_ackley1 (repeat 0 n) 0 0 = 0.
Proof.
  intros n Hn. destruct (sphere_min n) as [_ V].
  assert (HN : 0 < INR n) by (apply lt_0_INR; lia).
  cbn [ref_sphere ref_ackley1 bdef bval] in *. rewrite repeat_length. rewrite V.
  assert (C : sumf (fun t => cos (2 * PI * t)) (repeat 0 n) = INR n * 1).
  { rewrite (sumf_const _ 1); [rewrite repeat_length; reflexivity|].
    intros t I. apply in_repeat in I. subst. replace (2 * PI * 0) with 0 by ring. apply cos_0. }
  rewrite C. split.
  - repeat split; auto; try lra; try (apply allf_true). apply allf_forall. tauto.
  - replace (1 / INR n * 0) with 0 by (field; lra). rewrite sqrt_0.
    replace (-1 / 5 * 0) with 0 by field. rewrite exp_0.
    replace (1 / INR n * (INR n * 1)) with 1 by (field; lra). ring.
Qed.

Lemma sumf_le1 : forall f l, (forall t, In t l -> f t <= 1) -> sumf f l <= INR (length l).
Proof. intros f l H. pose proof (sumf_le f 1 l H). lra. Qed.

(* ================================================================== brown *)
Definition ref_brown : bexpr :=
  BSumPairs (BAdd (BPowR (BPowN BX 2) (BAdd (BPowN BXn 2) (BZ 1))) (BPowR (BPowN BXn 2) (BAdd (BPowN BX 2) (BZ 1)))).

Lemma powR_def_sq : forall t u, powR_def (t ^ 2) (u ^ 2 + 1).
Proof.
  intros t u. unfold powR_def. destruct (Req_EM_T t 0) as [E|E].
  - right; left. subst. split; [ring | nra].
  - left. nra.
Qed.

Lemma brown_lower : forall l, bdef ref_brown l 0 0 /\ 0 <= bval ref_brown l 0 0.
Proof.
  intro l. cbn [ref_brown bdef bval]. split.
  - apply allpairs_forall. intros t u _ _. repeat split; apply powR_def_sq.
  - apply sumpairs_nonneg. intros t u _ _.
    pose proof (powR_nonneg (t ^ 2) (u ^ 2 + 1)). pose proof (powR_nonneg (u ^ 2) (t ^ 2 + 1)). nra.
Qed.

Lemma brown_min : forall n, bdef ref_brown (repeat 0 n) 0 0 /\ bval ref_brown (repeat 0 n) 0 0 = 0.
Proof.
  intro n. split; [apply brown_lower|]. cbn [ref_brown bdef bval].
  apply sumpairs_zero. intros t u It Iu. apply in_repeat in It. apply in_repeat in Iu. subst.
  replace (0 ^ 2) with 0 by ring. rewrite powR_zero by lra. ring.
Qed.

(* ================================================================== deb1 *)
Definition ref_deb1 : bexpr :=
  BMul (BDiv (BZ (-1)) BN) (BSum (BPowN (BSin (BMul (BMul (BZ 5) BPi) BX)) 6)).

Lemma deb1_lower : forall l, (1 <= length l)%nat -> bdef ref_deb1 l 0 0 /\ -1 <= bval ref_deb1 l 0 0.
Proof.
  intros l Hn. pose proof (INR_len_pos l Hn) as HN. cbn [ref_deb1 bdef bval]. split.
  - repeat split; auto; try lra. apply allf_forall; tauto.
  - apply neg_div_ge; [exact HN|].
    apply sumf_le1. intros t _. apply pow6_bounds. apply SIN_bound.
Qed.

Lemma deb1_min : forall n, (1 <= n)%nat ->
  bdef ref_deb1 (repeat (1 / 10) n) 0 0 /\ bval ref_deb1 (repeat (1 / 10) n) 0 0 = -1.
Proof.
  intros n Hn. assert (HN : 0 < INR n) by (apply lt_0_INR; lia).
  cbn [ref_deb1 bdef bval]. rewrite repeat_length. split.
  - repeat split; auto; try lra. apply allf_forall; tauto.
  - rewrite (sumf_const _ 1).
    + rewrite repeat_length. field. lra.
    + intros t I. apply in_repeat in I. subst.
      replace (5 * PI * (1 / 10)) with (PI / 2) by field. rewrite sin_PI2. ring.
Qed.

(* ================================================================== deb2 *)
Definition ref_deb2 : bexpr :=
  BMul (BDiv (BZ (-1)) BN)
       (BSum (BPowN (BSin (BMul (BMul (BZ 5) BPi) (BSub (BPowR BX (BDiv (BZ 3) (BZ 4))) (BQ 1 20)))) 6)).

Lemma not_int_3_4 : ~ is_int (3 / 4).
Proof.
  unfold is_int. intro H. set (k := Int_part (3 / 4)) in *.
  assert (E : IZR 3 = IZR (4 * k)) by (rewrite mult_IZR; lra).
  apply eq_IZR in E. lia.
Qed.

Lemma deb2_defined_iff : forall l, (1 <= length l)%nat -> (bdef ref_deb2 l 0 0 <-> (forall t, In t l -> 0 <= t)).
Proof.
  intros l Hn. pose proof (INR_len_pos l Hn) as HN. cbn [ref_deb2 bdef bval]. split.
  - intros [_ H]. rewrite allf_forall in H. intros t I. destruct (H t I) as [_ [[_ [_ P]] _]].
    destruct P as [P|[[P _]|[_ P]]]; [lra | lra | exfalso; exact (not_int_3_4 P)].
  - intro H. split; [repeat split; auto; lra|]. apply allf_forall. intros t I.
    repeat split; auto; try lra. specialize (H t I). unfold powR_def.
    destruct H as [H|H]; [left; exact H | right; left; split; [auto | lra]].
Qed.

(* the unchanged code is undefined (NaN) on every array with a negative coordinate: half of the documented box *)
Lemma deb2_undefined_negative : forall l t, (1 <= length l)%nat -> In t l -> t < 0 -> ~ bdef ref_deb2 l 0 0.
Proof.
  intros l t Hn I Ht D. pose proof (proj1 (deb2_defined_iff l Hn) D t I). lra.
Qed.

Lemma deb2_lower : forall l, (1 <= length l)%nat -> in_box 0 1 l -> bdef ref_deb2 l 0 0 /\ -1 <= bval ref_deb2 l 0 0.
Proof.
  intros l Hn B. split.
  - apply deb2_defined_iff; [exact Hn|]. intros t I. apply B in I. lra.
  - pose proof (INR_len_pos l Hn) as HN. cbn [ref_deb2 bdef bval].
    apply neg_div_ge; [exact HN|].
    apply sumf_le1. intros t _. apply pow6_bounds. apply SIN_bound.
Qed.

Definition deb2_argmin : R := Rpower (3 / 20) (4 / 3).

Lemma deb2_argmin_in_box : 0 <= deb2_argmin <= 1.
Proof.
  unfold deb2_argmin, Rpower. split; [left; apply exp_pos|].
  rewrite <- exp_0. assert (ln (3 / 20) < 0) by (rewrite <- ln_1; apply ln_increasing; lra).
  destruct (Rle_dec (4 / 3 * ln (3 / 20)) 0) as [H1|H1]; [|lra].
  destruct H1 as [H1|H1]; [left; apply exp_increasing; exact H1 | rewrite H1; lra].
Qed.

Lemma deb2_min : forall n, (1 <= n)%nat ->
  bdef ref_deb2 (repeat deb2_argmin n) 0 0 /\ bval ref_deb2 (repeat deb2_argmin n) 0 0 = -1.
Proof.
  intros n Hn. assert (HN : 0 < INR n) by (apply lt_0_INR; lia).
  assert (P : 0 < deb2_argmin) by (unfold deb2_argmin, Rpower; apply exp_pos).
  split.
  - apply deb2_defined_iff; [rewrite repeat_length; exact Hn|]. intros t I. apply in_repeat in I. subst. lra.
  - cbn [ref_deb2 bdef bval]. rewrite repeat_length. rewrite (sumf_const _ 1).
    + rewrite repeat_length. field. lra.
    + intros t I. apply in_repeat in I. subst.
      rewrite powR_pos by exact P. unfold deb2_argmin. rewrite Rpower_mult.
      replace (4 / 3 * (3 / 4)) with 1 by field. rewrite Rpower_1 by lra.
      replace (5 * PI * (3 / 20 - 1 / 20)) with (PI / 2) by field. rewrite sin_PI2. ring.
Qed.

(* ================================================================== csendes *)
Definition ref_csendes : bexpr := BSum (BMul (BPowN BX 6) (BAdd (BZ 2) (BSin (BDiv (BZ 1) BX)))).

Lemma csendes_defined_iff : forall l, bdef ref_csendes l 0 0 <-> (forall t, In t l -> t <> 0).
Proof.
  intro l. cbn [ref_csendes bdef bval]. rewrite allf_forall. split.
  - intros H t I. destruct (H t I) as [_ [_ [_ [_ K]]]]. exact K.
  - intros H t I. repeat split; auto.
Qed.

(* undefined (NaN: 1/0 = inf, sin(inf) = NaN) as soon as a coordinate is 0 -- in particular at the documented minimiser *)
Lemma csendes_undefined_zero : forall l, In 0 l -> ~ bdef ref_csendes l 0 0.
Proof. intros l I D. apply (proj1 (csendes_defined_iff l) D 0 I). reflexivity. Qed.

Lemma csendes_lower : forall l, bdef ref_csendes l 0 0 -> 0 <= bval ref_csendes l 0 0.
Proof.
  intros l _. cbn [ref_csendes bdef bval]. apply sumf_nonneg. intros t _.
  pose proof (SIN_bound (1 / t)). assert (0 <= t ^ 6).
  { replace (t ^ 6) with ((t ^ 3) ^ 2) by ring. apply pow2_ge_0. }
  nra.
Qed.

Lemma sumf_pos : forall f l, (1 <= length l)%nat -> (forall t, In t l -> 0 < f t) -> 0 < sumf f l.
Proof.
  intros f l Hn H. destruct l as [|t r]; [simpl in Hn; lia|]. simpl.
  assert (0 < f t) by (apply H; left; reflexivity).
  assert (0 <= sumf f r) by (apply sumf_nonneg; intros; left; apply H; right; assumption). lra.
Qed.

(* wherever it is defined the value is strictly positive: the documented minimum 0 is not attained *)
Lemma csendes_positive : forall l, (1 <= length l)%nat -> bdef ref_csendes l 0 0 -> 0 < bval ref_csendes l 0 0.
Proof.
  intros l Hn D. pose proof (proj1 (csendes_defined_iff l) D) as NZ. cbn [ref_csendes bdef bval].
  apply sumf_pos; [exact Hn|]. intros t I. specialize (NZ t I).
  pose proof (SIN_bound (1 / t)).
  assert (0 < t ^ 6).
  { assert (t ^ 3 <> 0) by (apply pow_nonzero; exact NZ). replace (t ^ 6) with ((t ^ 3) * (t ^ 3)) by ring. nra. }
  nra.
Qed.

(* ================================================================== cosine_mixture *)
Definition ref_cosine_mixture : bexpr :=
  BSub (BMul (BQ 1 10) (BSum (BCos (BMul (BMul (BZ 5) BPi) BX)))) (BSum (BPowN BX 2)).

Lemma cosine_mixture_defined : forall l, bdef ref_cosine_mixture l 0 0.
Proof. intro l. cbn [ref_cosine_mixture bdef bval]. repeat split; auto; try (apply allf_true); apply allf_forall; tauto. Qed.

(* 0.1 n is the MAXIMUM of the coded/documented expression *)
Lemma cosine_mixture_upper : forall l, bdef ref_cosine_mixture l 0 0 /\ bval ref_cosine_mixture l 0 0 <= 1 / 10 * INR (length l).
Proof.
  intro l. split; [apply cosine_mixture_defined|]. cbn [ref_cosine_mixture bdef bval].
  pose proof (sumf_sq_nonneg l).
  assert (sumf (fun t => cos (5 * PI * t)) l <= INR (length l) * 1).
  { apply sumf_le. intros t _. pose proof (COS_bound (5 * PI * t)). lra. }
  lra.
Qed.

Lemma cosine_mixture_at_origin : forall n,
  bdef ref_cosine_mixture (repeat 0 n) 0 0 /\ bval ref_cosine_mixture (repeat 0 n) 0 0 = 1 / 10 * INR n.
Proof.
  intro n. split; [apply cosine_mixture_defined|]. destruct (sphere_min n) as [_ V].
  cbn [ref_sphere ref_cosine_mixture bdef bval] in *. rewrite V.
  rewrite (sumf_const _ 1).
  - rewrite repeat_length. ring.
  - intros t I. apply in_repeat in I. subst. replace (5 * PI * 0) with 0 by ring. apply cos_0.
Qed.

(* the documented "minimum 0.1 n" is not a lower bound on the documented box [-1, 1] *)
Definition cosine_mixture_witness : list R := [1].

Lemma cosine_mixture_witness_box : in_box (-1) 1 cosine_mixture_witness /\ (1 <= length cosine_mixture_witness)%nat.
Proof. split; [|simpl; lia]. intros t [E|[]]. subst. lra. Qed.

Lemma cosine_mixture_witness_below :
  bdef ref_cosine_mixture cosine_mixture_witness 0 0 /\
  bval ref_cosine_mixture cosine_mixture_witness 0 0 < 1 / 10 * INR (length cosine_mixture_witness).
Proof.
  split; [apply cosine_mixture_defined|].
  cbn [cosine_mixture_witness ref_cosine_mixture bdef bval sumf length INR]. pose proof (COS_bound (5 * PI * 1)). lra.
Qed.

(* ================================================================== styblinski_tang *)
Definition ref_styblinski_tang : bexpr :=
  BMul (BDiv (BZ 1) (BZ 2)) (BSum (BAdd (BSub (BPowN BX 4) (BMul (BZ 16) (BPowN BX 2))) (BMul (BZ 5) BX))).

Lemma styblinski_tang_defined : forall l, bdef ref_styblinski_tang l 0 0.
Proof. intro l. cbn [ref_styblinski_tang bdef bval]. repeat split; auto; try lra. apply allf_forall. tauto. Qed.

(* sum-of-squares certificate: p(t) + 78.3324 = (t^2 - 8.43)^2 + 0.86 (t + 250/86)^2 + 6e-5 *)
Lemma styb_coord : forall t, -783324 / 10000 <= t ^ 4 - 16 * t ^ 2 + 5 * t.
Proof.
  intros t. pose proof (pow2_ge_0 (t ^ 2 - 843 / 100)). pose proof (pow2_ge_0 (t + 250 / 86)). nra.
Qed.

(* the true lower bound grows with n: -39.1662 per coordinate (for every real array, not only in the box) *)
Lemma styblinski_tang_lower : forall l,
  bdef ref_styblinski_tang l 0 0 /\ -391662 / 10000 * INR (length l) <= bval ref_styblinski_tang l 0 0.
Proof.
  intros l. split; [apply styblinski_tang_defined|]. cbn [ref_styblinski_tang bdef bval].
  assert (INR (length l) * (-783324 / 10000) <= sumf (fun t => t ^ 4 - 16 * t ^ 2 + 5 * t) l).
  { apply sumf_ge. intros t I. apply styb_coord. }
  lra.
Qed.

(* documented minimum -78.332 (the n = 2 value) is not a lower bound for n = 3 *)
Definition styblinski_tang_witness : list R := [-29 / 10; -29 / 10; -29 / 10].

Lemma styblinski_tang_witness_box : in_box (-5) 5 styblinski_tang_witness /\ (1 <= length styblinski_tang_witness)%nat.
Proof. split; [|simpl; lia]. intros t [E|[E|[E|[]]]]; subst; lra. Qed.

Lemma styblinski_tang_witness_below :
  bdef ref_styblinski_tang styblinski_tang_witness 0 0 /\
  bval ref_styblinski_tang styblinski_tang_witness 0 0 < -78332 / 1000.
Proof.
  split; [apply styblinski_tang_defined|].
  cbn [styblinski_tang_witness ref_styblinski_tang bdef bval sumf]. lra.
Qed.

(* ... and is not attained for n = 1 *)
Lemma styblinski_tang_doc_min_not_attained_n1 : forall t,
  bdef ref_styblinski_tang [t] 0 0 /\ -78332 / 1000 < bval ref_styblinski_tang [t] 0 0.
Proof.
  intros t. destruct (styblinski_tang_lower [t]) as [D L].
  split; [exact D|]. simpl length in L. simpl INR in L. lra.
Qed.

(* ================================================================== schwefel *)
Definition ref_schwefel : bexpr :=
  BSub (BMul (BQ 4189829 10000) BN) (BSum (BMul BX (BSin (BSqrt (BAbs BX))))).

Lemma schwefel_defined : forall l, bdef ref_schwefel l 0 0.
Proof.
  intro l. cbn [ref_schwefel bdef bval]. split; [tauto|]. apply allf_forall. intros t _.
  repeat split; auto. apply Rabs_pos.
Qed.

(* the coordinate function stays below 418.98289 < 418.9829 on the whole box *)
Lemma schwefel_hi_pos : forall x, 415 <= x <= 500 -> x * sin (sqrt x) <= 41898289 / 100000.
Proof. intros x H. interval with (i_bisect x, i_taylor x, i_prec 60, i_depth 40). Qed.

Lemma schwefel_hi_neg : forall x, 415 <= x <= 500 -> - x * sin (sqrt x) <= 41898289 / 100000.
Proof. intros x H. interval with (i_bisect x). Qed.

Lemma schwefel_coord : forall t, -500 <= t <= 500 -> t * sin (sqrt (Rabs t)) <= 41898289 / 100000.
Proof.
  intros t H. destruct (Rle_dec 0 t) as [P|P].
  - rewrite Rabs_right by lra. destruct (Rle_dec t 415) as [Q|Q].
    + pose proof (SIN_bound (sqrt t)). nra.
    + apply schwefel_hi_pos. lra.
  - rewrite Rabs_left by lra. destruct (Rle_dec (- t) 415) as [Q|Q].
    + pose proof (SIN_bound (sqrt (- t))). nra.
    + pose proof (schwefel_hi_neg (- t)). assert (415 <= - t <= 500) by lra.
      replace (t * sin (sqrt (- t))) with (- - t * sin (sqrt (- t))) by ring. auto.
Qed.

Lemma schwefel_lower_strong : forall l, in_box (-500) 500 l ->
  bdef ref_schwefel l 0 0 /\ 1 / 100000 * INR (length l) <= bval ref_schwefel l 0 0.
Proof.
  intros l B. split; [apply schwefel_defined|]. cbn [ref_schwefel bdef bval].
  assert (sumf (fun t => t * sin (sqrt (Rabs t))) l <= INR (length l) * (41898289 / 100000)).
  { apply sumf_le. intros t I. apply schwefel_coord. apply B. exact I. }
  lra.
Qed.

Lemma schwefel_lower : forall l, in_box (-500) 500 l -> bdef ref_schwefel l 0 0 /\ 0 <= bval ref_schwefel l 0 0.
Proof.
  intros l B. destruct (schwefel_lower_strong l B) as [D H]. split; [exact D|].
  pose proof (pos_INR (length l)). lra.
Qed.

(* 0 is never attained: the constant 418.9829 is the rounded-up maximum of x sin sqrt x *)
Lemma schwefel_positive : forall l, (1 <= length l)%nat -> in_box (-500) 500 l -> 0 < bval ref_schwefel l 0 0.
Proof.
  intros l Hn B. destruct (schwefel_lower_strong l B) as [_ H]. pose proof (INR_len_pos l Hn). lra.
Qed.

Lemma schwefel_argmin_coord :
  4189829 / 10000 - 4209687 / 10000 * sin (sqrt (Rabs (4209687 / 10000))) <= 13 / 1000000.
Proof. rewrite Rabs_right by lra. interval with (i_prec 80). Qed.

(* at the known minimiser 420.9687 the value is within 1.3e-5 n of the documented 0 *)
Lemma schwefel_near_min : forall n,
  bdef ref_schwefel (repeat (4209687 / 10000) n) 0 0 /\
  0 <= bval ref_schwefel (repeat (4209687 / 10000) n) 0 0 <= 13 / 1000000 * INR n.
Proof.
  intro n. assert (B : in_box (-500) 500 (repeat (4209687 / 10000) n)) by (apply in_box_repeat; lra).
  destruct (schwefel_lower _ B) as [D L]. split; [exact D|]. split; [exact L|].
  cbn [ref_schwefel bdef bval]. rewrite repeat_length.
  rewrite (sumf_const _ (4209687 / 10000 * sin (sqrt (Rabs (4209687 / 10000))))).
  - rewrite repeat_length. pose proof schwefel_argmin_coord. pose proof (pos_INR n). nra.
  - intros t I. apply in_repeat in I. subst. reflexivity.
Qed.

(* ================================================================== alpine2 *)
Definition ref_alpine2 : bexpr := BNeg (BProd (BMul (BSqrt BX) (BSin BX))).

Lemma alpine2_defined_iff : forall l, bdef ref_alpine2 l 0 0 <-> (forall t, In t l -> 0 <= t).
Proof.
  intro l. cbn [ref_alpine2 bdef bval]. rewrite allf_forall. split.
  - intros H t I. destruct (H t I) as [[_ K] _]. exact K.
  - intros H t I. repeat split; auto.
Qed.

Lemma alpine2_coord : forall t, 0 <= t <= 10 -> Rabs (sqrt t * sin t) <= 28082 / 10000.
Proof.
  intros t H. destruct (Rle_dec t 1) as [Q|Q].
  - rewrite Rabs_mult. pose proof (SIN_bound t).
    assert (0 <= sqrt t <= 1).
    { split; [apply sqrt_pos|]. rewrite <- sqrt_1. apply sqrt_le_1_alt. exact Q. }
    assert (Rabs (sin t) <= 1) by (apply Rabs_le; lra).
    rewrite (Rabs_right (sqrt t)) by lra. pose proof (Rabs_pos (sin t)). nra.
  - assert (1 <= t <= 10) by lra. apply Rabs_le. split.
    + interval with (i_bisect t, i_taylor t, i_depth 30).
    + interval with (i_bisect t, i_taylor t, i_depth 30).
Qed.

Lemma prodf_abs_le : forall f c l, 0 <= c -> (forall t, In t l -> Rabs (f t) <= c) ->
  Rabs (prodf f l) <= c ^ length l.
Proof.
  intros f c l Hc. induction l as [|t r IH]; intros H.
  - simpl. rewrite Rabs_R1. lra.
  - simpl prodf. simpl length. simpl pow. rewrite Rabs_mult.
    apply Rmult_le_compat; try apply Rabs_pos; [apply H; left; reflexivity | apply IH; intros; apply H; right; assumption].
Qed.

(* the true bound: -(2.8082)^n; the documented -2.808^n is a rounded constant *)
Lemma alpine2_lower : forall l, in_box 0 10 l ->
  bdef ref_alpine2 l 0 0 /\ - (28082 / 10000) ^ length l <= bval ref_alpine2 l 0 0.
Proof.
  intros l B. split.
  - apply alpine2_defined_iff. intros t I. apply B in I. lra.
  - cbn [ref_alpine2 bdef bval].
    pose proof (prodf_abs_le (fun t => sqrt t * sin t) (28082 / 10000) l) as P.
    assert (Rabs (prodf (fun t => sqrt t * sin t) l) <= (28082 / 10000) ^ length l).
    { apply P; [lra|]. intros t I. apply alpine2_coord. apply B. exact I. }
    pose proof (Rle_abs (prodf (fun t => sqrt t * sin t) l)). lra.
Qed.

Definition alpine2_witness : list R := [7917 / 1000].

Lemma alpine2_witness_box : in_box 0 10 alpine2_witness /\ (1 <= length alpine2_witness)%nat.
Proof. split; [|simpl; lia]. intros t [E|[]]. subst. lra. Qed.

Lemma alpine2_witness_below :
  bdef ref_alpine2 alpine2_witness 0 0 /\ bval ref_alpine2 alpine2_witness 0 0 < - (2808 / 1000) ^ length alpine2_witness.
Proof.
  split.
  - apply alpine2_defined_iff. intros t [E|[]]. subst. lra.
  - cbn [alpine2_witness ref_alpine2 bdef bval prodf length pow]. interval with (i_prec 60).
Qed.
