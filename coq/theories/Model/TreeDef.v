(* Expression trees as GP uses them (core/node.py), functional view.
   [id] stands for Python object identity (the code compares nodes with `is`).
   A node may have only a right child: the Node class allows it. *)
From Coq Require Import List Arith Bool Lia.
Import ListNotations.

Inductive label := Term (k : nat) | Fun (op : nat).   (* op: index into the ten operators, see Gen/NodeOps.v *)

Inductive tree := N (id : nat) (lab : label) (l r : option tree).

Definition tid (t : tree) : nat := match t with N i _ _ _ => i end.
Definition tlab (t : tree) : label := match t with N _ b _ _ => b end.
Definition tleft (t : tree) : option tree := match t with N _ _ l _ => l end.
Definition tright (t : tree) : option tree := match t with N _ _ _ r => r end.
Definition is_leaf (t : tree) : bool := match t with N _ _ None None => true | _ => false end.

Fixpoint size (t : tree) : nat :=
  match t with N _ _ l r =>
    S ((match l with Some a => size a | None => 0 end) + (match r with Some b => size b | None => 0 end)) end.

Fixpoint leaves (t : tree) : nat :=
  match t with
  | N _ _ None None => 1
  | N _ _ l r => (match l with Some a => leaves a | None => 0 end) + (match r with Some b => leaves b | None => 0 end)
  end.

(* root-left-right *)
Fixpoint pre_rec (t : tree) : list tree :=
  match t with N _ _ l r =>
    t :: (match l with Some a => pre_rec a | None => [] end) ++ (match r with Some b => pre_rec b | None => [] end) end.

(* left-right-root *)
Fixpoint post_rec (t : tree) : list tree :=
  match t with N _ _ l r =>
    (match l with Some a => post_rec a | None => [] end) ++ (match r with Some b => post_rec b | None => [] end) ++ [t] end.

Definition ids (t : tree) : list nat := map tid (pre_rec t).

(* smallest / largest depth of a childless node, root at depth 0 *)
Fixpoint max_leaf_depth (t : tree) : nat :=
  match t with
  | N _ _ None None => 0
  | N _ _ l r => S (Nat.max (match l with Some a => max_leaf_depth a | None => 0 end)
                            (match r with Some b => max_leaf_depth b | None => 0 end))
  end.

Fixpoint min_leaf_depth (t : tree) : nat :=
  match t with
  | N _ _ None None => 0
  | N _ _ (Some a) None => S (min_leaf_depth a)
  | N _ _ None (Some b) => S (min_leaf_depth b)
  | N _ _ (Some a) (Some b) => S (Nat.min (min_leaf_depth a) (min_leaf_depth b))
  end.
