(* Description language for the selection / creation part of TreeSpace.grow and its interpreter.
   (The linking statements of the argument loop are a [list stmt] of Model/TreeOpsDescr.v.)

     GInit                self._initialize_terminals()          (array contents: no effect in this model)
     GDraw v lo hi        v = int(r.generate_uniform_random_number(lo, hi)[0])
     GIfEqDepth th el     if min_depth == max_depth: th else: el
     GIfGe a b th el      if a >= b: th else: el
     GRetTerminal e       return Node(name=e, type='TERMINAL', value=self.terminals[e].position)
     GNewFun v e          v = Node(name=self.functions[e], type='FUNCTION')
     GLoop fv e link      for i in range(c.N_ARGS_FUNCTION[self.functions[e]]):
                              node = self.grow(min_depth + 1, max_depth); link      (roots of link: 0 i, 1 node, 2 fv)
     GRetVar v            return v
   expressions: GNT = self.n_terminals, GNF = len(self.functions), variables, +, -.
   Pure local bindings of the source are inlined by the translator.  Executable only; the proof that the
   interpretation of the model's description is [grow] is in Model/TreeGrowModel.v. *)
From Coq Require Import List Arith Bool ZArith.
From OV Require Import Model.TreeDef Model.TreeHeap Model.TreeOpsDescr.
Import ListNotations.

Inductive gexpr := GNT | GNF | GVar (v : nat) | GAdd (a b : gexpr) | GSub (a b : gexpr).

Inductive gstmt :=
| GInit
| GDraw (v lo : nat) (hi : gexpr)
| GIfEqDepth (th el : list gstmt)
| GIfGe (a b : gexpr) (th el : list gstmt)
| GRetTerminal (e : gexpr)
| GNewFun (v : nat) (e : gexpr)
| GLoop (fv : nat) (e : gexpr) (link : list stmt)
| GRetVar (v : nat).

Record gcfg := mkG { g_env : list nat; g_st : hstate; g_ds : list frac }.

Definition grow_result := (nat * hstate * list frac)%type.
(* continue with a configuration, or return a node *)
Definition gstep := res (gcfg + grow_result)%type.

Section GRun.
Variable E : genv.
Variable eqdepth : bool.                                         (* min_depth == max_depth *)
Variable rec : list frac -> hstate -> res grow_result.           (* self.grow(min_depth + 1, max_depth) *)

Fixpoint geval (env : list nat) (e : gexpr) : nat :=
  match e with
  | GNT => g_nt E
  | GNF => length (g_funs E)
  | GVar v => nth v env 0
  | GAdd a b => geval env a + geval env b
  | GSub a b => geval env a - geval env b
  end.

(* the argument loop: i = i0, i0+1, ... *)
Fixpoint loop_args (link : list stmt) (fn : nat) (n i : nat) (ds : list frac) (st : hstate)
  : res (hstate * list frac) :=
  match n with
  | 0 => Ok (st, ds)
  | S n' =>
    match rec ds st with
    | Ok (node, st1, ds1) =>
      match run E link (mkCfg [VNat i; VPtr (Some node); VPtr (Some fn)] st1 ds1) with
      | Ok (c, _) => loop_args link fn n' (S i) ds1 (c_st c)
      | Exn => Exn
      | Stuck => Stuck
      end
    | Exn => Exn
    | Stuck => Stuck
    end
  end.

Fixpoint gexec (s : gstmt) (c : gcfg) {struct s} : gstep :=
  let env := g_env c in
  let go := fun (body : list gstmt) =>
              (fix go (l : list gstmt) (c : gcfg) {struct l} : gstep :=
                 match l with
                 | [] => Ok (inl c)
                 | x :: l' => match gexec x c with
                              | Ok (inl c') => go l' c'
                              | r => r
                              end
                 end) body in
  match s with
  | GInit => Ok (inl c)
  | GDraw v lo hi =>
    match g_ds c with
    | [] => Stuck
    | u :: ds' => Ok (inl (mkG (set_nth v (scale lo (geval env hi) u) env) (g_st c) ds'))
    end
  | GIfEqDepth th el => if eqdepth then go th c else go el c
  | GIfGe a b th el => if geval env b <=? geval env a then go th c else go el c
  | GRetTerminal e =>
    let k := geval env e in
    if k <? g_nt E then
      let (n, st1) := alloc (g_st c) (new_cell (Term k) (Some k)) in Ok (inr (n, st1, g_ds c))
    else Exn
  | GNewFun v e =>
    match nth_error (g_funs E) (geval env e) with
    | None => Exn
    | Some op =>
      let (fn, st1) := alloc (g_st c) (new_cell (Fun op) None) in
      Ok (inl (mkG (set_nth v fn env) st1 (g_ds c)))
    end
  | GLoop fv e link =>
    match nth_error (g_funs E) (geval env e) with
    | None => Exn
    | Some op =>
      match nth_error (g_arity E) op with
      | None => Exn
      | Some ar =>
        match loop_args link (nth fv env 0) ar 0 (g_ds c) (g_st c) with
        | Ok (st2, ds2) => Ok (inl (mkG env st2 ds2))
        | Exn => Exn
        | Stuck => Stuck
        end
      end
    end
  | GRetVar v => Ok (inr (nth v env 0, g_st c, g_ds c))
  end.

Fixpoint grun (l : list gstmt) (c : gcfg) : gstep :=
  match l with
  | [] => Ok (inl c)
  | x :: l' => match gexec x c with
               | Ok (inl c') => grun l' c'
               | r => r
               end
  end.

(* falling off the end returns None in Python: not a tree *)
Definition run_grow (l : list gstmt) (nvars : nat) (ds : list frac) (st : hstate) : res grow_result :=
  match grun l (mkG (repeat 0 nvars) st ds) with
  | Ok (inr r) => Ok r
  | Ok (inl _) => Stuck
  | Exn => Exn
  | Stuck => Stuck
  end.

End GRun.
