(* The two hand-written models of math/general.py agree.

     (A) Model/Prims.v       [Prims.tournament ts fitk n draws], [Prims.pairwise l]: fitness values are float KEYS
         (Base/FloatKey.v: order and equality of binary64 values through [nk], so -0.0 == +0.0); the interpreter of
         the description REGENERATED from general.py (Gen/SelDescr.v) is proved equal to them (Model/SelModel.v,
         Props/C18.v).
     (B) Model/TreeHeap.v    [TreeHeap.tournament ts fit n picks] over plain integer fitness codes compared with
         Z.min / Z.eqb, and Model/TreePopDescr.v [pairs]: these are what the GP population model ([reproduction],
         [mutation], [crossover]; the [PForPairs] statement) calls (C08 / C09).

   Here, for EVERY tournament size (0 included), fitness list, n and script of picks -- the runs that end without
   a result included:
     heap_tournament_is_prims      (B) on the numeric keys [map nk fitk] is (A) on the keys fitk, the results read
                                   through [res_opt] (Ok x -> Some x; Exn, Stuck -> None).  No guard is needed: the
                                   two models check "script too short" / "position outside the list" / "min of
                                   nothing" in different orders and (B) tells Exn from Stuck, but they deliver a
                                   result on exactly the same inputs ([heap_tournament_failure_kinds_differ] shows the
                                   one thing [res_opt] forgets).
     heap_tournament_recode        (B) depends on the ORDER of the fitness codes only: recoding them by any map that
                                   preserves [<?] on the elements of the list changes nothing, Exn / Stuck included.
     heap_tournament_codes_is_prims  both together: (B) on any order-preserving integer coding of the keys is (A).
     heap_pairs_is_prims_pairwise  [pairs] is [Prims.pairwise] at type nat.
   Hence, by SelModel / C18, the selection the GP model performs is the interpretation of the regenerated source of
   math/general.py (Props/C09.v: C09_tournament_in_gp_is_general_py, C09_pairs_in_gp_is_general_py). *)
From Coq Require Import List Arith Bool Lia ZArith ZifyBool.
From OV Require Import Base.FloatKey.
From OV Require Model.Prims Model.TreeDef Model.TreeHeap Model.TreePopDescr.
Import ListNotations.

Import OV.Model.TreeHeap.          (* res, Ok, Exn, Stuck, bind, take_picks, zmin_list, first_eq *)

Definition res_opt {A : Type} (r : res A) : option A :=
  match r with Ok x => Some x | Exn => None | Stuck => None end.

Definition map_res {A B : Type} (f : A -> B) (r : res A) : res B :=
  match r with Ok x => Ok (f x) | Exn => Exn | Stuck => Stuck end.

(* ------------------------------------------------------------------ the draws of one round *)
Lemma nth_error_map_z (f : Z -> Z) (l : list Z) : forall p, nth_error (map f l) p = option_map f (nth_error l p).
Proof. induction l as [|a l IH]; intros [|p]; simpl; auto. Qed.

(* recoding the fitness list recodes the values drawn, and nothing else *)
Lemma take_picks_map (f : Z -> Z) (fit : list Z) : forall k picks,
  take_picks k (map f fit) picks = map_res (fun r => (map f (fst r), snd r)) (take_picks k fit picks).
Proof.
  induction k as [|k IH]; intros picks; [reflexivity|].
  destruct picks as [|p picks]; [reflexivity|]. cbn [take_picks].
  rewrite nth_error_map_z. destruct (nth_error fit p) as [v|]; [|reflexivity]. cbn [option_map].
  rewrite IH. destruct (take_picks k fit picks) as [[vs rest]| |]; reflexivity.
Qed.

(* (B)'s sequential draw of k values = (A)'s length test, then lookup of the first k positions *)
Lemma take_picks_prims (fit : list Z) : forall k picks,
  res_opt (take_picks k fit picks) =
  if (length picks <? k)%nat then None else
    match Prims.lookup_all fit (firstn k picks) with
    | Some vals => Some (vals, skipn k picks)
    | None => None
    end.
Proof.
  induction k as [|k IH]; intros picks; [reflexivity|].
  destruct picks as [|p picks]; [reflexivity|].
  change (length (p :: picks) <? S k)%nat with (length picks <? k)%nat.
  cbn [take_picks firstn skipn Prims.lookup_all].
  destruct (nth_error fit p) as [v|].
  - specialize (IH picks).
    destruct (take_picks k fit picks) as [[vs rest]| |]; cbn [bind res_opt fst snd] in *;
      destruct (length picks <? k)%nat; try discriminate; try reflexivity;
      destruct (Prims.lookup_all fit (firstn k picks)); try discriminate; try reflexivity.
    injection IH as -> ->. reflexivity.
  - destruct (length picks <? k)%nat; reflexivity.
Qed.

Lemma take_picks_in (fit : list Z) : forall k picks vals rest,
  take_picks k fit picks = Ok (vals, rest) -> forall v, In v vals -> In v fit.
Proof.
  induction k as [|k IH]; intros picks vals rest H.
  - injection H as <- _. intros v [].
  - destruct picks as [|p picks]; [discriminate|]. cbn [take_picks] in H.
    destruct (nth_error fit p) as [x|] eqn:E; [|discriminate].
    destruct (take_picks k fit picks) as [[vs r]| |] eqn:T; try discriminate.
    cbn [bind fst snd] in H. injection H as <- _.
    intros v [<-|Hv]; [eapply nth_error_In; exact E | eapply IH; [exact T | exact Hv]].
Qed.

(* ------------------------------------------------------------------ min / first position, keys vs numbers *)
(* Python's min keeps the FIRST minimal key; its numeric value is the fold of Z.min over the numeric values *)
Lemma fold_min_nk (l : list Z) : forall m, fold_left Z.min (map nk l) (nk m) = nk (Prims.first_min m l).
Proof.
  induction l as [|a l IH]; intros m; [reflexivity|]. cbn [map fold_left Prims.first_min].
  rewrite <- IH. f_equal. unfold klt. destruct (nk a <? nk m) eqn:E; lia.
Qed.

Lemma zmin_list_nk (vals : list Z) : zmin_list (map nk vals) = option_map nk (Prims.py_min vals).
Proof. destruct vals as [|v vals]; [reflexivity|]. cbn [map zmin_list Prims.py_min option_map]. f_equal. apply fold_min_nk. Qed.

Lemma first_eq_nk (m : Z) (fit : list Z) : forall i, first_eq (nk m) (map nk fit) i = Prims.first_pos m fit i.
Proof.
  induction fit as [|a fit IH]; intros i; [reflexivity|]. cbn [map first_eq Prims.first_pos]. unfold keq.
  destruct (nk a =? nk m)%Z; [reflexivity | apply IH].
Qed.

(* ------------------------------------------------------------------ 1. (B) on numeric keys is (A) on keys *)
Theorem heap_tournament_is_prims : forall (ts : nat) (fitk : list Z) (n : nat) (picks : list nat),
  res_opt (TreeHeap.tournament ts (map nk fitk) n picks) = Prims.tournament ts fitk n picks.
Proof.
  intros ts fitk. induction n as [|n IH]; intros picks; [reflexivity|].
  cbn [TreeHeap.tournament Prims.tournament]. rewrite take_picks_map.
  pose proof (take_picks_prims fitk ts picks) as H.
  destruct (take_picks ts fitk picks) as [[vals rest]| |]; cbn [res_opt map_res bind fst snd] in *.
  - destruct (length picks <? ts)%nat; [discriminate|].
    destruct (Prims.lookup_all fitk (firstn ts picks)) as [vals'|]; [|discriminate].
    injection H as <- ->. rewrite zmin_list_nk.
    destruct (Prims.py_min vals) as [m|]; cbn [option_map]; [|reflexivity].
    rewrite first_eq_nk. destruct (Prims.first_pos m fitk 0) as [i|]; [|reflexivity].
    specialize (IH (skipn ts picks)).
    destruct (TreeHeap.tournament ts (map nk fitk) n (skipn ts picks)) as [[s r]| |];
      cbn [res_opt bind fst snd] in *; rewrite <- IH; reflexivity.
  - destruct (length picks <? ts)%nat; [reflexivity|].
    destruct (Prims.lookup_all fitk (firstn ts picks)); [discriminate | reflexivity].
  - destruct (length picks <? ts)%nat; [reflexivity|].
    destruct (Prims.lookup_all fitk (firstn ts picks)); [discriminate | reflexivity].
Qed.

(* ------------------------------------------------------------------ 2. only the order of the codes matters *)
Section Recode.
  Variables (phi : Z -> Z) (fit : list Z).
  Hypothesis phi_order : forall a b, In a fit -> In b fit -> (phi a <? phi b)%Z = (a <? b)%Z.

  Lemma phi_min a b : In a fit -> In b fit -> phi (Z.min a b) = Z.min (phi a) (phi b) /\ In (Z.min a b) fit.
  Proof.
    intros Ha Hb. pose proof (phi_order a b Ha Hb) as H.
    destruct (Z.min_spec a b) as [[L E]|[L E]]; rewrite E; (split; [lia | assumption]).
  Qed.

  Lemma phi_eqb a b : In a fit -> In b fit -> (phi a =? phi b)%Z = (a =? b)%Z.
  Proof.
    intros Ha Hb. destruct (Z.eqb_spec a b) as [->|N]; [apply Z.eqb_refl|].
    pose proof (phi_order a b Ha Hb). pose proof (phi_order b a Hb Ha). lia.
  Qed.

  Lemma fold_min_phi (l : list Z) : (forall v, In v l -> In v fit) -> forall m, In m fit ->
    fold_left Z.min (map phi l) (phi m) = phi (fold_left Z.min l m) /\ In (fold_left Z.min l m) fit.
  Proof.
    induction l as [|a l IH]; intros Hl m Hm; [split; [reflexivity | exact Hm]|].
    cbn [map fold_left]. destruct (phi_min m a Hm (Hl a (or_introl eq_refl))) as [E I].
    rewrite <- E. apply IH; [intros v Hv; apply Hl; right; exact Hv | exact I].
  Qed.

  Lemma zmin_list_phi (vals : list Z) : (forall v, In v vals -> In v fit) ->
    zmin_list (map phi vals) = option_map phi (zmin_list vals) /\
    forall m, zmin_list vals = Some m -> In m fit.
  Proof.
    destruct vals as [|v vals]; intros Hl; [split; [reflexivity | discriminate]|].
    cbn [map zmin_list option_map].
    destruct (fold_min_phi vals (fun x Hx => Hl x (or_intror Hx)) v (Hl v (or_introl eq_refl))) as [E I].
    split; [f_equal; exact E | intros m [= <-]; exact I].
  Qed.

  Lemma first_eq_phi (m : Z) : In m fit -> forall l, (forall v, In v l -> In v fit) ->
    forall i, first_eq (phi m) (map phi l) i = first_eq m l i.
  Proof.
    intros Hm. induction l as [|a l IH]; intros Hl i; [reflexivity|]. cbn [map first_eq].
    rewrite (phi_eqb a m (Hl a (or_introl eq_refl)) Hm).
    destruct (a =? m)%Z; [reflexivity | apply IH; intros v Hv; apply Hl; right; exact Hv].
  Qed.

  Theorem heap_tournament_recode : forall (ts n : nat) (picks : list nat),
    TreeHeap.tournament ts (map phi fit) n picks = TreeHeap.tournament ts fit n picks.
  Proof.
    intros ts. induction n as [|n IH]; intros picks; [reflexivity|].
    cbn [TreeHeap.tournament]. rewrite take_picks_map.
    destruct (take_picks ts fit picks) as [[vals rest]| |] eqn:T; cbn [map_res bind fst snd]; try reflexivity.
    destruct (zmin_list_phi vals (take_picks_in fit ts picks vals rest T)) as [E I]. rewrite E.
    destruct (zmin_list vals) as [m|]; cbn [option_map]; [|reflexivity].
    rewrite (first_eq_phi m (I m eq_refl) fit (fun v Hv => Hv)).
    destruct (first_eq m fit 0) as [s|]; [|reflexivity]. rewrite IH. reflexivity.
  Qed.
End Recode.

(* the harness's small integer codes: any coding of the keys that preserves the IEEE order (hence IEEE equality:
   -0.0 and +0.0 get the same code) gives (A)'s answer *)
Corollary heap_tournament_codes_is_prims : forall (code : Z -> Z) (fitk : list Z),
  (forall a b, In a fitk -> In b fitk -> (code (nk a) <? code (nk b))%Z = klt a b) ->
  forall ts n picks,
  res_opt (TreeHeap.tournament ts (map (fun k => code (nk k)) fitk) n picks) = Prims.tournament ts fitk n picks.
Proof.
  intros code fitk H ts n picks. rewrite <- heap_tournament_is_prims, <- (map_map nk code).
  rewrite (heap_tournament_recode code (map nk fitk)); [reflexivity|].
  intros a b Ha Hb. apply in_map_iff in Ha, Hb. destruct Ha as [a' [<- Ha]]. destruct Hb as [b' [<- Hb]].
  apply H; assumption.
Qed.

(* an affine recoding with positive slope, as an instance *)
Corollary heap_tournament_affine : forall (a b : Z) (fit : list Z), (0 < a)%Z ->
  forall ts n picks,
  TreeHeap.tournament ts (map (fun z => a * z + b)%Z fit) n picks = TreeHeap.tournament ts fit n picks.
Proof.
  intros a b fit Ha ts n picks. apply (heap_tournament_recode (fun z => a * z + b)%Z fit).
  intros x y _ _. destruct (x <? y)%Z eqn:E; nia.
Qed.

(* ------------------------------------------------------------------ 3. pairwise *)
Theorem heap_pairs_is_prims_pairwise : forall l : list nat, TreePopDescr.pairs l = Prims.pairwise l.
Proof.
  induction l using Prims.pairwise_ind2; [reflexivity | reflexivity |].
  cbn [TreePopDescr.pairs Prims.pairwise]. rewrite IHl. reflexivity.
Qed.

(* ------------------------------------------------------------------ corners, evaluated *)
Local Open Scope nat_scope.
(* keys: 3.0 = 4613937818241073152, -0.0 = -1, +0.0 = 0, -2.0 = -4611686018427387905 *)
Definition sel_fk : list Z := [4613937818241073152; -1; 0; -4611686018427387905; -4611686018427387905]%Z.

Definition sel_both (ts : nat) (fitk : list Z) (n : nat) (picks : list nat) :=
  (TreeHeap.tournament ts (map nk fitk) n picks, Prims.tournament ts fitk n picks).

(* ties and the two zeros: the first holder wins (position 1 = -0.0 for the zeros, 3 for the two -2.0) *)
Example heap_tournament_nonvacuous :
  sel_both 2 sel_fk 4 [1; 2; 2; 1; 4; 3; 0; 0] = (Ok ([1; 1; 3; 0], []), Some ([1; 1; 3; 0], [])) /\
  sel_both 3 sel_fk 2 [0; 2; 1; 4; 4; 0; 7] = (Ok ([1; 3], [7]), Some ([1; 3], [7])).
Proof. split; vm_compute; reflexivity. Qed.

(* what [res_opt] forgets: (B) tells an exhausted / out-of-range script (Stuck: the script is not a run of the
   program) from Python raising (Exn: min([]) at TOURNAMENT_SIZE = 0); (A) answers None to all of them.  Also the
   ORDER of the checks differs -- (A) tests the length of the script before looking any position up, (B) walks
   the script -- but both orders end without a result on the same inputs. *)
Example heap_tournament_failure_kinds_differ :
  sel_both 0 sel_fk 1 [0; 1] = (Exn, None) /\                       (* ts = 0, n > 0: min([]) raises *)
  sel_both 0 sel_fk 0 [0; 1] = (Ok ([], [0; 1]), Some ([], [0; 1])) /\   (* ts = 0, n = 0 *)
  sel_both 2 sel_fk 2 [0; 1; 2] = (Stuck, None) /\                  (* too few picks, second round *)
  sel_both 2 sel_fk 1 [9; 1] = (Stuck, None) /\                     (* a pick outside the list *)
  sel_both 2 sel_fk 1 [9] = (Stuck, None) /\                        (* outside AND too few: (A) stops at the length test *)
  sel_both 2 [] 1 [0; 0] = (Stuck, None).                       (* empty fitness list *)
Proof. repeat split; vm_compute; reflexivity. Qed.

(* why the link goes through [nk]: on the RAW keys Z.eqb / Z.min would tell -0.0 (-1) from +0.0 (0) *)
Example heap_tournament_raw_keys_differ :
  TreeHeap.tournament 2 [0; -1]%Z 1 [0; 1] = Ok ([1], []) /\ Prims.tournament 2 [0; -1]%Z 1 [0; 1] = Some ([0], []).
Proof. split; vm_compute; reflexivity. Qed.

Example heap_pairs_nonvacuous :
  TreePopDescr.pairs [4; 7; 1; 0; 9] = [[4; 7]; [1; 0]; [9]] /\ Prims.pairwise [4; 7; 1; 0; 9] = [[4; 7]; [1; 0]; [9]].
Proof. split; reflexivity. Qed.
