(* ABC._send_onlooker's selection loop over the rationals:

       total = sum(fit);  k = 0
       while k < n:  for each agent i:  r1 = uniform(lo, hi);  if r1 < prob(fit_i, total):  k += 1;  <trial on i>

   [prob] is a parameter (instantiated with the regenerated Gen/Onlooker.onl_prob).  The total is computed once,
   before the loop (stale).  A visit consumes one stream entry (r1, v): the draw and the fitness the trial would
   yield; a selected agent keeps min(fit_i, v) (greedy acceptance in _evaluate_location).  The loop is run on
   explicit fuel (number of passes); exhausting it returns [OutOfFuel], never a normal-looking value. *)
From Coq Require Import QArith List Lia Bool.
Import ListNotations.
Open Scope Q_scope.

Definition qmin (a b : Q) : Q := if Qlt_le_dec b a then b else a.

Inductive ores := Done (fits : list Q) (k : nat) (rest : list (Q * Q)) | OutOfFuel | OutOfStream.

Section Onl.
  Variable prob : Q -> Q.            (* selection probability of a food source with this fitness (stale total folded in) *)

  Definition selected (r1 fit : Q) : bool := if Qlt_le_dec r1 (prob fit) then true else false.

  (* one pass over the agents: returns the new fitnesses, the counter and the remaining stream *)
  Fixpoint pass (fits : list Q) (k : nat) (s : list (Q * Q)) : option (list Q * nat * list (Q * Q)) :=
    match fits with
    | [] => Some ([], k, s)
    | f :: t =>
        match s with
        | [] => None
        | (r1, v) :: s' =>
            let '(f', k') := if selected r1 f then (qmin f v, S k) else (f, k) in
            match pass t k' s' with
            | Some (t', k'', s'') => Some (f' :: t', k'', s'')
            | None => None
            end
        end
    end.

  Fixpoint loop (fuel : nat) (fits : list Q) (k : nat) (s : list (Q * Q)) : ores :=
    if Nat.leb (length fits) k then Done fits k s
    else match fuel with
         | O => OutOfFuel
         | S fuel' => match pass fits k s with
                      | Some (fits', k', s') => loop fuel' fits' k' s'
                      | None => OutOfStream
                      end
         end.

  (* no source has a positive probability: nothing is ever selected, whatever the (non-negative) draws *)
  Lemma pass_no_selection lo fits k s r :
    (forall f, In f fits -> prob f <= lo) -> (forall d, In d s -> lo <= fst d) ->
    pass fits k s = Some r -> exists s', r = (fits, k, s') /\ (forall d, In d s' -> In d s).
  Proof.
    revert k s r. induction fits as [|f t IH]; intros k s r Hp Hd H; simpl in H.
    - injection H as <-. exists s. split; [reflexivity|auto].
    - destruct s as [|[r1 v] s']; [discriminate|].
      assert (Hsel : selected r1 f = false).
      { unfold selected. destruct (Qlt_le_dec r1 (prob f)) as [Hlt|]; [|reflexivity].
        exfalso. assert (H1 : prob f <= lo) by (apply Hp; left; reflexivity).
        assert (H2 : lo <= r1) by (apply (Hd (r1, v)); left; reflexivity).
        apply (Qlt_irrefl r1). eapply Qlt_le_trans; [exact Hlt|]. eapply Qle_trans; eassumption. }
      rewrite Hsel in H.
      destruct (pass t k s') as [[[t' k''] s'']|] eqn:E; [|discriminate]. injection H as <-.
      destruct (IH k s' _ (fun g Hg => Hp g (or_intror Hg)) (fun d Hdd => Hd d (or_intror Hdd)) E) as (s3 & Heq & Hin).
      injection Heq as -> -> ->. exists s3. split; [reflexivity|]. intros d Hdd. right. apply Hin. exact Hdd.
  Qed.

  (* ... hence the loop cannot finish: for every fuel it runs out of fuel (or of stream), it never returns Done *)
  Theorem stuck_forever lo fits k :
    (k < length fits)%nat -> (forall f, In f fits -> prob f <= lo) ->
    forall fuel s, (forall d, In d s -> lo <= fst d) -> forall fs k' r, loop fuel fits k s <> Done fs k' r.
  Proof.
    intros Hk Hp fuel. induction fuel as [|fuel IH]; intros s Hd fs k' r; simpl.
    - destruct (Nat.leb (length fits) k) eqn:E; [apply Nat.leb_le in E; lia|discriminate].
    - destruct (Nat.leb (length fits) k) eqn:E; [apply Nat.leb_le in E; lia|].
      destruct (pass fits k s) as [[[fits' k2] s']|] eqn:Ep; [|discriminate].
      destruct (pass_no_selection lo fits k s _ Hp Hd Ep) as (s3 & Heq & Hin). injection Heq as -> -> ->.
      apply IH. intros d Hdd. apply Hd. apply Hin. exact Hdd.
  Qed.

  (* liveness when every source is certain to be selected: one pass suffices *)
  Lemma pass_all_selected hi fits k s r :
    (forall f, In f fits -> hi <= prob f) -> (forall d, In d s -> fst d < hi) ->
    pass fits k s = Some r -> snd (fst r) = (k + length fits)%nat.
  Proof.
    revert k s r. induction fits as [|f t IH]; intros k s r Hp Hd H; simpl in H.
    - injection H as <-. simpl. lia.
    - destruct s as [|[r1 v] s']; [discriminate|].
      assert (Hsel : selected r1 f = true).
      { unfold selected. destruct (Qlt_le_dec r1 (prob f)) as [|Hle]; [reflexivity|].
        exfalso. assert (H1 : hi <= prob f) by (apply Hp; left; reflexivity).
        assert (H2 : r1 < hi) by (apply (Hd (r1, v)); left; reflexivity).
        apply (Qlt_irrefl r1). eapply Qlt_le_trans; [exact H2|]. eapply Qle_trans; eassumption. }
      rewrite Hsel in H.
      destruct (pass t (S k) s') as [[[t' k''] s'']|] eqn:E; [|discriminate]. injection H as <-. simpl.
      pose proof (IH (S k) s' _ (fun g Hg => Hp g (or_intror Hg)) (fun d Hdd => Hd d (or_intror Hdd)) E) as Hk. simpl in Hk. lia.
  Qed.
End Onl.
