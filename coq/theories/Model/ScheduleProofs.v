(* C15 (range part) -- hand-written library for the hyperparameter schedules.

   Nothing here depends on Gen/Schedules.v: these are the *shapes* (convex combination, linear
   ramp, geometric ramp, multiplicative decay, subtractive decay), the counting loop, and the
   iteration of an update function over a run of any length.  Props/C15ranges.v instantiates them
   on the definitions regenerated from /repo by translate/t3_sched.py.

   Conventions: values over Coq's R; division and logarithm never rely on Coq's totalisation
   (x/0 = 0, ln 0 = 0): every lemma that mentions `/ n` or `ln x` has `0 < n` / `0 < x` among its
   hypotheses, and the regenerated `*_defined` side conditions are proved from those hypotheses. *)
From Coq Require Import Reals Lra Lia List Bool Arith.
Import ListNotations.
Open Scope R_scope.

(* ------------------------------------------------------------------ transport along equalities *)

Lemma between_eq : forall lo hi e r : R, e = r -> lo <= r <= hi -> lo <= e <= hi.
Proof. intros lo hi e r -> H; exact H. Qed.

(* ------------------------------------------------------------------ basic shapes *)

Lemma ratio_unit : forall p n : R, 0 <= p <= n -> 0 < n -> 0 <= p / n <= 1.
Proof.
  intros p n [H1 H2] Hn. unfold Rdiv. split.
  - apply Rmult_le_pos; [exact H1 | left; apply Rinv_0_lt_compat; exact Hn].
  - apply (Rmult_le_reg_r n); [exact Hn |].
    rewrite Rmult_assoc, Rinv_l by lra. lra.
Qed.

Lemma convex_range : forall a b s : R, a <= b -> 0 <= s <= 1 -> a <= (b - a) * s + a <= b.
Proof. intros a b s Hab [H0 H1]; split; nra. Qed.

(* AIWPSO: w = (w_max - w_min) * (p / n) + w_min *)
Definition convex_ref (a b p n : R) : R := (b - a) * (p / n) + a.

Lemma convex_ref_range : forall a b p n : R,
  a <= b -> 0 <= p <= n -> 0 < n -> a <= convex_ref a b p n <= b.
Proof. intros; unfold convex_ref; apply convex_range; [assumption | apply ratio_unit; assumption]. Qed.

(* IHS: PAR_t = PAR_min + ((PAR_max - PAR_min) / n) * t *)
Definition linear_ref (a b n t : R) : R := a + ((b - a) / n) * t.

Lemma linear_ref_range : forall a b n t : R,
  a <= b -> 0 <= t <= n -> 0 < n -> a <= linear_ref a b n t <= b.
Proof.
  intros a b n t Hab Ht Hn. unfold linear_ref.
  apply between_eq with (r := (b - a) * (t / n) + a); [field; lra |].
  apply convex_range; [assumption | apply ratio_unit; assumption].
Qed.

(* the ramp is non-decreasing in t and reaches b exactly at t = n (so t = n is the last admissible index) *)
Lemma linear_ref_past_end : forall a b n t : R, a < b -> 0 < n -> n < t -> b < linear_ref a b n t.
Proof.
  intros a b n t Hab Hn Ht. unfold linear_ref.
  assert (H : 0 < (b - a) / n) by (apply Rdiv_lt_0_compat; lra).
  assert (E : b = a + (b - a) / n * n) by (field; lra).
  rewrite E at 1. apply Rplus_lt_compat_l. apply Rmult_lt_compat_l; assumption.
Qed.

(* IHS: bw_t = bw_max * exp ((ln (bw_min / bw_max) / n) * t) *)
Definition geometric_ref (lo hi n t : R) : R := hi * exp ((ln (lo / hi) / n) * t).

Lemma ln_le_0 : forall r : R, 0 < r <= 1 -> ln r <= 0.
Proof.
  intros r [H0 H1]. destruct (Rle_lt_or_eq_dec _ _ H1) as [Hlt | Heq].
  - left. rewrite <- ln_1. apply ln_increasing; assumption.
  - subst r. rewrite ln_1. lra.
Qed.

Lemma exp_le : forall x y : R, x <= y -> exp x <= exp y.
Proof.
  intros x y [H | H]; [left; apply exp_increasing; exact H | subst; lra].
Qed.

Lemma geometric_ref_range : forall lo hi n t : R,
  0 < lo <= hi -> 0 <= t <= n -> 0 < n -> lo <= geometric_ref lo hi n t <= hi.
Proof.
  intros lo hi n t [Hlo Hle] Ht Hn. unfold geometric_ref.
  assert (Hhi : 0 < hi) by lra.
  assert (Hr : 0 < lo / hi <= 1).
  { split; [apply Rdiv_lt_0_compat; assumption |].
    apply (Rmult_le_reg_r hi); [exact Hhi |]. unfold Rdiv. rewrite Rmult_assoc, Rinv_l by lra. lra. }
  pose proof (ln_le_0 _ Hr) as HL.
  pose proof (ratio_unit t n Ht Hn) as Hs.
  set (L := ln (lo / hi)) in *.
  assert (E : L / n * t = L * (t / n)) by (field; lra).
  rewrite E.
  assert (B1 : L <= L * (t / n)) by nra.
  assert (B2 : L * (t / n) <= 0) by nra.
  pose proof (exp_le _ _ B1) as E1. pose proof (exp_le _ _ B2) as E2.
  rewrite exp_0 in E2. unfold L in E1 at 1. rewrite exp_ln in E1 by apply Hr.
  assert (Elo : lo = hi * (lo / hi)) by (field; lra).
  split.
  - rewrite Elo at 1. apply Rmult_le_compat_l; [lra | exact E1].
  - rewrite <- (Rmult_1_r hi) at 2. apply Rmult_le_compat_l; [lra | exact E2].
Qed.

(* SA: T' = T * beta *)
Lemma decay_mul : forall x b : R, 0 <= b <= 1 -> 0 <= x -> 0 <= x * b <= x.
Proof. intros x b [H0 H1] Hx; split; nra. Qed.

(* with a factor above 1 a positive value grows: the hypothesis beta <= 1 is necessary *)
Lemma decay_mul_grows : forall x b : R, 1 < b -> 0 < x -> x < x * b.
Proof. intros; nra. Qed.

(* FA: alpha' = alpha * c^(1/n) with 0 < c < 1 *)
Lemma Rpower_unit : forall c y : R, 0 < c < 1 -> 0 < y -> 0 < Rpower c y < 1.
Proof.
  intros c y [Hc0 Hc1] Hy. unfold Rpower. split; [apply exp_pos |].
  rewrite <- exp_0. apply exp_increasing.
  assert (Hl : ln c < 0) by (rewrite <- ln_1; apply ln_increasing; assumption).
  nra.
Qed.

Lemma inv_pos_of_ge_1 : forall n : R, 1 <= n -> 0 < 1 / n.
Proof. intros n Hn. unfold Rdiv. rewrite Rmult_1_l. apply Rinv_0_lt_compat. lra. Qed.

(* (c^(1/n))^n = c : after n steps the total decay factor is exactly c *)
Lemma Rpower_root_pow : forall (c : R) (n : nat), 0 < c -> (1 <= n)%nat ->
  Rpower c (1 / INR n) ^ n = c.
Proof.
  intros c n Hc Hn.
  assert (Hn' : 0 < INR n) by (apply lt_0_INR; lia).
  rewrite <- Rpower_pow by (unfold Rpower; apply exp_pos).
  rewrite Rpower_mult.
  replace (1 / INR n * INR n) with 1 by (field; lra).
  apply Rpower_1; exact Hc.
Qed.

(* WCA: d' = d - d / n *)
Lemma decay_sub : forall d n : R, 1 <= n -> 0 <= d -> 0 <= d - d / n <= d.
Proof.
  intros d n Hn Hd.
  assert (Hu : 0 <= d / n <= d).
  { assert (Hi : 0 < / n) by (apply Rinv_0_lt_compat; lra).
    assert (Hi1 : / n <= 1).
    { rewrite <- Rinv_1. apply Rinv_le_contravar; lra. }
    unfold Rdiv. split; nra. }
  lra.
Qed.

Lemma decay_sub_nonneg_iff : forall d n : R, 0 < d -> 0 < n -> (0 <= d - d / n <-> 1 <= n).
Proof.
  intros d n Hd Hn.
  assert (E : d - d / n = d * ((n - 1) / n)) by (field; lra).
  rewrite E. split; intro H.
  - destruct (Rle_or_lt 1 n) as [|Hlt]; [assumption | exfalso].
    assert (Hneg : (n - 1) / n < 0).
    { unfold Rdiv. assert (0 < / n) by (apply Rinv_0_lt_compat; lra). nra. }
    nra.
  - apply Rmult_le_pos; [lra |]. unfold Rdiv. apply Rmult_le_pos; [lra |].
    left; apply Rinv_0_lt_compat; lra.
Qed.

(* ------------------------------------------------------------------ the counting loop

   p = init; for each agent: if <test>: p += inc      (tests : the outcomes of the test, in order) *)

Fixpoint count_loop (init inc : nat) (tests : list bool) : nat :=
  match tests with
  | [] => init
  | b :: r => count_loop (if b then init + inc else init) inc r
  end.

Lemma count_loop_bounds : forall tests init inc,
  (init <= count_loop init inc tests <= init + inc * length tests)%nat.
Proof.
  induction tests as [| b r IH]; intros init inc; simpl; [lia |].
  destruct b; specialize (IH (if true then init + inc else init)%nat inc) as IH1;
    specialize (IH init inc) as IH2; simpl in *; lia.
Qed.

Lemma count_loop_le_length : forall tests, (count_loop 0 1 tests <= length tests)%nat.
Proof. intro tests. pose proof (count_loop_bounds tests 0 1). lia. Qed.

Lemma count_loop_is_count : forall tests, count_loop 0 1 tests = length (filter (fun b => b) tests).
Proof.
  assert (G : forall tests init, count_loop init 1 tests = (init + length (filter (fun b => b) tests))%nat).
  { induction tests as [| b r IH]; intro init; simpl; [lia |].
    destruct b; simpl; rewrite IH; lia. }
  intro tests. rewrite G. lia.
Qed.

Lemma count_as_real : forall tests, tests <> [] ->
  0 <= INR (count_loop 0 1 tests) <= INR (length tests) /\ 0 < INR (length tests).
Proof.
  intros tests Hne. split; [split |].
  - apply pos_INR.
  - apply le_INR. apply count_loop_le_length.
  - apply lt_0_INR. destruct tests; [contradiction | simpl; lia].
Qed.

(* with an increment of 2 the count can exceed the population: inc = 1 is necessary *)
Lemma count_loop_inc2_exceeds : (count_loop 0 2 [true] > length [true])%nat.
Proof. simpl. lia. Qed.

(* ------------------------------------------------------------------ a run: the update iterated

   f t x is the value written in iteration t (0-based) when the old value is x;
   iter_sched f k x0 is the value after k iterations, starting from x0. *)

Fixpoint iter_sched (f : nat -> R -> R) (k : nat) (x0 : R) : R :=
  match k with
  | O => x0
  | S j => f j (iter_sched f j x0)
  end.

(* an invariant preserved by every step of a run of N iterations holds at every moment of it *)
Lemma iter_inv : forall (P : R -> Prop) f (N : nat) x0,
  P x0 -> (forall t x, (t < N)%nat -> P x -> P (f t x)) ->
  forall k, (k <= N)%nat -> P (iter_sched f k x0).
Proof.
  intros P f N x0 H0 Hstep. induction k as [| j IH]; intro Hk; simpl; [exact H0 |].
  apply Hstep; [lia | apply IH; lia].
Qed.

(* a property established by every write, whatever the old value, holds from the first write on *)
Lemma iter_fresh : forall (P : R -> Prop) f (N : nat) x0,
  (forall t x, (t < N)%nat -> P (f t x)) ->
  forall k, (1 <= k <= N)%nat -> P (iter_sched f k x0).
Proof.
  intros P f N x0 Hstep k Hk. destruct k as [| j]; [lia |]. simpl. apply Hstep. lia.
Qed.

(* a non-increasing, invariant-preserving step gives a non-increasing run *)
Lemma iter_noninc : forall (Inv : R -> Prop) f (N : nat) x0,
  Inv x0 -> (forall t x, (t < N)%nat -> Inv x -> Inv (f t x) /\ f t x <= x) ->
  forall k, (k < N)%nat ->
    Inv (iter_sched f (S k) x0) /\ iter_sched f (S k) x0 <= iter_sched f k x0.
Proof.
  intros Inv f N x0 H0 Hstep k Hk.
  assert (HI : Inv (iter_sched f k x0)).
  { apply (iter_inv Inv f N); [exact H0 | intros t x Ht Hx; apply Hstep; assumption | lia]. }
  simpl. apply Hstep; [exact Hk | exact HI].
Qed.

Lemma iter_noninc_from_start : forall (Inv : R -> Prop) f (N : nat) x0,
  Inv x0 -> (forall t x, (t < N)%nat -> Inv x -> Inv (f t x) /\ f t x <= x) ->
  forall k, (k <= N)%nat -> iter_sched f k x0 <= x0.
Proof.
  intros Inv f N x0 H0 Hstep. induction k as [| j IH]; intro Hk; [simpl; lra |].
  destruct (iter_noninc Inv f N x0 H0 Hstep j) as [_ Hle]; [lia |].
  specialize (IH ltac:(lia)). lra.
Qed.

(* a time-independent multiplicative step has the closed form x0 * q^k *)
Lemma iter_geometric : forall (q x0 : R) (k : nat),
  iter_sched (fun _ x => x * q) k x0 = x0 * q ^ k.
Proof. intros q x0. induction k as [| j IH]; simpl; [lra | rewrite IH; ring]. Qed.

(* index facts used to instantiate the real-valued schedules at t = INR j *)
Lemma INR_index : forall j N : nat, (j < N)%nat -> 0 <= INR j <= INR N /\ 0 < INR N /\ INR j < INR N.
Proof.
  intros j N H. split; [split; [apply pos_INR | apply le_INR; lia] |].
  split; [apply lt_0_INR; lia | apply lt_INR; exact H].
Qed.

Lemma INR_ge_1 : forall N : nat, (1 <= N)%nat -> 1 <= INR N.
Proof. intros N H. change 1 with (INR 1). apply le_INR. exact H. Qed.
