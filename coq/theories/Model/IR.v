(* The effect IR into which T2 (translate/t2_ir.py) translates run/_update/_evaluate of every
   optimizer.  Only the *order of effects on agents* is kept; arithmetic is replaced by an oracle. *)
From Coq Require Import List String Bool Arith.
Import ListNotations.

Inductive ref :=
| Cur                 (* the slot of the enclosing ForSlots (for agent in agents) *)
| Slot (v : nat)      (* agents[k], k held in index register v (set by ChooseIdx v: any in-range index) *)
| Last                (* agents[-1] *)
| Best                (* space.best_agent *)
| Tr                  (* the trial agent: a local deep copy of an agent *)
| Sh.                 (* the current slot's entry in a deep-copied population (new_agents) *)

Inductive mode := Fresh | InPlace.     (* position rebound to a new array / mutated in place *)

Inductive cond :=
| FitLt (a b : ref)   (* a.fit < b.fit *)
| TmpLt (a : ref)     (* fit < a.fit, `fit` the temp holding the last EvalTmp *)
| Opaque              (* any test on numeric data: the oracle decides *)
| CNot (c : cond) | CAnd (c d : cond) | COr (c d : cond).

Inductive stmt :=
| Skip
| Havoc (m : mode) (r : ref)      (* r.position := arithmetic result (oracle) *)
| Clip (r : ref)                  (* r.check_limits() *)
| ClipAll                         (* space.check_limits() *)
| Eval (r : ref)                  (* r.fit = function.pointer(r.position) *)
| EvalTmp (r : ref)               (* fit = function.pointer(r.position) *)
| SetFitTmp (r : ref)             (* r.fit = fit *)
| CopyPos (d s : ref)             (* d.position = copy.deepcopy(s.position) *)
| CopyFit (d s : ref)             (* d.fit = copy.deepcopy(s.fit) *)
| LocFromPos                      (* local_position[i] = copy.deepcopy(agent.position) *)
| BestPosFromLoc                  (* best.position = copy.deepcopy(local_position[i]) *)
| SwapPos (a b : ref) | SwapFit (a b : ref)
| NewTrial (s : ref)              (* a = copy.deepcopy(s) *)
| ShadowAll                       (* new_agents = copy.deepcopy(agents) *)
| Store (d s : ref)               (* agents[d] = copy.deepcopy(s) *)
| ChooseIdx (v : nat)
| SortByFit                       (* agents.sort(key=lambda x: x.fit) *)
| If (c : cond) (s1 s2 : stmt)
| Seq (s1 s2 : stmt)
| ForSlots (b : stmt)             (* for agent in agents / zip(agents, new_agents) / zip(trees, agents) *)
| RepeatAny (b : stmt)            (* a loop over numeric data: any number of iterations *)
| Repeat (b : stmt)               (* for t in range(space.n_iterations) *)
| Onlooker (b : stmt)             (* ABC: while k < n: for agent in agents: if <opaque>: k += 1; ... *)
| Hook | Dump | Draw
| SetHyper (h : string)           (* self.<h> = ... *)
| PosFromTree (r : ref)           (* agent.position = copy.deepcopy(tree.position)  (GP) *)
| BestTreeCopy                    (* space.best_tree = copy.deepcopy(tree) *)
| TreeCopy (d s : ref)            (* space.trees[d] = copy.deepcopy(space.trees[s]) *)
| TreeSet (d : ref) (k : string)  (* space.trees[d] = mutate / grow *)
| TreeCross (a b : ref)           (* space.trees[a], space.trees[b] = self._cross(...) *)
| At (loc : nat) (s : stmt).      (* source location: index into the program's locs table *)

Definition ref_eqb (a b : ref) : bool :=
  match a, b with
  | Cur, Cur | Last, Last | Best, Best | Tr, Tr | Sh, Sh => true
  | Slot v, Slot w => Nat.eqb v w
  | _, _ => false
  end.

Lemma ref_eqb_eq a b : ref_eqb a b = true <-> a = b.
Proof.
  destruct a, b; simpl; split; intros H; try discriminate; try reflexivity.
  - apply Nat.eqb_eq in H. congruence.
  - injection H as ->. apply Nat.eqb_refl.
Qed.
