(* The model's own descriptions of tournament_selection and pairwise in the language of Model/SelDescr.v, and
   the PROOFS that interpreting them is [Model.Prims.tournament] / [Model.Prims.pairwise] for every input.

   Convention for np.random.choice(fitness): as in Model/Prims.v a draw is a POSITION j of the fitness list and
   the call answers with the fitness stored there ([EChoice]: the next number j of the script, answer
   [nth_error fitness j]); a script that is exhausted, or a position outside the list, ends the run with [None]
   in the model and in the interpreter alike.  What `min`, `==`, `np.where`, `[k]`, `iter`, `islice`, `tuple`
   mean is fixed by the interpreter (Python's first-minimum, IEEE equality on keys, positions of True, ...);
   those primitives stay tied to NumPy / CPython by the correspondence run of the C18 check. *)
From Coq Require Import ZArith List Bool Arith Lia.
From OV Require Import Base.FloatKey Model.Prims Model.SelDescr.
Import ListNotations.

(* def tournament_selection(fitness, n):          variables: 0 fitness, 1 n, 2 selected, 3 step
       selected = []
       for _ in range(n):
           step = [np.random.choice(fitness) for _ in range(c.TOURNAMENT_SIZE)]
           selected.append(np.where(min(step) == fitness)[0][0])
       return selected *)
Definition tournament_descr : fdescr :=
  {| fd_params := 2; fd_vars := 4;
     fd_body := [ SAssign 2 ENil;
                  SFor (EVar 1)
                    [ SAssign 3 (EComp (EChoice (EVar 0)) ETourSize);
                      SAppend 2 (EIndex (EIndex (EWhere (ECmp OEq (EMin (EVar 3)) (EVar 0))) 0) 0) ];
                  SReturn (EVar 2) ] |}.

(* def pairwise(values):                          variables: 0 values, 1 iterator
       iterator = iter(values)
       return iter(lambda: tuple(islice(iterator, 2)), ()) *)
Definition pairwise_descr : fdescr :=
  {| fd_params := 1; fd_vars := 2;
     fd_body := [ SAssign 1 (EIter (EVar 0));
                  SReturn (EIterUntil (ELambda (ETuple (EIslice (EVar 1) 2))) EUnit) ] |}.

(* ------------------------------------------------------------------ helpers *)
Lemma keys_of_map l : keys_of (map AKey l) = Some l.
Proof. induction l as [|a l IH]; [reflexivity|]. simpl. rewrite IH. reflexivity. Qed.

Lemma ints_of_map l : ints_of (map AInt l) = Some l.
Proof. induction l as [|a l IH]; [reflexivity|]. simpl. rewrite IH. reflexivity. Qed.

Lemma nth_error_map_key (l : list Z) j : nth_error (map AKey l) j = option_map AKey (nth_error l j).
Proof. revert j. induction l as [|a l IH]; intros [|j]; simpl; auto. Qed.

Lemma keq_sym a b : keq a b = keq b a.
Proof. unfold keq. apply Z.eqb_sym. Qed.

Lemma cmp_all_eq m l : cmp_all OEq m (map AKey l) = Some (map (fun v => ABool (keq v m)) l).
Proof. induction l as [|a l IH]; [reflexivity|]. simpl. rewrite IH, (keq_sym m a). reflexivity. Qed.

(* np.where(m == fitness)[0] lists the positions of m; its first entry is [first_pos] *)
Lemma positions_first m l : forall i,
  exists r, positions (map (fun v => ABool (keq v m)) l) i = Some r /\
            hd_error r = option_map AInt (first_pos m l i).
Proof.
  induction l as [|a l IH]; intros i; simpl; [exists []; split; reflexivity|].
  destruct (IH (S i)) as [r [E H]]. rewrite E. destruct (keq a m).
  - exists (AInt i :: r). split; reflexivity.
  - exists r. split; [reflexivity | exact H].
Qed.

Section Tournament.
  Variables (ts : nat) (fit : list Z).

  (* one call of np.random.choice(fitness): the next scripted position, answered with the fitness there *)
  Lemma choice_one env : nth 0 env VUnset = VList (map AKey fit) -> forall store draws,
    eval ts env (EChoice (EVar 0)) (mkSt store draws) =
    match draws with
    | [] => None
    | j :: rest => match nth_error fit j with
                   | Some v => Some (VAtom (AKey v), mkSt store rest)
                   | None => None
                   end
    end.
  Proof.
    intros He store draws. cbn [eval]. rewrite He. cbn [s_draws s_store].
    destruct draws as [|j rest]; [reflexivity|]. rewrite nth_error_map_key.
    destruct (nth_error fit j); reflexivity.
  Qed.

  (* the comprehension: ts draws, each answered with the fitness at the drawn position *)
  Lemma choice_loop env : nth 0 env VUnset = VList (map AKey fit) -> forall k store draws,
    comp_loop (eval ts env (EChoice (EVar 0))) k (mkSt store draws) =
    if (length draws <? k)%nat then None else
      match lookup_all fit (firstn k draws) with
      | Some vals => Some (map AKey vals, mkSt store (skipn k draws))
      | None => None
      end.
  Proof.
    intros He. induction k as [|k IH]; intros store draws; [reflexivity|].
    cbn [comp_loop]. rewrite (choice_one env He).
    destruct draws as [|j rest]; [reflexivity|].
    change (length (j :: rest) <? S k)%nat with (length rest <? k)%nat.
    cbn [firstn skipn lookup_all].
    destruct (nth_error fit j) as [v|].
    - rewrite IH. destruct (length rest <? k)%nat; [reflexivity|].
      destruct (lookup_all fit (firstn k rest)); reflexivity.
    - destruct (length rest <? k)%nat; reflexivity.
  Qed.

  Definition round_body : list stmt :=
    [ SAssign 3 (EComp (EChoice (EVar 0)) ETourSize);
      SAppend 2 (EIndex (EIndex (EWhere (ECmp OEq (EMin (EVar 3)) (EVar 0))) 0) 0) ].

  Definition frame (n0 : nat) (acc : list nat) (x : val) : list val :=
    [VList (map AKey fit); VAtom (AInt n0); VList (map AInt acc); x].

  (* one round of the outer loop = one step of the model's recursion *)
  Lemma round_step n0 acc x draws :
    block ts round_body (mkCfg (frame n0 acc x) (mkSt [] draws)) =
    if (length draws <? ts)%nat then Fail else
      match lookup_all fit (firstn ts draws) with
      | None => Fail
      | Some vals =>
          match py_min vals with
          | None => Fail
          | Some m =>
              match first_pos m fit 0 with
              | None => Fail
              | Some i => Next (mkCfg (frame n0 (acc ++ [i]) (VList (map AKey vals))) (mkSt [] (skipn ts draws)))
              end
          end
      end.
  Proof.
    unfold round_body. cbn [block exec eval c_env c_st].
    rewrite (choice_loop (frame n0 acc x) eq_refl).
    destruct (length draws <? ts)%nat; [reflexivity|].
    destruct (lookup_all fit (firstn ts draws)) as [vals|]; [|reflexivity].
    cbn [frame upd nth c_env c_st]. rewrite keys_of_map.
    destruct (py_min vals) as [m|]; [|reflexivity].
    rewrite cmp_all_eq. destruct (positions_first m fit 0) as [r [E H]]. rewrite E.
    cbn [py_index Z.leb Z.compare Z.to_nat nth_error].
    destruct (first_pos m fit 0) as [i|]; destruct r as [|a r]; simpl in H; try discriminate.
    - injection H as ->. unfold frame. rewrite map_app. reflexivity.
    - reflexivity.
  Qed.

  Lemma rounds n0 : forall n acc x draws,
    match tournament ts fit n draws with
    | Some (sel, rest) =>
        exists x', for_loop n (block ts round_body) (mkCfg (frame n0 acc x) (mkSt [] draws)) =
                   Next (mkCfg (frame n0 (acc ++ sel) x') (mkSt [] rest))
    | None => for_loop n (block ts round_body) (mkCfg (frame n0 acc x) (mkSt [] draws)) = Fail
    end.
  Proof.
    induction n as [|n IH]; intros acc x draws.
    - cbn [tournament for_loop]. exists x. rewrite app_nil_r. reflexivity.
    - cbn [tournament for_loop]. rewrite round_step.
      destruct (length draws <? ts)%nat; [reflexivity|].
      destruct (lookup_all fit (firstn ts draws)) as [vals|]; [|reflexivity].
      destruct (py_min vals) as [m|]; [|reflexivity].
      destruct (first_pos m fit 0) as [i|]; [|reflexivity].
      specialize (IH (acc ++ [i]) (VList (map AKey vals)) (skipn ts draws)).
      destruct (tournament ts fit n (skipn ts draws)) as [[sel rest]|].
      + destruct IH as [x' IH]. exists x'. rewrite IH, <- app_assoc. reflexivity.
      + exact IH.
  Qed.

  (* interpreting the description IS the model function: every fitness list, n and draw script, the
     runs that end with None included *)
  Theorem tournament_is_descr n draws : run_tournament ts tournament_descr fit n draws = tournament ts fit n draws.
  Proof.
    unfold run_tournament, call, tournament_descr. cbn [length fd_params fd_vars fd_body Nat.eqb Nat.sub repeat app].
    cbn [block exec eval c_env c_st upd nth].
    change (for_loop n _ _) with (for_loop n (block ts round_body) (mkCfg (frame n [] VUnset) (mkSt [] draws))).
    pose proof (rounds n n [] VUnset draws) as H.
    destruct (tournament ts fit n draws) as [[sel rest]|].
    - destruct H as [x' H]. rewrite H. cbn [frame app c_env nth eval c_st]. rewrite ints_of_map. reflexivity.
    - rewrite H. reflexivity.
  Qed.
End Tournament.

(* ------------------------------------------------------------------ pairwise *)
Section Pairwise.
  Variable ts : nat.

  Definition chunk_body : expr := ETuple (EIslice (EVar 1) 2).

  (* calling the lambda until () comes back: the chunks of what the iterator still holds *)
  Lemma drain_chunks (l0 : list atom) draws : forall rem fuel, (length rem < fuel)%nat ->
    drain ts fuel [VList l0; VIter 0] chunk_body (VTuple []) (mkSt [rem] draws) =
    Some (map VTuple (pairwise rem), mkSt [[]] draws).
  Proof.
    induction rem using pairwise_ind2; intros fuel Hf; (destruct fuel as [|fuel]; [simpl in Hf; lia|]).
    - reflexivity.
    - destruct fuel as [|fuel]; [simpl in Hf; lia|]. destruct a; reflexivity.
    - cbn [drain chunk_body eval nth s_store s_draws nth_error upd firstn skipn val_eqb atoms_eqb].
      fold chunk_body. destruct a; (rewrite IHrem by (simpl in Hf; lia); reflexivity).
  Qed.

  Theorem pairwise_is_descr (items : list atom) :
    run_pairwise ts pairwise_descr items = Some (map VTuple (pairwise items)).
  Proof.
    unfold run_pairwise, call, pairwise_descr.
    cbn [length fd_params fd_vars fd_body Nat.eqb Nat.sub repeat app block exec eval c_env c_st upd nth s_store s_draws concat].
    change (ETuple (EIslice (EVar 1) 2)) with chunk_body.
    rewrite drain_chunks by (rewrite app_nil_r; lia). reflexivity.
  Qed.

  Lemma pairwise_map {A B} (f : A -> B) (l : list A) : pairwise (map f l) = map (map f) (pairwise l).
  Proof. induction l using pairwise_ind2; simpl; [reflexivity | reflexivity | rewrite IHl; reflexivity]. Qed.

  (* on a list of floats (keys), as the correspondence cases of the C18 check are *)
  Corollary pairwise_is_descr_keys (l : list Z) :
    run_pairwise ts pairwise_descr (map AKey l) = Some (map (fun c => VTuple (map AKey c)) (pairwise l)).
  Proof. rewrite pairwise_is_descr, pairwise_map, map_map. reflexivity. Qed.
End Pairwise.
