(* The model's descriptions of GP._reproduction, GP._mutation, GP._crossover, GP._prune_nodes and the PROOFS
   that interpreting them (Model/TreePopDescr.v) is the model function of Model/TreeHeap.v. *)
From Coq Require Import List Arith Bool ZArith Lia.
From OV Require Import Model.TreeDef Model.TreeHeap Model.TreePopDescr Model.TreeHeapRepro.
Import ListNotations.

(* 0 fitness  1 n_individuals  2 selected  3 s  4 worst *)
Definition repro_body : list pstmt :=
  [ PArgmax 4 0; PCopyTree (IVar 4) (IVar 3); PCopyAgent (IVar 4) (IVar 3); PSetFit 0 (IVar 4) 0%Z ].
Definition repro_descr : list pstmt :=
  [ PFitness 0; PCount 1 WRep; PTournament 2 0 1; PFor 3 2 repro_body ].

(* 0 fitness  1 n_individuals  2 selected  3 s  4 n_nodes  5 max_nodes *)
Definition mutation_body : list pstmt :=
  [ PNNodes 4 (IVar 3); PIf (PGt 4 1) [ PPrune 5 4; PMutate (IVar 3) 5 ] [ PGrowInto (IVar 3) ] ].
Definition mutation_descr : list pstmt :=
  [ PFitness 0; PCount 1 WMut; PTournament 2 0 1; PFor 3 2 mutation_body ].

(* 0 fitness  1 n_individuals  2 selected  3 s  4 father_nodes  5 mother_nodes  6 max_f_nodes  7 max_m_nodes *)
Definition crossover_body : list pstmt :=
  [ PNNodes 4 (IFst 3); PNNodes 5 (ISnd 3);
    PIf (PAnd (PGt 4 1) (PGt 5 1)) [ PPrune 6 4; PPrune 7 5; PCross (IFst 3) (ISnd 3) 6 7 ] [] ].
Definition crossover_descr : list pstmt :=
  [ PFitness 0; PCount 1 WCross; PEvenUp 1; PTournament 2 0 1; PForPairs 3 2 crossover_body ].

Definition pproj (r : res pcfg) : res (pop * list nat * list frac) :=
  match r with Ok c => Ok (q_pop c, q_picks c, q_ds c) | Exn => Exn | Stuck => Stuck end.

Lemma nth_error_ltb : forall (A : Type) (l : list A) i x, nth_error l i = Some x -> (i <? length l) = true.
Proof. intros. apply Nat.ltb_lt. apply nth_error_Some. congruence. Qed.

Lemma length_set_nth' : forall (A : Type) (l : list A) k v, length (set_nth k v l) = length l.
Proof. induction l; destruct k; simpl; auto. Qed.

Lemma for_each_cons : forall (A : Type) (setx : A -> pcfg -> pcfg) f x xs c,
  for_each setx f (x :: xs) c =
  match f (setx x c) with Ok c' => for_each setx f xs c' | Exn => Exn | Stuck => Stuck end.
Proof. reflexivity. Qed.

Arguments for_each : simpl never.

Section Proofs.
Variable E : genv.
Variable G : gp_params.

Lemma pexec_PFor : forall sv lv body c,
  pexec E G (PFor sv lv body) c =
  match plookup (q_env c) lv with
  | PVTuple xs => for_each (fun x => set_var sv (PVNat x)) (prun E G body) xs c
  | _ => Stuck
  end.
Proof. reflexivity. Qed.

Lemma pexec_PForPairs : forall sv lv body c,
  pexec E G (PForPairs sv lv body) c =
  match plookup (q_env c) lv with
  | PVTuple xs => for_each (fun p => set_var sv (PVTuple p)) (prun E G body) (pairs xs) c
  | _ => Stuck
  end.
Proof. reflexivity. Qed.

Lemma pproj_ok : forall r, pproj match r with Ok c => Ok c | Exn => Exn | Stuck => Stuck end = pproj r.
Proof. destruct r; reflexivity. Qed.

(* ---- mutation *)
Lemma mutation_for : forall sel e0 e1 e2 e3 e4 e5 P picks ds,
  pproj (for_each (fun x => set_var 3 (PVNat x)) (prun E G mutation_body) sel (mkP [e0; e1; e2; e3; e4; e5] P picks ds)) =
  match mutation_loop E (gp_ratio G) sel ds P with
  | Ok (P', ds') => Ok (P', picks, ds') | Exn => Exn | Stuck => Stuck end.
Proof.
  induction sel; intros; [reflexivity|]. rewrite for_each_cons. simpl.
  unfold rd_list. destruct (nth_error (p_trees P) a) as [ts|] eqn:Et; simpl; auto.
  destruct (n_nodes (p_heap P) ts) as [nn| |]; simpl; auto.
  destruct (1 <? nn); simpl.
  - unfold rd_list. rewrite Et. simpl.
    destruct (mutate E (p_heap P) ts (prune (gp_ratio G) nn) ds) as [[[t' h'] ds']| |]; simpl; auto.
    unfold wr_list. rewrite (nth_error_ltb _ _ _ _ Et). simpl. apply IHsel.
  - destruct (grow E (g_d0 E) ds (p_heap P)) as [[[t' h'] ds']| |]; simpl; auto.
    unfold wr_list. rewrite (nth_error_ltb _ _ _ _ Et). simpl. apply IHsel.
Qed.

Theorem mutation_is_descr : forall P picks ds,
  pproj (prun E G mutation_descr (mkP (repeat PVUnset 6) P picks ds)) =
  bind (mutation E (gp_tsize G) (gp_ratio G) (gp_nmut G) picks ds P) (fun r => Ok (fst (fst r), snd (fst r), snd r)).
Proof.
  intros. unfold mutation, mutation_descr. remember (PFor 3 2 mutation_body) as loop eqn:Hl. simpl.
  destruct (tournament (gp_tsize G) (map a_fit (p_agents P)) (gp_nmut G) picks) as [[sel pk]| |]; simpl; auto.
  subst loop. rewrite pexec_PFor. cbn [plookup q_env nth psetv set_nth]. rewrite pproj_ok, mutation_for.
  destruct (mutation_loop E (gp_ratio G) sel ds P) as [[P' ds']| |]; reflexivity.
Qed.

(* ---- reproduction: for populations with as many agents as trees (part of the invariant Inv) *)
Lemma repro_for : forall sel fit e1 e2 e3 e4 P picks ds,
  length (p_agents P) = length (p_trees P) -> length fit = length (p_trees P) ->
  pproj (for_each (fun x => set_var 3 (PVNat x)) (prun E G repro_body) sel (mkP [PVFit fit; e1; e2; e3; e4] P picks ds)) =
  match repro_loop sel fit P with Ok P' => Ok (P', picks, ds) | Exn => Exn | Stuck => Stuck end.
Proof.
  induction sel; intros fit e1 e2 e3 e4 P picks ds Hla Hlf; [reflexivity|]. rewrite for_each_cons. simpl.
  unfold rd_list. destruct (nth_error (p_trees P) a) as [ts|] eqn:Et; simpl; auto.
  assert (Ha : exists ag, nth_error (p_agents P) a = Some ag).
  { destruct (nth_error (p_agents P) a) eqn:X; eauto. apply nth_error_None in X.
    assert (a < length (p_trees P)) by (apply nth_error_Some; congruence). lia. }
  destruct Ha as (ag & Ea). rewrite Ea.
  destruct (deepcopy (p_heap P) ts) as [[cp h']| |]; simpl; auto.
  unfold wr_list. destruct (argmax fit <? length (p_trees P)) eqn:Ew; simpl; auto.
  rewrite Ea. simpl. rewrite Hla, Ew. simpl. rewrite Hlf, Ew. simpl.
  apply IHsel; simpl; rewrite !length_set_nth'; auto.
Qed.

Theorem reproduction_is_descr : forall P picks ds,
  length (p_agents P) = length (p_trees P) ->
  pproj (prun E G repro_descr (mkP (repeat PVUnset 5) P picks ds)) =
  bind (reproduction (gp_tsize G) (gp_nrep G) picks P) (fun r => Ok (fst r, snd r, ds)).
Proof.
  intros P picks ds Hla. unfold reproduction, repro_descr. remember (PFor 3 2 repro_body) as loop eqn:Hl. simpl.
  destruct (tournament (gp_tsize G) (map a_fit (p_agents P)) (gp_nrep G) picks) as [[sel pk]| |]; simpl; auto.
  subst loop. rewrite pexec_PFor. cbn [plookup q_env nth psetv set_nth]. rewrite pproj_ok.
  rewrite repro_for by (auto; rewrite map_length; auto).
  destruct (repro_loop sel (map a_fit (p_agents P)) P); reflexivity.
Qed.

(* ---- crossover: for populations with as many agents as trees *)
Lemma pair_ind : forall (Q : list nat -> Prop),
  Q [] -> (forall a, Q [a]) -> (forall a b l, Q l -> Q (a :: b :: l)) -> forall l, Q l.
Proof.
  intros Q H0 H1 H2. fix IH 1. intros [|a [|b l]].
  - exact H0.
  - exact (H1 a).
  - exact (H2 a b l (IH l)).
Qed.

Lemma nth_error_lt_some : forall (A : Type) (l : list A) i, i < length l -> exists x, nth_error l i = Some x.
Proof. intros. destruct (nth_error l i) eqn:X; eauto. apply nth_error_None in X. lia. Qed.

Lemma crossover_for : forall sel, Nat.even (length sel) = true ->
  forall e0 e1 e2 e3 e4 e5 e6 e7 P picks ds, Forall (fun s => s < length (p_trees P)) sel ->
  pproj (for_each (fun p => set_var 3 (PVTuple p)) (prun E G crossover_body) (pairs sel)
                  (mkP [e0; e1; e2; e3; e4; e5; e6; e7] P picks ds)) =
  match crossover_loop (gp_ratio G) sel ds P with
  | Ok (P', ds') => Ok (P', picks, ds') | Exn => Exn | Stuck => Stuck end.
Proof.
  intros sel. induction sel as [|a|a b l IH] using pair_ind; intros Hev e0 e1 e2 e3 e4 e5 e6 e7 P picks ds HF.
  - reflexivity.
  - discriminate.
  - inversion HF as [|? ? Ha HF1]; subst. inversion HF1 as [|? ? Hb HF2]; subst.
    destruct (nth_error_lt_some _ _ _ Ha) as (tf & Ea). destruct (nth_error_lt_some _ _ _ Hb) as (tm & Eb).
    cbn [pairs]. rewrite for_each_cons. simpl.
    repeat (progress (unfold rd_list; rewrite ?Ea, ?Eb; simpl)).
    destruct (n_nodes (p_heap P) tf) as [nf| |]; simpl; auto.
    repeat (progress (unfold rd_list; rewrite ?Ea, ?Eb; simpl)).
    destruct (n_nodes (p_heap P) tm) as [nm| |]; simpl; auto.
    destruct (1 <? nf); simpl; [destruct (1 <? nm); simpl|].
    + repeat (progress (unfold rd_list; rewrite ?Ea, ?Eb; simpl)).
      destruct (cross (p_heap P) tf tm (prune (gp_ratio G) nf) (prune (gp_ratio G) nm) ds) as [[[[fo mo] h'] ds']| |]; simpl; auto.
      unfold wr_list. rewrite (nth_error_ltb _ _ _ _ Ea). simpl. rewrite length_set_nth', (nth_error_ltb _ _ _ _ Eb). simpl.
      apply IH; auto. simpl. rewrite !length_set_nth'. auto.
    + apply IH; auto.
    + apply IH; auto.
Qed.

Lemma even_up : forall n, Nat.even (if Nat.odd n then S n else n) = true.
Proof.
  intros n. destruct (Nat.odd n) eqn:X.
  - rewrite Nat.even_succ. auto.
  - rewrite <- Nat.negb_odd, X. reflexivity.
Qed.

Theorem crossover_is_descr : forall P picks ds,
  length (p_agents P) = length (p_trees P) ->
  pproj (prun E G crossover_descr (mkP (repeat PVUnset 8) P picks ds)) =
  bind (crossover (gp_tsize G) (gp_ratio G) (gp_ncross G) picks ds P) (fun r => Ok (fst (fst r), snd (fst r), snd r)).
Proof.
  intros P picks ds Hla. unfold crossover, crossover_descr. remember (PForPairs 3 2 crossover_body) as loop eqn:Hl. simpl.
  destruct (tournament (gp_tsize G) (map a_fit (p_agents P)) _ picks) as [[sel pk]| |] eqn:Et; simpl; auto.
  destruct (tournament_lt _ _ _ _ _ _ Et) as (HF & Hlen).
  subst loop. rewrite pexec_PForPairs. cbn [plookup q_env nth psetv set_nth]. rewrite pproj_ok.
  rewrite crossover_for.
  - destruct (crossover_loop (gp_ratio G) sel ds P) as [[P' ds']| |]; reflexivity.
  - rewrite Hlen. apply even_up.
  - rewrite map_length, Hla in HF. exact HF.
Qed.

End Proofs.

(* ---- _prune_nodes *)
Definition prune_descr : prune_d := PruneClampLow 2.

Theorem prune_is_descr : forall ratio n, run_prune prune_descr ratio n = prune ratio n.
Proof.
  intros ratio n. unfold run_prune, prune_descr, prune.
  destruct (n * (snd ratio - fst ratio) / snd ratio <=? 2) eqn:X.
  - apply Nat.leb_le in X. lia.
  - apply Nat.leb_gt in X. lia.
Qed.
