(* C16 -- the weighted sum is linear in the weight vector (any commutative ring of values):
   scaling every weight by c scales the value by c; adding two weight vectors adds the values;
   the zero weight vector gives 0.  Stated on the specification sum of Model/Weighted.v and
   transported to [wfold d] for every descriptor with the standard step. *)
From Coq Require Import ZArith List Bool Lia Ring_theory Ring.
From OV Require Import Model.Weighted.
Import ListNotations.

Section Linear.
  Variables (V : Type) (v0 v1 : V) (vadd vmul vsub : V -> V -> V) (vopp : V -> V).
  Hypothesis Vth : ring_theory v0 v1 vadd vmul vsub vopp eq.
  Add Ring VringL : Vth.
  Variable X : Type.

  Notation sum := (bigsum v0 vadd).
  Notation term := (wterm v0 vmul).

  Lemma bigsum_scale c n (t : nat -> V) : sum n (fun i => vmul c (t i)) = vmul c (sum n t).
  Proof. induction n as [|n IH]; simpl; [ring | rewrite IH; ring]. Qed.

  Lemma bigsum_plus n (t u : nat -> V) : sum n (fun i => vadd (t i) (u i)) = vadd (sum n t) (sum n u).
  Proof. induction n as [|n IH]; simpl; [ring | rewrite IH; ring]. Qed.

  Lemma wterm_scale c (fs : list (X -> V)) ws x i : (i < length ws)%nat ->
    term fs (map (vmul c) ws) x i = vmul c (term fs ws x i).
  Proof.
    intros Hi. unfold wterm.
    rewrite (nth_indep (map (vmul c) ws) v0 (vmul c v0)) by (rewrite map_length; exact Hi).
    rewrite map_nth. ring.
  Qed.

  Definition wadd (ws ws' : list V) : list V := map (fun p => vadd (fst p) (snd p)) (combine ws ws').

  Lemma wadd_length ws ws' : length ws = length ws' -> length (wadd ws ws') = length ws.
  Proof. intros L. unfold wadd. rewrite map_length, combine_length, <- L. apply Nat.min_id. Qed.

  Lemma wadd_nth ws : forall ws' i, length ws = length ws' -> (i < length ws)%nat ->
    nth i (wadd ws ws') v0 = vadd (nth i ws v0) (nth i ws' v0).
  Proof.
    induction ws as [|w ws IH]; intros [|w' ws'] i L Hi; simpl in *; try lia.
    destruct i as [|i]; [reflexivity|]. apply IH; lia.
  Qed.

  Lemma wterm_plus (fs : list (X -> V)) ws ws' x i : length ws = length ws' -> (i < length ws)%nat ->
    term fs (wadd ws ws') x i = vadd (term fs ws x i) (term fs ws' x i).
  Proof. intros L Hi. unfold wterm. rewrite wadd_nth by assumption. ring. Qed.

  Lemma nth_const_map (fs : list (X -> V)) i : nth i (map (fun _ => v0) fs) v0 = v0.
  Proof. revert i; induction fs as [|f fs IH]; intros [|i]; simpl; auto. Qed.

  Variable d : wf_descr.
  Hypothesis Hs : std_step v0 v1 vadd vmul vsub vopp X d.
  Hypothesis Hi0 : wd_init d = 0%Z.
  Notation wf := (wfold v0 v1 vadd vmul vsub vopp d).

  Theorem wf_scale c (fs : list (X -> V)) ws x : length fs = length ws ->
    wf fs (map (vmul c) ws) x = vmul c (wf fs ws x).
  Proof.
    intros L.
    rewrite (wf_sum V v0 v1 vadd vmul vsub vopp X Vth d fs (map (vmul c) ws) x Hs Hi0)
      by (rewrite map_length; exact L).
    rewrite (wf_sum V v0 v1 vadd vmul vsub vopp X Vth d fs ws x Hs Hi0 L).
    rewrite <- bigsum_scale. apply bigsum_ext.
    intros i Hi. apply wterm_scale. lia.
  Qed.

  Theorem wf_plus (fs : list (X -> V)) ws ws' x : length fs = length ws -> length ws = length ws' ->
    wf fs (wadd ws ws') x = vadd (wf fs ws x) (wf fs ws' x).
  Proof.
    intros L L'.
    rewrite (wf_sum V v0 v1 vadd vmul vsub vopp X Vth d fs (wadd ws ws') x Hs Hi0)
      by (rewrite wadd_length; assumption).
    rewrite (wf_sum V v0 v1 vadd vmul vsub vopp X Vth d fs ws x Hs Hi0 L).
    rewrite (wf_sum V v0 v1 vadd vmul vsub vopp X Vth d fs ws' x Hs Hi0) by lia.
    rewrite <- bigsum_plus. apply bigsum_ext.
    intros i Hi. apply wterm_plus; [assumption | lia].
  Qed.

  Theorem wf_zero_weights (fs : list (X -> V)) x : wf fs (map (fun _ => v0) fs) x = v0.
  Proof.
    rewrite (wf_sum V v0 v1 vadd vmul vsub vopp X Vth d fs _ x Hs Hi0) by (rewrite map_length; reflexivity).
    apply (bigsum_zero V v0 v1 vadd vmul vsub vopp Vth). intros i Hi. unfold wterm.
    rewrite nth_const_map. ring.
  Qed.
End Linear.
