(* A small language for the POINTER EFFECTS of GP._cross, GP._mutate and the linking statements of
   TreeSpace.grow, and its interpreter on the heap of Model/TreeHeap.v.

   translate/t_treeops.py regenerates Gen/TreeOps.v (values of type [list stmt]) from the Python source on
   every run; Model/TreeOpsModel.v states the model's own descriptions and PROVES that interpreting them is
   the model functions [cross] / [mutate] / the linking step of [grow_args]; Props/C08.v proves
   Gen = model description by reflexivity.  Executable only, no proofs in this file.

   Variables are numbered by order of first occurrence (parameters first); a path is a variable followed by
   pointer fields; statements:
     SCopy d s          d = copy.deepcopy(s)
     SDraw d lo h       d = int(r.generate_uniform_random_number(lo, h)[0])        (h a variable)
     SFind dn df t p    dn, df = t.find_node(p)
     SGrow d            d = space.grow(space.min_depth, space.max_depth)
     SAssign d p        d = p
     SSet p f r         p.f = r
     SIf c th el, SReturn vs *)
From Coq Require Import List Arith Bool ZArith.
From OV Require Import Model.TreeDef Model.TreeHeap.
Import ListNotations.

Inductive field := FLeft | FRight | FParent | FFlag.
Definition path := (nat * list field)%type.
Inductive rhs := RPath (p : path) | RBool (b : bool).
Inductive cond := CVar (v : nat) | CNot (c : cond) | CAnd (a b : cond).

Inductive stmt :=
| SCopy (d s : nat)
| SDraw (d lo h : nat)
| SFind (dn df t p : nat)
| SGrow (d : nat)
| SAssign (d : nat) (p : path)
| SSet (p : path) (f : field) (r : rhs)
| SIf (c : cond) (th el : list stmt)
| SReturn (vs : list nat).

(* ------------------------------------------------------------------ interpreter *)
Inductive val := VPtr (o : option nat) | VBool (b : bool) | VNat (n : nat) | VUnset.

Record cfg := mkCfg { c_env : list val; c_st : hstate; c_ds : list frac }.

Definition lookup (env : list val) (v : nat) : val := nth v env VUnset.

(* Python truthiness of what these variables hold: a Node is truthy, None is not *)
Definition truthy (x : val) : res bool :=
  match x with
  | VPtr (Some _) => Ok true
  | VPtr None => Ok false
  | VBool b => Ok b
  | VNat n => Ok (negb (Nat.eqb n 0))
  | VUnset => Stuck
  end.

Fixpoint eval_cond (env : list val) (c : cond) : res bool :=
  match c with
  | CVar v => truthy (lookup env v)
  | CNot a => bind (eval_cond env a) (fun b => Ok (negb b))
  | CAnd a b => bind (eval_cond env a) (fun x => if x then eval_cond env b else Ok false)
  end.

Definition ptr_field (f : field) : option (cell -> option nat) :=
  match f with FLeft => Some c_left | FRight => Some c_right | FParent => Some c_parent | FFlag => None end.

(* x.f on a pointer that may be None: AttributeError *)
Fixpoint walk (st : hstate) (cur : option nat) (fs : list field) : res (option nat) :=
  match fs with
  | [] => Ok cur
  | f :: fs' =>
    match cur, ptr_field f with
    | Some i, Some g => walk st (rd st i g) fs'
    | None, Some _ => Exn
    | _, None => Stuck
    end
  end.

Definition eval_path (env : list val) (st : hstate) (p : path) : res (option nat) :=
  match lookup env (fst p) with
  | VPtr o => walk st o (snd p)
  | _ => Stuck
  end.

Definition write (st : hstate) (x : nat) (f : field) (v : val) : res hstate :=
  match f, v with
  | FLeft, VPtr o => Ok (upd st x (w_left o))
  | FRight, VPtr o => Ok (upd st x (w_right o))
  | FParent, VPtr o => Ok (upd st x (w_parent o))
  | FFlag, VBool b => Ok (upd st x (w_flag b))
  | _, _ => Stuck
  end.

Definition eval_rhs (env : list val) (st : hstate) (r : rhs) : res val :=
  match r with
  | RBool b => Ok (VBool b)
  | RPath p => bind (eval_path env st p) (fun o => Ok (VPtr o))
  end.

Definition setv (env : list val) (d : nat) (v : val) : list val := set_nth d v env.

(* a statement either continues with a new configuration or returns *)
Definition step_res := res (cfg * option (list val))%type.

Section Run.
Variable E : genv.

Fixpoint exec (s : stmt) (c : cfg) {struct s} : step_res :=
  let env := c_env c in
  let st := c_st c in
  let ds := c_ds c in
  match s with
  | SCopy d src =>
    match lookup env src with
    | VPtr (Some r) =>
      match deepcopy st r with
      | Ok (cp, st') => Ok (mkCfg (setv env d (VPtr (Some cp))) st' ds, None)
      | Exn => Exn
      | Stuck => Stuck
      end
    | _ => Stuck
    end
  | SDraw d lo h =>
    match ds, lookup env h with
    | u :: ds', VNat hi => Ok (mkCfg (setv env d (VNat (scale lo hi u))) st ds', None)
    | _, _ => Stuck
    end
  | SFind dn df t p =>
    match lookup env t, lookup env p with
    | VPtr (Some r), VNat k =>
      match find_node st r k with
      | Ok (s, f) => Ok (mkCfg (setv (setv env dn (VPtr s)) df (VBool f)) st ds, None)
      | Exn => Exn
      | Stuck => Stuck
      end
    | _, _ => Stuck
    end
  | SGrow d =>
    match grow E (g_d0 E) ds st with
    | Ok (b, st', ds') => Ok (mkCfg (setv env d (VPtr (Some b))) st' ds', None)
    | Exn => Exn
    | Stuck => Stuck
    end
  | SAssign d p =>
    match eval_path env st p with
    | Ok o => Ok (mkCfg (setv env d (VPtr o)) st ds, None)
    | Exn => Exn
    | Stuck => Stuck
    end
  | SSet p f r =>
    match eval_path env st p with
    | Ok (Some x) =>
      match eval_rhs env st r with
      | Ok v => match write st x f v with
                | Ok st' => Ok (mkCfg env st' ds, None)
                | Exn => Exn
                | Stuck => Stuck
                end
      | Exn => Exn
      | Stuck => Stuck
      end
    | Ok None => Exn
    | Exn => Exn
    | Stuck => Stuck
    end
  | SIf cd th el =>
    let go := fix go (l : list stmt) (c : cfg) {struct l} : step_res :=
                match l with
                | [] => Ok (c, None)
                | x :: l' => match exec x c with
                             | Ok (c', None) => go l' c'
                             | r => r
                             end
                end in
    match eval_cond env cd with
    | Ok true => go th c
    | Ok false => go el c
    | Exn => Exn
    | Stuck => Stuck
    end
  | SReturn vs => Ok (c, Some (map (lookup env) vs))
  end.

Fixpoint run (l : list stmt) (c : cfg) : step_res :=
  match l with
  | [] => Ok (c, None)
  | x :: l' => match exec x c with
               | Ok (c', None) => run l' c'
               | r => r
               end
  end.

End Run.

Definition init_env (params : list val) (n : nat) : list val := params ++ repeat VUnset (n - length params).
