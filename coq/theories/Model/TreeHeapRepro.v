(* C09, reproduction: tree i and agent i are overwritten at the same indices with deep copies of the same
   tournament winner; with positive fitnesses the overwritten indices are the worst-ranked ones, one per
   winner.  With a non-positive fitness [fitness[worst] = 0] makes an overwritten slot the maximum again:
   refuted, see the examples at the end. *)
From Coq Require Import List Arith Bool Lia ZArith Permutation.
From OV Require Import Model.TreeDef Model.TreeHeap.
From OV Require Import Model.TreeHeapBase Model.TreeHeapSlot Model.TreeHeapCopy Model.TreeHeapGrow Model.TreeHeapOps Model.TreeHeapPop Model.TreeHeapSpec.
Import ListNotations.
Local Open Scope Z_scope.

(* ------------------------------------------------------------------ the index-level shadow of the loop *)
(* slots overwritten, in order *)
Fixpoint repro_ws (sel : list nat) (fitness : list Z) : list nat :=
  match sel with
  | [] => []
  | _ :: sel' => let w := argmax fitness in w :: repro_ws sel' (set_nth w 0 fitness)
  end.

(* which individual of the old population each slot holds *)
Fixpoint repro_src (sel : list nat) (fitness : list Z) (src : list nat) : list nat :=
  match sel with
  | [] => src
  | s :: sel' => let w := argmax fitness in repro_src sel' (set_nth w 0 fitness) (set_nth w (nth s src 0%nat) src)
  end.

(* ------------------------------------------------------------------ lists *)
Lemma nth_set_nth_eq : forall (A : Type) (l : list A) k v d, (k < length l)%nat -> nth k (set_nth k v l) d = v.
Proof. induction l; destruct k; simpl; intros; try lia; auto. apply IHl. lia. Qed.

Lemma nth_set_nth_neq : forall (A : Type) (l : list A) k j v d, k <> j -> nth j (set_nth k v l) d = nth j l d.
Proof. induction l; destruct k, j; simpl; intros; auto; try lia. Qed.

Lemma nth_error_set_nth_eq : forall (A : Type) (l : list A) k v, (k < length l)%nat -> nth_error (set_nth k v l) k = Some v.
Proof. induction l; destruct k; simpl; intros; try lia; auto. apply IHl. lia. Qed.

Lemma nth_error_set_nth_neq : forall (A : Type) (l : list A) k j v, k <> j -> nth_error (set_nth k v l) j = nth_error l j.
Proof. induction l; destruct k, j; simpl; intros; auto; try lia. Qed.

Lemma set_nth_oob : forall (A : Type) (l : list A) k v, (length l <= k)%nat -> set_nth k v l = l.
Proof. induction l; destruct k; simpl; intros; auto; try lia. f_equal. apply IHl. lia. Qed.

(* ------------------------------------------------------------------ argmax *)
Lemma argmax_from_spec : forall l pre best bi,
  (bi < length pre)%nat -> nth bi (pre ++ l) 0 = best ->
  (forall j, (j < length pre)%nat -> nth j (pre ++ l) 0 <= best) ->
  let r := argmax_from l (length pre) best bi in
  (r < length (pre ++ l))%nat /\ forall j, (j < length (pre ++ l))%nat -> nth j (pre ++ l) 0 <= nth r (pre ++ l) 0.
Proof.
  induction l; intros pre best bi Hbi Hb Hle; simpl.
  - rewrite app_nil_r in *. split; auto. intros. rewrite Hb. auto.
  - assert (Eq : pre ++ a :: l = (pre ++ [a]) ++ l) by (rewrite <- app_assoc; reflexivity).
    assert (Ha : nth (length pre) (pre ++ a :: l) 0 = a).
    { rewrite app_nth2 by lia. rewrite Nat.sub_diag. reflexivity. }
    assert (Len : length (pre ++ [a]) = S (length pre)) by (rewrite app_length; simpl; lia).
    destruct (Z.ltb best a) eqn:E.
    + apply Z.ltb_lt in E. rewrite Eq. rewrite <- Len. apply IHl.
      * lia.
      * rewrite <- Eq. auto.
      * intros j Hj. rewrite <- Eq. rewrite Len in Hj.
        destruct (Nat.eq_dec j (length pre)) as [-> | Hne]; [lia|]. specialize (Hle j ltac:(lia)). lia.
    + apply Z.ltb_ge in E. rewrite Eq. rewrite <- Len. apply IHl.
      * lia.
      * rewrite <- Eq. auto.
      * intros j Hj. rewrite <- Eq. rewrite Len in Hj.
        destruct (Nat.eq_dec j (length pre)) as [-> | Hne]; [lia|]. apply Hle. lia.
Qed.

Lemma argmax_spec : forall l, l <> [] ->
  (argmax l < length l)%nat /\ forall j, (j < length l)%nat -> nth j l 0 <= nth (argmax l) l 0.
Proof.
  intros [|x l] H; [congruence|]. unfold argmax.
  apply (argmax_from_spec l [x] x 0%nat); simpl; auto.
  intros j Hj. assert (j = 0%nat) by lia. subst. simpl. lia.
Qed.

(* ------------------------------------------------------------------ worst-ranked, positive fitnesses *)
Lemma exists_notin : forall (M : list nat) n, NoDup M -> (length M < n)%nat -> exists j, (j < n)%nat /\ ~ In j M.
Proof.
  intros M n Hn Hl.
  destruct (filter (fun j => negb (mem j M)) (seq 0 n)) as [|j rest] eqn:Ef.
  - exfalso. assert (incl (seq 0 n) M).
    { intros x Hx. destruct (mem x M) eqn:Em; [apply mem_In; auto|].
      assert (In x (filter (fun j => negb (mem j M)) (seq 0 n))) by (apply filter_In; rewrite Em; auto).
      rewrite Ef in H. contradiction. }
    apply NoDup_incl_length in H; [|apply seq_NoDup]. rewrite seq_length in H. lia.
  - assert (In j (filter (fun j => negb (mem j M)) (seq 0 n))) by (rewrite Ef; simpl; auto).
    apply filter_In in H. destruct H as (A & B). apply in_seq in A. exists j. split; [lia|].
    apply mem_false. destruct (mem j M); simpl in B; congruence.
Qed.

Lemma repro_ws_worst_gen : forall fits sel f M,
  length f = length fits -> NoDup M -> (length M + length sel <= length fits)%nat ->
  (forall j, (j < length fits)%nat ->
     (In j M /\ nth j f 0 = 0) \/ (~ In j M /\ nth j f 0 = nth j fits 0 /\ 0 < nth j fits 0)) ->
  let ws := repro_ws sel f in
  NoDup ws /\ length ws = length sel /\ (forall w, In w ws -> (w < length fits)%nat /\ ~ In w M) /\
  forall w j, In w ws -> (j < length fits)%nat -> ~ In j M -> ~ In j ws -> nth j fits 0 <= nth w fits 0.
Proof.
  intros fits. induction sel; intros f M Hlen HnM Hcard Hinv; simpl.
  - repeat split; auto; try constructor; intros; contradiction.
  - simpl in Hcard.
    destruct (exists_notin M (length fits) HnM ltac:(lia)) as (j0 & Hj0 & Hj0M).
    assert (Hne : f <> []) by (intro; subst; simpl in Hlen; lia).
    destruct (argmax_spec f Hne) as (Hw & Hmax). set (w := argmax f) in *. rewrite Hlen in Hw.
    assert (HwM : ~ In w M /\ nth w f 0 = nth w fits 0 /\ 0 < nth w fits 0).
    { destruct (Hinv w Hw) as [(A & B) | A]; auto. exfalso.
      destruct (Hinv j0 Hj0) as [(C & _) | (_ & C & D)]; [contradiction|].
      specialize (Hmax j0 ltac:(lia)). lia. }
    destruct HwM as (HwM & Hwf & Hwp).
    destruct (IHsel (set_nth w 0 f) (w :: M)) as (N1 & N2 & N3 & N4).
    + rewrite length_set_nth. auto.
    + constructor; auto.
    + simpl. lia.
    + intros j Hj. destruct (Nat.eq_dec j w) as [-> | Hjw].
      * left. split; [simpl; auto|]. apply nth_set_nth_eq. lia.
      * rewrite nth_set_nth_neq by auto. destruct (Hinv j Hj) as [(A & B) | (A & B)].
        -- left. split; simpl; auto.
        -- right. split; auto. simpl. intros [X | X]; auto.
    + split.
      { constructor; auto. intro X. apply N3 in X. destruct X as (_ & X). apply X. simpl. auto. }
      split. { simpl. f_equal. auto. }
      split.
      { intros w' [<- | X]; auto. apply N3 in X. destruct X as (A & B). split; auto. intro. apply B. simpl. auto. }
      intros w' j [<- | X] Hj HjM Hjw.
      * destruct (Hinv j Hj) as [(A & _) | (_ & A & _)]; [contradiction|].
        specialize (Hmax j ltac:(lia)). lia.
      * apply N4; auto.
        simpl. intros [Y | Y]; [subst; apply Hjw; simpl; auto | contradiction].
Qed.

(* with positive fitnesses every tournament winner overwrites a different slot, and the overwritten slots
   are the worst-ranked ones: nobody that survives is strictly worse than somebody that was overwritten *)
Theorem repro_ws_worst : forall sel fits,
  Forall (fun v => 0 < v) fits -> (length sel <= length fits)%nat ->
  let ws := repro_ws sel fits in
  NoDup ws /\ length ws = length sel /\ (forall w, In w ws -> (w < length fits)%nat) /\
  forall w j, In w ws -> (j < length fits)%nat -> ~ In j ws -> nth j fits 0 <= nth w fits 0.
Proof.
  intros sel fits Hpos Hlen.
  destruct (repro_ws_worst_gen fits sel fits [] eq_refl (NoDup_nil _) ltac:(simpl; lia)) as (A & B & C & D).
  - intros j Hj. right. split; auto. split; auto.
    rewrite Forall_forall in Hpos. apply Hpos. apply nth_In. auto.
  - split; [exact A|]. split; [exact B|]. split.
    + intros w Hw. apply C in Hw. tauto.
    + intros. apply D; auto.
Qed.

(* ------------------------------------------------------------------ the source map *)
Lemma repro_src_props : forall sel fitness src A n,
  length src = n -> Forall (fun s => (s < n)%nat) sel ->
  (forall i, (i < n)%nat -> nth i src 0%nat = i \/ In (nth i src 0%nat) A) ->
  let src' := repro_src sel fitness src in
  let ws := repro_ws sel fitness in
  length src' = n /\
  (forall i, ~ In i ws -> nth i src' 0%nat = nth i src 0%nat) /\
  (forall i, (i < n)%nat -> In i ws -> In (nth i src' 0%nat) (A ++ sel)) /\
  (forall i, (i < n)%nat -> nth i src' 0%nat = i \/ In (nth i src' 0%nat) (A ++ sel)).
Proof.
  induction sel; intros fitness src A n Hl Hsel Hinv; simpl.
  - rewrite app_nil_r. repeat split; auto. intros; contradiction.
  - inversion Hsel; subst. set (w := argmax fitness).
    set (src1 := set_nth w (nth a src 0%nat) src).
    assert (Hinv1 : forall i, (i < length src)%nat -> nth i src1 0%nat = i \/ In (nth i src1 0%nat) (A ++ [a])).
    { intros i Hi. unfold src1. destruct (Nat.eq_dec i w) as [-> | Hiw].
      - rewrite nth_set_nth_eq by lia. right. apply in_or_app.
        destruct (Hinv a H1) as [X | X]; [right; rewrite X; simpl; auto | left; auto].
      - rewrite nth_set_nth_neq by auto. destruct (Hinv i Hi); auto. right. apply in_or_app. auto. }
    destruct (IHsel (set_nth w 0 fitness) src1 (A ++ [a]) (length src)) as (L & U & W & X); auto.
    { unfold src1. apply length_set_nth. }
    assert (Eq : forall x, In x ((A ++ [a]) ++ sel) <-> In x (A ++ a :: sel)).
    { intros. rewrite <- app_assoc. simpl. tauto. }
    split; auto. split.
    { intros i Hi. rewrite U by (intro; apply Hi; simpl; auto).
      unfold src1. apply nth_set_nth_neq. intro; subst. apply Hi. simpl. auto. }
    split.
    { intros i Hi [<- | Hw].
      - destruct (in_dec Nat.eq_dec w (repro_ws sel (set_nth w 0 fitness))) as [Y | Y].
        + apply Eq. apply W; auto.
        + rewrite U by auto. destruct (Hinv1 w Hi) as [Z | Z].
          * unfold src1 in *. rewrite nth_set_nth_eq in * by lia.
            destruct (Hinv a H1) as [V | V]; [rewrite V; apply in_or_app; simpl; auto | apply in_or_app; auto].
          * apply Eq. apply in_or_app. auto.
      - apply Eq. apply W; auto. }
    intros i Hi. destruct (X i Hi) as [Y | Y]; auto. right. apply Eq. auto.
Qed.

(* ------------------------------------------------------------------ tournament *)
Lemma first_eq_lt : forall m l i s, first_eq m l i = Some s -> (i <= s < i + length l)%nat.
Proof.
  induction l; simpl; intros i s H; [discriminate|].
  destruct (Z.eqb a m); [inversion H; lia|]. apply IHl in H. lia.
Qed.

Lemma tournament_lt : forall tsize fit k picks sel rest,
  tournament tsize fit k picks = Ok (sel, rest) -> Forall (fun s => (s < length fit)%nat) sel /\ length sel = k.
Proof.
  induction k; intros picks sel rest H; simpl in H.
  - inversion H; subst. split; auto.
  - unfold bind in H. destruct (take_picks tsize fit picks) as [[vs pk]| |]; try discriminate. simpl in H.
    destruct (zmin_list vs); try discriminate.
    destruct (first_eq z fit 0) as [s|] eqn:Ef; try discriminate.
    destruct (tournament tsize fit k pk) as [[sel' rest']| |] eqn:Et; try discriminate.
    simpl in H. inversion H; subst. destruct (IHk _ _ _ Et) as (A & B). split; [|simpl; lia].
    constructor; auto. apply first_eq_lt in Ef. lia.
Qed.

(* ------------------------------------------------------------------ the loop on the real population *)
Lemma deepcopy_raw : forall st r c st', deepcopy st r = Ok (c, st') -> heap_ext st st' /\ (length (cells st) <= c)%nat.
Proof.
  unfold deepcopy. intros st r c st' H. destruct (pre_order st r) as [pre| |]; try discriminate.
  destruct (parent_closed st (dedup pre [])); try discriminate. inversion H; subst. split; [|lia].
  unfold heap_ext, get. simpl. rewrite app_length. repeat split; try lia. intros. apply nth_error_app1. auto.
Qed.

Section Loop.
Variable E : genv.
Variable n : nat.
Let tab := g_arity E.

(* slot i of Pc holds (a copy of, or the very) individual j of P0: tree and agent *)
Definition holds (P0 Pc : pop) (i j : nat) : Prop :=
  exists t0 tc a0 ac,
    nth_error (p_trees P0) j = Some (tid t0) /\ WFt tab (p_heap P0) t0 /\
    nth_error (p_trees Pc) i = Some (tid tc) /\ WFt tab (p_heap Pc) tc /\ erase tc = erase t0 /\
    nth_error (p_agents P0) j = Some a0 /\ nth_error (p_agents Pc) i = Some ac /\
    a_fit ac = a_fit a0 /\ a_tag ac = a_tag a0.

Lemma WFt_unique_root : forall st t t', WFt tab st t -> WFt tab st t' -> tid t = tid t' -> t = t'.
Proof.
  intros st t t' H H' Ht. pose proof (abs_WFt tab st t H). pose proof (abs_WFt tab st t' H'). congruence.
Qed.

Lemma repro_loop_holds : forall P0 sel fitness Pc P' src,
  Inv E n Pc -> length src = n ->
  (forall i, (i < n)%nat -> holds P0 Pc i (nth i src 0%nat)) ->
  repro_loop sel fitness Pc = Ok P' ->
  forall i, (i < n)%nat -> holds P0 P' i (nth i (repro_src sel fitness src) 0%nat).
Proof.
  intros P0. induction sel; intros fitness Pc P' src HI Hl Hh Hr; simpl in Hr.
  - inversion Hr; subst. simpl. auto.
  - destruct (nth_error (p_trees Pc) a) as [ts|] eqn:Et; [|discriminate].
    destruct (nth_error (p_agents Pc) a) as [ag|] eqn:Ea; [|discriminate].
    pose proof HI as (_ & Hlt & Hla & _).
    assert (Han : (a < n)%nat) by (rewrite <- Hlt; apply nth_error_Some; congruence).
    destruct (Hh a Han) as (t0 & tc & a0 & ac & H1 & H2 & H3 & H4 & H5 & H6 & H7 & H8 & H9).
    rewrite Et in H3. inversion H3; subst ts. rewrite Ea in H7. inversion H7; subst ac. clear H3 H7.
    destruct (deepcopy_fresh tab _ tc H4) as (st' & Hd & Hext & Hf).
    rewrite Hd in Hr.
    destruct (argmax fitness <? length (p_trees Pc))%nat eqn:Ew; [|discriminate].
    apply Nat.ltb_lt in Ew. set (w := argmax fitness) in *.
    simpl. eapply IHsel; [| | |exact Hr].
    + eapply Inv_set_tree; eauto. rewrite length_set_nth. auto.
    + rewrite length_set_nth. auto.
    + intros i Hi. destruct (Nat.eq_dec i w) as [-> | Hiw].
      * rewrite nth_set_nth_eq by lia.
        exists t0, (rename (copy_ren (p_heap Pc) tc) tc), a0, (mkAg (p_next_aid Pc) (a_fit ag) (a_tag ag)). simpl.
        destruct Hf as (F1 & F2 & F3).
        split; auto. split; auto.
        split. { rewrite nth_error_set_nth_eq by auto. rewrite F1. reflexivity. }
        split; auto. split. { rewrite erase_rename. auto. }
        split; auto. split. { apply nth_error_set_nth_eq. lia. } auto.
      * rewrite nth_set_nth_neq by auto.
        destruct (Hh i Hi) as (t0' & tc' & a0' & ac' & G1 & G2 & G3 & G4 & G5 & G6 & G7 & G8 & G9).
        exists t0', tc', a0', ac'. simpl. split; auto. split; auto.
        split. { rewrite nth_error_set_nth_neq by auto. auto. }
        split. { destruct G4. split; auto. eapply Rep_ext; eauto. }
        split; auto. split; auto. split; auto. rewrite nth_error_set_nth_neq by auto. auto.
Qed.

Lemma repro_loop_untouched : forall sel fitness Pc P',
  repro_loop sel fitness Pc = Ok P' ->
  heap_ext (p_heap Pc) (p_heap P') /\ (p_next_aid Pc <= p_next_aid P')%nat /\
  (forall i, ~ In i (repro_ws sel fitness) ->
     nth_error (p_trees P') i = nth_error (p_trees Pc) i /\ nth_error (p_agents P') i = nth_error (p_agents Pc) i).
Proof.
  induction sel; intros fitness Pc P' Hr; simpl in Hr.
  - inversion Hr; subst. split; [apply heap_ext_refl|]. split; auto.
  - destruct (nth_error (p_trees Pc) a) as [ts|] eqn:Et; [|discriminate].
    destruct (nth_error (p_agents Pc) a) as [ag|] eqn:Ea; [|discriminate].
    destruct (deepcopy (p_heap Pc) ts) as [[c h']| |] eqn:Ed; try discriminate.
    destruct (argmax fitness <? length (p_trees Pc))%nat; [|discriminate].
    apply IHsel in Hr. simpl in Hr. destruct Hr as (A & B & C).
    assert (Hext : heap_ext (p_heap Pc) h') by (apply deepcopy_raw in Ed; tauto).
    split. { eapply heap_ext_trans; eauto. } split; [lia|].
    intros i Hi. simpl in Hi. destruct (C i) as (C1 & C2). { intro. apply Hi. auto. }
    rewrite C1, C2. rewrite !nth_error_set_nth_neq by (intro; subst; apply Hi; auto). auto.
Qed.

Lemma repro_loop_fresh : forall sel fitness Pc P',
  length (p_agents Pc) = length (p_trees Pc) ->
  repro_loop sel fitness Pc = Ok P' ->
  forall i, In i (repro_ws sel fitness) ->
    exists r a, nth_error (p_trees P') i = Some r /\ (length (cells (p_heap Pc)) <= r)%nat /\
                nth_error (p_agents P') i = Some a /\ (p_next_aid Pc <= a_id a)%nat.
Proof.
  induction sel; intros fitness Pc P' Hlen Hr i Hi; simpl in Hr, Hi; [contradiction|].
  destruct (nth_error (p_trees Pc) a) as [ts|] eqn:Et; [|discriminate].
  destruct (nth_error (p_agents Pc) a) as [ag|] eqn:Ea; [|discriminate].
  destruct (deepcopy (p_heap Pc) ts) as [[c h']| |] eqn:Ed; try discriminate.
  destruct (argmax fitness <? length (p_trees Pc))%nat eqn:Ew; [|discriminate].
  apply Nat.ltb_lt in Ew.
  assert (Hlen' : length (set_nth (argmax fitness) (mkAg (p_next_aid Pc) (a_fit ag) (a_tag ag)) (p_agents Pc)) =
                  length (set_nth (argmax fitness) c (p_trees Pc))) by (rewrite !length_set_nth; auto).
  assert (Hc : (length (cells (p_heap Pc)) <= c)%nat /\ heap_ext (p_heap Pc) h') by (apply deepcopy_raw in Ed; tauto).
  destruct Hc as (Hc & Hext).
  destruct (in_dec Nat.eq_dec i (repro_ws sel (set_nth (argmax fitness) 0 fitness))) as [Y | Y].
  - match type of Hr with repro_loop _ _ ?Pn = _ =>
      assert (HlenN : length (p_agents Pn) = length (p_trees Pn)) by (simpl; rewrite !length_set_nth; auto) end.
    destruct (IHsel _ _ _ HlenN Hr i Y) as (r & ag' & A & B & C & D). simpl in *.
    exists r, ag'. destruct Hext as (_ & L & _). repeat split; auto; lia.
  - destruct Hi as [<- | Hi]; [|contradiction].
    destruct (repro_loop_untouched _ _ _ _ Hr) as (_ & _ & U). destruct (U _ Y) as (U1 & U2). simpl in U1, U2.
    rewrite nth_error_set_nth_eq in U1 by auto.
    rewrite nth_error_set_nth_eq in U2 by lia.
    exists c, (mkAg (p_next_aid Pc) (a_fit ag) (a_tag ag)). simpl. auto.
Qed.

End Loop.

Section Spec.
Variable E : genv.
Variable n : nat.
Let tab := g_arity E.

Lemma holds_init : forall P, Inv E n P -> forall i, (i < n)%nat -> holds E P P i i.
Proof.
  intros P HI i Hi. pose proof HI as (_ & Hlt & Hla & _).
  destruct (nth_error (p_trees P) i) as [r|] eqn:Et; [|apply nth_error_None in Et; lia].
  destruct (nth_error (p_agents P) i) as [a|] eqn:Ea; [|apply nth_error_None in Ea; lia].
  destruct (Inv_tree E n P i r HI Et) as (t & Ht & HW). subst r.
  exists t, t, a, a. repeat split; auto; destruct HW; auto.
Qed.

(* Reproduction: every slot i of the new population holds the tree AND the agent of one and the same old
   individual src(i); slots outside ws are the very same objects as before; slots in ws hold objects that
   did not exist (deep copies) of a tournament winner. *)
Theorem reproduction_spec : forall tsize k picks P P' picks',
  Inv E n P -> reproduction tsize k picks P = Ok (P', picks') ->
  exists sel, tournament tsize (map a_fit (p_agents P)) k picks = Ok (sel, picks') /\ length sel = k /\
    let fits := map a_fit (p_agents P) in
    let ws := repro_ws sel fits in
    let src := repro_src sel fits (seq 0 n) in
    (forall i, (i < n)%nat -> holds E P P' i (nth i src 0%nat)) /\
    (forall i, ~ In i ws -> nth_error (p_trees P') i = nth_error (p_trees P) i /\
                            nth_error (p_agents P') i = nth_error (p_agents P) i) /\
    (forall i, In i ws -> exists r a, nth_error (p_trees P') i = Some r /\ (length (cells (p_heap P)) <= r)%nat /\
                                      nth_error (p_agents P') i = Some a /\ (p_next_aid P <= a_id a)%nat) /\
    (forall i, (i < n)%nat -> In i ws -> In (nth i src 0%nat) sel) /\
    (forall i, (i < n)%nat -> ~ In i ws -> nth i src 0%nat = i).
Proof.
  intros tsize k picks P P' picks' HI Hr. unfold reproduction, bind in Hr.
  destruct (tournament tsize (map a_fit (p_agents P)) k picks) as [[sel pk]| |] eqn:Et; try discriminate.
  simpl in Hr. destruct (repro_loop sel (map a_fit (p_agents P)) P) as [P1| |] eqn:El; try discriminate.
  inversion Hr; subst P1 pk. clear Hr.
  destruct (tournament_lt _ _ _ _ _ _ Et) as (Hlt & Hk). rewrite map_length in Hlt.
  pose proof HI as (_ & Hlt' & Hla & _). rewrite Hla in Hlt.
  exists sel. split; auto. split; auto.
  assert (Hseq : forall i, (i < n)%nat -> nth i (seq 0 n) 0%nat = i) by (intros; rewrite seq_nth; auto).
  destruct (repro_src_props sel (map a_fit (p_agents P)) (seq 0 n) [] n (seq_length _ _) Hlt) as (S1 & S2 & S3 & S4).
  { intros i Hi. left. auto. }
  split.
  { apply (repro_loop_holds E n P sel _ P P' (seq 0 n) HI (seq_length _ _)); auto.
    intros i Hi. rewrite Hseq by auto. apply holds_init; auto. }
  split. { apply (repro_loop_untouched sel _ P P' El). }
  split. { apply (repro_loop_fresh sel _ P P'); auto. lia. }
  split. { intros i Hi Hw. apply (S3 i Hi Hw). }
  intros i Hi Hw. rewrite S2 by auto. auto.
Qed.

End Spec.

(* ------------------------------------------------------------------ the quirk: fitness[worst] = 0 *)
(* fitnesses (-3,-1,-2), two winners: slot 1 (the worst) is overwritten twice, slot 2 (the next-worst) never *)
Example repro_negative_slot_reuse : repro_ws [0%nat; 0%nat] [-3; -1; -2] = [1%nat; 1%nat].
Proof. reflexivity. Qed.

Example repro_zero_slot_reuse : repro_ws [1%nat; 1%nat] [5; 0; 0] = [0%nat; 0%nat].
Proof. reflexivity. Qed.

(* full statement (refuted): forall sel fits, length sel <= length fits ->
     NoDup (repro_ws sel fits) /\ forall w j, In w ws -> j < length fits -> ~ In j ws -> fits[j] <= fits[w]
   holds under Forall (0 <) fits (repro_ws_worst) and fails without it: *)
Theorem reproduction_nonpositive_refuted :
  exists sel fits, (length sel <= length fits)%nat /\ ~ NoDup (repro_ws sel fits).
Proof.
  exists [0%nat; 0%nat], [-3; -1; -2]. split; [simpl; lia|]. rewrite repro_negative_slot_reuse.
  intro H. inversion H; subst. apply H2. simpl. auto.
Qed.
