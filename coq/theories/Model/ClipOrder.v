(* Order-theoretic laws of the np.clip model of Model/Clip.v: what makes it *the* projection onto
   [l, h] and not merely some map into it.  On float keys (nk is the IEEE order on non-NaN values):
     - monotone:  v <= w  ->  clip v <= clip w;
     - between:   for every feasible w, clip v lies between v and w -- hence it is at least as
                  close to w as v is under any metric that is monotone in the IEEE order, which
                  is the "nearest feasible point" reading of "exact projection";
     - moved values land on a bound: the result is v, l or h and nothing else;
     - characterisation: any map into the box that fixes the box pointwise and is monotone
       agrees with clip numerically. *)
From Coq Require Import ZArith List Bool Lia ZifyBool.
From OV Require Import Base.FloatKey Model.Clip.
Import ListNotations.
Open Scope Z_scope.

Definition clipv (l h v : Z) : Z :=
  let t := if klt v l then l else v in if klt h t then h else t.

Lemma clipk_clipv l h v : clipk (Some l) (Some h) (Some v) = Some (clipv l h v).
Proof. reflexivity. Qed.

Lemma clipv_mono l h v w : kle v w = true -> kle (clipv l h v) (clipv l h w) = true.
Proof.
  unfold clipv, klt, kle. intros H.
  destruct (nk v <? nk l) eqn:E1; destruct (nk w <? nk l) eqn:E2.
  - destruct (nk h <? nk l) eqn:E3; lia.
  - destruct (nk h <? nk l) eqn:E3; destruct (nk h <? nk w) eqn:E4; lia.
  - lia.
  - destruct (nk h <? nk v) eqn:E3; destruct (nk h <? nk w) eqn:E4; lia.
Qed.

Lemma clipv_cases l h v : clipv l h v = v \/ clipv l h v = l \/ clipv l h v = h.
Proof.
  unfold clipv. destruct (klt v l) eqn:E1.
  - destruct (klt h l); auto.
  - destruct (klt h v); auto.
Qed.

(* the result lies between the argument and any point of the box *)
Lemma clipv_between l h v w : kle l w = true -> kle w h = true ->
  (kle v (clipv l h v) && kle (clipv l h v) w) || (kle w (clipv l h v) && kle (clipv l h v) v) = true.
Proof.
  unfold clipv, klt, kle. intros H1 H2.
  destruct (nk v <? nk l) eqn:E1.
  - destruct (nk h <? nk l) eqn:E3; lia.
  - destruct (nk h <? nk v) eqn:E3; lia.
Qed.

(* in key distance (monotone in the IEEE order) the projection is never farther from a feasible
   point than the argument was *)
Lemma clipv_nearest l h v w : kle l w = true -> kle w h = true ->
  Z.abs (nk (clipv l h v) - nk w) <= Z.abs (nk v - nk w).
Proof.
  unfold clipv, klt, kle. intros H1 H2.
  destruct (nk v <? nk l) eqn:E1.
  - destruct (nk h <? nk l) eqn:E3; lia.
  - destruct (nk h <? nk v) eqn:E3; lia.
Qed.

(* and a moved value is moved by the least amount that reaches the box: no feasible point lies
   strictly between the argument and its projection *)
Lemma clipv_no_feasible_between l h v w : kle l h = true -> kle l w = true -> kle w h = true ->
  (klt v w && klt w (clipv l h v)) || (klt (clipv l h v) w && klt w v) = false.
Proof.
  unfold clipv, klt, kle. intros H0 H1 H2.
  destruct (nk v <? nk l) eqn:E1.
  - destruct (nk h <? nk l) eqn:E3; lia.
  - destruct (nk h <? nk v) eqn:E3; lia.
Qed.

(* uniqueness: a monotone map into the box that fixes the box agrees with clip up to IEEE == *)
Lemma clipv_unique (f : Z -> Z) l h : kle l h = true ->
  (forall v, kle l (f v) = true /\ kle (f v) h = true) ->
  (forall v, kle l v = true -> kle v h = true -> keq (f v) v = true) ->
  (forall v w, kle v w = true -> kle (f v) (f w) = true) ->
  forall v, keq (f v) (clipv l h v) = true.
Proof.
  intros Hlh Hbox Hfix Hmono v.
  pose proof (Hbox v) as [Hb1 Hb2].
  unfold clipv, klt, kle, keq in *.
  destruct (nk v <? nk l) eqn:E1.
  - replace (nk h <? nk l) with false by lia.
    pose proof (Hmono v l ltac:(lia)) as Hm.
    pose proof (Hfix l ltac:(lia) ltac:(lia)) as Hf. lia.
  - destruct (nk h <? nk v) eqn:E3.
    + pose proof (Hmono h v ltac:(lia)) as Hm.
      pose proof (Hfix h ltac:(lia) ltac:(lia)) as Hf. lia.
    + apply Hfix; lia.
Qed.

(* rows: monotone coordinate by coordinate *)
Definition ole (a b : okey) : bool :=
  match a, b with Some x, Some y => kle x y | _, _ => false end.

Lemma clip_row_mono l h r s :
  Forall2 (fun a b => ole a b = true) r s ->
  Forall2 (fun a b => ole a b = true) (clip_row (Some l) (Some h) r) (clip_row (Some l) (Some h) s).
Proof.
  induction 1 as [|a b r s Hab _ IH]; cbn [clip_row map]; constructor; [|exact IH].
  destruct a as [x|], b as [y|]; cbn [ole] in Hab; try discriminate.
  rewrite !clipk_clipv. cbn [ole]. apply clipv_mono; exact Hab.
Qed.

(* whole positions: enforcement keeps the coordinatewise order between two positions of the same shape *)
Lemma clip_rows_mono lbs : forall ubs c c',
  Forall2 (Forall2 (fun a b => ole a b = true)) c c' ->
  Forall2 (Forall2 (fun a b => ole a b = true))
    (clip_rows (map Some lbs) (map Some ubs) c) (clip_rows (map Some lbs) (map Some ubs) c').
Proof.
  induction lbs as [|l lbs IH]; intros [|u ubs] c c' H; cbn [map clip_rows]; try exact H.
  destruct H as [|r r' c c' Hr Hc]; cbn [clip_rows]; constructor.
  - apply clip_row_mono. exact Hr.
  - apply IH. exact Hc.
Qed.

Example clip_order_nonvacuous :
  let l := -4616189618054758401 in let h := 4607182418800017408 in     (* [-1.0, 1.0] *)
  kle l h = true /\ clipv l h KINF = h /\ clipv l h (- KINF - 1) = l /\ clipv l h (-1) = -1 /\
  kle l 0 = true /\ kle 0 h = true.
Proof. vm_compute. repeat split; reflexivity. Qed.
