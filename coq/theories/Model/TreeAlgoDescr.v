(* A small structured description (mini-IR) of the work-list algorithms of /repo/opytimizer/core/node.py,
   its INTERPRETER over the id-labelled trees of Model/TreeDef.v, and the descriptions that the hand-written
   mirrors of Model/TreeAlgo.v implement ([descr_pre], [descr_post], [descr_props], [descr_find]).

   translate/t_treealgo.py regenerates Gen/TreeAlgoDescr.v (values of these types) from the source on every
   check; Props/C11.v proves `Gen.TreeAlgoDescr.X = Some descr_X` by reflexivity, and
   Model/TreeAlgoDescrProofs.v proves `interp descr_X t = X_model t` for every tree.  So a change of a push
   order, a condition, an accumulator update or a returned expression in node.py breaks the build of
   Props/C11.vo, whatever the sampled correspondence run sees.

   State of the interpreter: the current node variable (`self` / `node`), the list used with pop() (top at the
   head), the result list and the next-level list (Python order, append at the end), four accumulators.
   [None] results stand for a Python exception (AttributeError on None, IndexError on an empty list) or for
   running out of fuel; the fuels are those of Model/TreeAlgo.v.  No proofs in this file. *)
From Coq Require Import List Arith Bool ZArith.
From OV Require Import Model.TreeDef Model.TreeAlgo.
Import ListNotations.

(* ------------------------------------------------------------------ syntax *)
Inductive wl := WStack | WOut | WNext.                 (* popped list / result list / next level *)
Inductive acc := ANodes | ALeaves | AMin | AMax.       (* n_nodes, n_leaves, min_depth, max_depth *)

Inductive nexp :=                                      (* node-valued expression; may denote None *)
| NCur                                                 (* the loop's node variable *)
| NNone
| NLeft (e : nexp) | NRight (e : nexp)                 (* e.left, e.right: AttributeError when e is None *)
| NTop.                                                (* stacked[-1]: IndexError when empty *)

Inductive cond :=
| CIsNone (e : nexp) | CNotNone (e : nexp)
| CIs (a b : nexp)                                     (* a is b: object identity = equality of ids *)
| CNonEmpty | CEmpty                                   (* len(stacked) > 0, len(stacked) == 0 *)
| CZero (a : acc)                                      (* a == 0 *)
| CAnd (a b : cond).                                   (* short-circuit `and` *)

Inductive stmt :=
| SAppend (w : wl) (e : nexp)                          (* w.append(e) *)
| SPopCur                                              (* cur = stacked.pop() *)
| SPopDrop                                             (* stacked.pop() *)
| SSetCur (e : nexp)                                   (* cur = e *)
| SInc (a : acc)                                       (* a += 1 *)
| SCopy (dst src : acc)                                (* dst = src *)
| SIf (c : cond) (th el : list stmt).

(* pre_order:  out = []; stacked = pre_init; while pre_cond: pre_body;  return out *)
Record pre_descr := { pre_init : list nexp; pre_cond : cond; pre_body : list stmt }.

(* post_order: out = []; stacked = [];
               while True: (while cur is not None: post_descend; cur = cur.left); post_body; if post_break: break
               return out *)
Record post_descr := { post_descend : list stmt; post_body : list stmt; post_break : cond }.

(* _properties: accumulators = pr_init; nodes = [node];
                while len(nodes) > 0: pr_pre; next = []; (for cur in nodes: pr_body); nodes = next
                return the dict; pr_ret = which accumulator each of the properties n_nodes, n_leaves, min_depth,
                max_depth reads (through `_properties(self)[key]` and the dict) *)
Record props_descr := {
  pr_init_nodes : nat; pr_init_leaves : nat; pr_init_min : Z; pr_init_max : Z;
  pr_pre : list stmt; pr_body : list stmt;
  pr_ret : acc * acc * acc * acc }.

(* find_node: lst = self.<fd_trav>; if len(lst) > position: node = lst[position]; fd_tree;  fd_default *)
Inductive trav := TPre | TPost.
Inductive pexp := PNode | PParent (e : pexp).          (* node, node.parent, node.parent.parent *)
Inductive fflag := FFlagOf (e : pexp) | FConst (b : bool).
Inductive fret := FRet (who : option pexp) (fl : fflag).   (* return who, fl   (who = None: the literal None) *)
Inductive ftree :=
| FReturn (r : fret)
| FIfType (terminal : bool) (th el : ftree)            (* node.type == 'TERMINAL' (true) / 'FUNCTION' (false) *)
| FIfTruthy (e : pexp) (th el : ftree)                 (* if e: *)
| FFall.                                               (* no branch taken: go on after the if-chain *)
Record find_descr := { fd_trav : trav; fd_tree : ftree; fd_default : fret }.

(* ------------------------------------------------------------------ interpreter: expressions, statements *)
Record istate := {
  i_cur : option tree; i_stack : list tree; i_out : list tree; i_next : list tree;
  i_nodes : nat; i_leaves : nat; i_min : Z; i_max : Z }.

Definition set_cur (s : istate) (c : option tree) : istate :=
  {| i_cur := c; i_stack := i_stack s; i_out := i_out s; i_next := i_next s;
     i_nodes := i_nodes s; i_leaves := i_leaves s; i_min := i_min s; i_max := i_max s |}.
Definition set_stack (s : istate) (l : list tree) : istate :=
  {| i_cur := i_cur s; i_stack := l; i_out := i_out s; i_next := i_next s;
     i_nodes := i_nodes s; i_leaves := i_leaves s; i_min := i_min s; i_max := i_max s |}.
Definition set_out (s : istate) (l : list tree) : istate :=
  {| i_cur := i_cur s; i_stack := i_stack s; i_out := l; i_next := i_next s;
     i_nodes := i_nodes s; i_leaves := i_leaves s; i_min := i_min s; i_max := i_max s |}.
Definition set_next (s : istate) (l : list tree) : istate :=
  {| i_cur := i_cur s; i_stack := i_stack s; i_out := i_out s; i_next := l;
     i_nodes := i_nodes s; i_leaves := i_leaves s; i_min := i_min s; i_max := i_max s |}.
Definition set_accs (s : istate) (nn nl : nat) (mn mx : Z) : istate :=
  {| i_cur := i_cur s; i_stack := i_stack s; i_out := i_out s; i_next := i_next s;
     i_nodes := nn; i_leaves := nl; i_min := mn; i_max := mx |}.

Fixpoint evaln (e : nexp) (s : istate) : option (option tree) :=
  match e with
  | NCur => Some (i_cur s)
  | NNone => Some None
  | NLeft e' => match evaln e' s with Some (Some t) => Some (tleft t) | _ => None end
  | NRight e' => match evaln e' s with Some (Some t) => Some (tright t) | _ => None end
  | NTop => match i_stack s with y :: _ => Some (Some y) | [] => None end
  end.

Definition same_obj (a b : option tree) : bool :=
  match a, b with
  | Some x, Some y => Nat.eqb (tid x) (tid y)
  | None, None => true
  | _, _ => false
  end.

Fixpoint evalc (c : cond) (s : istate) : option bool :=
  match c with
  | CIsNone e => match evaln e s with Some (Some _) => Some false | Some None => Some true | None => None end
  | CNotNone e => match evaln e s with Some (Some _) => Some true | Some None => Some false | None => None end
  | CIs a b => match evaln a s, evaln b s with Some x, Some y => Some (same_obj x y) | _, _ => None end
  | CNonEmpty => Some (match i_stack s with [] => false | _ :: _ => true end)
  | CEmpty => Some (match i_stack s with [] => true | _ :: _ => false end)
  | CZero a => Some (match a with
                     | ANodes => Nat.eqb (i_nodes s) 0 | ALeaves => Nat.eqb (i_leaves s) 0
                     | AMin => Z.eqb (i_min s) 0 | AMax => Z.eqb (i_max s) 0 end)
  | CAnd a b => match evalc a s with Some true => evalc b s | Some false => Some false | None => None end
  end.

Definition get_z (a : acc) (s : istate) : Z :=
  match a with ANodes => Z.of_nat (i_nodes s) | ALeaves => Z.of_nat (i_leaves s) | AMin => i_min s | AMax => i_max s end.

Definition do_inc (a : acc) (s : istate) : istate :=
  match a with
  | ANodes => set_accs s (S (i_nodes s)) (i_leaves s) (i_min s) (i_max s)
  | ALeaves => set_accs s (i_nodes s) (S (i_leaves s)) (i_min s) (i_max s)
  | AMin => set_accs s (i_nodes s) (i_leaves s) (i_min s + 1)%Z (i_max s)
  | AMax => set_accs s (i_nodes s) (i_leaves s) (i_min s) (i_max s + 1)%Z
  end.

(* only the two depth accumulators can be copied into each other; any other copy is outside the mini-IR *)
Definition do_copy (dst src : acc) (s : istate) : option istate :=
  match dst, src with
  | AMin, AMax => Some (set_accs s (i_nodes s) (i_leaves s) (i_max s) (i_max s))
  | AMax, AMin => Some (set_accs s (i_nodes s) (i_leaves s) (i_min s) (i_min s))
  | AMin, AMin | AMax, AMax => Some s
  | _, _ => None
  end.

Fixpoint exec (st : stmt) (s : istate) : option istate :=
  let run := fix run (l : list stmt) (s : istate) : option istate :=
    match l with
    | [] => Some s
    | x :: r => match exec x s with Some s' => run r s' | None => None end
    end in
  match st with
  | SAppend w e =>
    match evaln e s with
    | Some (Some t) =>
      Some (match w with
            | WStack => set_stack s (t :: i_stack s)
            | WOut => set_out s (i_out s ++ [t])
            | WNext => set_next s (i_next s ++ [t]) end)
    | _ => None                                        (* appending None is outside the mini-IR *)
    end
  | SPopCur => match i_stack s with y :: r => Some (set_cur (set_stack s r) (Some y)) | [] => None end
  | SPopDrop => match i_stack s with _ :: r => Some (set_stack s r) | [] => None end
  | SSetCur e => match evaln e s with Some v => Some (set_cur s v) | None => None end
  | SInc a => Some (do_inc a s)
  | SCopy d a => do_copy d a s
  | SIf c th el => match evalc c s with Some true => run th s | Some false => run el s | None => None end
  end.

Fixpoint exec_list (l : list stmt) (s : istate) : option istate :=
  match l with
  | [] => Some s
  | x :: r => match exec x s with Some s' => exec_list r s' | None => None end
  end.

(* ------------------------------------------------------------------ interpreter: the three loop shapes *)
Definition init_state (t : tree) : istate :=
  {| i_cur := Some t; i_stack := []; i_out := []; i_next := []; i_nodes := 0; i_leaves := 0; i_min := 0%Z; i_max := 0%Z |}.

(* while c: body *)
Fixpoint wl_loop (fuel : nat) (c : cond) (body : list stmt) (s : istate) : option istate :=
  match evalc c s with
  | None => None
  | Some false => Some s
  | Some true =>
    match fuel with
    | 0 => None
    | S f => match exec_list body s with Some s' => wl_loop f c body s' | None => None end
    end
  end.

Fixpoint push_all (l : list nexp) (s : istate) : option istate :=
  match l with
  | [] => Some s
  | e :: r => match exec (SAppend WStack e) s with Some s' => push_all r s' | None => None end
  end.

Definition interp_pre (d : pre_descr) (t : tree) : option (list tree) :=
  match push_all (pre_init d) (init_state t) with
  | None => None
  | Some s => match wl_loop (size t) (pre_cond d) (pre_body d) s with Some s' => Some (i_out s') | None => None end
  end.

(* while cur is not None: dbody; cur = cur.left    (dbody must leave cur alone: [keeps_cur]) *)
Fixpoint descend_i (dbody : list stmt) (t : tree) (s : istate) : option istate :=
  match t with
  | N _ _ l _ =>
    match exec_list dbody (set_cur s (Some t)) with
    | None => None
    | Some s' => match l with Some a => descend_i dbody a s' | None => Some (set_cur s' None) end
    end
  end.

Fixpoint stmt_keeps_cur (st : stmt) : bool :=
  match st with
  | SPopCur | SSetCur _ => false
  | SIf _ th el => forallb stmt_keeps_cur th && forallb stmt_keeps_cur el
  | _ => true
  end.
Definition keeps_cur (l : list stmt) : bool := forallb stmt_keeps_cur l.

Fixpoint post_i (fuel : nat) (d : post_descr) (s : istate) : option istate :=
  match fuel with
  | 0 => None
  | S f =>
    match (match i_cur s with Some t => descend_i (post_descend d) t s | None => Some s end) with
    | None => None
    | Some s1 =>
      match exec_list (post_body d) s1 with
      | None => None
      | Some s2 => match evalc (post_break d) s2 with
                   | Some true => Some s2
                   | Some false => post_i f d s2
                   | None => None
                   end
      end
    end
  end.

Definition interp_post (d : post_descr) (t : tree) : option (list tree) :=
  match post_i (2 * size t) d (init_state t) with Some s => Some (i_out s) | None => None end.

(* for cur in nodes: body *)
Fixpoint for_nodes (body : list stmt) (nodes : list tree) (s : istate) : option istate :=
  match nodes with
  | [] => Some s
  | x :: r => match exec_list body (set_cur s (Some x)) with Some s' => for_nodes body r s' | None => None end
  end.

Fixpoint levels_i (fuel : nat) (d : props_descr) (nodes : list tree) (s : istate) : option istate :=
  match nodes with
  | [] => Some s
  | _ :: _ =>
    match fuel with
    | 0 => None
    | S f =>
      match exec_list (pr_pre d) s with
      | None => None
      | Some s1 => match for_nodes (pr_body d) nodes (set_next s1 []) with
                   | Some s2 => levels_i f d (i_next s2) s2
                   | None => None
                   end
      end
    end
  end.

(* (n_nodes, n_leaves, min_depth, max_depth) as the four properties return them *)
Definition interp_props (d : props_descr) (t : tree) : option (Z * Z * Z * Z) :=
  match levels_i (size t) d [t]
          (set_accs (init_state t) (pr_init_nodes d) (pr_init_leaves d) (pr_init_min d) (pr_init_max d)) with
  | None => None
  | Some s => match pr_ret d with (a, b, c, e) => Some (get_z a s, get_z b s, get_z c s, get_z e s) end
  end.

(* ------------------------------------------------------------------ interpreter: find_node *)
Fixpoint evalp (par : nat -> option nat) (e : pexp) (node : nat) : option (option nat) :=
  match e with
  | PNode => Some (Some node)
  | PParent e' => match evalp par e' node with Some (Some i) => Some (par i) | _ => None end
  end.

Inductive foutcome := FoRet (r : fn_result) | FoFall.

Definition eval_ret (par : nat -> option nat) (flg : nat -> bool) (r : fret) (node : nat) : fn_result :=
  match r with
  | FRet who fl =>
    match (match who with None => Some None | Some e => evalp par e node end) with
    | None => FnAttrErr
    | Some w =>
      match fl with
      | FConst b => FnSlot w b
      | FFlagOf e => match evalp par e node with Some (Some i) => FnSlot w (flg i) | _ => FnAttrErr end
      end
    end
  end.

Fixpoint eval_ftree (par : nat -> option nat) (flg : nat -> bool) (ft : ftree) (node : tree) : foutcome :=
  match ft with
  | FReturn r => FoRet (eval_ret par flg r (tid node))
  | FIfType tm th el =>
    if Bool.eqb tm (match tlab node with Term _ => true | Fun _ => false end)
    then eval_ftree par flg th node else eval_ftree par flg el node
  | FIfTruthy e th el =>
    match evalp par e (tid node) with
    | None => FoRet FnAttrErr
    | Some (Some _) => eval_ftree par flg th node      (* a Node object is truthy *)
    | Some None => eval_ftree par flg el node
    end
  | FFall => FoFall
  end.

Definition interp_find (pd : pre_descr) (qd : post_descr) (d : find_descr)
  (par : nat -> option nat) (flg : nat -> bool) (t : tree) (p : nat) : option fn_result :=
  match (match fd_trav d with TPre => interp_pre pd t | TPost => interp_post qd t end) with
  | None => None
  | Some lst =>
    if Nat.ltb p (length lst) then
      match nth_error lst p with
      | None => None
      | Some node => match eval_ftree par flg (fd_tree d) node with
                     | FoRet r => Some r
                     | FoFall => Some (eval_ret par flg (fd_default d) (tid node))
                     end
      end
    else Some (eval_ret par flg (fd_default d) 0)
  end.

(* ------------------------------------------------------------------ what the mirrors of Model/TreeAlgo.v implement *)
Definition descr_pre : pre_descr := {|
  pre_init := [NCur];
  pre_cond := CNonEmpty;
  pre_body := [SPopCur; SAppend WOut NCur;
               SIf (CNotNone (NRight NCur)) [SAppend WStack (NRight NCur)] [];
               SIf (CNotNone (NLeft NCur)) [SAppend WStack (NLeft NCur)] []] |}.

Definition descr_post : post_descr := {|
  post_descend := [SIf (CNotNone (NRight NCur)) [SAppend WStack (NRight NCur)] []; SAppend WStack NCur];
  post_body := [SPopCur;
                SIf (CAnd (CNotNone (NRight NCur)) (CAnd CNonEmpty (CIs NTop (NRight NCur))))
                    [SPopDrop; SAppend WStack NCur; SSetCur (NRight NCur)]
                    [SAppend WOut NCur; SSetCur NNone]];
  post_break := CEmpty |}.

Definition descr_props : props_descr := {|
  pr_init_nodes := 0; pr_init_leaves := 0; pr_init_min := 0%Z; pr_init_max := (-1)%Z;
  pr_pre := [SInc AMax];
  pr_body := [SInc ANodes;
              SIf (CAnd (CIsNone (NLeft NCur)) (CIsNone (NRight NCur)))
                  [SIf (CZero AMin) [SCopy AMin AMax] []; SInc ALeaves] [];
              SIf (CNotNone (NLeft NCur)) [SAppend WNext (NLeft NCur)] [];
              SIf (CNotNone (NRight NCur)) [SAppend WNext (NRight NCur)] []];
  pr_ret := (ANodes, ALeaves, AMin, AMax) |}.

Definition descr_find : find_descr := {|
  fd_trav := TPre;
  fd_tree := FIfType true (FReturn (FRet (Some (PParent PNode)) (FFlagOf PNode)))
             (FIfType false
                (FIfTruthy (PParent (PParent PNode))
                   (FReturn (FRet (Some (PParent (PParent PNode))) (FFlagOf (PParent PNode))))
                   (FReturn (FRet None (FConst false))))
                FFall);
  fd_default := FRet None (FConst false) |}.
