(* Proofs about Model/TreeAlgo.v: for EVERY tree (no bound on size or depth) the algorithms of
   core/node.py, as mirrored there, compute the recursive definitions of Model/TreeDef.v.

     pre_stack_correct     pre_stack t = Some (pre_rec t)
     post_stack_correct    NoDup (ids t) -> post_stack t = Some (post_rec t)      (identity peek => NoDup)
     post_stack_needs_nodup  the hypothesis is not decorative
     props_bfs_correct     props_bfs t = Some (size t, leaves t, min_leaf_depth t, max_leaf_depth t)
     pre_post_permutation, pre_rec_nodup, post_rec_nodup, pre_rec_complete, length_pre_rec
     find_node_spec_list / find_node_slot / find_node_out_of_range / find_node_root / hangs_unique
     tree_of_nodup         the trees used by the correspondence run satisfy NoDup (ids t)

   Fuel: [pre_loop_fuel], [post_loop_fuel] and [bfs_gen] show that any fuel above size t, cost t < 2 * size t
   and max_leaf_depth t < size t suffices, so the [None] (out of fuel / IndexError) outcomes are unreachable. *)
From Coq Require Import List Arith Bool ZArith Lia ZifyBool Permutation.
From OV Require Import Model.TreeDef Model.TreeAlgo.
Import ListNotations.


(* ------------------------------------------------------------------ induction over nested trees *)
Definition optP (P : tree -> Prop) (o : option tree) : Prop :=
  match o with Some a => P a | None => True end.

Fixpoint tree_ind2 (P : tree -> Prop)
  (H : forall i b l r, optP P l -> optP P r -> P (N i b l r)) (t : tree) : P t :=
  match t with
  | N i b l r =>
    H i b l r
      (match l as o return optP P o with Some a => tree_ind2 P H a | None => I end)
      (match r as o return optP P o with Some c => tree_ind2 P H c | None => I end)
  end.

Definition olist (o : option tree) : list tree := match o with Some a => [a] | None => [] end.
Definition children (t : tree) : list tree := olist (tleft t) ++ olist (tright t).

Definition opre (o : option tree) := match o with Some a => pre_rec a | None => [] end.
Definition opost (o : option tree) := match o with Some a => post_rec a | None => [] end.
Definition osize (o : option tree) := match o with Some a => size a | None => 0 end.

Lemma pre_rec_N : forall i b l r, pre_rec (N i b l r) = N i b l r :: opre l ++ opre r.
Proof. reflexivity. Qed.
Lemma post_rec_N : forall i b l r, post_rec (N i b l r) = opost l ++ opost r ++ [N i b l r].
Proof. reflexivity. Qed.
Lemma size_N : forall i b l r, size (N i b l r) = S (osize l + osize r).
Proof. reflexivity. Qed.

(* ------------------------------------------------------------------ pre_order *)
Fixpoint sizes (st : list tree) : nat := match st with [] => 0 | t :: r => size t + sizes r end.

Lemma sizes_push : forall o st, sizes (push_opt o st) = osize o + sizes st.
Proof. intros [a|] st; reflexivity. Qed.

Lemma flat_push : forall o st, flat_map pre_rec (push_opt o st) = opre o ++ flat_map pre_rec st.
Proof. intros [a|] st; reflexivity. Qed.

Lemma pre_loop_gen : forall n st out f, sizes st = n ->
  pre_loop (n + f) st out = Some (out ++ flat_map pre_rec st).
Proof.
  induction n as [|n IH]; intros st out f Hs.
  - destruct st as [|[i b l r] st'].
    + simpl. rewrite app_nil_r. now destruct f.
    + cbn [sizes] in Hs. rewrite size_N in Hs. lia.
  - destruct st as [|[i b l r] st'].
    + discriminate.
    + replace (S n + f) with (S (n + f)) by lia. cbn [pre_loop Nat.add tleft tright].
      rewrite IH.
      * rewrite !flat_push. cbn [flat_map]. rewrite pre_rec_N.
        rewrite <- !app_assoc. cbn [app]. rewrite <- !app_assoc. reflexivity.
      * rewrite !sizes_push. cbn [sizes] in Hs. rewrite size_N in Hs. lia.
Qed.

Theorem pre_stack_correct : forall t, pre_stack t = Some (pre_rec t).
Proof.
  intros t. unfold pre_stack.
  replace (size t) with (size t + 0) by lia.
  rewrite pre_loop_gen.
  - simpl. now rewrite app_nil_r.
  - simpl. lia.
Qed.

(* more fuel never changes the answer *)
Lemma pre_loop_fuel : forall t f, size t <= f -> pre_loop f [t] [] = Some (pre_rec t).
Proof.
  intros t f Hf. replace f with (size t + (f - size t)) by lia.
  rewrite pre_loop_gen.
  - simpl. now rewrite app_nil_r.
  - simpl. lia.
Qed.

Lemma length_pre_rec : forall t, length (pre_rec t) = size t.
Proof.
  induction t as [i b l r Hl Hr] using tree_ind2.
  rewrite pre_rec_N, size_N. cbn [length]. rewrite app_length.
  destruct l, r; simpl in *; lia.
Qed.

Lemma length_post_rec : forall t, length (post_rec t) = size t.
Proof.
  induction t as [i b l r Hl Hr] using tree_ind2.
  rewrite post_rec_N, size_N. rewrite !app_length. cbn [length].
  destruct l, r; simpl in *; lia.
Qed.

Theorem pre_post_permutation : forall t, Permutation (pre_rec t) (post_rec t).
Proof.
  induction t as [i b l r Hl Hr] using tree_ind2.
  rewrite pre_rec_N, post_rec_N.
  rewrite app_assoc. apply Permutation_cons_app. rewrite app_nil_r.
  apply Permutation_app; [destruct l | destruct r]; simpl in *; auto.
Qed.

(* every node: [node_of t c] = c is t or a node of a child of t *)
Inductive node_of : tree -> tree -> Prop :=
| node_self : forall t, node_of t t
| node_left : forall i b a r c, node_of a c -> node_of (N i b (Some a) r) c
| node_right : forall i b l a c, node_of a c -> node_of (N i b l (Some a)) c.

Theorem pre_rec_complete : forall t c, In c (pre_rec t) <-> node_of t c.
Proof.
  induction t as [i b l r Hl Hr] using tree_ind2. intros c.
  rewrite pre_rec_N. split.
  - intros [E | H].
    + subst. constructor.
    + apply in_app_or in H. destruct H as [H | H].
      * destruct l as [a|]; [| contradiction]. apply node_left. now apply Hl.
      * destruct r as [a|]; [| contradiction]. apply node_right. now apply Hr.
  - intros H. inversion H; subst.
    + now left.
    + right. apply in_or_app. left. simpl. now apply Hl.
    + right. apply in_or_app. right. simpl. now apply Hr.
Qed.

Lemma ids_N : forall i b l r, ids (N i b l r) = i :: map tid (opre l) ++ map tid (opre r).
Proof. intros. unfold ids. rewrite pre_rec_N. cbn [map tid]. now rewrite map_app. Qed.

Lemma NoDup_map_inv' : forall (A B : Type) (f : A -> B) l, NoDup (map f l) -> NoDup l.
Proof.
  induction l as [|x l IH]; intros H; [constructor|].
  simpl in H. inversion H; subst. constructor; auto.
  intros Hin. apply H2. now apply in_map.
Qed.

Theorem pre_rec_nodup : forall t, NoDup (ids t) -> NoDup (pre_rec t).
Proof. intros t H. eapply NoDup_map_inv'. exact H. Qed.

Theorem post_rec_nodup : forall t, NoDup (ids t) -> NoDup (post_rec t).
Proof.
  intros t H. eapply Permutation_NoDup; [apply pre_post_permutation|]. now apply pre_rec_nodup.
Qed.


(* ------------------------------------------------------------------ post_order *)
(* number of iterations of the outer `while True` spent on a subtree *)
Fixpoint cost (t : tree) : nat :=
  match t with
  | N _ _ l r => S ((match l with Some a => cost a | None => 0 end)
                    + (match r with Some b => S (cost b) | None => 0 end))
  end.

Lemma cost_le : forall t, cost t < 2 * size t.
Proof.
  induction t as [i b l r Hl Hr] using tree_ind2.
  rewrite size_N. cbn [cost]. destruct l, r; simpl in *; lia.
Qed.

Definition cont (f : nat) (st out : list tree) : option (list tree) :=
  match st with [] => Some out | _ :: _ => post_loop f None st out end.

Lemma post_loop_descend : forall n i b a r st out,
  post_loop n (Some (N i b (Some a) r)) st out
  = post_loop n (Some a) (N i b (Some a) r :: push_opt r st) out.
Proof. intros. destruct n; reflexivity. Qed.

Lemma post_loop_pop : forall f x st2 out,
  post_loop (S f) None (x :: st2) out
  = if go_right x st2 then post_loop f (tright x) (x :: tl st2) out else cont f st2 (out ++ [x]).
Proof. reflexivity. Qed.

Lemma post_loop_noleft : forall f i b r st out,
  post_loop (S f) (Some (N i b None r)) st out
  = post_loop (S f) None (N i b None r :: push_opt r st) out.
Proof. reflexivity. Qed.

Lemma tid_in_ids : forall t, In (tid t) (ids t).
Proof. intros [i b l r]. rewrite ids_N. now left. Qed.

Lemma go_right_self : forall x r st, tright x = Some r -> go_right x (r :: st) = true.
Proof. intros x r st H. unfold go_right. rewrite H. apply Nat.eqb_refl. Qed.

Lemma go_right_fresh : forall x st,
  (forall y, hd_error st = Some y -> ~ In (tid y) (ids x)) -> go_right x st = false.
Proof.
  intros [i b l r] st H. unfold go_right. cbn [tright].
  destruct r as [r|]; [| reflexivity]. destruct st as [|y st]; [reflexivity|].
  apply Nat.eqb_neq. intros E. apply (H y eq_refl). rewrite ids_N. right.
  apply in_or_app. right. rewrite E. apply tid_in_ids.
Qed.

Lemma NoDup_app_parts : forall (A : Type) (l1 l2 : list A), NoDup (l1 ++ l2) -> NoDup l1 /\ NoDup l2.
Proof.
  induction l1 as [|x l1 IH]; intros l2 H; simpl in *.
  - split; [constructor | exact H].
  - inversion H; subst. destruct (IH _ H3) as [H1 H2'].
    split; [| exact H2']. constructor; [| exact H1].
    intros Hin. apply H2. apply in_or_app. now left.
Qed.

Definition fresh_top (st : list tree) (t : tree) : Prop :=
  forall y, hd_error st = Some y -> ~ In (tid y) (ids t).

Lemma post_main : forall t st out f,
  NoDup (ids t) -> fresh_top st t ->
  post_loop (cost t + f) (Some t) st out = cont f st (out ++ post_rec t).
Proof.
  induction t as [i b l r Hl Hr] using tree_ind2. intros st out f Hnd Hfr.
  assert (Hgo : go_right (N i b l r) st = false) by (apply go_right_fresh; exact Hfr).
  rewrite ids_N in Hnd. inversion Hnd as [|? ? Hni Hnd']; subst.
  assert (Hnil : ~ In i (map tid (opre l))) by (intros H; apply Hni, in_or_app; now left).
  assert (Hnir : ~ In i (map tid (opre r))) by (intros H; apply Hni, in_or_app; now right).
  destruct (NoDup_app_parts _ _ _ Hnd') as [Hndl Hndr].
  rewrite post_rec_N.
  set (t := N i b l r) in *.
  assert (Hfl : forall a st', l = Some a -> fresh_top (t :: st') a).
  { intros a st' -> y Hy. inversion Hy; subst. exact Hnil. }
  assert (Hfrr : forall c st', r = Some c -> fresh_top (t :: st') c).
  { intros c st' -> y Hy. inversion Hy; subst. exact Hnir. }
  destruct l as [a|]; destruct r as [c|]; cbn [optP opre opost] in *.
  - (* both children *)
    replace (cost t + f) with (cost a + S (cost c + S f)) by (subst t; cbn [cost]; lia).
    subst t. rewrite post_loop_descend. cbn [push_opt].
    set (t := N i b (Some a) (Some c)) in *.
    rewrite (Hl _ _ _ Hndl (Hfl a _ eq_refl)). cbn [cont].
    rewrite post_loop_pop. rewrite go_right_self by reflexivity. cbn [tl tright t].
    fold t. rewrite (Hr _ _ _ Hndr (Hfrr c _ eq_refl)). cbn [cont].
    rewrite post_loop_pop. rewrite Hgo. rewrite <- !app_assoc. reflexivity.
  - (* left only *)
    replace (cost t + f) with (cost a + S f) by (subst t; cbn [cost]; lia).
    subst t. rewrite post_loop_descend. cbn [push_opt].
    set (t := N i b (Some a) None) in *.
    rewrite (Hl _ _ _ Hndl (Hfl a _ eq_refl)). cbn [cont].
    rewrite post_loop_pop. rewrite Hgo. rewrite <- !app_assoc. reflexivity.
  - (* right only *)
    replace (cost t + f) with (S (cost c + S f)) by (subst t; cbn [cost]; lia).
    subst t. rewrite post_loop_noleft. cbn [push_opt].
    set (t := N i b None (Some c)) in *.
    rewrite post_loop_pop. rewrite go_right_self by reflexivity. cbn [tl tright t].
    fold t. rewrite (Hr _ _ _ Hndr (Hfrr c _ eq_refl)). cbn [cont].
    rewrite post_loop_pop. rewrite Hgo. rewrite <- !app_assoc. reflexivity.
  - (* leaf *)
    replace (cost t + f) with (S f) by (subst t; cbn [cost]; lia).
    subst t. rewrite post_loop_noleft. cbn [push_opt].
    rewrite post_loop_pop. rewrite Hgo. reflexivity.
Qed.

Theorem post_loop_fuel : forall t f, NoDup (ids t) -> cost t <= f ->
  post_loop f (Some t) [] [] = Some (post_rec t).
Proof.
  intros t f Hnd Hf. replace f with (cost t + (f - cost t)) by lia.
  rewrite post_main; [reflexivity | exact Hnd | intros y Hy; discriminate].
Qed.

Theorem post_stack_correct : forall t, NoDup (ids t) -> post_stack t = Some (post_rec t).
Proof.
  intros t Hnd. unfold post_stack. apply post_loop_fuel; [exact Hnd|].
  pose proof (cost_le t). lia.
Qed.

(* the identity peek is why NoDup is needed: a right child that "is" (has the id of) its grandparent *)
Definition dup_tree : tree :=
  N 0 (Fun 0) (Some (N 1 (Fun 0) None (Some (N 0 (Term 0) None None)))) None.

Lemma post_stack_needs_nodup : post_stack dup_tree <> Some (post_rec dup_tree).
Proof. vm_compute. discriminate. Qed.


(* ------------------------------------------------------------------ find_node *)
(* what the code returns once it has picked [node] out of the pre-order list *)
Definition fn_at (par : nat -> option nat) (flg : nat -> bool) (node : tree) : fn_result :=
  match tlab node with
  | Term _ => FnSlot (par (tid node)) (flg (tid node))
  | Fun _ =>
    match par (tid node) with
    | None => FnAttrErr
    | Some q => match par q with Some g => FnSlot (Some g) (flg q) | None => FnSlot None false end
    end
  end.

Lemma nth_error_map' : forall (A B : Type) (f : A -> B) l n,
  nth_error (map f l) n = match nth_error l n with Some x => Some (f x) | None => None end.
Proof. induction l as [|x l IH]; intros [|n]; simpl; auto. Qed.

Lemma find_node_h_unfold : forall par flg t p,
  find_node_h par flg t p =
  if Nat.ltb p (size t) then nth_error (map (fn_at par flg) (pre_rec t)) p else Some (FnSlot None false).
Proof.
  intros. unfold find_node_h. rewrite pre_stack_correct, length_pre_rec.
  destruct (Nat.ltb p (size t)) eqn:E; [| reflexivity].
  rewrite nth_error_map'. destruct (nth_error (pre_rec t) p) as [c|] eqn:En.
  - unfold fn_at. destruct (tlab c); [reflexivity|].
    destruct (par (tid c)) as [q|]; [| reflexivity]. now destruct (par q).
  - apply nth_error_None in En. rewrite length_pre_rec in En. apply Nat.ltb_lt in E. lia.
Qed.

Lemma links_keys : forall s own, map fst (links_from own s) = ids s.
Proof.
  induction s as [i b l r Hl Hr] using tree_ind2. intros own.
  rewrite ids_N. cbn [links_from map fst]. rewrite map_app. f_equal. f_equal.
  - destruct l as [a|]; [apply Hl | reflexivity].
  - destruct r as [c|]; [apply Hr | reflexivity].
Qed.

Lemma assoc_in : forall tbl i v, NoDup (map fst tbl) -> In (i, v) tbl -> assoc i tbl = Some v.
Proof.
  induction tbl as [|[j w] tbl IH]; intros i v Hnd Hin; [contradiction|].
  cbn [map fst] in Hnd. inversion Hnd; subst. cbn [assoc].
  destruct Hin as [E | Hin].
  - inversion E; subst. now rewrite Nat.eqb_refl.
  - destruct (Nat.eqb i j) eqn:Eij.
    + apply Nat.eqb_eq in Eij. subst. exfalso. apply H1.
      change j with (fst (j, v)). now apply in_map.
    + now apply IH.
Qed.

Definition pown_ok (tbl : list (nat * slot)) (own : slot) (pown : option slot) : Prop :=
  match fst own with
  | Some q => exists ps, pown = Some ps /\ assoc q tbl = Some ps
  | None => pown = None
  end.

(* the code's answers, node by node in pre-order, are the specified ones -- for any heap [tbl] with
   unique ids in which the links of [s] are the structural ones *)
Lemma find_map_spec : forall s own pown tbl,
  NoDup (map fst tbl) -> incl (links_from own s) tbl -> pown_ok tbl own pown ->
  map (fn_at (par_of tbl) (flg_of tbl)) (pre_rec s) = fn_spec_list own pown s.
Proof.
  induction s as [i b l r Hl Hr] using tree_ind2. intros own pown tbl Hnd Hincl Hp.
  rewrite pre_rec_N. cbn [map fn_spec_list]. rewrite map_app.
  assert (Hi : assoc i tbl = Some own).
  { apply assoc_in; [exact Hnd|]. apply Hincl. cbn [links_from]. now left. }
  assert (Hsub : forall sd a, incl (links_from (Some i, sd) a)
                    (match l with Some a => links_from (Some i, true) a | None => [] end
                     ++ match r with Some c => links_from (Some i, false) c | None => [] end)
                 -> incl (links_from (Some i, sd) a) tbl).
  { intros sd a H x Hx. apply Hincl. cbn [links_from]. right. now apply H. }
  assert (Hp' : forall sd, pown_ok tbl (Some i, sd) (Some own)).
  { intros sd. unfold pown_ok. cbn [fst]. exists own. split; [reflexivity | exact Hi]. }
  f_equal; [| f_equal].
  - unfold fn_at. cbn [tlab tid]. unfold par_of, flg_of. rewrite Hi.
    destruct own as [po fo]. destruct b as [k|op]; [reflexivity|].
    unfold pown_ok in Hp. cbn [fst] in Hp. destruct po as [q|].
    + destruct Hp as [ps [-> Hq]]. rewrite Hq. destruct ps as [[g|] f]; reflexivity.
    + subst pown. reflexivity.
  - destruct l as [a|]; [| reflexivity].
    apply Hl; [exact Hnd | | apply Hp']. apply Hsub. apply incl_appl, incl_refl.
  - destruct r as [c|]; [| reflexivity].
    apply Hr; [exact Hnd | | apply Hp']. apply Hsub. apply incl_appr, incl_refl.
Qed.

Theorem find_node_tbl_spec : forall t tbl p,
  NoDup (map fst tbl) -> incl (heap_of t) tbl ->
  find_node_tbl tbl t p =
  if Nat.ltb p (size t) then nth_error (fn_spec_list (None, true) None t) p else Some (FnSlot None false).
Proof.
  intros t tbl p Hnd Hincl. unfold find_node_tbl. rewrite find_node_h_unfold.
  rewrite (find_map_spec t (None, true) None tbl Hnd Hincl); reflexivity.
Qed.

Theorem find_node_spec_list : forall t p, NoDup (ids t) ->
  find_node t p =
  if Nat.ltb p (size t) then nth_error (fn_spec_list (None, true) None t) p else Some (FnSlot None false).
Proof.
  intros t p Hnd. unfold find_node. apply find_node_tbl_spec.
  - unfold heap_of. now rewrite links_keys.
  - apply incl_refl.
Qed.

Lemma length_fn_spec : forall s own pown, length (fn_spec_list own pown s) = size s.
Proof.
  induction s as [i b l r Hl Hr] using tree_ind2. intros own pown.
  rewrite size_N. cbn [fn_spec_list length]. rewrite app_length. f_equal. f_equal.
  - destruct l; [apply Hl | reflexivity].
  - destruct r; [apply Hr | reflexivity].
Qed.

(* the specified answers, read as the property text reads them *)
Definition slot_answer (s : tree) (own : slot) (c q : tree) (side : bool) (ans : fn_result) : Prop :=
  match tlab c with
  | Term _ => ans = FnSlot (Some (tid q)) side
  | Fun _ => (q = s /\ ans = up_answer own)
             \/ (exists g s2, In g (pre_rec s) /\ child g s2 = Some q /\ ans = FnSlot (Some (tid g)) s2)
  end.

Lemma spec_slots : forall s own pown k c, 1 <= k -> nth_error (pre_rec s) k = Some c ->
  exists q side ans, In q (pre_rec s) /\ child q side = Some c
    /\ nth_error (fn_spec_list own pown s) k = Some ans /\ slot_answer s own c q side ans.
Proof.
  induction s as [i b l r Hl Hr] using tree_ind2. intros own pown k c Hk Hn.
  set (s := N i b l r) in *.
  (* a node found at index k' of the child [a] hanging on side [sd] of s *)
  assert (Hsub : forall a sd, child s sd = Some a -> optP (fun a => forall own pown k c, 1 <= k ->
                    nth_error (pre_rec a) k = Some c ->
                    exists q side ans, In q (pre_rec a) /\ child q side = Some c
                      /\ nth_error (fn_spec_list own pown a) k = Some ans /\ slot_answer a own c q side ans) (Some a) ->
                  (forall x, In x (pre_rec a) -> In x (pre_rec s)) ->
                  forall k' c, nth_error (pre_rec a) k' = Some c ->
                  exists q side ans, In q (pre_rec s) /\ child q side = Some c
                    /\ nth_error (fn_spec_list (Some i, sd) (Some own) a) k' = Some ans
                    /\ slot_answer s own c q side ans).
  { intros a sd Hch IHa Hin k' c' Hn'. destruct k' as [|k'].
    - (* the child itself *)
      destruct a as [ia ba la ra]. cbn in Hn'. inversion Hn'; subst c'.
      exists s, sd. eexists. split; [now left|]. split; [exact Hch|]. split; [reflexivity|].
      unfold slot_answer. cbn [tlab tid]. destruct ba as [kk|op]; [reflexivity|]. left. split; reflexivity.
    - destruct (IHa (Some i, sd) (Some own) (S k') c' ltac:(lia) Hn') as [q [side [ans [Hq [Hc [Ha Hs]]]]]].
      exists q, side, ans. split; [now apply Hin|]. split; [exact Hc|]. split; [exact Ha|].
      unfold slot_answer in *. destruct (tlab c'); [exact Hs|]. right.
      destruct Hs as [[Eq Ea] | [g [s2 [Hg [Hgc Ea]]]]].
      + subst q. exists s, sd. split; [now left|]. split; [exact Hch|]. exact Ea.
      + exists g, s2. split; [now apply Hin|]. split; assumption. }
  destruct k as [|k]; [lia|]. unfold s in Hn. rewrite pre_rec_N in Hn. cbn [nth_error] in Hn.
  change (fn_spec_list own pown s) with (fn_spec_list own pown (N i b l r)). cbn [fn_spec_list nth_error].
  destruct (Nat.lt_ge_cases k (length (opre l))) as [Hlt | Hge].
  - rewrite nth_error_app1 in Hn by exact Hlt.
    destruct l as [a|]; [| cbn in Hlt; lia]. cbn [opre] in *.
    destruct (Hsub a true eq_refl Hl) with (k' := k) (c := c) as [q [side [ans [Hq [Hc [Ha Hs]]]]]].
    + intros x Hx. unfold s. rewrite pre_rec_N. right. apply in_or_app. now left.
    + exact Hn.
    + exists q, side, ans. repeat split; try assumption.
      rewrite nth_error_app1; [exact Ha|]. rewrite length_fn_spec, <- length_pre_rec. exact Hlt.
  - rewrite nth_error_app2 in Hn by exact Hge.
    destruct r as [a|]; [| cbn in Hn; destruct (k - length (opre l)); discriminate]. cbn [opre] in Hn.
    destruct (Hsub a false eq_refl Hr) with (k' := k - length (opre l)) (c := c) as [q [side [ans [Hq [Hc [Ha Hs]]]]]].
    + intros x Hx. unfold s. rewrite pre_rec_N. right. apply in_or_app. now right.
    + exact Hn.
    + exists q, side, ans. repeat split; try assumption.
      assert (El : length (match l with Some a0 => fn_spec_list (Some i, true) (Some own) a0 | None => [] end)
                   = length (opre l)).
      { destruct l as [a0|]; [| reflexivity]. cbn [opre]. now rewrite length_fn_spec, length_pre_rec. }
      rewrite nth_error_app2; rewrite El; [exact Ha | exact Hge].
Qed.

(* The property text: for every in-range p >= 1, find_node(p) designates the slot (parent and side)
   under which the p-th pre-order node hangs if it is a terminal, the slot under which that node's
   parent hangs if it is a function, and (None, False) when there is no such slot (the parent is the root). *)
Theorem find_node_slot : forall t p, NoDup (ids t) -> 1 <= p < size t ->
  exists c q side, nth_error (pre_rec t) p = Some c /\ hangs t c q side /\
    match tlab c with
    | Term _ => find_node t p = Some (FnSlot (Some (tid q)) side)
    | Fun _ => (q = t /\ find_node t p = Some (FnSlot None false))
               \/ (exists g s2, hangs t q g s2 /\ find_node t p = Some (FnSlot (Some (tid g)) s2))
    end.
Proof.
  intros t p Hnd [H1 H2].
  destruct (nth_error (pre_rec t) p) as [c|] eqn:En.
  2:{ apply nth_error_None in En. rewrite length_pre_rec in En. lia. }
  destruct (spec_slots t (None, true) None p c H1 En) as [q [side [ans [Hq [Hc [Ha Hs]]]]]].
  exists c, q, side. split; [reflexivity|]. split; [split; assumption|].
  rewrite (find_node_spec_list t p Hnd).
  assert (E : Nat.ltb p (size t) = true) by (apply Nat.ltb_lt; lia). rewrite E, Ha.
  unfold slot_answer in Hs. destruct (tlab c).
  - now subst ans.
  - destruct Hs as [[Eq Ea] | [g [s2 [Hg [Hgc Ea]]]]].
    + left. split; [exact Eq|]. now subst ans.
    + right. exists g, s2. split; [split; assumption|]. now subst ans.
Qed.

Theorem find_node_out_of_range : forall t p, size t <= p -> find_node t p = Some (FnSlot None false).
Proof.
  intros t p H. unfold find_node, find_node_tbl. rewrite find_node_h_unfold.
  assert (E : Nat.ltb p (size t) = false) by (apply Nat.ltb_ge; lia). now rewrite E.
Qed.

(* outside the property text (p = 0): a terminal root answers (None, True), a function root raises *)
Theorem find_node_root : forall t, NoDup (ids t) ->
  find_node t 0 = Some (match tlab t with Term _ => FnSlot None true | Fun _ => FnAttrErr end).
Proof.
  intros t Hnd. rewrite (find_node_spec_list t 0 Hnd).
  destruct t as [i b l r]. rewrite size_N. cbn. now destruct b.
Qed.

(* "the" slot: with unique ids a node hangs in exactly one slot *)
Lemma links_head : forall a own, In (tid a, own) (links_from own a).
Proof. intros [i b l r] own. cbn. now left. Qed.

Lemma links_child : forall s own q side c, In q (pre_rec s) -> child q side = Some c ->
  In (tid c, (Some (tid q), side)) (links_from own s).
Proof.
  induction s as [i b l r Hl Hr] using tree_ind2. intros own q side c Hq Hc.
  rewrite pre_rec_N in Hq. cbn [links_from]. destruct Hq as [E | Hq].
  - subst q. right. apply in_or_app. unfold child in Hc. cbn [tid]. destruct side; cbn in Hc; subst.
    + left. apply links_head.
    + right. apply links_head.
  - right. apply in_or_app. apply in_app_or in Hq. destruct Hq as [Hq | Hq].
    + left. destruct l as [a|]; [| contradiction]. now apply (Hl _ q side c).
    + right. destruct r as [a|]; [| contradiction]. now apply (Hr _ q side c).
Qed.

Lemma NoDup_map_inj : forall (A B : Type) (f : A -> B) l x y,
  NoDup (map f l) -> In x l -> In y l -> f x = f y -> x = y.
Proof.
  induction l as [|z l IH]; intros x y Hnd Hx Hy E; [contradiction|].
  cbn in Hnd. inversion Hnd; subst.
  destruct Hx as [-> | Hx]; destruct Hy as [-> | Hy]; auto.
  - exfalso. apply H1. rewrite E. now apply in_map.
  - exfalso. apply H1. rewrite <- E. now apply in_map.
Qed.

Theorem hangs_unique : forall t c q side q' side', NoDup (ids t) ->
  hangs t c q side -> hangs t c q' side' -> q = q' /\ side = side'.
Proof.
  intros t c q side q' side' Hnd [Hq Hc] [Hq' Hc'].
  assert (Hk : NoDup (map fst (heap_of t))) by (unfold heap_of; now rewrite links_keys).
  pose proof (assoc_in _ _ _ Hk (links_child t (None, true) q side c Hq Hc)) as H1.
  pose proof (assoc_in _ _ _ Hk (links_child t (None, true) q' side' c Hq' Hc')) as H2.
  rewrite H1 in H2. inversion H2. split; [| reflexivity].
  eapply NoDup_map_inj; [exact Hnd | exact Hq | exact Hq' | assumption].
Qed.


(* ------------------------------------------------------------------ the trees of the correspondence run
   have pairwise distinct ids (pre-order numbering), so the NoDup hypothesis holds for each of them *)
Definition optS (P : shape -> Prop) (o : option shape) : Prop :=
  match o with Some a => P a | None => True end.

Fixpoint shape_ind2 (P : shape -> Prop)
  (H : forall tm l r, optS P l -> optS P r -> P (Sh tm l r)) (s : shape) : P s :=
  match s with
  | Sh tm l r =>
    H tm l r
      (match l as o return optS P o with Some a => shape_ind2 P H a | None => I end)
      (match r as o return optS P o with Some c => shape_ind2 P H c | None => I end)
  end.

Fixpoint ssize (s : shape) : nat :=
  match s with Sh _ l r =>
    S ((match l with Some a => ssize a | None => 0 end) + (match r with Some b => ssize b | None => 0 end)) end.

Lemma ids_node : forall i b l r, ids (N i b l r) =
  i :: (match l with Some a => ids a | None => [] end) ++ (match r with Some c => ids c | None => [] end).
Proof. intros. rewrite ids_N. destruct l, r; reflexivity. Qed.

Lemma build_spec : forall s n,
  snd (build n s) = n + ssize s /\ ids (fst (build n s)) = seq n (ssize s).
Proof.
  induction s as [tm l r Hl Hr] using shape_ind2. intros n.
  destruct l as [a|]; destruct r as [c|]; cbn [build ssize optS] in *.
  - destruct (build (S n) a) as [ta n1] eqn:Ea. destruct (Hl (S n)) as [H1 H2]. rewrite Ea in H1, H2. cbn [fst snd] in *.
    destruct (build n1 c) as [tb n2] eqn:Ec. destruct (Hr n1) as [H3 H4]. rewrite Ec in H3, H4. cbn [fst snd] in *.
    split; [lia|]. rewrite ids_node, H2, H4. subst n1.
    replace (S (ssize a + ssize c)) with (1 + (ssize a + ssize c)) by lia.
    rewrite seq_app. cbn [seq app]. f_equal. rewrite seq_app.
    replace (n + 1) with (S n) by lia. reflexivity.
  - destruct (build (S n) a) as [ta n1] eqn:Ea. destruct (Hl (S n)) as [H1 H2]. rewrite Ea in H1, H2. cbn [fst snd] in *.
    split; [lia|]. rewrite ids_node, H2, app_nil_r. rewrite Nat.add_0_r. reflexivity.
  - destruct (build (S n) c) as [tb n2] eqn:Ec. destruct (Hr (S n)) as [H3 H4]. rewrite Ec in H3, H4. cbn [fst snd] in *.
    split; [lia|]. rewrite ids_node, H4. reflexivity.
  - cbn [fst snd]. split; [lia|]. reflexivity.
Qed.

Theorem tree_of_nodup : forall s, NoDup (ids (tree_of s)).
Proof. intros s. unfold tree_of. destruct (build_spec s 0) as [_ H]. rewrite H. apply seq_NoDup. Qed.

Theorem tree_of_ids : forall s, ids (tree_of s) = seq 0 (ssize s).
Proof. intros s. unfold tree_of. now destruct (build_spec s 0). Qed.


(* ------------------------------------------------------------------ _properties (level-order sweep) *)
(* measurements of a forest (= one level and everything below it) *)
Fixpoint size_f (lv : list tree) : nat := match lv with [] => 0 | t :: r => size t + size_f r end.
Fixpoint leaves_f (lv : list tree) : nat := match lv with [] => 0 | t :: r => leaves t + leaves_f r end.
Fixpoint maxd_f (lv : list tree) : nat :=
  match lv with [] => 0 | t :: r => Nat.max (max_leaf_depth t) (maxd_f r) end.
Fixpoint minf (lv : list tree) : option nat :=
  match lv with
  | [] => None
  | t :: r => Some (match minf r with None => min_leaf_depth t | Some m => Nat.min (min_leaf_depth t) m end)
  end.
Fixpoint count_leaf (lv : list tree) : nat :=
  match lv with [] => 0 | t :: r => (if is_leaf t then 1 else 0) + count_leaf r end.
Definition children_f (lv : list tree) : list tree := flat_map children lv.

Lemma size_f_app : forall a b, size_f (a ++ b) = size_f a + size_f b.
Proof. induction a; intros; simpl; [reflexivity | rewrite IHa; lia]. Qed.
Lemma leaves_f_app : forall a b, leaves_f (a ++ b) = leaves_f a + leaves_f b.
Proof. induction a; intros; simpl; [reflexivity | rewrite IHa; lia]. Qed.
Lemma maxd_f_app : forall a b, maxd_f (a ++ b) = Nat.max (maxd_f a) (maxd_f b).
Proof. induction a; intros; simpl; [reflexivity | rewrite IHa; lia]. Qed.
Lemma minf_app : forall a b, minf (a ++ b) =
  match minf a, minf b with
  | None, x => x
  | Some m, None => Some m
  | Some m, Some k => Some (Nat.min m k)
  end.
Proof.
  induction a as [|t a IH]; intros b; [simpl; now destruct (minf b)|].
  cbn [app minf]. rewrite IH. destruct (minf a), (minf b); f_equal; lia.
Qed.

(* one tree against its children *)
Lemma size_children : forall t, size t = S (size_f (children t)).
Proof. intros [i b [a|] [c|]]; cbn; lia. Qed.
Lemma leaves_children : forall t, leaves t = if is_leaf t then 1 else leaves_f (children t).
Proof. intros [i b [a|] [c|]]; cbn; lia. Qed.
Lemma maxd_children : forall t, max_leaf_depth t = if is_leaf t then 0 else S (maxd_f (children t)).
Proof. intros [i b [a|] [c|]]; cbn; lia. Qed.
Lemma minf_children : forall t, is_leaf t = false ->
  exists m, minf (children t) = Some m /\ min_leaf_depth t = S m.
Proof. intros [i b [a|] [c|]] H; cbn in *; try discriminate; eexists; split; reflexivity. Qed.
Lemma leaf_children : forall t, is_leaf t = true -> children t = [].
Proof. intros [i b [a|] [c|]] H; cbn in *; try discriminate; reflexivity. Qed.
Lemma nonleaf_children : forall t, is_leaf t = false -> children t <> [].
Proof. intros [i b [a|] [c|]] H; cbn in *; try discriminate; intros E; discriminate. Qed.
Lemma leaf_min0 : forall t, is_leaf t = true -> min_leaf_depth t = 0.
Proof. intros [i b [a|] [c|]] H; cbn in *; try discriminate; reflexivity. Qed.

(* one level against the next *)
Lemma size_level : forall lv, size_f lv = length lv + size_f (children_f lv).
Proof.
  induction lv as [|t lv IH]; [reflexivity|].
  unfold children_f in *. cbn [size_f flat_map length]. rewrite size_f_app, IH, size_children. lia.
Qed.

Lemma leaves_level : forall lv, leaves_f lv = count_leaf lv + leaves_f (children_f lv).
Proof.
  induction lv as [|t lv IH]; [reflexivity|].
  unfold children_f in *. cbn [leaves_f flat_map count_leaf]. rewrite leaves_f_app, IH, leaves_children.
  destruct (is_leaf t) eqn:E; [rewrite (leaf_children _ E); simpl |]; lia.
Qed.

Lemma maxd_level : forall lv,
  maxd_f lv = match children_f lv with [] => 0 | _ :: _ => S (maxd_f (children_f lv)) end.
Proof.
  induction lv as [|t lv IH]; [reflexivity|].
  unfold children_f in *. cbn [maxd_f flat_map]. rewrite IH, maxd_children.
  destruct (is_leaf t) eqn:E.
  - rewrite (leaf_children _ E). cbn [app]. destruct (flat_map children lv); cbv iota; lia.
  - pose proof (nonleaf_children _ E) as Hne.
    destruct (children t) as [|c cs] eqn:Ec; [congruence|].
    change ((c :: cs) ++ flat_map children lv) with (c :: (cs ++ flat_map children lv)). cbv iota.
    change (c :: (cs ++ flat_map children lv)) with ((c :: cs) ++ flat_map children lv).
    rewrite maxd_f_app.
    destruct (flat_map children lv); cbv iota; cbn [maxd_f]; lia.
Qed.

Lemma existsb_leaf_false_children : forall lv, lv <> [] -> existsb is_leaf lv = false -> children_f lv <> [].
Proof.
  intros [|t lv] Hne H; [congruence|]. cbn in H. apply orb_false_iff in H. destruct H as [Ht _].
  unfold children_f. cbn [flat_map]. pose proof (nonleaf_children _ Ht).
  destruct (children t); [congruence | discriminate].
Qed.

Lemma minf_level_noleaf : forall lv, lv <> [] -> existsb is_leaf lv = false ->
  exists m, minf (children_f lv) = Some m /\ minf lv = Some (S m).
Proof.
  induction lv as [|t lv IH]; intros Hne H; [congruence|].
  cbn in H. apply orb_false_iff in H. destruct H as [Ht Hlv].
  destruct (minf_children _ Ht) as [mt [Hmt Et]].
  unfold children_f in *. cbn [flat_map minf]. rewrite minf_app, Hmt.
  destruct lv as [|t2 lv2].
  - cbn. eexists; split; [reflexivity | now rewrite Et].
  - destruct (IH ltac:(discriminate) Hlv) as [m [Hm Em]].
    rewrite Hm, Em, Et. eexists; split; [reflexivity | f_equal; lia].
Qed.

Lemma minf_level_leaf : forall lv, existsb is_leaf lv = true -> minf lv = Some 0.
Proof.
  induction lv as [|t lv IH]; intros H; [discriminate|].
  cbn in H. cbn [minf]. destruct (is_leaf t) eqn:Et.
  - rewrite (leaf_min0 _ Et). destruct (minf lv); reflexivity.
  - cbn in H. rewrite (IH H). f_equal. lia.
Qed.

Lemma all_leaves_level : forall lv, children_f lv = [] ->
  size_f lv = length lv /\ leaves_f lv = length lv /\ count_leaf lv = length lv /\ maxd_f lv = 0
  /\ (lv <> [] -> existsb is_leaf lv = true).
Proof.
  intros lv H. pose proof (size_level lv) as H1. pose proof (leaves_level lv) as H2.
  pose proof (maxd_level lv) as H3. rewrite H in *. cbn in H1, H2.
  assert (Hc : count_leaf lv = length lv).
  { clear H1 H2 H3. induction lv as [|t lv IH]; [reflexivity|].
    unfold children_f in *. cbn [flat_map] in H. apply app_eq_nil in H. destruct H as [Ht Hlv].
    cbn [count_leaf length]. rewrite (IH Hlv).
    destruct (is_leaf t) eqn:E; [lia|]. now apply nonleaf_children in E. }
  repeat split; try lia.
  intros Hne. destruct lv as [|t lv]; [congruence|].
  cbn. unfold children_f in H. cbn [flat_map] in H. apply app_eq_nil in H. destruct H as [Ht _].
  destruct (is_leaf t) eqn:E; [reflexivity|]. now apply nonleaf_children in E.
Qed.

(* the inner `for node in nodes` *)
Lemma bfs_fold : forall d lv nn nl md next,
  fold_left (bfs_node d) lv (nn, nl, md, next)
  = (nn + length lv, nl + count_leaf lv,
     (if (Z.eqb md 0) && existsb is_leaf lv then d else md),
     next ++ children_f lv).
Proof.
  intros d. induction lv as [|t lv IH]; intros nn nl md next.
  - cbn. rewrite app_nil_r, andb_false_r. repeat f_equal; lia.
  - cbn [fold_left]. unfold bfs_node at 2.
    replace (match tright t with
             | Some b => match tleft t with Some a => next ++ [a] | None => next end ++ [b]
             | None => match tleft t with Some a => next ++ [a] | None => next end
             end) with (next ++ children t)
      by (destruct t as [i b [a|] [c|]]; cbn; now rewrite <- ?app_assoc, ?app_nil_r).
    rewrite IH. unfold children_f. cbn [flat_map length count_leaf existsb].
    f_equal; [f_equal; [f_equal|]|].
    + lia.
    + destruct (is_leaf t); lia.
    + destruct (is_leaf t); destruct (Z.eqb md 0) eqn:Em; cbn [andb orb]; rewrite ?Em; cbn [andb]; try reflexivity.
      destruct (Z.eqb d 0); destruct (existsb is_leaf lv); reflexivity.
    + now rewrite <- app_assoc.
Qed.

Local Open Scope Z_scope.

Lemma some4 : forall (a a' b b' : nat) (c c' e e' : Z),
  a = a' -> b = b' -> c = c' -> e = e' -> Some (a, b, c, e) = Some (a', b', c', e').
Proof. intros; subst; reflexivity. Qed.


(* the outer `while len(nodes) > 0`, from any level d >= 1 on *)
Lemma bfs_gen : forall fuel lv d nn nl md m,
  lv <> [] -> (maxd_f lv < fuel)%nat -> 1 <= d -> minf lv = Some m ->
  bfs_loop fuel lv (d - 1) nn nl md
  = Some ((nn + size_f lv)%nat, (nl + leaves_f lv)%nat,
          (if Z.eqb md 0 then d + Z.of_nat m else md), d + Z.of_nat (maxd_f lv)).
Proof.
  induction fuel as [|f IH]; intros lv d nn nl md m Hne Hfuel Hd Hm; [lia|].
  destruct lv as [|t0 lv0] eqn:Elv; [congruence|]. rewrite <- Elv in *.
  assert (Hstep : bfs_loop (S f) lv (d - 1) nn nl md =
                  match fold_left (bfs_node (d - 1 + 1)) lv (nn, nl, md, []) with
                  | (nn1, nl1, mind1, next) => bfs_loop f next (d - 1 + 1) nn1 nl1 mind1 end)
    by (rewrite Elv; reflexivity).
  rewrite Hstep. clear Hstep. replace (d - 1 + 1) with d by lia.
  rewrite bfs_fold. cbn [app].
  destruct (children_f lv) as [|c cs] eqn:Ech.
  - (* last level *)
    destruct (all_leaves_level lv Ech) as [H1 [H2 [H3 [H4 H5]]]].
    rewrite (H5 Hne). rewrite (minf_level_leaf _ (H5 Hne)) in Hm. inversion Hm; subst m.
    destruct f; cbn [bfs_loop]; rewrite H1, H2, H3, H4, andb_true_r;
      apply some4; destruct (Z.eqb md 0); lia.
  - rewrite <- Ech in *.
    assert (Hne' : children_f lv <> []) by (rewrite Ech; discriminate).
    pose proof (maxd_level lv) as Hmx. rewrite Ech in Hmx. rewrite <- Ech in Hmx.
    destruct (minf (children_f lv)) as [m'|] eqn:Hm'.
    2:{ rewrite Ech in Hm'. discriminate. }
    replace (bfs_loop f (children_f lv) d) with (bfs_loop f (children_f lv) (d + 1 - 1)) by (f_equal; lia).
    rewrite (IH _ (d + 1) _ _ _ m' Hne' ltac:(lia) ltac:(lia) Hm').
    rewrite (size_level lv), (leaves_level lv), Hmx.
    destruct (existsb is_leaf lv) eqn:Eex.
    + rewrite (minf_level_leaf _ Eex) in Hm. inversion Hm; subst m. rewrite andb_true_r.
      destruct (Z.eqb md 0) eqn:Emd.
      * destruct (Z.eqb d 0) eqn:Ed; [lia|]. apply some4; lia.
      * rewrite Emd. apply some4; lia.
    + destruct (minf_level_noleaf lv Hne Eex) as [m2 [Hm2 Em2]].
      rewrite Hm' in Hm2. inversion Hm2; subst m2. rewrite Hm in Em2. inversion Em2; subst m.
      rewrite andb_false_r. destruct (Z.eqb md 0); apply some4; lia.
Qed.

Lemma maxd_lt_size : forall t, (max_leaf_depth t < size t)%nat.
Proof.
  induction t as [i b l r Hl Hr] using tree_ind2.
  rewrite size_N. destruct l as [a|], r as [c|]; cbn in *; lia.
Qed.

Theorem props_bfs_correct : forall t,
  props_bfs t = Some (size t, leaves t, Z.of_nat (min_leaf_depth t), Z.of_nat (max_leaf_depth t)).
Proof.
  intros t. unfold props_bfs.
  pose proof (maxd_lt_size t) as Hlt.
  destruct (size t) as [|k] eqn:Ek; [lia|].
  assert (Hstep : bfs_loop (S k) [t] (-1) 0 0 0 =
                  match fold_left (bfs_node (-1 + 1)) [t] (0%nat, 0%nat, 0, []) with
                  | (nn1, nl1, mind1, next) => bfs_loop k next (-1 + 1) nn1 nl1 mind1 end) by reflexivity.
  rewrite Hstep. clear Hstep. rewrite bfs_fold. cbn [app Z.add children_f flat_map length count_leaf existsb].
  rewrite app_nil_r, orb_false_r.
  replace (if (0 =? 0) && is_leaf t then 0 else 0) with 0 by (destruct (is_leaf t); reflexivity).
  rewrite (size_children t) in Ek. rewrite (leaves_children t), (maxd_children t) in *.
  destruct (is_leaf t) eqn:El.
  - rewrite (leaf_children _ El) in *. rewrite (leaf_min0 _ El). cbn in Ek.
    destruct k; cbn [bfs_loop]; apply some4; cbn; lia.
  - destruct (minf_children _ El) as [m [Hm Em]].
    pose proof (nonleaf_children _ El) as Hne.
    replace 0 with (1 - 1) at 1 by lia.
    rewrite (bfs_gen k (children t) 1 _ _ _ m Hne ltac:(lia) ltac:(lia) Hm).
    rewrite Em. cbn [Z.eqb]. apply some4; try lia. change (1 - 1) with 0. cbn [Z.eqb andb]. lia.
Qed.
