(* Constructors of SearchSpace / HyperSpace / TreeSpace as a function:
   sizes -> typed error, or a population initialised from a stream of uniform draws. *)
From Coq Require Import ZArith List Bool Lia ZifyBool.
From OV Require Import Base.FloatKey Model.Clip.
Import ListNotations.
Open Scope Z_scope.

(* The Python values a size argument can be, as far as the guards can tell them apart *)
Inductive pyv := PInt (z : Z) | PBool (b : bool) | POther.
Inductive err := TypeErr | ValueErr | SizeErr.

(* isinstance(v, int) -- bool passes, it is an int in Python -- then v <= 0 *)
Definition as_size (v : pyv) : err + nat :=
  match v with
  | PInt z => if z <=? 0 then inl ValueErr else inr (Z.to_nat z)
  | PBool true => inr 1%nat
  | PBool false => inl ValueErr
  | POther => inl TypeErr
  end.

Record magent := { a_pos : contents; a_lb : list okey; a_ub : list okey }.
Record mspace := { s_agents : list magent; s_best : magent; s_lb : list okey; s_ub : list okey }.

Definition zero_agent (nv nd : nat) : magent :=
  {| a_pos := repeat (repeat (Some K0) nd) nv; a_lb := repeat (Some K0) nv; a_ub := repeat (Some K1) nv |}.

(* What T4 extracts from an _initialize_agents body *)
Record in_descr := {
  in_over_agents : bool;
  in_zip_bounds : bool;     (* true: for j,(lb,ub) in enumerate(zip(self.lb,self.ub)); false: for j,_ in enumerate(agent.position) *)
  in_low : bsrc;            (* first argument of the uniform draw (after defaults) *)
  in_high : bsrc;
  in_size_ndim : bool;      (* size=agent.n_dimensions *)
  in_set_lb : bool;         (* agent.lb[j] = lb *)
  in_set_ub : bool
}.

Definition set_nth {A} (l : list A) (j : nat) (x : A) : list A :=
  firstn j l ++ match skipn j l with [] => [] | _ :: t => x :: t end.

(* one agent: rows j = 0.. take the next draw; returns the remaining draws *)
Fixpoint init_rows (d : in_descr) (j : nat) (lbs ubs : list okey) (a : magent) (draws : list (list okey))
  : magent * list (list okey) :=
  match lbs, ubs with
  | l :: lbs', u :: ubs' =>
      if (j <? length (a_pos a))%nat then
        let row := hd [] draws in
        let a' := {| a_pos := set_nth (a_pos a) j row;
                     a_lb := if in_set_lb d then set_nth (a_lb a) j l else a_lb a;
                     a_ub := if in_set_ub d then set_nth (a_ub a) j u else a_ub a |} in
        init_rows d (S j) lbs' ubs' a' (tl draws)
      else (a, draws)
  | _, _ => (a, draws)
  end.

Fixpoint init_agents (d : in_descr) (lbs ubs : list okey) (ags : list magent) (draws : list (list okey))
  : list magent * list (list okey) :=
  match ags with
  | [] => ([], draws)
  | a :: rest =>
      let '(a', dr) :=
        if in_zip_bounds d then init_rows d 0 lbs ubs a draws
        else init_rows d 0 (map (fun _ => None) (a_pos a)) (map (fun _ => None) (a_pos a)) a draws in
      let '(rest', dr') := init_agents d lbs ubs rest dr in
      (a' :: rest', dr')
  end.

Inductive skind := KSearch | KHyper | KTree.

(* Order of the checks is the order of the setters reached by the constructor. *)
Definition space_new (k : skind) (d : in_descr)
           (n_trees n_agents n_vars n_dims n_iters : pyv) (lbs ubs : list okey) (draws : list (list okey))
  : err + mspace :=
  match (match k with KTree => as_size n_trees | _ => inr 1%nat end) with
  | inl e => inl e
  | inr _ =>
  match as_size n_agents with inl e => inl e | inr na =>
  match as_size n_vars with inl e => inl e | inr nv =>
  match as_size n_dims with inl e => inl e | inr nd =>
  match as_size n_iters with inl e => inl e | inr _ =>
    if negb (length lbs =? nv)%nat then inl SizeErr
    else if negb (length ubs =? nv)%nat then inl SizeErr
    else
      let ags := repeat (zero_agent nv nd) na in
      let best := zero_agent nv nd in
      let '(ags', _) := init_agents d lbs ubs ags draws in
      inr {| s_agents := ags'; s_best := best; s_lb := lbs; s_ub := ubs |}
  end end end end end.

(* ------------------------------------------------------------------ theorems *)

Lemma set_nth_length {A} (l : list A) j x : length (set_nth l j x) = length l.
Proof.
  unfold set_nth. rewrite app_length. rewrite <- (firstn_skipn j l) at 3. rewrite app_length. f_equal.
  destruct (skipn j l); reflexivity.
Qed.

Lemma init_rows_poslen d j lbs ubs a dr : length (a_pos (fst (init_rows d j lbs ubs a dr))) = length (a_pos a).
Proof.
  revert j ubs a dr. induction lbs as [|l lbs IH]; intros j [|u ubs] a dr; simpl; try reflexivity.
  destruct (j <? length (a_pos a))%nat; [|reflexivity].
  rewrite IH. simpl. apply set_nth_length.
Qed.

Lemma init_agents_length d lbs ubs ags dr : length (fst (init_agents d lbs ubs ags dr)) = length ags.
Proof.
  revert dr. induction ags as [|a ags IH]; intros dr; simpl; [reflexivity|].
  destruct (if in_zip_bounds d then _ else _) as [a' dr1].
  specialize (IH dr1). destruct (init_agents d lbs ubs ags dr1) as [r dr2]. simpl in *. congruence.
Qed.

(* exactly n_agents agents, or the typed error of the first failing size *)
Theorem space_new_count k d nt na nv nd ni lbs ubs dr sp :
  space_new k d nt na nv nd ni lbs ubs dr = inr sp ->
  exists n, as_size na = inr n /\ length (s_agents sp) = n /\ s_lb sp = lbs /\ s_ub sp = ubs.
Proof.
  unfold space_new. intros H.
  destruct (match k with KTree => as_size nt | _ => inr 1%nat end) as [e0|t0]; [discriminate|].
  destruct (as_size na) as [e1|n]; [discriminate|].
  destruct (as_size nv) as [e2|v]; [discriminate|].
  destruct (as_size nd) as [e3|dd]; [discriminate|].
  destruct (as_size ni) as [e4|it]; [discriminate|].
  destruct (negb (length lbs =? v)%nat); [discriminate|].
  destruct (negb (length ubs =? v)%nat); [discriminate|].
  pose proof (init_agents_length d lbs ubs (repeat (zero_agent v dd) n) dr) as HL.
  destruct (init_agents d lbs ubs (repeat (zero_agent v dd) n) dr) as [ags' dr'].
  injection H as <-. exists n. simpl in *. rewrite repeat_length in HL. auto.
Qed.

Theorem space_new_errors k d nt na nv nd ni lbs ubs dr e :
  space_new k d nt na nv nd ni lbs ubs dr = inl e ->
  (k = KTree /\ as_size nt = inl e) \/ as_size na = inl e \/ as_size nv = inl e \/ as_size nd = inl e \/ as_size ni = inl e \/
  (e = SizeErr /\ exists v, as_size nv = inr v /\ (length lbs <> v \/ length ubs <> v)).
Proof.
  unfold space_new. intros H.
  destruct k; simpl in H.
  1,2: destruct (as_size na) as [e1|n]; [injection H as <-; auto|];
    destruct (as_size nv) as [e2|v]; [injection H as <-; auto|];
    destruct (as_size nd) as [e3|dd]; [injection H as <-; auto 6|];
    destruct (as_size ni) as [e4|it]; [injection H as <-; auto 6|];
    destruct (length lbs =? v)%nat eqn:E1; simpl in H;
    [destruct (length ubs =? v)%nat eqn:E2; simpl in H;
      [destruct (init_agents d lbs ubs (repeat (zero_agent v dd) n) dr); discriminate
      |injection H as <-; do 5 right; split; [reflexivity|exists v; split; [reflexivity|right; lia]]]
    |injection H as <-; do 5 right; split; [reflexivity|exists v; split; [reflexivity|left; lia]]].
  destruct (as_size nt) as [e0|t0]; [injection H as <-; auto|].
  destruct (as_size na) as [e1|n]; [injection H as <-; auto|];
    destruct (as_size nv) as [e2|v]; [injection H as <-; auto|];
    destruct (as_size nd) as [e3|dd]; [injection H as <-; auto 6|];
    destruct (as_size ni) as [e4|it]; [injection H as <-; auto 6|];
    destruct (length lbs =? v)%nat eqn:E1; simpl in H;
    [destruct (length ubs =? v)%nat eqn:E2; simpl in H;
      [destruct (init_agents d lbs ubs (repeat (zero_agent v dd) n) dr); discriminate
      |injection H as <-; do 5 right; split; [reflexivity|exists v; split; [reflexivity|right; lia]]]
    |injection H as <-; do 5 right; split; [reflexivity|exists v; split; [reflexivity|left; lia]]].
Qed.

Lemma as_size_ok v n : as_size v = inr n -> (1 <= n)%nat /\ (v = PBool true \/ exists z, v = PInt z /\ 0 < z).
Proof.
  destruct v as [z|[|]|]; simpl; try discriminate.
  - destruct (z <=? 0) eqn:E; [discriminate|]. intros [= <-]. split; [lia|]. right. exists z. split; [reflexivity|lia].
  - intros [= <-]. split; [lia|]. left; reflexivity.
Qed.

(* ---- the rows of one agent after initialisation: row j is draw j, bounds copied *)

Definition std_init (d : in_descr) : bool :=
  in_over_agents d && in_zip_bounds d && in_size_ndim d && in_set_lb d && in_set_ub d &&
  match in_low d, in_high d with BLoopLb, BLoopUb => true | _, _ => false end.

Definition unit_init (d : in_descr) : bool :=
  in_over_agents d && negb (in_zip_bounds d) && in_size_ndim d && negb (in_set_lb d) && negb (in_set_ub d) &&
  match in_low d, in_high d with
  | BConst (Some a), BConst (Some b) => (a =? K0) && (b =? K1)
  | _, _ => false end.

Lemma set_nth_app_here {A} (pre : list A) y post x : set_nth (pre ++ y :: post) (length pre) x = pre ++ x :: post.
Proof.
  unfold set_nth. rewrite firstn_app, firstn_all, Nat.sub_diag. simpl. rewrite app_nil_r.
  rewrite skipn_app, skipn_all, Nat.sub_diag. reflexivity.
Qed.

Lemma init_rows_spec d : in_set_lb d = true -> in_set_ub d = true ->
  forall lbs ubs pre_p pre_l pre_u post_p post_l post_u draws,
    length lbs = length ubs -> length post_p = length lbs -> length post_l = length lbs -> length post_u = length lbs ->
    length pre_l = length pre_p -> length pre_u = length pre_p ->
    (length lbs <= length draws)%nat ->
    init_rows d (length pre_p) lbs ubs {| a_pos := pre_p ++ post_p; a_lb := pre_l ++ post_l; a_ub := pre_u ++ post_u |} draws
    = ({| a_pos := pre_p ++ firstn (length lbs) draws; a_lb := pre_l ++ lbs; a_ub := pre_u ++ ubs |},
       skipn (length lbs) draws).
Proof.
  intros Hl Hu. induction lbs as [|l lbs IH]; intros [|u ubs] pre_p pre_l pre_u post_p post_l post_u draws
     Hlen Hp Hpl Hpu Hq1 Hq2 Hd; simpl in *; try lia.
  - destruct post_p, post_l, post_u; simpl in *; try lia. rewrite !app_nil_r. reflexivity.
  - destruct post_p as [|p0 post_p]; simpl in *; [lia|].
    destruct post_l as [|l0 post_l]; simpl in *; [lia|].
    destruct post_u as [|u0 post_u]; simpl in *; [lia|].
    destruct draws as [|r draws]; simpl in *; [lia|].
    rewrite app_length. simpl.
    replace (length pre_p <? length pre_p + S (length post_p))%nat with true by lia.
    rewrite Hl, Hu.
    rewrite set_nth_app_here.
    rewrite <- Hq1 at 2. rewrite set_nth_app_here.
    rewrite <- Hq2 at 2. rewrite set_nth_app_here.
    specialize (IH ubs (pre_p ++ [r]) (pre_l ++ [l]) (pre_u ++ [u]) post_p post_l post_u draws).
    rewrite !app_length in IH. simpl in IH.
    replace (length pre_p + 1)%nat with (S (length pre_p)) in IH by lia.
    rewrite <- !app_assoc in IH. simpl in IH.
    rewrite IH by lia. rewrite <- ?app_assoc. reflexivity.
Qed.

(* a freshly initialised agent of a search/tree space: rows are the draws, bounds are the space's *)
Theorem init_agent_std d nv nd lbs ubs draws :
  std_init d = true -> length lbs = nv -> length ubs = nv -> (nv <= length draws)%nat ->
  init_rows d 0 lbs ubs (zero_agent nv nd) draws
  = ({| a_pos := firstn nv draws; a_lb := lbs; a_ub := ubs |}, skipn nv draws).
Proof.
  unfold std_init. intros H Hl Hu Hd.
  repeat (apply andb_true_iff in H as [H ?]).
  pose proof (init_rows_spec d) as S. specialize (S ltac:(assumption) ltac:(assumption)).
  specialize (S lbs ubs [] [] [] (repeat (repeat (Some K0) nd) nv) (repeat (Some K0) nv) (repeat (Some K1) nv) draws).
  simpl in S. unfold zero_agent. rewrite S; rewrite ?repeat_length; try lia.
  subst nv. reflexivity.
Qed.

(* the uniform contract: a draw for variable j lies in [lb_j, ub_j]; then the new position is feasible *)
Theorem init_agent_feasible lbs ubs (rows : contents) :
  feasible lbs ubs rows = true ->
  clip_rows (map Some lbs) (map Some ubs) rows = rows /\ length rows = length lbs.
Proof.
  intros H. split; [apply clip_rows_fix; exact H|]. apply (feasible_length _ _ _ H).
Qed.

(* hypercomplex spaces: rows are drawn, the agent's own bounds stay the unit box it was created with *)
Lemma init_rows_spec_noset d : in_set_lb d = false -> in_set_ub d = false ->
  forall lbs ubs pre_p post_p al au draws,
    length lbs = length ubs -> length post_p = length lbs -> (length lbs <= length draws)%nat ->
    init_rows d (length pre_p) lbs ubs {| a_pos := pre_p ++ post_p; a_lb := al; a_ub := au |} draws
    = ({| a_pos := pre_p ++ firstn (length lbs) draws; a_lb := al; a_ub := au |}, skipn (length lbs) draws).
Proof.
  intros Hl Hu. induction lbs as [|l lbs IH]; intros [|u ubs] pre_p post_p al au draws Hlen Hp Hd; simpl in *; try lia.
  - destruct post_p; simpl in *; try lia. rewrite !app_nil_r. reflexivity.
  - destruct post_p as [|p0 post_p]; simpl in *; [lia|].
    destruct draws as [|r draws]; simpl in *; [lia|].
    rewrite app_length. simpl.
    replace (length pre_p <? length pre_p + S (length post_p))%nat with true by lia.
    rewrite Hl, Hu. rewrite set_nth_app_here.
    specialize (IH ubs (pre_p ++ [r]) post_p al au draws).
    rewrite !app_length in IH. simpl in IH.
    replace (length pre_p + 1)%nat with (S (length pre_p)) in IH by lia.
    rewrite <- !app_assoc in IH. simpl in IH.
    rewrite IH by lia. reflexivity.
Qed.

Theorem init_agent_unit d nv nd draws :
  unit_init d = true -> (nv <= length draws)%nat ->
  init_rows d 0 (map (fun _ => None) (a_pos (zero_agent nv nd))) (map (fun _ => None) (a_pos (zero_agent nv nd))) (zero_agent nv nd) draws
  = ({| a_pos := firstn nv draws; a_lb := repeat (Some K0) nv; a_ub := repeat (Some K1) nv |}, skipn nv draws).
Proof.
  unfold unit_init. intros H Hd.
  repeat (apply andb_true_iff in H as [H ?]).
  pose proof (init_rows_spec_noset d) as S.
  specialize (S ltac:(destruct (in_set_lb d); [discriminate|reflexivity]) ltac:(destruct (in_set_ub d); [discriminate|reflexivity])).
  specialize (S (map (fun _ => None) (a_pos (zero_agent nv nd))) (map (fun _ => None) (a_pos (zero_agent nv nd)))
                [] (repeat (repeat (Some K0) nd) nv) (repeat (Some K0) nv) (repeat (Some K1) nv) draws).
  simpl in S. unfold zero_agent in *. simpl in *. rewrite !map_length, !repeat_length in S.
  rewrite S by lia. reflexivity.
Qed.
