(* M-History: executable model of opytimizer/utils/history.py (History.dump/_parse/get/save/load).

   A History object is its attribute dictionary: an association list  name |-> value  in insertion
   order (Python dicts keep it).  `store_best_only` is an ordinary attribute of that dictionary
   (set first by __init__), every dumped key maps to a [VList] of records.
   Values are nested Python values over float keys (Base/FloatKey.v): numbers, booleans, opaque
   scalar objects (None, Node graphs... identified by a canonical-serialisation id), lists, tuples.

   No proofs here (Model/HistoryProofs.v); everything is executable ([vm_compute] in the
   correspondence run of C19/C04). *)
From Coq Require Import ZArith List Bool String.
From OV Require Import Base.FloatKey.
Import ListNotations.
Open Scope string_scope.
Open Scope Z_scope.

(* ------------------------------------------------------------------ values *)
Inductive val :=
| VNum (k : okey)            (* int / float / np.float64, by float key *)
| VBool (b : bool)
| VObj (id : Z)              (* opaque scalar object; id 0 is None; ids < 0 are markers, see ALIAS *)
| VList (l : list val)
| VTuple (l : list val).

Definition VNone : val := VObj 0.
Definition ALIAS : Z := -1.  (* "a live reference to a mutable array was stored": never a legal record *)

Definition is_seq (v : val) : bool := match v with VList _ | VTuple _ => true | _ => false end.
Definition elems (v : val) : list val := match v with VList l | VTuple l => l | _ => [] end.

Fixpoint val_eqb (a b : val) {struct a} : bool :=
  match a, b with
  | VNum x, VNum y => okey_eqb x y
  | VBool x, VBool y => Bool.eqb x y
  | VObj x, VObj y => x =? y
  | VList x, VList y | VTuple x, VTuple y =>
      (fix go (l1 l2 : list val) {struct l1} : bool :=
         match l1, l2 with
         | [], [] => true
         | u :: t1, w :: t2 => val_eqb u w && go t1 t2
         | _, _ => false
         end) x y
  | _, _ => false
  end.

(* Python truthiness of the `store_best_only` attribute (objects other than None are truthy) *)
Definition truthy (v : val) : bool :=
  match v with
  | VBool b => b
  | VNum (Some k) => negb (nk k =? 0)
  | VNum None => true
  | VObj id => negb (id =? 0)
  | VList l | VTuple l => match l with [] => false | _ => true end
  end.

Definition row_val (r : list okey) : val := VList (map VNum r).
Definition pos_val (c : contents) : val := VList (map row_val c).       (* ndarray.tolist() of a 2-D position *)

(* ------------------------------------------------------------------ dictionaries *)
Definition hist := list (string * val).

Fixpoint lookup (k : string) (h : hist) : option val :=
  match h with
  | [] => None
  | (k', v) :: t => if String.eqb k k' then Some v else lookup k t
  end.

(* d[k] = v : replace in place, else insert at the end *)
Fixpoint set_attr (h : hist) (k : string) (v : val) : hist :=
  match h with
  | [] => [(k, v)]
  | (k', v') :: t => if String.eqb k k' then (k', v) :: t else (k', v') :: set_attr t k v
  end.

Definition dict_update (s f : hist) : hist := fold_left (fun acc p => set_attr acc (fst p) (snd p)) f s.

Definition series (k : string) (h : hist) : list val :=
  match lookup k h with Some (VList l) => l | _ => [] end.

Definition FLAG : string := "store_best_only".
Definition fresh (b : bool) : hist := [(FLAG, VBool b)].                 (* History(store_best_only=b) *)

(* ------------------------------------------------------------------ dump / _parse *)
Definition agent := (contents * okey)%type.                               (* position, fit *)

Inductive inval :=                      (* what a caller hands to dump(k1=v1, ...) *)
| IAgents (l : list agent)              (* a list of Agent objects *)
| IAgent (a : agent)                    (* one Agent object *)
| IArrays (l : list contents)           (* a sequence of 2-D arrays (PSO's local positions) *)
| IVal (v : val).                       (* anything else, stored as given *)

Definition agent_rec (a : agent) : val := VTuple [pos_val (fst a); VNum (snd a)].

Definition HISTORY_KEYS : list string := ["agents"; "best_agent"; "local"].
Definition BEST : string := "best_agent".

Definition mem (k : string) (l : list string) : bool := existsb (String.eqb k) l.

(* History._parse, as written (if / elif chain; falling off the end returns None) *)
Definition parse (k : string) (v : inval) : option val :=
  if String.eqb k "agents" then
    match v with IAgents l => Some (VList (map agent_rec l)) | _ => None end
  else if String.eqb k "best_agent" then
    match v with IAgent a => Some (agent_rec a) | _ => None end
  else if String.eqb k "local" then
    match v with IArrays l => Some (VList (map pos_val l)) | _ => None end
  else Some VNone.

(* the value appended for (k, v) when it is not filtered out; None = untyped exception (outside the model) *)
Definition stored (k : string) (v : inval) : option val :=
  if mem k HISTORY_KEYS then parse k v
  else match v with IVal x => Some x | _ => None end.

(* `continue` filter of dump: k != 'best_agent' and self.store_best_only *)
Definition filtered (flag : val) (k : string) : bool :=
  mem k HISTORY_KEYS && negb (String.eqb k BEST) && truthy flag.

(* hasattr ? getattr(...).append(out) : setattr(..., [out]) *)
Definition store (h : hist) (k : string) (out : val) : option hist :=
  match lookup k h with
  | None => Some (h ++ [(k, VList [out])])%list
  | Some (VList l) => Some (set_attr h k (VList (l ++ [out])%list))
  | Some _ => None                                   (* .append on a non-list: AttributeError *)
  end.

Definition dump1 (h : hist) (k : string) (v : inval) : option hist :=
  if mem k HISTORY_KEYS then
    if negb (String.eqb k BEST) then
      match lookup FLAG h with
      | None => None                                  (* self.store_best_only missing: AttributeError *)
      | Some f => if truthy f then Some h
                  else match parse k v with Some out => store h k out | None => None end
      end
    else match parse k v with Some out => store h k out | None => None end
  else match v with IVal x => store h k x | _ => None end.

Definition kwargs := list (string * inval).

Fixpoint dump (h : hist) (kw : kwargs) : option hist :=        (* one call dump(k1=v1, ...) with kw = the pairs *)
  match kw with
  | [] => Some h
  | (k, v) :: t => match dump1 h k v with Some h' => dump h' t | None => None end
  end.

Fixpoint dumps (h : hist) (l : list kwargs) : option hist :=   (* a sequence of calls *)
  match l with
  | [] => Some h
  | kw :: t => match dump h kw with Some h' => dumps h' t | None => None end
  end.

(* ---- the clause table regenerated from the source (Gen/HistoryDescr.v) and its interpretation *)
Inductive aexpr :=           (* an expression over one agent-like object X *)
| APosCopy                   (* X.position.tolist()  -- a fresh nested list *)
| APosRef                    (* X.position           -- the live array *)
| AFit.                      (* X.fit *)

Inductive pexpr :=           (* the value returned by a _parse clause *)
| PAgentsTuple (es : list aexpr)   (* [(e1(v), e2(v), ...) for v in value] *)
| PAgentTuple (es : list aexpr)    (* (e1(value), e2(value), ...) *)
| PArrays (copy : bool)            (* [v.tolist() for v in value]   /   [v for v in value] *)
| PValue.                          (* value *)

Record hdescr := {
  hd_history_keys : list string;            (* constants.HISTORY_KEYS *)
  hd_member_positive : bool;                (* `k in c.HISTORY_KEYS` guards the parsed branch *)
  hd_filter_key : string;                   (* the literal compared with k in the filter *)
  hd_filter_noteq : bool;                   (* `!=` (true) or `==` (false) *)
  hd_filter_flag_positive : bool;           (* `self.store_best_only` (true) or `not self...` (false) *)
  hd_clauses : list (string * pexpr);       (* _parse's if/elif chain, in order *)
  hd_else_as_given : bool;                  (* else: out = v *)
  hd_create_or_append : bool                (* hasattr ? append : setattr [out] *)
}.

Definition aeval (e : aexpr) (a : agent) : val :=
  match e with APosCopy => pos_val (fst a) | APosRef => VObj ALIAS | AFit => VNum (snd a) end.

Definition peval (p : pexpr) (v : inval) : option val :=
  match p, v with
  | PAgentsTuple es, IAgents l => Some (VList (map (fun a => VTuple (map (fun e => aeval e a) es)) l))
  | PAgentTuple es, IAgent a => Some (VTuple (map (fun e => aeval e a) es))
  | PArrays true, IArrays l => Some (VList (map pos_val l))
  | PArrays false, IArrays l => Some (VList (map (fun _ => VObj ALIAS) l))
  | PValue, IVal x => Some x
  | _, _ => None
  end.

Fixpoint parse_d (cl : list (string * pexpr)) (k : string) (v : inval) : option val :=
  match cl with
  | [] => Some VNone
  | (k', p) :: t => if String.eqb k k' then peval p v else parse_d t k v
  end.

Definition dump1_d (d : hdescr) (h : hist) (k : string) (v : inval) : option hist :=
  if Bool.eqb (mem k (hd_history_keys d)) (hd_member_positive d) then
    let cmp := if hd_filter_noteq d then negb (String.eqb k (hd_filter_key d)) else String.eqb k (hd_filter_key d) in
    if cmp then
      match lookup FLAG h with
      | None => None
      | Some f => if Bool.eqb (truthy f) (hd_filter_flag_positive d) then Some h
                  else match parse_d (hd_clauses d) k v with Some out => store h k out | None => None end
      end
    else match parse_d (hd_clauses d) k v with Some out => store h k out | None => None end
  else if hd_else_as_given d && hd_create_or_append d
       then match v with IVal x => store h k x | _ => None end
       else None.

Fixpoint dump_d (d : hdescr) (h : hist) (kw : kwargs) : option hist :=
  match kw with
  | [] => Some h
  | (k, v) :: t => match dump1_d d h k v with Some h' => dump_d d h' t | None => None end
  end.

Fixpoint dumps_d (d : hdescr) (h : hist) (l : list kwargs) : option hist :=
  match l with
  | [] => Some h
  | kw :: t => match dump_d d h kw with Some h' => dumps_d d h' t | None => None end
  end.

Definition std_descr : hdescr := {|
  hd_history_keys := HISTORY_KEYS;
  hd_member_positive := true;
  hd_filter_key := BEST;
  hd_filter_noteq := true;
  hd_filter_flag_positive := true;
  hd_clauses := [("agents", PAgentsTuple [APosCopy; AFit]);
                 ("best_agent", PAgentTuple [APosCopy; AFit]);
                 ("local", PArrays true)];
  hd_else_as_given := true;
  hd_create_or_append := true |}.

(* decidable equality of descriptors, for the obligation  history_descr = std_descr  *)
Definition aexpr_eqb (a b : aexpr) : bool :=
  match a, b with APosCopy, APosCopy | APosRef, APosRef | AFit, AFit => true | _, _ => false end.
Definition pexpr_eqb (a b : pexpr) : bool :=
  match a, b with
  | PAgentsTuple x, PAgentsTuple y | PAgentTuple x, PAgentTuple y => list_eqb aexpr_eqb x y
  | PArrays x, PArrays y => Bool.eqb x y
  | PValue, PValue => true
  | _, _ => false
  end.

(* ------------------------------------------------------------------ get *)
Inductive err :=
| TypeErr        (* opytimizer.utils.exception.TypeError *)
| SizeErr        (* opytimizer.utils.exception.SizeError *)
| AttrErr        (* builtin AttributeError: no such key *)
| IndexErr       (* builtin IndexError: component out of range *)
| ValueErr.      (* builtin ValueError raised by NumPy (ragged / incompatible pieces in hstack) *)

Inductive res (A : Type) := Ok (a : A) | Err (e : err).
Arguments Ok {A} a.
Arguments Err {A} e.

Inductive pyindex :=
| ITuple (l : list Z)        (* a tuple of ints *)
| INotTuple.                 (* anything that fails isinstance(index, tuple) *)

Fixpoint common_prefix (a b : list nat) : list nat :=
  match a, b with
  | x :: a', y :: b' => if Nat.eqb x y then x :: common_prefix a' b' else []
  | _, _ => []
  end.

(* NumPy's shape discovery for nested sequences: the dimensions on which all branches agree.
   For non-ragged input this is the array's shape; for ragged input it is the shape of the object
   array built by  np.asarray(x, dtype=object)  (the `except ValueError` path of get). *)
Fixpoint shape (v : val) : list nat :=
  match v with
  | VList l | VTuple l =>
      List.length l :: match map shape l with [] => [] | s :: ss => fold_left common_prefix ss s end
  | _ => []
  end.

Definition ndim (v : val) : Z := Z.of_nat (List.length (shape v)).

Definition norm_index (i : Z) (n : nat) : option nat :=
  if (0 <=? i) && (i <? Z.of_nat n) then Some (Z.to_nat i)
  else if (- Z.of_nat n <=? i) && (i <? 0) then Some (Z.to_nat (i + Z.of_nat n))
  else None.

Fixpoint norm_all (idx : list Z) (dims : list nat) : option (list nat) :=
  match idx, dims with
  | [], _ => Some []
  | i :: r, n :: ds =>
      match norm_index i n, norm_all r ds with
      | Some j, Some js => Some (j :: js)
      | _, _ => None
      end
  | _ :: _, [] => None
  end.

Fixpoint descend (idx : list nat) (v : val) : val :=
  match idx with
  | [] => v
  | i :: r => descend r (nth i (elems v) VNone)
  end.

(* np.hstack over the T sliced pieces *)
Definition atleast1 (v : val) : val := if is_seq v then v else VList [v].

Fixpoint regular_at (d : nat) (v : val) {struct d} : bool :=
  match d with
  | O => negb (is_seq v)
  | S d' => is_seq v && forallb (regular_at d') (elems v)
  end.
Definition regular (v : val) : bool := regular_at (List.length (shape v)) v.   (* np.asanyarray(v) does not raise *)

Definition shape_compat1 (s s0 : list nat) : bool :=     (* equal except along axis 1 *)
  match s, s0 with
  | a :: _ :: r, a0 :: _ :: r0 => Nat.eqb a a0 && list_eqb Nat.eqb r r0
  | _, _ => false
  end.

Definition hcat (arrs : list val) (n0 : nat) : list val :=
  map (fun r => VList (List.concat (map (fun a => elems (nth r (elems a) VNone)) arrs))) (seq 0 n0).

Definition hstack (l : list val) : res val :=
  let arrs := map atleast1 l in
  if negb (forallb regular arrs) then Err ValueErr else
  match arrs with
  | [] => Err ValueErr
  | a0 :: _ =>
      let s0 := shape a0 in
      if Nat.eqb (List.length s0) 1 then
        if forallb (fun a => Nat.eqb (List.length (shape a)) 1) arrs
        then Ok (VList (List.concat (map elems arrs))) else Err ValueErr
      else
        if forallb (fun a => shape_compat1 (shape a) s0) arrs
        then Ok (VList (hcat arrs (hd O s0))) else Err ValueErr
  end.

Definition get (h : hist) (key : string) (index : pyindex) : res val :=
  match index with
  | INotTuple => Err TypeErr                                  (* checked first *)
  | ITuple idx =>
      match lookup key h with
      | None => Err AttrErr
      | Some a =>
          if negb (ndim a - 1 =? Z.of_nat (List.length idx)) then Err SizeErr     (* before any slicing *)
          else match norm_all idx (tl (shape a)) with
               | None => Err IndexErr
               | Some nidx => hstack (map (descend nidx) (elems a))
               end
      end
  end.

(* ------------------------------------------------------------------ save / load *)
Definition load (s file : hist) : hist := dict_update s file.      (* self.__dict__.update(h.__dict__) *)

Section Pickle.
  Variable bytes : Type.
  Variable pickle : hist -> bytes.
  Variable unpickle : bytes -> hist.
  Definition save (h : hist) : bytes := pickle h.
  Definition load_file (s : hist) (f : bytes) : hist := load s (unpickle f).
End Pickle.

(* ------------------------------------------------------------------ helpers for cases files *)
Definition res_eqb (a b : res val) : bool :=
  match a, b with
  | Ok x, Ok y => val_eqb x y
  | Err TypeErr, Err TypeErr | Err SizeErr, Err SizeErr | Err AttrErr, Err AttrErr
  | Err IndexErr, Err IndexErr | Err ValueErr, Err ValueErr => true
  | _, _ => false
  end.

Fixpoint hist_eqb (a b : hist) : bool :=
  match a, b with
  | [], [] => true
  | (k, v) :: t, (k', v') :: t' => String.eqb k k' && val_eqb v v' && hist_eqb t t'
  | _, _ => false
  end.

Definition ohist_eqb (a : option hist) (b : option hist) : bool :=
  match a, b with Some x, Some y => hist_eqb x y | None, None => true | _, _ => false end.

(* ------------------------------------------------------------------ get / save / load as regenerated from the source
   The statement sequences of History.get, History.save and History.load as data (Gen/HistoryDescr.v:
   get_descr, save_descr, load_descr, regenerated by translate/t4_history.py on every check), the
   descriptors the hand-written model functions implement (model_*_descr), and interpreters.
   [None] = the sequence is outside the interpreted vocabulary (never a value of the model). *)
Inductive libexc := LTypeError | LSizeError | LValueError | LArgumentError | LBuildError.   (* utils/exception.py *)

Inductive mpart :=               (* pieces of the exception message (a literal or an f-string) *)
| MStr (s : string)
| MLenIndex                      (* {len(index)} *)
| MNdim.                         (* {<array>.ndim} *)

Inductive gterm :=
| TNdim (off : Z)                (* <array>.ndim + off *)
| TLenIndex.                     (* len(index) *)

Inductive gcmp := CEq | CNe | CLt | CLe | CGt | CGe.

Inductive spart :=               (* operands of the tuple concatenation used as subscript *)
| SAll                           (* (slice(None),) *)
| SIndex.                        (* index *)

Inductive gstmt :=
| GGuardNotTuple (exc : libexc) (msg : list mpart)      (* if not isinstance(index, tuple): raise e.<exc>(msg) *)
| GAsArray (catch : string) (fallback_object : bool)    (* try: a = np.asarray(getattr(self, key))
                                                           except <catch>: a = np.asarray(getattr(self, key), dtype=object) *)
| GGuardSize (l : gterm) (op : gcmp) (r : gterm) (exc : libexc) (msg : list mpart)   (* if l op r: raise e.<exc>(msg) *)
| GSlice (parts : list spart)                           (* a = a[p1 + p2 + ...] *)
| GStack (fn : string)                                  (* a = np.<fn>(a) *)
| GReturn.                                              (* return a *)

Definition gdescr := list gstmt.

Definition model_get_descr : gdescr :=
  [ GGuardNotTuple LTypeError [MStr "`index` should be a tuple"];
    GAsArray "ValueError" true;
    GGuardSize (TNdim (-1)) CNe TLenIndex LSizeError
      [MStr "`index` = "; MLenIndex; MStr " should have one less dimension than `key` = "; MNdim];
    GSlice [SAll; SIndex];
    GStack "hstack";
    GReturn ].

Definition exc_err (e : libexc) : option err :=
  match e with LTypeError => Some TypeErr | LSizeError => Some SizeErr | _ => None end.

Definition cmp_eval (op : gcmp) (x y : Z) : bool :=
  match op with
  | CEq => x =? y | CNe => negb (x =? y) | CLt => x <? y | CLe => x <=? y | CGt => y <? x | CGe => y <=? x
  end.

Inductive gstate := GS0 | GSArr (a : val) | GSPieces (l : list val) | GSOut (v : val).

Definition raise_lib (e : libexc) : option (res val) :=
  match exc_err e with Some x => Some (Err x) | None => None end.

Fixpoint get_run (d : gdescr) (h : hist) (key : string) (index : pyindex) (st : gstate) : option (res val) :=
  match d with
  | [] => None
  | s :: t =>
      match s, st, index with
      | GGuardNotTuple exc _, _, INotTuple => raise_lib exc
      | GGuardNotTuple _ _, _, ITuple _ => get_run t h key index st
      | GAsArray catch fb, GS0, _ =>
          match lookup key h with
          | None => Some (Err AttrErr)
          | Some a => if regular a || (String.eqb catch "ValueError" && fb)
                      then get_run t h key index (GSArr a) else Some (Err ValueErr)
          end
      | GGuardSize l op r exc _, GSArr a, ITuple idx =>
          let ev := fun g => match g with TNdim off => ndim a + off | TLenIndex => Z.of_nat (List.length idx) end in
          if cmp_eval op (ev l) (ev r) then raise_lib exc else get_run t h key index st
      | GSlice [SAll; SIndex], GSArr a, ITuple idx =>
          match norm_all idx (tl (shape a)) with
          | None => Some (Err IndexErr)
          | Some nidx => get_run t h key index (GSPieces (map (descend nidx) (elems a)))
          end
      | GStack fn, GSPieces l, _ =>
          if String.eqb fn "hstack"
          then match hstack l with Ok v => get_run t h key index (GSOut v) | Err e => Some (Err e) end
          else None
      | GReturn, GSOut v, _ => Some (Ok v)
      | _, _, _ => None
      end
  end.

Definition get_d (d : gdescr) (h : hist) (key : string) (index : pyindex) : option (res val) :=
  get_run d h key index GS0.

(* ---- save / load *)
Inductive ioobj := OSelf | OLoaded.           (* the History itself / the unpickled object h *)
Inductive iostmt :=
| IOOpen (mode : string)                      (* with open(file_name, mode) as f: *)
| IOPickleDump (o : ioobj)                    (* pickle.dump(<o>, f) *)
| IOPickleLoad                                (* h = pickle.load(f) *)
| IODictUpdate (target source : ioobj).       (* <target>.__dict__.update(<source>.__dict__) *)

Definition model_save_descr : list iostmt := [IOOpen "wb"; IOPickleDump OSelf].
Definition model_load_descr : list iostmt := [IOOpen "rb"; IOPickleLoad; IODictUpdate OSelf OLoaded].

Section PickleDescr.
  Variable bytes : Type.
  Variable pickle : hist -> bytes.
  Variable unpickle : bytes -> hist.

  (* 'wb' truncates: the file afterwards is exactly what was dumped *)
  Definition save_d (d : list iostmt) (h : hist) : option bytes :=
    match d with
    | [IOOpen m; IOPickleDump OSelf] => if String.eqb m "wb" then Some (pickle h) else None
    | _ => None
    end.

  Fixpoint load_steps (d : list iostmt) (f : bytes) (self : hist) (loaded : option hist) : option hist :=
    match d with
    | [] => Some self
    | IOPickleLoad :: t => load_steps t f self (Some (unpickle f))
    | IODictUpdate OSelf OLoaded :: t =>
        match loaded with Some l => load_steps t f (dict_update self l) loaded | None => None end
    | IODictUpdate OLoaded OSelf :: t =>
        match loaded with Some l => load_steps t f self (Some (dict_update l self)) | None => None end
    | IODictUpdate OSelf OSelf :: t => load_steps t f (dict_update self self) loaded
    | IODictUpdate OLoaded OLoaded :: t =>
        match loaded with Some l => load_steps t f self (Some (dict_update l l)) | None => None end
    | _ :: _ => None
    end.

  Definition load_d (d : list iostmt) (s : hist) (f : bytes) : option hist :=
    match d with
    | IOOpen m :: t => if String.eqb m "rb" then load_steps t f s None else None
    | _ => None
    end.
End PickleDescr.
