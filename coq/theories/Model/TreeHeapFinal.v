(* Final forms of the C08 / C09 theorems, generic in the arity table [tab] (Props/C08.v and Props/C09.v
   instantiate it with the table regenerated from utils/constants.py). *)
From Coq Require Import List Arith Bool Lia ZArith Permutation.
From OV Require Import Model.TreeDef Model.TreeHeap.
From OV Require Import Model.TreeHeapBase Model.TreeHeapSlot Model.TreeHeapCopy Model.TreeHeapGrow Model.TreeHeapOps Model.TreeHeapPop Model.TreeHeapSpec.
Import ListNotations.

Definition tab_ok (tab : list nat) : Prop := forall op a, nth_error tab op = Some a -> a = 1 \/ a = 2.
Definition funs_ok (tab funs : list nat) : Prop := forall op, In op funs -> op < length tab.

Lemma arity_ok_of : forall tab nt funs d0, tab_ok tab -> funs_ok tab funs -> arity_ok (mkEnv nt funs tab d0).
Proof.
  intros tab nt funs d0 Ht Hf op Hop. simpl in *. apply Hf in Hop.
  destruct (nth_error tab op) as [a|] eqn:Ea.
  - destruct (Ht op a Ea); subst; auto.
  - apply nth_error_None in Ea. lia.
Qed.

Section Final.
Variable tab : list nat.
Hypothesis Htab : tab_ok tab.

(* C08: grow *)
Theorem grow_wf : forall nt funs d0 d ds st r st' ds',
  funs_ok tab funs -> nt <= narr st ->
  grow (mkEnv nt funs tab d0) d ds st = Ok (r, st', ds') ->
  heap_ext st st' /\
  exists t, abs st' r = Some t /\ tid t = r /\ WFt tab st' t /\
    (forall i, In i (ids t) -> length (cells st) <= i < length (cells st')) /\
    height t <= S d /\ (forall k, In (Term k) (labels t) -> k < nt).
Proof.
  intros nt funs d0 d ds st r st' ds' Hf Hnt Hg.
  pose proof (grow_grown _ (arity_ok_of tab nt funs d0 Htab Hf) _ _ _ _ _ _ Hnt Hg)
    as (A & B & t & C & D & F & G & H & I & _).
  split; auto. exists t. split. { rewrite <- C. apply (abs_WFt tab). split; auto. }
  repeat split; auto; apply G; auto.
Qed.

(* freshly grown trees are no deeper than max_depth: grow(min_depth, max_depth) runs with budget max - min *)
Theorem grow_depth : forall nt funs d0 mn mx ds st r st' ds',
  funs_ok tab funs -> nt <= narr st -> 1 <= mn <= mx ->
  grow (mkEnv nt funs tab d0) (mx - mn) ds st = Ok (r, st', ds') ->
  exists t, abs st' r = Some t /\ height t <= mx.
Proof.
  intros nt funs d0 mn mx ds st r st' ds' Hf Hnt Hm Hg.
  destruct (grow_wf _ _ _ _ _ _ _ _ _ Hf Hnt Hg) as (_ & t & A & _ & _ & _ & H & _). exists t. split; auto. lia.
Qed.

(* C08: deepcopy (the best tree is a deep copy) *)
Theorem deepcopy_wf : forall st t, WFt tab st t ->
  exists r st' t', deepcopy st (tid t) = Ok (r, st') /\ heap_ext st st' /\ abs st' r = Some t' /\ WFt tab st' t' /\
    erase t' = erase t /\ (forall i, In i (ids t') -> length (cells st) <= i < length (cells st')).
Proof.
  intros st t HW. destruct (deepcopy_fresh tab st t HW) as (st' & A & B & (C & D & F)).
  exists (copy_ren st t (tid t)), st', (rename (copy_ren st t) t). split; auto. split; auto.
  split. { rewrite <- C. apply (abs_WFt tab). auto. }
  split; auto. split; auto. apply erase_rename.
Qed.

(* C08: the result of _mutate is a fresh well-formed tree *)
Theorem mutate_wf : forall nt funs d0 st t maxn ds m st' ds',
  funs_ok tab funs -> nt <= narr st -> WFt tab st t ->
  mutate (mkEnv nt funs tab d0) st (tid t) maxn ds = Ok (m, st', ds') ->
  heap_ext st st' /\ exists tm, abs st' m = Some tm /\ WFt tab st' tm /\
    (forall i, In i (ids tm) -> length (cells st) <= i < length (cells st')).
Proof.
  intros nt funs d0 st t maxn ds m st' ds' Hf Hnt HW Hm.
  destruct (mutate_post _ (arity_ok_of tab nt funs d0 Htab Hf) _ _ _ _ _ _ _ Hnt HW Hm) as (A & tm & (B & C & D) & _).
  split; auto. exists tm. split. { rewrite <- B. apply (abs_WFt tab). auto. } auto.
Qed.

(* C08: the two results of _cross are fresh well-formed trees sharing no node *)
Theorem cross_wf : forall st tf tm maxf maxm ds fo mo st' ds',
  WFt tab st tf -> WFt tab st tm ->
  cross st (tid tf) (tid tm) maxf maxm ds = Ok (fo, mo, st', ds') ->
  heap_ext st st' /\ exists tfo tmo, abs st' fo = Some tfo /\ abs st' mo = Some tmo /\
    WFt tab st' tfo /\ WFt tab st' tmo /\ NoDup (ids tfo ++ ids tmo) /\
    (forall i, In i (ids tfo ++ ids tmo) -> length (cells st) <= i < length (cells st')).
Proof.
  intros st tf tm maxf maxm ds fo mo st' ds' HWf HWm Hc.
  destruct (cross_post tab _ _ _ _ _ _ _ _ _ _ HWf HWm Hc) as (A & tfo & tmo & (B1 & B2 & B3) & (C1 & C2 & C3) & D & _).
  split; auto. exists tfo, tmo.
  split. { rewrite <- B1. apply (abs_WFt tab). auto. }
  split. { rewrite <- C1. apply (abs_WFt tab). auto. }
  split; auto. split; auto. split.
  - apply NoDup_app_iff. destruct B2, C2. auto.
  - intros i Hi. apply in_app_or in Hi. destruct Hi; auto.
Qed.

End Final.

(* WF is not vacuous in the other direction: a child whose stored parent link is missing is rejected *)
Definition bad_heap : hstate :=
  mkH [mkCell (Fun 4) (Some 1) None None true None; mkCell (Term 0) None None None true (Some 0)] 1.

Lemma wf_rejects_missing_parent_link : forall tab, ~ WF tab bad_heap 0.
Proof.
  intros tab (t & Ht & (HR & _)). destruct t as [i lab l r]. simpl in Ht. subst i.
  destruct HR as (c & Hg & _ & Hl & _ & _ & _ & _ & HRl & _). unfold get in Hg. simpl in Hg. inversion Hg; subst c.
  simpl in Hl. destruct l as [a|]; [|discriminate]. simpl in Hl. inversion Hl as [Ha].
  destruct a as [j lab' l' r']. simpl in Ha. subst j.
  destruct HRl as (c' & Hg' & _ & _ & _ & Hp & _). unfold get in Hg'. simpl in Hg'. inversion Hg'; subst c'.
  simpl in Hp. discriminate.
Qed.
