(* C11 -- coherence of the four measurements of a tree (n_nodes, n_leaves, min_depth, max_depth),
   for every tree, with no bound on size or depth (unary nodes allowed, as in core/node.py):
     1 <= leaves <= size;  min_depth <= max_depth < size;  leaves <= 2^max_depth;
     size < 2^(max_depth+1);  size = 1 <-> the root is a leaf <-> max_depth = 0.
   Together with props_bfs_correct these are facts about the numbers the level-order sweep reports. *)
From Coq Require Import List Arith Bool ZArith Lia.
From OV Require Import Model.TreeDef Model.TreeAlgo Model.TreeAlgoProofs.
Import ListNotations.

Lemma leaves_pos : forall t, 1 <= leaves t.
Proof.
  induction t as [i b l r Hl Hr] using tree_ind2.
  destruct l as [a|], r as [c|]; simpl in *; lia.
Qed.

Lemma leaves_le_size : forall t, leaves t <= size t.
Proof.
  induction t as [i b l r Hl Hr] using tree_ind2.
  destruct l as [a|], r as [c|]; simpl in *; lia.
Qed.

Lemma min_le_max_depth : forall t, min_leaf_depth t <= max_leaf_depth t.
Proof.
  induction t as [i b l r Hl Hr] using tree_ind2.
  destruct l as [a|], r as [c|]; simpl in *; lia.
Qed.

Lemma max_depth_lt_size : forall t, max_leaf_depth t < size t.
Proof.
  induction t as [i b l r Hl Hr] using tree_ind2.
  destruct l as [a|], r as [c|]; simpl in *; lia.
Qed.

Lemma pow2_mono a b : a <= b -> 2 ^ a <= 2 ^ b.
Proof. apply Nat.pow_le_mono_r. lia. Qed.

Lemma leaves_le_pow2 : forall t, leaves t <= 2 ^ max_leaf_depth t.
Proof.
  induction t as [i b l r Hl Hr] using tree_ind2.
  destruct l as [a|], r as [c|]; cbn [optP] in *.
  - change (leaves a + leaves c <= 2 ^ S (Nat.max (max_leaf_depth a) (max_leaf_depth c))).
    pose proof (pow2_mono _ _ (Nat.le_max_l (max_leaf_depth a) (max_leaf_depth c))).
    pose proof (pow2_mono _ _ (Nat.le_max_r (max_leaf_depth a) (max_leaf_depth c))).
    rewrite Nat.pow_succ_r'. lia.
  - change (leaves a + 0 <= 2 ^ S (Nat.max (max_leaf_depth a) 0)).
    rewrite Nat.max_0_r, Nat.pow_succ_r'. lia.
  - change (0 + leaves c <= 2 ^ S (Nat.max 0 (max_leaf_depth c))).
    rewrite Nat.max_0_l, Nat.pow_succ_r'. lia.
  - simpl. lia.
Qed.

Lemma size_lt_pow2 : forall t, S (size t) <= 2 ^ S (max_leaf_depth t).
Proof.
  induction t as [i b l r Hl Hr] using tree_ind2.
  destruct l as [a|], r as [c|]; cbn [optP] in *.
  - change (S (S (size a + size c)) <= 2 ^ S (S (Nat.max (max_leaf_depth a) (max_leaf_depth c)))).
    pose proof (pow2_mono _ _ (le_n_S _ _ (Nat.le_max_l (max_leaf_depth a) (max_leaf_depth c)))).
    pose proof (pow2_mono _ _ (le_n_S _ _ (Nat.le_max_r (max_leaf_depth a) (max_leaf_depth c)))).
    rewrite (Nat.pow_succ_r' 2 (S _)). lia.
  - change (S (S (size a + 0)) <= 2 ^ S (S (Nat.max (max_leaf_depth a) 0))).
    rewrite Nat.max_0_r, (Nat.pow_succ_r' 2 (S _)). lia.
  - change (S (S (0 + size c)) <= 2 ^ S (S (Nat.max 0 (max_leaf_depth c)))).
    rewrite Nat.max_0_l, (Nat.pow_succ_r' 2 (S _)). lia.
  - simpl. lia.
Qed.

Lemma size_pos : forall t, 1 <= size t.
Proof. destruct t; simpl; lia. Qed.

Lemma size_one_iff_leaf : forall t, size t = 1 <-> is_leaf t = true.
Proof.
  destruct t as [i b [a|] [c|]]; simpl; pose proof size_pos as P; split; intros H;
    try discriminate; try reflexivity;
    try (pose proof (P a)); try (pose proof (P c)); lia.
Qed.

Lemma max_depth_zero_iff_leaf : forall t, max_leaf_depth t = 0 <-> is_leaf t = true.
Proof. destruct t as [i b [a|] [c|]]; simpl; split; intros H; try discriminate; reflexivity. Qed.

(* the numbers reported by the level-order sweep are mutually consistent *)
Theorem props_bfs_coherent : forall t n lv mn mx, props_bfs t = Some (n, lv, mn, mx) ->
  1 <= lv /\ lv <= n /\ (0 <= mn <= mx)%Z /\ (mx < Z.of_nat n)%Z /\
  lv <= 2 ^ Z.to_nat mx /\ S n <= 2 ^ S (Z.to_nat mx).
Proof.
  intros t n lv mn mx H. rewrite props_bfs_correct in H. injection H as <- <- <- <-.
  rewrite Nat2Z.id.
  pose proof (leaves_pos t). pose proof (leaves_le_size t). pose proof (min_le_max_depth t).
  pose proof (max_depth_lt_size t). pose proof (leaves_le_pow2 t). pose proof (size_lt_pow2 t).
  repeat split; try assumption; lia.
Qed.
