(* Lemmas about Model/History.v: dump (C04, C19), get, load/save (C19). *)
From Coq Require Import ZArith List Bool String Lia.
From OV Require Import Base.FloatKey Model.History.
Import ListNotations.
Open Scope string_scope.
Open Scope list_scope.

Notation len := List.length.

(* ================================================================== dictionaries *)
Lemma lookup_set_same k v h : lookup k (set_attr h k v) = Some v.
Proof.
  induction h as [|[k' v'] t IH]; simpl.
  - now rewrite String.eqb_refl.
  - destruct (String.eqb k k') eqn:E; simpl; rewrite E; auto.
Qed.

Lemma lookup_set_other k k' v h : k' <> k -> lookup k' (set_attr h k v) = lookup k' h.
Proof.
  intros N. induction h as [|[k0 v0] t IH]; simpl.
  - apply String.eqb_neq in N. now rewrite N.
  - destruct (String.eqb k k0) eqn:E; simpl.
    + apply String.eqb_eq in E; subst k0. apply String.eqb_neq in N. now rewrite N.
    + destruct (String.eqb k' k0); auto.
Qed.

Lemma lookup_app_same k v h : lookup k h = None -> lookup k (h ++ [(k, v)]) = Some v.
Proof.
  induction h as [|[k0 v0] t IH]; simpl; intros H.
  - now rewrite String.eqb_refl.
  - destruct (String.eqb k k0); [discriminate | auto].
Qed.

Lemma lookup_app_other k k' v h : k' <> k -> lookup k' (h ++ [(k, v)]) = lookup k' h.
Proof.
  intros N. induction h as [|[k0 v0] t IH]; simpl.
  - apply String.eqb_neq in N. now rewrite N.
  - destruct (String.eqb k' k0); auto.
Qed.

Lemma set_attr_absent k v h : lookup k h = None -> set_attr h k v = h ++ [(k, v)].
Proof.
  induction h as [|[k0 v0] t IH]; simpl; intros H; auto.
  destruct (String.eqb k k0); [discriminate | now rewrite IH].
Qed.

Lemma lookup_none_notin k h : lookup k h = None <-> ~ In k (map fst h).
Proof.
  induction h as [|[k0 v0] t IH]; simpl; [tauto|].
  destruct (String.eqb k k0) eqn:E.
  - apply String.eqb_eq in E; subst. split; [discriminate | intros H; exfalso; apply H; now left].
  - apply String.eqb_neq in E. rewrite IH. split; intros H; [intros [A|A]; [congruence | tauto] | tauto].
Qed.

(* ================================================================== store / dump1 *)
Definition list_or_absent (k : string) (h : hist) : Prop :=
  match lookup k h with None | Some (VList _) => True | Some _ => False end.

Lemma store_spec h k out : list_or_absent k h ->
  exists h', store h k out = Some h' /\
             lookup k h' = Some (VList (series k h ++ [out])) /\
             (forall k', k' <> k -> lookup k' h' = lookup k' h).
Proof.
  unfold list_or_absent, store, series. destruct (lookup k h) as [[| | |l|]|] eqn:E; intros W; try contradiction.
  - eexists; split; [reflexivity|]. split; [apply lookup_set_same | intros; now apply lookup_set_other].
  - eexists; split; [reflexivity|]. split; [now apply lookup_app_same | intros; now apply lookup_app_other].
Qed.

Lemma store_inv h k out h' : store h k out = Some h' ->
  lookup k h' = Some (VList (series k h ++ [out])) /\ (forall k', k' <> k -> lookup k' h' = lookup k' h).
Proof.
  intros H. assert (W : list_or_absent k h).
  { unfold list_or_absent. unfold store in H. destruct (lookup k h) as [[| | |l|]|]; try discriminate; exact I. }
  destruct (store_spec h k out W) as [h2 [E R]]. rewrite H in E. injection E as <-. exact R.
Qed.

Definition kept (f : val) (k : string) : bool := negb (filtered f k).

(* what one (key, value) pair contributes to the series of key k' *)
Definition contrib (f : val) (k' : string) (p : string * inval) : list val :=
  if String.eqb k' (fst p) && kept f (fst p)
  then match stored (fst p) (snd p) with Some o => [o] | None => [] end
  else [].

Definition spec_series (f : val) (k' : string) (kw : kwargs) : list val := flat_map (contrib f k') kw.

Lemma dump1_cases h k v f : lookup FLAG h = Some f ->
  dump1 h k v = if filtered f k then Some h
                else match stored k v with Some o => store h k o | None => None end.
Proof.
  intros F. unfold dump1, filtered, stored. destruct (mem k HISTORY_KEYS); simpl.
  - destruct (String.eqb k BEST); simpl; [reflexivity|]. rewrite F. destruct (truthy f); reflexivity.
  - destruct v; reflexivity.
Qed.

Definition wf (f : val) (h : hist) : Prop :=
  lookup FLAG h = Some f /\ forall k, k <> FLAG -> list_or_absent k h.

Lemma series_of_lookup k h l : lookup k h = Some (VList l) -> series k h = l.
Proof. unfold series. now intros ->. Qed.

Lemma dump1_spec h k v f o : wf f h -> k <> FLAG -> stored k v = Some o ->
  exists h', dump1 h k v = Some h' /\ wf f h' /\
    (forall k', series k' h' = series k' h ++ contrib f k' (k, v)) /\
    (forall k', lookup k' h' = None <-> lookup k' h = None /\ contrib f k' (k, v) = []).
Proof.
  intros [F W] NK ST. rewrite (dump1_cases h k v f F). unfold contrib, kept; simpl. rewrite ST.
  destruct (filtered f k) eqn:Fi; simpl.
  - exists h. split; [reflexivity|]. split; [split; assumption|]. split.
    + intros k'. rewrite andb_false_r. now rewrite app_nil_r.
    + intros k'. rewrite andb_false_r. tauto.
  - destruct (store_spec h k o (W k NK)) as [h' [E [S1 S2]]]. exists h'. split; [exact E|]. split; [|split].
    + split.
      * rewrite S2; auto.
      * intros k0 N0. unfold list_or_absent. destruct (string_dec k0 k) as [->|D].
        -- now rewrite S1.
        -- rewrite S2 by exact D. apply W; exact N0.
    + intros k'. rewrite andb_true_r. destruct (String.eqb k' k) eqn:E'.
      * apply String.eqb_eq in E'; subst k'. now rewrite (series_of_lookup _ _ _ S1).
      * apply String.eqb_neq in E'. unfold series. rewrite S2 by exact E'. now rewrite app_nil_r.
    + intros k'. rewrite andb_true_r. destruct (String.eqb k' k) eqn:E'.
      * apply String.eqb_eq in E'; subst k'. rewrite S1. split; [discriminate | intros [_ A]; discriminate].
      * apply String.eqb_neq in E'. rewrite S2 by exact E'. tauto.
Qed.

Definition pairs_ok (kw : kwargs) : Prop :=
  Forall (fun p => fst p <> FLAG /\ stored (fst p) (snd p) <> None) kw.

Theorem dump_pairs_spec : forall kw h f, wf f h -> pairs_ok kw ->
  exists h', dump h kw = Some h' /\ wf f h' /\
    (forall k, series k h' = series k h ++ spec_series f k kw) /\
    (forall k, lookup k h' = None <-> lookup k h = None /\ spec_series f k kw = []).
Proof.
  induction kw as [|[k v] t IH]; intros h f W P.
  - exists h. simpl. split; [reflexivity|]. split; [exact W|]. split; intros; [now rewrite app_nil_r | tauto].
  - inversion P as [|x l [NK ST] Pt]; subst. simpl in NK, ST.
    destruct (stored k v) as [o|] eqn:So; [|congruence].
    destruct (dump1_spec h k v f o W NK So) as [h1 [D1 [W1 [S1 L1]]]].
    destruct (IH h1 f W1 Pt) as [h2 [D2 [W2 [S2 L2]]]].
    exists h2. simpl. rewrite D1. split; [exact D2|]. split; [exact W2|]. split.
    + intros k'. rewrite S2, S1. unfold spec_series. simpl. now rewrite app_assoc.
    + intros k'. rewrite L2, L1. unfold spec_series; simpl.
      split.
      * intros [[A B] C]. split; [exact A|]. now rewrite B, C.
      * intros [A B]. apply app_eq_nil in B. tauto.
Qed.

Lemma dump_app a b h : dump h (a ++ b) = match dump h a with Some h' => dump h' b | None => None end.
Proof.
  revert h. induction a as [|[k v] t IH]; intros h; simpl; [reflexivity|].
  destruct (dump1 h k v); auto.
Qed.

Lemma dumps_concat l : forall h, dumps h l = dump h (List.concat l).
Proof.
  induction l as [|kw t IH]; intros h; simpl; [reflexivity|].
  rewrite dump_app. destruct (dump h kw); auto.
Qed.

Lemma wf_fresh b : wf (VBool b) (fresh b).
Proof.
  split; [reflexivity|]. intros k N. unfold list_or_absent, fresh. simpl.
  apply String.eqb_neq in N. unfold FLAG in *. now rewrite N.
Qed.

Lemma pairs_ok_concat l : Forall pairs_ok l -> pairs_ok (List.concat l).
Proof.
  induction 1; simpl; [constructor|]. apply Forall_app; split; assumption.
Qed.

Lemma spec_series_concat f k l : spec_series f k (List.concat l) = List.concat (map (spec_series f k) l).
Proof.
  unfold spec_series. induction l as [|a t IH]; simpl; [reflexivity|]. now rewrite flat_map_app, IH.
Qed.

(* general form: any sequence of dumps, any keys *)
Theorem dumps_spec : forall l h f, wf f h -> Forall pairs_ok l ->
  exists h', dumps h l = Some h' /\ wf f h' /\
    (forall k, series k h' = series k h ++ List.concat (map (spec_series f k) l)) /\
    (forall k, lookup k h' = None <-> lookup k h = None /\ List.concat (map (spec_series f k) l) = []).
Proof.
  intros l h f W P. rewrite dumps_concat.
  destruct (dump_pairs_spec (List.concat l) h f W (pairs_ok_concat l P)) as [h' [D [W' [S L]]]].
  exists h'. split; [exact D|]. split; [exact W'|]. split; intros k; rewrite <- spec_series_concat; auto.
Qed.

(* ---- fixed key set *)
Fixpoint assoc (k : string) (kw : kwargs) : option inval :=
  match kw with [] => None | (k', v) :: t => if String.eqb k k' then Some v else assoc k t end.

Definition rec_at (k : string) (kw : kwargs) : val :=
  match assoc k kw with
  | Some v => match stored k v with Some o => o | None => VNone end
  | None => VNone
  end.

Lemma spec_series_notin f k kw : ~ In k (map fst kw) -> spec_series f k kw = [].
Proof.
  induction kw as [|[k0 v0] t IH]; simpl; intros H; [reflexivity|].
  unfold spec_series in *. simpl. unfold contrib at 1. simpl.
  destruct (String.eqb k k0) eqn:E.
  - apply String.eqb_eq in E. exfalso; apply H; now left.
  - simpl. apply IH. tauto.
Qed.

Lemma spec_series_nodup f k kw : NoDup (map fst kw) -> In k (map fst kw) ->
  Forall (fun p => stored (fst p) (snd p) <> None) kw ->
  spec_series f k kw = if kept f k then [rec_at k kw] else [].
Proof.
  induction kw as [|[k0 v0] t IH]; simpl; intros ND I P; [contradiction|].
  inversion ND as [|x l NI ND']; subst. inversion P as [|x l St Pt]; subst. simpl in St.
  unfold spec_series. simpl. unfold contrib at 1. simpl. unfold rec_at. simpl.
  destruct (String.eqb k k0) eqn:E.
  - apply String.eqb_eq in E; subst k0. simpl.
    fold (spec_series f k t). rewrite (spec_series_notin f k t NI).
    destruct (kept f k); [|reflexivity]. destruct (stored k v0); [reflexivity | congruence].
  - simpl. apply String.eqb_neq in E. destruct I as [A|A]; [congruence|].
    fold (spec_series f k t). rewrite (IH ND' A Pt). unfold rec_at. reflexivity.
Qed.

Definition dump_ok (keys : list string) (kw : kwargs) : Prop :=
  map fst kw = keys /\ Forall (fun p => stored (fst p) (snd p) <> None) kw.

(* dump_spec: k dumps with a fixed key set: every kept key maps to a list of length k whose
   t-th element is the parsed value of the t-th dump; filtered keys do not appear. *)
Theorem dump_spec : forall b keys (l : list kwargs),
  NoDup keys -> ~ In FLAG keys -> Forall (dump_ok keys) l ->
  exists h, dumps (fresh b) l = Some h /\
    lookup FLAG h = Some (VBool b) /\
    forall k, In k keys ->
      (kept (VBool b) k = true -> l <> [] -> lookup k h = Some (VList (map (rec_at k) l))) /\
      (kept (VBool b) k = true -> series k h = map (rec_at k) l /\ len (series k h) = len l) /\
      (kept (VBool b) k = false -> lookup k h = None).
Proof.
  intros b keys l ND NF A.
  assert (P : Forall pairs_ok l).
  { eapply Forall_impl; [|exact A]. intros kw [K S]. unfold pairs_ok.
    apply Forall_forall. intros p I. split.
    - intros E. apply NF. rewrite <- K, <- E. now apply in_map.
    - rewrite Forall_forall in S. now apply S. }
  destruct (dumps_spec l (fresh b) (VBool b) (wf_fresh b) P) as [h [D [[F W] [S L]]]].
  exists h. split; [exact D|]. split; [exact F|]. intros k I.
  assert (NKF : k <> FLAG) by (intros ->; contradiction).
  assert (S0 : series k (fresh b) = []).
  { unfold series, fresh. simpl. apply String.eqb_neq in NKF. unfold FLAG in *. now rewrite NKF. }
  assert (L0 : lookup k (fresh b) = None).
  { unfold fresh. simpl. apply String.eqb_neq in NKF. unfold FLAG in *. now rewrite NKF. }
  assert (C : List.concat (map (spec_series (VBool b) k) l) =
              if kept (VBool b) k then map (rec_at k) l else []).
  { clear -A ND I. induction A as [|kw t [K St] At IH]; simpl.
    - now destruct (kept (VBool b) k).
    - rewrite IH. rewrite (spec_series_nodup (VBool b) k kw); [| now rewrite K | now rewrite K | exact St].
      now destruct (kept (VBool b) k). }
  assert (Sk : kept (VBool b) k = true -> series k h = map (rec_at k) l).
  { intros Kp. rewrite S, S0, C, Kp. reflexivity. }
  split; [|split].
  - intros Kp NE. specialize (Sk Kp). specialize (W k NKF). unfold list_or_absent in W. unfold series in Sk.
    destruct (lookup k h) as [[| | |x|]|] eqn:E; try contradiction; try now subst.
    exfalso. assert (Hn : lookup k h = None) by exact E. apply L in Hn. destruct Hn as [_ Hn].
    rewrite C, Kp in Hn. destruct l; [congruence | discriminate].
  - intros Kp. rewrite (Sk Kp). split; [reflexivity | now rewrite map_length].
  - intros Kp. apply L. split; [exact L0|]. now rewrite C, Kp.
Qed.

(* ---- append-only *)
Lemma dump1_extends h k v h' : dump1 h k v = Some h' -> forall k', exists suf, series k' h' = series k' h ++ suf.
Proof.
  intros D k'. unfold dump1 in D.
  assert (St : forall o, store h k o = Some h' -> exists suf, series k' h' = series k' h ++ suf).
  { intros o S. apply store_inv in S. destruct S as [S1 S2]. destruct (string_dec k' k) as [->|N].
    - exists [o]. now rewrite (series_of_lookup _ _ _ S1).
    - exists []. unfold series. rewrite S2 by exact N. now rewrite app_nil_r. }
  assert (Id : Some h = Some h' -> exists suf, series k' h' = series k' h ++ suf).
  { intros E; injection E as <-. exists []. now rewrite app_nil_r. }
  destruct (mem k HISTORY_KEYS).
  - destruct (negb (String.eqb k BEST)).
    + destruct (lookup FLAG h); [|discriminate]. destruct (truthy v0); [auto|].
      destruct (parse k v); [eauto | discriminate].
    + destruct (parse k v); [eauto | discriminate].
  - destruct v; try discriminate; eauto.
Qed.

Lemma dump_extends kw : forall h h', dump h kw = Some h' -> forall k, exists suf, series k h' = series k h ++ suf.
Proof.
  induction kw as [|[k0 v0] t IH]; simpl; intros h h' D k.
  - injection D as <-. exists []. now rewrite app_nil_r.
  - destruct (dump1 h k0 v0) as [h1|] eqn:D1; [|discriminate].
    destruct (dump1_extends _ _ _ _ D1 k) as [s1 E1]. destruct (IH _ _ D k) as [s2 E2].
    exists (s1 ++ s2). now rewrite E2, E1, app_assoc.
Qed.

Lemma dumps_app l1 l2 h : dumps h (l1 ++ l2) = match dumps h l1 with Some h' => dumps h' l2 | None => None end.
Proof.
  revert h. induction l1 as [|kw t IH]; intros h; simpl; [reflexivity|]. destruct (dump h kw); auto.
Qed.

(* dump_append_only: the records present before a further dump are an unchanged prefix afterwards *)
Theorem dump_append_only : forall h l d h2, dumps h (l ++ [d]) = Some h2 ->
  exists h1, dumps h l = Some h1 /\
    forall k, firstn (len (series k h1)) (series k h2) = series k h1 /\ (len (series k h1) <= len (series k h2))%nat.
Proof.
  intros h l d h2 D. rewrite dumps_app in D. destruct (dumps h l) as [h1|]; [|discriminate].
  exists h1. split; [reflexivity|]. intros k. simpl in D. destruct (dump h1 d) as [hx|] eqn:E; [|discriminate].
  injection D as <-. destruct (dump_extends _ _ _ E k) as [suf ->].
  split; [|rewrite app_length; lia].
  rewrite firstn_app, firstn_all, Nat.sub_diag. simpl. now rewrite app_nil_r.
Qed.

(* ---- store_best_only *)
Lemma dump1_best_only h k v h' : lookup FLAG h = Some (VBool true) -> dump1 h k v = Some h' ->
  lookup FLAG h' = Some (VBool true) /\
  forall k', mem k' HISTORY_KEYS = true -> k' <> BEST -> lookup k' h' = lookup k' h.
Proof.
  intros F D. rewrite (dump1_cases _ _ _ _ F) in D.
  destruct (filtered (VBool true) k) eqn:Fi.
  - injection D as <-. split; auto.
  - destruct (stored k v) as [o|]; [|discriminate].
    assert (NF : k <> FLAG).
    { intros ->. unfold store in D. rewrite F in D. discriminate. }
    apply store_inv in D. destruct D as [S1 S2]. split.
    + rewrite S2; auto.
    + intros k' M NB. apply S2. intros ->.
      unfold filtered in Fi. rewrite M in Fi. apply String.eqb_neq in NB. rewrite NB in Fi. discriminate.
Qed.

Lemma dump_best_only kw : forall h h', lookup FLAG h = Some (VBool true) -> dump h kw = Some h' ->
  lookup FLAG h' = Some (VBool true) /\
  forall k', mem k' HISTORY_KEYS = true -> k' <> BEST -> lookup k' h' = lookup k' h.
Proof.
  induction kw as [|[k v] t IH]; simpl; intros h h' F D.
  - injection D as <-. auto.
  - destruct (dump1 h k v) as [h1|] eqn:D1; [|discriminate].
    destruct (dump1_best_only _ _ _ _ F D1) as [F1 K1]. destruct (IH _ _ F1 D) as [F2 K2].
    split; [exact F2|]. intros k' M NB. rewrite K2, K1; auto.
Qed.

(* store_best_only_spec: with the flag, keys of HISTORY_KEYS other than best_agent never appear *)
Theorem store_best_only_spec : forall l h, dumps (fresh true) l = Some h ->
  forall k, In k HISTORY_KEYS -> k <> BEST -> lookup k h = None.
Proof.
  intros l h D k I NB.
  assert (G : forall l h0 h1, lookup FLAG h0 = Some (VBool true) -> dumps h0 l = Some h1 ->
              forall k', mem k' HISTORY_KEYS = true -> k' <> BEST -> lookup k' h1 = lookup k' h0).
  { clear. induction l as [|kw t IH]; simpl; intros h0 h1 F D k' M NB.
    - now injection D as <-.
    - destruct (dump h0 kw) as [hx|] eqn:E; [|discriminate].
      destruct (dump_best_only _ _ _ F E) as [F1 K1]. rewrite (IH _ _ F1 D), K1; auto. }
  assert (M : mem k HISTORY_KEYS = true).
  { unfold mem. apply existsb_exists. exists k. split; [exact I | apply String.eqb_refl]. }
  rewrite (G l (fresh true) h eq_refl D k M NB).
  simpl in I. destruct I as [<-|[<-|[<-|[]]]]; reflexivity.
Qed.

(* keys outside HISTORY_KEYS are stored as given, whatever the flag *)
Lemma stored_as_given k x : mem k HISTORY_KEYS = false -> stored k (IVal x) = Some x.
Proof. unfold stored. now intros ->. Qed.

Lemma kept_outside f k : mem k HISTORY_KEYS = false -> kept f k = true.
Proof. unfold kept, filtered. now intros ->. Qed.

Lemma kept_best f : kept f BEST = true.
Proof. unfold kept, filtered. simpl. destruct (truthy f); reflexivity. Qed.

Lemma kept_flag_false k : kept (VBool false) k = true.
Proof. unfold kept, filtered. simpl. now rewrite andb_false_r. Qed.

(* ---- the regenerated clause table *)
Lemma parse_d_std k v : parse_d (hd_clauses std_descr) k v = parse k v.
Proof.
  unfold parse. simpl.
  destruct (String.eqb k "agents"); [destruct v; reflexivity|].
  destruct (String.eqb k "best_agent"); [destruct v; reflexivity|].
  destruct (String.eqb k "local"); [destruct v; reflexivity|]. reflexivity.
Qed.

Lemma dump1_d_std h k v : dump1_d std_descr h k v = dump1 h k v.
Proof.
  unfold dump1_d, dump1. rewrite parse_d_std.
  cbn [hd_history_keys hd_member_positive hd_filter_key hd_filter_noteq hd_filter_flag_positive
       hd_else_as_given hd_create_or_append std_descr].
  destruct (mem k HISTORY_KEYS); cbn [Bool.eqb andb]; [|reflexivity].
  destruct (negb (String.eqb k BEST)); [|reflexivity].
  destruct (lookup FLAG h); [|reflexivity]. destruct (truthy v0); reflexivity.
Qed.

Theorem dump_d_std : forall d, d = std_descr -> forall kw h, dump_d d h kw = dump h kw.
Proof.
  intros d ->. induction kw as [|[k v] t IH]; intros h; simpl; [reflexivity|].
  rewrite dump1_d_std. destruct (dump1 h k v); auto.
Qed.

(* the same for any clause table that selects the same expression for every key (the order of the
   elif chain is irrelevant because the key tests are equalities with distinct literals) *)
Fixpoint clause_lookup (cl : list (string * pexpr)) (k : string) : option pexpr :=
  match cl with [] => None | (k', p) :: t => if String.eqb k k' then Some p else clause_lookup t k end.

Lemma parse_d_lookup cl k v :
  parse_d cl k v = match clause_lookup cl k with Some p => peval p v | None => Some VNone end.
Proof. induction cl as [|[k' p] t IH]; simpl; [reflexivity|]. destruct (String.eqb k k'); auto. Qed.

Lemma clause_lookup_notin cl k : ~ In k (map fst cl) -> clause_lookup cl k = None.
Proof.
  induction cl as [|[k' p] t IH]; simpl; intros H; [reflexivity|].
  destruct (String.eqb k k') eqn:E; [apply String.eqb_eq in E; subst; tauto | apply IH; tauto].
Qed.

Lemma list_eqb_eq {A} (eqb : A -> A -> bool) : (forall a b, eqb a b = true -> a = b) ->
  forall l1 l2, list_eqb eqb l1 l2 = true -> l1 = l2.
Proof.
  intros H. induction l1 as [|x t IH]; intros [|y u]; simpl; intros E; try discriminate; [reflexivity|].
  apply andb_prop in E. destruct E as [E1 E2]. f_equal; [now apply H | now apply IH].
Qed.

Lemma aexpr_eqb_eq a b : aexpr_eqb a b = true -> a = b.
Proof. destruct a, b; simpl; intros; try discriminate; reflexivity. Qed.

Lemma pexpr_eqb_eq a b : pexpr_eqb a b = true -> a = b.
Proof.
  destruct a, b; simpl; intros E; try discriminate; try reflexivity.
  - f_equal. now apply (list_eqb_eq aexpr_eqb aexpr_eqb_eq).
  - f_equal. now apply (list_eqb_eq aexpr_eqb aexpr_eqb_eq).
  - f_equal. now apply Bool.eqb_prop.
Qed.

Definition popt_eqb (a b : option pexpr) : bool :=
  match a, b with Some x, Some y => pexpr_eqb x y | None, None => true | _, _ => false end.

Definition clauses_ok (cl : list (string * pexpr)) : bool :=
  forallb (fun k => popt_eqb (clause_lookup cl k) (clause_lookup (hd_clauses std_descr) k))
          (map fst cl ++ map fst (hd_clauses std_descr)).

Definition descr_ok (d : hdescr) : bool :=
  list_eqb String.eqb (hd_history_keys d) HISTORY_KEYS && hd_member_positive d &&
  String.eqb (hd_filter_key d) BEST && hd_filter_noteq d && hd_filter_flag_positive d &&
  hd_else_as_given d && hd_create_or_append d && clauses_ok (hd_clauses d).

Lemma clauses_ok_lookup cl : clauses_ok cl = true ->
  forall k, clause_lookup cl k = clause_lookup (hd_clauses std_descr) k.
Proof.
  intros H k. unfold clauses_ok in H. rewrite forallb_forall in H.
  destruct (in_dec string_dec k (map fst cl ++ map fst (hd_clauses std_descr))) as [I|N].
  - specialize (H k I). unfold popt_eqb in H.
    destruct (clause_lookup cl k), (clause_lookup (hd_clauses std_descr) k); try discriminate; [|reflexivity].
    f_equal. now apply pexpr_eqb_eq.
  - rewrite !clause_lookup_notin; [reflexivity | |]; intros I; apply N; apply in_or_app; tauto.
Qed.

Theorem dump_d_ok : forall d, descr_ok d = true -> forall kw h, dump_d d h kw = dump h kw.
Proof.
  intros d H. unfold descr_ok in H. repeat (apply andb_prop in H; destruct H as [H ?]).
  assert (P : forall k v, parse_d (hd_clauses d) k v = parse k v).
  { intros k v. rewrite <- parse_d_std, !parse_d_lookup. now rewrite (clauses_ok_lookup _ H0). }
  assert (K : hd_history_keys d = HISTORY_KEYS).
  { apply (list_eqb_eq String.eqb); [|exact H]. intros a b E. now apply String.eqb_eq. }
  assert (D1 : forall h k v, dump1_d d h k v = dump1 h k v).
  { intros h k v. unfold dump1_d, dump1. rewrite P, K.
    match goal with E : String.eqb (hd_filter_key d) BEST = true |- _ => apply String.eqb_eq in E; rewrite E end.
    repeat match goal with E : _ = true |- _ => rewrite E; clear E end.
    destruct (mem k HISTORY_KEYS); cbn [Bool.eqb andb]; [|reflexivity].
    destruct (negb (String.eqb k BEST)); [|reflexivity].
    destruct (lookup FLAG h); [|reflexivity]. destruct (truthy v0); reflexivity. }
  induction kw as [|[k v] t IH]; intros h; simpl; [reflexivity|].
  rewrite D1. destruct (dump1 h k v); auto.
Qed.

(* ================================================================== load / save *)
Definition heq (a b : hist) : Prop := forall k, lookup k a = lookup k b.

Lemma dict_update_lookup f : forall s, NoDup (map fst f) ->
  forall k, lookup k (dict_update s f) = match lookup k f with Some v => Some v | None => lookup k s end.
Proof.
  unfold dict_update. induction f as [|[k0 v0] t IH]; intros s ND k; simpl; [reflexivity|].
  inversion ND as [|x l NI ND']; subst. rewrite (IH _ ND').
  destruct (String.eqb k k0) eqn:E.
  - apply String.eqb_eq in E; subst k0. apply lookup_none_notin in NI. rewrite NI. apply lookup_set_same.
  - apply String.eqb_neq in E. destruct (lookup k t); [reflexivity|]. now apply lookup_set_other.
Qed.

Definition dom_sub (s f : hist) : Prop := forall k, lookup k s <> None -> lookup k f <> None.

(* load_spec *)
Theorem load_is_dict_update s file : load s file = dict_update s file.
Proof. reflexivity. Qed.

Theorem load_spec : forall s file, NoDup (map fst file) -> dom_sub s file -> heq (load s file) file.
Proof.
  intros s file ND Sub k. unfold load. rewrite (dict_update_lookup file s ND k).
  destruct (lookup k file) eqn:E; [reflexivity|].
  destruct (lookup k s) eqn:E2; [|reflexivity]. exfalso. apply (Sub k); [rewrite E2; discriminate | exact E].
Qed.

Lemma dom_sub_fresh b file : lookup FLAG file <> None -> dom_sub (fresh b) file.
Proof.
  intros H k. unfold fresh. simpl. destruct (String.eqb k FLAG) eqn:E.
  - apply String.eqb_eq in E. now subst.
  - intros A; now elim A.
Qed.

Lemma dict_update_fresh_literal : forall f s, NoDup (map fst (s ++ f)) -> dict_update s f = s ++ f.
Proof.
  unfold dict_update. induction f as [|[k v] t IH]; intros s ND; simpl; [now rewrite app_nil_r|].
  assert (A : lookup k s = None).
  { apply lookup_none_notin. rewrite map_app in ND. simpl in ND. apply NoDup_remove_2 in ND.
    intros I. apply ND. apply in_or_app. now left. }
  rewrite (set_attr_absent _ _ _ A). rewrite IH; rewrite <- app_assoc; simpl; [reflexivity | exact ND].
Qed.

(* a fresh History loading a file written by a History (whose first attribute is the flag): literally the file *)
Theorem load_fresh_literal : forall b v rest, NoDup (map fst ((FLAG, v) :: rest)) ->
  load (fresh b) ((FLAG, v) :: rest) = (FLAG, v) :: rest.
Proof.
  intros b v rest ND. unfold load, fresh, dict_update. simpl.
  change (fold_left (fun acc p => set_attr acc (fst p) (snd p)) rest [(FLAG, v)]) with (dict_update [(FLAG, v)] rest).
  now rewrite dict_update_fresh_literal.
Qed.

(* histories reachable from a fresh one: distinct keys, flag present *)
Lemma NoDup_snoc {A} (l : list A) x : NoDup l -> ~ In x l -> NoDup (l ++ [x]).
Proof.
  induction l as [|a t IH]; simpl; intros ND NI.
  - constructor; [tauto | constructor].
  - inversion ND; subst. constructor.
    + intros I. apply in_app_or in I. destruct I as [I|[I|[]]]; [contradiction | subst; apply NI; now left].
    + apply IH; tauto.
Qed.

Lemma set_attr_keys h k v : lookup k h <> None -> map fst (set_attr h k v) = map fst h.
Proof.
  induction h as [|[k0 v0] t IH]; simpl; intros H; [congruence|].
  destruct (String.eqb k k0); simpl; [reflexivity | now rewrite IH].
Qed.

Definition hgood (h : hist) : Prop := NoDup (map fst h) /\ lookup FLAG h <> None.

Lemma store_good h k o h' : store h k o = Some h' -> hgood h -> hgood h'.
Proof.
  intros S [ND F]. split.
  - unfold store in S. destruct (lookup k h) as [[| | |l|]|] eqn:E; try discriminate; injection S as <-.
    + rewrite set_attr_keys; [exact ND | congruence].
    + rewrite map_app. simpl. apply NoDup_snoc; [exact ND | now apply lookup_none_notin].
  - apply store_inv in S. destruct S as [S1 S2]. destruct (string_dec FLAG k) as [<-|N].
    + rewrite S1. discriminate.
    + rewrite S2; auto.
Qed.

Lemma dump1_good h k v h' : dump1 h k v = Some h' -> hgood h -> hgood h'.
Proof.
  intros D G. unfold dump1 in D. destruct (mem k HISTORY_KEYS).
  - destruct (negb (String.eqb k BEST)).
    + destruct (lookup FLAG h); [|discriminate]. destruct (truthy v0).
      * now injection D as <-.
      * destruct (parse k v); [eapply store_good; eauto | discriminate].
    + destruct (parse k v); [eapply store_good; eauto | discriminate].
  - destruct v; try discriminate. eapply store_good; eauto.
Qed.

Lemma dump_good kw : forall h h', dump h kw = Some h' -> hgood h -> hgood h'.
Proof.
  induction kw as [|[k v] t IH]; simpl; intros h h' D G; [now injection D as <-|].
  destruct (dump1 h k v) eqn:E; [|discriminate]. eapply IH; eauto. eapply dump1_good; eauto.
Qed.

Lemma dumps_good l : forall h h', dumps h l = Some h' -> hgood h -> hgood h'.
Proof.
  induction l as [|kw t IH]; simpl; intros h h' D G; [now injection D as <-|].
  destruct (dump h kw) eqn:E; [|discriminate]. eapply IH; eauto. eapply dump_good; eauto.
Qed.

Lemma hgood_fresh b : hgood (fresh b).
Proof. split; [repeat constructor; simpl; tauto | discriminate]. Qed.

(* whatever a run dumped, a fresh History (of either flag) that loads it exposes exactly its attributes *)
Theorem load_after_dumps : forall b l h b', dumps (fresh b) l = Some h -> heq (load (fresh b') h) h.
Proof.
  intros b l h b' D. destruct (dumps_good _ _ _ D (hgood_fresh b)) as [ND F].
  apply load_spec; [exact ND | now apply dom_sub_fresh].
Qed.

Section PickleContract.
  (* pickle is not modelled: its round-trip behaviour is an explicit hypothesis (assumed contract) *)
  Variable bytes : Type.
  Variable pickle : hist -> bytes.
  Variable unpickle : bytes -> hist.
  Hypothesis pickle_contract : forall h, unpickle (pickle h) = h.

  Theorem save_load_identity : forall s h, NoDup (map fst h) -> dom_sub s h ->
    heq (load_file bytes unpickle s (save bytes pickle h)) h.
  Proof.
    intros s h ND Sub. unfold load_file, save. rewrite pickle_contract. now apply load_spec.
  Qed.

  Theorem save_load_identity_run : forall b l h b', dumps (fresh b) l = Some h ->
    heq (load_file bytes unpickle (fresh b') (save bytes pickle h)) h.
  Proof.
    intros b l h b' D. unfold load_file, save. rewrite pickle_contract. eapply load_after_dumps; eauto.
  Qed.
End PickleContract.

(* ================================================================== get *)
Lemma shape_VList l : shape (VList l) =
  len l :: match map shape l with [] => [] | s :: ss => fold_left common_prefix ss s end.
Proof. reflexivity. Qed.

Lemma shape_VTuple l : shape (VTuple l) =
  len l :: match map shape l with [] => [] | s :: ss => fold_left common_prefix ss s end.
Proof. reflexivity. Qed.

Lemma shape_scalar v : is_seq v = false -> shape v = [].
Proof. destruct v; simpl; intros H; try reflexivity; discriminate. Qed.

Lemma common_prefix_refl s : common_prefix s s = s.
Proof. induction s as [|x t IH]; simpl; [reflexivity|]. now rewrite Nat.eqb_refl, IH. Qed.

Lemma common_prefix_nil_r s : common_prefix s [] = [].
Proof. now destruct s. Qed.

Lemma fold_cp_same s ss : Forall (eq s) ss -> fold_left common_prefix ss s = s.
Proof. induction 1 as [|x t E F IH]; simpl; [reflexivity|]. subst x. now rewrite common_prefix_refl. Qed.

Lemma shape_uniform l s : l <> [] -> Forall (fun v => shape v = s) l -> shape (VList l) = len l :: s.
Proof.
  intros NE F. rewrite shape_VList. destruct l as [|a t]; [congruence|]. inversion F as [|x y Ha Ft]; subst.
  cbn [map]. f_equal. apply fold_cp_same. apply Forall_map. eapply Forall_impl; [|exact Ft]. intros v E. now symmetry.
Qed.

Definition rect (nv nd : nat) (c : contents) : Prop := len c = nv /\ Forall (fun r => len r = nd) c.

Lemma shape_row r : shape (row_val r) = [len r].
Proof.
  unfold row_val. destruct r as [|a t]; [reflexivity|].
  rewrite (shape_uniform _ []); [now rewrite map_length | discriminate |].
  apply Forall_map. apply Forall_forall. reflexivity.
Qed.

Lemma shape_pos nv nd c : rect nv nd c -> (1 <= nv)%nat -> shape (pos_val c) = [nv; nd].
Proof.
  intros [L F] NV. unfold pos_val. rewrite (shape_uniform _ [nd]).
  - now rewrite map_length, L.
  - destruct c; simpl in *; [lia | discriminate].
  - apply Forall_map. eapply Forall_impl; [|exact F]. intros r E. now rewrite shape_row, E.
Qed.

Lemma shape_agent_rec a : shape (agent_rec a) = [2%nat].
Proof.
  unfold agent_rec. rewrite shape_VTuple. cbn [map fold_left len].
  change (shape (VNum (snd a))) with (@nil nat). now rewrite common_prefix_nil_r.
Qed.

Definition agents_series (ha : list (list agent)) : val := VList (map (fun ags => VList (map agent_rec ags)) ha).
Definition best_series (hb : list agent) : val := VList (map agent_rec hb).
Definition local_series (hl : list (list contents)) : val := VList (map (fun ls => VList (map pos_val ls)) hl).

Lemma shape_agents_series ha n : ha <> [] -> (1 <= n)%nat -> Forall (fun ags => len ags = n) ha ->
  shape (agents_series ha) = [len ha; n; 2%nat].
Proof.
  intros NE N F. unfold agents_series. rewrite (shape_uniform _ [n; 2%nat]).
  - now rewrite map_length.
  - destruct ha; [congruence | discriminate].
  - apply Forall_map. eapply Forall_impl; [|exact F]. intros ags L. cbn beta.
    rewrite (shape_uniform _ [2%nat]).
    + now rewrite map_length, L.
    + destruct ags; simpl in *; [lia | discriminate].
    + apply Forall_map. apply Forall_forall. intros a _. apply shape_agent_rec.
Qed.

Lemma shape_best_series hb : hb <> [] -> shape (best_series hb) = [len hb; 2%nat].
Proof.
  intros NE. unfold best_series. rewrite (shape_uniform _ [2%nat]).
  - now rewrite map_length.
  - destruct hb; [congruence | discriminate].
  - apply Forall_map. apply Forall_forall. intros a _. apply shape_agent_rec.
Qed.

Lemma shape_local_series hl n nv nd : hl <> [] -> (1 <= n)%nat -> (1 <= nv)%nat ->
  Forall (fun ls => len ls = n /\ Forall (rect nv nd) ls) hl ->
  shape (local_series hl) = [len hl; n; nv; nd].
Proof.
  intros NE N NV F. unfold local_series. rewrite (shape_uniform _ [n; nv; nd]).
  - now rewrite map_length.
  - destruct hl; [congruence | discriminate].
  - apply Forall_map. eapply Forall_impl; [|exact F]. intros ls [L R]. cbn beta.
    rewrite (shape_uniform _ [nv; nd]).
    + now rewrite map_length, L.
    + destruct ls; simpl in *; [lia | discriminate].
    + apply Forall_map. eapply Forall_impl; [|exact R]. intros c Rc. now apply shape_pos.
Qed.

(* ---- typed rejections *)
Theorem get_not_tuple h key : get h key INotTuple = Err TypeErr.
Proof. reflexivity. Qed.

Theorem get_wrong_size h key a idx : lookup key h = Some a -> (ndim a - 1 <> Z.of_nat (len idx))%Z ->
  get h key (ITuple idx) = Err SizeErr.
Proof.
  intros L N. unfold get. rewrite L. destruct (Z.eqb_spec (ndim a - 1) (Z.of_nat (len idx))); [contradiction | reflexivity].
Qed.

Lemma get_ok h key idx a d0 dims nidx : lookup key h = Some a -> shape a = d0 :: dims ->
  len idx = len dims -> norm_all idx dims = Some nidx ->
  get h key (ITuple idx) = hstack (map (descend nidx) (elems a)).
Proof.
  intros L Sh E N. unfold get. rewrite L. unfold ndim. rewrite Sh. cbn [len tl].
  replace (Z.of_nat (S (len dims)) - 1 =? Z.of_nat (len idx))%Z with true by (symmetry; apply Z.eqb_eq; lia).
  cbn [negb]. now rewrite N.
Qed.

Lemma norm_index_lt i n j : norm_index i n = Some j -> (j < n)%nat.
Proof.
  unfold norm_index. destruct ((0 <=? i)%Z && (i <? Z.of_nat n)%Z) eqn:A.
  - intros E; injection E as <-. apply andb_prop in A. destruct A as [A B].
    apply Z.leb_le in A. apply Z.ltb_lt in B. lia.
  - destruct ((- Z.of_nat n <=? i)%Z && (i <? 0)%Z) eqn:B; [|discriminate].
    intros E; injection E as <-. apply andb_prop in B. destruct B as [B C].
    apply Z.leb_le in B. apply Z.ltb_lt in C. lia.
Qed.

Lemma norm_index_nonneg (i n : nat) : (i < n)%nat -> norm_index (Z.of_nat i) n = Some i.
Proof.
  intros H. unfold norm_index.
  replace ((0 <=? Z.of_nat i)%Z && (Z.of_nat i <? Z.of_nat n)%Z) with true.
  - now rewrite Nat2Z.id.
  - symmetry. apply andb_true_intro. split; [apply Z.leb_le | apply Z.ltb_lt]; lia.
Qed.

Lemma norm_index_negative (i n : nat) : (i < n)%nat -> norm_index (Z.of_nat i - Z.of_nat n) n = Some i.
Proof.
  intros H. unfold norm_index.
  replace ((0 <=? Z.of_nat i - Z.of_nat n)%Z && (Z.of_nat i - Z.of_nat n <? Z.of_nat n)%Z) with false.
  - replace ((- Z.of_nat n <=? Z.of_nat i - Z.of_nat n)%Z && (Z.of_nat i - Z.of_nat n <? 0)%Z) with true.
    + f_equal. lia.
    + symmetry. apply andb_true_intro. split; [apply Z.leb_le | apply Z.ltb_lt]; lia.
  - symmetry. apply andb_false_intro1. apply Z.leb_gt. lia.
Qed.

Lemma nth_map_in {A B} (f : A -> B) l i d d' : (i < len l)%nat -> nth i (map f l) d' = f (nth i l d).
Proof.
  intros H. rewrite (nth_indep _ d' (f d)) by now rewrite map_length. apply map_nth.
Qed.

(* ---- hstack *)
Lemma concat_singletons l : List.concat (map elems (map (fun v => VList [v]) l)) = l.
Proof. induction l as [|x r IH]; simpl; [reflexivity | now rewrite IH]. Qed.

Lemma hstack_scalars l : l <> [] -> Forall (fun v => is_seq v = false) l -> hstack l = Ok (VList l).
Proof.
  intros NE F. unfold hstack.
  assert (A : map atleast1 l = map (fun v => VList [v]) l).
  { apply map_ext_in. intros v I. rewrite Forall_forall in F. unfold atleast1. now rewrite (F v I). }
  rewrite A.
  assert (R : forallb regular (map (fun v => VList [v]) l) = true).
  { apply forallb_forall. intros x I. apply in_map_iff in I. destruct I as [v [<- I]].
    rewrite Forall_forall in F. specialize (F v I). unfold regular.
    rewrite shape_VList. cbn [map fold_left]. rewrite (shape_scalar v F).
    cbn [len regular_at is_seq elems forallb andb]. now rewrite F. }
  rewrite R. cbn [negb].
  destruct l as [|v0 t]; [congruence|]. cbn [map].
  replace (Nat.eqb (len (shape (VList [v0]))) 1) with true.
  2:{ rewrite shape_VList. cbn [map fold_left len]. inversion F; subst. now rewrite (shape_scalar v0). }
  replace (forallb (fun a => Nat.eqb (len (shape a)) 1) (VList [v0] :: map (fun v => VList [v]) t)) with true.
  2:{ symmetry. change (VList [v0] :: map (fun v => VList [v]) t) with (map (fun v => VList [v]) (v0 :: t)).
      apply forallb_forall. intros x I. apply in_map_iff in I. destruct I as [v [<- I]].
      rewrite Forall_forall in F. rewrite shape_VList. cbn [map fold_left len]. now rewrite (shape_scalar v (F v I)). }
  change (elems (VList [v0]) :: map elems (map (fun v => VList [v]) t))
    with (map elems (map (fun v => VList [v]) (v0 :: t))).
  now rewrite concat_singletons.
Qed.

Lemma regular_pos nv nd c : rect nv nd c -> (1 <= nv)%nat -> regular (pos_val c) = true.
Proof.
  intros R NV. unfold regular. rewrite (shape_pos nv nd c R NV). cbn [len regular_at].
  unfold pos_val at 1. cbn [is_seq andb]. unfold pos_val. cbn [elems].
  apply forallb_forall. intros x I. apply in_map_iff in I. destruct I as [r [<- I]].
  unfold row_val. cbn [is_seq andb elems]. apply forallb_forall. intros y J.
  apply in_map_iff in J. destruct J as [k [<- J]]. reflexivity.
Qed.

Lemma elems_nth_row c r : elems (nth r (map row_val c) VNone) = map VNum (nth r c []).
Proof.
  revert r. induction c as [|x t IH]; intros [|r]; simpl; auto.
Qed.

Definition hstack_rows (nv : nat) (cs : list contents) : val :=
  VList (map (fun r => VList (List.concat (map (fun c => map VNum (nth r c [])) cs))) (seq 0 nv)).

Lemma hstack_matrices cs nv nd : cs <> [] -> (1 <= nv)%nat -> Forall (rect nv nd) cs ->
  hstack (map pos_val cs) = Ok (hstack_rows nv cs).
Proof.
  intros NE NV F. unfold hstack.
  assert (A : map atleast1 (map pos_val cs) = map pos_val cs).
  { rewrite map_map. apply map_ext. reflexivity. }
  rewrite A.
  assert (R : forallb regular (map pos_val cs) = true).
  { apply forallb_forall. intros x I. apply in_map_iff in I. destruct I as [c [<- I]].
    rewrite Forall_forall in F. apply (regular_pos nv nd c); [apply F; exact I | exact NV]. }
  rewrite R. cbn [negb].
  destruct cs as [|c0 t]; [congruence|]. cbn [map].
  assert (S0 : shape (pos_val c0) = [nv; nd]) by (inversion F; subst; now apply shape_pos).
  rewrite S0. cbn [len Nat.eqb hd].
  replace (forallb (fun a => shape_compat1 (shape a) [nv; nd]) (pos_val c0 :: map pos_val t)) with true.
  2:{ symmetry. change (pos_val c0 :: map pos_val t) with (map pos_val (c0 :: t)).
      apply forallb_forall. intros x I. apply in_map_iff in I. destruct I as [c [<- I]].
      rewrite Forall_forall in F. rewrite (shape_pos nv nd c (F c I) NV).
      unfold shape_compat1. cbn [list_eqb]. now rewrite Nat.eqb_refl. }
  f_equal. unfold hstack_rows, hcat. f_equal.
  change (pos_val c0 :: map pos_val t) with (map pos_val (c0 :: t)).
  apply map_ext. intros r. f_equal. f_equal. rewrite map_map. apply map_ext. intros c.
  unfold pos_val. cbn [elems]. apply elems_nth_row.
Qed.

(* ---- get_spec *)
Definition dflt_agent : agent := ([], None).
Definition positions_of (i : nat) (ha : list (list agent)) : list contents := map (fun ags => fst (nth i ags dflt_agent)) ha.
Definition fits_of (i : nat) (ha : list (list agent)) : list okey := map (fun ags => snd (nth i ags dflt_agent)) ha.

Definition uniform_agents (n nv nd : nat) (ha : list (list agent)) : Prop :=
  Forall (fun ags => len ags = n /\ Forall (fun a => rect nv nd (fst a)) ags) ha.

Lemma uniform_len n nv nd ha : uniform_agents n nv nd ha -> Forall (fun ags => len ags = n) ha.
Proof. intros U. eapply Forall_impl; [|exact U]. now intros a [L _]. Qed.

Theorem get_agents_position : forall h ha n nv nd i c i',
  lookup "agents" h = Some (agents_series ha) -> ha <> [] -> (1 <= n)%nat -> (1 <= nv)%nat ->
  uniform_agents n nv nd ha -> norm_index i n = Some i' -> norm_index c 2 = Some 0%nat ->
  get h "agents" (ITuple [i; c]) = Ok (hstack_rows nv (positions_of i' ha)).
Proof.
  intros h ha n nv nd i c i' L NE N NV U Hi Hc.
  pose proof (shape_agents_series ha n NE N (uniform_len _ _ _ _ U)) as Sh.
  rewrite (get_ok h "agents" [i; c] _ _ _ [i'; 0%nat] L Sh eq_refl).
  2:{ cbn [norm_all]. now rewrite Hi, Hc. }
  unfold agents_series. cbn [elems]. rewrite map_map.
  pose proof (norm_index_lt _ _ _ Hi) as Lt.
  assert (E : map (fun ags => descend [i'; 0%nat] (VList (map agent_rec ags))) ha = map pos_val (positions_of i' ha)).
  { unfold positions_of. rewrite map_map. apply map_ext_in. intros ags I.
    unfold uniform_agents in U. rewrite Forall_forall in U. destruct (U ags I) as [La _].
    cbn [descend elems]. rewrite (nth_map_in agent_rec ags i' dflt_agent VNone) by exact (eq_ind_r (fun m => (i' < m)%nat) Lt La). reflexivity. }
  rewrite E. apply (hstack_matrices _ nv nd).
  - unfold positions_of. destruct ha; [congruence | discriminate].
  - exact NV.
  - unfold positions_of. apply Forall_map. unfold uniform_agents in U. eapply Forall_impl; [|exact U].
    intros ags [La Fa]. rewrite Forall_forall in Fa. apply Fa. apply nth_In. exact (eq_ind_r (fun m => (i' < m)%nat) Lt La).
Qed.

Theorem get_agents_fit : forall h ha n i c i',
  lookup "agents" h = Some (agents_series ha) -> ha <> [] -> (1 <= n)%nat ->
  Forall (fun ags => len ags = n) ha -> norm_index i n = Some i' -> norm_index c 2 = Some 1%nat ->
  get h "agents" (ITuple [i; c]) = Ok (VList (map VNum (fits_of i' ha))).
Proof.
  intros h ha n i c i' L NE N U Hi Hc.
  pose proof (shape_agents_series ha n NE N U) as Sh.
  rewrite (get_ok h "agents" [i; c] _ _ _ [i'; 1%nat] L Sh eq_refl).
  2:{ cbn [norm_all]. now rewrite Hi, Hc. }
  unfold agents_series. cbn [elems]. rewrite map_map.
  pose proof (norm_index_lt _ _ _ Hi) as Lt.
  assert (E : map (fun ags => descend [i'; 1%nat] (VList (map agent_rec ags))) ha = map VNum (fits_of i' ha)).
  { unfold fits_of. rewrite map_map. apply map_ext_in. intros ags I.
    rewrite Forall_forall in U. pose proof (U ags I) as La.
    cbn [descend elems]. rewrite (nth_map_in agent_rec ags i' dflt_agent VNone) by exact (eq_ind_r (fun m => (i' < m)%nat) Lt La). reflexivity. }
  rewrite E. apply hstack_scalars.
  - unfold fits_of. destruct ha; [congruence | discriminate].
  - apply Forall_map. apply Forall_forall. reflexivity.
Qed.

Theorem get_best_position : forall h hb nv nd c,
  lookup "best_agent" h = Some (best_series hb) -> hb <> [] -> (1 <= nv)%nat ->
  Forall (fun a => rect nv nd (fst a)) hb -> norm_index c 2 = Some 0%nat ->
  get h "best_agent" (ITuple [c]) = Ok (hstack_rows nv (map fst hb)).
Proof.
  intros h hb nv nd c L NE NV U Hc.
  rewrite (get_ok h "best_agent" [c] _ _ _ [0%nat] L (shape_best_series hb NE) eq_refl).
  2:{ cbn [norm_all]. now rewrite Hc. }
  unfold best_series. cbn [elems]. rewrite map_map.
  replace (map (fun a => descend [0%nat] (agent_rec a)) hb) with (map pos_val (map fst hb)) by (now rewrite map_map).
  apply (hstack_matrices _ nv nd).
  - destruct hb; [congruence | discriminate].
  - exact NV.
  - now apply Forall_map.
Qed.

Theorem get_best_fit : forall h hb c,
  lookup "best_agent" h = Some (best_series hb) -> hb <> [] -> norm_index c 2 = Some 1%nat ->
  get h "best_agent" (ITuple [c]) = Ok (VList (map VNum (map snd hb))).
Proof.
  intros h hb c L NE Hc.
  rewrite (get_ok h "best_agent" [c] _ _ _ [1%nat] L (shape_best_series hb NE) eq_refl).
  2:{ cbn [norm_all]. now rewrite Hc. }
  unfold best_series. cbn [elems]. rewrite map_map.
  replace (map (fun a => descend [1%nat] (agent_rec a)) hb) with (map VNum (map snd hb)) by (now rewrite map_map).
  apply hstack_scalars.
  - destruct hb; [congruence | discriminate].
  - apply Forall_map. apply Forall_forall. reflexivity.
Qed.

Definition coord_of (i j k : nat) (ls : list contents) : okey := nth k (nth j (nth i ls []) []) None.

Theorem get_local : forall h hl n nv nd i j k i' j' k',
  lookup "local" h = Some (local_series hl) -> hl <> [] -> (1 <= n)%nat -> (1 <= nv)%nat ->
  Forall (fun ls => len ls = n /\ Forall (rect nv nd) ls) hl ->
  norm_index i n = Some i' -> norm_index j nv = Some j' -> norm_index k nd = Some k' ->
  get h "local" (ITuple [i; j; k]) = Ok (VList (map (fun ls => VNum (coord_of i' j' k' ls)) hl)).
Proof.
  intros h hl n nv nd i j k i' j' k' L NE N NV U Hi Hj Hk.
  rewrite (get_ok h "local" [i; j; k] _ _ _ [i'; j'; k'] L (shape_local_series hl n nv nd NE N NV U) eq_refl).
  2:{ cbn [norm_all]. now rewrite Hi, Hj, Hk. }
  unfold local_series. cbn [elems]. rewrite map_map.
  pose proof (norm_index_lt _ _ _ Hi) as Li. pose proof (norm_index_lt _ _ _ Hj) as Lj.
  pose proof (norm_index_lt _ _ _ Hk) as Lk.
  assert (E : map (fun ls => descend [i'; j'; k'] (VList (map pos_val ls))) hl
              = map (fun ls => VNum (coord_of i' j' k' ls)) hl).
  { apply map_ext_in. intros ls I. rewrite Forall_forall in U. destruct (U ls I) as [Ln R].
    cbn [descend elems]. rewrite (nth_map_in pos_val ls i' [] VNone) by lia.
    rewrite Forall_forall in R. assert (Rc : rect nv nd (nth i' ls [])) by (apply R; apply nth_In; lia).
    destruct Rc as [Lc Fr]. unfold pos_val. cbn [elems].
    rewrite (nth_map_in row_val (nth i' ls []) j' [] VNone) by lia.
    rewrite Forall_forall in Fr. assert (Lr : len (nth j' (nth i' ls []) []) = nd) by (apply Fr; apply nth_In; lia).
    unfold row_val. cbn [elems]. rewrite (nth_map_in VNum _ k' None VNone) by lia. reflexivity. }
  rewrite E. apply hstack_scalars.
  - destruct hl; [congruence | discriminate].
  - apply Forall_map. apply Forall_forall. reflexivity.
Qed.

(* wrongly sized indices on the three series: SizeError whatever the components are (before slicing) *)
Theorem get_agents_wrong_size : forall h ha n idx,
  lookup "agents" h = Some (agents_series ha) -> ha <> [] -> (1 <= n)%nat -> Forall (fun ags => len ags = n) ha ->
  len idx <> 2%nat -> get h "agents" (ITuple idx) = Err SizeErr.
Proof.
  intros h ha n idx L NE N U W. apply (get_wrong_size h _ _ idx L). unfold ndim.
  rewrite (shape_agents_series ha n NE N U). cbn [len]. lia.
Qed.

Theorem get_best_wrong_size : forall h hb idx,
  lookup "best_agent" h = Some (best_series hb) -> hb <> [] -> len idx <> 1%nat ->
  get h "best_agent" (ITuple idx) = Err SizeErr.
Proof.
  intros h hb idx L NE W. apply (get_wrong_size h _ _ idx L). unfold ndim.
  rewrite (shape_best_series hb NE). cbn [len]. lia.
Qed.

Theorem get_local_wrong_size : forall h hl n nv nd idx,
  lookup "local" h = Some (local_series hl) -> hl <> [] -> (1 <= n)%nat -> (1 <= nv)%nat ->
  Forall (fun ls => len ls = n /\ Forall (rect nv nd) ls) hl -> len idx <> 3%nat ->
  get h "local" (ITuple idx) = Err SizeErr.
Proof.
  intros h hl n nv nd idx L NE N NV U W. apply (get_wrong_size h _ _ idx L). unfold ndim.
  rewrite (shape_local_series hl n nv nd NE N NV U). cbn [len]. lia.
Qed.

(* keys stored as given (time, best_tree): a series of scalars is returned as it is, in order *)
Theorem get_scalar_series : forall h key recs, lookup key h = Some (VList recs) -> recs <> [] ->
  Forall (fun v => is_seq v = false) recs -> get h key (ITuple []) = Ok (VList recs).
Proof.
  intros h key recs L NE F.
  assert (Sh : shape (VList recs) = [len recs]).
  { rewrite (shape_uniform _ []); [reflexivity | exact NE |].
    eapply Forall_impl; [|exact F]. intros v. apply shape_scalar. }
  rewrite (get_ok h key [] _ _ _ [] L Sh eq_refl eq_refl). cbn [elems].
  replace (map (descend []) recs) with recs by (symmetry; apply map_id).
  now apply hstack_scalars.
Qed.

(* ================================================================== a run's history, end to end *)
Definition iteration := (list agent * agent)%type.          (* population and best agent at a dump *)
Definition run_kwargs (it : iteration) : kwargs := [("agents", IAgents (fst it)); ("best_agent", IAgent (snd it))].

Theorem run_history_spec : forall b (iters : list iteration), iters <> [] ->
  exists h, dumps (fresh b) (map run_kwargs iters) = Some h /\
    lookup FLAG h = Some (VBool b) /\
    lookup "best_agent" h = Some (best_series (map snd iters)) /\
    lookup "agents" h = if b then None else Some (agents_series (map fst iters)).
Proof.
  intros b iters NE.
  destruct (dump_spec b ["agents"; "best_agent"] (map run_kwargs iters)) as [h [D [F K]]].
  - repeat constructor; simpl; intuition discriminate.
  - simpl. intuition discriminate.
  - apply Forall_map. apply Forall_forall. intros it _. split; [reflexivity|].
    repeat constructor; simpl; discriminate.
  - exists h. split; [exact D|]. split; [exact F|].
    assert (NE' : map run_kwargs iters <> []) by (destruct iters; [congruence | discriminate]).
    split.
    + destruct (K "best_agent") as [K1 _]; [simpl; tauto|].
      rewrite (K1 (kept_best _) NE'). unfold best_series. now rewrite !map_map.
    + destruct (K "agents") as [K1 [_ K3]]; [simpl; tauto|]. destruct b.
      * apply K3. reflexivity.
      * rewrite (K1 (kept_flag_false _) NE'). unfold agents_series. now rewrite !map_map.
Qed.

(* ================================================================== the regenerated get / save / load *)
Theorem get_d_model : forall h key index, get_d model_get_descr h key index = Some (get h key index).
Proof.
  intros h key index. unfold get_d, model_get_descr, get. destruct index as [idx|]; [|reflexivity].
  cbn [get_run]. destruct (lookup key h) as [a|]; [|reflexivity].
  cbn [String.eqb Ascii.eqb Bool.eqb andb]. rewrite orb_true_r.
  cbn [cmp_eval]. change (ndim a + -1)%Z with (ndim a - 1)%Z.
  destruct (negb (ndim a - 1 =? Z.of_nat (len idx))%Z); [reflexivity|].
  destruct (norm_all idx (tl (shape a))) as [nidx|]; [|reflexivity].
  cbn [String.eqb Ascii.eqb Bool.eqb]. destruct (hstack (map (descend nidx) (elems a))); reflexivity.
Qed.

Theorem get_d_of_descr : forall d, d = model_get_descr ->
  forall h key index, get_d d h key index = Some (get h key index).
Proof. intros d ->. exact get_d_model. Qed.

Section PickleDescrProofs.
  Variable bytes : Type.
  Variable pickle : hist -> bytes.
  Variable unpickle : bytes -> hist.

  Theorem save_d_model : forall h, save_d bytes pickle model_save_descr h = Some (save bytes pickle h).
  Proof. reflexivity. Qed.

  Theorem load_d_model : forall s f,
    load_d bytes unpickle model_load_descr s f = Some (load_file bytes unpickle s f).
  Proof. reflexivity. Qed.

  Theorem save_d_of_descr : forall d, d = model_save_descr ->
    forall h, save_d bytes pickle d h = Some (save bytes pickle h).
  Proof. intros d ->. exact save_d_model. Qed.

  Theorem load_d_of_descr : forall d, d = model_load_descr ->
    forall s f, load_d bytes unpickle d s f = Some (load_file bytes unpickle s f).
  Proof. intros d ->. exact load_d_model. Qed.
End PickleDescrProofs.
